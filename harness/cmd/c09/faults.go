// hx-c09 faults: lockstep histories like `hist`, but
//   - the store handed to NewMap/NewSet is a fault-injecting KVStore (its realm views share one controller): a call of
//     Set/Add/Delete/Commit may run with "the store refuses the j-th write (Set/Delete) of this call";
//   - Stream consumers may return an error at visit j, and the history goes on with the same instance afterwards
//     (every step runs under a watchdog: a call that does not return is a failure with the history);
//   - besides K = string (copying decoder) the histories also run with slice-typed keys and values whose codecs are
//     zero-copy in both directions; consumers retain what they receive and compare it later with copies taken at
//     delivery (aliasing probe);
//   - `probe` opens a SECOND instance over the same store (the live one stays) and reads WasRestored/Root/Size/Stream/Get:
//     what a reopen would see right now.
//
// Model: Verif.C09_ADS.Faults (fault script transcribed from the order of the writes in map_impl.go); cases for
// Verif.C09_ADS.FaultsCorr. Go-side oracle (independent of Coq): see frunner.
package main

import (
	"bytes"
	"encoding/hex"
	"encoding/json"
	"errors"
	"flag"
	"fmt"
	"os"
	"sort"
	"strings"
	"time"

	"github.com/iotaledger/hive.go/ads"
	"github.com/iotaledger/hive.go/kvstore"
	"github.com/iotaledger/hive.go/kvstore/mapdb"
	"github.com/iotaledger/hive.go/serializer/v2/typeutils"

	"verif/harness/vx"
)

// ---------- the fault-injecting store ----------

var errInjected = errors.New("injected store fault")

// faultCtl is shared by a store and all realm views derived from it. While armed, the (left+1)-th write is refused
// (no side effect on the store), all others pass.
type faultCtl struct {
	armed  bool
	left   int
	fired  bool
	writes int // writes seen while armed (passed or refused)
	total  int // all writes ever
}

func (c *faultCtl) arm(j int) { c.armed, c.left, c.fired, c.writes = true, j, false, 0 }
func (c *faultCtl) disarm()   { c.armed = false }

// write: true = refuse this write
func (c *faultCtl) write() bool {
	c.total++
	if !c.armed {
		return false
	}
	c.writes++
	if c.fired {
		return false
	}
	if c.left == 0 {
		c.fired = true
		return true
	}
	c.left--
	return false
}

type faultStore struct {
	kvstore.KVStore
	ctl *faultCtl
}

func (f *faultStore) WithRealm(r kvstore.Realm) (kvstore.KVStore, error) {
	in, err := f.KVStore.WithRealm(r)
	if err != nil {
		return nil, err
	}
	return &faultStore{KVStore: in, ctl: f.ctl}, nil
}

func (f *faultStore) WithExtendedRealm(r kvstore.Realm) (kvstore.KVStore, error) {
	in, err := f.KVStore.WithExtendedRealm(r)
	if err != nil {
		return nil, err
	}
	return &faultStore{KVStore: in, ctl: f.ctl}, nil
}

func (f *faultStore) Set(k kvstore.Key, v kvstore.Value) error {
	if f.ctl.write() {
		return errInjected
	}
	return f.KVStore.Set(k, v)
}

func (f *faultStore) Delete(k kvstore.Key) error {
	if f.ctl.write() {
		return errInjected
	}
	return f.KVStore.Delete(k)
}

func (f *faultStore) DeletePrefix(p kvstore.KeyPrefix) error {
	if f.ctl.write() {
		return errInjected
	}
	return f.KVStore.DeletePrefix(p)
}

func (f *faultStore) Clear() error {
	if f.ctl.write() {
		return errInjected
	}
	return f.KVStore.Clear()
}

type faultBatch struct {
	kvstore.BatchedMutations
	ctl *faultCtl
}

func (b *faultBatch) Commit() error {
	if b.ctl.write() {
		b.BatchedMutations.Cancel()
		return errInjected
	}
	return b.BatchedMutations.Commit()
}

func (f *faultStore) Batched() (kvstore.BatchedMutations, error) {
	in, err := f.KVStore.Batched()
	if err != nil {
		return nil, err
	}
	return &faultBatch{BatchedMutations: in, ctl: f.ctl}, nil
}

// ---------- key/value types ----------

// slice-typed key and value with zero-copy codecs in both directions
type bkey []byte
type bval []byte

func bkeyToBytes(k bkey) ([]byte, error)        { return k, nil }
func bkeyFromBytes(b []byte) (bkey, int, error) { return b, len(b), nil }
func bvalToBytes(v bval) ([]byte, error)        { return v, nil }
func bvalFromBytes(b []byte) (bval, int, error) { return b, len(b), nil }

// api is what the runner drives; keys and values cross it as byte slices. For slice-typed K the slice handed to a
// Stream consumer is the very object the library delivered (no copy), so retention shows aliasing.
type api interface {
	Set(k, v []byte) error
	Add(k []byte) error
	Delete(k []byte) (bool, error)
	Has(k []byte) (bool, error)
	Get(k []byte) ([]byte, bool, error)
	Stream(cb func(k, v []byte) error) error
	Root() [32]byte
	Size() int
	Restored() bool
	Commit() error
}

type gInst[K any] struct {
	m  ads.Map[[32]byte, K, bval]
	s  ads.Set[[32]byte, K]
	mk func([]byte) K // a fresh key object for every call
	un func(K) []byte
}

func (g *gInst[K]) Set(k, v []byte) error {
	if v == nil {
		return g.m.Set(g.mk(k), nil)
	}
	return g.m.Set(g.mk(k), bval(append([]byte{}, v...)))
}
func (g *gInst[K]) Add(k []byte) error { return g.s.Add(g.mk(k)) }
func (g *gInst[K]) Delete(k []byte) (bool, error) {
	if g.s != nil {
		return g.s.Delete(g.mk(k))
	}
	return g.m.Delete(g.mk(k))
}
func (g *gInst[K]) Has(k []byte) (bool, error) {
	if g.s != nil {
		return g.s.Has(g.mk(k))
	}
	return g.m.Has(g.mk(k))
}
func (g *gInst[K]) Get(k []byte) ([]byte, bool, error) {
	if g.s != nil { // the set has no Get: Has, value = empty
		h, err := g.s.Has(g.mk(k))
		if h {
			return []byte{}, true, err
		}
		return nil, false, err
	}
	v, ex, err := g.m.Get(g.mk(k))
	return v, ex, err
}
func (g *gInst[K]) Stream(cb func(k, v []byte) error) error {
	if g.s != nil {
		return g.s.Stream(func(k K) error { return cb(g.un(k), nil) })
	}
	return g.m.Stream(func(k K, v bval) error { return cb(g.un(k), v) })
}
func (g *gInst[K]) Root() [32]byte {
	if g.s != nil {
		return g.s.Root()
	}
	return g.m.Root()
}
func (g *gInst[K]) Size() int {
	if g.s != nil {
		return g.s.Size()
	}
	return g.m.Size()
}
func (g *gInst[K]) Restored() bool {
	if g.s != nil {
		return g.s.WasRestoredFromStorage()
	}
	return g.m.WasRestoredFromStorage()
}
func (g *gInst[K]) Commit() error {
	if g.s != nil {
		return g.s.Commit()
	}
	return g.m.Commit()
}

func openG[K any](store kvstore.KVStore, set bool, kToB kvstore.ObjectToBytes[K], bToK kvstore.BytesToObject[K], mk func([]byte) K, un func(K) []byte) api {
	g := &gInst[K]{mk: mk, un: un}
	if set {
		g.s = ads.NewSet[[32]byte](store, typeutils.ByteArray32ToBytes, typeutils.ByteArray32FromBytes, kToB, bToK)
	} else {
		g.m = ads.NewMap[[32]byte](store, typeutils.ByteArray32ToBytes, typeutils.ByteArray32FromBytes, kToB, bToK, bvalToBytes, bvalFromBytes)
	}
	return g
}

func openAPI(store kvstore.KVStore, set, zc bool) api {
	if zc {
		return openG[bkey](store, set, bkeyToBytes, bkeyFromBytes,
			func(b []byte) bkey { return bkey(append([]byte{}, b...)) }, func(k bkey) []byte { return k })
	}
	return openG[string](store, set, keyToBytes, keyFromBytes,
		func(b []byte) string { return string(b) }, func(k string) []byte { return []byte(k) })
}

// ---------- events ----------

type fev struct {
	ev
	Fail  int      `json:"fail,omitempty"`  // j+1: the store refuses the j-th write of this call (set add delete commit)
	Abort int      `json:"abort,omitempty"` // j+1: the Stream consumer returns an error at visit j (stream keys)
	Keys  []string `json:"keys,omitempty"`  // probe: the keys read on the second instance (hex)
}

func (e fev) modelled() bool { return !(e.Op == "commit" && e.Fail > 1) }

func (e fev) coq(set bool) string {
	k := vx.Bytes([]byte(e.key()))
	switch {
	case e.Op == "probe":
		ks := make([]string, len(e.Keys))
		for i, h := range e.Keys {
			b, _ := hex.DecodeString(h)
			ks[i] = vx.Bytes(b)
		}
		return fmt.Sprintf("FProbe %s %s", vx.Bool(set), vx.List(ks))
	case e.Fail > 0 && e.Op == "set":
		return fmt.Sprintf("FFailSet %s %s %s", k, vx.Opt(!e.VNil, vx.Bytes(e.val())), vx.Nat(e.Fail-1))
	case e.Fail > 0 && e.Op == "add":
		return fmt.Sprintf("FFailAdd %s %s", k, vx.Nat(e.Fail-1))
	case e.Fail > 0 && e.Op == "delete":
		return fmt.Sprintf("FFailDelete %s %s", k, vx.Nat(e.Fail-1))
	case e.Fail == 1 && e.Op == "commit":
		return "FFailCommitRoot"
	case e.Fail > 1 && e.Op == "commit":
		return fmt.Sprintf("(* not modelled: commit with write %d refused *) FFailCommitRoot", e.Fail-1)
	case e.Abort > 0 && e.Op == "stream":
		return "FAbort " + vx.Nat(e.Abort-1)
	case e.Abort > 0 && e.Op == "keys":
		return "FAbortKeys " + vx.Nat(e.Abort-1)
	}
	return "FOk (" + e.ev.coq() + ")"
}

func fk(e ev) fev                 { return fev{ev: e} }
func ffail(e ev, j int) fev       { return fev{ev: e, Fail: j + 1} }
func fabort(op string, j int) fev { return fev{ev: mk(op), Abort: j + 1} }
func fprobe(keys ...string) fev {
	hs := make([]string, len(keys))
	for i, k := range keys {
		hs[i] = hex.EncodeToString([]byte(k))
	}
	return fev{ev: mk("probe"), Keys: hs}
}

// ---------- the runner and its oracle ----------

const (
	sigRefusedWrite = "refused-write-keeps-trie-update"
	sigLateCommit   = "commit-fault-after-root-write"
)

var errConsumer = errors.New("consumer: enough")

type retained struct {
	step   int
	k, v   []byte // as delivered (no copy)
	kc, vc []byte // copies taken inside the callback
	vnil   bool
}

// frunner: one live instance over a fault-injecting store, and the oracle's plain maps.
//
// Oracle (Go, independent of the Coq model):
//   - Get/Has/Delete/Root of the live instance against the plain map `ref` (root classes: contents <-> root bijection);
//   - a call the store refused a write of must return an error; a refused ROOT write (Commit) must leave no trace at all:
//     same Root/Size/contents, WasRestored unchanged, and the second instance shows the previously committed state;
//   - WasRestored (live, after every call; second instance) <=> a Commit SUCCEEDED before;
//   - second instance (probe): Root = root of the last committed contents, Get = committed contents; Size, WasRestored and the
//     streamed key set equal the live instance's (they are written through); with nothing uncommitted also Root/Stream equal;
//   - Size/Stream against the plain map as long as no reopen dropped uncommitted changes and no write of Set/Delete was refused;
//   - an aborted Stream returns the consumer's error, visited exactly the first j+1 elements, no visit after the error;
//   - retained keys/values stay equal to what was delivered (checked after the call and at the end of the history);
//   - no call hangs or panics.
//
// A refused raw-key / size write of Set/Delete leaves the trie updated (listed finding sigRefusedWrite): the oracle follows
// the trace (reads the key right after the failed call), and from then on judges Size/Stream only through probe = live.
type frunner struct {
	db        kvstore.KVStore
	ctl       *faultCtl
	store     kvstore.KVStore
	set, zc   bool
	in        api
	ref       map[string][]byte
	committed map[string][]byte
	dirty     bool
	sizeOff   bool
	lateFault bool // a Commit failed after the root key was written: the store is in no committed state (finding)
	rc        *rootClasses
	fails     []string
	roots     int
	kept      []retained
	known     map[string]bool
	fired     int
}

func newFrunner(set, zc bool, rc *rootClasses) *frunner {
	db := mapdb.NewMapDB()
	ctl := &faultCtl{}
	st := &faultStore{KVStore: db, ctl: ctl}
	return &frunner{db: db, ctl: ctl, store: st, set: set, zc: zc, in: openAPI(st, set, zc), ref: map[string][]byte{}, rc: rc, known: map[string]bool{}}
}

type fobs struct {
	out      string
	size     int
	restored bool
}

func (u *frunner) failf(i int, e fev, f string, a ...any) {
	u.fails = append(u.fails, fmt.Sprintf("step %d (%s): ", i, e.Op)+fmt.Sprintf(f, a...))
}

func (u *frunner) committedOrEmpty() map[string][]byte {
	if u.committed == nil {
		return map[string][]byte{}
	}
	return u.committed
}

// collect runs a Stream on x with a retaining consumer that returns errConsumer at visit abortAt (-1: never).
func (u *frunner) collect(i int, e fev, x api, abortAt int) (got []retained, err error, visitsAfterAbort int) {
	aborted := false
	err = x.Stream(func(k, v []byte) error {
		if aborted {
			visitsAfterAbort++
			return errConsumer
		}
		got = append(got, retained{step: i, k: k, v: v, kc: append([]byte{}, k...), vc: append([]byte{}, v...), vnil: v == nil})
		if len(got)-1 == abortAt {
			aborted = true
			return errConsumer
		}
		return nil
	})
	u.checkKept(i, e, got, "right after Stream returned")
	u.kept = append(u.kept, got...)
	return got, err, visitsAfterAbort
}

func (u *frunner) checkKept(i int, e fev, items []retained, when string) {
	for _, x := range items {
		if !bytes.Equal(x.k, x.kc) {
			u.failf(i, e, "aliasing: key delivered by the Stream of step %d as %x reads %x %s", x.step, x.kc, x.k, when)
			return
		}
		if !bytes.Equal(x.v, x.vc) {
			u.failf(i, e, "aliasing: value delivered by the Stream of step %d for key %x as %x reads %x %s", x.step, x.kc, x.vc, x.v, when)
			return
		}
	}
}

func streamTerms(got []retained, set bool) []string {
	terms := make([]string, len(got))
	for j, x := range got {
		if set {
			terms[j] = vx.Bytes(x.kc)
		} else {
			terms[j] = vx.Pair(vx.Bytes(x.kc), vx.Opt(!x.vnil, vx.Bytes(x.vc)))
		}
	}
	return terms
}

func sortedKeys(m map[string][]byte) []string {
	ks := make([]string, 0, len(m))
	for k := range m {
		ks = append(ks, k)
	}
	sort.Strings(ks)
	return ks
}

// judgeStream: delivered must be the first n bindings of ref in key order
func (u *frunner) judgeStream(i int, e fev, got []retained, n int) {
	ks := sortedKeys(u.ref)
	if n > len(ks) {
		n = len(ks)
	}
	if len(got) != n {
		u.failf(i, e, "Stream visited %d elements, expected %d (plain map has %d keys)", len(got), n, len(ks))
		return
	}
	for j, x := range got {
		want := u.ref[ks[j]]
		if string(x.kc) != ks[j] || (!u.set && (x.vnil || !bytes.Equal(x.vc, want))) {
			u.failf(i, e, "Stream visit %d delivered %q=%x (nil=%v); plain map in key order has %q=%x", j, x.kc, x.vc, x.vnil, ks[j], want)
			return
		}
	}
}

func (u *frunner) do(i int, e fev) fobs {
	in, ref := u.in, u.ref
	out := "FC CNone"
	k := []byte(e.key())
	armed := e.Fail > 0
	if armed {
		u.ctl.arm(e.Fail - 1)
	}
	fired := false
	// chk: the error result of a mutating call, against whether the store refused a write
	chk := func(err error) bool {
		u.ctl.disarm()
		fired = armed && u.ctl.fired
		if fired {
			u.fired++
			if err == nil {
				u.failf(i, e, "the store refused write %d of this call, the call returned no error", e.Fail-1)
			} else if !errors.Is(err, errInjected) {
				u.failf(i, e, "the store refused write %d of this call, the call returned a different error: %v", e.Fail-1, err)
			}
			out = "FC CErr"
			return false
		}
		if err != nil {
			out = "FC CErr"
			u.failf(i, e, "error: %v", err)
			return false
		}
		return true
	}
	// trace: after a refused write of Set/Delete, does the trie show the call's effect? (Size / raw keys may be behind now)
	trace := func(want []byte, wantPresent bool) {
		u.sizeOff = true
		v, ex, err := in.Get(k)
		old, was := ref[string(k)]
		sameOld := ex == was && (!ex || bytes.Equal(v, old))
		sameNew := ex == wantPresent && (!ex || bytes.Equal(v, want))
		switch {
		case err != nil:
			u.failf(i, e, "Get(%q) after the refused write: %v", k, err)
		case sameOld: // no trace (or the call would not have changed the binding)
		case sameNew:
			u.known[sigRefusedWrite] = true
			u.dirty = true
			if wantPresent {
				ref[string(k)] = want
			} else {
				delete(ref, string(k))
			}
		default:
			u.failf(i, e, "after the refused write Get(%q) = %x,%v: neither the old binding %x,%v nor the new one %x,%v", k, v, ex, old, was, want, wantPresent)
		}
	}
	switch e.Op {
	case "set":
		v := e.val()
		ok := chk(in.Set(k, v))
		if v == nil {
			v = []byte{}
		}
		if ok {
			if old, was := ref[string(k)]; !was || !bytes.Equal(old, v) {
				u.dirty = true
			}
			ref[string(k)] = v
		} else if fired {
			trace(v, true)
		}
	case "add":
		ok := chk(in.Add(k))
		if ok {
			if _, was := ref[string(k)]; !was {
				u.dirty = true
			}
			ref[string(k)] = []byte{}
		} else if fired {
			trace([]byte{}, true)
		}
	case "delete":
		d, err := in.Delete(k)
		_, was := ref[string(k)]
		if chk(err) {
			out = "FC (CBool " + vx.Bool(d) + ")"
			if d != was {
				u.failf(i, e, "Delete(%q) = %v, key present = %v", k, d, was)
			}
			if was {
				u.dirty = true
			}
			delete(ref, string(k))
		} else if fired {
			trace(nil, false)
		}
	case "commit":
		rootBefore, sizeBefore := in.Root(), in.Size()
		if chk(in.Commit()) {
			u.committed = copyMap(ref)
			u.dirty = false
		} else if fired && e.Fail == 1 {
			// the root write was refused: nothing may have changed (Restored is judged below, the store by the probe)
			if r := in.Root(); r != rootBefore {
				u.failf(i, e, "refused Commit changed Root %x -> %x", rootBefore[:4], r[:4])
			}
			if s := in.Size(); s != sizeBefore {
				u.failf(i, e, "refused Commit changed Size %d -> %d", sizeBefore, s)
			}
		} else if fired {
			u.lateFault = true
		}
	case "reopen":
		old := in.Root()
		u.in = openAPI(u.store, u.set, u.zc)
		in = u.in
		if u.dirty {
			u.sizeOff = true // the listed finding dirty-reopen-keeps-size-and-rawkeys (reported by hx-c09 hist)
			u.ref = copyMap(u.committedOrEmpty())
			u.dirty = false
		} else if r := in.Root(); r != old && !u.lateFault {
			u.failf(i, e, "reopen without uncommitted changes: Root %x became %x", old[:4], r[:4])
		}
	case "get":
		v, ex, err := in.Get(k)
		if chk(err) {
			out = "FC (CGet " + vx.Opt(ex, vx.Bytes(v)) + ")"
			want, was := ref[string(k)]
			if ex != was || (ex && !bytes.Equal(v, want)) {
				u.failf(i, e, "Get(%q) = %x,%v; plain map has %x,%v", k, v, ex, want, was)
			}
		}
	case "has":
		b, err := in.Has(k)
		if chk(err) {
			out = "FC (CBool " + vx.Bool(b) + ")"
			if _, was := ref[string(k)]; b != was {
				u.failf(i, e, "Has(%q) = %v; plain map %v", k, b, was)
			}
		}
	case "stream", "keys":
		got, err, after := u.collect(i, e, in, e.Abort-1)
		terms := vx.List(streamTerms(got, u.set))
		hit := e.Abort > 0 && len(got) == e.Abort
		if after > 0 {
			u.failf(i, e, "the consumer was called %d more time(s) after it returned an error", after)
		}
		switch {
		case hit && err == nil:
			u.failf(i, e, "the consumer returned an error at visit %d, Stream returned nil", e.Abort-1)
		case hit && !errors.Is(err, errConsumer):
			u.failf(i, e, "Stream returned an error that is not the consumer's: %v", err)
		case !hit && err != nil:
			u.failf(i, e, "error: %v", err)
		}
		switch {
		case e.Abort > 0 && u.set:
			out = fmt.Sprintf("FCAbortKeys %s %s", terms, vx.Bool(err != nil))
		case e.Abort > 0:
			out = fmt.Sprintf("FCAbort %s %s", terms, vx.Bool(err != nil))
		case err != nil:
			out = "FC CErr"
		case u.set:
			out = "FC (CKeys " + terms + ")"
		default:
			out = "FC (CStream " + terms + ")"
		}
		if !u.sizeOff {
			n := len(ref)
			if e.Abort > 0 {
				n = e.Abort
			}
			u.judgeStream(i, e, got, n)
		}
	case "root":
		r := in.Root()
		u.roots++
		out = fmt.Sprintf("FC (CRoot %d%%positive)", u.rc.id(r))
		if why := u.rc.judge(ref, r); why != "" {
			u.failf(i, e, "root classes: %s", why)
		}
	case "restored":
		out = "FC (CBool " + vx.Bool(in.Restored()) + ")"
	case "probe":
		out = u.probe(i, e)
	default:
		panic("bad op " + e.Op)
	}
	u.ctl.disarm()
	in, ref = u.in, u.ref
	o := fobs{out: out, size: in.Size(), restored: in.Restored()}
	if !u.sizeOff && o.size != len(ref) {
		u.failf(i, e, "Size() = %d, plain map has %d keys", o.size, len(ref))
	}
	if want := u.committed != nil || u.lateFault; o.restored != want {
		u.failf(i, e, "WasRestoredFromStorage() = %v, a Commit succeeded before = %v", o.restored, want)
	}
	return o
}

// probe: a second instance over the same store, next to the live one
func (u *frunner) probe(i int, e fev) string {
	p := openAPI(u.store, u.set, u.zc)
	restored, root, size := p.Restored(), p.Root(), p.Size()
	got, err, _ := u.collect(i, e, p, -1)
	if err != nil {
		u.failf(i, e, "second instance: Stream: %v", err)
	}
	gets := make([]string, len(e.Keys))
	com := u.committedOrEmpty()
	for j, h := range e.Keys {
		kb, _ := hex.DecodeString(h)
		v, ex, err := p.Get(kb)
		if err != nil {
			u.failf(i, e, "second instance: Get(%q): %v", kb, err)
		}
		gets[j] = vx.Opt(ex, vx.Bytes(v))
		if want, was := com[string(kb)]; !u.lateFault && (ex != was || (ex && !bytes.Equal(v, want))) {
			u.failf(i, e, "second instance: Get(%q) = %x,%v; committed contents have %x,%v", kb, v, ex, want, was)
		}
	}
	if want := u.committed != nil || u.lateFault; restored != want {
		u.failf(i, e, "second instance: WasRestoredFromStorage() = %v, a Commit succeeded before = %v", restored, want)
	}
	if lr := u.in.Restored(); lr != restored {
		u.failf(i, e, "WasRestoredFromStorage(): live instance %v, second instance over the same store %v", lr, restored)
	}
	if !u.lateFault {
		if why := u.rc.judge(com, root); why != "" {
			u.failf(i, e, "second instance, root classes (committed contents): %s", why)
		}
	}
	if ls := u.in.Size(); ls != size {
		u.failf(i, e, "Size(): live instance %d, second instance over the same store %d", ls, size)
	}
	live, lerr, _ := u.collect(i, e, u.in, -1)
	if lerr != nil {
		u.failf(i, e, "live instance: Stream: %v", lerr)
	} else if err == nil {
		a, b := make([]string, len(live)), make([]string, len(got))
		for j, x := range live {
			a[j] = hex.EncodeToString(x.kc)
		}
		for j, x := range got {
			b[j] = hex.EncodeToString(x.kc)
		}
		if strings.Join(a, ",") != strings.Join(b, ",") {
			u.failf(i, e, "streamed keys: live instance [%s], second instance over the same store [%s]", strings.Join(a, ","), strings.Join(b, ","))
		}
	}
	if !u.dirty && !u.sizeOff && !u.lateFault {
		if lr := u.in.Root(); lr != root {
			u.failf(i, e, "nothing uncommitted: live Root %x, second instance %x", lr[:4], root[:4])
		}
		u.judgeStream(i, e, got, len(u.ref))
		if size != len(u.ref) {
			u.failf(i, e, "second instance: Size() = %d, plain map has %d keys", size, len(u.ref))
		}
	}
	var terms []string
	for _, x := range got {
		terms = append(terms, vx.Pair(vx.Bytes(x.kc), vx.Opt(!u.set && !x.vnil, vx.Bytes(x.vc))))
	}
	return fmt.Sprintf("FCProbe %s %d%%positive %s %s %s", vx.Bool(restored), u.rc.id(root), vx.Z(int64(size)), vx.List(terms), vx.List(gets))
}

// step runs do under recover and a watchdog. hung = the call did not return within the limit (the instance is lost).
func (u *frunner) step(i int, e fev, limit time.Duration) (o fobs, hung bool) {
	done := make(chan fobs, 1)
	go func() {
		defer func() {
			if p := recover(); p != nil {
				u.ctl.disarm()
				u.failf(i, e, "panic: %v", p)
				done <- fobs{out: "FC CErr"}
			}
		}()
		done <- u.do(i, e)
	}()
	select {
	case o = <-done:
		return o, false
	case <-time.After(limit):
		return fobs{}, true
	}
}

type fcaseDesc struct {
	Set     bool   `json:"set"`
	ZC      bool   `json:"zc"`
	History []fev  `json:"history"`
	Tag     string `json:"tag,omitempty"`
}

// runFaults runs the history; res covers the steps that returned.
func runFaults(c fcaseDesc, rc *rootClasses, limit time.Duration) (res []fobs, u *frunner, hungAt int) {
	u = newFrunner(c.Set, c.ZC, rc)
	hungAt = -1
	for i, e := range c.History {
		o, hung := u.step(i, e, limit)
		if hung {
			// the runner's goroutine is stuck inside the library: do not touch u's instance any more
			return res, u, i
		}
		res = append(res, o)
	}
	u.checkKept(len(c.History), fev{ev: mk("end")}, u.kept, "at the end of the history")
	return res, u, -1
}

// ---------- generation ----------

func genFaultHistory(r *vx.Rng, set bool, n int) []fev {
	nk := 1 + r.Intn(6)
	perm := append([]string{}, pool...)
	for i := len(perm) - 1; i > 0; i-- {
		j := r.Intn(i + 1)
		perm[i], perm[j] = perm[j], perm[i]
	}
	keys := perm[:nk]
	if r.Chance(1, 2) && nk >= 3 {
		keys[0], keys[1] = pool[6], pool[7]
	}
	nv := 2 + r.Intn(len(values)-1)
	mode := r.Intn(4) // 0: no store faults; 1: Commit only; 2,3: Set/Add/Delete too
	allowDirtyReopen := r.Chance(1, 4)
	dirty, justCommitted, committedOnce := false, false, false
	var h []fev
	probe := func() { h = append(h, fprobe(keys...)) }
	for len(h) < n {
		k := vx.Pick(r, keys)
		x := r.Intn(100)
		if justCommitted && r.Chance(1, 2) {
			x = 97
		}
		justCommitted = false
		switch {
		case x < 30:
			e := mkK("add", k)
			if !set {
				e = mkSet(k, values[r.Intn(nv)])
			}
			if mode >= 2 && r.Chance(1, 4) {
				h = append(h, ffail(e, r.Intn(2)))
				if r.Chance(3, 4) {
					probe()
				}
			} else {
				h = append(h, fk(e))
			}
			dirty = true
		case x < 46:
			if mode >= 2 && r.Chance(1, 4) {
				h = append(h, ffail(mkK("delete", k), r.Intn(2)))
				if r.Chance(3, 4) {
					probe()
				}
			} else {
				h = append(h, fk(mkK("delete", k)))
			}
			dirty = true
		case x < 52:
			if set {
				h = append(h, fk(mkK("has", k)))
			} else {
				h = append(h, fk(mkK("get", k)))
			}
		case x < 58:
			h = append(h, fk(mkK("has", k)))
		case x < 64:
			if set {
				h = append(h, fk(mk("keys")))
			} else {
				h = append(h, fk(mk("stream")))
			}
		case x < 71:
			op := "stream"
			if set {
				op = "keys"
			}
			h = append(h, fabort(op, r.Intn(nk+1)))
		case x < 79:
			h = append(h, fk(mk("root")))
		case x < 90:
			num := 1
			if !committedOnce {
				num = 2
			}
			if mode >= 1 && r.Chance(num, 4) {
				h = append(h, ffail(mk("commit"), 0))
				if r.Chance(3, 4) {
					probe()
				}
			} else {
				h = append(h, fk(mk("commit")))
				dirty, justCommitted, committedOnce = false, true, true
			}
		case x < 92:
			h = append(h, fk(mk("restored")))
		case x < 96:
			probe()
		default:
			if dirty && !allowDirtyReopen {
				continue
			}
			h = append(h, fk(mk("reopen")))
			dirty = false
		}
	}
	str := "stream"
	if set {
		str = "keys"
	}
	h = append(h, fk(mk("root")), fk(mk(str)))
	probe()
	if r.Chance(1, 2) {
		h = append(h, fk(mk("commit")), fk(mk("reopen")), fk(mk("root")), fk(mk(str)))
		probe()
	}
	return h
}

func directedFaults() []fcaseDesc {
	X1, X2 := pool[4], pool[5]
	return []fcaseDesc{
		{Set: false, ZC: false, Tag: "refused root write of the first Commit, then a good one", History: []fev{
			fk(mk("restored")), fk(mkSet("a", []byte{1})), fk(mkSet("b", []byte{2})), ffail(mk("commit"), 0), fk(mk("restored")), fprobe("a", "b"),
			fk(mk("root")), fk(mk("stream")), fk(mk("commit")), fk(mk("restored")), fprobe("a", "b"), fk(mkK("delete", "a")), ffail(mk("commit"), 0), fprobe("a", "b"),
			fk(mk("reopen")), fk(mk("root")), fk(mk("stream")), fprobe("a", "b")}},
		{Set: true, ZC: false, Tag: "aborted set Stream, then the instance is used again", History: []fev{
			fk(mkK("add", "a")), fk(mkK("add", "b")), fabort("keys", 0), fk(mkK("has", "a")), fk(mk("keys")), fk(mk("root")), fk(mk("commit")), fk(mk("reopen")),
			fabort("keys", 1), fabort("keys", 5), fk(mk("keys")), fk(mkK("delete", "a")), fabort("keys", 0), fk(mk("root")), fprobe("a", "b")}},
		{Set: false, ZC: true, Tag: "zero-copy slice keys of equal length, retaining consumers", History: []fev{
			fk(mkSet(X1, []byte{1})), fk(mkSet(X2, []byte{2})), fk(mkSet("ab", []byte{3, 4})), fk(mkSet("b", []byte{5})), fk(mkSet("a", []byte{6})), fk(mk("stream")), fprobe(X1, X2, "ab"),
			fabort("stream", 2), fk(mk("commit")), fk(mk("reopen")), fk(mk("stream")), fk(mkSet(X1, []byte{9})), fk(mkK("delete", X2)), fk(mk("stream")), fk(mk("root")), fprobe(X1, X2, "ab")}},
		{Set: true, ZC: true, Tag: "zero-copy slice keys, set flavour", History: []fev{
			fk(mkK("add", X1)), fk(mkK("add", X2)), fk(mkK("add", "ab")), fk(mk("keys")), fabort("keys", 1), fk(mk("keys")), fk(mk("commit")), fprobe(X1, X2, "ab"), fk(mk("root"))}},
		{Set: false, ZC: false, Tag: "refused size write of a Set of a new key", History: []fev{
			fk(mkSet("a", []byte{1})), fk(mk("commit")), ffail(mkSet("b", []byte{2}), 1), fprobe("a", "b"), fk(mkK("has", "b")), fk(mk("stream")), fk(mkSet("b", []byte{2})), fk(mk("stream")),
			fprobe("a", "b"), fk(mk("commit")), fk(mk("reopen")), fk(mk("stream")), fk(mk("root")), fprobe("a", "b")}},
		{Set: false, ZC: true, Tag: "refused raw-key write of a Set; refused writes of Delete", History: []fev{
			ffail(mkSet("a", []byte{1}), 0), fk(mkK("has", "a")), fk(mk("stream")), fprobe("a"), fk(mkSet("a", []byte{1})), fk(mk("stream")), fk(mkSet("b", nil)), fk(mk("commit")),
			ffail(mkK("delete", "a"), 0), fk(mkK("has", "a")), fk(mk("stream")), fprobe("a", "b"), ffail(mkK("delete", "b"), 1), fk(mk("stream")), fprobe("a", "b"), fk(mk("root")),
			ffail(mkK("delete", "zz"), 0), ffail(mkSet("b", []byte{7}), 1), fk(mk("commit")), fk(mk("reopen")), fk(mk("stream")), fprobe("a", "b")}},
		{Set: true, ZC: false, Tag: "set flavour: refused writes of Add/Delete/Commit", History: []fev{
			fk(mkK("add", "a")), ffail(mk("commit"), 0), fprobe("a", "b"), ffail(mkK("add", "b"), 1), fprobe("a", "b"), fk(mk("keys")), fk(mk("commit")), ffail(mkK("delete", "a"), 0),
			fk(mk("keys")), fprobe("a", "b"), fk(mk("root"))}},
	}
}

// findings that the model does not cover: run in Go only, reported by signature when they reproduce
func directedFindings(st *vx.Stats, limit time.Duration) {
	// Commit: the root key is written, then the store refuses a trie-node write (delete of an orphan / set of a new node):
	// the failed Commit has replaced the committed root, a second instance no longer shows the previously committed state
	for _, set := range []bool{false, true} {
		va, vb := []byte{1}, []byte{2}
		h := []fev{fk(mkSet("a", va)), fk(mk("root")), fk(mk("commit")), fk(mkSet("b", vb)), fk(mk("root")), ffail(mk("commit"), 1)}
		if set {
			va, vb = []byte{}, []byte{}
			h = []fev{fk(mkK("add", "a")), fk(mk("root")), fk(mk("commit")), fk(mkK("add", "b")), fk(mk("root")), ffail(mk("commit"), 1)}
		}
		rc := newRootClasses()
		u := newFrunner(set, false, rc)
		ok := true
		for i, e := range h {
			if _, hung := u.step(i, e, limit); hung {
				ok = false
				break
			}
		}
		if !ok || !u.lateFault || len(u.fails) > 0 {
			continue
		}
		rootA := rc.byContents[canon(map[string][]byte{"a": va})]
		p := openAPI(u.store, set, false)
		_, hasB, err := p.Get([]byte("b"))
		if pr := p.Root(); pr != rootA || hasB || err != nil {
			st.Count("finding:" + sigLateCommit)
			if !contains(st.Known, sigLateCommit) {
				st.Known = append(st.Known, sigLateCommit)
			}
			st.Extra["late_commit_fault_"+map[bool]string{false: "map", true: "set"}[set]] = fmt.Sprintf("second instance: Root is the committed root: %v, Get(b) = present %v, err %v", pr == rootA, hasB, err)
		}
	}
}

func contains(xs []string, s string) bool {
	for _, x := range xs {
		if x == s {
			return true
		}
	}
	return false
}

func emitFaults(cf *vx.CasesFile, st *vx.Stats, rc *rootClasses, c fcaseDesc, limit time.Duration) (hung bool) {
	o, u, hungAt := runFaults(c, rc, limit)
	for sig := range u.known {
		st.Count("finding:" + sig)
		if !contains(st.Known, sig) {
			st.Known = append(st.Known, sig)
		}
	}
	h := c.History
	if hungAt >= 0 {
		h = h[:hungAt]
	}
	modelled := true
	for _, e := range h {
		modelled = modelled && e.modelled()
	}
	terms := make([]string, len(o))
	for i, x := range o {
		terms[i] = fmt.Sprintf("mkFObs (%s) %s %s", x.out, vx.Z(int64(x.size)), vx.Bool(x.restored))
	}
	parts := make([]string, len(h))
	mut, faults, aborts := 0, 0, 0
	for i, e := range h {
		parts[i] = e.coq(c.Set)
		key := "faults-op:" + e.Op
		if e.Fail > 0 {
			key += "!refused-write"
			faults++
		}
		if e.Abort > 0 {
			key += "!consumer-error"
			aborts++
		}
		st.Count(key)
		if e.Op == "set" || e.Op == "add" || e.Op == "delete" {
			mut++
		}
	}
	if modelled {
		cf.Add(fmt.Sprintf("mkFCase %s %s", vx.List(parts), vx.List(terms)))
		st.CaseIndex = append(st.CaseIndex, map[string]any{"tag": c.Tag, "faults": c})
	}
	fl := "map"
	if c.Set {
		fl = "set"
	}
	ty := "string-keys"
	if c.ZC {
		ty = "zero-copy-slice-keys"
	}
	st.Count("faults-flavour:" + fl + "," + ty)
	st.Count(fmt.Sprintf("faults-refused-writes-fired:%d", min(u.fired, 4)))
	st.Case(fmt.Sprintf("faults:%s:%s:%s", fl, ty, strings.Join(parts, ";")), mut >= 3 && (faults+aborts) >= 1)
	st.Sample(map[string]any{"flavour": fl, "types": ty, "history": parts, "observed": terms}, 2)
	fails := u.fails
	if hungAt >= 0 {
		fails = append(fails, fmt.Sprintf("step %d (%s): the call did not return within %v (watchdog); the steps before it returned", hungAt, c.History[hungAt].Op, limit))
	}
	if len(fails) > 0 {
		if len(fails) > 12 {
			fails = append(fails[:12], fmt.Sprintf("... and %d more", len(fails)-12))
		}
		st.Fail(map[string]any{"sig": "", "faults": c, "why": fails})
	}
	return hungAt >= 0
}

func faultsMain(args []string) {
	fs := flag.NewFlagSet("faults", flag.ExitOnError)
	n := fs.Int("n", 300, "")
	maxLen := fs.Int("len", 40, "")
	seed := fs.Uint64("seed", 1, "")
	out := fs.String("out", "cases.v", "")
	stats := fs.String("stats", "stats.json", "")
	replay := fs.String("replay", "", "JSON file with {faults: {set, zc, history}} to run alone")
	hangMs := fs.Int("hang-ms", 8000, "watchdog per step")
	_ = fs.Parse(args)
	initPool()
	limit := time.Duration(*hangMs) * time.Millisecond
	r := vx.NewRng(*seed ^ 0xfa017)
	st := vx.NewStats("histories of Set/Add/Delete/Commit/reopen + reads on ads.Map and ads.Set over a fault-injecting store (the j-th store write of a call refused), Stream consumers returning an error at visit j followed by further calls, second instances opened over the same store (probe), K = string and K,V = slice types with zero-copy codecs and retaining consumers; distinct = distinct (flavour, types, history); non-trivial = at least 3 Set/Add/Delete calls and at least one refused write or consumer error")
	cf := &vx.CasesFile{
		Header: "From Coq Require Import NArith ZArith List PArith.\nFrom Verif.C09_ADS Require Import Model Corr Faults FaultsCorr.\nImport ListNotations.\nOpen Scope N_scope.\n",
		Type:   "fcase",
		Footer: "Definition M := Eval vm_compute in fmismatches cases.\nPrint M.\n",
	}
	rc := newRootClasses()
	if *replay != "" {
		var c struct {
			Faults *fcaseDesc `json:"faults"`
		}
		b, err := os.ReadFile(*replay)
		if err != nil {
			vx.Die("%v", err)
		}
		if err := json.Unmarshal(b, &c); err != nil || c.Faults == nil {
			vx.Die("bad replay file: %v", err)
		}
		emitFaults(cf, st, rc, *c.Faults, limit)
	} else {
		hangs := 0
		directedFindings(st, limit)
		for _, d := range directedFaults() {
			d.Tag = "directed: " + d.Tag
			if emitFaults(cf, st, rc, d, limit) {
				hangs++
			}
		}
		for cf.Len() < *n && hangs < 3 {
			set := r.Chance(1, 3)
			c := fcaseDesc{Set: set, ZC: r.Chance(1, 2), History: genFaultHistory(r.Fork(), set, 3+r.Intn(*maxLen)), Tag: "random"}
			if emitFaults(cf, st, rc, c, limit) {
				hangs++
			}
		}
		if hangs >= 3 {
			st.Extra["faults_stopped_after_hangs"] = hangs
		}
	}
	st.Extra["faults_root_classes"] = len(rc.ids)
	if err := cf.Write(*out); err != nil {
		vx.Die("%v", err)
	}
	if err := st.Write(*stats); err != nil {
		vx.Die("%v", err)
	}
}
