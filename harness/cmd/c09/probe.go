package main

import (
	"fmt"

	"github.com/iotaledger/hive.go/kvstore/mapdb"
)

// probe: D09 on the real code: Set(k, nil) twice.
func probe() {
	store := mapdb.NewMapDB()
	m := newMap(store)
	fmt.Println("set a nil:", m.Set("a", nil), "size", m.Size())
	h, _ := m.Has("a")
	fmt.Println("has a:", h)
	fmt.Println("set a nil:", m.Set("a", nil), "size", m.Size())
	fmt.Println("set b [1]:", m.Set("b", []byte{1}), "size", m.Size())
	h, _ = m.Has("a")
	v, ex, err := m.Get("a")
	fmt.Println("has a:", h, "get a:", v, v == nil, ex, err)
	d, err := m.Delete("a")
	fmt.Println("delete a:", d, err, "size", m.Size())
	_ = m.Stream(func(k string, v []byte) error { fmt.Printf("stream %q %v nil=%v\n", k, v, v == nil); return nil })
	fmt.Println("set c []:", m.Set("c", []byte{}), "size", m.Size())
	h, _ = m.Has("c")
	fmt.Println("has c:", h)
	fmt.Println(m.Commit())
	m2 := newMap(store)
	h, _ = m2.Has("c")
	v, ex, err = m2.Get("c")
	fmt.Println("reopened: has c:", h, "get c", v, v == nil, ex, err, "size", m2.Size(), "root eq", m.Root() == m2.Root(), "restored", m2.WasRestoredFromStorage())
	h, _ = m2.Has("a")
	fmt.Println("reopened: has a:", h)

	// finding dirty-reopen-keeps-size-and-rawkeys
	st2 := mapdb.NewMapDB()
	a := newMap(st2)
	_ = a.Set("a", []byte{1})
	_ = a.Commit()
	d, _ = a.Delete("a")
	fmt.Println("dirty: delete a:", d, "size", a.Size())
	b := newMap(st2)
	h, _ = b.Has("a")
	v, ex, _ = b.Get("a")
	n := 0
	_ = b.Stream(func(string, []byte) error { n++; return nil })
	fmt.Println("dirty reopen: has a:", h, "get a:", v, ex, "size", b.Size(), "streamed", n, "root == committed root:", b.Root() != [32]byte{})
	d, _ = b.Delete("a")
	fmt.Println("dirty reopen: delete a:", d, "size", b.Size())
}

// faultProbe: the two store-fault findings on the real code (hx-c09 faultprobe).
func faultProbe() {
	ctl := &faultCtl{}
	st := &faultStore{KVStore: mapdb.NewMapDB(), ctl: ctl}
	m := newMap(st)
	ctl.arm(0)
	err := m.Set("a", []byte{1})
	ctl.disarm()
	h, _ := m.Has("a")
	fmt.Println("Set(a,{1}) with the raw-key write refused:", err, "| Has(a)", h, "Size", m.Size())
	fmt.Println("retried Set(a,{1}):", m.Set("a", []byte{1}), "| Size", m.Size())
	_ = m.Stream(func(k string, v []byte) error { fmt.Printf("  stream %q %v\n", k, v); return nil })

	ctl2 := &faultCtl{}
	st2 := &faultStore{KVStore: mapdb.NewMapDB(), ctl: ctl2}
	m = newMap(st2)
	fmt.Println("Set(a,{1}); Commit:", m.Set("a", []byte{1}), m.Commit())
	rootA := m.Root()
	fmt.Println("Set(b,{2}):", m.Set("b", []byte{2}))
	rootAB := m.Root()
	ctl2.arm(1)
	err = m.Commit()
	ctl2.disarm()
	fmt.Println("Commit with the 2nd write refused:", err, "| writes attempted", ctl2.writes)
	m2 := newMap(st2)
	r := m2.Root()
	_, exA, errA := m2.Get("a")
	_, exB, errB := m2.Get("b")
	fmt.Println("second instance: restored", m2.WasRestoredFromStorage(), "Root is old", r == rootA, "is new", r == rootAB, "| Get(a)", exA, errA, "| Get(b)", exB, errB)
	fmt.Println("retried Commit (no fault):", m.Commit())
	m3 := newMap(st2)
	r = m3.Root()
	_, exA, errA = m3.Get("a")
	_, exB, errB = m3.Get("b")
	fmt.Println("second instance after the retried Commit: Root is new", r == rootAB, "| Get(a)", exA, errA, "| Get(b)", exB, errB)
}
