package main

import (
	"fmt"

	"github.com/iotaledger/hive.go/kvstore/mapdb"
)

// probe: D09 on the real code: Set(k, nil) twice.
func probe() {
	store := mapdb.NewMapDB()
	m := newMap(store)
	fmt.Println("set a nil:", m.Set("a", nil), "size", m.Size())
	h, _ := m.Has("a")
	fmt.Println("has a:", h)
	fmt.Println("set a nil:", m.Set("a", nil), "size", m.Size())
	fmt.Println("set b [1]:", m.Set("b", []byte{1}), "size", m.Size())
	h, _ = m.Has("a")
	v, ex, err := m.Get("a")
	fmt.Println("has a:", h, "get a:", v, v == nil, ex, err)
	d, err := m.Delete("a")
	fmt.Println("delete a:", d, err, "size", m.Size())
	_ = m.Stream(func(k string, v []byte) error { fmt.Printf("stream %q %v nil=%v\n", k, v, v == nil); return nil })
	fmt.Println("set c []:", m.Set("c", []byte{}), "size", m.Size())
	h, _ = m.Has("c")
	fmt.Println("has c:", h)
	fmt.Println(m.Commit())
	m2 := newMap(store)
	h, _ = m2.Has("c")
	v, ex, err = m2.Get("c")
	fmt.Println("reopened: has c:", h, "get c", v, v == nil, ex, err, "size", m2.Size(), "root eq", m.Root() == m2.Root(), "restored", m2.WasRestoredFromStorage())
	h, _ = m2.Has("a")
	fmt.Println("reopened: has a:", h)

	// finding dirty-reopen-keeps-size-and-rawkeys
	st2 := mapdb.NewMapDB()
	a := newMap(st2)
	_ = a.Set("a", []byte{1})
	_ = a.Commit()
	d, _ = a.Delete("a")
	fmt.Println("dirty: delete a:", d, "size", a.Size())
	b := newMap(st2)
	h, _ = b.Has("a")
	v, ex, _ = b.Get("a")
	n := 0
	_ = b.Stream(func(string, []byte) error { n++; return nil })
	fmt.Println("dirty reopen: has a:", h, "get a:", v, ex, "size", b.Size(), "streamed", n, "root == committed root:", b.Root() != [32]byte{})
	d, _ = b.Delete("a")
	fmt.Println("dirty reopen: delete a:", d, "size", b.Size())
}
