// C09 harness (skeleton)
package main

import (
	"os"

	"github.com/iotaledger/hive.go/ads"
	"github.com/iotaledger/hive.go/kvstore"
	"github.com/iotaledger/hive.go/serializer/v2/typeutils"
)

func keyToBytes(k string) ([]byte, error)          { return []byte(k), nil }
func keyFromBytes(b []byte) (string, int, error)   { return string(b), len(b), nil }
func valToBytes(v []byte) ([]byte, error)          { return v, nil }
func valFromBytes(b []byte) ([]byte, int, error)   { return b, len(b), nil }

func newMap(store kvstore.KVStore) ads.Map[[32]byte, string, []byte] {
	return ads.NewMap[[32]byte](store, typeutils.ByteArray32ToBytes, typeutils.ByteArray32FromBytes, keyToBytes, keyFromBytes, valToBytes, valFromBytes)
}

func main() {
	if len(os.Args) > 1 && os.Args[1] == "probe" {
		probe()
	}
}
