// C09 harness: lockstep histories of Set/Add/Delete/Commit/reopen (+ Get/Has/Stream/Root/WasRestored reads) on the
// real ads.Map / ads.Set over one mapdb; every call's result, and Size()/WasRestoredFromStorage() after every call,
// are written as Coq terms for Verif.C09_ADS.Corr. A Go-side oracle (plain Go map + committed snapshot; independent
// of the Coq model) judges the property itself, including the root classes (contents <-> Root() must be a bijection
// over everything explored).
package main

import (
	"bytes"
	"crypto/sha256"
	"encoding/hex"
	"encoding/json"
	"flag"
	"fmt"
	"os"
	"sort"
	"strings"

	"github.com/iotaledger/hive.go/ads"
	"github.com/iotaledger/hive.go/kvstore"
	"github.com/iotaledger/hive.go/kvstore/mapdb"
	"github.com/iotaledger/hive.go/serializer/v2/typeutils"

	"verif/harness/vx"
)

func keyToBytes(k string) ([]byte, error)        { return []byte(k), nil }
func keyFromBytes(b []byte) (string, int, error) { return string(b), len(b), nil }
func valToBytes(v []byte) ([]byte, error)        { return v, nil }
func valFromBytes(b []byte) ([]byte, int, error) { return b, len(b), nil }

func newMap(store kvstore.KVStore) ads.Map[[32]byte, string, []byte] {
	return ads.NewMap[[32]byte](store, typeutils.ByteArray32ToBytes, typeutils.ByteArray32FromBytes, keyToBytes, keyFromBytes, valToBytes, valFromBytes)
}

func newSet(store kvstore.KVStore) ads.Set[[32]byte, string] {
	return ads.NewSet[[32]byte](store, typeutils.ByteArray32ToBytes, typeutils.ByteArray32FromBytes, keyToBytes, keyFromBytes)
}

// ---------- events ----------

type ev struct {
	Op   string `json:"op"`            // set add delete commit reopen get has stream keys root restored
	Key  string `json:"key,omitempty"` // hex
	Val  string `json:"val,omitempty"` // hex
	VNil bool   `json:"vnil,omitempty"`
}

func (e ev) key() string { b, _ := hex.DecodeString(e.Key); return string(b) }
func (e ev) val() []byte {
	if e.VNil {
		return nil
	}
	b, _ := hex.DecodeString(e.Val)
	if b == nil {
		b = []byte{}
	}
	return b
}

func (e ev) coq() string {
	k := vx.Bytes([]byte(e.key()))
	switch e.Op {
	case "set":
		return fmt.Sprintf("ESet %s %s", k, vx.Opt(!e.VNil, vx.Bytes(e.val())))
	case "add":
		return "EAdd " + k
	case "delete":
		return "EDelete " + k
	case "commit":
		return "ECommit"
	case "reopen":
		return "EReopen"
	case "get":
		return "EGet " + k
	case "has":
		return "EHas " + k
	case "stream":
		return "EStream"
	case "keys":
		return "EStreamKeys"
	case "root":
		return "ERoot"
	case "restored":
		return "ERestored"
	}
	panic("bad op " + e.Op)
}

func mkSet(k string, v []byte) ev {
	if v == nil {
		return ev{Op: "set", Key: hex.EncodeToString([]byte(k)), VNil: true}
	}
	return ev{Op: "set", Key: hex.EncodeToString([]byte(k)), Val: hex.EncodeToString(v)}
}
func mkK(op, k string) ev { return ev{Op: op, Key: hex.EncodeToString([]byte(k))} }
func mk(op string) ev     { return ev{Op: op} }

// ---------- the instance under test ----------

type kv struct {
	k string
	v []byte
}

type inst struct {
	m ads.Map[[32]byte, string, []byte]
	s ads.Set[[32]byte, string]
}

func open(store kvstore.KVStore, set bool) *inst {
	if set {
		return &inst{s: newSet(store)}
	}
	return &inst{m: newMap(store)}
}

func (i *inst) Root() [32]byte {
	if i.s != nil {
		return i.s.Root()
	}
	return i.m.Root()
}
func (i *inst) Size() int {
	if i.s != nil {
		return i.s.Size()
	}
	return i.m.Size()
}
func (i *inst) Restored() bool {
	if i.s != nil {
		return i.s.WasRestoredFromStorage()
	}
	return i.m.WasRestoredFromStorage()
}
func (i *inst) Commit() error {
	if i.s != nil {
		return i.s.Commit()
	}
	return i.m.Commit()
}
func (i *inst) Delete(k string) (bool, error) {
	if i.s != nil {
		return i.s.Delete(k)
	}
	return i.m.Delete(k)
}
func (i *inst) Has(k string) (bool, error) {
	if i.s != nil {
		return i.s.Has(k)
	}
	return i.m.Has(k)
}

// ---------- root classes ----------

type rootClasses struct {
	ids        map[[32]byte]int    // real root -> class number (first appearance, from 1)
	byContents map[string][32]byte // oracle: canonical reference contents -> real root
	byRoot     map[[32]byte]string // oracle: real root -> canonical reference contents
}

func newRootClasses() *rootClasses {
	return &rootClasses{ids: map[[32]byte]int{}, byContents: map[string][32]byte{}, byRoot: map[[32]byte]string{}}
}

func (rc *rootClasses) id(r [32]byte) int {
	if x, ok := rc.ids[r]; ok {
		return x
	}
	rc.ids[r] = len(rc.ids) + 1
	return len(rc.ids)
}

func canon(ref map[string][]byte) string {
	keys := make([]string, 0, len(ref))
	for k := range ref {
		keys = append(keys, k)
	}
	sort.Strings(keys)
	var sb strings.Builder
	for _, k := range keys {
		fmt.Fprintf(&sb, "%d:%x=%d:%x;", len(k), k, len(ref[k]), ref[k])
	}
	return sb.String()
}

// judge returns "" or what is wrong: equal contents must give equal roots, different contents different roots.
func (rc *rootClasses) judge(ref map[string][]byte, r [32]byte) string {
	c := canon(ref)
	if r0, ok := rc.byContents[c]; ok && r0 != r {
		return fmt.Sprintf("contents {%s} had root %x earlier, now %x", c, r0[:4], r[:4])
	}
	if c0, ok := rc.byRoot[r]; ok && c0 != c {
		return fmt.Sprintf("root %x stands for contents {%s} and {%s}", r[:4], c0, c)
	}
	rc.byContents[c] = r
	rc.byRoot[r] = c
	return ""
}

// ---------- running one history ----------

type obs struct {
	out      string
	size     int
	restored bool
}

func copyMap(m map[string][]byte) map[string][]byte {
	c := make(map[string][]byte, len(m))
	for k, v := range m {
		c[k] = v
	}
	return c
}

const sigDirtyReopen = "dirty-reopen-keeps-size-and-rawkeys"

// runner is one instance under test over one store (a bare mapdb, or a realm view of a shared one) together with its
// plain-map oracle. known: the listed finding showed (after a reopen that dropped uncommitted changes Size() differs
// from the number of keys the instance has).
type runner struct {
	store     kvstore.KVStore
	set       bool
	in        *inst
	ref       map[string][]byte // the plain map
	committed map[string][]byte // contents at the last Commit (nil: never committed)
	dirty     bool
	tainted   bool // a reopen dropped uncommitted changes (size / raw keys are written through; outside the property)
	rc        *rootClasses
	fails     []string
	roots     int
	known     bool
	label     string
}

func newRunner(store kvstore.KVStore, set bool, rc *rootClasses, label string) *runner {
	return &runner{store: store, set: set, in: open(store, set), ref: map[string][]byte{}, rc: rc, label: label}
}

func (u *runner) fail(i int, e ev, f string, a ...any) {
	u.fails = append(u.fails, fmt.Sprintf("step %d%s (%s): ", i, u.label, e.Op)+fmt.Sprintf(f, a...))
}

// wipe: the store view is cleared (all keys of the instance's realm) and a new instance is constructed over it
func (u *runner) wipe() error {
	err := u.store.Clear()
	u.in = open(u.store, u.set)
	u.ref, u.committed, u.dirty, u.tainted = map[string][]byte{}, nil, false, false
	return err
}

// do runs event e (step number i of the history) on the real code and judges it against the plain map.
func (u *runner) do(i int, e ev) obs {
	in, ref := u.in, u.ref
	fail := func(i int, f string, a ...any) { u.fail(i, e, f, a...) }
	out := "CNone"
	func() {
		defer func() {
			if p := recover(); p != nil {
				out = "CErr"
				fail(i, "panic: %v", p)
			}
		}()
		k := e.key()
		chk := func(err error) {
			if err != nil {
				out = "CErr"
				fail(i, "error: %v", err)
			}
		}
		switch e.Op {
		case "set":
			v := e.val()
			chk(in.m.Set(k, v))
			if v == nil {
				v = []byte{}
			}
			if old, ok := ref[k]; !ok || !bytes.Equal(old, v) {
				u.dirty = true
			}
			ref[k] = v
		case "add":
			chk(in.s.Add(k))
			if _, ok := ref[k]; !ok {
				u.dirty = true
			}
			ref[k] = []byte{}
		case "delete":
			d, err := in.Delete(k)
			chk(err)
			_, was := ref[k]
			if err == nil {
				out = "CBool " + vx.Bool(d)
				if d != was {
					fail(i, "Delete(%q) = %v, key present = %v", k, d, was)
				}
			}
			if was {
				u.dirty = true
			}
			delete(ref, k)
		case "commit":
			chk(in.Commit())
			u.committed = copyMap(ref)
			u.dirty = false
		case "reopen":
			old := in.Root()
			u.in = open(u.store, u.set)
			in = u.in
			if u.dirty {
				u.tainted = true
				u.ref = copyMap(u.committed)
				if u.ref == nil {
					u.ref = map[string][]byte{}
				}
				u.dirty = false
			} else if r := in.Root(); r != old {
				fail(i, "reopen without uncommitted changes: Root %x became %x", old[:4], r[:4])
			}
		case "wipe":
			chk(u.wipe())
		case "get":
			v, ex, err := in.m.Get(k)
			chk(err)
			if err == nil {
				out = "CGet " + vx.Opt(ex, vx.Bytes(v))
				want, was := ref[k]
				if ex != was || (ex && !bytes.Equal(v, want)) {
					fail(i, "Get(%q) = %x,%v; plain map has %x,%v", k, v, ex, want, was)
				}
			}
		case "has":
			b, err := in.Has(k)
			chk(err)
			if err == nil {
				out = "CBool " + vx.Bool(b)
				if _, was := ref[k]; b != was {
					fail(i, "Has(%q) = %v; plain map %v", k, b, was)
				}
			}
		case "stream", "keys":
			var got []kv
			var err error
			if e.Op == "stream" {
				err = in.m.Stream(func(k string, v []byte) error { got = append(got, kv{k, v}); return nil })
			} else {
				err = in.s.Stream(func(k string) error { got = append(got, kv{k, []byte{}}); return nil })
			}
			chk(err)
			if err == nil {
				terms := make([]string, len(got))
				for j, x := range got {
					if e.Op == "stream" {
						terms[j] = vx.Pair(vx.Bytes([]byte(x.k)), vx.Opt(x.v != nil, vx.Bytes(x.v)))
					} else {
						terms[j] = vx.Bytes([]byte(x.k))
					}
				}
				if e.Op == "stream" {
					out = "CStream " + vx.List(terms)
				} else {
					out = "CKeys " + vx.List(terms)
				}
				if !u.tainted {
					seen := map[string]bool{}
					for _, x := range got {
						want, was := ref[x.k]
						if !was || seen[x.k] || x.v == nil || !bytes.Equal(want, x.v) {
							fail(i, "Stream delivered %q=%x (nil=%v); plain map has %x,%v; duplicate=%v", x.k, x.v, x.v == nil, want, was, seen[x.k])
						}
						seen[x.k] = true
					}
					if len(seen) != len(ref) {
						fail(i, "Stream delivered %d distinct keys, plain map has %d", len(seen), len(ref))
					}
				}
			}
		case "root":
			r := in.Root()
			u.roots++
			out = fmt.Sprintf("CRoot %d%%positive", u.rc.id(r))
			if why := u.rc.judge(ref, r); why != "" {
				fail(i, "root classes: %s", why)
			}
		case "restored":
			out = "CBool " + vx.Bool(in.Restored())
		default:
			panic("bad op")
		}
	}()
	in, ref = u.in, u.ref
	o := obs{out: out}
	func() {
		defer func() {
			if p := recover(); p != nil {
				fail(i, "panic in Size/WasRestoredFromStorage: %v", p)
			}
		}()
		o.size, o.restored = in.Size(), in.Restored()
	}()
	if !u.tainted && o.size != len(ref) {
		fail(i, "Size() = %d, plain map has %d keys", o.size, len(ref))
	}
	if u.tainted && o.size != len(ref) {
		u.known = true
	}
	if o.restored != (u.committed != nil) {
		fail(i, "WasRestoredFromStorage() = %v, a Commit happened before = %v", o.restored, u.committed != nil)
	}
	return o
}

// runHistory runs h on the real code over a fresh mapdb; returns the observations and the oracle's complaints.
func runHistory(set bool, h []ev, rc *rootClasses) (res []obs, fails []string, roots int, known bool) {
	u := newRunner(mapdb.NewMapDB(), set, rc, "")
	for i, e := range h {
		res = append(res, u.do(i, e))
	}
	return res, u.fails, u.roots, u.known
}

// ---------- generation ----------

var pool []string // key pool; per history up to 6 of them
var poolNote []string

// crafted keys: 2-byte keys whose SHA-256 paths share leading bits (the trie then builds extension nodes)
func initPool() {
	pool = []string{"", "a", "ab", "b"}
	ha := sha256.Sum256([]byte("a"))
	first := map[[2]byte]string{}
	var p, q, p8 string
	var xs []string
	for i := 0; i < 65536 && (p == "" || len(xs) < 2 || p8 == ""); i++ {
		k := string([]byte{byte(i >> 8), byte(i)})
		h := sha256.Sum256([]byte(k))
		if h[0] == ha[0] && len(xs) < 2 {
			xs = append(xs, k)
		}
		if p == "" {
			if o, ok := first[[2]byte{h[0], h[1]}]; ok {
				p, q = o, k
			} else {
				first[[2]byte{h[0], h[1]}] = k
			}
		} else if p8 == "" {
			hp := sha256.Sum256([]byte(p))
			if h[0] == hp[0] && h[1] != hp[1] && k != p && k != q {
				p8 = k
			}
		}
	}
	if p == "" || len(xs) < 2 || p8 == "" {
		vx.Die("could not craft prefix-sharing keys")
	}
	pool = append(pool, xs[0], xs[1], p, q, p8)
	poolNote = []string{fmt.Sprintf("%x,%x share >=8 path bits with 'a'", xs[0], xs[1]), fmt.Sprintf("%x,%x share >=16 path bits, %x >=8 with them", p, q, p8)}
}

var values = [][]byte{nil, {}, {0}, {1}, {1, 2}, bytes.Repeat([]byte{255}, 33)}

func genHistory(r *vx.Rng, set bool, n int) []ev {
	nk := 1 + r.Intn(6)
	perm := make([]string, len(pool))
	copy(perm, pool)
	for i := len(perm) - 1; i > 0; i-- {
		j := r.Intn(i + 1)
		perm[i], perm[j] = perm[j], perm[i]
	}
	keys := perm[:nk]
	if r.Chance(1, 2) && nk >= 3 { // make sure the 16-bit pair is often there
		keys[0], keys[1] = pool[6], pool[7]
	}
	nv := 2 + r.Intn(len(values)-1)
	allowDirtyReopen := r.Chance(1, 4)
	dirty, justCommitted := false, false
	var h []ev
	for len(h) < n {
		k := vx.Pick(r, keys)
		x := r.Intn(100)
		if justCommitted && r.Chance(1, 2) {
			x = 96
		}
		justCommitted = false
		switch {
		case x < 32:
			if set {
				h = append(h, mkK("add", k))
			} else {
				h = append(h, mkSet(k, values[r.Intn(nv)]))
			}
			dirty = true
		case x < 50:
			h = append(h, mkK("delete", k))
			dirty = true
		case x < 58:
			if set {
				h = append(h, mkK("has", k))
			} else {
				h = append(h, mkK("get", k))
			}
		case x < 65:
			h = append(h, mkK("has", k))
		case x < 71:
			if set {
				h = append(h, mk("keys"))
			} else {
				h = append(h, mk("stream"))
			}
		case x < 82:
			h = append(h, mk("root"))
		case x < 92:
			h = append(h, mk("commit"))
			dirty, justCommitted = false, true
		case x < 94:
			h = append(h, mk("restored"))
		default:
			if dirty && !allowDirtyReopen {
				continue
			}
			h = append(h, mk("reopen"))
			dirty = false
		}
	}
	str := "stream"
	if set {
		str = "keys"
	}
	h = append(h, mk("root"), mk(str))
	if r.Chance(1, 2) {
		h = append(h, mk("commit"), mk("reopen"), mk("root"), mk(str))
	}
	return h
}

type dcase struct {
	set bool
	h   []ev
	tag string
}

func directed() []dcase {
	P, Q, P8, X1 := pool[6], pool[7], pool[8], pool[4]
	return []dcase{
		{false, []ev{mkSet("a", nil), mkSet("a", nil), mkSet("b", []byte{1}), mkK("has", "a"), mkK("get", "a"), mk("stream"), mk("root"), mkK("delete", "a"), mk("stream"), mk("root"), mkSet("a", nil), mk("commit"), mk("reopen"), mkK("has", "a"), mkK("get", "a"), mk("root"), mk("stream")}, "D09 (repaired): nil values"},
		{false, []ev{mkSet("a", []byte{}), mkSet("b", []byte{1}), mk("root")}, "same contents as after D09 prefix, empty instead of nil"},
		{false, []ev{mkSet("a", []byte{1}), mkSet("b", []byte{2}), mkSet("ab", []byte{}), mk("root"), mk("stream")}, "order 1"},
		{false, []ev{mkSet("ab", []byte{}), mkSet("b", []byte{2}), mkSet("a", []byte{1}), mk("root"), mk("stream")}, "order 2"},
		{false, []ev{mkSet("a", []byte{9}), mkSet("c", []byte{1}), mkSet("b", []byte{2}), mkK("delete", "c"), mkSet("a", []byte{1}), mkSet("ab", []byte{7}), mkK("delete", "ab"), mkSet("ab", []byte{}), mk("root"), mk("stream")}, "overwrite, delete, reinsert"},
		{false, []ev{mkSet(P, []byte{1}), mkSet(Q, []byte{2}), mkSet(P8, []byte{3}), mkSet(X1, []byte{4}), mk("root"), mkK("delete", P), mk("root"), mkK("delete", P8), mk("root"), mk("commit"), mkK("delete", Q), mk("root"), mk("commit"), mk("reopen"), mk("root"), mk("stream")}, "prefix-sharing paths: extension nodes joined on delete"},
		{false, []ev{mkSet(Q, []byte{2}), mkSet(X1, []byte{4}), mk("root"), mkSet(P8, []byte{3}), mk("root"), mkK("delete", P8), mkK("delete", Q), mk("root")}, "same contents by another route"},
		{false, []ev{mk("restored"), mk("reopen"), mk("restored"), mk("commit"), mk("restored"), mk("reopen"), mk("root"), mkSet("", []byte{1}), mk("commit"), mkSet("", []byte{2}), mkSet("a", nil), mk("commit"), mk("reopen"), mkK("get", ""), mk("stream"), mk("root")}, "empty key, two commits, reopen"},
		{false, []ev{mkSet("a", []byte{1}), mk("commit"), mkK("delete", "a"), mk("reopen"), mkK("has", "a"), mkK("delete", "a"), mk("stream"), mk("root"), mkSet("b", []byte{1}), mk("reopen"), mk("stream"), mk("root")}, "reopen dropping uncommitted changes (size/raw keys are written through)"},
		{true, []ev{mkK("add", "a"), mkK("add", "a"), mkK("add", "b"), mkK("delete", "a"), mkK("delete", "a"), mkK("has", "a"), mk("keys"), mk("root"), mk("commit"), mk("reopen"), mk("keys"), mk("root"), mk("restored")}, "set flavour"},
		{true, []ev{mkK("add", "b"), mk("root")}, "set {b} by another route"},
	}
}

func emit(cf *vx.CasesFile, st *vx.Stats, rc *rootClasses, set bool, h []ev, tag string) {
	o, fails, roots, known := runHistory(set, h, rc)
	if known {
		st.Count("finding:" + sigDirtyReopen)
		if len(st.Known) == 0 {
			st.Known = append(st.Known, sigDirtyReopen)
		}
	}
	terms := make([]string, len(o))
	for i, x := range o {
		terms[i] = fmt.Sprintf("mkObs (%s) %s %s", x.out, vx.Z(int64(x.size)), vx.Bool(x.restored))
	}
	cf.Add(fmt.Sprintf("mkCase %s %s", vx.ListOf(h, ev.coq), vx.List(terms)))
	parts := make([]string, len(h))
	mut := 0
	for i, e := range h {
		parts[i] = e.coq()
		st.Count("op:" + e.Op)
		if e.Op == "set" || e.Op == "add" || e.Op == "delete" {
			mut++
		}
	}
	fl := "map"
	if set {
		fl = "set"
	}
	st.Count("flavour:" + fl)
	st.Case(fl+":"+strings.Join(parts, ";"), mut >= 3 && roots >= 1)
	st.CaseIndex = append(st.CaseIndex, map[string]any{"tag": tag, "set": set, "history": h})
	st.Sample(map[string]any{"flavour": fl, "history": parts, "observed": terms}, 2)
	if len(fails) > 0 {
		st.Fail(map[string]any{"sig": "", "set": set, "history": h, "why": fails})
	}
}

func main() {
	if len(os.Args) > 1 && os.Args[1] == "probe" {
		probe()
		return
	}
	if len(os.Args) > 1 && os.Args[1] == "conc" {
		concMain(os.Args[2:])
		return
	}
	if len(os.Args) > 1 && os.Args[1] == "faultprobe" {
		faultProbe()
		return
	}
	if len(os.Args) > 1 && os.Args[1] == "faults" {
		faultsMain(os.Args[2:])
		return
	}
	if len(os.Args) > 1 && os.Args[1] == "realms" {
		realmsMain(os.Args[2:])
		return
	}
	if len(os.Args) < 2 || os.Args[1] != "hist" {
		vx.Die("usage: hx-c09 hist --n N --len L --seed S --out cases.v --stats stats.json [--replay file] | hx-c09 realms --n N --len L --seed S --out cases.v --stats stats.json [--replay file] | hx-c09 conc --rounds R --ms MS --seed S --stats stats.json [--replay file --repeat K]")
	}
	fs := flag.NewFlagSet("hist", flag.ExitOnError)
	n := fs.Int("n", 300, "")
	maxLen := fs.Int("len", 40, "")
	seed := fs.Uint64("seed", 1, "")
	out := fs.String("out", "cases.v", "")
	stats := fs.String("stats", "stats.json", "")
	replay := fs.String("replay", "", "JSON file with {set, history} to run alone")
	_ = fs.Parse(os.Args[2:])
	initPool()
	r := vx.NewRng(*seed)
	st := vx.NewStats("histories of Set/Add/Delete/Commit/reopen with Get/Has/Stream/Root/WasRestored reads on ads.Map and ads.Set over one mapdb, <= 6 keys per history from a pool of 9 (empty key, prefix-related keys, keys whose SHA-256 paths share 8 and 16 leading bits), values nil/empty/short/33 bytes; distinct = distinct (flavour, history); non-trivial = at least 3 Set/Add/Delete calls and at least one Root observation")
	cf := &vx.CasesFile{
		Header: "From Coq Require Import NArith ZArith List PArith.\nFrom Verif.C09_ADS Require Import Model Corr.\nImport ListNotations.\nOpen Scope N_scope.\n",
		Type:   "case",
		Footer: "Definition M := Eval vm_compute in mismatches cases.\nPrint M.\n",
	}
	rc := newRootClasses()
	if *replay != "" {
		var c struct {
			Set     bool `json:"set"`
			History []ev `json:"history"`
		}
		b, err := os.ReadFile(*replay)
		if err != nil {
			vx.Die("%v", err)
		}
		if err := json.Unmarshal(b, &c); err != nil {
			vx.Die("%v", err)
		}
		emit(cf, st, rc, c.Set, c.History, "replay")
	} else {
		for _, d := range directed() {
			emit(cf, st, rc, d.set, d.h, "directed: "+d.tag)
		}
		for cf.Len() < *n {
			set := r.Chance(1, 3)
			emit(cf, st, rc, set, genHistory(r.Fork(), set, 3+r.Intn(*maxLen)), "random")
		}
	}
	st.Extra["root_classes"] = len(rc.ids)
	st.Extra["distinct_contents_with_root"] = len(rc.byContents)
	st.Extra["crafted_keys"] = poolNote
	if err := cf.Write(*out); err != nil {
		vx.Die("%v", err)
	}
	if err := st.Write(*stats); err != nil {
		vx.Die("%v", err)
	}
}
