// hx-c09 realms: several authenticated maps/sets in different realms of ONE database.
//
// The instance keeps its sub-stores (raw-key mirror, trie nodes, root, size) under realms/keys derived from the store
// it is handed. The single-instance histories always hand over a bare mapdb (empty realm), where "absolute" and
// "extended" derivations coincide. Here the store handed to NewMap/NewSet is a realm view of a shared mapdb that hosts
// 2-3 instances at once: empty realm, 1-byte and multi-byte realms, realms that are prefixes of one another, realms made
// of the instance's own internal sub-realm bytes 0..3. Histories of the instances are interleaved (with reopen of each,
// and "wipe" = Clear of the instance's store view followed by a new instance).
//
// Oracle (Go side, independent of the Coq model): every instance refines ITS OWN plain map (the same judgement as in the
// single-instance histories), and the frame property: after every call on one instance, every sibling still has the Root
// it had before, Size/Stream/Has/Get of its plain map, and (when it has nothing uncommitted) a second instance opened
// over its store view reports the same Root/Size/contents.
// The cases are also written as Coq terms for Verif.C09_ADS.SharedCorr (model: one shared KV with realm prefixes).
package main

import (
	"bytes"
	"encoding/hex"
	"encoding/json"
	"flag"
	"fmt"
	"os"
	"sort"
	"strings"

	"github.com/iotaledger/hive.go/kvstore"
	"github.com/iotaledger/hive.go/kvstore/mapdb"

	"verif/harness/vx"
)

// ---------- realms ----------

// nSub: the instance uses the sub-realm / key bytes 0..nSub-1 below its realm (raw keys, trie nodes, root, size)
const nSub = 4

// separated: the key footprints {r ++ c ++ x | c < nSub} of two realms are disjoint: the realms diverge at some byte, or
// one is a proper prefix of the other and the longer one continues with a byte that is not a sub-realm byte.
func separated(a, b []byte) bool {
	n := len(a)
	if len(b) < n {
		n = len(b)
	}
	for i := 0; i < n; i++ {
		if a[i] != b[i] {
			return true
		}
	}
	if len(a) == len(b) {
		return false
	}
	if len(a) < len(b) {
		return b[n] >= nSub
	}
	return a[n] >= nSub
}

type realmFamily struct {
	name string
	pool [][]byte
}

var realmFamilies = []realmFamily{
	{"letters", [][]byte{[]byte("A"), []byte("B"), []byte("C")}},
	{"empty+bytes", [][]byte{{}, []byte("A"), {0xff}, {4}}},
	{"internal-bytes", [][]byte{{0}, {1}, {2}, {3}}},
	{"internal-2-bytes", [][]byte{{0, 0}, {0, 1}, {1, 0}, {1, 1}, {2, 3}, {3, 0}, {2}, {3}, {0, 2, 1}}},
	{"prefix-chain", [][]byte{[]byte("A"), []byte("AB"), []byte("ABC"), []byte("AB\x04"), []byte("A\xff")}},
	{"multi-byte", [][]byte{[]byte("realm/one"), []byte("realm/two"), []byte("realm/"), []byte("realm/one/sub")}},
	{"mixed", [][]byte{{0}, []byte("A"), {1, 0}, {4}, {0xff, 0}, {3, 0xff}, {}}},
	{"empty+nested", [][]byte{{}, {4}, {4, 4}, {4, 0, 9}, {9, 0}}},
}

func pickRealms(r *vx.Rng, fam realmFamily, n int) [][]byte {
	perm := make([][]byte, len(fam.pool))
	copy(perm, fam.pool)
	for i := len(perm) - 1; i > 0; i-- {
		j := r.Intn(i + 1)
		perm[i], perm[j] = perm[j], perm[i]
	}
	var out [][]byte
	for _, c := range perm {
		ok := true
		for _, o := range out {
			if !separated(c, o) {
				ok = false
			}
		}
		if ok {
			out = append(out, c)
		}
		if len(out) == n {
			break
		}
	}
	return out
}

// view of db for a realm; how: 0 = WithRealm(absolute), 1 = WithExtendedRealm byte by byte, 2 = WithExtendedRealm at once
// on a view with the empty realm (the empty realm with how=0 is the database itself)
func realmView(db kvstore.KVStore, realm []byte, how int) kvstore.KVStore {
	must := func(s kvstore.KVStore, err error) kvstore.KVStore {
		if err != nil {
			vx.Die("realm view: %v", err)
		}
		return s
	}
	cp := append([]byte{}, realm...)
	switch how {
	case 1:
		s := db
		for _, b := range cp {
			s = must(s.WithExtendedRealm([]byte{b}))
		}
		return s
	case 2:
		return must(must(db.WithRealm([]byte{})).WithExtendedRealm(cp))
	default:
		if len(cp) == 0 {
			return db
		}
		return must(db.WithRealm(cp))
	}
}

// ---------- scenarios ----------

type sev struct {
	I int `json:"i"`
	ev
}

type scenario struct {
	Family  string   `json:"family"`
	Realms  []string `json:"realms"` // hex
	Sets    []bool   `json:"sets"`
	How     []int    `json:"how"`
	History []sev    `json:"history"`
}

func (sc *scenario) realm(i int) []byte { b, _ := hex.DecodeString(sc.Realms[i]); return b }

func (e sev) coq() string {
	if e.Op == "wipe" {
		return fmt.Sprintf("SWipe %d%%nat", e.I)
	}
	return fmt.Sprintf("SOp %d%%nat (%s)", e.I, e.ev.coq())
}

// wipeAllowed: Clear of the view of realm i deletes everything below that realm, so it must not be a prefix of a sibling's
func (sc *scenario) wipeAllowed(i int) bool {
	for j := range sc.Realms {
		if j != i && bytes.HasPrefix(sc.realm(j), sc.realm(i)) {
			return false
		}
	}
	return true
}

// frame judges sibling j after a call on another instance: nothing of it may have moved.
func frameCheck(step int, e sev, u *runner, keys []string, last [32]byte, probe bool) {
	fail := func(f string, a ...any) {
		u.fails = append(u.fails, fmt.Sprintf("step %d (%s on instance %d): sibling%s ", step, e.Op, e.I, u.label)+fmt.Sprintf(f, a...))
	}
	defer func() {
		if p := recover(); p != nil {
			fail("panic while reading it: %v", p)
		}
	}()
	judge := func(in *inst, who string) {
		if r := in.Root(); r != last {
			fail("%sRoot changed from %x to %x", who, last[:4], r[:4])
		}
		for _, k := range keys {
			b, err := in.Has(k)
			_, was := u.ref[k]
			if err != nil || b != was {
				fail("%sHas(%q) = %v,%v; its plain map %v", who, k, b, err, was)
			}
			if in.m != nil {
				v, ex, err := in.m.Get(k)
				if err != nil || ex != was || (ex && !bytes.Equal(v, u.ref[k])) {
					fail("%sGet(%q) = %x,%v,%v; its plain map has %x,%v", who, k, v, ex, err, u.ref[k], was)
				}
			}
		}
		if u.tainted {
			return
		}
		if s := in.Size(); s != len(u.ref) {
			fail("%sSize() = %d, its plain map has %d keys", who, s, len(u.ref))
		}
		got := map[string][]byte{}
		n := 0
		var err error
		if in.m != nil {
			err = in.m.Stream(func(k string, v []byte) error { got[k] = v; n++; return nil })
		} else {
			err = in.s.Stream(func(k string) error { got[k] = []byte{}; n++; return nil })
		}
		if err != nil {
			fail("%sStream: %v", who, err)
			return
		}
		if n != len(u.ref) || len(got) != len(u.ref) {
			fail("%sStream delivered %d keys (%d distinct), its plain map has %d: got %s, want %s", who, n, len(got), len(u.ref), canon(got), canon(u.ref))
			return
		}
		for k, v := range u.ref {
			if g, ok := got[k]; !ok || g == nil || !bytes.Equal(g, v) {
				fail("%sStream has %q=%x,%v; its plain map %x", who, k, g, ok, v)
			}
		}
	}
	judge(u.in, "")
	if probe && !u.dirty {
		// nothing uncommitted: a second instance over the same view sees the same thing (constructing one does not write);
		// never committed: a new instance is empty unless the plain map is (size/raw keys are written through: skip then)
		if u.committed != nil {
			p := open(u.store, u.set)
			if !p.Restored() {
				fail("second instance over its store is not restored although it committed")
			}
			judge(p, "second instance over its store: ")
		}
	}
}

func runScenario(sc *scenario, rc *rootClasses, keys []string) (res []obs, fails []string, roots int, known bool) {
	db := mapdb.NewMapDB()
	us := make([]*runner, len(sc.Realms))
	last := make([][32]byte, len(sc.Realms))
	for i := range sc.Realms {
		us[i] = newRunner(realmView(db, sc.realm(i), sc.How[i]), sc.Sets[i], rc, fmt.Sprintf(" [instance %d realm %s]", i, sc.Realms[i]))
		last[i] = us[i].in.Root()
	}
	for n, e := range sc.History {
		u := us[e.I]
		res = append(res, u.do(n, e.ev))
		func() {
			defer func() {
				if p := recover(); p != nil {
					u.fail(n, e.ev, "panic in Root: %v", p)
				}
			}()
			last[e.I] = u.in.Root()
		}()
		mut := e.Op == "set" || e.Op == "add" || e.Op == "delete" || e.Op == "commit" || e.Op == "reopen" || e.Op == "wipe"
		for j, o := range us {
			if j != e.I && (mut || n == len(sc.History)-1) {
				frameCheck(n, e, o, keys, last[j], e.Op == "commit" || e.Op == "wipe" || e.Op == "delete" || n == len(sc.History)-1)
			}
		}
	}
	for _, u := range us {
		fails = append(fails, u.fails...)
		roots += u.roots
		known = known || u.known
	}
	return
}

// ---------- generation ----------

type igen struct {
	set                        bool
	allowDirty, wipeOK         bool
	dirty, justCommitted, used bool
}

func (g *igen) next(r *vx.Rng, keys []string, nv int) (ev, bool) {
	k := vx.Pick(r, keys)
	x := r.Intn(100)
	if g.justCommitted && r.Chance(1, 2) {
		x = 96
	}
	g.justCommitted = false
	switch {
	case x < 34:
		g.dirty = true
		if g.set {
			return mkK("add", k), true
		}
		return mkSet(k, values[r.Intn(nv)]), true
	case x < 50:
		g.dirty = true
		return mkK("delete", k), true
	case x < 55:
		if g.set {
			return mkK("has", k), true
		}
		return mkK("get", k), true
	case x < 59:
		return mkK("has", k), true
	case x < 70:
		if g.set {
			return mk("keys"), true
		}
		return mk("stream"), true
	case x < 80:
		return mk("root"), true
	case x < 90:
		g.dirty, g.justCommitted = false, true
		return mk("commit"), true
	case x < 92:
		return mk("restored"), true
	case x < 95:
		if !g.wipeOK {
			return ev{}, false
		}
		g.dirty = false
		return mk("wipe"), true
	default:
		if g.dirty && !g.allowDirty {
			return ev{}, false
		}
		g.dirty = false
		return mk("reopen"), true
	}
}

func scenarioKeys(r *vx.Rng) []string {
	nk := 2 + r.Intn(4)
	perm := make([]string, len(pool))
	copy(perm, pool)
	for i := len(perm) - 1; i > 0; i-- {
		j := r.Intn(i + 1)
		perm[i], perm[j] = perm[j], perm[i]
	}
	keys := perm[:nk]
	if r.Chance(1, 3) && nk >= 3 {
		keys[0], keys[1] = pool[6], pool[7]
	}
	return keys
}

func genScenario(r *vx.Rng, n int) (*scenario, []string) {
	fam := realmFamilies[r.Intn(len(realmFamilies))]
	realms := pickRealms(r, fam, 2+r.Intn(2))
	sc := &scenario{Family: fam.name}
	gens := make([]*igen, len(realms))
	for _, rl := range realms {
		sc.Realms = append(sc.Realms, hex.EncodeToString(rl))
		sc.Sets = append(sc.Sets, r.Chance(1, 3))
		sc.How = append(sc.How, r.Intn(3))
	}
	for i := range realms {
		gens[i] = &igen{set: sc.Sets[i], allowDirty: r.Chance(1, 5), wipeOK: sc.wipeAllowed(i)}
	}
	keys := scenarioKeys(r) // ONE key set for all instances: the siblings hold the same keys with different values
	nv := 2 + r.Intn(len(values)-1)
	cur := r.Intn(len(realms))
	for len(sc.History) < n {
		if r.Chance(1, 2) {
			cur = r.Intn(len(realms))
		}
		if e, ok := gens[cur].next(r, keys, nv); ok {
			sc.History = append(sc.History, sev{cur, e})
		}
	}
	for i := range realms { // every instance ends with Root + Stream, half of the scenarios also after Commit + reopen
		str := "stream"
		if sc.Sets[i] {
			str = "keys"
		}
		sc.History = append(sc.History, sev{i, mk("root")}, sev{i, mk(str)})
	}
	if r.Chance(1, 2) {
		for i := range realms {
			str := "stream"
			if sc.Sets[i] {
				str = "keys"
			}
			sc.History = append(sc.History, sev{i, mk("commit")}, sev{i, mk("reopen")}, sev{i, mk("root")}, sev{i, mk(str)})
		}
	}
	return sc, keys
}

func hx(b ...byte) string { return hex.EncodeToString(b) }

func directedScenarios() []*scenario {
	s := func(i int, e ev) sev { return sev{i, e} }
	two := []sev{
		s(0, mkSet("a", []byte{1})), s(0, mkSet("b", []byte{2})), s(1, mkSet("x", []byte{3})), s(0, mk("stream")), s(1, mk("stream")),
		s(1, mkSet("a", []byte{4})), s(1, mkK("delete", "a")), s(0, mk("stream")), s(0, mk("root")), s(1, mk("root")),
		s(0, mk("commit")), s(1, mk("commit")), s(0, mk("reopen")), s(1, mk("reopen")), s(0, mk("stream")), s(1, mk("stream")), s(0, mk("root")), s(1, mk("root")),
		s(1, mkK("delete", "x")), s(1, mk("commit")), s(0, mk("reopen")), s(0, mk("stream")), s(0, mk("root")),
	}
	mapSet := []sev{
		s(0, mkSet("a", []byte{})), s(1, mkK("add", "a")), s(1, mkK("add", "b")), s(0, mk("root")), s(1, mk("root")), s(1, mkK("delete", "b")), s(1, mk("root")),
		s(0, mk("stream")), s(1, mk("keys")), s(0, mk("commit")), s(1, mkK("delete", "a")), s(1, mk("commit")), s(0, mk("reopen")), s(0, mk("stream")), s(0, mkK("get", "a")),
		s(1, mk("reopen")), s(1, mk("keys")), s(1, mk("root")), s(0, mk("root")),
	}
	wipe := []sev{
		s(0, mkSet("a", []byte{1})), s(1, mkSet("a", []byte{2})), s(2, mkK("add", "a")), s(0, mk("commit")), s(1, mk("commit")), s(2, mk("commit")),
		s(1, mk("wipe")), s(1, mk("restored")), s(1, mk("stream")), s(0, mk("stream")), s(2, mk("keys")), s(0, mk("reopen")), s(2, mk("reopen")), s(0, mk("stream")), s(2, mk("keys")),
		s(1, mkSet("b", []byte{1})), s(1, mk("commit")), s(1, mk("reopen")), s(1, mk("stream")), s(0, mk("root")), s(1, mk("root")), s(2, mk("root")),
	}
	return []*scenario{
		{Family: "directed: sibling realms A,B", Realms: []string{hx('A'), hx('B')}, Sets: []bool{false, false}, How: []int{2, 2}, History: two},
		{Family: "directed: realms of the internal sub-realm bytes 0,1", Realms: []string{hx(0), hx(1)}, Sets: []bool{false, false}, How: []int{0, 0}, History: two},
		{Family: "directed: realms 2,3 (the root and size key bytes)", Realms: []string{hx(2), hx(3)}, Sets: []bool{false, false}, How: []int{0, 1}, History: two},
		{Family: "directed: empty realm and A", Realms: []string{"", hx('A')}, Sets: []bool{false, false}, How: []int{0, 0}, History: two},
		{Family: "directed: A and AB (prefix)", Realms: []string{hx('A'), hx('A', 'B')}, Sets: []bool{false, false}, How: []int{0, 1}, History: two},
		{Family: "directed: map and set", Realms: []string{hx(1, 0), hx(0, 1)}, Sets: []bool{false, true}, How: []int{1, 0}, History: mapSet},
		{Family: "directed: wipe the middle one", Realms: []string{hx(0), hx(1), hx(3)}, Sets: []bool{false, false, true}, How: []int{0, 0, 0}, History: wipe},
	}
}

func emitScenario(cf *vx.CasesFile, st *vx.Stats, rc *rootClasses, sc *scenario, keys []string, tag string) {
	o, fails, roots, known := runScenario(sc, rc, keys)
	if known {
		st.Count("finding:" + sigDirtyReopen)
		if len(st.Known) == 0 {
			st.Known = append(st.Known, sigDirtyReopen)
		}
	}
	terms := make([]string, len(o))
	for i, x := range o {
		terms[i] = fmt.Sprintf("mkObs (%s) %s %s", x.out, vx.Z(int64(x.size)), vx.Bool(x.restored))
	}
	realms := make([]string, len(sc.Realms))
	for i := range sc.Realms {
		realms[i] = vx.Bytes(sc.realm(i))
	}
	cf.Add(fmt.Sprintf("mkSCase %s %s %s", vx.List(realms), vx.ListOf(sc.History, sev.coq), vx.List(terms)))
	parts := make([]string, len(sc.History))
	mut, touched := 0, map[int]bool{}
	for i, e := range sc.History {
		parts[i] = e.coq()
		st.Count("realms-op:" + e.Op)
		if e.Op == "set" || e.Op == "add" || e.Op == "delete" {
			mut++
			touched[e.I] = true
		}
	}
	st.Count("realms-family:" + sc.Family)
	st.Count(fmt.Sprintf("realms-instances:%d", len(sc.Realms)))
	fl := make([]string, len(sc.Sets))
	for i, b := range sc.Sets {
		fl[i] = "map"
		if b {
			fl[i] = "set"
		}
	}
	sort.Strings(fl)
	st.Count("realms-flavours:" + strings.Join(fl, "+"))
	st.Case("realms:"+strings.Join(sc.Realms, ",")+":"+strings.Join(parts, ";"), mut >= 3 && len(touched) >= 2 && roots >= 1)
	st.CaseIndex = append(st.CaseIndex, map[string]any{"tag": tag, "realms": sc})
	st.Sample(map[string]any{"realms": sc.Realms, "history": parts, "observed": terms}, 2)
	if len(fails) > 0 {
		if len(fails) > 12 {
			fails = append(fails[:12], fmt.Sprintf("... and %d more", len(fails)-12))
		}
		st.Fail(map[string]any{"sig": "", "realms": sc, "why": fails})
	}
}

// allKeys: the keys the frame check reads on the siblings (every key any instance ever used in the scenario)
func allKeys(sc *scenario) []string {
	seen := map[string]bool{}
	var out []string
	for _, e := range sc.History {
		if e.Key != "" || e.Op == "set" || e.Op == "add" || e.Op == "delete" || e.Op == "get" || e.Op == "has" {
			if k := e.key(); !seen[k] {
				seen[k] = true
				out = append(out, k)
			}
		}
	}
	sort.Strings(out)
	return out
}

func realmsMain(args []string) {
	fs := flag.NewFlagSet("realms", flag.ExitOnError)
	n := fs.Int("n", 200, "")
	maxLen := fs.Int("len", 40, "")
	seed := fs.Uint64("seed", 1, "")
	out := fs.String("out", "cases.v", "")
	stats := fs.String("stats", "stats.json", "")
	replay := fs.String("replay", "", "JSON file with {realms: scenario} to run alone")
	_ = fs.Parse(args)
	initPool()
	r := vx.NewRng(*seed ^ 0x5ea1)
	st := vx.NewStats("interleaved histories of 2-3 ads.Map/ads.Set instances living in different realms of ONE mapdb (store views: empty realm, 1-byte, multi-byte, prefixes of one another, the internal sub-realm bytes 0..3; made by WithRealm / WithExtendedRealm chains), same key set for all instances, with Commit/reopen/wipe (Clear of the view) of each; distinct = distinct (realms, history); non-trivial = at least 3 Set/Add/Delete calls spread over at least 2 instances and at least one Root observation")
	cf := &vx.CasesFile{
		Header: "From Coq Require Import NArith ZArith List PArith.\nFrom Verif.C09_ADS Require Import Model Corr Shared SharedCorr.\nImport ListNotations.\nOpen Scope N_scope.\n",
		Type:   "scase",
		Footer: "Definition M := Eval vm_compute in smismatches cases.\nPrint M.\n",
	}
	rc := newRootClasses()
	if *replay != "" {
		var c struct {
			Realms *scenario `json:"realms"`
		}
		b, err := os.ReadFile(*replay)
		if err != nil {
			vx.Die("%v", err)
		}
		if err := json.Unmarshal(b, &c); err != nil || c.Realms == nil {
			vx.Die("bad replay file: %v", err)
		}
		emitScenario(cf, st, rc, c.Realms, allKeys(c.Realms), "replay")
	} else {
		for _, d := range directedScenarios() {
			emitScenario(cf, st, rc, d, allKeys(d), d.Family)
		}
		for cf.Len() < *n {
			sc, _ := genScenario(r.Fork(), 6+r.Intn(*maxLen))
			emitScenario(cf, st, rc, sc, allKeys(sc), "random")
		}
	}
	st.Extra["realms_root_classes"] = len(rc.ids)
	if err := cf.Write(*out); err != nil {
		vx.Die("%v", err)
	}
	if err := st.Write(*stats); err != nil {
		vx.Die("%v", err)
	}
}
