// C09 concurrent scenario families (`hx-c09 conc`): the Coq model (and every theorem) treats each ads.Map / ads.Set
// method as ONE atomic step of a sequential history. In the code that is true only because every method - including
// the "read-only" Has/Get/Root/Stream, which drive the trie's single shared hasher and rewrite lazily loaded nodes in
// place - runs under the instance's exclusive mutex. These families tie that assumption to the code:
//
//	readers: k (2-4) goroutines perform random Has/Get/Size/Root/WasRestored/Stream calls on an instance with known
//	         contents, nobody writes. Every linearization is the same sequential history of reads, so every present key
//	         must be reported present with its value, every absent key absent, Root/Size/WasRestored/Stream constant.
//	writer:  k-1 readers race ONE writer that runs a pre-generated cyclic script of Set/Add/Delete/Commit on a few hot
//	         keys. The writer publishes started/finished op counters; a reader notes lo = finished before its call and
//	         hi = started after it. Its result must equal the sequential model's answer after v writer ops for SOME
//	         v in [lo, hi] (the linearization points compatible with real time). Expected Root per version comes from a
//	         twin instance that ran the same script sequentially (Root is a function of the contents).
//	writers: TWO writers with disjoint hot keys (each key has a single writer, so its value after v ops of its writer
//	         is known) and k-2 readers; per-key reads are judged in the owner's window, Size/Stream over the product of
//	         both windows, Delete's answer by the single-writer model; Root is only exercised during the phase.
//
// The readers' call mix varies per scenario (balanced / Root-heavy / Stream-heavy): two calls only disturb each other
// when both are inside the trie, e.g. Root hashes only while the trie has uncommitted changes.
// After every phase, sequentially: all keys, Size, Stream are read back against the model and Root() must equal the
// Root() of a fresh instance given the final contents (a lost update or a corrupted trie shows here).
// Every call runs under recover (a panic, e.g. of the corrupted sha256 state, is a failure with the concrete scenario),
// every scenario under a watchdog. Judged in Go by the refinement itself; nothing is written for Coq (the theorems
// quantify over sequential histories and are unaffected).
package main

import (
	"bytes"
	"encoding/json"
	"flag"
	"fmt"
	"os"
	"runtime"
	"sort"
	"strings"
	"sync"
	"sync/atomic"
	"time"

	"github.com/iotaledger/hive.go/kvstore/mapdb"

	"verif/harness/vx"
)

type concScenario struct {
	Family   string `json:"family"` // readers | writer | writers
	Set      bool   `json:"set"`
	Restored bool   `json:"restored"` // contents committed and the instance reopened (lazily loaded trie) before the concurrent phase
	Threads  int    `json:"threads"`  // goroutines: writers (0 / 1 / 2 by family) + readers
	NKeys    int    `json:"nkeys"`    // present keys at the start (as many absent keys are probed)
	LongKeys bool   `json:"longkeys"` // part of the keys are 100-300 bytes long (longer stay inside the key hashing)
	Mix      string `json:"mix"`      // readers' call mix: balanced | roots | streams
	Seed     uint64 `json:"seed"`
	Ms       int    `json:"ms"`
}

func (s concScenario) String() string {
	return fmt.Sprintf("%s set=%v restored=%v threads=%d nkeys=%d long=%v mix=%s seed=%d ms=%d", s.Family, s.Set, s.Restored, s.Threads, s.NKeys, s.LongKeys, s.Mix, s.Seed, s.Ms)
}

func (s concScenario) writers() int {
	switch s.Family {
	case "writer":
		return 1
	case "writers":
		return 2
	}
	return 0
}

// cumulative thresholds out of 100: Has, Get, Size, Root, WasRestored, (rest) Stream
var mixes = map[string][5]int{
	"balanced": {40, 80, 88, 96, 99},
	"roots":    {22, 44, 50, 95, 97},
	"streams":  {30, 60, 66, 72, 74},
}

type concResult struct {
	calls    []int64 // per goroutine
	byOp     map[string]int64
	fails    []string
	nfails   int64
	panics   int64
	hang     bool
	scriptN  []int
	writerN  int64 // writer ops performed
	maxWidth int64 // widest linearization window seen
	unjudged int64 // results only exercised (Root with two writers, Stream over huge windows)
}

const maxFailsKept = 6

type failLog struct {
	mu    sync.Mutex
	fails []string
	n     atomic.Int64
	pan   atomic.Int64
}

func (f *failLog) add(format string, a ...any) {
	f.n.Add(1)
	f.mu.Lock()
	if len(f.fails) < maxFailsKept {
		f.fails = append(f.fails, fmt.Sprintf(format, a...))
	}
	f.mu.Unlock()
}

// ---------- contents ----------

func concKeys(r *vx.Rng, sc concScenario) (present, absent []string) {
	perm := make([]string, len(pool))
	copy(perm, pool)
	for i := len(perm) - 1; i > 0; i-- {
		j := r.Intn(i + 1)
		perm[i], perm[j] = perm[j], perm[i]
	}
	np := 1 + r.Intn(len(perm)-1)
	mk := func(i int, tag string) string {
		if sc.LongKeys && r.Chance(1, 2) {
			return fmt.Sprintf("%s%04d/", tag, i) + strings.Repeat(string(rune('A'+i%26)), 100+r.Intn(200))
		}
		return fmt.Sprintf("%s%03d", tag, i)
	}
	present = append(present, perm[:np]...)
	absent = append(absent, perm[np:]...)
	for i := 0; len(present) < sc.NKeys; i++ {
		present = append(present, mk(i, "k"))
	}
	if len(present) > sc.NKeys {
		absent = append(absent, present[sc.NKeys:]...)
		present = present[:sc.NKeys:sc.NKeys]
	}
	for i := 0; len(absent) < sc.NKeys || len(absent) < 6; i++ {
		absent = append(absent, mk(i, "x"))
	}
	return present, absent
}

func concValue(r *vx.Rng, set bool, i int) []byte {
	if set {
		return []byte{}
	}
	if r.Chance(1, 2) {
		return values[1+r.Intn(len(values)-1)] // never nil: nil is stored as the empty value (judged by the sequential family)
	}
	return bytes.Repeat([]byte{byte(i + 1)}, 1+i%7)
}

func (i *inst) put(k string, v []byte) error {
	if i.s != nil {
		return i.s.Add(k)
	}
	return i.m.Set(k, v)
}

// read: Get for maps (isGet), Has for sets or when preferred
func (i *inst) read(k string, preferHas bool) (v []byte, ex bool, isGet bool, err error) {
	if i.s != nil || preferHas {
		b, err := i.Has(k)
		return nil, b, false, err
	}
	v, ex, err = i.m.Get(k)
	return v, ex, true, err
}

func canonKV(got []kv) string {
	var sb strings.Builder
	for _, x := range got {
		fmt.Fprintf(&sb, "%d:%x=%d:%x;", len(x.k), x.k, len(x.v), x.v)
	}
	return sb.String()
}

// stream: what Stream delivers, in delivery order (the byte order of the raw keys is part of the observation)
func (i *inst) stream() (string, error) {
	var got []kv
	var err error
	if i.s != nil {
		err = i.s.Stream(func(k string) error { got = append(got, kv{k, []byte{}}); return nil })
	} else {
		err = i.m.Stream(func(k string, v []byte) error { got = append(got, kv{k, v}); return nil })
	}
	if err != nil {
		return "", err
	}
	return canonKV(got), nil
}

// ---------- writers ----------

type wop struct {
	op  string // set delete commit
	key int    // index into hot
	val []byte
}

// one writer: its hot keys, its cyclic script, the sequential model's version table for v = 0..L-1 ops of one cycle
// (the state after v ops overall is row v mod L: the script ends by restoring the initial values), its counters.
type concWriter struct {
	hot         []string
	hotInit     [][]byte
	script      []wop
	L           int
	rows        [][][]byte // [v][j] value of hot key j after v ops (nil = absent)
	dsize       []int      // number of present hot keys after v ops minus the initial number
	root        [][32]byte // single-writer family only: Root of the twin after v ops
	firstCommit int        // -1: no commit in the script
	started     atomic.Int64
	finished    atomic.Int64
}

func (w *concWriter) committed(v int64) bool {
	return w.firstCommit >= 0 && v >= int64(w.firstCommit)+1
}

func genScript(r *vx.Rng, sc concScenario, w *concWriter, n int) {
	cur := make([][]byte, len(w.hot))
	copy(cur, w.hotInit)
	var s []wop
	style := [][2]int{{50, 90}, {25, 90}, {35, 70}}[r.Intn(3)] // set / delete / (rest) commit: balanced, delete-heavy, commit-heavy
	for len(s) < n {
		j := r.Intn(len(w.hot))
		x := r.Intn(100)
		switch {
		case x < style[0]:
			v := concValue(r, sc.Set, r.Intn(40))
			s = append(s, wop{"set", j, v})
			cur[j] = v
		case x < style[1]:
			s = append(s, wop{"delete", j, nil}) // also of absent keys: Delete must then answer false
			cur[j] = nil
		default:
			s = append(s, wop{op: "commit"})
		}
	}
	for j := range w.hot { // close the cycle
		switch {
		case w.hotInit[j] == nil && cur[j] != nil:
			s = append(s, wop{"delete", j, nil})
		case w.hotInit[j] != nil && (cur[j] == nil || !bytes.Equal(cur[j], w.hotInit[j])):
			s = append(s, wop{"set", j, w.hotInit[j]})
		}
	}
	w.script, w.L, w.firstCommit = s, len(s), -1
	copy(cur, w.hotInit)
	npres := func() (n int) {
		for _, v := range cur {
			if v != nil {
				n++
			}
		}
		return n
	}
	n0 := npres()
	for v, o := range s {
		row := make([][]byte, len(cur))
		copy(row, cur)
		w.rows = append(w.rows, row)
		w.dsize = append(w.dsize, npres()-n0)
		switch o.op {
		case "set":
			cur[o.key] = o.val
		case "delete":
			cur[o.key] = nil
		case "commit":
			if w.firstCommit < 0 {
				w.firstCommit = v
			}
		}
	}
}

// ---------- one scenario ----------

func runConc(sc concScenario) (res concResult) {
	res.byOp = map[string]int64{}
	r := vx.NewRng(sc.Seed)
	present, absent := concKeys(r, sc)
	ref := map[string][]byte{}
	fl := &failLog{}
	mix, ok := mixes[sc.Mix]
	if !ok {
		mix = mixes["balanced"]
	}
	bail := func(what string, err error) concResult {
		res.fails = append(res.fails, what+": "+err.Error())
		res.nfails = 1
		return res
	}
	guard := func(f func() error) (err error) {
		defer func() {
			if p := recover(); p != nil {
				err = fmt.Errorf("panic: %v", p)
			}
		}()
		return f()
	}

	store := mapdb.NewMapDB()
	in := open(store, sc.Set)
	twinStore := mapdb.NewMapDB()
	twin := open(twinStore, sc.Set)
	if err := guard(func() error {
		for i, k := range present {
			v := concValue(r, sc.Set, i)
			ref[k] = v
			if err := in.put(k, v); err != nil {
				return err
			}
			if err := twin.put(k, v); err != nil {
				return err
			}
		}
		if sc.Restored {
			if err := in.Commit(); err != nil {
				return err
			}
			if err := twin.Commit(); err != nil {
				return err
			}
			in, twin = open(store, sc.Set), open(twinStore, sc.Set)
		}
		return nil
	}); err != nil {
		return bail("sequential set-up failed", err)
	}

	// hot keys: some present, some absent at the start; every hot key has exactly one writer
	stablePresent, stableAbsent := present, absent
	W := sc.writers()
	ws := make([]*concWriter, W)
	type owner struct{ w, j int }
	hotIdx := map[string]owner{}
	var allHot []string
	for wi := range ws {
		w := &concWriter{}
		ws[wi] = w
		nh := 2 + r.Intn(4)
		if W == 2 {
			nh = 1 + r.Intn(3)
		}
		for j := 0; j < nh; j++ {
			var k string
			if r.Bool() && len(stablePresent) > 1 {
				k = stablePresent[len(stablePresent)-1]
				stablePresent = stablePresent[:len(stablePresent)-1]
				w.hotInit = append(w.hotInit, ref[k])
			} else if len(stableAbsent) > 1 {
				k = stableAbsent[len(stableAbsent)-1]
				stableAbsent = stableAbsent[:len(stableAbsent)-1]
				w.hotInit = append(w.hotInit, nil)
			} else {
				continue
			}
			hotIdx[k] = owner{wi, len(w.hot)}
			w.hot = append(w.hot, k)
			allHot = append(allHot, k)
		}
		if len(w.hot) == 0 {
			return bail("harness bug", fmt.Errorf("no hot key for writer %d", wi))
		}
		genScript(r, sc, w, 150+r.Intn(250))
		res.scriptN = append(res.scriptN, w.L)
	}
	if W == 1 { // Root per version: the twin runs the script sequentially
		w := ws[0]
		if err := guard(func() error {
			for _, o := range w.script {
				w.root = append(w.root, twin.Root())
				switch o.op {
				case "set":
					if err := twin.put(w.hot[o.key], o.val); err != nil {
						return err
					}
				case "delete":
					if _, err := twin.Delete(w.hot[o.key]); err != nil {
						return err
					}
				case "commit":
					if err := twin.Commit(); err != nil {
						return err
					}
				}
			}
			if twin.Root() != w.root[0] {
				return fmt.Errorf("Root after the cycle differs from the Root of the same contents before it")
			}
			return nil
		}); err != nil {
			return bail("sequential twin run failed", err)
		}
	}

	var root0 [32]byte
	if err := guard(func() error { root0 = in.Root(); return nil }); err != nil {
		return bail("Root before the phase", err)
	}
	size0 := len(ref)

	// the model's contents when writer i has done vs[i] ops
	contentsAt := func(vs []int) map[string][]byte {
		m := copyMap(ref)
		for wi, w := range ws {
			for j, k := range w.hot {
				if v := w.rows[vs[wi]][j]; v == nil {
					delete(m, k)
				} else {
					m[k] = v
				}
			}
		}
		return m
	}
	canon0 := canon(ref)

	var stop atomic.Bool
	var maxWidth, unjudged atomic.Int64
	nReaders := sc.Threads - W
	calls := make([]atomic.Int64, sc.Threads)
	opCount := make([]map[string]int64, sc.Threads)
	var wg sync.WaitGroup

	type win struct{ lo, hi []int64 }
	before := func() (b win) {
		b.lo = make([]int64, W)
		for i, w := range ws {
			b.lo[i] = w.finished.Load()
		}
		return b
	}
	after := func(b *win) {
		b.hi = make([]int64, W)
		for i, w := range ws {
			b.hi[i] = w.started.Load()
			if d := b.hi[i] - b.lo[i]; d > maxWidth.Load() {
				maxWidth.Store(d)
			}
		}
	}
	// the versions (mod L) of writer i inside the window
	versions := func(b win, i int) []int {
		L := int64(ws[i].L)
		lo, hi := b.lo[i], b.hi[i]
		if hi-lo >= L {
			lo, hi = 0, L-1
		}
		vs := make([]int, 0, hi-lo+1)
		for v := lo; v <= hi; v++ {
			vs = append(vs, int(v%L))
		}
		return vs
	}
	// exists a combination of versions in the windows with ok? (W <= 2); limit: give up (unjudged) beyond that many
	exists := func(b win, limit int, ok func(vs []int) bool) bool {
		switch W {
		case 0:
			return ok(nil)
		case 1:
			for _, v := range versions(b, 0) {
				if ok([]int{v}) {
					return true
				}
			}
			return false
		}
		v0, v1 := versions(b, 0), versions(b, 1)
		if limit > 0 && len(v0)*len(v1) > limit {
			unjudged.Add(1)
			return true
		}
		for _, a := range v0 {
			for _, c := range v1 {
				if ok([]int{a, c}) {
					return true
				}
			}
		}
		return false
	}
	winStr := func(b win) string {
		if W == 0 {
			return "no writer"
		}
		s := ""
		for i := range ws {
			s += fmt.Sprintf("writer %d: ops %d..%d of a cyclic script of %d; ", i, b.lo[i], b.hi[i], ws[i].L)
		}
		return s
	}

	reader := func(id int, rr *vx.Rng) {
		defer wg.Done()
		cnt := map[string]int64{}
		opCount[id] = cnt
		one := func() {
			var what string
			defer func() {
				if p := recover(); p != nil {
					fl.pan.Add(1)
					fl.add("reader %d: %s panicked: %v", id, what, p)
				}
			}()
			x := rr.Intn(100)
			switch {
			case x < mix[1]: // Has / Get of a hot, stable present or stable absent key
				var k string
				y := rr.Intn(10)
				switch {
				case len(allHot) > 0 && y < 5:
					k = vx.Pick(rr, allHot)
				case y < 8 && len(stablePresent) > 0:
					k = vx.Pick(rr, stablePresent)
				default:
					k = vx.Pick(rr, stableAbsent)
				}
				preferHas := x < mix[0]
				what = fmt.Sprintf("Get(%s)", clipKey(k))
				if sc.Set || preferHas {
					what = fmt.Sprintf("Has(%s)", clipKey(k))
				}
				b := before()
				v, ex, isGet, err := in.read(k, preferHas)
				after(&b)
				cnt[what[:3]]++
				if err != nil {
					fl.add("reader %d: %s error: %v", id, what, err)
					return
				}
				match := func(want []byte) bool {
					if ex != (want != nil) {
						return false
					}
					return !ex || !isGet || bytes.Equal(v, want)
				}
				o, isHot := hotIdx[k]
				if !isHot {
					if want := ref[k]; !match(want) {
						fl.add("reader %d: %s = (%x, exists=%v) but the key %s (value %x) and nobody writes it", id, what, v, ex, presence(want), want)
					}
					return
				}
				found := false
				for _, ver := range versions(b, o.w) {
					if match(ws[o.w].rows[ver][o.j]) {
						found = true
						break
					}
				}
				if !found {
					fl.add("reader %d: %s = (%x, exists=%v) is the model's answer after no number v of ops of its writer with %d <= v <= %d (cyclic script of %d ops)", id, what, v, ex, b.lo[o.w], b.hi[o.w], ws[o.w].L)
				}
			case x < mix[2]:
				what = "Size()"
				b := before()
				n := in.Size()
				after(&b)
				cnt["Size"]++
				if !exists(b, 0, func(vs []int) bool {
					want := size0
					for i, v := range vs {
						want += ws[i].dsize[v]
					}
					return n == want
				}) {
					fl.add("reader %d: Size() = %d; model: %d at the start; %s", id, n, size0, winStr(b))
				}
			case x < mix[3]:
				what = "Root()"
				b := before()
				rt := in.Root()
				after(&b)
				cnt["Root"]++
				if W == 2 {
					unjudged.Add(1) // no twin for the product of two scripts: exercised only (final Root is judged)
					return
				}
				if !exists(b, 0, func(vs []int) bool {
					if W == 0 {
						return rt == root0
					}
					return rt == ws[0].root[vs[0]]
				}) {
					fl.add("reader %d: Root() = %x is the root of no contents the model has in the window (root at the start %x); %s", id, rt[:6], root0[:6], winStr(b))
				}
			case x < mix[4]:
				what = "WasRestoredFromStorage()"
				b := before()
				got := in.Restored()
				after(&b)
				cnt["Restored"]++
				lo, hi := sc.Restored, sc.Restored
				for i, w := range ws {
					lo = lo || w.committed(b.lo[i])
					hi = hi || w.committed(b.hi[i])
				}
				if got != lo && got != hi {
					fl.add("reader %d: WasRestoredFromStorage() = %v; committed before the phase = %v; %s", id, got, sc.Restored, winStr(b))
				}
			default:
				what = "Stream()"
				b := before()
				c, err := in.stream()
				after(&b)
				cnt["Stream"]++
				if err != nil {
					fl.add("reader %d: Stream error: %v", id, err)
					return
				}
				if !exists(b, 64, func(vs []int) bool {
					if W == 0 {
						return c == canon0
					}
					return c == canon(contentsAt(vs))
				}) {
					fl.add("reader %d: Stream delivered {%s}, which the model's contents never are in the window (at the start {%s}); %s", id, clip(c), clip(canon0), winStr(b))
				}
			}
		}
		for !stop.Load() {
			one()
			calls[id].Add(1)
			if fl.n.Load() > 200 {
				return
			}
		}
	}

	writer := func(id int, wi int) {
		defer wg.Done()
		w := ws[wi]
		cnt := map[string]int64{}
		opCount[id] = cnt
		for i := int64(0); !stop.Load(); i++ {
			ver := int(i % int64(w.L))
			o := w.script[ver]
			w.started.Store(i + 1)
			func() {
				defer func() {
					if p := recover(); p != nil {
						fl.pan.Add(1)
						fl.add("writer %d: op %d (%s) panicked: %v", wi, i, o.op, p)
					}
				}()
				switch o.op {
				case "set":
					if err := in.put(w.hot[o.key], o.val); err != nil {
						fl.add("writer %d: op %d Set(%s) error: %v", wi, i, clipKey(w.hot[o.key]), err)
					}
				case "delete":
					d, err := in.Delete(w.hot[o.key])
					was := w.rows[ver][o.key] != nil
					if err != nil {
						fl.add("writer %d: op %d Delete(%s) error: %v", wi, i, clipKey(w.hot[o.key]), err)
					} else if d != was {
						fl.add("writer %d: op %d Delete(%s) = %v, but in the model the key is present = %v (only this goroutine writes the key)", wi, i, clipKey(w.hot[o.key]), d, was)
					}
				case "commit":
					if err := in.Commit(); err != nil {
						fl.add("writer %d: op %d Commit error: %v", wi, i, err)
					}
				}
			}()
			cnt[o.op]++
			w.finished.Store(i + 1)
			calls[id].Add(1)
			if fl.n.Load() > 200 {
				return
			}
		}
	}

	rngs := make([]*vx.Rng, sc.Threads)
	for i := range rngs {
		rngs[i] = r.Fork()
	}
	wg.Add(sc.Threads)
	for i := 0; i < nReaders; i++ {
		go reader(i, rngs[i])
	}
	for wi := 0; wi < W; wi++ {
		go writer(nReaders+wi, wi)
	}
	done := make(chan struct{})
	go func() { wg.Wait(); close(done) }()
	select {
	case <-done:
	case <-time.After(time.Duration(sc.Ms) * time.Millisecond):
		stop.Store(true)
		select {
		case <-done:
		case <-time.After(20 * time.Second):
			res.hang = true
			fl.add("watchdog: goroutines did not come back 20 s after the stop signal (a call hangs)")
		}
	}
	stop.Store(true)

	if !res.hang {
		// afterwards, sequentially: the instance still refines the model (lost updates, a corrupted hasher / trie show here)
		func() {
			defer func() {
				if p := recover(); p != nil {
					fl.pan.Add(1)
					fl.add("after the phase: sequential read-back panicked: %v", p)
				}
			}()
			vs := make([]int, W)
			for i, w := range ws {
				vs[i] = int(w.finished.Load() % int64(w.L))
			}
			final := contentsAt(vs)
			for _, k := range append(append([]string{}, present...), absent...) {
				v, ex, isGet, err := in.read(k, false)
				want, was := final[k]
				if err != nil || ex != was || (ex && isGet && !bytes.Equal(v, want)) {
					fl.add("after the phase (sequential): read(%s) = (%x, %v, err=%v); model (%x, %v)", clipKey(k), v, ex, err, want, was)
				}
			}
			if n := in.Size(); n != len(final) {
				fl.add("after the phase (sequential): Size() = %d, the model has %d keys", n, len(final))
			}
			if c, err := in.stream(); err != nil || c != canon(final) {
				fl.add("after the phase (sequential): Stream {%s} err=%v, model {%s}", clip(c), err, clip(canon(final)))
			}
			fresh := open(mapdb.NewMapDB(), sc.Set)
			keys := make([]string, 0, len(final))
			for k := range final {
				keys = append(keys, k)
			}
			sort.Strings(keys)
			for _, k := range keys {
				if err := fresh.put(k, final[k]); err != nil {
					fl.add("after the phase: building the fresh instance: %v", err)
				}
			}
			if a, b := in.Root(), fresh.Root(); a != b {
				fl.add("after the phase (sequential): Root() = %x, a fresh instance with the same contents has %x", a[:6], b[:6])
			}
		}()
		for i := range opCount {
			for k, v := range opCount[i] {
				res.byOp[k] += v
			}
		}
	}
	for i := range calls {
		res.calls = append(res.calls, calls[i].Load())
	}
	fl.mu.Lock()
	res.fails = append([]string{}, fl.fails...)
	fl.mu.Unlock()
	res.nfails, res.panics = fl.n.Load(), fl.pan.Load()
	for _, w := range ws {
		res.writerN += w.finished.Load()
	}
	res.maxWidth, res.unjudged = maxWidth.Load(), unjudged.Load()
	return res
}

func presence(v []byte) string {
	if v == nil {
		return "is absent"
	}
	return "is present"
}

func clipKey(k string) string {
	if len(k) > 24 {
		return fmt.Sprintf("%q...(%d bytes)", k[:24], len(k))
	}
	return fmt.Sprintf("%q", k)
}

func clip(s string) string {
	if len(s) > 200 {
		return s[:200] + "..."
	}
	return s
}

// ---------- the families ----------

func concPlan(r *vx.Rng, rounds, ms int) []concScenario {
	var plan []concScenario
	mixOf := map[string][]string{
		"readers": {"balanced", "streams", "roots"},
		"writer":  {"roots", "balanced", "streams"},
		"writers": {"balanced", "roots", "streams"},
	}
	for i := 0; i < rounds; i++ {
		for f, fam := range []string{"readers", "writer", "writers"} {
			j := i + f // threads: readers 2,3,4,..; writer 3,4,2,..; writers 4,2,3,..
			sc := concScenario{Family: fam, Set: (i+2*f)%3 == 2, Restored: r.Bool(), Threads: 2 + j%3, Mix: mixOf[fam][i%3],
				NKeys: []int{3, 8, 24, 64}[r.Intn(4)], LongKeys: r.Bool(), Seed: r.U64(), Ms: ms}
			plan = append(plan, sc)
		}
	}
	return plan
}

func concMain(args []string) {
	fs := flag.NewFlagSet("conc", flag.ExitOnError)
	rounds := fs.Int("rounds", 4, "scenarios per family")
	ms := fs.Int("ms", 200, "duration of one scenario's concurrent phase")
	seed := fs.Uint64("seed", 1, "")
	_ = fs.String("out", "", "unused: this family writes no Coq cases")
	stats := fs.String("stats", "stats.json", "")
	replay := fs.String("replay", "", "JSON file with one scenario (field conc) to run alone")
	repeat := fs.Int("repeat", 1, "replay: number of attempts")
	_ = fs.Parse(args)
	initPool()
	if runtime.GOMAXPROCS(0) < 2 {
		runtime.GOMAXPROCS(2)
	}
	st := vx.NewStats("concurrent scenarios on one ads.Map / ads.Set instance, 2-4 goroutines: readers only (Has/Get/Size/Root/WasRestored/Stream on known contents), readers racing one writer, two writers on disjoint keys plus readers (cyclic Set/Add/Delete/Commit scripts on 1-5 hot keys); fresh and restored (lazily loaded) tries, 3-64 keys, short and 100-300 byte keys, balanced / Root-heavy / Stream-heavy call mixes; every result must be the sequential model's answer for some linearization compatible with real time, and the instance must refine the model after the phase; distinct = distinct scenario; non-trivial = every goroutine completed >= 200 calls on >= 2 CPUs")
	var plan []concScenario
	if *replay != "" {
		var c struct {
			Conc concScenario `json:"conc"`
		}
		b, err := os.ReadFile(*replay)
		if err != nil {
			vx.Die("%v", err)
		}
		if err := json.Unmarshal(b, &c); err != nil {
			vx.Die("%v", err)
		}
		if c.Conc.Threads < 2 || c.Conc.Threads > 16 || c.Conc.Threads < c.Conc.writers() || c.Conc.NKeys < 1 || c.Conc.Ms < 1 {
			vx.Die("bad scenario in %s", *replay)
		}
		for i := 0; i < *repeat; i++ {
			plan = append(plan, c.Conc)
		}
	} else {
		plan = concPlan(vx.NewRng(*seed^0xc09c09), *rounds, *ms)
	}
	var totalCalls, totalWriter, widest, unjudged int64
	ncpu := runtime.NumCPU()
	for _, sc := range plan {
		res := runConc(sc)
		minCalls := int64(-1)
		for _, c := range res.calls {
			totalCalls += c
			if minCalls < 0 || c < minCalls {
				minCalls = c
			}
		}
		totalWriter += res.writerN
		unjudged += res.unjudged
		if res.maxWidth > widest {
			widest = res.maxWidth
		}
		st.Count("conc:family:" + sc.Family)
		st.Count("conc:mix:" + sc.Mix)
		st.Count(fmt.Sprintf("conc:threads:%d", sc.Threads))
		if sc.Set {
			st.Count("conc:flavour:set")
		} else {
			st.Count("conc:flavour:map")
		}
		if sc.Restored {
			st.Count("conc:restored-trie")
		}
		st.Case("conc:"+sc.String(), minCalls >= 200 && ncpu >= 2 && runtime.GOMAXPROCS(0) >= 2)
		st.Sample(map[string]any{"conc": sc, "calls_per_goroutine": res.calls, "calls_by_op": res.byOp, "writer_ops": res.writerN, "script_len": res.scriptN, "widest_window": res.maxWidth}, 3)
		if res.nfails > 0 {
			st.Fail(map[string]any{"sig": "", "conc": sc, "why": res.fails, "failures": res.nfails, "panics": res.panics, "hang": res.hang,
				"calls_per_goroutine": res.calls, "note": "concurrent scenario (schedule-dependent): replay re-runs it several times with the same contents, scripts and per-goroutine call streams"})
		}
		if res.hang {
			break // goroutines of this scenario are still stuck: do not start more
		}
	}
	st.Extra["conc_calls"] = totalCalls
	st.Extra["conc_writer_ops"] = totalWriter
	st.Extra["conc_widest_window"] = widest
	st.Extra["conc_results_only_exercised"] = unjudged
	st.Extra["conc_cpus"] = ncpu
	st.Extra["conc_gomaxprocs"] = runtime.GOMAXPROCS(0)
	if err := st.Write(*stats); err != nil {
		vx.Die("%v", err)
	}
}
