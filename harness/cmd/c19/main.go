// C19 harness: runs the compiled core/safemath functions
//
//	cases: on boundary-biased operands of all eight types, writing the observed results as Coq cases
//	       (translator validation: Generated.v must evaluate to the same results) and judging each
//	       against exact big-integer arithmetic (the property itself, independent of the model);
//	sweep: exhaustively at 8 (and 16) bit against exact arithmetic.
package main

import (
	"errors"
	"flag"
	"fmt"
	"math/big"
	"os"
	"runtime"
	"sync"

	"github.com/iotaledger/hive.go/core/safemath"

	"verif/harness/vx"
)

const (
	opAdd = iota
	opSub
	opMul
	opDiv
	opShl
	opMulU64
	opMulI64
	opMulDiv
)

var opNames = []string{"OAdd", "OSub", "OMul", "ODiv", "OShl", "OMulU64", "OMulI64", "OMulDiv"}

type ty struct {
	name   string
	signed bool
	bits   uint
}

var types = []ty{{"u8", false, 8}, {"i8", true, 8}, {"u16", false, 16}, {"i16", true, 16}, {"u32", false, 32}, {"i32", true, 32}, {"u64", false, 64}, {"i64", true, 64}}

func (t ty) min() *big.Int {
	if !t.signed {
		return big.NewInt(0)
	}
	return new(big.Int).Neg(new(big.Int).Lsh(big.NewInt(1), t.bits-1))
}

func (t ty) max() *big.Int {
	b := t.bits
	if t.signed {
		b--
	}
	return new(big.Int).Sub(new(big.Int).Lsh(big.NewInt(1), b), big.NewInt(1))
}

func (t ty) inRange(z *big.Int) bool { return z.Cmp(t.min()) >= 0 && z.Cmp(t.max()) <= 0 }

func class(err error) string {
	switch {
	case err == nil:
		return "ok"
	case errors.Is(err, safemath.ErrIntegerOverflow):
		return "overflow"
	case errors.Is(err, safemath.ErrIntegerDivisionByZero):
		return "divzero"
	}
	return "othererr"
}

func doT[T safemath.Integer](op int, x, y T) (r T, err error) {
	switch op {
	case opAdd:
		return safemath.SafeAdd(x, y)
	case opSub:
		return safemath.SafeSub(x, y)
	case opMul:
		return safemath.SafeMul(x, y)
	case opDiv:
		return safemath.SafeDiv(x, y)
	}
	panic("op")
}

func toBigS[T ~int8 | ~int16 | ~int32 | ~int64](v T) *big.Int { return big.NewInt(int64(v)) }
func toBigU[T ~uint8 | ~uint16 | ~uint32 | ~uint64](v T) *big.Int {
	return new(big.Int).SetUint64(uint64(v))
}

// apply runs the implementation; operands are in range of t. Returns (value, class).
func apply(op int, t ty, x, y, z *big.Int) (res *big.Int, cls string) {
	defer func() {
		if r := recover(); r != nil {
			res, cls = nil, "panic"
		}
	}()
	xs, ys := x.Int64(), y.Int64()
	xu, yu := x.Uint64(), y.Uint64()
	if op == opShl {
		s := uint8(y.Uint64())
		switch t.name {
		case "u8":
			r, err := safemath.SafeLeftShift(uint8(xu), s)
			return toBigU(r), class(err)
		case "i8":
			r, err := safemath.SafeLeftShift(int8(xs), s)
			return toBigS(r), class(err)
		case "u16":
			r, err := safemath.SafeLeftShift(uint16(xu), s)
			return toBigU(r), class(err)
		case "i16":
			r, err := safemath.SafeLeftShift(int16(xs), s)
			return toBigS(r), class(err)
		case "u32":
			r, err := safemath.SafeLeftShift(uint32(xu), s)
			return toBigU(r), class(err)
		case "i32":
			r, err := safemath.SafeLeftShift(int32(xs), s)
			return toBigS(r), class(err)
		case "u64":
			r, err := safemath.SafeLeftShift(xu, s)
			return toBigU(r), class(err)
		case "i64":
			r, err := safemath.SafeLeftShift(xs, s)
			return toBigS(r), class(err)
		}
	}
	switch op {
	case opMulU64:
		r, err := safemath.SafeMulUint64(xu, yu)
		return toBigU(r), class(err)
	case opMulI64:
		r, err := safemath.SafeMulInt64(xs, ys)
		return toBigS(r), class(err)
	case opMulDiv:
		r, err := safemath.Safe64MulDiv(xu, yu, z.Uint64())
		return toBigU(r), class(err)
	}
	switch t.name {
	case "u8":
		r, err := doT(op, uint8(xu), uint8(yu))
		return toBigU(r), class(err)
	case "i8":
		r, err := doT(op, int8(xs), int8(ys))
		return toBigS(r), class(err)
	case "u16":
		r, err := doT(op, uint16(xu), uint16(yu))
		return toBigU(r), class(err)
	case "i16":
		r, err := doT(op, int16(xs), int16(ys))
		return toBigS(r), class(err)
	case "u32":
		r, err := doT(op, uint32(xu), uint32(yu))
		return toBigU(r), class(err)
	case "i32":
		r, err := doT(op, int32(xs), int32(ys))
		return toBigS(r), class(err)
	case "u64":
		r, err := doT(op, xu, yu)
		return toBigU(r), class(err)
	case "i64":
		r, err := doT(op, xs, ys)
		return toBigS(r), class(err)
	}
	panic("type")
}

// exact is the property: the mathematical result when representable, else the error class.
func exact(op int, t ty, x, y, z *big.Int) (*big.Int, string) {
	var r *big.Int
	switch op {
	case opAdd:
		r = new(big.Int).Add(x, y)
	case opSub:
		r = new(big.Int).Sub(x, y)
	case opMul, opMulU64, opMulI64:
		r = new(big.Int).Mul(x, y)
	case opDiv:
		if y.Sign() == 0 {
			return nil, "divzero"
		}
		r = new(big.Int).Quo(x, y) // truncated
	case opShl:
		r = new(big.Int).Lsh(big.NewInt(1), uint(y.Uint64()))
		r.Mul(r, x)
	case opMulDiv:
		if z.Sign() == 0 {
			return nil, "divzero"
		}
		r = new(big.Int).Mul(x, y)
		r.Quo(r, z)
	}
	if t.inRange(r) {
		return r, "ok"
	}
	return nil, "overflow"
}

func coqRes(v *big.Int, cls string) string {
	switch cls {
	case "ok":
		return "(Ok " + vx.ZBig(v) + ")"
	case "overflow":
		return "ErrOverflow"
	case "divzero":
		return "ErrDivZero"
	}
	return "Panic"
}

func boundary(r *vx.Rng, t ty) *big.Int {
	one := big.NewInt(1)
	var v *big.Int
	switch r.Intn(10) {
	case 0:
		v = t.min()
	case 1:
		v = t.max()
	case 2:
		v = big.NewInt(int64(r.Intn(5)) - 2)
	case 3, 4: // +-2^k +-1
		k := uint(r.Intn(int(t.bits)))
		v = new(big.Int).Lsh(one, k)
		v.Add(v, big.NewInt(int64(r.Intn(3))-1))
		if r.Bool() {
			v.Neg(v)
		}
	case 5: // near sqrt of the range
		k := t.bits / 2
		v = new(big.Int).Lsh(one, k)
		v.Add(v, big.NewInt(int64(r.Intn(7))-3))
		if r.Bool() {
			v.Neg(v)
		}
	case 6:
		v = new(big.Int).Sub(t.max(), big.NewInt(int64(r.Intn(4))))
	case 7:
		v = new(big.Int).Add(t.min(), big.NewInt(int64(r.Intn(4))))
	default:
		v = new(big.Int).SetUint64(r.U64())
		v.Rsh(v, uint(r.Intn(64)))
		if r.Bool() {
			v.Neg(v)
		}
	}
	// clamp by wrapping into range
	m := new(big.Int).Lsh(one, t.bits)
	v.Mod(v, m)
	if t.signed && v.Cmp(t.max()) > 0 {
		v.Sub(v, m)
	}
	return v
}

type failure struct {
	Sig  string `json:"sig"`
	Op   string `json:"op"`
	Type string `json:"type"`
	X    string `json:"x"`
	Y    string `json:"y"`
	Z    string `json:"z"`
	Got  string `json:"got"`
	Want string `json:"want"`
}

func judge(op int, t ty, x, y, z *big.Int) (got string, want string, ok bool) {
	rv, rc := apply(op, t, x, y, z)
	ev, ec := exact(op, t, x, y, z)
	got, want = coqRes(rv, rc), coqRes(ev, ec)
	return got, want, got == want
}

func cmdCases(n int, seed uint64, out, statsPath string) {
	r := vx.NewRng(seed)
	st := vx.NewStats("boundary-biased operands (min, max, +-2^k+-1, near sqrt, small, random) over the 8 integer types x {Add,Sub,Mul,Div,Shl} plus SafeMulUint64/SafeMulInt64/Safe64MulDiv; distinct = distinct (op,type,x,y,z); non-trivial = both operands non-zero")
	cf := &vx.CasesFile{
		Header: "From Coq Require Import ZArith List.\nFrom Verif.C19_SafeMath Require Import GoInt Generated Corr.\nImport ListNotations.\nOpen Scope Z_scope.\n",
		Type:   "case",
		Footer: "Definition M := Eval vm_compute in mismatches cases.\nPrint M.\n",
	}
	zero := big.NewInt(0)
	add := func(op int, t ty, x, y, z *big.Int) {
		got, want, ok := judge(op, t, x, y, z)
		key := fmt.Sprintf("%s/%s/%s/%s/%s", opNames[op], t.name, x, y, z)
		st.Case(key, x.Sign() != 0 && y.Sign() != 0)
		st.Count(opNames[op] + ":" + map[bool]string{true: "ok", false: "err"}[got[:3] == "(Ok"])
		st.Count("type:" + t.name)
		cf.Add(fmt.Sprintf("mk %s %s %s %s %s %s", opNames[op], t.name, vx.ZBig(x), vx.ZBig(y), vx.ZBig(z), got))
		d := map[string]string{"op": opNames[op], "type": t.name, "x": x.String(), "y": y.String(), "z": z.String(), "go_result": got}
		st.CaseIndex = append(st.CaseIndex, d)
		st.Sample(d, 6)
		if !ok {
			st.Fail(failure{Sig: "", Op: opNames[op], Type: t.name, X: x.String(), Y: y.String(), Z: z.String(), Got: got, Want: want})
		}
	}
	// directed regression cases first (the defects repaired by the fix: commits)
	i8, u8t := types[1], types[0]
	add(opMul, i8, big.NewInt(-1), big.NewInt(-128), zero)
	add(opMul, i8, big.NewInt(-128), big.NewInt(-1), zero)
	add(opDiv, i8, big.NewInt(-128), big.NewInt(-1), zero)
	add(opShl, u8t, big.NewInt(96), big.NewInt(2), zero)
	add(opShl, i8, big.NewInt(-1), big.NewInt(1), zero)
	add(opShl, i8, big.NewInt(-1), big.NewInt(8), zero)
	add(opMulI64, types[7], types[7].min(), big.NewInt(-1), zero)
	add(opMulI64, types[7], types[7].min(), big.NewInt(1), zero)
	for cf.Len() < n {
		k := r.Intn(16)
		switch {
		case k < 10:
			t := vx.Pick(r, types)
			op := r.Intn(5)
			x, y := boundary(r, t), boundary(r, t)
			if op == opShl {
				y = big.NewInt(int64(r.Intn(256)))
				if r.Chance(2, 3) {
					y = big.NewInt(int64(r.Intn(int(t.bits) + 2)))
				}
			}
			add(op, t, x, y, zero)
		case k < 12:
			add(opMulU64, types[6], boundary(r, types[6]), boundary(r, types[6]), zero)
		case k < 14:
			add(opMulI64, types[7], boundary(r, types[7]), boundary(r, types[7]), zero)
		default:
			add(opMulDiv, types[6], boundary(r, types[6]), boundary(r, types[6]), boundary(r, types[6]))
		}
	}
	if err := cf.Write(out); err != nil {
		vx.Die("%v", err)
	}
	if err := st.Write(statsPath); err != nil {
		vx.Die("%v", err)
	}
}

// sweepT enumerates all operand pairs of a type of at most 16 bits against exact int64 arithmetic.
func sweepT[T safemath.Integer](t ty, stride int64, fails *[]failure, mu *sync.Mutex, count *int64) {
	lo, hi := t.min().Int64(), t.max().Int64()
	// y values: every stride-th value plus the boundary neighbourhood (all values when stride = 1)
	var ys []int64
	for y := lo; y <= hi; y++ {
		if stride == 1 || (y-lo)%stride == 0 || y-lo < 4 || hi-y < 4 || (y > -4 && y < 4) || (y > hi/2-3 && y < hi/2+3) {
			ys = append(ys, y)
		}
	}
	var wg sync.WaitGroup
	nw := runtime.NumCPU()
	span := (hi - lo + 1 + int64(nw) - 1) / int64(nw)
	for w := 0; w < nw; w++ {
		a, b := lo+int64(w)*span, lo+int64(w+1)*span-1
		if b > hi {
			b = hi
		}
		if a > hi {
			break
		}
		wg.Add(1)
		go func(a, b int64) {
			defer wg.Done()
			var local []failure
			var n int64
			rec := func(op int, x, y int64, got string, want string) {
				if len(local) < 5 {
					local = append(local, failure{Op: opNames[op], Type: t.name, X: fmt.Sprint(x), Y: fmt.Sprint(y), Z: "0", Got: got, Want: want})
				}
			}
			for x := a; x <= b; x++ {
				for _, y := range ys {
					for op := opAdd; op <= opDiv; op++ {
						var ex int64
						wantCls := "ok"
						switch op {
						case opAdd:
							ex = x + y
						case opSub:
							ex = x - y
						case opMul:
							ex = x * y
						case opDiv:
							if y == 0 {
								wantCls = "divzero"
							} else {
								ex = x / y
							}
						}
						if wantCls == "ok" && (ex < lo || ex > hi) {
							wantCls = "overflow"
						}
						r, err := doT(op, T(x), T(y))
						n++
						c := class(err)
						if c != wantCls || (c == "ok" && int64(r) != ex) {
							rec(op, x, y, fmt.Sprintf("%v/%s", r, c), fmt.Sprintf("%v/%s", ex, wantCls))
						}
					}
				}
				for s := 0; s < 256; s++ {
					wantCls := "ok"
					var ex int64
					if s >= 40 {
						if x != 0 {
							wantCls = "overflow"
						}
					} else {
						ex = x * (int64(1) << uint(s))
						if ex < lo || ex > hi {
							wantCls = "overflow"
						}
					}
					r, err := safemath.SafeLeftShift(T(x), uint8(s))
					n++
					c := class(err)
					if c != wantCls || (c == "ok" && int64(r) != ex) {
						rec(opShl, x, int64(s), fmt.Sprintf("%v/%s", r, c), fmt.Sprintf("%v/%s", ex, wantCls))
					}
				}
			}
			mu.Lock()
			*fails = append(*fails, local...)
			*count += n
			mu.Unlock()
		}(a, b)
	}
	wg.Wait()
}

func cmdSweep(bits int, stride int64, statsPath string) {
	st := vx.NewStats(fmt.Sprintf("sweep: every x of the %d-bit types x every %d-th y (plus boundary neighbourhoods; stride 1 = exhaustive) x {Add,Sub,Mul,Div} and every (value, shift 0..255) against exact int64 arithmetic", bits, stride))
	var fails []failure
	var mu sync.Mutex
	var count int64
	if bits == 8 {
		sweepT[uint8](types[0], 1, &fails, &mu, &count)
		sweepT[int8](types[1], 1, &fails, &mu, &count)
	} else {
		sweepT[uint16](types[2], stride, &fails, &mu, &count)
		sweepT[int16](types[3], stride, &fails, &mu, &count)
	}
	st.Evaluations = int(count)
	st.DistinctNontrivial = int(count)
	st.Extra["sweep_bits"] = bits
	st.Extra["sweep_stride"] = stride
	for i, f := range fails {
		if i < 10 {
			st.Fail(f)
		}
	}
	st.Sample(map[string]any{"sweep_bits": bits, "evaluations": count}, 1)
	if err := st.Write(statsPath); err != nil {
		vx.Die("%v", err)
	}
}

func main() {
	if len(os.Args) < 2 {
		vx.Die("usage: hx-c19 cases|sweep ...")
	}
	fs := flag.NewFlagSet(os.Args[1], flag.ExitOnError)
	n := fs.Int("n", 3000, "cases")
	seed := fs.Uint64("seed", 1, "seed")
	out := fs.String("out", "cases.v", "")
	stats := fs.String("stats", "stats.json", "")
	bits := fs.Int("bits", 8, "")
	stride := fs.Int64("stride", 1, "")
	_ = fs.Parse(os.Args[2:])
	switch os.Args[1] {
	case "cases":
		cmdCases(*n, *seed, *out, *stats)
	case "sweep":
		cmdSweep(*bits, *stride, *stats)
	default:
		vx.Die("unknown command")
	}
}
