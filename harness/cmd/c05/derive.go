// View derivation as a concurrent operation.
//
// WithRealm / WithExtendedRealm / Batched / Realm() are called by free-running goroutines WHILE other goroutines are inside
// operations on the very view the new one is derived from (and on its siblings); the deriving goroutine then operates through the
// freshly derived view: single operations, iterations, batches, further derivations from it. The other streams make all their
// views before the goroutines start (newWorld), so that a derived view whose state depends on what its parent was doing at the
// instant of the derivation (a copied lock word, a shared realm buffer, a private closed flag, ...) was never exercised.
//
// The model (and the property) treat view creation as a pure function of the realm: a view IS its realm (+ the object identity of
// its own lock, fresh and free). The oracle here is exactly that reading, independent of the Coq model:
//
//	realm of the derived view  = K for WithRealm(K), realm(parent) ++ K for WithExtendedRealm(K)   (Realm() must return it)
//	every operation through it = the operation of the C04 contract on full key realm ++ key
//
// and the whole history (operations through static and derived views, derivations as `nop` records that fail only after Close)
// must be linearizable; every history runs under the watchdog, a hang is reported with the scripts and the calls in flight.
// To keep the parent's locks held for a while, most histories use large values (big.go: 64 KiB..256 KiB, copied under the locks).
// Realm arguments are fresh slices WITH spare capacity (an implementation appending to them in place would corrupt a sibling).
package main

import (
	"fmt"
	"time"

	"github.com/iotaledger/hive.go/kvstore"

	"verif/harness/vx"
)

type dview struct {
	h     kvstore.KVStore
	sp    *spy   // != nil: h is a flushkv store over a spy of the goroutine
	realm string // prescribed by the derivation chain
}

// derivedUsable: false when the call needs a derived view that does not exist (its derivation failed because the store was closed)
func (a *actor) derivedUsable(c call) bool {
	if c.Kind == "derive" {
		return c.From == 0 || a.derived[c.From] != nil
	}
	return c.D == 0 || a.derived[c.D] != nil
}

func freshRealm(s string) []byte {
	return append(make([]byte, 0, 32), s...) // assembled with append: len < cap
}

func (a *actor) execDerive(c call) (ret, []opres) {
	h, sp, realm := a.handles[c.V], a.spies[c.V], views[c.V].Realm
	src := c.D
	if c.Kind == "derive" {
		src = c.From
	}
	if src > 0 {
		d := a.derived[src]
		h, sp, realm = d.h, d.sp, d.realm
	}
	if c.Kind == "realm" {
		got := string(h.Realm())
		if got != realm {
			a.fails = append(a.fails, fmt.Sprintf("view-realm: Realm() of the view of %+v is %q, the derivation chain prescribes %q", c, got, realm))
		}
		return ret{Kind: "ok"}, nil
	}
	var nv kvstore.KVStore
	var err error
	want := c.K
	if c.How == "extended" {
		nv, err = h.WithExtendedRealm(freshRealm(c.K))
		want = realm + c.K
	} else {
		nv, err = h.WithRealm(freshRealm(c.K))
	}
	r := errRet(err)
	if a.derived == nil {
		a.derived = map[int]*dview{}
	}
	delete(a.derived, c.To)
	if err == nil {
		if nv == nil {
			a.fails = append(a.fails, fmt.Sprintf("view-realm: %+v returned neither a view nor an error", c))
		} else {
			a.derived[c.To] = &dview{h: nv, sp: sp, realm: want}
		}
	}
	return r, []opres{{sop{Kind: "nop"}, r}}
}

// realm arguments so that the derived realm is (mostly) a prefix of a universe key
func (g *gen) deriveArg(how string, parent string) string {
	if g.r.Chance(1, 12) {
		return "zz"
	}
	var opts []string
	if how == "withrealm" {
		opts = []string{"", "a", "a", "ab", "ab", "abc", "b"}
	} else {
		for _, p := range prefixes {
			if len(p) >= len(parent) && p[:len(parent)] == parent {
				opts = append(opts, p[len(parent):])
			}
		}
		if len(opts) > 1 {
			opts = append(opts, opts[1:]...) // a real extension twice as likely as the empty one
		}
		if len(opts) == 0 {
			opts = []string{"", "c"}
		}
	}
	return vx.Pick(g.r, opts)
}

type deriveShape struct {
	derivations, extended, chained, fromFlush, ops, writes, batches, realms, siblings, flushSiblings int
}

// script of a deriving goroutine: nd derivations, each followed by operations through the new view
func (g *gen) deriver(t int, nd int, big func() string, sh *deriveShape) []call {
	var cs []call
	type slot struct {
		v     int
		realm string
	}
	var slots []slot // slot i+1
	for i := 0; i < nd; i++ {
		how := "withrealm"
		if g.r.Chance(3, 5) {
			how = "extended"
		}
		v := g.r.Intn(len(views))
		from := 0
		parent := views[v].Realm
		if len(slots) > 0 && g.r.Chance(1, 3) { // derive from a view this goroutine derived before
			from = 1 + g.r.Intn(len(slots))
			v, parent = slots[from-1].v, slots[from-1].realm
			sh.chained++
		}
		k := g.deriveArg(how, parent)
		realm := k
		if how == "extended" {
			realm = parent + k
			sh.extended++
		}
		if views[v].Fl {
			sh.fromFlush++
		}
		slots = append(slots, slot{v, realm})
		to := len(slots)
		cs = append(cs, call{Kind: "derive", V: v, How: how, From: from, To: to, K: k})
		sh.derivations++
		// operations through the new view: the first one is a write in 3/4 (a view born with a held lock blocks its first writer)
		for j, m := 0, 1+g.r.Intn(3); j < m; j++ {
			var ops []call
			switch {
			case j == 0 && g.r.Chance(3, 4):
				keys := relKeys(realm, universe)
				if len(keys) == 0 {
					keys = []string{"k"}
				}
				if g.r.Chance(1, 4) {
					ops = []call{{Kind: "del", V: v, K: vx.Pick(g.r, keys)}}
				} else {
					ops = []call{{Kind: "set", V: v, K: vx.Pick(g.r, keys), Val: g.value(t)}}
				}
			case g.r.Chance(1, 8):
				ops = []call{{Kind: "realm", V: v}}
				sh.realms++
			default:
				ops = g.callAt(t, v, realm, 0)
			}
			for x := range ops {
				if x == 0 || x == len(ops)-1 { // a middle call of a batched/commit pair is a call of its own on a static view
					ops[x].D = to
				}
				if ops[x].Kind == "batched" {
					sh.batches++
				}
				if k := ops[x].Kind; k == "set" || k == "del" || k == "delprefix" || k == "clear" || k == "commit" {
					sh.writes++
				}
			}
			sh.ops += len(ops)
			cs = append(cs, ops...)
		}
	}
	if g.r.Chance(1, 2) {
		cs = append(cs, g.siblings(t, len(slots), sh)...)
	}
	bigify(cs, big)
	return cs
}

// siblings: two views derived with WithExtendedRealm from ONE parent (a static view, plain or flushkv, or a view this goroutine derives
// first with a realm slice that has spare capacity) with extensions of EQUAL length; the first sibling is written through before and
// read through after the second one was derived, and Realm() of parent and siblings is compared with the bytes the harness passed
// once all of them exist (an implementation building the child realm in the parent's buffer makes the siblings share one realm).
func (g *gen) siblings(t int, used int, sh *deriveShape) []call {
	v := vx.Pick(g.r, []int{5, 5, 4, 1, 2, 3, 0})
	parent := views[v].Realm
	from := 0
	var cs []call
	next := used
	if g.r.Chance(1, 2) { // own parent first
		parent = vx.Pick(g.r, []string{"", "a", "ab"})
		next++
		from = next
		cs = append(cs, call{Kind: "derive", V: v, How: "withrealm", To: from, K: parent})
		sh.derivations++
	}
	x, y := "k", "z"
	switch parent {
	case "":
		x, y = "a", "b"
	case "a":
		x = "b"
	case "ab":
		x = "c"
	}
	if g.r.Chance(1, 2) {
		x, y = y, x
	}
	key := func(realm string) string {
		if ks := relKeys(realm, universe); len(ks) > 0 {
			return vx.Pick(g.r, ks)
		}
		return "k"
	}
	s1, s2 := next+1, next+2
	r1, r2 := parent+x, parent+y
	k1 := key(r1)
	cs = append(cs,
		call{Kind: "derive", V: v, How: "extended", From: from, To: s1, K: x},
		call{Kind: "set", V: v, D: s1, K: k1, Val: g.value(t)},
		call{Kind: "derive", V: v, How: "extended", From: from, To: s2, K: y},
		call{Kind: "realm", V: v, D: s1},
		call{Kind: "get", V: v, D: s1, K: k1},
		call{Kind: "set", V: v, D: s2, K: key(r2), Val: g.value(t)},
		call{Kind: "iter", V: v, D: s1, K: "", Fwd: true, Keys: g.r.Chance(1, 2), Lim: 9},
		call{Kind: "realm", V: v, D: s2},
		call{Kind: "realm", V: v, D: from},
		call{Kind: "realm", V: v, D: s1})
	sh.derivations += 2
	sh.extended += 2
	sh.siblings++
	if views[v].Fl {
		sh.fromFlush += 2
		sh.flushSiblings++
	}
	sh.ops += 8
	sh.writes += 2
	sh.realms += 4
	return cs
}

// bigify replaces the values of the calls by large ones (big == nil: nothing to do)
func bigify(cs []call, big func() string) {
	if big == nil {
		return
	}
	for i := range cs {
		if cs[i].Kind == "set" {
			cs[i].Val = big()
		}
		for j := range cs[i].Ws {
			if !cs[i].Ws[j].Del {
				cs[i].Ws[j].Val = big()
			}
		}
	}
}

// script of a goroutine that keeps the static views busy: mostly writes and reads of whole values (long lock holds with large values)
func (g *gen) busy(t int, n int, big func() string) []call {
	var cs []call
	for len(cs) < n {
		v := g.r.Intn(len(views))
		keys := relKeys(views[v].Realm, universe)
		x := g.r.Intn(100)
		switch {
		case x < 50:
			cs = append(cs, call{Kind: "set", V: v, K: vx.Pick(g.r, keys), Val: g.value(t)})
		case x < 72:
			cs = append(cs, call{Kind: "get", V: v, K: vx.Pick(g.r, keys)})
		case x < 76:
			cs = append(cs, call{Kind: "realm", V: v}) // Realm() of a static view while siblings derive from it
		default:
			cs = append(cs, g.callOn(t, v, 0)...)
		}
	}
	bigify(cs, big)
	return cs
}

func runDerive(g *gen, count, toCoq int, seed uint64, st *vx.Stats, addCase func(string, any)) {
	hangs, bad, sent := 0, 0, 0
	var sh deriveShape
	for n := 0; n < count && hangs < 2 && bad < 3; n++ {
		var big func() string
		useBig := g.r.Chance(2, 3)
		if useBig {
			word := 0
			l0 := g.r.Intn(min(bigUse, 4))
			big = func() string {
				word++
				li := l0
				if g.r.Chance(1, 4) {
					li = g.r.Intn(min(bigUse, 4))
				}
				return bigDesc(0x4000+word, li)
			}
		}
		B := 1 + g.r.Intn(3)
		D := 1 + g.r.Intn(3)
		scripts := make([][]call, B+D)
		for t := 0; t < B; t++ {
			scripts[t] = g.busy(t, 4+g.r.Intn(4), big)
		}
		for t := B; t < B+D; t++ {
			scripts[t] = g.deriver(t, 1+g.r.Intn(3), big, &sh)
		}
		capParents := g.r.Chance(1, 2)
		closing := g.r.Chance(1, 8)
		if closing { // one Close somewhere in a busy script
			t := g.r.Intn(B)
			at := g.r.Intn(len(scripts[t]) + 1)
			for at < len(scripts[t]) && scripts[t][at].Kind == "commit" {
				at++
			}
			sc := append([]call(nil), scripts[t][:at]...)
			sc = append(sc, call{Kind: "close", V: g.r.Intn(len(views))})
			scripts[t] = append(sc, scripts[t][at:]...)
		}
		rounds := g.r.Chance(1, 2)
		jitter := []int{0, 0, 1, 0, 2}
		h, fails, torn, hang := runFreeOpt(scripts, jitter, rounds, 15*time.Second, freeOpt{big: useBig, capParents: capParents})
		if hang != nil {
			hangs++
			st.Fail(map[string]any{"kind": "hang", "mode": "derive", "seed": seed, "index": n, "in_flight": hang, "scripts": scripts,
				"large_values": useBig, "rounds": rounds,
				"what": "goroutines derive views (kind derive: WithRealm / WithExtendedRealm from the static view v or from their own slot `from`) while the " +
					"other goroutines operate on the static views, and then operate through the derived view (calls with d = slot); the calls in " +
					"flight did not return within 15 s"})
			st.Count("derive:hang")
			continue
		}
		for _, f := range fails {
			st.Fail(map[string]any{"kind": "derived-view", "mode": "derive", "seed": seed, "index": n, "what": f, "scripts": scripts})
			bad++
		}
		if len(torn) > 0 {
			st.Fail(map[string]any{"kind": "torn-value", "mode": "derive", "seed": seed, "index": n, "torn": torn, "scripts": scripts})
			bad++
		}
		nc := conflicts(h)
		st.Case("derive:"+histKey(h), nc > 0)
		st.Count("mode:derive")
		if useBig {
			st.Count("derive:large-values")
		}
		if closing {
			st.Count("derive:with-close")
		}
		if len(h) <= 62 {
			lin := len(torn) == 0 && linearizable(h)
			if len(torn) == 0 && !lin {
				st.Fail(map[string]any{"kind": "not-linearizable", "mode": "derive", "seed": seed, "index": n, "scripts": scripts, "history": h,
					"what": "operations through views derived at run time are recorded on the full key realm ++ key, the realm being the one the " +
						"derivation chain prescribes"})
				bad++
			}
			// only histories the Go checker accepted go to Coq: lin_check has no memo table, refuting a history of this length can take
			// it minutes, and the Go verdict is a reported failure with its concrete input already
			// ... and of those only the ones of at most 36 records (CONVENTIONS: <= 40 ops per history for Coq): the first toCoq such histories
			if sent < toCoq && lin && len(h) <= 36 {
				sent++
				st.Count("derive:to-coq")
				addCase("CLin "+vx.ListOf(h, rec.coq), map[string]any{"mode": "derive", "index": n, "history": h})
			}
		} else {
			st.Count("derive:too-long-for-go-checker")
		}
		if n == 0 {
			st.Sample(map[string]any{"mode": "derive", "scripts": scripts, "history": h}, 8)
		}
	}
	st.Extra["derive"] = map[string]any{"derivations": sh.derivations, "with_extended_realm": sh.extended, "from_a_derived_view": sh.chained,
		"from_a_flushkv_view": sh.fromFlush, "calls_through_derived_views": sh.ops, "of_them_writes": sh.writes, "batches": sh.batches,
		"realm_calls": sh.realms, "sibling_pairs_of_equal_extension_length": sh.siblings, "of_them_below_flushkv": sh.flushSiblings}
}
