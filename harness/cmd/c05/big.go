// Large values: a stored value is tens of KiB to 1 MiB, the repetition of ONE 2-byte word that is unique to the Set that
// wrote it. Writers overwrite EXISTING keys (same length and different length) while readers Get / Iterate them through
// all views. With such values a write that is not atomic w.r.t. a concurrent read (value buffers shared between the map
// and a reader or writer across the lock boundary) becomes observable: the reader gets a value that is not uniform.
//
//	oracle 1: every value read is the repetition of one word (else "torn-value": a value that no Set ever stored);
//	oracle 2: the history with every value compressed to (word, length) is linearizable (Go checker; CLin in Coq).
//
// In scripts and histories a large value is written as 4 bytes: 'B', word hi, word lo, '0' + index into bigLens.
package main

import (
	"bytes"
	"fmt"
	"time"

	"verif/harness/vx"
)

var bigLens = []int{1 << 16, 1<<16 + 2, 1 << 17, 1 << 18, 1 << 20}
var bigUse = len(bigLens) // --biguse: only the first so many lengths (race build: the short ones)

const bigMark = 'B'

type tornInfo struct {
	Call     string `json:"call"`
	Key      string `json:"key"`
	Len      int    `json:"len"`
	Word0    string `json:"first_word"`
	SwitchAt int    `json:"first_other_word_at_offset"`
	Word1    string `json:"other_word"`
	Words    int    `json:"distinct_words"`
}

func bigDesc(word int, li int) string {
	return string([]byte{bigMark, byte(word >> 8), byte(word), byte('0' + li)})
}

// enc: what is handed to the store for the script value s
func (a *actor) enc(s string) []byte {
	if !a.w.big || len(s) != 4 || s[0] != bigMark || s[3] < '0' || int(s[3]-'0') >= len(bigLens) {
		return []byte(s)
	}
	n := bigLens[s[3]-'0']
	v := make([]byte, n)
	v[0], v[1] = s[1], s[2]
	for i := 2; i < n; i *= 2 {
		copy(v[i:], v[:i])
	}
	return v
}

// dec: what is recorded for the value v returned by the store
func (a *actor) dec(c call, key string, v []byte) string {
	if !a.w.big || len(v) < 1024 {
		return string(v)
	}
	li := -1
	for i, n := range bigLens {
		if n == len(v) {
			li = i
		}
	}
	w0 := [2]byte{v[0], v[1]}
	if li >= 0 && bytes.Equal(v[2:], v[:len(v)-2]) { // period 2: one word repeated
		return string([]byte{bigMark, w0[0], w0[1], byte('0' + li)})
	}
	distinct := map[[2]byte]bool{}
	sw := -1
	var w1 [2]byte
	for i := 0; i+1 < len(v); i += 2 {
		w := [2]byte{v[i], v[i+1]}
		if w != w0 {
			if sw < 0 {
				sw, w1 = i, w
			}
			if len(distinct) < 16 {
				distinct[w] = true
			}
		}
	}
	if sw < 0 && li >= 0 {
		return string([]byte{bigMark, w0[0], w0[1], byte('0' + li)})
	}
	a.torn = append(a.torn, tornInfo{Call: fmt.Sprintf("%s on view %d", c.Kind, c.V), Key: key, Len: len(v),
		Word0: fmt.Sprintf("%02x%02x", w0[0], w0[1]), SwitchAt: sw, Word1: fmt.Sprintf("%02x%02x", w1[0], w1[1]), Words: len(distinct) + 1})
	return "\xff\xfetorn"
}

// views through which the full key k can be addressed, with the relative key
func viewsFor(k string) (vs []int) {
	for i, v := range views {
		if len(k) >= len(v.Realm) && k[:len(v.Realm)] == v.Realm {
			vs = append(vs, i)
		}
	}
	return
}

func runBig(g *gen, count, toCoq int, seed uint64, st *vx.Stats, addCase func(string, any)) {
	hangs, bad := 0, 0
	for n := 0; n < count && hangs < 2 && bad < 3; n++ {
		word := 0
		l0 := g.r.Intn(bigUse)
		val := func() string {
			word++
			li := l0
			if g.r.Chance(1, 4) {
				li = g.r.Intn(bigUse)
			}
			return bigDesc(0x3000+word, li)
		}
		hot := []string{vx.Pick(g.r, universe)}
		if g.r.Chance(1, 2) {
			hot = append(hot, vx.Pick(g.r, universe))
		}
		on := func(kind, k string) call {
			v := vx.Pick(g.r, viewsFor(k))
			return call{Kind: kind, V: v, K: k[len(views[v].Realm):]}
		}
		W := 1 + g.r.Intn(2)
		R := 2 + g.r.Intn(2)
		scripts := make([][]call, 1+W+R)
		// goroutine 0 stores the hot keys first (rounds mode: alone), then reads
		for _, k := range hot {
			c := on("set", k)
			c.Val = bigDesc(0x3000+word+1, l0)
			word++
			scripts[0] = append(scripts[0], c)
		}
		rounds := g.r.Chance(1, 2)
		pad := len(scripts[0])
		if !rounds {
			pad = 0
		}
		for t := 1; t < len(scripts); t++ {
			for i := 0; i < pad; i++ {
				scripts[t] = append(scripts[t], call{Kind: "flush", V: 0})
			}
		}
		for t := 1; t <= W; t++ {
			for i, m := 0, 4+g.r.Intn(3); i < m; i++ {
				k := vx.Pick(g.r, hot)
				x := g.r.Intn(100)
				switch {
				case x < 80:
					c := on("set", k)
					c.Val = val()
					scripts[t] = append(scripts[t], c)
				case x < 90:
					c := on("set", k) // only to choose a view for the batch
					scripts[t] = append(scripts[t], call{Kind: "batched", V: c.V},
						call{Kind: "commit", V: c.V, Ws: []write{{K: c.K, Val: val()}}})
				case x < 95:
					scripts[t] = append(scripts[t], on("del", k))
				default:
					c := on("set", k)
					c.Val = bigDesc(0x3000+word+1, g.r.Intn(bigUse)) // any length
					word++
					scripts[t] = append(scripts[t], c)
				}
			}
		}
		for t := 0; t < len(scripts); t++ {
			if t >= 1 && t <= W {
				continue
			}
			for i, m := 0, 4+g.r.Intn(3); i < m; i++ {
				k := vx.Pick(g.r, hot)
				x := g.r.Intn(100)
				switch {
				case x < 70:
					scripts[t] = append(scripts[t], on("get", k))
				case x < 95:
					v := vx.Pick(g.r, viewsFor(k))
					scripts[t] = append(scripts[t], call{Kind: "iter", V: v, K: "", Fwd: g.r.Chance(1, 2), Lim: 9})
				default:
					scripts[t] = append(scripts[t], on("has", k))
				}
			}
		}
		h, fails, torn, hang := runFreeOpt(scripts, []int{0}, rounds, 20*time.Second, freeOpt{big: true})
		if hang != nil {
			hangs++
			st.Fail(hangInfo{Kind: "hang", Seed: seed, Index: n, InFlight: hang})
			st.Count("big:hang")
			continue
		}
		for _, f := range fails {
			st.Fail(map[string]any{"kind": "flushkv-composition", "mode": "big", "what": f, "history": h})
		}
		if len(torn) > 0 {
			st.Fail(map[string]any{"kind": "torn-value", "mode": "big", "seed": seed, "index": n, "torn": torn, "scripts": scripts,
				"value_lengths": bigLens,
				"what": "a read returned a value that no Set ever stored (every stored value is the repetition of one 2-byte word; values in the " +
					"scripts: 'B', word, index of the length): a concurrent overwrite did not take effect atomically"})
			st.Count("big:torn")
			bad++
		}
		nc := conflicts(h)
		st.Case("big:"+histKey(h), nc > 0)
		st.Count("mode:big")
		st.Count(fmt.Sprintf("big:first-length=%d", bigLens[l0]))
		if nc >= 4 {
			st.Count("big:conflicts>=4")
		}
		if len(h) <= 62 {
			if !linearizable(h) && len(torn) == 0 {
				st.Fail(map[string]any{"kind": "not-linearizable", "mode": "big", "seed": seed, "index": n, "history": h})
				bad++
			}
		} else {
			st.Count("big:too-long-for-go-checker")
		}
		if n < toCoq && len(torn) == 0 {
			addCase("CLin "+vx.ListOf(h, rec.coq), map[string]any{"mode": "big", "index": n, "history": h})
		}
		if n == 0 {
			st.Sample(map[string]any{"mode": "big", "scripts": scripts, "history": h}, 8)
		}
	}
}
