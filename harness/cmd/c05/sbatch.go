// Shared batch objects: ONE BatchedMutations object (of a plain view or of a flushkv-wrapped view) used by several
// goroutines and reused after Commit. The interface does not forbid it and both batch implementations of the library
// (mapdb, rocksdb) guard Set/Delete/Cancel/Commit with their own mutex, so the batch is an object of its own:
//
//	batch object  : content = the writes accepted since the last Cancel; Set/Delete/Cancel take effect at one instant of
//	                their interval; a successful Commit reads the content at one instant of its interval (Commit does NOT
//	                empty the batch: a later Commit applies the content again);
//	store         : every write of the NET content read (last operation per key) takes effect atomically at some instant of
//	                the Commit's interval, like the writes of a goroutine-confined batch.
//
// Judgement (locality of linearizability: two objects): the history is accepted iff there is an assignment "Commit ->
// content" such that (1) the batch object's history with the Commits returning those contents is linearizable and (2) the
// store history with the net writes of those contents inside the Commits' intervals is linearizable. Consequence: a write
// the batch accepted before a Commit was invoked is applied by that Commit (unless overwritten/cancelled in between) -
// never lost. Both parts go to Coq as CLin (the batch object is encoded as a store: Set k v = OSet k (1::v), Delete k =
// OSet k [0], Cancel = ODelPrefix [], successful Commit = OIter [] returning the content).
//
//	sbatch     : free-running; a committer, an adder (Set/Delete/Cancel, sometimes Commit), sometimes a third goroutine on
//	             the store; k-th calls released together; afterwards one more Commit and a full read.
//	sbatch-dir : the same parties at a chosen boundary: the view's RWMutex is write-held by the harness, a Commit is started
//	             and polled until parked (it holds the batch's lock and waits for the view), then the adder's calls are
//	             started (returned or parked), then the view lock is released. Bounded waits; watchdog.
//	sbatch-seq : one goroutine: batch operations, reuse after Commit / Cancel, direct store calls, reads, Close; every
//	             result against the sequential composition; to Coq as CSeq (Commit = CCommit with the content accepted so far).
package main

import (
	"fmt"
	"sort"
	"strings"
	"sync"
	"sync/atomic"
	"time"

	"github.com/iotaledger/hive.go/kvstore"
	"github.com/iotaledger/hive.go/kvstore/flushkv"

	"verif/harness/vx"
)

// spy below the flushkv wrapper of a shared batch: Flush results per calling goroutine
type tspy struct {
	kvstore.KVStore
	mu  sync.Mutex
	log map[int][]spyEnt
}

func (s *tspy) Flush() error {
	err := s.KVStore.Flush()
	id := goid()
	s.mu.Lock()
	s.log[id] = append(s.log[id], spyEnt{"flush", errRet(err)})
	s.mu.Unlock()
	return err
}

func (s *tspy) take(id int) []spyEnt {
	s.mu.Lock()
	defer s.mu.Unlock()
	l := s.log[id]
	delete(s.log, id)
	return l
}

func newWorldB(bviews []int) *world {
	w := newWorld()
	for _, v := range bviews {
		vd := views[v]
		var b kvstore.BatchedMutations
		var err error
		if vd.Fl {
			sp := &tspy{KVStore: w.objs[vd.Vid], log: map[int][]spyEnt{}}
			b, err = flushkv.New(sp).Batched()
			w.tspies = append(w.tspies, sp)
		} else {
			b, err = w.objs[vd.Vid].Batched()
			w.tspies = append(w.tspies, nil)
		}
		must(err)
		w.batches = append(w.batches, b)
	}
	return w
}

func (a *actor) execShared(c call) (ret, []opres) {
	b := a.w.batches[c.B]
	realm := views[c.V].Realm
	switch c.Kind {
	case "bset":
		r := errRet(b.Set([]byte(c.K), a.enc(c.Val)))
		return r, []opres{{sop{Kind: "bset", B: c.B, K: realm + c.K, Val: c.Val}, r}}
	case "bdel":
		r := errRet(b.Delete([]byte(c.K)))
		return r, []opres{{sop{Kind: "bdel", B: c.B, K: realm + c.K}, r}}
	case "bcancel":
		b.Cancel()
		return ret{Kind: "ok"}, []opres{{sop{Kind: "bcancel", B: c.B}, ret{Kind: "ok"}}}
	}
	// bcommit
	sp := a.w.tspies[c.B]
	id := 0
	if sp != nil {
		id = goid()
		sp.take(id)
	}
	outer := errRet(b.Commit())
	inner := outer
	var tail []opres
	if sp != nil { // flushkv batch: inner Commit, then Flush
		log := sp.take(id)
		if len(log) == 1 {
			inner = ret{Kind: "ok"}
			tail = []opres{{sop{Kind: "nop"}, log[0].r}}
			if !outer.eq(log[0].r) {
				a.fails = append(a.fails, fmt.Sprintf("flushkv shared-batch commit returned %v, flush %v", outer, log[0].r))
			}
		} else if len(log) != 0 || outer.Kind == "ok" {
			a.fails = append(a.fails, fmt.Sprintf("flushkv shared-batch commit returned %v, inner calls %v", outer, log))
		}
	}
	return outer, append([]opres{{sop{Kind: "bcommit", B: c.B}, inner}}, tail...)
}

func isBatchOp(k string) bool { return k == "bset" || k == "bdel" || k == "bcancel" || k == "bcommit" }

// ---------------------------------------------------------------- judgement

func canon(ws []write) string {
	net := netWrites(ws)
	sort.Slice(net, func(i, j int) bool { return net[i].K < net[j].K })
	var sb strings.Builder
	for _, w := range net {
		fmt.Fprintf(&sb, "%d:%s=%v:%d:%s;", len(w.K), w.K, w.Del, len(w.Val), w.Val)
	}
	return sb.String()
}

// enumBatch: all assignments (position in h of a successful Commit -> content it read) that some order of the batch
// object's operations, consistent with real time, produces. nil when there is none.
func enumBatch(h []rec, idx []int, limit int) []map[int][]write {
	var items []int
	for _, i := range idx {
		if h[i].Op.Kind == "bcommit" && h[i].Ret.Kind != "ok" {
			continue // failed before it looked at the batch
		}
		if h[i].Op.Kind != "bcommit" && h[i].Ret.Kind != "ok" {
			return nil // Set/Delete/Cancel of a batch never fail
		}
		items = append(items, i)
	}
	n := len(items)
	if n > 62 {
		panic("too many batch operations")
	}
	var results []map[int][]write
	seenRes := map[string]bool{}
	visited := map[string]bool{}
	var dfs func(mask uint64, content []write, asg map[int][]write, akey string)
	dfs = func(mask uint64, content []write, asg map[int][]write, akey string) {
		if len(results) >= limit {
			return
		}
		if mask == (uint64(1)<<n)-1 {
			if !seenRes[akey] {
				seenRes[akey] = true
				cp := map[int][]write{}
				for k, v := range asg {
					cp[k] = v
				}
				results = append(results, cp)
			}
			return
		}
		key := fmt.Sprintf("%x|%s|%s", mask, canon(content), akey)
		if visited[key] {
			return
		}
		visited[key] = true
		for x := 0; x < n; x++ {
			if mask&(1<<x) != 0 {
				continue
			}
			i := items[x]
			minimal := true
			for y := 0; y < n; y++ {
				if y != x && mask&(1<<y) == 0 && h[items[y]].Res < h[i].Inv {
					minimal = false
					break
				}
			}
			if !minimal {
				continue
			}
			o := h[i].Op
			switch o.Kind {
			case "bset":
				dfs(mask|1<<x, append(content[:len(content):len(content)], write{K: o.K, Val: o.Val}), asg, akey)
			case "bdel":
				dfs(mask|1<<x, append(content[:len(content):len(content)], write{K: o.K, Del: true}), asg, akey)
			case "bcancel":
				dfs(mask|1<<x, nil, asg, akey)
			case "bcommit":
				asg[i] = netWrites(content)
				dfs(mask|1<<x, content, asg, akey+fmt.Sprintf("%d>%s|", i, canon(content)))
				delete(asg, i)
			}
		}
	}
	dfs(0, nil, map[int][]write{}, "")
	return results
}

// batch object history under the store encoding, the successful Commits returning asg
func encodeBatch(h []rec, idx []int, asg map[int][]write) []rec {
	var out []rec
	for _, i := range idx {
		r := h[i]
		switch r.Op.Kind {
		case "bset":
			r.Op = sop{Kind: "set", K: r.Op.K, Val: "\x01" + r.Op.Val}
		case "bdel":
			r.Op = sop{Kind: "set", K: r.Op.K, Val: "\x00"}
		case "bcancel":
			r.Op = sop{Kind: "delprefix", K: ""}
		case "bcommit":
			if r.Ret.Kind != "ok" {
				continue
			}
			net := append([]write(nil), asg[i]...)
			sort.Slice(net, func(a, b int) bool { return net[a].K < net[b].K })
			l := []kv{}
			for _, w := range net {
				if w.Del {
					l = append(l, kv{w.K, "\x00"})
				} else {
					l = append(l, kv{w.K, "\x01" + w.Val})
				}
			}
			r.Op = sop{Kind: "iter", K: "", Fwd: true, Lim: 9}
			r.Ret = ret{Kind: "list", List: l}
		}
		out = append(out, r)
	}
	return out
}

type sharedVerdict struct {
	ok      bool
	storeH  []rec
	batchHs [][]rec
	assigns int
}

func judgeShared(h []rec) sharedVerdict {
	perBatch := map[int][]int{}
	var bids []int
	var store []rec
	for i, r := range h {
		if isBatchOp(r.Op.Kind) {
			if _, ok := perBatch[r.Op.B]; !ok {
				bids = append(bids, r.Op.B)
			}
			perBatch[r.Op.B] = append(perBatch[r.Op.B], i)
		} else {
			store = append(store, r)
		}
	}
	sort.Ints(bids)
	// combined assignments (product over the batch objects)
	combos := []map[int][]write{{}}
	for _, b := range bids {
		as := enumBatch(h, perBatch[b], 400)
		var next []map[int][]write
		for _, c := range combos {
			for _, a := range as {
				m := map[int][]write{}
				for k, v := range c {
					m[k] = v
				}
				for k, v := range a {
					m[k] = v
				}
				next = append(next, m)
				if len(next) >= 2000 {
					break
				}
			}
		}
		combos = next
	}
	v := sharedVerdict{assigns: len(combos)}
	for _, asg := range combos {
		sh := append([]rec(nil), store...)
		for i, ws := range asg {
			for _, w := range ws {
				o := sop{Kind: "set", K: w.K, Val: w.Val}
				if w.Del {
					o = sop{Kind: "del", K: w.K}
				}
				sh = append(sh, rec{T: h[i].T, I: h[i].I, Inv: h[i].Inv, Res: h[i].Res, Op: o, Ret: ret{Kind: "ok"}})
			}
		}
		sort.SliceStable(sh, func(i, j int) bool { return sh[i].Inv < sh[j].Inv })
		if len(sh) > 62 {
			panic("shared-batch history too long for the checker")
		}
		if linearizable(sh) {
			v.ok, v.storeH = true, sh
			for _, b := range bids {
				bh := encodeBatch(h, perBatch[b], asg)
				if !linearizable(bh) {
					vx.Die("batch-object history of an enumerated assignment is not linearizable (harness bug)")
				}
				v.batchHs = append(v.batchHs, bh)
			}
			return v
		}
	}
	return v
}

// writes that were accepted by a batch and returned before the LAST successful Commit of that batch was invoked, whose
// key nobody else touches in the whole history, and that the final full read does not show (diagnostic for the report)
func lostWrites(h []rec) []string {
	var out []string
	var final *rec
	for i := range h {
		if h[i].Op.Kind == "iter" && h[i].Op.K == "" && h[i].Op.Strip == 0 && h[i].Ret.Kind == "list" {
			final = &h[i]
		}
	}
	if final == nil {
		return nil
	}
	for i, r := range h {
		if r.Op.Kind != "bset" || r.Ret.Kind != "ok" {
			continue
		}
		clean, committed := true, false
		for j, o := range h {
			if j == i {
				continue
			}
			switch o.Op.Kind {
			case "bset", "bdel", "set", "del":
				clean = clean && o.Op.K != r.Op.K
			case "delprefix":
				clean = clean && !strings.HasPrefix(r.Op.K, o.Op.K)
			case "bcancel", "close":
				clean = false
			case "bcommit":
				if o.Op.B == r.Op.B && o.Ret.Kind == "ok" && r.Res < o.Inv && o.Res < final.Inv {
					committed = true
				}
			}
		}
		if !clean || !committed {
			continue
		}
		found := false
		for _, e := range final.Ret.List {
			if e.K == r.Op.K && e.V == r.Op.Val {
				found = true
			}
		}
		if !found {
			out = append(out, fmt.Sprintf("batch %d accepted Set(%q) [stamps %d..%d]; a later Commit of that batch succeeded; the final read does not contain it",
				r.Op.B, r.Op.K, r.Inv, r.Res))
		}
	}
	return out
}

func batchRaces(h []rec) int {
	n := 0
	for _, a := range h {
		if a.Op.Kind != "bcommit" {
			continue
		}
		for _, b := range h {
			if (b.Op.Kind == "bset" || b.Op.Kind == "bdel" || b.Op.Kind == "bcancel") && b.Op.B == a.Op.B && b.T != a.T && a.Inv < b.Res && b.Inv < a.Res {
				n++
			}
		}
	}
	return n
}

// returns false when the history was rejected
func reportShared(tag string, seed uint64, n int, scenario any, h []rec, fails []string, toCoq bool, st *vx.Stats, addCase func(string, any)) bool {
	for _, f := range fails {
		st.Fail(map[string]any{"kind": "flushkv-composition", "mode": tag, "what": f, "scenario": scenario, "history": h})
	}
	v := judgeShared(h)
	nr := batchRaces(h)
	st.Case(tag+":"+histKey(h), nr > 0)
	st.Count("mode:" + tag)
	if nr > 0 {
		st.Count(tag + ":write-overlaps-commit-of-another-goroutine")
	}
	if v.assigns > 1 {
		st.Count(tag + ":several-content-assignments")
	}
	if !v.ok {
		st.Fail(map[string]any{"kind": "not-linearizable", "mode": tag, "seed": seed, "index": n, "scenario": scenario, "history": h,
			"lost_writes": lostWrites(h), "content_assignments_tried": v.assigns,
			"what": "shared batch object: under no assignment Commit -> content (the writes the batch had accepted at one instant inside the Commit) " +
				"is the history of batch object and store linearizable: a write accepted by the batch was lost, or applied outside a Commit's interval"})
		return false
	}
	if toCoq {
		addCase("CLin "+vx.ListOf(v.storeH, rec.coq), map[string]any{"mode": tag, "part": "store", "index": n, "scenario": scenario, "history": v.storeH})
		for _, bh := range v.batchHs {
			addCase("CLin "+vx.ListOf(bh, rec.coq), map[string]any{"mode": tag, "part": "batch-object (store encoding)", "index": n, "history": bh})
		}
	}
	return len(fails) == 0
}

// ---------------------------------------------------------------- generators

func (g *gen) batchOp(t, b, v int, pCancel int) call {
	keys := relKeys(views[v].Realm, universe)
	x := g.r.Intn(100)
	switch {
	case x < pCancel:
		return call{Kind: "bcancel", V: v, B: b}
	case x < pCancel+25:
		return call{Kind: "bdel", V: v, B: b, K: vx.Pick(g.r, keys)}
	}
	return call{Kind: "bset", V: v, B: b, K: vx.Pick(g.r, keys), Val: g.value(t)}
}

func (g *gen) storeOp(t int, pClose int) call {
	for {
		cs := g.callOn(t, g.r.Intn(len(views)), pClose)
		if len(cs) != 1 {
			continue
		}
		switch cs[0].Kind {
		case "get", "has", "iter", "set", "del", "delprefix", "close":
			return cs[0]
		}
	}
}

func finalCalls(bviews []int) []call {
	var cs []call
	for b, v := range bviews {
		cs = append(cs, call{Kind: "bcommit", V: v, B: b})
	}
	return append(cs, call{Kind: "iter", V: 0, K: "", Fwd: true, Lim: 9})
}

func runSBatch(g *gen, count, toCoq int, seed uint64, st *vx.Stats, addCase func(string, any)) {
	hangs, bad := 0, 0
	for n := 0; n < count && hangs < 2 && bad < 3; n++ {
		bviews := []int{g.r.Intn(len(views))}
		if g.r.Chance(1, 5) {
			bviews = append(bviews, g.r.Intn(len(views)))
		}
		pick := func() (int, int) { b := g.r.Intn(len(bviews)); return b, bviews[b] }
		scripts := make([][]call, 2)
		for i, m := 0, 1+g.r.Intn(3); i < m; i++ { // the committer
			b, v := pick()
			if g.r.Chance(1, 2) {
				scripts[0] = append(scripts[0], g.batchOp(0, b, v, 0))
			}
			scripts[0] = append(scripts[0], call{Kind: "bcommit", V: v, B: b})
		}
		for i, m := 0, 2+g.r.Intn(3); i < m; i++ { // the adder
			b, v := pick()
			scripts[1] = append(scripts[1], g.batchOp(1, b, v, 6))
		}
		if g.r.Chance(1, 3) {
			b, v := pick()
			scripts[1] = append(scripts[1], call{Kind: "bcommit", V: v, B: b})
		}
		if g.r.Chance(1, 2) { // somebody on the store
			pClose := 0
			if g.r.Chance(1, 5) {
				pClose = 15
			}
			var sc []call
			for i, m := 0, 2+g.r.Intn(3); i < m; i++ {
				sc = append(sc, g.storeOp(2, pClose))
			}
			scripts = append(scripts, sc)
		}
		jitter := make([]int, 17)
		for i := range jitter {
			if g.r.Chance(1, 3) {
				jitter[i] = g.r.Intn(3)
			}
		}
		scenario := map[string]any{"batch_views": bviews, "scripts": scripts, "then": finalCalls(bviews)}
		h, fails, _, hang := runFreeOpt(scripts, jitter, true, 20*time.Second, freeOpt{bviews: bviews, final: finalCalls(bviews)})
		if hang != nil {
			hangs++
			st.Fail(map[string]any{"kind": "hang", "mode": "sbatch", "seed": seed, "index": n, "scenario": scenario, "in_flight": hang})
			st.Count("sbatch:hang")
			continue
		}
		if views[bviews[0]].Fl {
			st.Count("sbatch:flushkv-batch")
		}
		if !reportShared("sbatch", seed, n, scenario, h, fails, n < toCoq, st, addCase) {
			bad++
		}
		if n == 0 {
			st.Sample(map[string]any{"mode": "sbatch", "scenario": scenario, "history": h}, 8)
		}
	}
}

// wait until goroutine id has returned (done closed) or is parked; bounded
func waitParkedOrDone(id int, done chan struct{}, limit time.Duration) string {
	deadline := time.Now().Add(limit)
	seen := 0
	for time.Now().Before(deadline) {
		select {
		case <-done:
			return "returned"
		default:
		}
		if s, _ := gStatus(id); isParked(s) {
			seen++
			if seen >= 2 {
				return "parked:" + s
			}
		} else {
			seen = 0
		}
		time.Sleep(50 * time.Microsecond)
	}
	return "undetermined"
}

func runSBatchDir(g *gen, count, toCoq int, seed uint64, st *vx.Stats, addCase func(string, any)) {
	hangs, bad := 0, 0
	for n := 0; n < count && hangs < 2 && bad < 3; n++ {
		v := g.r.Intn(len(views))
		w := newWorldB([]int{v})
		locker, ok := w.objs[views[v].Vid].(sync.Locker)
		if !ok {
			st.Count("sbatch-dir:view-lock-not-reachable")
			return
		}
		var ctr atomic.Int64
		var mu sync.Mutex
		var h []rec
		var fails []string
		run := func(a *actor, t, base int, cs []call) {
			defer func() { mu.Lock(); fails = append(fails, a.fails...); a.fails = nil; mu.Unlock() }()
			for i, c := range cs {
				i += base
				inv := int(ctr.Add(1))
				_, ops := a.exec(c)
				res := int(ctr.Add(1))
				mu.Lock()
				for _, o := range ops {
					h = append(h, rec{T: t, I: i, Inv: inv, Res: res, Op: o.Op, Ret: o.Ret})
				}
				mu.Unlock()
			}
		}
		var prep []call
		for i, m := 0, 1+g.r.Intn(2); i < m; i++ {
			prep = append(prep, g.batchOp(0, 0, v, 0))
		}
		if g.r.Chance(1, 2) {
			prep = append(prep, call{Kind: "bcommit", V: v, B: 0})
		}
		if g.r.Chance(1, 3) {
			prep = append(prep, call{Kind: "set", V: 0, K: vx.Pick(g.r, universe), Val: g.value(0)})
		}
		parties := [][]call{{{Kind: "bcommit", V: v, B: 0}}}
		var adder []call
		for i, m := 0, 1+g.r.Intn(2); i < m; i++ {
			adder = append(adder, g.batchOp(1, 0, v, 5))
		}
		parties = append(parties, adder)
		if g.r.Chance(1, 4) {
			parties = append(parties, []call{g.batchOp(2, 0, v, 0)})
		}
		scenario := map[string]any{"batch_view": v, "first": prep, "view_lock_held_while_started_in_this_order": parties, "then": finalCalls([]int{v})}
		ma := newActor(w)
		run(ma, 0, 0, prep)
		locker.Lock()
		dones := make([]chan struct{}, len(parties))
		ids := make([]int, len(parties))
		var states []string
		for p := range parties {
			dones[p] = make(chan struct{})
			idc := make(chan int, 1)
			go func(p int) {
				defer close(dones[p])
				idc <- goid()
				run(newActor(w), p+1, 0, parties[p])
			}(p)
			ids[p] = <-idc
			states = append(states, waitParkedOrDone(ids[p], dones[p], 2*time.Second))
		}
		locker.Unlock()
		var stuck []string
		timeout := time.After(10 * time.Second)
		for p := range parties {
			select {
			case <-dones[p]:
			case <-timeout:
				s, top := gStatus(ids[p])
				stuck = append(stuck, fmt.Sprintf("party %d: %s in %s", p, s, top))
				timeout = time.After(100 * time.Millisecond)
			}
		}
		st.Count("sbatch-dir:commit-" + strings.SplitN(states[0], ":", 2)[0] + "-behind-view-lock")
		st.Count("sbatch-dir:adder-" + strings.SplitN(states[1], ":", 2)[0] + "-during-commit")
		if len(stuck) > 0 {
			hangs++
			st.Fail(map[string]any{"kind": "hang", "mode": "sbatch-dir", "seed": seed, "index": n, "scenario": scenario, "states_before_release": states, "stuck": stuck})
			continue
		}
		run(ma, 0, len(prep), finalCalls([]int{v}))
		sortRecs(h)
		scenario["states_before_release"] = states
		if !reportShared("sbatch-dir", seed, n, scenario, h, fails, n < toCoq, st, addCase) {
			bad++
		}
		if n == 0 {
			st.Sample(map[string]any{"mode": "sbatch-dir", "scenario": scenario, "history": h}, 8)
		}
	}
}

// ---------------------------------------------------------------- sequential composition

func runSBatchSeq(g *gen, count, toCoq int, seed uint64, st *vx.Stats, addCase func(string, any)) {
	bad := 0
	for n := 0; n < count && bad < 3; n++ {
		bviews := []int{g.r.Intn(len(views))}
		if g.r.Chance(1, 3) {
			bviews = append(bviews, g.r.Intn(len(views)))
		}
		var script []call
		m := 10 + g.r.Intn(9)
		closeAt := -1
		if g.r.Chance(1, 5) {
			closeAt = m/2 + g.r.Intn(m/2)
		}
		for i := 0; i < m; i++ {
			b := g.r.Intn(len(bviews))
			x := g.r.Intn(100)
			switch {
			case i == closeAt:
				script = append(script, call{Kind: "close", V: g.r.Intn(len(views))})
			case x < 40:
				script = append(script, g.batchOp(0, b, bviews[b], 5))
			case x < 65:
				script = append(script, call{Kind: "bcommit", V: bviews[b], B: b})
			default:
				script = append(script, g.storeOp(0, 0))
			}
		}
		script = append(script, finalCalls(bviews)...)
		// real code
		w := newWorldB(bviews)
		a := newActor(w)
		var obs []ret
		stuck := -1
		for i, c := range script {
			r, _, returned := a.execWatched(c, 10*time.Second)
			if !returned {
				stuck = i
				break
			}
			obs = append(obs, r)
		}
		if stuck >= 0 {
			st.Fail(map[string]any{"kind": "hang", "mode": "sbatch-seq", "seed": seed, "index": n, "batch_views": bviews, "script": script[:stuck+1],
				"what": "a single goroutine, one call after the other (batch objects reused after Commit/Cancel): the last call of the script never returns (10 s)"})
			st.Count("sbatch-seq:hang")
			return // every later script would block the same way; the free-running families have their own watchdogs
		}
		// sequential composition: batch content + store
		s := gstate{map[string]string{}, false}
		content := make([][]write, len(bviews))
		rel := make([][]write, len(bviews)) // the same with keys relative to the batch's view (for the Coq script)
		var want []ret
		var coqScript []call
		var coqObs []ret
		reuse := false
		committed := make([]bool, len(bviews))
		for i, c := range script {
			realm := views[c.V].Realm
			var r ret
			switch c.Kind {
			case "bset":
				content[c.B] = append(content[c.B], write{K: realm + c.K, Val: c.Val})
				rel[c.B] = append(rel[c.B], write{K: c.K, Val: c.Val})
				r = ret{Kind: "ok"}
				reuse = reuse || committed[c.B]
			case "bdel":
				content[c.B] = append(content[c.B], write{K: realm + c.K, Del: true})
				rel[c.B] = append(rel[c.B], write{K: c.K, Del: true})
				r = ret{Kind: "ok"}
				reuse = reuse || committed[c.B]
			case "bcancel":
				content[c.B], rel[c.B] = nil, nil
				r = ret{Kind: "ok"}
			case "bcommit":
				if s.closed {
					r = ret{Kind: "closed"}
				} else {
					for _, wr := range netWrites(content[c.B]) {
						if wr.Del {
							s, _ = apply(s, sop{Kind: "del", K: wr.K})
						} else {
							s, _ = apply(s, sop{Kind: "set", K: wr.K, Val: wr.Val})
						}
					}
					r = ret{Kind: "ok"}
					committed[c.B] = true
				}
				coqScript = append(coqScript, call{Kind: "commit", V: c.V, Ws: append([]write(nil), rel[c.B]...)})
				coqObs = append(coqObs, obs[i])
			default:
				var tmp []ret
				rs := &refSt{s: s}
				refCall(rs, c, &tmp)
				s = rs.s
				r = tmp[len(tmp)-1]
				coqScript = append(coqScript, c)
				coqObs = append(coqObs, obs[i])
			}
			want = append(want, r)
		}
		okRes := len(obs) == len(want)
		for i := 0; okRes && i < len(obs); i++ {
			okRes = obs[i].eq(want[i])
		}
		for _, f := range a.fails {
			st.Fail(map[string]any{"kind": "flushkv-composition", "mode": "sbatch-seq", "what": f, "script": script})
		}
		if !okRes {
			bad++
			st.Fail(map[string]any{"kind": "shared-batch-sequential-semantics", "mode": "sbatch-seq", "seed": seed, "index": n, "batch_views": bviews,
				"script": script, "observed": obs, "expected": want,
				"what": "one goroutine: a batch object reused after Commit/Cancel; expected = content accepted since the last Cancel, net, applied by every successful Commit"})
		}
		st.Case("sbseq:"+fmt.Sprint(script, obs), reuse)
		st.Count("mode:sbatch-seq")
		if reuse {
			st.Count("sbatch-seq:write-after-commit-on-the-same-batch")
		}
		if n < toCoq {
			addCase(vx.App("CSeq", vx.ListOf(coqScript, call.coq), vx.ListOf(coqObs, ret.coq)),
				map[string]any{"mode": "sbatch-seq", "index": n, "script": script, "as_model_script": coqScript, "obs": coqObs})
		}
	}
}
