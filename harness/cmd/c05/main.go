// C05 harness: concurrent use of kvstore/mapdb (+ realm views, batches, flushkv).
//
//	lin  : free-running histories (2..8 goroutines, <= 4 full keys, overlapping realms); every call is stamped
//	       (invocation/response) from one atomic counter, split into its atomic operations, judged by an
//	       independent Go linearizability checker, and written to cases.v for the proved-sound Coq lin_check.
//	seq  : single-goroutine lockstep scripts, result of every call compared with the thread-program model.
//	stress: longer free-running histories judged by the Go checker only (volume).
//	reent-seq / reent-conc: Iterate consumers that call back into the store (reent.go).
//	big: large uniform values, overwrites of existing keys vs readers: no torn value (big.go).
//	sbatch / sbatch-dir / sbatch-seq: one batch object shared by goroutines and reused after Commit (sbatch.go).
//
// Every goroutine operation runs under a watchdog: a history that does not finish in time is reported as a hang.
package main

import (
	"errors"
	"flag"
	"fmt"
	"os"
	"runtime"
	"sort"
	"strings"
	"sync"
	"sync/atomic"
	"time"

	"github.com/iotaledger/hive.go/kvstore"
	"github.com/iotaledger/hive.go/kvstore/flushkv"
	"github.com/iotaledger/hive.go/kvstore/mapdb"

	"verif/harness/vx"
)

// ---------------------------------------------------------------- universe

// a view handle: vid = which *mapDB object (own RWMutex), realm, wrapped by flushkv or not
type viewDef struct {
	Vid   int
	Realm string
	Fl    bool
}

var views = []viewDef{
	{0, "", false},   // v0 root
	{1, "a", false},  // v1 root.WithRealm("a")
	{2, "ab", false}, // v2 v1.WithExtendedRealm("b")
	{3, "a", false},  // v3 second object with realm "a"
	{0, "", true},    // v4 flushkv over the root object
	{2, "ab", true},  // v5 flushkv over object 2
}

// full keys of the universe; every view addresses those below its realm
var universe = []string{"a", "ab", "abc", "b"}
var prefixes = []string{"", "a", "ab", "abc", "b"}

func relKeys(realm string, full []string) []string {
	var r []string
	for _, k := range full {
		if strings.HasPrefix(k, realm) {
			r = append(r, k[len(realm):])
		}
	}
	return r
}

func coqHeader() string {
	var sb strings.Builder
	sb.WriteString("From Coq Require Import NArith List Bool.\nFrom Verif.C05_KVConc Require Import Model Corr.\nImport ListNotations.\n")
	for i, v := range views {
		fmt.Fprintf(&sb, "Definition v%d := mkV %d %s %s.\n", i, v.Vid, vx.Bytes([]byte(v.Realm)), vx.Bool(v.Fl))
	}
	return sb.String()
}

// ---------------------------------------------------------------- calls, results, records

type write struct {
	K   string `json:"k"`
	Del bool   `json:"del,omitempty"`
	Val string `json:"v,omitempty"`
}

type call struct {
	Kind string  `json:"kind"` // get has set del delprefix clear iter flush withrealm batched close commit
	V    int     `json:"v"`
	K    string  `json:"k,omitempty"` // relative key or prefix
	Val  string  `json:"val,omitempty"`
	Fwd  bool    `json:"fwd,omitempty"`
	Keys bool    `json:"keys,omitempty"`
	Lim  int     `json:"lim,omitempty"`
	Ws   []write `json:"ws,omitempty"`
	B    int     `json:"b,omitempty"` // bset bdel bcancel bcommit: index of the SHARED batch object (sbatch.go); V = the view it was made from
	// iter only: Cb != nil makes the consumer re-enter the store; Cb[j] = the calls it performs inside its j-th invocation
	Cb [][]call `json:"cb,omitempty"`
}

type kv struct{ K, V string }

type ret struct {
	Kind string `json:"r"` // ok closed notfound val bool list other
	Val  string `json:"val,omitempty"`
	B    bool   `json:"b,omitempty"`
	List []kv   `json:"list,omitempty"`
}

func (r ret) eq(o ret) bool {
	if r.Kind != o.Kind || r.Val != o.Val || r.B != o.B || len(r.List) != len(o.List) {
		return false
	}
	for i := range r.List {
		if r.List[i] != o.List[i] {
			return false
		}
	}
	return true
}

// atomic operation of the sequential spec (full keys)
type sop struct {
	Kind  string `json:"op"` // get has set del delprefix iter nop close; shared batch object B: bset bdel bcancel bcommit
	B     int    `json:"b,omitempty"`
	K     string `json:"k,omitempty"`
	Val   string `json:"val,omitempty"`
	Strip int    `json:"strip,omitempty"`
	Fwd   bool   `json:"fwd,omitempty"`
	Keys  bool   `json:"keys,omitempty"`
	Lim   int    `json:"lim,omitempty"`
}

type rec struct {
	T   int `json:"t"`
	I   int `json:"i"`
	Inv int `json:"inv"`
	Res int `json:"res"`
	Op  sop `json:"o"`
	Ret ret `json:"ret"`
}

func bs(s string) string { return vx.Bytes([]byte(s)) }

func (c call) coq() string {
	v := fmt.Sprintf("v%d", c.V)
	switch c.Kind {
	case "get":
		return vx.App("CGet", v, bs(c.K))
	case "has":
		return vx.App("CHas", v, bs(c.K))
	case "set":
		return vx.App("CSet", v, bs(c.K), bs(c.Val))
	case "del":
		return vx.App("CDel", v, bs(c.K))
	case "delprefix":
		return vx.App("CDelPrefix", v, bs(c.K))
	case "clear":
		return vx.App("CClear", v)
	case "iter":
		if c.Cb != nil {
			return vx.App("CIterRe", v, bs(c.K), vx.Bool(c.Fwd), vx.Bool(c.Keys), vx.Nat(c.Lim),
				vx.ListOf(c.Cb, func(cs []call) string { return vx.ListOf(cs, call.coq) }))
		}
		return vx.App("CIter", v, bs(c.K), vx.Bool(c.Fwd), vx.Bool(c.Keys), vx.Nat(c.Lim))
	case "flush":
		return vx.App("CFlush", v)
	case "withrealm", "batched":
		return vx.App("CWithRealm", v)
	case "close":
		return vx.App("CClose", v)
	case "commit":
		return vx.App("CCommit", v, vx.ListOf(c.Ws, func(w write) string {
			return vx.Pair(bs(w.K), vx.Opt(!w.Del, bs(w.Val)))
		}))
	}
	panic("kind " + c.Kind)
}

func (o sop) coq() string {
	switch o.Kind {
	case "get":
		return vx.App("OGet", bs(o.K))
	case "has":
		return vx.App("OHas", bs(o.K))
	case "set":
		return vx.App("OSet", bs(o.K), bs(o.Val))
	case "del":
		return vx.App("ODel", bs(o.K))
	case "delprefix":
		return vx.App("ODelPrefix", bs(o.K))
	case "iter":
		return vx.App("OIter", bs(o.K), vx.Nat(o.Strip), vx.Bool(o.Fwd), vx.Bool(o.Keys), vx.Nat(o.Lim))
	case "nop":
		return "ONop"
	case "close":
		return "OClose"
	}
	panic("op " + o.Kind)
}

func (r ret) coq() string {
	switch r.Kind {
	case "ok":
		return "ROk"
	case "closed":
		return "RClosed"
	case "notfound":
		return "RNotFound"
	case "val":
		return vx.App("RVal", bs(r.Val))
	case "bool":
		return vx.App("RBool", vx.Bool(r.B))
	case "list":
		return vx.App("RList", vx.ListOf(r.List, func(e kv) string { return vx.Pair(bs(e.K), bs(e.V)) }))
	}
	return "ROther"
}

func (r rec) coq() string {
	return fmt.Sprintf("O_ %d %d %d %d %s %s", r.T, r.I, r.Inv, r.Res, r.Op.coq(), r.Ret.coq())
}

func errRet(err error) ret {
	switch {
	case err == nil:
		return ret{Kind: "ok"}
	case errors.Is(err, kvstore.ErrStoreClosed):
		return ret{Kind: "closed"}
	case errors.Is(err, kvstore.ErrKeyNotFound):
		return ret{Kind: "notfound"}
	}
	return ret{Kind: "other"}
}

// ---------------------------------------------------------------- spy between flushkv and mapdb

// spy logs what flushkv asks of the wrapped store (one spy per goroutine, so the log needs no lock)
type spy struct {
	kvstore.KVStore
	log []spyEnt
}
type spyEnt struct {
	op string
	r  ret
}

func (s *spy) Set(k kvstore.Key, v kvstore.Value) error {
	err := s.KVStore.Set(k, v)
	s.log = append(s.log, spyEnt{"w", errRet(err)})
	return err
}
func (s *spy) Delete(k kvstore.Key) error {
	err := s.KVStore.Delete(k)
	s.log = append(s.log, spyEnt{"w", errRet(err)})
	return err
}
func (s *spy) DeletePrefix(p kvstore.KeyPrefix) error {
	err := s.KVStore.DeletePrefix(p)
	s.log = append(s.log, spyEnt{"w", errRet(err)})
	return err
}
func (s *spy) Clear() error {
	err := s.KVStore.Clear()
	s.log = append(s.log, spyEnt{"w", errRet(err)})
	return err
}
func (s *spy) Flush() error {
	err := s.KVStore.Flush()
	s.log = append(s.log, spyEnt{"flush", errRet(err)})
	return err
}

// ---------------------------------------------------------------- one store with its view objects

type world struct {
	objs    []kvstore.KVStore          // by vid
	batches []kvstore.BatchedMutations // shared batch objects (sbatch.go)
	tspies  []*tspy                    // per shared batch: spy below its flushkv wrapper (nil for a plain view)
	big     bool                       // values are compressed descriptions of large uniform values (big.go)
}

func newWorld() *world {
	root := mapdb.NewMapDB()
	o1, err := root.WithRealm([]byte("a"))
	must(err)
	o2, err := o1.WithExtendedRealm([]byte("b"))
	must(err)
	o3, err := root.WithRealm([]byte("a"))
	must(err)
	return &world{objs: []kvstore.KVStore{root, o1, o2, o3}}
}

func must(err error) {
	if err != nil {
		vx.Die("setup: %v", err)
	}
}

// per-goroutine handles
type actor struct {
	w       *world
	handles []kvstore.KVStore
	spies   []*spy
	batch   kvstore.BatchedMutations
	fails   []string // composition-oracle failures
	torn    []tornInfo
	reentrant
}

func newActor(w *world) *actor {
	a := &actor{w: w}
	for _, v := range views {
		if v.Fl {
			sp := &spy{KVStore: w.objs[v.Vid]}
			a.spies = append(a.spies, sp)
			a.handles = append(a.handles, flushkv.New(sp))
		} else {
			a.spies = append(a.spies, nil)
			a.handles = append(a.handles, w.objs[v.Vid])
		}
	}
	return a
}

type opres struct {
	Op  sop
	Ret ret
}

func netWrites(ws []write) []write {
	sets := map[string]string{}
	dels := map[string]bool{}
	var order []string
	seen := map[string]bool{}
	for _, w := range ws {
		if !seen[w.K] {
			seen[w.K] = true
			order = append(order, w.K)
		}
		if w.Del {
			delete(sets, w.K)
			dels[w.K] = true
		} else {
			delete(dels, w.K)
			sets[w.K] = w.Val
		}
	}
	var out []write
	for _, k := range order {
		if v, ok := sets[k]; ok {
			out = append(out, write{K: k, Val: v})
		}
	}
	for _, k := range order {
		if dels[k] {
			out = append(out, write{K: k, Del: true})
		}
	}
	return out
}

// exec runs one call on the real code; returns the call's result and its atomic operations with results.
func (a *actor) exec(c call) (ret, []opres) {
	h := a.handles[c.V]
	vd := views[c.V]
	sp := a.spies[c.V]
	if sp != nil {
		sp.log = sp.log[:0]
	}
	full := vd.Realm + c.K
	// mutating single operation through plain or flushkv handle
	mut := func(o sop, err error) (ret, []opres) {
		outer := errRet(err)
		if sp == nil {
			return outer, []opres{{o, outer}}
		}
		var ops []opres
		want := ret{Kind: "other"}
		if len(sp.log) >= 1 && sp.log[0].op == "w" {
			ops = append(ops, opres{o, sp.log[0].r})
			want = sp.log[0].r
			if len(sp.log) == 2 && sp.log[1].op == "flush" && want.Kind == "ok" {
				ops = append(ops, opres{sop{Kind: "nop"}, sp.log[1].r})
				want = sp.log[1].r
			} else if len(sp.log) != 1 || want.Kind == "ok" {
				a.fails = append(a.fails, fmt.Sprintf("flushkv %s: inner calls %v", c.Kind, sp.log))
			}
		} else {
			a.fails = append(a.fails, fmt.Sprintf("flushkv %s: inner calls %v", c.Kind, sp.log))
		}
		if !want.eq(outer) {
			a.fails = append(a.fails, fmt.Sprintf("flushkv %s returned %v, inner calls %v", c.Kind, outer, sp.log))
		}
		return outer, ops
	}
	switch c.Kind {
	case "get":
		v, err := h.Get([]byte(c.K))
		r := errRet(err)
		if err == nil {
			r = ret{Kind: "val", Val: a.dec(c, c.K, v)}
		}
		return r, []opres{{sop{Kind: "get", K: full}, r}}
	case "has":
		b, err := h.Has([]byte(c.K))
		r := errRet(err)
		if err == nil {
			r = ret{Kind: "bool", B: b}
		}
		return r, []opres{{sop{Kind: "has", K: full}, r}}
	case "set":
		return mut(sop{Kind: "set", K: full, Val: c.Val}, h.Set([]byte(c.K), a.enc(c.Val)))
	case "del":
		return mut(sop{Kind: "del", K: full}, h.Delete([]byte(c.K)))
	case "delprefix":
		return mut(sop{Kind: "delprefix", K: full}, h.DeletePrefix([]byte(c.K)))
	case "clear":
		return mut(sop{Kind: "delprefix", K: vd.Realm}, h.Clear())
	case "iter":
		var l []kv
		var err error
		dir := kvstore.IterDirectionForward
		if !c.Fwd {
			dir = kvstore.IterDirectionBackward
		}
		if c.Keys {
			err = h.IterateKeys([]byte(c.K), func(k kvstore.Key) bool {
				l = append(l, kv{string(k), ""})
				a.callback(c, len(l)-1)
				return len(l) < c.Lim
			}, dir)
		} else {
			err = h.Iterate([]byte(c.K), func(k kvstore.Key, v kvstore.Value) bool {
				l = append(l, kv{string(k), a.dec(c, string(k), v)})
				a.callback(c, len(l)-1)
				return len(l) < c.Lim
			}, dir)
		}
		r := errRet(err)
		if err == nil {
			r = ret{Kind: "list", List: l}
		}
		return r, []opres{{sop{Kind: "iter", K: full, Strip: len(vd.Realm), Fwd: c.Fwd, Keys: c.Keys, Lim: c.Lim}, r}}
	case "flush":
		r := errRet(h.Flush())
		return r, []opres{{sop{Kind: "nop"}, r}}
	case "withrealm":
		_, err := h.WithRealm([]byte("zz"))
		r := errRet(err)
		return r, []opres{{sop{Kind: "nop"}, r}}
	case "batched":
		b, err := h.Batched()
		a.batch = b
		r := errRet(err)
		return r, []opres{{sop{Kind: "nop"}, r}}
	case "close":
		r := errRet(h.Close())
		return r, []opres{{sop{Kind: "close"}, r}}
	case "commit":
		b := a.batch
		a.batch = nil
		for _, w := range c.Ws {
			if w.Del {
				must(b.Delete([]byte(w.K)))
			} else {
				must(b.Set([]byte(w.K), a.enc(w.Val)))
			}
		}
		outer := errRet(b.Commit())
		inner := outer
		var tail []opres
		if sp != nil {
			// flushkv batch: inner Commit, then Flush through the spy
			if len(sp.log) == 1 && sp.log[0].op == "flush" {
				inner = ret{Kind: "ok"}
				tail = []opres{{sop{Kind: "nop"}, sp.log[0].r}}
				if !outer.eq(sp.log[0].r) {
					a.fails = append(a.fails, fmt.Sprintf("flushkv commit returned %v, flush %v", outer, sp.log[0].r))
				}
			} else if len(sp.log) != 0 || outer.Kind == "ok" {
				a.fails = append(a.fails, fmt.Sprintf("flushkv commit returned %v, inner calls %v", outer, sp.log))
			}
		}
		var ops []opres
		for _, w := range netWrites(c.Ws) {
			if w.Del {
				ops = append(ops, opres{sop{Kind: "del", K: vd.Realm + w.K}, inner})
			} else {
				ops = append(ops, opres{sop{Kind: "set", K: vd.Realm + w.K, Val: w.Val}, inner})
			}
		}
		return outer, append(ops, tail...)
	case "bset", "bdel", "bcancel", "bcommit":
		return a.execShared(c)
	}
	panic("kind " + c.Kind)
}

// ---------------------------------------------------------------- Go-side sequential spec + linearizability checker

type gstate struct {
	m      map[string]string
	closed bool
}

func (s gstate) key() string {
	ks := make([]string, 0, len(s.m))
	for k := range s.m {
		ks = append(ks, k)
	}
	sort.Strings(ks)
	var sb strings.Builder
	if s.closed {
		sb.WriteByte('C')
	}
	for _, k := range ks {
		fmt.Fprintf(&sb, "%d:%s=%d:%s;", len(k), k, len(s.m[k]), s.m[k])
	}
	return sb.String()
}

// apply returns the new state (a fresh map only when it changed) and the result the contract prescribes.
func apply(s gstate, o sop) (gstate, ret) {
	if o.Kind == "close" {
		return gstate{s.m, true}, ret{Kind: "ok"}
	}
	if s.closed {
		return s, ret{Kind: "closed"}
	}
	switch o.Kind {
	case "get":
		if v, ok := s.m[o.K]; ok {
			return s, ret{Kind: "val", Val: v}
		}
		return s, ret{Kind: "notfound"}
	case "has":
		_, ok := s.m[o.K]
		return s, ret{Kind: "bool", B: ok}
	case "set", "del", "delprefix":
		n := make(map[string]string, len(s.m)+1)
		for k, v := range s.m {
			if o.Kind == "delprefix" && strings.HasPrefix(k, o.K) {
				continue
			}
			n[k] = v
		}
		if o.Kind == "set" {
			n[o.K] = o.Val
		} else if o.Kind == "del" {
			delete(n, o.K)
		}
		return gstate{n, false}, ret{Kind: "ok"}
	case "iter":
		var ks []string
		for k := range s.m {
			if strings.HasPrefix(k, o.K) {
				ks = append(ks, k)
			}
		}
		sort.Strings(ks)
		if !o.Fwd {
			for i, j := 0, len(ks)-1; i < j; i, j = i+1, j-1 {
				ks[i], ks[j] = ks[j], ks[i]
			}
		}
		var l []kv
		for _, k := range ks {
			if len(l) >= o.Lim {
				break
			}
			v := s.m[k]
			if o.Keys {
				v = ""
			}
			l = append(l, kv{k[o.Strip:], v})
		}
		return s, ret{Kind: "list", List: l}
	case "nop":
		return s, ret{Kind: "ok"}
	}
	panic("op " + o.Kind)
}

// linearizable: exists an order of all records, legal for the spec with the recorded results,
// in which no record is placed before one that had returned before it was invoked. DFS with memoisation.
func linearizable(h []rec) bool {
	n := len(h)
	if n > 62 {
		panic("history too long for the checker")
	}
	memo := map[string]bool{}
	var dfs func(mask uint64, s gstate) bool
	dfs = func(mask uint64, s gstate) bool {
		if mask == (uint64(1)<<n)-1 {
			return true
		}
		key := fmt.Sprintf("%x|%s", mask, s.key())
		if memo[key] {
			return false
		}
		memo[key] = true
		for i := 0; i < n; i++ {
			if mask&(1<<i) != 0 {
				continue
			}
			minimal := true
			for j := 0; j < n; j++ {
				if j != i && mask&(1<<j) == 0 && h[j].Res < h[i].Inv {
					minimal = false
					break
				}
			}
			if !minimal {
				continue
			}
			s2, r := apply(s, h[i].Op)
			if r.eq(h[i].Ret) && dfs(mask|1<<i, s2) {
				return true
			}
		}
		return false
	}
	return dfs(0, gstate{map[string]string{}, false})
}

// ---------------------------------------------------------------- generators

type gen struct {
	r   *vx.Rng
	val int
}

func (g *gen) value(t int) string {
	g.val++
	return string([]byte{byte(t + 1), byte(g.val % 250)})
}

// one random call for goroutine t; withClose: Close allowed
func (g *gen) call(t int, pClose int) []call {
	return g.callOn(t, g.r.Intn(len(views)), pClose)
}

// the same for a given view handle
func (g *gen) callOn(t int, v int, pClose int) []call {
	r := g.r
	realm := views[v].Realm
	keys := relKeys(realm, universe)
	pfx := relKeys(realm, prefixes)
	if pClose > 0 && r.Chance(pClose, 100) {
		return []call{{Kind: "close", V: v}}
	}
	x := r.Intn(100)
	switch {
	case x < 24:
		return []call{{Kind: "get", V: v, K: vx.Pick(r, keys)}}
	case x < 31:
		return []call{{Kind: "has", V: v, K: vx.Pick(r, keys)}}
	case x < 55:
		return []call{{Kind: "set", V: v, K: vx.Pick(r, keys), Val: g.value(t)}}
	case x < 64:
		return []call{{Kind: "del", V: v, K: vx.Pick(r, keys)}}
	case x < 71:
		return []call{{Kind: "delprefix", V: v, K: vx.Pick(r, pfx)}}
	case x < 74:
		return []call{{Kind: "clear", V: v}}
	case x < 88:
		lim := 9
		if r.Chance(1, 5) {
			lim = 1 + r.Intn(2)
		}
		return []call{{Kind: "iter", V: v, K: vx.Pick(r, pfx), Fwd: r.Chance(3, 4), Keys: r.Chance(1, 4), Lim: lim}}
	case x < 90:
		return []call{{Kind: "flush", V: v}}
	case x < 92:
		return []call{{Kind: "withrealm", V: v}}
	default:
		n := r.Intn(4) // 0..3 raw batch operations
		var ws []write
		for i := 0; i < n; i++ {
			if r.Chance(1, 3) {
				ws = append(ws, write{K: vx.Pick(r, keys), Del: true})
			} else {
				ws = append(ws, write{K: vx.Pick(r, keys), Val: g.value(t)})
			}
		}
		cs := []call{{Kind: "batched", V: v}}
		if r.Chance(1, 3) { // something else between Batched and Commit (possibly a Close)
			if mid := g.call(t, pClose); len(mid) == 1 {
				cs = append(cs, mid...)
			}
		}
		return append(cs, call{Kind: "commit", V: v, Ws: ws})
	}
}

func isWrite(o sop) bool {
	return o.Kind == "set" || o.Kind == "del" || o.Kind == "delprefix" || o.Kind == "close"
}

// ---------------------------------------------------------------- free-running histories

type hangInfo struct {
	Kind     string   `json:"kind"`
	Seed     uint64   `json:"seed"`
	Index    int      `json:"index"`
	InFlight []string `json:"in_flight"`
}

// runFree executes scripts[t] in goroutine t on a fresh store. Returns the records; hang != nil when the watchdog fired.
func runFree(scripts [][]call, jitter []int, rounds bool, timeout time.Duration) (h []rec, fails []string, hang []string) {
	h, fails, _, hang = runFreeOpt(scripts, jitter, rounds, timeout, freeOpt{})
	return
}

// freeOpt: big = large uniform values (big.go); bviews = views of the shared batch objects made before the goroutines
// start; final = calls made by one more goroutine after all others have returned
type freeOpt struct {
	big    bool
	bviews []int
	final  []call
}

func runFreeOpt(scripts [][]call, jitter []int, rounds bool, timeout time.Duration, opt freeOpt) (h []rec, fails []string, torn []tornInfo, hang []string) {
	w := newWorldB(opt.bviews)
	w.big = opt.big
	var ctr atomic.Int64
	// rounds mode: the k-th calls of all goroutines are released together (spin barrier), so that they really race
	var arrived atomic.Int64
	var target []int64
	if rounds {
		acc := int64(0)
		for k := 0; ; k++ {
			n := 0
			for _, sc := range scripts {
				if len(sc) > k {
					n++
				}
			}
			if n == 0 {
				break
			}
			acc += int64(n)
			target = append(target, acc)
		}
	}
	var start atomic.Bool
	G := len(scripts)
	recsOf := make([][]rec, G+1)
	failsOf := make([][]string, G+1)
	tornOf := make([][]tornInfo, G+1)
	cur := make([]atomic.Int64, G) // index of the call in flight + 1, 0 = none
	var wg sync.WaitGroup
	for t := 0; t < G; t++ {
		wg.Add(1)
		go func(t int) {
			defer wg.Done()
			a := newActor(w)
			for spin := 1; !start.Load(); spin++ {
				if spin%2000 == 0 {
					runtime.Gosched()
				}
			}
			idx := 0
			skipCommit := false
			for ci, c := range scripts[t] {
				if rounds {
					arrived.Add(1)
					for spin := 1; arrived.Load() < target[ci]; spin++ {
						if spin%2000 == 0 {
							runtime.Gosched() // mostly busy-wait: all goroutines leave the barrier within nanoseconds
						}
					}
				}
				if c.Kind == "commit" && skipCommit {
					skipCommit = false
					continue
				}
				for k := 0; k < jitter[(t*31+ci)%len(jitter)]; k++ {
					runtime.Gosched()
				}
				cur[t].Store(int64(ci) + 1)
				inv := int(ctr.Add(1))
				r, ops := a.exec(c)
				res := int(ctr.Add(1))
				cur[t].Store(0)
				if c.Kind == "batched" && r.Kind != "ok" {
					skipCommit = true
				}
				for _, o := range ops {
					recsOf[t] = append(recsOf[t], rec{T: t, I: idx, Inv: inv, Res: res, Op: o.Op, Ret: o.Ret})
				}
				idx++
			}
			failsOf[t] = a.fails
			tornOf[t] = a.torn
		}(t)
	}
	done := make(chan struct{})
	go func() {
		wg.Wait()
		if len(opt.final) > 0 {
			a := newActor(w)
			for ci, c := range opt.final {
				cur[0].Store(int64(-ci) - 1)
				inv := int(ctr.Add(1))
				_, ops := a.exec(c)
				res := int(ctr.Add(1))
				for _, o := range ops {
					recsOf[G] = append(recsOf[G], rec{T: G, I: ci, Inv: inv, Res: res, Op: o.Op, Ret: o.Ret})
				}
			}
			cur[0].Store(0)
			failsOf[G] = a.fails
			tornOf[G] = a.torn
		}
		close(done)
	}()
	start.Store(true)
	select {
	case <-done:
	case <-time.After(timeout):
		for t := 0; t < G; t++ {
			if ci := cur[t].Load(); ci > 0 {
				hang = append(hang, fmt.Sprintf("goroutine %d: %+v", t, scripts[t][ci-1]))
			} else if ci < 0 {
				hang = append(hang, fmt.Sprintf("final phase: %+v", opt.final[-ci-1]))
			}
		}
		if hang == nil {
			hang = []string{"no call in flight (harness stalled)"}
		}
		return nil, nil, nil, hang
	}
	for t := 0; t <= G; t++ {
		h = append(h, recsOf[t]...)
		fails = append(fails, failsOf[t]...)
		torn = append(torn, tornOf[t]...)
	}
	sort.SliceStable(h, func(i, j int) bool { return h[i].Inv < h[j].Inv })
	return h, fails, torn, nil
}

// overlapping pairs of records of different goroutines, at least one of them a write/close
func conflicts(h []rec) int {
	n := 0
	for i := range h {
		for j := i + 1; j < len(h); j++ {
			a, b := h[i], h[j]
			if a.T != b.T && a.Inv < b.Res && b.Inv < a.Res && (isWrite(a.Op) || isWrite(b.Op)) {
				n++
			}
		}
	}
	return n
}

func histKey(h []rec) string {
	var sb strings.Builder
	for _, r := range h {
		fmt.Fprintf(&sb, "%d.%d.%d.%d.%v.%v|", r.T, r.I, r.Inv, r.Res, r.Op, r.Ret)
	}
	return sb.String()
}

func genScripts(g *gen, G, total, pClose int) [][]call {
	scripts := make([][]call, G)
	n := 0
	for n < total {
		t := g.r.Intn(G)
		cs := g.call(t, pClose)
		scripts[t] = append(scripts[t], cs...)
		n += len(cs)
	}
	return scripts
}

// ---------------------------------------------------------------- main

func main() {
	if len(os.Args) < 2 {
		vx.Die("usage: hx-c05 all [flags]")
	}
	fs := flag.NewFlagSet(os.Args[1], flag.ExitOnError)
	seed := fs.Uint64("seed", 1, "")
	out := fs.String("out", "cases.v", "")
	statsP := fs.String("stats", "stats.json", "")
	nlin := fs.Int("nlin", 250, "free-running histories written to Coq")
	nseq := fs.Int("nseq", 120, "lockstep scripts")
	nstress := fs.Int("nstress", 1500, "longer free-running histories judged in Go only")
	seqLen := fs.Int("seqlen", 30, "")
	nclose := fs.Int("nclose", 20000, "directed close-race mini histories (60 of them also to Coq)")
	nreseq := fs.Int("nreseq", 300, "sequential scripts with re-entrant Iterate consumers (half of them also to Coq)")
	nreconc := fs.Int("nreconc", 300, "re-entrant consumer + writer arriving inside a callback (60 of them also to Coq)")
	nbig := fs.Int("nbig", 200, "histories with large uniform values, overwrites of existing keys vs readers (40 of them also to Coq)")
	nsb := fs.Int("nsb", 6000, "free-running histories around a shared batch object (40 of them also to Coq)")
	nsbdir := fs.Int("nsbdir", 200, "shared batch: adder started while a Commit is parked behind the view lock (30 of them also to Coq)")
	nsbseq := fs.Int("nsbseq", 200, "shared batch, one goroutine: reuse after Commit/Cancel (all to Coq)")
	fs.IntVar(&bigUse, "biguse", len(bigLens), "large values: use only the first so many lengths of 64Ki 64Ki+2 128Ki 256Ki 1Mi")
	only := fs.String("only", "", "comma-separated streams to run (neg reent seq close lin stress big sbatch); empty = all")
	fs.Parse(os.Args[2:])

	rng := vx.NewRng(*seed)
	st := vx.NewStats("lin/stress history: non-trivial iff two records of different goroutines overlap in time and one of them is a write/Close; " +
		"seq script: non-trivial iff some read returned a value/entry written earlier in the script; " +
		"reent-seq: non-trivial iff a consumer executed at least one nested store call; reent-conc: non-trivial iff the consumer reached the pause, " +
		"executed nested calls and the writer's call lies inside the Iterate's interval")
	cf := &vx.CasesFile{Header: coqHeader(), Type: "case",
		Footer: "Definition M := Eval vm_compute in mismatches cases.\nPrint M."}
	addCase := func(term string, desc any) {
		cf.Add(term)
		st.CaseIndex = append(st.CaseIndex, desc)
	}
	hangs := 0
	on := func(name string) bool {
		if *only == "" {
			return true
		}
		for _, x := range strings.Split(*only, ",") {
			if x == name {
				return true
			}
		}
		return false
	}

	// ---- directed synthetic histories: the checkers must reject them (sanity of the oracle, not of the code)
	for _, d := range directedNegatives() {
		if !on("neg") {
			break
		}
		if linearizable(d) {
			vx.Die("Go checker accepts a directed non-linearizable history")
		}
		addCase("CNeg "+vx.ListOf(d, rec.coq), map[string]any{"mode": "neg-directed", "history": d})
		st.Count("mode:neg")
	}

	// ---- re-entrant consumers (own generator: the streams below stay what they were)
	if on("reent") {
		runReentSeq(&gen{r: vx.NewRng(*seed ^ 0x52454e54).Fork().Fork()}, *nreseq, *nreseq/2, *seed, st, addCase)
		runReentConc(&gen{r: vx.NewRng(*seed ^ 0x52454e55).Fork().Fork().Fork()}, *nreconc, 60, *seed, st, addCase)
	}

	// ---- large values (big.go), shared batch objects (sbatch.go); own generators as well
	if on("big") {
		runBig(&gen{r: vx.NewRng(*seed ^ 0x42494731).Fork()}, *nbig, 40, *seed, st, addCase)
	}
	if on("sbatch") {
		runSBatchSeq(&gen{r: vx.NewRng(*seed ^ 0x53424131).Fork()}, *nsbseq, *nsbseq, *seed, st, addCase)
		runSBatchDir(&gen{r: vx.NewRng(*seed ^ 0x53424132).Fork().Fork()}, *nsbdir, 30, *seed, st, addCase)
		runSBatch(&gen{r: vx.NewRng(*seed ^ 0x53424133).Fork().Fork().Fork()}, *nsb, 40, *seed, st, addCase)
	}

	// ---- lockstep scripts
	gs := &gen{r: rng.Fork()}
	for n := 0; n < *nseq && on("seq"); n++ {
		w := newWorld()
		a := newActor(w)
		var done []call
		var obs []ret
		written := map[string]bool{}
		nontriv := false
		closeAt := -1
		if gs.r.Chance(1, 3) {
			closeAt = *seqLen/2 + gs.r.Intn(*seqLen/2)
		}
		for len(done) < *seqLen {
			var cs []call
			if len(done) == closeAt {
				cs = []call{{Kind: "close", V: gs.r.Intn(len(views))}}
				closeAt = -1
			} else {
				cs = gs.call(0, 0)
			}
			for _, c := range cs {
				if c.Kind == "commit" && a.batch == nil {
					continue
				}
				r, ops := a.exec(c)
				done = append(done, c)
				obs = append(obs, r)
				st.Count("seq-call:" + c.Kind)
				st.Count("seq-ret:" + r.Kind)
				for _, o := range ops {
					if o.Op.Kind == "set" && o.Ret.Kind == "ok" {
						written[o.Op.Val] = true
					}
					if o.Ret.Kind == "val" && written[o.Ret.Val] {
						nontriv = true
					}
					for _, e := range o.Ret.List {
						if e.V != "" && written[e.V] {
							nontriv = true
						}
					}
				}
			}
		}
		for _, f := range a.fails {
			st.Fail(map[string]any{"kind": "flushkv-composition", "what": f, "script": done})
		}
		st.Case(fmt.Sprint(done, obs), nontriv)
		st.Count("mode:seq")
		addCase(vx.App("CSeq", vx.ListOf(done, call.coq), vx.ListOf(obs, ret.coq)), map[string]any{"mode": "seq", "script": done, "obs": obs})
		if n == 0 {
			st.Sample(map[string]any{"mode": "seq", "script": done[:8], "obs": obs[:8]}, 8)
		}
	}

	// ---- free-running histories
	runBatch := func(count int, toCoq bool, minOps, maxOps int, tag string) {
		g := &gen{r: rng.Fork()}
		negLeft := 5
		for n := 0; n < count && hangs < 3; n++ {
			G := 2 + g.r.Intn(7)
			if g.r.Chance(1, 2) {
				G = 2 + g.r.Intn(3)
			}
			total := minOps + g.r.Intn(maxOps-minOps+1)
			pClose := 0
			if g.r.Chance(1, 5) {
				pClose = 6
			}
			scripts := genScripts(g, G, total, pClose)
			jitter := make([]int, 17)
			for i := range jitter {
				if g.r.Chance(1, 3) {
					jitter[i] = g.r.Intn(4)
				}
			}
			rounds := g.r.Chance(2, 3)
			h, fails, hang := runFree(scripts, jitter, rounds, 20*time.Second)
			if rounds {
				st.Count(tag + ":rounds-mode")
			}
			if hang != nil {
				hangs++
				st.Fail(hangInfo{Kind: "hang", Seed: *seed, Index: n, InFlight: hang})
				st.Count(tag + ":hang")
				continue
			}
			for _, f := range fails {
				st.Fail(map[string]any{"kind": "flushkv-composition", "what": f, "history": h})
			}
			ok := linearizable(h)
			nc := conflicts(h)
			st.Case(histKey(h), nc > 0)
			st.Count("mode:" + tag)
			st.Count(fmt.Sprintf("%s:goroutines=%d", tag, G))
			switch {
			case nc == 0:
				st.Count(tag + ":conflicts=0")
			case nc < 4:
				st.Count(tag + ":conflicts=1-3")
			default:
				st.Count(tag + ":conflicts>=4")
			}
			sawClosed := false
			for _, r := range h {
				st.Count("op:" + r.Op.Kind)
				if r.Ret.Kind == "closed" {
					sawClosed = true
				}
			}
			if sawClosed {
				st.Count(tag + ":with-closed-results")
			}
			if !ok {
				st.Fail(map[string]any{"kind": "not-linearizable", "mode": tag, "seed": *seed, "index": n, "history": h})
			}
			if toCoq {
				addCase("CLin "+vx.ListOf(h, rec.coq), map[string]any{"mode": tag, "index": n, "history": h})
				if n < 2 {
					st.Sample(map[string]any{"mode": tag, "goroutines": G, "history": h}, 8)
				}
				// corrupt one read result: both checkers must notice
				if ok && negLeft > 0 {
					for i := range h {
						if h[i].Ret.Kind == "val" {
							h2 := append([]rec(nil), h...)
							h2[i].Ret.Val = "\xee\xee"
							if linearizable(h2) {
								vx.Die("Go checker accepts a corrupted history")
							}
							addCase("CNeg "+vx.ListOf(h2, rec.coq), map[string]any{"mode": "neg-corrupted", "history": h2})
							st.Count("mode:neg")
							negLeft--
							break
						}
					}
				}
			}
		}
	}
	// ---- close races: a few writes first (sequentially), then one mutator, one Close and readers released together
	runClose := func(count, toCoq int) {
		g := &gen{r: rng.Fork()}
		for n := 0; n < count && hangs < 3; n++ {
			scripts := make([][]call, 3+g.r.Intn(2))
			for i := 0; i < 2; i++ { // goroutine 0 prepares, then races as a reader
				scripts[0] = append(scripts[0], call{Kind: "set", V: 0, K: vx.Pick(g.r, universe), Val: g.value(0)})
			}
			for t := range scripts {
				var c call
				for {
					cs := g.call(t, 0)
					c = cs[0]
					isMut := c.Kind == "set" || c.Kind == "del" || c.Kind == "delprefix" || c.Kind == "clear"
					isRead := c.Kind == "get" || c.Kind == "has" || c.Kind == "iter"
					if len(cs) == 1 && ((t == 1 && isMut) || (t != 1 && isRead)) {
						break
					}
				}
				if t == 2 {
					c = call{Kind: "close", V: g.r.Intn(len(views))}
				}
				scripts[t] = append(scripts[t], c)
			}
			// rounds 0,1: only goroutine 0 has calls; round 2: everybody
			for t := 1; t < len(scripts); t++ {
				scripts[t] = append([]call{{Kind: "flush", V: 0}, {Kind: "flush", V: 0}}, scripts[t]...)
			}
			h, fails, hang := runFree(scripts, []int{0}, true, 20*time.Second)
			if hang != nil {
				hangs++
				st.Fail(hangInfo{Kind: "hang", Seed: *seed, Index: n, InFlight: hang})
				continue
			}
			for _, f := range fails {
				st.Fail(map[string]any{"kind": "flushkv-composition", "what": f, "history": h})
			}
			st.Case(histKey(h), conflicts(h) > 0)
			st.Count("mode:closerace")
			applied := false // a write that was applied although the Close had already taken effect for somebody else
			for _, r := range h {
				if r.Ret.Kind == "closed" {
					applied = true
				}
			}
			if applied {
				st.Count("closerace:with-closed-results")
			}
			if !linearizable(h) {
				st.Fail(map[string]any{"kind": "not-linearizable", "mode": "closerace", "seed": *seed, "index": n, "history": h})
			}
			if n < toCoq {
				addCase("CLin "+vx.ListOf(h, rec.coq), map[string]any{"mode": "closerace", "index": n, "history": h})
			}
		}
	}
	if on("close") {
		runClose(*nclose, 60)
	}
	if on("lin") {
		runBatch(*nlin, true, 6, 12, "lin")
	}
	if on("stress") {
		runBatch(*nstress, false, 16, 40, "stress")
	}

	st.Extra["gomaxprocs"] = runtime.GOMAXPROCS(0)
	if err := cf.Write(*out); err != nil {
		vx.Die("%v", err)
	}
	if err := st.Write(*statsP); err != nil {
		vx.Die("%v", err)
	}
}

func directedNegatives() [][]rec {
	ok := ret{Kind: "ok"}
	set := func(k, v string) sop { return sop{Kind: "set", K: k, Val: v} }
	all := sop{Kind: "iter", K: "", Fwd: true, Lim: 9}
	return [][]rec{
		// stale read
		{{0, 0, 1, 2, set("a", "1"), ok}, {0, 1, 3, 4, set("a", "2"), ok}, {1, 0, 5, 6, sop{Kind: "get", K: "a"}, ret{Kind: "val", Val: "1"}}},
		// torn snapshot: b without a although a was written first and never deleted
		{{0, 0, 1, 2, set("a", "1"), ok}, {0, 1, 3, 4, set("b", "2"), ok}, {1, 0, 5, 6, all, ret{Kind: "list", List: []kv{{"b", "2"}}}}},
		// snapshot mixing two instants: {a=1,b=3} never existed (b=3 written after a was overwritten)
		{{0, 0, 1, 2, set("a", "1"), ok}, {0, 1, 3, 4, set("a", "2"), ok}, {0, 2, 5, 6, set("b", "3"), ok},
			{1, 0, 1, 8, all, ret{Kind: "list", List: []kv{{"a", "1"}, {"b", "3"}}}}},
		// success after Close returned
		{{0, 0, 1, 2, sop{Kind: "close"}, ok}, {1, 0, 3, 4, set("a", "1"), ok}},
		// DeletePrefix not atomic: a survivor that was written before and never after
		{{0, 0, 1, 2, set("ab", "1"), ok}, {0, 1, 3, 4, sop{Kind: "delprefix", K: "a"}, ok}, {1, 0, 5, 6, sop{Kind: "has", K: "ab"}, ret{Kind: "bool", B: true}}},
	}
}
