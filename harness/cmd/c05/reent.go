// Re-entrant consumers: an Iterate/IterateKeys consumer is user code and may call back into the store (read or
// write, through the view it iterates, another handle of the same object, a sibling, the parent or a child view).
// The contract (and the Coq model: compile (CIterRe ..) / ICallbacks) is "snapshot, then callbacks with NO store
// lock held": the iteration reports the entries of one instant and every nested call behaves like a call made
// after that instant.
//
//	reent-seq : one goroutine; results of all calls (nested ones included, in return order) must equal the
//	            snapshot-then-callbacks semantics computed by the Go spec, and the thread-program model (CSeq).
//	reent-conc: the consumer signals "inside callback j"; the harness starts a writer goroutine and waits until
//	            that writer has returned or is parked (wait state from runtime.Stack), then lets the consumer
//	            re-enter. Every party must return (watchdog); the history must be linearizable (Go + CLin).
//
// A scenario that does not finish is reported as a hang together with the scenario itself.
package main

import (
	"fmt"
	"runtime"
	"strconv"
	"strings"
	"sync"
	"time"

	"verif/harness/vx"
)

// nested call made by a consumer, with its own invocation/response stamps
type nestedRes struct {
	C   call    `json:"call"`
	Inv int     `json:"inv"`
	Res int     `json:"res"`
	R   ret     `json:"ret"`
	Ops []opres `json:"-"`
}

// part of actor
type reentrant struct {
	stamp  func() int     // global stamp counter
	nested []nestedRes    // nested calls of the top-level call in flight, in return order
	pause  func(j int)    // invoked at the start of callback j of the top-level Iterate
	depth  int            // nesting depth of the call being executed
	where  func(s string) // progress note for the watchdog
}

// callback is the body of the consumer of `c` at its j-th invocation.
func (a *actor) callback(c call, j int) {
	if c.Cb == nil {
		return
	}
	if a.depth == 0 && a.pause != nil {
		a.pause(j)
	}
	if j >= len(c.Cb) {
		return
	}
	for _, nc := range c.Cb[j] {
		if nc.Kind == "commit" && a.batch == nil {
			continue // Batched failed: nothing to commit
		}
		if a.where != nil {
			a.where(fmt.Sprintf("inside callback %d of %s on view %d: %s on view %d", j, c.Kind, c.V, nc.Kind, nc.V))
		}
		a.depth++
		inv := 0
		if a.stamp != nil {
			inv = a.stamp()
		}
		r, ops := a.exec(nc)
		res := 0
		if a.stamp != nil {
			res = a.stamp()
		}
		a.depth--
		a.nested = append(a.nested, nestedRes{nc, inv, res, r, ops})
	}
	if a.where != nil {
		a.where(fmt.Sprintf("callback %d of %s on view %d returned", j, c.Kind, c.V))
	}
}

// ---------------------------------------------------------------- sequential reference (Go spec, call level)

type refSt struct {
	s        gstate
	hasBatch bool
}

func iterSop(c call) sop {
	vd := views[c.V]
	return sop{Kind: "iter", K: vd.Realm + c.K, Strip: len(vd.Realm), Fwd: c.Fwd, Keys: c.Keys, Lim: c.Lim}
}

// refCall applies one call made by a single goroutine; results are appended in return order (nested calls of a
// consumer before the Iterate that invoked it).
func refCall(st *refSt, c call, out *[]ret) {
	vd := views[c.V]
	one := func(o sop) {
		var r ret
		st.s, r = apply(st.s, o)
		*out = append(*out, r)
	}
	switch c.Kind {
	case "get":
		one(sop{Kind: "get", K: vd.Realm + c.K})
	case "has":
		one(sop{Kind: "has", K: vd.Realm + c.K})
	case "set":
		one(sop{Kind: "set", K: vd.Realm + c.K, Val: c.Val})
	case "del":
		one(sop{Kind: "del", K: vd.Realm + c.K})
	case "delprefix":
		one(sop{Kind: "delprefix", K: vd.Realm + c.K})
	case "clear":
		one(sop{Kind: "delprefix", K: vd.Realm})
	case "flush", "withrealm":
		one(sop{Kind: "nop"})
	case "close":
		one(sop{Kind: "close"})
	case "batched":
		st.hasBatch = !st.s.closed
		one(sop{Kind: "nop"})
	case "commit":
		if !st.hasBatch {
			return
		}
		st.hasBatch = false
		if st.s.closed {
			*out = append(*out, ret{Kind: "closed"})
			return
		}
		for _, w := range netWrites(c.Ws) {
			if w.Del {
				st.s, _ = apply(st.s, sop{Kind: "del", K: vd.Realm + w.K})
			} else {
				st.s, _ = apply(st.s, sop{Kind: "set", K: vd.Realm + w.K, Val: w.Val})
			}
		}
		*out = append(*out, ret{Kind: "ok"})
	case "iter":
		_, r := apply(st.s, iterSop(c)) // the snapshot: taken before any callback runs
		if r.Kind == "list" {
			for j := range r.List {
				if j < len(c.Cb) {
					for _, nc := range c.Cb[j] {
						refCall(st, nc, out)
					}
				}
			}
		}
		*out = append(*out, r)
	default:
		panic("kind " + c.Kind)
	}
}

// ---------------------------------------------------------------- generation

var sameObject = func() map[int][]int {
	m := map[int][]int{}
	for i, v := range views {
		m[v.Vid] = append(m[v.Vid], i)
	}
	return m
}()

// a view handle for a nested / concurrent call, biased towards the object that is being iterated
func (g *gen) nearView(v int) int {
	x := g.r.Intn(100)
	switch {
	case x < 45:
		return v
	case x < 65:
		return vx.Pick(g.r, sameObject[views[v].Vid]) // another handle of the same *mapDB (plain / flushkv)
	}
	return g.r.Intn(len(views)) // sibling, parent, child
}

// consumer body: 1..3 callbacks with 0..2 nested calls each
func (g *gen) consumer(v int, depth int, pClose int, readOnly bool) [][]call {
	n := 1 + g.r.Intn(3)
	cb := make([][]call, n)
	for j := range cb {
		cb[j] = []call{}
		k := g.r.Intn(3)
		if j == 0 && k == 0 {
			k = 1
		}
		for len(cb[j]) < k {
			cs := g.callOn(0, g.nearView(v), pClose)
			if k0 := cs[0].Kind; readOnly && k0 != "get" && k0 != "has" && k0 != "iter" {
				continue
			}
			for i := range cs {
				if cs[i].Kind == "iter" && depth < 2 && g.r.Chance(1, 2) {
					cs[i].Cb = g.consumer(cs[i].V, depth+1, pClose, readOnly)
				}
			}
			cb[j] = append(cb[j], cs...)
		}
	}
	return cb
}

// an Iterate over view v that finds something (given prep wrote below the realm of v) with a re-entrant consumer
func (g *gen) reentIter(v int, pClose int) call {
	pfx := ""
	if g.r.Chance(1, 4) {
		pfx = vx.Pick(g.r, relKeys(views[v].Realm, prefixes))
	}
	lim := 9
	if g.r.Chance(1, 4) {
		lim = 1 + g.r.Intn(2)
	}
	return call{Kind: "iter", V: v, K: pfx, Fwd: g.r.Chance(3, 4), Keys: g.r.Chance(1, 4), Lim: lim,
		Cb: g.consumer(v, 1, pClose, g.r.Chance(1, 3))}
}

// 2..4 writes through the root that put entries below the realm of view v
func (g *gen) prep(v int) []call {
	var cs []call
	below := relKeys(views[v].Realm, universe)
	for i, n := 0, 2+g.r.Intn(3); i < n; i++ {
		k := views[v].Realm + vx.Pick(g.r, below)
		if i > 0 && g.r.Chance(1, 4) {
			k = vx.Pick(g.r, universe)
		}
		cs = append(cs, call{Kind: "set", V: 0, K: k, Val: g.value(0)})
	}
	return cs
}

func hasNested(c call) (reads, writes int) {
	for _, cs := range c.Cb {
		for _, nc := range cs {
			switch nc.Kind {
			case "get", "has", "iter":
				reads++
			case "set", "del", "delprefix", "clear", "commit":
				writes++
			}
			r, w := hasNested(nc)
			reads, writes = reads+r, writes+w
		}
	}
	return
}

// ---------------------------------------------------------------- goroutine wait states

func goid() int {
	var buf [64]byte
	n := runtime.Stack(buf[:], false)
	f := strings.Fields(string(buf[:n]))
	if len(f) < 2 {
		return -1
	}
	id, err := strconv.Atoi(f[1])
	if err != nil {
		return -1
	}
	return id
}

// gStatus returns the scheduler status of goroutine id as printed by runtime.Stack ("running", "runnable",
// "sync.RWMutex.Lock", "semacquire", "chan receive", ...) and the function it is in; "" when the goroutine is gone.
func gStatus(id int) (status, top string) {
	buf := make([]byte, 1<<18)
	for {
		n := runtime.Stack(buf, true)
		if n < len(buf) {
			buf = buf[:n]
			break
		}
		buf = make([]byte, 2*len(buf))
	}
	s := "\n" + string(buf)
	tag := fmt.Sprintf("\ngoroutine %d [", id)
	i := strings.Index(s, tag)
	if i < 0 {
		return "", ""
	}
	rest := s[i+len(tag):]
	j := strings.IndexByte(rest, ']')
	if j < 0 {
		return "", ""
	}
	status = rest[:j]
	if k := strings.IndexByte(status, ','); k >= 0 {
		status = status[:k]
	}
	lines := strings.SplitN(rest[j:], "\n", 12)
	for _, l := range lines[1:] {
		if l != "" && !strings.HasPrefix(l, "\t") && !strings.HasPrefix(l, "sync.") && !strings.HasPrefix(l, "runtime.") &&
			!strings.HasPrefix(l, "internal/") {
			top = l
			if k := strings.LastIndexByte(top, '('); k >= 0 {
				top = top[:k]
			}
			break
		}
	}
	return status, top
}

func isParked(status string) bool {
	switch status {
	case "", "running", "runnable", "syscall", "idle", "dead", "copystack", "preempted":
		return false
	}
	return true
}

// ---------------------------------------------------------------- reent-seq

func flattenObs(a *actor, r ret, obs *[]ret) {
	for _, n := range a.nested {
		*obs = append(*obs, n.R)
	}
	*obs = append(*obs, r)
	a.nested = a.nested[:0]
}

func runReentSeq(g *gen, count, toCoq int, seed uint64, st *vx.Stats, addCase func(string, any)) (hangs int) {
	for n := 0; n < count && hangs < 1; n++ {
		v := g.r.Intn(len(views))
		pClose := 0
		if g.r.Chance(1, 6) {
			pClose = 8
		}
		script := g.prep(v)
		if g.r.Chance(1, 3) {
			script = append(script, g.call(0, 0)...)
		}
		script = append(script, g.reentIter(v, pClose))
		if g.r.Chance(1, 3) {
			script = append(script, g.reentIter(g.nearView(v), pClose))
		}
		script = append(script, call{Kind: "iter", V: 0, K: "", Fwd: true, Lim: 9})

		var want []ret
		rs := &refSt{s: gstate{map[string]string{}, false}}
		for _, c := range script {
			if c.Kind == "commit" && !rs.hasBatch {
				continue
			}
			refCall(rs, c, &want)
		}

		var mu sync.Mutex
		where := "not started"
		var done []call
		var obs []ret
		fin := make(chan struct{})
		go func() {
			defer close(fin)
			a := newActor(newWorld())
			a.where = func(s string) { mu.Lock(); where = s; mu.Unlock() }
			for i, c := range script {
				if c.Kind == "commit" && a.batch == nil {
					continue
				}
				a.where(fmt.Sprintf("call %d: %s on view %d", i, c.Kind, c.V))
				r, _ := a.exec(c)
				done = append(done, c)
				flattenObs(a, r, &obs)
			}
			for _, f := range a.fails {
				mu.Lock()
				st.Fail(map[string]any{"kind": "flushkv-composition", "what": f, "script": script})
				mu.Unlock()
			}
		}()
		select {
		case <-fin:
		case <-time.After(10 * time.Second):
			mu.Lock()
			st.Fail(map[string]any{"kind": "hang", "mode": "reent-seq", "seed": seed, "index": n, "stuck": where, "script": script,
				"what": "a single goroutine: an Iterate consumer that calls back into the store never returns (10 s)"})
			mu.Unlock()
			st.Count("reent-seq:hang")
			hangs++
			continue
		}
		okRes := len(obs) == len(want)
		for i := 0; okRes && i < len(obs); i++ {
			okRes = obs[i].eq(want[i])
		}
		if !okRes {
			st.Fail(map[string]any{"kind": "reentrant-consumer-semantics", "mode": "reent-seq", "seed": seed, "index": n,
				"script": script, "observed": obs, "snapshot_then_callbacks": want})
		}
		rd, wr := 0, 0
		for _, c := range script {
			r, w := hasNested(c)
			rd, wr = rd+r, wr+w
		}
		st.Case("reseq:"+fmt.Sprint(script, obs), rd+wr > 0 && len(obs) > len(script))
		st.Count("mode:reent-seq")
		if rd > 0 {
			st.Count("reent-seq:nested-reads")
		}
		if wr > 0 {
			st.Count("reent-seq:nested-writes")
		}
		st.Count(fmt.Sprintf("reent-seq:nested-calls-executed=%d", min(len(obs)-len(done), 6)))
		if n < toCoq {
			addCase(vx.App("CSeq", vx.ListOf(done, call.coq), vx.ListOf(obs, ret.coq)),
				map[string]any{"mode": "reent-seq", "index": n, "script": done, "obs": obs})
		}
		if n == 0 {
			st.Sample(map[string]any{"mode": "reent-seq", "script": done, "obs": obs}, 8)
		}
	}
	return hangs
}

// ---------------------------------------------------------------- reent-conc

func runReentConc(g *gen, count, toCoq int, seed uint64, st *vx.Stats, addCase func(string, any)) (hangs int) {
	for n := 0; n < count && hangs < 2; n++ {
		v := g.r.Intn(len(views))
		prep := g.prep(v)
		it := g.reentIter(v, 0)
		// the writer: a mutating call (or a Batched+Commit pair) through a handle near the iterated object
		var wcalls []call
		for {
			wcalls = g.callOn(1, g.nearView(v), 0)
			k := wcalls[len(wcalls)-1].Kind
			if len(wcalls) <= 2 && (k == "set" || k == "del" || k == "delprefix" || k == "clear" || k == "commit") {
				if len(wcalls) == 2 && wcalls[0].Kind != "batched" {
					continue
				}
				break
			}
		}
		// pause inside callback jp (0 unless the snapshot is known to be longer)
		rs := &refSt{s: gstate{map[string]string{}, false}}
		var tmp []ret
		for _, c := range prep {
			refCall(rs, c, &tmp)
		}
		_, snap := apply(rs.s, iterSop(it))
		jp := 0
		if len(snap.List) > 1 && g.r.Chance(1, 3) {
			jp = g.r.Intn(min(len(snap.List), len(it.Cb)))
		}
		scenario := map[string]any{"prep": prep, "iterate": it, "pause_inside_callback": jp, "writer": wcalls}
		if _, nw := hasNested(it); hangs > 0 && nw > 0 {
			continue // after a first hang only consumers that merely READ the store are still run (a second, different report)
		}

		w := newWorld()
		var ctr struct {
			sync.Mutex
			n int
		}
		stamp := func() int { ctr.Lock(); defer ctr.Unlock(); ctr.n++; return ctr.n }
		var h []rec
		idx := 0
		addRecs := func(t int, inv, res int, ops []opres) {
			for _, o := range ops {
				h = append(h, rec{T: t, I: idx, Inv: inv, Res: res, Op: o.Op, Ret: o.Ret})
			}
			idx++
		}
		ca := newActor(w)
		ca.stamp = stamp
		for _, c := range prep {
			inv := stamp()
			_, ops := ca.exec(c)
			addRecs(0, inv, stamp(), ops)
		}
		var mu sync.Mutex
		where := "not started"
		ca.where = func(s string) { mu.Lock(); where = s; mu.Unlock() }
		inside := make(chan struct{})
		goOn := make(chan struct{})
		paused := false
		ca.pause = func(j int) {
			if j == jp && !paused {
				paused = true
				close(inside)
				select {
				case <-goOn:
				case <-time.After(8 * time.Second):
				}
			}
		}
		cdone := make(chan struct{})
		cid := make(chan int, 1)
		var cInv, cRes int
		var cOps []opres
		go func() {
			defer close(cdone)
			cid <- goid()
			cInv = stamp()
			_, cOps = ca.exec(it)
			cRes = stamp()
		}()
		consumerID := <-cid
		wdone := make(chan struct{})
		wid := make(chan int, 1)
		wa := newActor(w)
		type wres struct {
			inv, res int
			ops      []opres
		}
		var wr []wres
		writer := func() {
			defer close(wdone)
			wid <- goid()
			for _, c := range wcalls {
				if c.Kind == "commit" && wa.batch == nil {
					continue
				}
				inv := stamp()
				_, ops := wa.exec(c)
				wr = append(wr, wres{inv, stamp(), ops})
			}
		}
		reached := true
		select {
		case <-inside:
		case <-cdone: // the consumer was never invoked / never reached callback jp
			reached = false
		case <-time.After(10 * time.Second):
			s, top := gStatus(consumerID)
			mu.Lock()
			scenario["consumer_progress"] = where
			mu.Unlock()
			st.Fail(map[string]any{"kind": "hang", "mode": "reent-conc", "seed": seed, "index": n, "scenario": scenario,
				"stuck": []string{fmt.Sprintf("consumer goroutine: %s in %s", s, top)},
				"what": "Iterate with a consumer that calls back into the store does not get to the callback where the writer was to arrive: no other goroutine is involved yet (10 s)"})
			st.Count("reent-conc:hang")
			hangs++
			continue
		}
		go writer()
		writerID := <-wid
		// wait until the writer has returned or is parked
		wstate := "undetermined"
		deadline := time.Now().Add(2 * time.Second)
		seenParked := 0
	poll:
		for time.Now().Before(deadline) {
			select {
			case <-wdone:
				wstate = "returned"
				break poll
			default:
			}
			if s, _ := gStatus(writerID); isParked(s) {
				seenParked++
				if seenParked >= 2 {
					wstate = "parked:" + s
					break poll
				}
			} else {
				seenParked = 0
			}
			time.Sleep(100 * time.Microsecond)
		}
		close(goOn)
		stuck := []string{}
		timeout := time.After(10 * time.Second)
		for _, p := range []struct {
			name string
			ch   chan struct{}
			id   int
		}{{"consumer", cdone, consumerID}, {"writer", wdone, writerID}} {
			select {
			case <-p.ch:
			case <-timeout:
				s, top := gStatus(p.id)
				stuck = append(stuck, fmt.Sprintf("%s goroutine: %s in %s", p.name, s, top))
				timeout = time.After(100 * time.Millisecond)
			}
		}
		st.Count("reent-conc:writer-" + strings.SplitN(wstate, ":", 2)[0] + "-before-reentry")
		if len(stuck) > 0 {
			mu.Lock()
			scenario["consumer_progress"] = where
			mu.Unlock()
			st.Fail(map[string]any{"kind": "hang", "mode": "reent-conc", "seed": seed, "index": n, "scenario": scenario,
				"writer_when_consumer_reentered": wstate, "stuck": stuck,
				"what": "Iterate with a consumer that calls back into the store; a writer arrived while the consumer was inside a callback; not everybody returned (10 s)"})
			st.Count("reent-conc:hang")
			hangs++
			continue
		}
		for _, f := range append(ca.fails, wa.fails...) {
			st.Fail(map[string]any{"kind": "flushkv-composition", "what": f, "scenario": scenario})
		}
		for _, nr := range ca.nested {
			addRecs(0, nr.Inv, nr.Res, nr.Ops)
		}
		addRecs(0, cInv, cRes, cOps)
		for _, x := range wr {
			addRecs(1, x.inv, x.res, x.ops)
		}
		sortRecs(h)
		overl := false // the writer's interval lies inside the Iterate's
		for _, x := range wr {
			if x.inv > cInv && x.res < cRes {
				overl = true
			}
		}
		st.Case("reconc:"+histKey(h), overl && reached && len(ca.nested) > 0)
		st.Count("mode:reent-conc")
		if overl {
			st.Count("reent-conc:writer-inside-iterate")
		}
		if !reached {
			st.Count("reent-conc:callback-not-reached")
		}
		if !linearizable(h) {
			st.Fail(map[string]any{"kind": "not-linearizable", "mode": "reent-conc", "seed": seed, "index": n, "scenario": scenario, "history": h})
		}
		if n < toCoq {
			addCase("CLin "+vx.ListOf(h, rec.coq), map[string]any{"mode": "reent-conc", "index": n, "scenario": scenario, "history": h})
		}
		if n == 0 {
			st.Sample(map[string]any{"mode": "reent-conc", "scenario": scenario, "history": h}, 8)
		}
	}
	return hangs
}

func sortRecs(h []rec) {
	for i := 1; i < len(h); i++ {
		for j := i; j > 0 && h[j].Inv < h[j-1].Inv; j-- {
			h[j], h[j-1] = h[j-1], h[j]
		}
	}
}
