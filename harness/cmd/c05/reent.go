// Re-entrant consumers: an Iterate/IterateKeys consumer is user code and may call back into the store (read or
// write, through the view it iterates, another handle of the same object, a sibling, the parent or a child view).
// The contract (and the Coq model: compile (CIterRe ..) / ICallbacks) is "snapshot, then callbacks with NO store
// lock held": the iteration reports the entries of one instant and every nested call behaves like a call made
// after that instant.
//
//	reent-seq : one goroutine; results of all calls (nested ones included, in return order) must equal the
//	            snapshot-then-callbacks semantics computed by the Go spec, and the thread-program model (CSeq).
//	            Batch pairs of consumers are numbered (call.Bid): a `commit` commits the object of ITS `batched`, so a
//	            pair may enclose re-entrant Iterates with pairs of their own or end in a later callback. A `commit`
//	            whose Batched failed (closed store) is not a call: it is dropped from the script given to Coq.
//	reent-conc: the consumer signals "inside callback j"; the harness starts a writer goroutine and waits until
//	            that writer has returned or is parked (wait state from runtime.Stack), then lets the consumer
//	            re-enter. Every party must return (watchdog); the history must be linearizable (Go + CLin).
//
// A scenario that does not finish is reported as a hang together with the scenario itself.
package main

import (
	"fmt"
	"runtime"
	"strconv"
	"strings"
	"sync"
	"time"

	"verif/harness/vx"
)

// nested call made by a consumer, with its own invocation/response stamps
type nestedRes struct {
	C   call    `json:"call"`
	Inv int     `json:"inv"`
	Res int     `json:"res"`
	R   ret     `json:"ret"`
	Ops []opres `json:"-"`
}

// part of actor
type reentrant struct {
	stamp  func() int     // global stamp counter
	nested []nestedRes    // nested calls of the top-level call in flight, in return order
	pause  func(j int)    // invoked at the start of callback j of the top-level Iterate
	depth  int            // nesting depth of the call being executed
	where  func(s string) // progress note for the watchdog
	// nested `commit`s the harness did NOT make because there was no batch object (its Batched had failed on the closed store, or -
	// pairs with Bid 0 only - another pair had used the goroutine's slot meanwhile). Identified by the address of the call inside the
	// script (every nested call of a script is executed at most once). Such a call is no call of the store: prunedScript drops it from
	// the script given to the Coq model.
	skipped map[*call]bool
}

// callback is the body of the consumer of `c` at its j-th invocation.
func (a *actor) callback(c call, j int) {
	if c.Cb == nil {
		return
	}
	if a.depth == 0 && a.pause != nil {
		a.pause(j)
	}
	if j >= len(c.Cb) {
		return
	}
	for i := range c.Cb[j] {
		nc := c.Cb[j][i]
		if nc.Kind == "commit" && a.batchOf(nc) == nil {
			if a.skipped == nil {
				a.skipped = map[*call]bool{}
			}
			a.skipped[&c.Cb[j][i]] = true // no batch object: no call is made (and none is reported to the model)
			continue
		}
		if a.where != nil {
			a.where(fmt.Sprintf("inside callback %d of %s on view %d: %s on view %d", j, c.Kind, c.V, nc.Kind, nc.V))
		}
		a.depth++
		inv := 0
		if a.stamp != nil {
			inv = a.stamp()
		}
		r, ops := a.exec(nc)
		res := 0
		if a.stamp != nil {
			res = a.stamp()
		}
		a.depth--
		a.nested = append(a.nested, nestedRes{nc, inv, res, r, ops})
	}
	if a.where != nil {
		a.where(fmt.Sprintf("callback %d of %s on view %d returned", j, c.Kind, c.V))
	}
}

// prunedScript: the calls that were really made. A nested `commit` without a batch object is not executed by the harness
// (there is nothing to call Commit on), so the script handed to the Coq model must not contain it either: in the model a
// CCommit is always a call (ICheck ..) with a result of its own. The top-level scripts do the same through `done`.
func prunedScript(script []call, skipped map[*call]bool) []call {
	out := make([]call, len(script))
	for i := range script {
		out[i] = pruneCall(script[i], skipped)
	}
	return out
}

func pruneCall(c call, skipped map[*call]bool) call {
	if c.Cb == nil {
		return c
	}
	out := c
	out.Cb = make([][]call, len(c.Cb))
	for j := range c.Cb {
		out.Cb[j] = []call{}
		for i := range c.Cb[j] {
			if skipped[&c.Cb[j][i]] {
				continue
			}
			out.Cb[j] = append(out.Cb[j], pruneCall(c.Cb[j][i], skipped))
		}
	}
	return out
}

// ---------------------------------------------------------------- sequential reference (Go spec, call level)

type refSt struct {
	s        gstate
	hasBatch map[int]bool // by Bid: a batch object exists (Batched succeeded, not committed yet)
}

func newRefSt() *refSt {
	return &refSt{s: gstate{map[string]string{}, false}, hasBatch: map[int]bool{}}
}

func iterSop(c call) sop {
	vd := views[c.V]
	return sop{Kind: "iter", K: vd.Realm + c.K, Strip: len(vd.Realm), Fwd: c.Fwd, Keys: c.Keys, Lim: c.Lim}
}

// refCall applies one call made by a single goroutine; results are appended in return order (nested calls of a
// consumer before the Iterate that invoked it).
func refCall(st *refSt, c call, out *[]ret) {
	vd := views[c.V]
	one := func(o sop) {
		var r ret
		st.s, r = apply(st.s, o)
		*out = append(*out, r)
	}
	switch c.Kind {
	case "get":
		one(sop{Kind: "get", K: vd.Realm + c.K})
	case "has":
		one(sop{Kind: "has", K: vd.Realm + c.K})
	case "set":
		one(sop{Kind: "set", K: vd.Realm + c.K, Val: c.Val})
	case "del":
		one(sop{Kind: "del", K: vd.Realm + c.K})
	case "delprefix":
		one(sop{Kind: "delprefix", K: vd.Realm + c.K})
	case "clear":
		one(sop{Kind: "delprefix", K: vd.Realm})
	case "flush", "withrealm":
		one(sop{Kind: "nop"})
	case "close":
		one(sop{Kind: "close"})
	case "batched":
		st.hasBatch[c.Bid] = !st.s.closed
		one(sop{Kind: "nop"})
	case "commit":
		if !st.hasBatch[c.Bid] {
			return
		}
		st.hasBatch[c.Bid] = false
		if st.s.closed {
			*out = append(*out, ret{Kind: "closed"})
			return
		}
		for _, w := range netWrites(c.Ws) {
			if w.Del {
				st.s, _ = apply(st.s, sop{Kind: "del", K: vd.Realm + w.K})
			} else {
				st.s, _ = apply(st.s, sop{Kind: "set", K: vd.Realm + w.K, Val: w.Val})
			}
		}
		*out = append(*out, ret{Kind: "ok"})
	case "iter":
		_, r := apply(st.s, iterSop(c)) // the snapshot: taken before any callback runs
		if r.Kind == "list" {
			for j := range r.List {
				if j < len(c.Cb) {
					for _, nc := range c.Cb[j] {
						refCall(st, nc, out)
					}
				}
			}
		}
		*out = append(*out, r)
	default:
		panic("kind " + c.Kind)
	}
}

// ---------------------------------------------------------------- generation

var sameObject = func() map[int][]int {
	m := map[int][]int{}
	for i, v := range views {
		m[v.Vid] = append(m[v.Vid], i)
	}
	return m
}()

// a view handle for a nested / concurrent call, biased towards the object that is being iterated
func (g *gen) nearView(v int) int {
	x := g.r.Intn(100)
	switch {
	case x < 45:
		return v
	case x < 65:
		return vx.Pick(g.r, sameObject[views[v].Vid]) // another handle of the same *mapDB (plain / flushkv)
	}
	return g.r.Intn(len(views)) // sibling, parent, child
}

// every batched/commit pair made by a consumer gets a number of its own: `commit` commits the batch object of ITS `batched`,
// whatever other pairs the goroutine opened or closed in between (a pair may enclose a re-entrant Iterate with pairs of its own)
func (g *gen) numberPairs(cs []call) {
	bid := 0
	for i := range cs {
		switch cs[i].Kind {
		case "batched":
			g.bid++
			bid = g.bid
			cs[i].Bid = bid
		case "commit":
			cs[i].Bid = bid
		}
	}
}

func (g *gen) writes(v int, n int) []write {
	keys := relKeys(views[v].Realm, universe)
	var ws []write
	for i := 0; i < n; i++ {
		k := vx.Pick(g.r, keys)
		if i > 0 && g.r.Chance(1, 2) {
			k = ws[g.r.Intn(len(ws))].K // the same key again: delete-then-set, set-then-delete, set twice
		}
		if g.r.Chance(2, 5) {
			ws = append(ws, write{K: k, Del: true})
		} else {
			ws = append(ws, write{K: k, Val: g.value(0)})
		}
	}
	return ws
}

// one group of nested calls of a consumer of an Iterate over view v (a single call, or Batched .. Commit)
func (g *gen) group(v int, depth int, pClose int, readOnly bool) []call {
	for {
		if depth < 3 && g.r.Chance(1, 5) { // a re-entrant Iterate of its own (callOn yields a plain Iterate in 14 % only)
			c := g.reentIterAt(g.nearView(v), depth+1, pClose, readOnly)
			if depth == 2 {
				c.Lim = 1 + g.r.Intn(2) // third level: short
			}
			return []call{c}
		}
		cs := g.callOn(0, g.nearView(v), pClose)
		if k0 := cs[0].Kind; readOnly && k0 != "get" && k0 != "has" && k0 != "iter" {
			continue
		}
		for i := range cs {
			if cs[i].Kind == "iter" && depth < 2 && g.r.Chance(1, 2) {
				cs[i].Cb = g.consumer(cs[i].V, depth+1, pClose, readOnly)
			}
		}
		g.numberPairs(cs)
		return cs
	}
}

// consumer body: 1..3 callbacks with 0..2 groups of nested calls each. A writing consumer wraps, in 1 of 3 callbacks, its groups
// into a batch pair of its own (Batched first, then the groups - re-entrant Iterates with pairs of their own, Close, .. - then
// Commit), and moves the Commit of such a pair into the NEXT callback half of the time (a batch object that lives across consumer
// invocations: never committed when the iteration stops before).
func (g *gen) consumer(v int, depth int, pClose int, readOnly bool) [][]call {
	n := 1 + g.r.Intn(3)
	cb := make([][]call, n)
	var carry []call // Commit deferred from the previous callback
	for j := range cb {
		cb[j] = []call{}
		k := g.r.Intn(3)
		if j == 0 && k == 0 {
			k = 1
		}
		var body []call
		for len(body) < k {
			body = append(body, g.group(v, depth, pClose, readOnly)...)
		}
		var commit []call
		if !readOnly && g.r.Chance(1, 3) {
			bv := g.nearView(v)
			g.bid++
			bid := g.bid // (the enclosed Iterate numbers its own pairs after this one)
			if depth < 3 && (len(body) == 0 || g.r.Chance(1, 2)) {
				c := g.reentIterAt(g.nearView(v), depth+1, pClose, false) // what the pair encloses: at least one re-entrant Iterate
				if depth >= 2 {
					c.Lim = 1 + g.r.Intn(2)
				}
				body = append(body, c)
			}
			if pClose > 0 && g.r.Chance(1, 4) { // Close while the batch object is alive: its Commit and every later Batched fail
				at := g.r.Intn(len(body) + 1)
				body = append(body[:at:at], append([]call{{Kind: "close", V: g.nearView(v)}}, body[at:]...)...)
			}
			body = append([]call{{Kind: "batched", V: bv, Bid: bid}}, body...)
			commit = []call{{Kind: "commit", V: bv, Bid: bid, Ws: g.writes(bv, g.r.Intn(4))}}
		}
		if len(carry) > 0 && g.r.Chance(1, 2) {
			cb[j] = append(cb[j], carry...)
			carry = nil
		}
		cb[j] = append(cb[j], body...)
		cb[j] = append(cb[j], carry...)
		carry = nil
		if pClose > 0 && !readOnly && j+1 < n && g.r.Chance(1, 3) {
			// Close at the end of a callback that is not the last: the remaining callbacks of this iteration still run (the entries were
			// copied), every call they make fails, a Batched yields no batch object and its Commit is never made
			cb[j] = append(cb[j], call{Kind: "close", V: g.nearView(v)})
		}
		if len(commit) > 0 && j+1 < n && g.r.Chance(1, 2) {
			carry = commit
		} else {
			cb[j] = append(cb[j], commit...)
		}
	}
	return cb
}

// an Iterate over view v that finds something (given prep wrote below the realm of v) with a re-entrant consumer
func (g *gen) reentIter(v int, pClose int) call {
	return g.reentIterAt(v, 1, pClose, g.r.Chance(1, 3))
}

func (g *gen) reentIterAt(v int, depth int, pClose int, readOnly bool) call {
	pfx := ""
	if g.r.Chance(1, 4) {
		pfx = vx.Pick(g.r, relKeys(views[v].Realm, prefixes))
	}
	lim := 9
	if g.r.Chance(1, 4) {
		lim = 1 + g.r.Intn(2)
	}
	return call{Kind: "iter", V: v, K: pfx, Fwd: g.r.Chance(3, 4), Keys: g.r.Chance(1, 4), Lim: lim,
		Cb: g.consumer(v, depth, pClose, readOnly)}
}

// 2..4 writes through the root that put entries below the realm of view v
func (g *gen) prep(v int) []call {
	var cs []call
	below := relKeys(views[v].Realm, universe)
	for i, n := 0, 2+g.r.Intn(3); i < n; i++ {
		k := views[v].Realm + vx.Pick(g.r, below)
		if i > 0 && g.r.Chance(1, 4) {
			k = vx.Pick(g.r, universe)
		}
		cs = append(cs, call{Kind: "set", V: 0, K: k, Val: g.value(0)})
	}
	return cs
}

func hasNested(c call) (reads, writes int) {
	for _, cs := range c.Cb {
		for _, nc := range cs {
			switch nc.Kind {
			case "get", "has", "iter":
				reads++
			case "set", "del", "delprefix", "clear", "commit":
				writes++
			}
			r, w := hasNested(nc)
			reads, writes = reads+r, writes+w
		}
	}
	return
}

// ---------------------------------------------------------------- goroutine wait states

func goid() int {
	var buf [64]byte
	n := runtime.Stack(buf[:], false)
	f := strings.Fields(string(buf[:n]))
	if len(f) < 2 {
		return -1
	}
	id, err := strconv.Atoi(f[1])
	if err != nil {
		return -1
	}
	return id
}

// gStatus returns the scheduler status of goroutine id as printed by runtime.Stack ("running", "runnable",
// "sync.RWMutex.Lock", "semacquire", "chan receive", ...) and the function it is in; "" when the goroutine is gone.
func gStatus(id int) (status, top string) {
	buf := make([]byte, 1<<18)
	for {
		n := runtime.Stack(buf, true)
		if n < len(buf) {
			buf = buf[:n]
			break
		}
		buf = make([]byte, 2*len(buf))
	}
	s := "\n" + string(buf)
	tag := fmt.Sprintf("\ngoroutine %d [", id)
	i := strings.Index(s, tag)
	if i < 0 {
		return "", ""
	}
	rest := s[i+len(tag):]
	j := strings.IndexByte(rest, ']')
	if j < 0 {
		return "", ""
	}
	status = rest[:j]
	if k := strings.IndexByte(status, ','); k >= 0 {
		status = status[:k]
	}
	lines := strings.SplitN(rest[j:], "\n", 12)
	for _, l := range lines[1:] {
		if l != "" && !strings.HasPrefix(l, "\t") && !strings.HasPrefix(l, "sync.") && !strings.HasPrefix(l, "runtime.") &&
			!strings.HasPrefix(l, "internal/") {
			top = l
			if k := strings.LastIndexByte(top, '('); k >= 0 {
				top = top[:k]
			}
			break
		}
	}
	return status, top
}

func isParked(status string) bool {
	switch status {
	case "", "running", "runnable", "syscall", "idle", "dead", "copystack", "preempted":
		return false
	}
	return true
}

// ---------------------------------------------------------------- reent-seq

func flattenObs(a *actor, r ret, obs *[]ret) {
	for _, n := range a.nested {
		*obs = append(*obs, n.R)
	}
	*obs = append(*obs, r)
	a.nested = a.nested[:0]
}

// shape of a script: what the consumers contain (recorded in the input distribution)
type reShape struct {
	nestedIter   int // re-entrant Iterate inside a consumer
	enclosing    int // batched ... commit pair that encloses a nested Iterate or another pair
	laterCommit  int // commit in a later callback than its batched
	closeInside  int // Close made by a consumer
	pairs        int
	maxDepth     int
	nestedReads  int
	nestedWrites int
}

func shapeOf(c call, depth int, sh *reShape) {
	if c.Cb == nil {
		return
	}
	sh.maxDepth = max(sh.maxDepth, depth)
	where := map[int]int{} // Bid -> callback of its batched
	open := map[int]bool{}
	for j, cs := range c.Cb {
		for _, nc := range cs {
			switch nc.Kind {
			case "get", "has", "iter":
				sh.nestedReads++
			case "set", "del", "delprefix", "clear", "commit":
				sh.nestedWrites++
			}
			switch nc.Kind {
			case "batched":
				sh.pairs++
				where[nc.Bid] = j
				open[nc.Bid] = true
				for b := range open {
					if b != nc.Bid && open[b] {
						sh.enclosing++
					}
				}
			case "commit":
				if jb, ok := where[nc.Bid]; ok && jb < j {
					sh.laterCommit++
				}
				delete(open, nc.Bid)
			case "close":
				sh.closeInside++
			case "iter":
				if nc.Cb != nil {
					sh.nestedIter++
					sh.enclosing += len(open)
					shapeOf(nc, depth+1, sh)
				}
			}
		}
	}
}

// directedReentSeq: regression scripts, run first in every tier. D1..D3 are the shrunk scripts of three false alarms of the thorough
// tier (seeds 1001, 1001, 3001): a nested `commit` the harness had not made (no batch object) was still handed to the model.
func directedReentSeq() [][]call {
	val := func(i int) string { return string([]byte{1, byte(200 + i)}) }
	set := func(v int, k string, i int) call { return call{Kind: "set", V: v, K: k, Val: val(i)} }
	all := call{Kind: "iter", V: 0, Fwd: true, Lim: 9}
	ba := func(v, bid int) call { return call{Kind: "batched", V: v, Bid: bid} }
	co := func(v, bid int, ws ...write) call { return call{Kind: "commit", V: v, Bid: bid, Ws: ws} }
	ws := func(k string, i int) write { return write{K: k, Val: val(i)} }
	wd := func(k string) write { return write{K: k, Del: true} }
	prep := []call{set(0, "a", 0), set(0, "ab", 1), set(0, "abc", 2)}
	mk := func(cs ...call) []call { return append(append(append([]call{}, prep...), cs...), all) }
	d1 := func(outer, inner int, ows ...write) []call {
		return mk(call{Kind: "iter", V: 3, Fwd: true, Lim: 2, Cb: [][]call{
			{ba(3, outer),
				{Kind: "iter", V: 4, Fwd: true, Lim: 1, Cb: [][]call{{ba(0, inner), co(0, inner, wd("ab"), ws("ab", 3))}}},
				co(3, outer, ows...)},
			{{Kind: "get", V: 0, K: "b"}, set(3, "bc", 4)},
			{{Kind: "delprefix", V: 5, K: "c"}}}})
	}
	d3 := func(b1, b2, b3 int) []call {
		return mk(call{Kind: "iter", V: 2, Fwd: true, Keys: true, Lim: 9, Cb: [][]call{{
			ba(2, b1),
			{Kind: "iter", V: 4, Fwd: true, Keys: true, Lim: 9, Cb: [][]call{
				{ba(4, b2), {Kind: "close", V: 1}, co(4, b2, ws("ab", 5), ws("a", 6), ws("ab", 7))},
				{{Kind: "iter", V: 1, Keys: true, Lim: 9}, ba(4, b3), co(4, b3, ws("ab", 8), wd("abc"), ws("b", 9))},
				{{Kind: "iter", V: 1, K: "bc", Lim: 9}, {Kind: "clear", V: 5}}}},
			co(2, b1, ws("", 10))}}})
	}
	across := func(lim int, mid ...call) []call {
		cb0 := append([]call{ba(1, 1), set(1, "b", 11)}, mid...)
		return mk(call{Kind: "iter", V: 1, Fwd: true, Lim: lim, Cb: [][]call{
			cb0,
			{{Kind: "get", V: 1, K: "b"}, co(1, 1, wd("b"), ws("bc", 12), ws("b", 13), wd(""))},
			{{Kind: "get", V: 1, K: "b"}, {Kind: "has", V: 1, K: ""}}}})
	}
	return [][]call{
		// D1: a pair around a re-entrant Iterate whose consumer commits a batch of its own (delete, then set of one key); the outer
		// batch is empty. Numbered pairs: the outer Commit is made after the inner one. Bid 0 twice (as generated until then): the inner
		// pair uses up the goroutine's slot, the outer Commit is not made.
		d1(1, 2), d1(0, 0), d1(1, 2, ws("b", 14), wd("")),
		// D2: the consumer closes the store in callback 0; Batched in callback 1 fails, so there is no Commit
		mk(call{Kind: "iter", V: 1, Lim: 9, Cb: [][]call{
			{{Kind: "close", V: 1}, {Kind: "del", V: 1, K: "b"}},
			{ba(1, 1), {Kind: "has", V: 5}, co(1, 1)}}},
			call{Kind: "iter", V: 4, Fwd: true, Lim: 1, Cb: [][]call{{set(4, "abc", 15)}}}),
		// D3: Close between Batched and Commit two levels down; later pairs fail at Batched; the outermost Commit meets the closed store
		d3(1, 2, 3), d3(0, 0, 0),
		// batch made in callback 0, committed in callback 1 (net content: deletes after sets); with lim 1 callback 1 never runs;
		// with a nested Iterate that closes the store in between
		across(9), across(1),
		across(9, call{Kind: "iter", V: 3, Lim: 2, Cb: [][]call{{}, {{Kind: "close", V: 4}, {Kind: "flush", V: 1}}}}),
	}
}

func runReentSeq(g *gen, count, toCoq int, seed uint64, st *vx.Stats, addCase func(string, any)) (hangs int) {
	directed := directedReentSeq()
	for n := -len(directed); n < count && hangs < 1; n++ {
		var script []call
		mode := "reent-seq"
		if n < 0 {
			script = directed[n+len(directed)]
			mode = "reent-seq-directed"
		} else {
			v := g.r.Intn(len(views))
			pClose := 0
			if g.r.Chance(1, 3) {
				pClose = 8
			}
			script = g.prep(v)
			if g.r.Chance(1, 3) {
				script = append(script, g.call(0, 0)...)
			}
			script = append(script, g.reentIter(v, pClose))
			if g.r.Chance(1, 3) {
				script = append(script, g.reentIter(g.nearView(v), pClose))
			}
			script = append(script, call{Kind: "iter", V: 0, K: "", Fwd: true, Lim: 9})
		}

		var want []ret
		rs := newRefSt()
		for _, c := range script {
			if c.Kind == "commit" && !rs.hasBatch[c.Bid] {
				continue
			}
			refCall(rs, c, &want)
		}

		var mu sync.Mutex
		where := "not started"
		var done []call
		var obs []ret
		var skipped map[*call]bool
		fin := make(chan struct{})
		go func() {
			defer close(fin)
			a := newActor(newWorld())
			a.where = func(s string) { mu.Lock(); where = s; mu.Unlock() }
			for i, c := range script {
				if c.Kind == "commit" && a.batchOf(c) == nil {
					continue
				}
				a.where(fmt.Sprintf("call %d: %s on view %d", i, c.Kind, c.V))
				r, _ := a.exec(c)
				done = append(done, c)
				flattenObs(a, r, &obs)
			}
			skipped = a.skipped
			for _, f := range a.fails {
				mu.Lock()
				st.Fail(map[string]any{"kind": "flushkv-composition", "what": f, "script": script})
				mu.Unlock()
			}
		}()
		select {
		case <-fin:
		case <-time.After(10 * time.Second):
			mu.Lock()
			st.Fail(map[string]any{"kind": "hang", "mode": mode, "seed": seed, "index": n, "stuck": where, "script": script,
				"what": "a single goroutine: an Iterate consumer that calls back into the store never returns (10 s)"})
			mu.Unlock()
			st.Count("reent-seq:hang")
			hangs++
			continue
		}
		okRes := len(obs) == len(want)
		for i := 0; okRes && i < len(obs); i++ {
			okRes = obs[i].eq(want[i])
		}
		if !okRes {
			st.Fail(map[string]any{"kind": "reentrant-consumer-semantics", "mode": mode, "seed": seed, "index": n,
				"script": script, "observed": obs, "snapshot_then_callbacks": want})
		}
		var sh reShape
		for _, c := range script {
			shapeOf(c, 1, &sh)
		}
		st.Case("reseq:"+fmt.Sprint(script, obs), sh.nestedReads+sh.nestedWrites > 0 && len(obs) > len(script))
		st.Count("mode:" + mode)
		if sh.nestedReads > 0 {
			st.Count("reent-seq:nested-reads")
		}
		if sh.nestedWrites > 0 {
			st.Count("reent-seq:nested-writes")
		}
		if sh.nestedIter > 0 {
			st.Count("reent-seq:script-with-nested-reentrant-iterate")
		}
		if sh.enclosing > 0 {
			st.Count("reent-seq:script-with-pair-enclosing-iterate-or-pair")
		}
		if sh.laterCommit > 0 {
			st.Count("reent-seq:script-with-commit-in-later-callback")
		}
		if sh.closeInside > 0 {
			st.Count("reent-seq:script-with-close-in-consumer")
		}
		if len(skipped) > 0 {
			st.Count("reent-seq:script-with-commit-not-made(no-batch-object)")
		}
		st.Count(fmt.Sprintf("reent-seq:consumer-depth=%d", sh.maxDepth))
		st.Count(fmt.Sprintf("reent-seq:nested-calls-executed=%d", min(len(obs)-len(done), 12)/2*2))
		if n < toCoq {
			made := prunedScript(done, skipped) // the calls that were made: a `commit` without a batch object is none
			addCase(vx.App("CSeq", vx.ListOf(made, call.coq), vx.ListOf(obs, ret.coq)),
				map[string]any{"mode": mode, "index": n, "script": made, "obs": obs, "commits_not_made": len(skipped)})
		}
		if n == 0 {
			st.Sample(map[string]any{"mode": "reent-seq", "script": done, "obs": obs}, 8)
		}
	}
	return hangs
}

// ---------------------------------------------------------------- reent-conc

func runReentConc(g *gen, count, toCoq int, seed uint64, st *vx.Stats, addCase func(string, any)) (hangs int) {
	for n := 0; n < count && hangs < 2; n++ {
		v := g.r.Intn(len(views))
		prep := g.prep(v)
		it := g.reentIter(v, 0)
		// the writer: a mutating call (or a Batched+Commit pair) through a handle near the iterated object
		var wcalls []call
		for {
			wcalls = g.callOn(1, g.nearView(v), 0)
			k := wcalls[len(wcalls)-1].Kind
			if len(wcalls) <= 2 && (k == "set" || k == "del" || k == "delprefix" || k == "clear" || k == "commit") {
				if len(wcalls) == 2 && wcalls[0].Kind != "batched" {
					continue
				}
				break
			}
		}
		// pause inside callback jp (0 unless the snapshot is known to be longer)
		rs := newRefSt()
		var tmp []ret
		for _, c := range prep {
			refCall(rs, c, &tmp)
		}
		_, snap := apply(rs.s, iterSop(it))
		jp := 0
		if len(snap.List) > 1 && g.r.Chance(1, 3) {
			jp = g.r.Intn(min(len(snap.List), len(it.Cb)))
		}
		scenario := map[string]any{"prep": prep, "iterate": it, "pause_inside_callback": jp, "writer": wcalls}
		if _, nw := hasNested(it); hangs > 0 && nw > 0 {
			continue // after a first hang only consumers that merely READ the store are still run (a second, different report)
		}

		w := newWorld()
		var ctr struct {
			sync.Mutex
			n int
		}
		stamp := func() int { ctr.Lock(); defer ctr.Unlock(); ctr.n++; return ctr.n }
		var h []rec
		idx := 0
		addRecs := func(t int, inv, res int, ops []opres) {
			for _, o := range ops {
				h = append(h, rec{T: t, I: idx, Inv: inv, Res: res, Op: o.Op, Ret: o.Ret})
			}
			idx++
		}
		ca := newActor(w)
		ca.stamp = stamp
		for _, c := range prep {
			inv := stamp()
			_, ops := ca.exec(c)
			addRecs(0, inv, stamp(), ops)
		}
		var mu sync.Mutex
		where := "not started"
		ca.where = func(s string) { mu.Lock(); where = s; mu.Unlock() }
		inside := make(chan struct{})
		goOn := make(chan struct{})
		paused := false
		ca.pause = func(j int) {
			if j == jp && !paused {
				paused = true
				close(inside)
				select {
				case <-goOn:
				case <-time.After(8 * time.Second):
				}
			}
		}
		cdone := make(chan struct{})
		cid := make(chan int, 1)
		var cInv, cRes int
		var cOps []opres
		go func() {
			defer close(cdone)
			cid <- goid()
			cInv = stamp()
			_, cOps = ca.exec(it)
			cRes = stamp()
		}()
		consumerID := <-cid
		wdone := make(chan struct{})
		wid := make(chan int, 1)
		wa := newActor(w)
		type wres struct {
			inv, res int
			ops      []opres
		}
		var wr []wres
		writer := func() {
			defer close(wdone)
			wid <- goid()
			for _, c := range wcalls {
				if c.Kind == "commit" && wa.batchOf(c) == nil {
					continue
				}
				inv := stamp()
				_, ops := wa.exec(c)
				wr = append(wr, wres{inv, stamp(), ops})
			}
		}
		reached := true
		select {
		case <-inside:
		case <-cdone: // the consumer was never invoked / never reached callback jp
			reached = false
		case <-time.After(10 * time.Second):
			s, top := gStatus(consumerID)
			mu.Lock()
			scenario["consumer_progress"] = where
			mu.Unlock()
			st.Fail(map[string]any{"kind": "hang", "mode": "reent-conc", "seed": seed, "index": n, "scenario": scenario,
				"stuck": []string{fmt.Sprintf("consumer goroutine: %s in %s", s, top)},
				"what":  "Iterate with a consumer that calls back into the store does not get to the callback where the writer was to arrive: no other goroutine is involved yet (10 s)"})
			st.Count("reent-conc:hang")
			hangs++
			continue
		}
		go writer()
		writerID := <-wid
		// wait until the writer has returned or is parked
		wstate := "undetermined"
		deadline := time.Now().Add(2 * time.Second)
		seenParked := 0
	poll:
		for time.Now().Before(deadline) {
			select {
			case <-wdone:
				wstate = "returned"
				break poll
			default:
			}
			if s, _ := gStatus(writerID); isParked(s) {
				seenParked++
				if seenParked >= 2 {
					wstate = "parked:" + s
					break poll
				}
			} else {
				seenParked = 0
			}
			time.Sleep(100 * time.Microsecond)
		}
		close(goOn)
		stuck := []string{}
		timeout := time.After(10 * time.Second)
		for _, p := range []struct {
			name string
			ch   chan struct{}
			id   int
		}{{"consumer", cdone, consumerID}, {"writer", wdone, writerID}} {
			select {
			case <-p.ch:
			case <-timeout:
				s, top := gStatus(p.id)
				stuck = append(stuck, fmt.Sprintf("%s goroutine: %s in %s", p.name, s, top))
				timeout = time.After(100 * time.Millisecond)
			}
		}
		st.Count("reent-conc:writer-" + strings.SplitN(wstate, ":", 2)[0] + "-before-reentry")
		if len(stuck) > 0 {
			mu.Lock()
			scenario["consumer_progress"] = where
			mu.Unlock()
			st.Fail(map[string]any{"kind": "hang", "mode": "reent-conc", "seed": seed, "index": n, "scenario": scenario,
				"writer_when_consumer_reentered": wstate, "stuck": stuck,
				"what": "Iterate with a consumer that calls back into the store; a writer arrived while the consumer was inside a callback; not everybody returned (10 s)"})
			st.Count("reent-conc:hang")
			hangs++
			continue
		}
		for _, f := range append(ca.fails, wa.fails...) {
			st.Fail(map[string]any{"kind": "flushkv-composition", "what": f, "scenario": scenario})
		}
		for _, nr := range ca.nested {
			addRecs(0, nr.Inv, nr.Res, nr.Ops)
		}
		addRecs(0, cInv, cRes, cOps)
		for _, x := range wr {
			addRecs(1, x.inv, x.res, x.ops)
		}
		sortRecs(h)
		overl := false // the writer's interval lies inside the Iterate's
		for _, x := range wr {
			if x.inv > cInv && x.res < cRes {
				overl = true
			}
		}
		st.Case("reconc:"+histKey(h), overl && reached && len(ca.nested) > 0)
		st.Count("mode:reent-conc")
		if overl {
			st.Count("reent-conc:writer-inside-iterate")
		}
		if !reached {
			st.Count("reent-conc:callback-not-reached")
		}
		if !linearizable(h) {
			st.Fail(map[string]any{"kind": "not-linearizable", "mode": "reent-conc", "seed": seed, "index": n, "scenario": scenario, "history": h})
		}
		if n < toCoq {
			addCase("CLin "+vx.ListOf(h, rec.coq), map[string]any{"mode": "reent-conc", "index": n, "scenario": scenario, "history": h})
		}
		if n == 0 {
			st.Sample(map[string]any{"mode": "reent-conc", "scenario": scenario, "history": h}, 8)
		}
	}
	return hangs
}

func sortRecs(h []rec) {
	for i := 1; i < len(h); i++ {
		for j := i; j > 0 && h[j].Inv < h[j-1].Inv; j-- {
			h[j], h[j-1] = h[j-1], h[j]
		}
	}
}
