// Large stores: scale-dependent behaviour.
//
// All other free-running families use a universe of 4 keys. Here the store holds >= 10 000 entries in total (several realms), so
// that any internal chunking / batching / lock-yielding threshold in the low thousands is crossed by every scan of the shared map.
//
// large (free-running, own oracle): writers atomically maintain invariants that a reader can check on ONE Iterate / IterateKeys
// result, and that follow from per-operation linearizability + "an iteration reports the entries of one instant" alone:
//
//	token rings: the only writer of ring r performs, for n = 1, 2, ...:  Set(key(r, n+1), n+1) ; Delete(key(r, n)).
//	    The entries of ring r at any instant are {n} or {n, n+1}: never none, never more than two, never two non-adjacent ones.
//	    key(r, n) = slot n mod m (m = 2, 3, 5: keys are reused) or the generation itself (m = 0: ever new keys, the map churns).
//	groups: the only writer of group q performs, for round = 1, 2, ...:  Set(q/0, round) ... Set(q/k-1, round) ; DeletePrefix(q/)
//	    (or Clear of the view with realm q/). The entries of q at any instant are q/0..q/j-1 for some j, all with one round value.
//	window: a writer publishes "started n" before and "finished n" after its calls (atomics); a reader loads `finished` before and
//	    `started` after its iteration: the generations / rounds it reports lie in (finished-before, started-after].
//	chain: the state of a ring is a position (2n for {n}, 2n+1 for {n, n+1}) that only grows. Two snapshots, being two instants, are
//	    ordered: their position vectors must be comparable componentwise (checked over all snapshots of all readers of a history).
//	filler: the >= 10 000 other entries never change: an iteration covering them reports exactly them, sorted.
//
// Nothing depends on timing: the run is bounded by a number of snapshots per reader (watchdog: 30 s).
//
// large-lin: ordinary short random histories through the views with realm "a"/"ab" on a store pre-filled with >= 10 000 entries
// outside that realm; judged like `lin` (Go checker; Coq lin_check for some).
package main

import (
	"fmt"
	"sort"
	"strconv"
	"strings"
	"sync"
	"sync/atomic"
	"time"

	"github.com/iotaledger/hive.go/kvstore"
	"github.com/iotaledger/hive.go/kvstore/flushkv"
	"github.com/iotaledger/hive.go/kvstore/mapdb"

	"verif/harness/vx"
)

func pad(n int, w int) string {
	s := strconv.Itoa(n)
	for len(s) < w {
		s = "0" + s
	}
	return s
}

// fillWorld stores n entries whose keys neither start with "a" nor equal "b" (outside everything the views with realm "a…" address)
func fillWorld(w *world, n int) {
	root := w.objs[0]
	fv, err := root.WithRealm([]byte("f/"))
	must(err)
	b, err := root.Batched()
	must(err)
	for i := 0; i < n; i++ {
		switch {
		case i%3 == 0:
			must(fv.Set([]byte(pad(i, 6)), []byte{1}))
		case i%3 == 1:
			must(root.Set([]byte("ba/"+pad(i, 6)), []byte{2}))
		default:
			must(b.Set([]byte("B"+pad(i, 6)), []byte{3}))
		}
	}
	must(b.Commit())
}

type ringDef struct {
	id      int
	mod     int // 0: key = generation
	started atomic.Int64
	done    atomic.Int64 // generations <= done are deleted for sure
}

func (r *ringDef) key(gen int64) string { // relative to realm "t/"
	if r.mod == 0 {
		return "r" + pad(r.id, 2) + "/" + pad(int(gen), 9)
	}
	return "r" + pad(r.id, 2) + "/" + strconv.Itoa(int(gen%int64(r.mod)))
}

type groupDef struct {
	id      int
	k       int
	started atomic.Int64 // round whose first Set may have been issued
	done    atomic.Int64 // rounds <= done are deleted for sure
}

func (q *groupDef) prefix() string { return "g" + pad(q.id, 2) + "/" }

type largeViolation struct {
	What   string   `json:"what"`
	Call   string   `json:"call"`
	Detail string   `json:"detail"`
	Result []string `json:"result_excerpt,omitempty"`
}

type snapPos struct {
	reader, seq int
	call        string
	pos         map[int]int64 // ring id -> position
	excerpt     []string
}

type largeStore struct {
	root, tv, tvx, tfl kvstore.KVStore
	fillerT            []string // filler keys inside realm "t/" (relative), sorted
	fillerAll          int      // number of filler entries in the whole store
	rings              []*ringDef
	groups             []*groupDef
}

func val8(n int64) []byte { return []byte(pad(int(n), 8)) }

func runLarge(g *gen, count, snapsPerReader int, seed uint64, st *vx.Stats) {
	bad, hangs := 0, 0
	totalSnaps, overlapped, twoPresent, keysOnly, fullScans, groupPartial := 0, 0, 0, 0, 0, 0
	minEntries, maxEntries := 0, 0
	for n := 0; n < count && bad < 2 && hangs < 1; n++ {
		r := g.r
		ls := &largeStore{root: mapdb.NewMapDB()}
		var err error
		ls.tv, err = ls.root.WithRealm([]byte("t/"))
		must(err)
		t1, err := ls.root.WithRealm([]byte("t"))
		must(err)
		ls.tvx, err = t1.WithExtendedRealm([]byte("/"))
		must(err)
		ls.tfl = flushkv.New(ls.tv)
		// ---- filler: N entries over several realms, some of them inside "t/" on both sides of the token keys
		N := 10000 + r.Intn(15000)
		fv, err := ls.root.WithRealm([]byte("f/"))
		must(err)
		zb, err := ls.root.Batched()
		must(err)
		inT := 50 + r.Intn(400)
		for i := 0; i < N; i++ {
			switch {
			case i < inT && i%2 == 0:
				k := "a" + pad(i, 5) // sorts before the groups and rings
				ls.fillerT = append(ls.fillerT, k)
				must(ls.tv.Set([]byte(k), []byte{7}))
			case i < inT:
				k := "z" + pad(i, 5) // sorts after them
				ls.fillerT = append(ls.fillerT, k)
				must(ls.tv.Set([]byte(k), []byte{7}))
			case i%4 == 0:
				must(zb.Set([]byte("z/"+pad(i, 6)), []byte{8}))
			case i%4 == 1:
				must(ls.root.Set([]byte("a"+pad(i, 6)), []byte{9}))
			default:
				must(fv.Set([]byte(pad(i, 6)), []byte{1, 2}))
			}
		}
		must(zb.Commit())
		sort.Strings(ls.fillerT)
		ls.fillerAll = N
		if minEntries == 0 || N < minEntries {
			minEntries = N
		}
		if N > maxEntries {
			maxEntries = N
		}
		// ---- rings, groups
		W := 2 + r.Intn(4)
		perW := 1 + r.Intn(6)
		mods := []int{0, 2, 2, 3, 5}
		for i := 0; i < W*perW; i++ {
			rd := &ringDef{id: i, mod: vx.Pick(r, mods)}
			rd.started.Store(1)
			must(ls.tv.Set([]byte(rd.key(1)), val8(1)))
			ls.rings = append(ls.rings, rd)
		}
		Q := r.Intn(3)
		for i := 0; i < Q; i++ {
			ls.groups = append(ls.groups, &groupDef{id: i, k: 3 + r.Intn(6)})
		}
		R := 2 + r.Intn(3)
		st.Count(fmt.Sprintf("large:writers=%d", W))
		st.Count(fmt.Sprintf("large:group-writers=%d", Q))
		st.Count(fmt.Sprintf("large:readers=%d", R))

		var stop atomic.Bool
		var wwg, rwg sync.WaitGroup
		var mu sync.Mutex
		var viols []largeViolation
		var snaps []snapPos
		inFlight := make([]atomic.Value, W+Q+R)
		report := func(v largeViolation) {
			mu.Lock()
			if len(viols) < 4 {
				viols = append(viols, v)
			}
			mu.Unlock()
			stop.Store(true)
		}
		// ---- ring writers
		for w := 0; w < W; w++ {
			wwg.Add(1)
			mine := ls.rings[w*perW : (w+1)*perW]
			style := r.Intn(4)
			go func(w int, mine []*ringDef, style int) {
				defer wwg.Done()
				gen := int64(1)
				for i := 0; !stop.Load(); i++ {
					for _, rd := range mine {
						rd.started.Store(gen + 1)
						nk, ok := rd.key(gen+1), rd.key(gen)
						inFlight[w].Store("ring writer: Set " + nk + " then Delete " + ok)
						var e1, e2 error
						switch (style + i) % 4 {
						case 0:
							e1 = ls.tv.Set([]byte(nk), val8(gen+1))
							e2 = ls.tv.Delete([]byte(ok))
						case 1:
							e1 = ls.root.Set([]byte("t/"+nk), val8(gen+1))
							e2 = ls.tvx.Delete([]byte(ok))
						case 2:
							e1 = ls.tfl.Set([]byte(nk), val8(gen+1))
							e2 = ls.tfl.Delete([]byte(ok))
						default: // batches of ONE write each (a Commit is atomic per write only)
							b1, err := ls.tvx.Batched()
							must(err)
							must(b1.Set([]byte(nk), val8(gen+1)))
							e1 = b1.Commit()
							b2, err := ls.tv.Batched()
							must(err)
							must(b2.Delete([]byte(ok)))
							e2 = b2.Commit()
						}
						if e1 != nil || e2 != nil {
							report(largeViolation{What: "write failed on an open store", Call: "Set/Delete", Detail: fmt.Sprint(e1, e2)})
							return
						}
						rd.done.Store(gen)
					}
					gen++
				}
				inFlight[w].Store("")
			}(w, mine, style)
		}
		// ---- group writers
		for qi, q := range ls.groups {
			wwg.Add(1)
			go func(slot int, q *groupDef) {
				defer wwg.Done()
				gv, err := ls.tv.WithExtendedRealm([]byte(q.prefix())) // derived while the other goroutines already run
				must(err)
				for round := int64(1); !stop.Load(); round++ {
					q.started.Store(round)
					for j := 0; j < q.k; j++ {
						inFlight[slot].Store("group writer: Set " + q.prefix() + strconv.Itoa(j) + " on view t/")
						if err := ls.tv.Set([]byte(q.prefix()+strconv.Itoa(j)), val8(round)); err != nil {
							report(largeViolation{What: "write failed on an open store", Call: "Set", Detail: err.Error()})
							return
						}
					}
					var err error
					switch round % 3 {
					case 0:
						inFlight[slot].Store("group writer: Clear() on the view this goroutine derived with WithExtendedRealm(" + q.prefix() +
							") from view t/ while the other writers and the readers were running")
						err = gv.Clear()
					case 1:
						inFlight[slot].Store("group writer: DeletePrefix(" + q.prefix() + ") on view t/")
						err = ls.tv.DeletePrefix([]byte(q.prefix()))
					default:
						inFlight[slot].Store("group writer: DeletePrefix(t/" + q.prefix() + ") on root")
						err = ls.root.DeletePrefix([]byte("t/" + q.prefix()))
					}
					if err != nil {
						report(largeViolation{What: "write failed on an open store", Call: "DeletePrefix/Clear", Detail: err.Error()})
						return
					}
					q.done.Store(round)
				}
				inFlight[slot].Store("")
			}(W+qi, q)
		}
		// ---- readers
		for rd := 0; rd < R; rd++ {
			rwg.Add(1)
			rr := r.Fork()
			go func(rdi int, rr *vx.Rng) {
				defer rwg.Done()
				slot := W + Q + rdi
				for s := 0; s < snapsPerReader && !stop.Load(); s++ {
					sp, v := ls.snapshot(rr, rdi, s, &inFlight[slot])
					if v != nil {
						report(*v)
						return
					}
					mu.Lock()
					totalSnaps++
					if sp.keys {
						keysOnly++
					}
					if sp.full {
						fullScans++
					}
					if sp.overlapped {
						overlapped++
					}
					if sp.two {
						twoPresent++
					}
					if sp.groupPartial {
						groupPartial++
					}
					if sp.pos != nil && len(snaps) < 600 {
						snaps = append(snaps, snapPos{rdi, s, sp.call, sp.pos, sp.excerpt})
					}
					mu.Unlock()
				}
				inFlight[slot].Store("")
			}(rd, rr)
		}
		done := make(chan struct{})
		go func() { rwg.Wait(); stop.Store(true); wwg.Wait(); close(done) }()
		select {
		case <-done:
		case <-time.After(30 * time.Second):
			var fl []string
			for i := range inFlight {
				if s, _ := inFlight[i].Load().(string); s != "" {
					fl = append(fl, s)
				}
			}
			stop.Store(true)
			st.Fail(map[string]any{"kind": "hang", "mode": "large", "seed": seed, "index": n, "entries": N, "in_flight": fl,
				"what": "large store: ring/group writers and iterating readers did not finish within 30 s"})
			st.Count("large:hang")
			hangs++
			continue
		}
		desc := map[string]any{"entries": N, "writers": W, "rings_per_writer": perW, "groups": Q, "readers": R,
			"ring_key_reuse_modulus": func() (m []int) {
				for _, rd := range ls.rings {
					m = append(m, rd.mod)
				}
				return
			}()}
		for _, v := range viols {
			st.Fail(map[string]any{"kind": "large-store-snapshot", "mode": "large", "seed": seed, "index": n, "store": desc, "violation": v,
				"what": "ring writer: Set(key(n+1)) then Delete(key(n)), so a ring holds {n} or {n, n+1} at every instant; group writer: Set q/0..q/k-1 " +
					"then DeletePrefix, so a group holds q/0..q/j-1 of one round at every instant; the filler never changes. One Iterate/IterateKeys " +
					"result must be the entries of ONE instant inside the call"})
			st.Count("large:violation")
			bad++
		}
		// ---- chain: snapshots are instants, hence totally ordered: position vectors pairwise comparable
		if len(viols) == 0 {
			if a, b, ok := chainCheck(snaps); !ok {
				st.Fail(map[string]any{"kind": "large-store-snapshot", "mode": "large", "seed": seed, "index": n, "store": desc,
					"violation": largeViolation{What: "two iteration results that no order of instants explains", Call: a.call + "  ||  " + b.call,
						Detail: fmt.Sprintf("reader %d #%d vs reader %d #%d: ring positions (2n = only generation n, 2n+1 = n and n+1) %v vs %v: "+
							"each ring only advances, so of two instants one is componentwise <= the other", a.reader, a.seq, b.reader, b.seq, a.pos, b.pos),
						Result: append(append(a.excerpt, "--"), b.excerpt...)}})
				st.Count("large:violation")
				bad++
			}
		}
		var gens int64
		for _, rd := range ls.rings {
			gens += rd.done.Load()
		}
		st.Case(fmt.Sprintf("large:%d:%d:%d:%d:%d", n, N, W, perW, gens), gens > 0)
		st.Count("mode:large")
	}
	st.Extra["large"] = map[string]any{"histories_min_entries": minEntries, "histories_max_entries": maxEntries, "snapshots": totalSnaps,
		"iterate_keys": keysOnly, "whole_store_scans": fullScans, "writer_progressed_during_call": overlapped,
		"snapshots_with_two_generations_of_a_ring": twoPresent, "snapshots_with_partly_built_group": groupPartial}
}

type snapInfo struct {
	call                                      string
	keys, full, overlapped, two, groupPartial bool
	pos                                       map[int]int64
	excerpt                                   []string
}

// snapshot makes one Iterate/IterateKeys call and judges its result
func (ls *largeStore) snapshot(rr *vx.Rng, rdi, seq int, fl *atomic.Value) (snapInfo, *largeViolation) {
	var si snapInfo
	// which view, which prefix: cover = the full-key prefix that is iterated
	type target struct {
		h      kvstore.KVStore
		name   string
		realm  string
		prefix string
	}
	var tg target
	switch x := rr.Intn(20); {
	case x < 5:
		tg = target{ls.tv, "view t/", "t/", ""}
	case x < 8:
		tg = target{ls.tvx, "view t + ext /", "t/", ""}
	case x < 10:
		tg = target{ls.tfl, "flushkv over view t/", "t/", ""}
	case x < 13:
		tg = target{ls.root, "root", "", "t/"}
	case x < 16:
		tg = target{ls.tv, "view t/", "t/", "r"}
	case x < 18:
		tg = target{ls.root, "root", "", "t/r"}
	case x < 19 && len(ls.groups) > 0:
		tg = target{ls.tv, "view t/", "t/", "g"}
	case x < 19:
		tg = target{ls.tvx, "view t + ext /", "t/", "r0"}
	default:
		tg = target{ls.root, "root", "", ""}
		si.full = true
	}
	keysOnly := rr.Chance(1, 2)
	fwd := rr.Chance(2, 3)
	si.keys = keysOnly
	dir := kvstore.IterDirectionForward
	if !fwd {
		dir = kvstore.IterDirectionBackward
	}
	si.call = fmt.Sprintf("%s(prefix %q, forward=%v) on %s", map[bool]string{true: "IterateKeys", false: "Iterate"}[keysOnly], tg.prefix, fwd, tg.name)
	fl.Store(si.call)
	cover := tg.realm + tg.prefix
	// window: what was finished before the call
	lo := make([]int64, len(ls.rings))
	for i, rd := range ls.rings {
		lo[i] = rd.done.Load()
	}
	glo := make([]int64, len(ls.groups))
	for i, q := range ls.groups {
		glo[i] = q.done.Load()
	}
	var ks []string
	var vs []string
	var err error
	if keysOnly {
		err = tg.h.IterateKeys([]byte(tg.prefix), func(k kvstore.Key) bool { ks = append(ks, string(k)); return true }, dir)
	} else {
		err = tg.h.Iterate([]byte(tg.prefix), func(k kvstore.Key, v kvstore.Value) bool {
			ks = append(ks, string(k))
			vs = append(vs, string(v))
			return true
		}, dir)
	}
	hi := make([]int64, len(ls.rings))
	for i, rd := range ls.rings {
		hi[i] = rd.started.Load()
	}
	ghi := make([]int64, len(ls.groups))
	for i, q := range ls.groups {
		ghi[i] = q.started.Load()
	}
	viol := func(what, detail string, ex []string) (snapInfo, *largeViolation) {
		if len(ex) > 24 {
			ex = ex[:24]
		}
		return si, &largeViolation{What: what, Call: si.call, Detail: detail, Result: ex}
	}
	if err != nil {
		return viol("iteration failed on an open store", err.Error(), nil)
	}
	// ---- order, prefix
	for i, k := range ks {
		if !strings.HasPrefix(k, tg.prefix) {
			return viol("key outside the prefix", fmt.Sprintf("%q", k), nil)
		}
		if i > 0 && ((fwd && ks[i-1] >= k) || (!fwd && ks[i-1] <= k)) {
			return viol("keys not strictly ordered", fmt.Sprintf("%q then %q", ks[i-1], k), nil)
		}
	}
	// ---- split: token entries (rings, groups) vs filler; full keys
	type ent struct {
		gen  int64 // from the value (Iterate) or the key (mod 0), else -1
		slot int
	}
	ringEnts := make([][]ent, len(ls.rings))
	groupEnts := make([][]ent, len(ls.groups)) // slot = j, gen = round (Iterate) or -1
	var ringLines []string
	fillerSeen := 0
	var fillerTSeen []string
	for i, k := range ks {
		fk := tg.realm + k
		if !strings.HasPrefix(fk, "t/") {
			fillerSeen++
			continue
		}
		rel := fk[2:]
		switch {
		case len(rel) > 4 && rel[0] == 'r' && rel[3] == '/':
			id, e1 := strconv.Atoi(rel[1:3])
			num, e2 := strconv.ParseInt(rel[4:], 10, 64)
			if e1 != nil || e2 != nil || id >= len(ls.rings) {
				return viol("entry that nobody ever wrote", fmt.Sprintf("%q", fk), nil)
			}
			rd := ls.rings[id]
			e := ent{gen: -1, slot: int(num)}
			if rd.mod == 0 {
				e.gen, e.slot = num, 0
			}
			line := fk
			if !keysOnly {
				gv, e3 := strconv.ParseInt(vs[i], 10, 64)
				if e3 != nil || len(vs[i]) != 8 {
					return viol("value that nobody ever wrote", fmt.Sprintf("%q = %q", fk, vs[i]), nil)
				}
				if (rd.mod == 0 && gv != num) || (rd.mod > 0 && gv%int64(rd.mod) != num) {
					return viol("value that was never stored under this key", fmt.Sprintf("%q = %q (ring modulus %d)", fk, vs[i], rd.mod), nil)
				}
				e.gen = gv
				line += " = " + vs[i]
			}
			ringEnts[id] = append(ringEnts[id], e)
			ringLines = append(ringLines, line)
		case len(rel) > 4 && rel[0] == 'g' && rel[3] == '/':
			id, e1 := strconv.Atoi(rel[1:3])
			j, e2 := strconv.Atoi(rel[4:])
			if e1 != nil || e2 != nil || id >= len(ls.groups) || j >= ls.groups[id].k {
				return viol("entry that nobody ever wrote", fmt.Sprintf("%q", fk), nil)
			}
			e := ent{gen: -1, slot: j}
			line := fk
			if !keysOnly {
				gv, e3 := strconv.ParseInt(vs[i], 10, 64)
				if e3 != nil {
					return viol("value that nobody ever wrote", fmt.Sprintf("%q = %q", fk, vs[i]), nil)
				}
				e.gen = gv
				line += " = " + vs[i]
			}
			groupEnts[id] = append(groupEnts[id], e)
			ringLines = append(ringLines, line)
		default:
			fillerSeen++
			fillerTSeen = append(fillerTSeen, rel)
		}
	}
	si.excerpt = ringLines
	if len(si.excerpt) > 40 {
		si.excerpt = si.excerpt[:40]
	}
	// ---- filler: constant
	wantFiller := 0
	var wantT []string
	for _, k := range ls.fillerT {
		if strings.HasPrefix("t/"+k, cover) {
			wantT = append(wantT, k)
		}
	}
	switch {
	case cover == "":
		wantFiller = ls.fillerAll
	default:
		wantFiller = len(wantT)
	}
	if fillerSeen != wantFiller {
		return viol("unchanging entries missing or duplicated", fmt.Sprintf("%d entries other than rings/groups reported, %d are stored under %q and never change",
			fillerSeen, wantFiller, cover), nil)
	}
	if !fwd {
		for i, j := 0, len(fillerTSeen)-1; i < j; i, j = i+1, j-1 {
			fillerTSeen[i], fillerTSeen[j] = fillerTSeen[j], fillerTSeen[i]
		}
	}
	if len(fillerTSeen) != len(wantT) {
		return viol("unchanging entries missing or duplicated", fmt.Sprintf("%d unchanging entries of realm t/ reported, %d are stored under %q",
			len(fillerTSeen), len(wantT), cover), nil)
	}
	for i := range wantT {
		if fillerTSeen[i] != wantT[i] {
			return viol("unchanging entries missing or duplicated", fmt.Sprintf("t/%s reported where t/%s is stored", fillerTSeen[i], wantT[i]), nil)
		}
	}
	// ---- rings
	si.pos = map[int]int64{}
	for id, rd := range ls.rings {
		name := "t/r" + pad(id, 2) + "/"
		if !strings.HasPrefix(name, cover) {
			continue // ring not covered by the iterated prefix
		}
		es := ringEnts[id]
		mine := func() []string {
			var l []string
			for _, s := range ringLines {
				if strings.HasPrefix(s, name) {
					l = append(l, s)
				}
			}
			return l
		}
		if hi[id] > lo[id]+1 {
			si.overlapped = true
		}
		if len(es) == 0 {
			return viol("ring with no entry", fmt.Sprintf("ring %s: the result has none of its keys, but one exists at every instant (generations finished before "+
				"the call: %d, started until after it: %d)", name, lo[id], hi[id]), ringLines)
		}
		if len(es) > 2 {
			return viol("ring with more than two entries", fmt.Sprintf("ring %s", name), mine())
		}
		if len(es) == 2 {
			si.two = true
		}
		sort.Slice(es, func(i, j int) bool {
			if es[i].gen != es[j].gen {
				return es[i].gen < es[j].gen
			}
			return es[i].slot < es[j].slot
		})
		if es[0].gen >= 0 { // generations known
			if len(es) == 2 && es[1].gen != es[0].gen+1 {
				return viol("ring with two non-adjacent generations", fmt.Sprintf("ring %s: generations %d and %d", name, es[0].gen, es[1].gen), mine())
			}
			for _, e := range es {
				if e.gen <= lo[id] || e.gen > hi[id] {
					return viol("ring generation outside the call's interval", fmt.Sprintf("ring %s: generation %d reported; generation %d was deleted before the "+
						"call started, generation %d was the last one started when it had returned", name, e.gen, lo[id], hi[id]), mine())
				}
			}
			si.pos[id] = 2*es[0].gen + int64(len(es)-1)
		} else if len(es) == 2 { // slots only (keys of a ring with key reuse): adjacent modulo m
			a, b := es[0].slot, es[1].slot
			if (a+1)%rd.mod != b && (b+1)%rd.mod != a {
				return viol("ring with two non-adjacent slots", fmt.Sprintf("ring %s (modulus %d): slots %d and %d", name, rd.mod, a, b), mine())
			}
		}
		if es[0].gen < 0 { // slots only: each must be the slot of a generation of the call's interval
			for _, e := range es {
				possible := false
				for gn := lo[id] + 1; gn <= hi[id] && gn <= lo[id]+int64(rd.mod); gn++ {
					if int(gn%int64(rd.mod)) == e.slot {
						possible = true
					}
				}
				if !possible {
					return viol("ring key outside the call's interval", fmt.Sprintf("ring %s (modulus %d): key of slot %d reported, but only generations %d..%d can "+
						"exist during the call", name, rd.mod, e.slot, lo[id]+1, hi[id]), mine())
				}
			}
		}
	}
	if len(si.pos) == 0 {
		si.pos = nil
	}
	// ---- groups: q/0..q/j-1 of one round
	for id, q := range ls.groups {
		name := "t/" + q.prefix()
		if !strings.HasPrefix(name, cover) {
			continue
		}
		es := groupEnts[id]
		if ghi[id] > glo[id]+1 {
			si.overlapped = true
		}
		if len(es) > 0 && len(es) < q.k {
			si.groupPartial = true
		}
		sort.Slice(es, func(i, j int) bool { return es[i].slot < es[j].slot })
		for i, e := range es {
			if e.slot != i {
				return viol("group with a gap", fmt.Sprintf("group %s: %d entries, the one at position %d is %s%d: the writer stores 0, 1, 2, ... in this order and "+
					"removes all of them with ONE DeletePrefix/Clear", name, len(es), i, name, e.slot), ringLines)
			}
			if e.gen >= 0 && (e.gen != es[0].gen || e.gen <= glo[id] || e.gen > ghi[id]) {
				return viol("group mixing rounds", fmt.Sprintf("group %s: round %d next to round %d (rounds finished before the call: %d, started until after it: %d)",
					name, e.gen, es[0].gen, glo[id], ghi[id]), ringLines)
			}
		}
	}
	fl.Store("")
	return si, nil
}

// chainCheck: position vectors of snapshots must be pairwise comparable on their common rings
func chainCheck(snaps []snapPos) (a, b snapPos, ok bool) {
	for i := range snaps {
		for j := i + 1; j < len(snaps); j++ {
			le, ge := true, true
			for id, p := range snaps[i].pos {
				if q, has := snaps[j].pos[id]; has {
					if p > q {
						le = false
					}
					if p < q {
						ge = false
					}
				}
			}
			if !le && !ge {
				return snaps[i], snaps[j], false
			}
		}
	}
	return snapPos{}, snapPos{}, true
}

// ---------------------------------------------------------------- large-lin

var aViews = []int{1, 2, 3, 5}

func touchesRoot(cs []call) bool {
	for _, c := range cs {
		if (c.V == 0 || c.V == 4) && c.Kind != "close" && c.Kind != "flush" && c.Kind != "withrealm" {
			return true
		}
	}
	return false
}

func runLargeLin(g *gen, count, toCoq int, seed uint64, st *vx.Stats, addCase func(string, any)) {
	hangs, bad := 0, 0
	for n := 0; n < count && hangs < 2 && bad < 3; n++ {
		G := 2 + g.r.Intn(4)
		total := 8 + g.r.Intn(8)
		pClose := 0
		if g.r.Chance(1, 6) {
			pClose = 5
		}
		scripts := make([][]call, G)
		for m := 0; m < total; {
			t := g.r.Intn(G)
			var cs []call
			if g.r.Chance(1, 3) { // iterations are what scans the whole map
				v := vx.Pick(g.r, aViews)
				cs = []call{{Kind: "iter", V: v, K: vx.Pick(g.r, relKeys(views[v].Realm, prefixes)), Fwd: g.r.Chance(2, 3), Keys: g.r.Chance(1, 2), Lim: 9}}
			} else {
				cs = g.callOn(t, vx.Pick(g.r, aViews), pClose)
			}
			if touchesRoot(cs) {
				continue
			}
			scripts[t] = append(scripts[t], cs...)
			m += len(cs)
		}
		filler := 10000 + g.r.Intn(6000)
		rounds := g.r.Chance(2, 3)
		h, fails, _, hang := runFreeOpt(scripts, []int{0, 1, 0}, rounds, 20*time.Second, freeOpt{filler: filler})
		if hang != nil {
			hangs++
			st.Fail(map[string]any{"kind": "hang", "mode": "large-lin", "seed": seed, "index": n, "in_flight": hang, "scripts": scripts, "filler_entries": filler})
			st.Count("large-lin:hang")
			continue
		}
		for _, f := range fails {
			st.Fail(map[string]any{"kind": "flushkv-composition", "mode": "large-lin", "what": f, "history": h})
		}
		nc := conflicts(h)
		st.Case("large-lin:"+histKey(h), nc > 0)
		st.Count("mode:large-lin")
		if len(h) > 62 {
			st.Count("large-lin:too-long-for-go-checker")
			continue
		}
		lin := linearizable(h)
		if !lin {
			st.Fail(map[string]any{"kind": "not-linearizable", "mode": "large-lin", "seed": seed, "index": n, "filler_entries": filler, "scripts": scripts, "history": h,
				"what": "store pre-filled with the given number of entries outside the realm \"a\" (fillWorld); all calls go through the views with realm a / ab"})
			bad++
		}
		if n < toCoq && lin { // a history refuted by the Go checker is reported above; lin_check (no memo) is not asked to refute it again
			addCase("CLin "+vx.ListOf(h, rec.coq), map[string]any{"mode": "large-lin", "index": n, "filler_entries": filler, "history": h})
		}
	}
}
