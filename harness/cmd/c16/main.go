// C16 harness: runs runtime/workerpool (real code, build tag verif) on
//   - directed and random *scripts*: one goroutine per operation, released in script order; after every directive the
//     process is left to settle (all goroutines blocked, read from runtime.Stack) and the observable state is recorded;
//     gated tasks and the two verif yield points restrict the schedule. The Coq model runs the same script.
//   - *free-running* runs: concurrent submitters (with nested submits), Shutdown/Start cycles (with and without waiting
//     for ShutdownComplete in between), random delays at the yield points; judged by a Go-side conservation oracle and,
//     in Coq, by the predicate conserved_b.
package main

import (
	"flag"
	"fmt"
	"os"
	"regexp"
	"runtime"
	"sort"
	"strings"
	"sync"
	"sync/atomic"
	"time"

	"github.com/iotaledger/hive.go/runtime/debug"
	"github.com/iotaledger/hive.go/runtime/options"
	"github.com/iotaledger/hive.go/runtime/syncutils"
	"github.com/iotaledger/hive.go/runtime/workerpool"

	"verif/harness/vx"
)

const (
	yieldSubmit = "workerpool.Submit:checked"
	yieldPop    = "stack.PopOrWait:beforeWait"
)

// ---------- gates ----------

type gate struct {
	mu     sync.Mutex
	closed bool
	ch     chan struct{}
}

func (g *gate) wait() {
	g.mu.Lock()
	if !g.closed {
		g.mu.Unlock()
		return
	}
	ch := g.ch
	g.mu.Unlock()
	<-ch
}

func (g *gate) set(closed bool) {
	g.mu.Lock()
	defer g.mu.Unlock()
	if closed && !g.closed {
		g.closed, g.ch = true, make(chan struct{})
	} else if !closed && g.closed {
		g.closed = false
		close(g.ch)
	}
}

// ---------- quiescence ----------

var hdrRe = regexp.MustCompile(`(?m)^goroutine \d+ \[([^\],]+)`)
var stackBuf = make([]byte, 4<<20)

// quiescent: every goroutine except the caller is blocked (channel, mutex, cond, waitgroup, select).
func quiescent() bool {
	n := runtime.Stack(stackBuf, true)
	running := 0
	for _, m := range hdrRe.FindAllSubmatch(stackBuf[:n], -1) {
		switch string(m[1]) {
		case "running":
			running++
		case "runnable", "syscall", "sleep", "preempted", "copystack":
			return false
		default:
			// a goroutine that waits for the garbage collector (assist credit, a phase change, stop-the-world) is not blocked:
			// frequent in the debug mode, where every Submit allocates a 1 MiB stack-trace buffer
			for _, p := range gcStates {
				if strings.HasPrefix(string(m[1]), p) {
					return false
				}
			}
		}
	}
	return running <= 1
}

var gcStates = []string{"GC ", "garbage collection", "stopping the world", "flushing proc caches", "wait for GC cycle", "wait until GC ends", "waiting"}

func settle(timeout time.Duration) bool {
	deadline := time.Now().Add(timeout)
	ok := 0
	for {
		runtime.Gosched()
		if quiescent() {
			ok++
			if ok >= 2 && !debugMode || ok >= 4 {
				return true
			}
		} else {
			ok = 0
		}
		if time.Now().After(deadline) {
			return false
		}
	}
}

func within(d time.Duration, f func()) bool {
	done := make(chan struct{})
	go func() { f(); close(done) }()
	t := time.NewTimer(d)
	defer t.Stop()
	select {
	case <-done:
		return true
	case <-t.C:
		return false
	}
}

// ---------- hooks ----------

type hookCtl struct {
	holdSub, holdDisp gate
	noise             *atomic.Uint64 // != nil: random delays (free-running mode)
}

var curHooks atomic.Pointer[hookCtl]

func noiseDelay(n *atomic.Uint64) {
	x := n.Add(0x9E3779B97F4A7C15)
	x ^= x >> 31
	switch x % 8 {
	case 0, 1, 2:
		runtime.Gosched()
	case 3:
		for i := 0; i < 3; i++ {
			runtime.Gosched()
		}
	case 4:
		time.Sleep(time.Duration(x>>8%200) * time.Microsecond)
	}
}

func installHooks() {
	workerpool.VerifYield = func(p string) {
		if h := curHooks.Load(); h != nil && p == yieldSubmit {
			if h.noise != nil {
				noiseDelay(h.noise)
			}
			h.holdSub.wait()
		}
	}
	syncutils.VerifYield = func(p string) {
		if h := curHooks.Load(); h != nil && p == yieldPop {
			if h.noise != nil {
				noiseDelay(h.noise)
			}
			h.holdDisp.wait()
		}
	}
}

// ---------- scripts ----------

type dirT struct {
	K string `json:"k"` // submit shutdown start waitsd waitzero gate holdsub holddisp | waiters (waiters.go): qabove qbelow cabove cbelow
	T int    `json:"t,omitempty"`
	B bool   `json:"b,omitempty"`
	N int    `json:"n,omitempty"` // threshold of a waiter directive
}

// how a pool is made: by workerpool.New or by Group.CreatePool, with the caller's option list IN ORDER (an option may be
// left out or occur more than once). Workers/Cancel/Panic of a case are the EXPECTED effective values (harness's own
// resolution: defaults of New, then the group's default, then the caller's options, last wins); the Coq side resolves the
// same list on its own (Options.v).
type optT struct {
	K string `json:"k"` // workers cancel panic
	N int    `json:"n"`
	B bool   `json:"b"`
}

func (o optT) String() string {
	switch o.K {
	case "workers":
		return fmt.Sprintf("WithWorkerCount(%d)", o.N)
	case "cancel":
		return fmt.Sprintf("WithCancelPendingTasksOnShutdown(%v)", o.B)
	}
	return fmt.Sprintf("WithPanicOnSubmitAfterShutdown(%v)", o.B)
}

type scriptCase struct {
	Name    string  `json:"name"`
	Via     string  `json:"via"` // new | group
	Opts    []optT  `json:"opts"`
	NCPU    int     `json:"ncpu"`
	Workers int     `json:"workers"`
	Cancel  bool    `json:"cancel"`
	Panic   bool    `json:"panic_opt"`
	Prog    [][]int `json:"prog"`
	Gated   []bool  `json:"gated"`
	Script  []dirT  `json:"script"`
	BusyAt  int     `json:"busy_at,omitempty"` // > 0: after this directive every worker must be executing a (gated) task
	Waiters bool    `json:"waiters,omitempty"` // script of the waiters family (cases of kind CWait)
	Exec    []int   `json:"exec,omitempty"`    // waiters family: per directive, how many tasks must be executing (parked at the gate) once settled; -1 = not judged
}

func resolve(via string, opts []optT) (w int, cancel, panicOpt bool) {
	w, cancel, panicOpt = 2*runtime.NumCPU(), via == "group", false
	for _, o := range opts {
		switch o.K {
		case "workers":
			w = o.N
		case "cancel":
			cancel = o.B
		case "panic":
			panicOpt = o.B
		default:
			vx.Die("bad option %q", o.K)
		}
	}
	return
}

func goOpts(opts []optT) (out []options.Option[workerpool.WorkerPool]) {
	for _, o := range opts {
		switch o.K {
		case "workers":
			out = append(out, workerpool.WithWorkerCount(o.N))
		case "cancel":
			out = append(out, workerpool.WithCancelPendingTasksOnShutdown(o.B))
		case "panic":
			out = append(out, workerpool.WithPanicOnSubmitAfterShutdown(o.B))
		}
	}
	return
}

func optsCoq(opts []optT) string {
	return vx.ListOf(opts, func(o optT) string {
		switch o.K {
		case "workers":
			return fmt.Sprintf("PWorkers %d", o.N)
		case "cancel":
			return "PCancel " + vx.Bool(o.B)
		}
		return "PPanic " + vx.Bool(o.B)
	})
}

// explicit: every option given once, in the order workers, cancel, panic
func explicitOpts(w int, cancel, panicOpt bool) []optT {
	return []optT{{K: "workers", N: w}, {K: "cancel", B: cancel}, {K: "panic", B: panicOpt}}
}

// a random way to ask for the effective configuration (w, cancel, panicOpt): options equal to the default may be left
// out, an option may be preceded by an earlier occurrence with another value (which must lose), order shuffled
func representOpts(rng *vx.Rng, via string, w int, cancel, panicOpt bool) []optT {
	var decoys, reals []optT
	if !(w == 2*runtime.NumCPU() && rng.Chance(1, 2)) {
		reals = append(reals, optT{K: "workers", N: w})
		if rng.Chance(1, 6) {
			decoys = append(decoys, optT{K: "workers", N: vx.Pick(rng, []int{1, 2, w + 1, 2 * runtime.NumCPU()})})
		}
	}
	if !(cancel == (via == "group") && rng.Chance(1, 2)) {
		reals = append(reals, optT{K: "cancel", B: cancel})
		if rng.Chance(1, 5) {
			decoys = append(decoys, optT{K: "cancel", B: !cancel})
		}
	}
	if !(!panicOpt && rng.Chance(1, 2)) {
		reals = append(reals, optT{K: "panic", B: panicOpt})
		if rng.Chance(1, 6) {
			decoys = append(decoys, optT{K: "panic", B: !panicOpt})
		}
	}
	shuffle := func(x []optT) {
		for i := len(x) - 1; i > 0; i-- {
			j := rng.Intn(i + 1)
			x[i], x[j] = x[j], x[i]
		}
	}
	shuffle(decoys)
	shuffle(reals)
	return append(decoys, reals...)
}

// fills in the expected effective configuration
func (sc *scriptCase) fin() *scriptCase {
	if sc.Via == "" {
		sc.Via = "new"
	}
	sc.NCPU = runtime.NumCPU()
	sc.Workers, sc.Cancel, sc.Panic = resolve(sc.Via, sc.Opts)
	return sc
}

// worker counts around and above every machine-derived constant of the package (default 2*NumCPU) and of the runtime
func machineWorkerCounts() []int {
	n, g := runtime.NumCPU(), runtime.GOMAXPROCS(0)
	seen := map[int]bool{}
	var out []int
	for _, v := range []int{n - 1, n, n + 1, 2*n - 1, 2 * n, 2*n + 1, 4 * n, 4*n + 1, g + 1, 2*g + 1} {
		if v >= 1 && !seen[v] && (v <= 320 || v == 2*n+1) {
			seen[v] = true
			out = append(out, v)
		}
	}
	sort.Ints(out)
	return out
}

type obsT struct {
	Running bool   `json:"running"`
	Pending int    `json:"pending"`
	Ran     []int  `json:"ran"`
	NAcc    int    `json:"nacc"`
	NCanc   int    `json:"ncanc"`
	Rej     []int  `json:"rej"`
	Done    []bool `json:"done"`
	QSize   int    `json:"qsize"`
	WDone   []bool `json:"wdone,omitempty"` // per waiter launched so far: has its call returned
}

type runner struct {
	sc       *scriptCase
	wp       *workerpool.WorkerPool
	hooks    *hookCtl
	taskGate gate
	mu       sync.Mutex
	ran, rej []int
	acc      []int
	inc, dec atomic.Int64
	done     []*atomic.Bool
	inGate   atomic.Int64      // tasks currently executing and parked at the task gate
	grp      *workerpool.Group // via == group
	wspec    []dirT            // waiters launched so far
	wdone    []*atomic.Bool
}

func (r *runner) submit(t int) {
	defer func() {
		if e := recover(); e != nil {
			r.mu.Lock()
			r.rej = append(r.rej, t)
			r.mu.Unlock()
		}
	}()
	r.wp.Submit(r.taskFn(t))
	if r.sc.Panic {
		r.mu.Lock()
		r.acc = append(r.acc, t)
		r.mu.Unlock()
	}
}

func (r *runner) taskFn(t int) func() {
	return func() {
		if t < len(r.sc.Gated) && r.sc.Gated[t] {
			r.inGate.Add(1)
			r.taskGate.wait()
			r.inGate.Add(-1)
		}
		if t < len(r.sc.Prog) {
			for _, u := range r.sc.Prog[t] {
				r.submit(u)
			}
		}
		r.mu.Lock()
		r.ran = append(r.ran, t)
		r.mu.Unlock()
	}
}

func sorted(x []int) []int {
	y := append([]int{}, x...)
	sort.Ints(y)
	return y
}

// withQueue = false while the dispatcher is held at its yield point: it holds the mutex of the queue there
func (r *runner) observe(withQueue bool) obsT {
	r.mu.Lock()
	defer r.mu.Unlock()
	o := obsT{Running: r.wp.IsRunning(), Pending: r.wp.PendingTasksCounter.Get(), Ran: sorted(r.ran), Rej: sorted(r.rej),
		NAcc: int(r.inc.Load())}
	o.NCanc = int(r.dec.Load()) - len(r.ran)
	for _, d := range r.done {
		o.Done = append(o.Done, d.Load())
	}
	if withQueue {
		o.QSize = r.wp.Queue.Size()
	}
	for _, d := range r.wdone {
		o.WDone = append(o.WDone, d.Load())
	}
	return o
}

// multiset difference a - b (sorted)
func msetDiff(a, b []int) (d []int, ok bool) {
	cnt := map[int]int{}
	for _, x := range a {
		cnt[x]++
	}
	ok = true
	for _, x := range b {
		cnt[x]--
		if cnt[x] < 0 {
			ok = false
		}
	}
	for x, c := range cnt {
		for i := 0; i < c; i++ {
			d = append(d, x)
		}
	}
	sort.Ints(d)
	return d, ok
}

type scriptResult struct {
	Obs       []obsT   `json:"obs"`
	FinalCanc []int    `json:"final_canc"`
	Problems  []string `json:"problems,omitempty"`
}

const settleTimeout = 8 * time.Second

func runScript(sc *scriptCase) scriptResult {
	r := &runner{sc: sc, hooks: &hookCtl{}}
	curHooks.Store(r.hooks)
	defer curHooks.Store(nil)
	var res scriptResult
	problem := func(f string, a ...any) { res.Problems = append(res.Problems, fmt.Sprintf(f, a...)) }
	count := func(o, n int) {
		if n > o {
			r.inc.Add(int64(n - o))
		} else {
			r.dec.Add(int64(o - n))
		}
	}
	skipFirst := false
	gateClosed, hs, hd := false, false, false // what the runner itself holds back
	if sc.Via == "group" {
		// Group.CreatePool returns the pool started: the script must begin with Start, which is the CreatePool call
		if len(sc.Script) == 0 || sc.Script[0].K != "start" {
			vx.Die("script %s: a pool made by Group.CreatePool needs a script that begins with start", sc.Name)
		}
		r.grp = workerpool.NewGroup("c16g")
		fl := &atomic.Bool{}
		r.done = append(r.done, fl)
		if !within(settleTimeout, func() { r.wp = r.grp.CreatePool("c16", goOpts(sc.Opts)...) }) {
			problem("Group.CreatePool did not return within %v", settleTimeout)
			return res
		}
		fl.Store(true)
		skipFirst = true
	} else {
		r.wp = workerpool.New("c16", goOpts(sc.Opts)...)
	}
	r.wp.PendingTasksCounter.Subscribe(count)
	if wc := r.wp.WorkerCount(); wc != sc.Workers {
		problem("WorkerCount() = %d, options ask for %d", wc, sc.Workers)
	}
	for i, d := range sc.Script {
		launch := func(f func()) {
			fl := &atomic.Bool{}
			r.done = append(r.done, fl)
			go func() { f(); fl.Store(true) }()
		}
		t := d.T
		switch d.K {
		case "submit":
			launch(func() { r.submit(t) })
		case "shutdown":
			launch(func() { r.wp.Shutdown() })
		case "start":
			if i == 0 && skipFirst {
				break // done above: Group.CreatePool
			}
			launch(func() { r.wp.Start() })
		case "waitsd":
			launch(func() { r.wp.ShutdownComplete.Wait() })
		case "waitzero":
			launch(func() { r.wp.PendingTasksCounter.WaitIsZero() })
		case "gate":
			r.taskGate.set(d.B)
			gateClosed = d.B
		case "holdsub":
			r.hooks.holdSub.set(d.B)
			hs = d.B
		case "holddisp":
			r.hooks.holdDisp.set(d.B)
			hd = d.B
		default:
			if !isWaiterDir(d.K) {
				vx.Die("bad directive %q", d.K)
			}
			fl := &atomic.Bool{}
			r.wspec, r.wdone = append(r.wspec, d), append(r.wdone, fl)
			wp, wd := r.wp, d
			go func() { waiterCall(wp, wd); fl.Store(true) }()
		}
		if !settle(settleTimeout) {
			problem("directive %d (%s): process did not settle within %v", i, d.K, settleTimeout)
		}
		ob := r.observe(!hd)
		res.Obs = append(res.Obs, ob)
		// never more tasks executing than workers; at the marked point of an all-busy script every worker executes one
		if g := int(r.inGate.Load()); g > sc.Workers {
			problem("directive %d: %d tasks execute concurrently on %d workers", i, g, sc.Workers)
		} else if sc.BusyAt > 0 && i == sc.BusyAt && g != sc.Workers {
			problem("directive %d: %d of %d workers execute a task although %d gated tasks were accepted", i, g, sc.Workers, ob.NAcc)
		}
		if i < len(sc.Exec) && sc.Exec[i] >= 0 && int(r.inGate.Load()) != sc.Exec[i] {
			problem("directive %d (%s): %d task(s) execute, expected %d (workers %d, accepted %d, Queue.Size() = %d, pending = %d)",
				i, d.K, r.inGate.Load(), sc.Exec[i], sc.Workers, ob.NAcc, ob.QSize, ob.Pending)
		}
		if r.grp != nil {
			if gc := r.grp.PendingChildrenCounter.Get(); (gc != 0) != (ob.Pending != 0) || gc < 0 || gc > 1 {
				problem("directive %d: group counter %d with pool counter %d", i, gc, ob.Pending)
			}
		}
		// the process is quiescent and the runner holds nothing back (gate open, no hook held): every accepted task has
		// finished - whatever else waits on the pool's queue or counter (C16_shutdown_terminates: a state without enabled
		// steps has nothing in flight)
		if !gateClosed && !hs && !hd && (ob.Pending != 0 || ob.QSize != 0) {
			problem("directive %d (%s): quiescent with nothing held by the runner, but PendingTasksCounter = %d, Queue.Size() = %d, running = %v: an accepted task is not being run",
				i, d.K, ob.Pending, ob.QSize, ob.Running)
		}
		// no waiter on the public queue / counter sleeps on a condition that holds in the quiescent state
		for j, w := range r.wspec {
			if !ob.WDone[j] && waiterCond(w, ob.QSize, ob.Pending) {
				problem("directive %d (%s): waiter %d (%s) has not returned although its condition holds (Queue.Size() = %d, pending = %d)",
					i, d.K, j, waiterName(w), ob.QSize, ob.Pending)
			}
		}
	}
	// Go-side oracle on the final state (every script ends with: release all holds, Shutdown, ShutdownComplete.Wait)
	last := res.Obs[len(res.Obs)-1]
	for j, dn := range last.Done {
		if !dn {
			problem("operation %d never returned (hang)", j)
		}
	}
	if last.Pending != 0 {
		problem("PendingTasksCounter = %d after shutdown completed", last.Pending)
	}
	if r.inc.Load() != r.dec.Load() {
		problem("counter increases %d != decreases %d", r.inc.Load(), r.dec.Load())
	}
	if !sc.Cancel && last.NCanc != 0 {
		problem("%d task(s) cancelled without cancel-on-shutdown", last.NCanc)
	}
	r.mu.Lock()
	if sc.Panic {
		d, ok := msetDiff(r.acc, r.ran)
		if !ok {
			problem("a task ran more often than it was accepted: accepted=%v ran=%v", sorted(r.acc), sorted(r.ran))
		}
		res.FinalCanc = d
		if len(d) != last.NCanc {
			problem("accepted-but-not-run tasks %v but %d cancellations counted", d, last.NCanc)
		}
		if len(r.acc) != int(r.inc.Load()) {
			problem("%d submits accepted but %d counter increases", len(r.acc), r.inc.Load())
		}
	}
	nran := len(r.ran)
	r.mu.Unlock()
	// nothing runs after shutdown completed
	settle(time.Second)
	r.mu.Lock()
	if len(r.ran) != nran {
		problem("a task ran after ShutdownComplete.Wait returned")
	}
	r.mu.Unlock()
	if len(res.Problems) > 0 {
		// abandon the pool, make sure nothing stays held
		r.taskGate.set(false)
		r.hooks.holdSub.set(false)
		r.hooks.holdDisp.set(false)
	}
	return res
}

func dirCoq(d dirT) string {
	switch d.K {
	case "submit":
		return "XOp (OSubmit " + fmt.Sprint(d.T) + ")"
	case "shutdown":
		return "XOp OShutdown"
	case "start":
		return "XOp OStart"
	case "waitsd":
		return "XOp OWaitShutdown"
	case "waitzero":
		return "XOp OWaitZero"
	case "gate":
		return "XGate " + vx.Bool(d.B)
	case "holdsub":
		return "XHoldSub " + vx.Bool(d.B)
	case "holddisp":
		return "XHoldDisp " + vx.Bool(d.B)
	}
	panic("dirCoq")
}

func natList(x []int) string { return vx.ListOf(x, func(v int) string { return fmt.Sprint(v) }) }

func scriptCoq(sc *scriptCase, res scriptResult) string {
	if sc.Waiters {
		return waitScriptCoq(sc, res)
	}
	prog := vx.ListOf(sc.Prog, natList)
	obs := vx.ListOf(res.Obs, func(o obsT) string {
		return fmt.Sprintf("mkObs %s (%d)%%Z %s %d %d %s %s", vx.Bool(o.Running), o.Pending, natList(o.Ran), o.NAcc, o.NCanc, natList(o.Rej),
			vx.ListOf(o.Done, vx.Bool))
	})
	return fmt.Sprintf("CScriptO %d %s %s %s %s %s %s %s", sc.NCPU, vx.Bool(sc.Via == "group"), optsCoq(sc.Opts), prog,
		vx.ListOf(sc.Gated, vx.Bool), vx.ListOf(sc.Script, dirCoq), obs, natList(res.FinalCanc))
}

var cleanup = []dirT{{K: "holdsub"}, {K: "holddisp"}, {K: "gate"}, {K: "shutdown"}, {K: "waitsd"}}

func sub(t int) dirT { return dirT{K: "submit", T: t} }

// directed regression scripts (every defect found: D16a, D16b, D16c; D16d needs a third yield point and is covered by
// the model-level witness only) - first in the cases file
func directed() []*scriptCase {
	var out []*scriptCase
	for _, w := range []int{1, 2} {
		out = append(out,
			&scriptCase{Name: "D16a-submit-parked-after-check", Opts: explicitOpts(w, false, true), Prog: [][]int{{}, {}}, Gated: []bool{false, false},
				Script: []dirT{{K: "start"}, {K: "holdsub", B: true}, sub(0), {K: "shutdown"}, sub(1), {K: "waitsd"}, {K: "holdsub"}, {K: "waitzero"}}},
			&scriptCase{Name: "D16b-dispatcher-parked-before-wait", Opts: explicitOpts(w, false, true), Prog: [][]int{{}, {}}, Gated: []bool{false, false},
				Script: []dirT{{K: "holddisp", B: true}, {K: "start"}, {K: "shutdown"}, sub(0), {K: "holddisp"}, {K: "waitsd"}}},
			&scriptCase{Name: "D16b-dispatcher-parked-with-push", Opts: explicitOpts(w, false, true), Prog: [][]int{{}, {}}, Gated: []bool{false, false},
				Script: []dirT{{K: "start"}, {K: "holddisp", B: true}, sub(0), sub(1), {K: "shutdown"}, {K: "holddisp"}, {K: "waitsd"}}},
			&scriptCase{Name: "D16c-start-while-draining-nested", Opts: explicitOpts(w, false, true), Prog: [][]int{{2, 3}, {3}, {}, {}}, Gated: []bool{true, true, false, false},
				Script: []dirT{{K: "start"}, {K: "gate", B: true}, sub(0), sub(1), sub(2), {K: "shutdown"}, {K: "start"}, sub(3), {K: "gate"}, sub(2), {K: "waitzero"}}},
			&scriptCase{Name: "D16c-start-while-draining-cancel", Opts: explicitOpts(w, true, true), Prog: [][]int{{2, 3}, {3}, {}, {}}, Gated: []bool{true, true, false, false},
				Script: []dirT{{K: "start"}, {K: "gate", B: true}, sub(0), sub(1), sub(2), sub(3), {K: "shutdown"}, {K: "start"}, {K: "start"}, {K: "gate"}, sub(2)}},
		)
	}
	for _, s := range out {
		s.Script = append(s.Script, cleanup...)
		s.fin()
	}
	return out
}

// All-workers-busy family (round 2): for every worker count around and above the machine-derived constants (and for the
// default, i.e. WithWorkerCount left out), pools made by New and by Group.CreatePool, cancel-on-shutdown on/off (given
// explicitly, also against the group's default): every worker is made busy with a gated task that re-submits (nested
// Submit) when it is released, a backlog of accepted tasks waits behind them, then Shutdown, then the gate opens. In the
// code as it is, Shutdown returns at once (all signals fit the channel), the re-submits are rejected, the backlog is run
// (cancel off) or cancelled (cancel on) and the pool completes; the model runs the same script for the same n.
//   variant "nested": the gated tasks themselves arrive through nested Submits that were accepted before Shutdown.
//   tail "restart": ShutdownComplete.Wait, Start, two more submits (stale-signal drain at this worker count).
func allBusy(idx int, w int, omitWorkers bool, via string, cancel bool) *scriptCase {
	sc := &scriptCase{Via: via, Prog: [][]int{{2}, {0}, {}, {}}, Gated: []bool{true, false, false, false}}
	if !omitWorkers {
		sc.Opts = append(sc.Opts, optT{K: "workers", N: w})
	}
	// the cancel option explicitly, whatever the default of the constructor is; panic option for task identities
	sc.Opts = append(sc.Opts, optT{K: "panic", B: true}, optT{K: "cancel", B: cancel})
	nested, restart := idx%3 == 1, idx%2 == 1
	sc.Name = fmt.Sprintf("allbusy-w%d-%s-cancel=%v", w, via, cancel)
	if omitWorkers {
		sc.Name += "-default-workers"
	}
	sc.Script = []dirT{{K: "start"}, {K: "gate", B: true}}
	for i := 0; i < w; i++ {
		if nested {
			sc.Script = append(sc.Script, sub(1))
		} else {
			sc.Script = append(sc.Script, sub(0))
		}
	}
	sc.BusyAt = len(sc.Script) - 1
	sc.Script = append(sc.Script, sub(3), sub(3), sub(3), dirT{K: "shutdown"}, dirT{K: "gate"})
	if restart {
		sc.Script = append(sc.Script, dirT{K: "waitsd"}, dirT{K: "start"}, sub(3), sub(2))
	}
	sc.Script = append(sc.Script, cleanup...)
	return sc.fin()
}

func allBusyFamily() []*scriptCase {
	var out []*scriptCase
	idx := 0
	add := func(w int, omit bool) {
		for k, cancel := range []bool{false, true} {
			via := []string{"group", "new"}[(idx+k)%2]
			out = append(out, allBusy(idx, w, omit, via, cancel))
		}
		idx++
	}
	for _, w := range machineWorkerCounts() {
		add(w, false)
	}
	add(2*runtime.NumCPU(), true)
	// the small end with both constructors and both flag values
	for _, w := range []int{1, 2, 3} {
		add(w, false)
		add(w, false)
	}
	return out
}

func randomScript(rng *vx.Rng, idx int) *scriptCase {
	sc := &scriptCase{Name: fmt.Sprintf("rnd%d", idx), Workers: vx.Pick(rng, []int{1, 1, 2, 2, 3, 4}), Cancel: rng.Bool(), Panic: rng.Chance(4, 5)}
	if rng.Chance(1, 20) {
		sc.Workers = vx.Pick(rng, append(machineWorkerCounts(), 2*runtime.NumCPU()))
	}
	const nt = 6
	sc.Prog = make([][]int, nt)
	sc.Gated = make([]bool, nt)
	// tasks 0..2 may have kids among 3..5 and may be gated; 3 may have the kid 5; 3..5 never gated
	for t := 0; t < 3; t++ {
		if rng.Chance(1, 2) {
			for k := rng.Intn(3); k >= 0; k-- {
				sc.Prog[t] = append(sc.Prog[t], 3+rng.Intn(3))
			}
		}
		sc.Gated[t] = rng.Chance(1, 2)
	}
	if rng.Chance(1, 3) {
		sc.Prog[3] = []int{5}
	}
	n := 5 + rng.Intn(10)
	running, gateClosed, hs, hd := false, false, false, false
	if rng.Chance(9, 10) {
		sc.Script = append(sc.Script, dirT{K: "start"})
		running = true
	}
	startPending := false // a Start may still be blocked (issued while workers could be alive)
	// a Shutdown issued while the dispatcher is held blocks in SignalShutdown with the pool lock held for writing; Submits
	// then queue up as readers and sync.RWMutex admits ALL of them when that Shutdown unlocks, before any later writer; the
	// model's run-to-quiescence scheduler may let a Start in between: no Start until the hold is released
	sdBlocked := false
	for len(sc.Script) < n {
		x := rng.Intn(100)
		// while the dispatcher is held at its yield point the outcome must not depend on how several pushes interleave
		// with it: only single leaf submits, no release of other holds
		if hd && x >= 78 && x < 94 {
			continue
		}
		switch {
		case x < 50:
			if hd {
				sc.Script = append(sc.Script, sub(4+rng.Intn(2)))
			} else {
				sc.Script = append(sc.Script, sub(rng.Intn(nt)))
			}
		case x < 60:
			sc.Script = append(sc.Script, dirT{K: "shutdown"})
			running = false
			if hd {
				sdBlocked = true
			}
		case x < 68:
			if sdBlocked {
				continue
			}
			sc.Script = append(sc.Script, dirT{K: "start"})
			if gateClosed || hs || hd {
				startPending = true
			}
			running = true
		case x < 73:
			// ShutdownComplete.Wait only when it returns promptly and no Start can be waiting on the same WaitGroup
			if !running && !gateClosed && !hs && !hd && !startPending {
				sc.Script = append(sc.Script, dirT{K: "waitsd"})
			}
		case x < 78:
			sc.Script = append(sc.Script, dirT{K: "waitzero"})
		case x < 88:
			if hs {
				continue // several parked submitters released while workers can block on the gate: order-dependent outcome
			}
			gateClosed = !gateClosed
			sc.Script = append(sc.Script, dirT{K: "gate", B: gateClosed})
			if !gateClosed && !hs && !hd {
				startPending = false
			}
		case x < 94:
			if !sc.Cancel && !gateClosed {
				hs = !hs
				sc.Script = append(sc.Script, dirT{K: "holdsub", B: hs})
				if !gateClosed && !hs && !hd {
					startPending = false
				}
			}
		default:
			if !sc.Cancel && (hd || (!hs && !gateClosed)) {
				hd = !hd
				if !hd {
					sdBlocked = false
				}
				sc.Script = append(sc.Script, dirT{K: "holddisp", B: hd})
				if !gateClosed && !hs && !hd {
					startPending = false
				}
			}
		}
	}
	sc.Script = append(sc.Script, cleanup...)
	// how the pool is made: by New or (when the script begins with Start) through a group; options in a random representation
	sc.Via = "new"
	if sc.Script[0].K == "start" && rng.Chance(2, 5) {
		sc.Via = "group"
	}
	w, c, p := sc.Workers, sc.Cancel, sc.Panic
	sc.Opts = representOpts(rng, sc.Via, w, c, p)
	sc.fin()
	if sc.Workers != w || sc.Cancel != c || sc.Panic != p {
		vx.Die("representOpts: %v does not resolve to (%d,%v,%v)", sc.Opts, w, c, p)
	}
	return sc
}

// ---------- free-running ----------

type freeCase struct {
	Idx        int    `json:"idx"`
	Seed       uint64 `json:"seed"`
	Via        string `json:"via"`
	Opts       []optT `json:"opts"`
	Workers    int    `json:"workers"`
	Cancel     bool   `json:"cancel"`
	Panic      bool   `json:"panic_opt"`
	Submitters int    `json:"submitters"`
	PerSub     int    `json:"per_submitter"`
	Cycles     int    `json:"cycles"`
	NoWait     bool   `json:"restart_without_wait"`
	Noise      bool   `json:"hook_noise"`
	Monitors   []dirT `json:"monitors,omitempty"` // external waiters on the pool's public Queue / PendingTasksCounter (waiters.go)
	MonEarly   bool   `json:"monitors_before_start,omitempty"`
}

type freeResult struct {
	Accepted, Ran, Cancelled []int
	Pending                  int
	Complete                 bool
	Problems                 []string
}

const freeBound = 10 * time.Second

func runFree(fc *freeCase) freeResult {
	rng := vx.NewRng(fc.Seed)
	h := &hookCtl{}
	if fc.Noise {
		h.noise = &atomic.Uint64{}
		h.noise.Store(fc.Seed)
	}
	curHooks.Store(h)
	defer curHooks.Store(nil)
	var wp *workerpool.WorkerPool
	var res freeResult
	problem := func(f string, a ...any) { res.Problems = append(res.Problems, fmt.Sprintf(f, a...)) }
	if fc.Via == "group" {
		grp := workerpool.NewGroup("c16freeg")
		if !within(freeBound, func() { wp = grp.CreatePool("c16free", goOpts(fc.Opts)...) }) {
			problem("Group.CreatePool did not return within %v", freeBound)
			return res
		}
	} else {
		wp = workerpool.New("c16free", goOpts(fc.Opts)...)
	}
	if wc := wp.WorkerCount(); wc != fc.Workers {
		problem("WorkerCount() = %d, options ask for %d", wc, fc.Workers)
	}
	var inc, dec atomic.Int64
	wp.PendingTasksCounter.Subscribe(func(o, n int) {
		if n > o {
			inc.Add(int64(n - o))
		} else {
			dec.Add(int64(o - n))
		}
	})
	maxTasks := fc.Submitters*fc.PerSub*4 + 8
	ranCnt := make([]atomic.Int32, maxTasks)
	accepted := make([]atomic.Int32, maxTasks) // 1 accepted, 2 rejected (panic option only)
	var nextID atomic.Int32
	var submit func(depth int, r *vx.Rng)
	var rmu sync.Mutex // protects forks of rng inside tasks
	submit = func(depth int, r *vx.Rng) {
		id := int(nextID.Add(1)) - 1
		if id >= maxTasks {
			return
		}
		nk := 0
		if depth < 2 && r.Chance(3, 10) {
			nk = 1 + r.Intn(2)
		}
		rmu.Lock()
		kr := r.Fork()
		rmu.Unlock()
		defer func() {
			if e := recover(); e != nil {
				accepted[id].Store(2)
			}
		}()
		wp.Submit(func() {
			for k := 0; k < nk; k++ {
				submit(depth+1, kr)
			}
			ranCnt[id].Add(1)
		})
		if fc.Panic {
			accepted[id].Store(1)
		}
	}
	monitors := func() {
		for _, m := range fc.Monitors {
			go waiterCall(wp, m) // thresholds out of reach: stay parked on the pool's condition variables for the whole run
		}
		if len(fc.Monitors) > 0 {
			settle(time.Second)
		}
	}
	if fc.MonEarly {
		monitors()
	}
	wp.Start()
	if !fc.MonEarly {
		settle(time.Second) // the dispatcher parks first
		monitors()
	}
	var wg sync.WaitGroup
	for g := 0; g < fc.Submitters; g++ {
		r := rng.Fork()
		wg.Add(1)
		go func() {
			defer wg.Done()
			for i := 0; i < fc.PerSub; i++ {
				submit(0, r)
				if r.Chance(1, 4) {
					runtime.Gosched()
				}
			}
		}()
	}
	cr := rng.Fork()
	wg.Add(1)
	go func() {
		defer wg.Done()
		for c := 0; c < fc.Cycles; c++ {
			for k := cr.Intn(40); k > 0; k-- {
				runtime.Gosched()
			}
			wp.Shutdown()
			if !fc.NoWait {
				wp.ShutdownComplete.Wait()
			}
			wp.Start()
		}
	}()
	if !within(freeBound, wg.Wait) {
		problem("submitters / Shutdown-Start cycles did not finish within %v (hang)", freeBound)
		return res
	}
	// every submitter has returned and the pool is running (the last call of a cycle is Start): all accepted tasks finish
	if !within(freeBound, wp.PendingTasksCounter.WaitIsZero) {
		problem("every submitter returned and the pool is running, but PendingTasksCounter = %d, Queue.Size() = %d after %v: an accepted task is not being run",
			wp.PendingTasksCounter.Get(), wp.Queue.Size(), freeBound)
		return res
	}
	wp.Shutdown()
	res.Complete = within(freeBound, wp.ShutdownComplete.Wait)
	if !res.Complete {
		problem("ShutdownComplete.Wait did not return within %v after Shutdown", freeBound)
		return res
	}
	res.Pending = wp.PendingTasksCounter.Get()
	total := 0
	n := int(nextID.Load())
	if n > maxTasks {
		n = maxTasks
	}
	for id := 0; id < n; id++ {
		total += int(ranCnt[id].Load())
	}
	settle(2 * time.Second)
	total2 := 0
	for id := 0; id < n; id++ {
		rc := int(ranCnt[id].Load())
		total2 += rc
		if rc > 1 {
			problem("task %d ran %d times", id, rc)
		}
		switch accepted[id].Load() {
		case 1:
			res.Accepted = append(res.Accepted, id)
			if rc == 1 {
				res.Ran = append(res.Ran, id)
			} else {
				res.Cancelled = append(res.Cancelled, id)
				if !fc.Cancel {
					problem("accepted task %d was never run (no cancel-on-shutdown)", id)
				}
			}
		case 2:
			if rc != 0 {
				problem("rejected task %d ran", id)
			}
		default:
			if fc.Panic && rc != 0 {
				res.Ran = append(res.Ran, id) // ran although Submit never returned normally: shows up as ran-not-accepted in Coq
			}
		}
	}
	if total2 != total {
		problem("%d task(s) ran after ShutdownComplete.Wait returned", total2-total)
	}
	if res.Pending != 0 {
		problem("PendingTasksCounter = %d after shutdown completed", res.Pending)
	}
	if inc.Load() != dec.Load() {
		problem("counter increases %d != decreases %d", inc.Load(), dec.Load())
	}
	if fc.Panic && int(inc.Load()) != len(res.Accepted) {
		problem("%d submits accepted, %d counter increases", len(res.Accepted), inc.Load())
	}
	if !fc.Panic {
		if c := int(dec.Load()) - total2; c < 0 || (c > 0 && !fc.Cancel) {
			problem("%d decreases for %d executed tasks (cancel=%v)", dec.Load(), total2, fc.Cancel)
		}
	}
	return res
}

func main() {
	var (
		nScripts = flag.Int("n", 200, "random scripts")
		nFree    = flag.Int("free", 60, "free-running runs")
		seed     = flag.Uint64("seed", 1, "seed")
		out      = flag.String("out", "cases.v", "cases file")
		stats    = flag.String("stats", "stats.json", "stats file")
		nDeb     = flag.Int("debounce", 40, "random DebounceFunc cases (besides the directed ones)")
		dbg      = flag.Bool("debug", false, "run everything in a child process with debug.SetEnabled(true)")
		dbgChild = flag.Bool("debugchild", false, "internal: this is the child of --debug")
		cur      = flag.String("cur", "", "internal: file that names the running case")
	)
	// subcommand: `group` = group.go aggregation harness (group.go in this directory); anything else = pool harness
	if len(os.Args) > 1 && os.Args[1] == "group" {
		groupMain(os.Args[2:])
		return
	}
	if len(os.Args) > 1 && os.Args[1] == "waiters" {
		waitersMain(os.Args[2:])
		return
	}
	args := flagArgs()
	flag.CommandLine.Parse(args)
	if *dbg {
		debugParent(args, *out, *stats)
		return
	}
	if *dbgChild {
		debugMode, curFile = true, *cur
		debug.SetEnabled(true)
	}
	installHooks()
	rng := vx.NewRng(*seed)
	st := vx.NewStats("a script is non-trivial if it accepts >= 2 tasks and contains a Shutdown before the clean-up; a free run if >= 1 task was submitted while a Shutdown/Start cycle ran; distinct = distinct (config, script) / (config, seed)")
	cf := &vx.CasesFile{
		Header: "From Coq Require Import List ZArith Bool.\nFrom Verif.C16_Pool Require Import Model Options Corr.\nImport ListNotations.\n",
		Type:   "case",
		Footer: "Definition M := Eval vm_compute in mismatches cases.\nPrint M.",
	}
	var scripts []*scriptCase
	scripts = append(scripts, directed()...)
	if debugMode {
		// the small end of the all-workers-busy family and the default worker count (the large counts run in the default mode)
		for _, sc := range allBusyFamily() {
			if sc.Workers <= 3 || strings.HasSuffix(sc.Name, "-default-workers") {
				scripts = append(scripts, sc)
			}
		}
	} else {
		scripts = append(scripts, allBusyFamily()...)
	}
	sr := rng.Fork()
	for i := 0; i < *nScripts; i++ {
		scripts = append(scripts, randomScript(sr, i))
	}
	failures := 0
	for _, sc := range scripts {
		if failures >= 5 {
			st.Count("script:skipped-after-5-failures")
			continue
		}
		noteCase("script", sc)
		res := runScript(sc)
		if len(res.Obs) == 0 { // the pool could not even be made
			failures++
			cf.Add("CFree false [] [] [] 1%Z false")
			st.CaseIndex = append(st.CaseIndex, sc)
			st.Fail(map[string]any{"kind": "script", "case": sc, "problems": res.Problems})
			continue
		}
		cf.Add(scriptCoq(sc, res))
		st.CaseIndex = append(st.CaseIndex, sc)
		hasSd := false
		for _, d := range sc.Script[:len(sc.Script)-len(cleanup)] {
			if d.K == "shutdown" {
				hasSd = true
			}
			st.Count("dir:" + d.K)
		}
		last := res.Obs[len(res.Obs)-1]
		st.Case(fmt.Sprintf("%v", *sc), hasSd && last.NAcc >= 2)
		st.Count("script:workers=" + workerClass(sc.Workers))
		st.Count(fmt.Sprintf("script:cancel=%v", sc.Cancel))
		st.Count("script:via=" + sc.Via)
		countOpts(st, "script", sc.Via, sc.Opts)
		if strings.HasPrefix(sc.Name, "allbusy") {
			st.Count("script:all-workers-busy-at-shutdown")
		}
		if last.NCanc > 0 {
			st.Count("script:with-cancelled-tasks")
		}
		if len(last.Rej) > 0 {
			st.Count("script:with-rejected-submits")
		}
		if strings.HasPrefix(sc.Name, "D16") {
			st.Count("script:directed")
		}
		st.Sample(map[string]any{"script": sc.Name, "final": last}, 3)
		if len(res.Problems) > 0 {
			failures++
			st.Fail(map[string]any{"kind": "script", "case": sc, "problems": res.Problems, "observations": res.Obs})
		}
	}
	fr := rng.Fork()
	for i := 0; i < *nFree; i++ {
		fc := &freeCase{Idx: i, Seed: fr.U64(), Workers: 1 + fr.Intn(4), Cancel: fr.Bool(), Panic: fr.Chance(4, 5), Submitters: 1 + fr.Intn(4),
			PerSub: 5 + fr.Intn(25), Cycles: fr.Intn(4), NoWait: fr.Chance(1, 2), Noise: fr.Chance(2, 3), Via: "new"}
		or := fr.Fork()
		if or.Chance(1, 5) {
			fc.Workers = vx.Pick(or, append(machineWorkerCounts(), 2*runtime.NumCPU()))
		}
		if or.Chance(2, 5) {
			fc.Via = "group"
		}
		fc.Opts = representOpts(or, fc.Via, fc.Workers, fc.Cancel, fc.Panic)
		if w, c, p := resolve(fc.Via, fc.Opts); w != fc.Workers || c != fc.Cancel || p != fc.Panic {
			vx.Die("representOpts: %v does not resolve to (%d,%v,%v)", fc.Opts, fc.Workers, fc.Cancel, fc.Panic)
		}
		if or.Chance(1, 2) {
			for k := 1 + or.Intn(2); k > 0; k-- {
				fc.Monitors = append(fc.Monitors, dirT{K: vx.Pick(or, []string{"qabove", "qabove", "cabove"}), N: 1 << 20})
			}
			fc.MonEarly = or.Bool()
		}
		st.Count(fmt.Sprintf("free:monitors=%d", len(fc.Monitors)))
		if failures >= 8 {
			st.Count("free:skipped-after-failures")
			continue
		}
		noteCase("free", fc)
		res := runFree(fc)
		st.CaseIndex = append(st.CaseIndex, fc)
		st.Case(fmt.Sprintf("%v", *fc), fc.Cycles > 0)
		st.Count("free:workers=" + workerClass(fc.Workers))
		st.Count("free:via=" + fc.Via)
		countOpts(st, "free", fc.Via, fc.Opts)
		st.Count(fmt.Sprintf("free:cycles=%d", fc.Cycles))
		if len(res.Cancelled) > 0 {
			st.Count("free:with-cancelled-tasks")
		}
		if fc.Panic || len(res.Problems) > 0 {
			cf.Add(fmt.Sprintf("CFreeO %d %s %s %s %s %s (%d)%%Z %s", runtime.NumCPU(), vx.Bool(fc.Via == "group"), optsCoq(fc.Opts),
				natList(res.Accepted), natList(res.Ran), natList(res.Cancelled), res.Pending, vx.Bool(res.Complete)))
		} else {
			cf.Add("CFree true [] [] [] 0%Z true") // identities unobservable without the panic option: judged by the Go oracle only
		}
		if len(res.Problems) > 0 {
			failures++
			st.Fail(map[string]any{"kind": "free", "case": fc, "problems": res.Problems})
		}
	}
	// DebounceFunc (Go-side oracle only; not part of the cases file)
	{
		dr := vx.NewRng(*seed ^ 0xdeb0) // own stream: the scripts / free runs of a seed stay what they were
		dcs := directedDebounce()
		for i := 0; i < *nDeb; i++ {
			dcs = append(dcs, genDebounce(dr, i))
		}
		bad := 0
		for _, dc := range dcs {
			if bad >= 3 {
				st.Count("debounce:skipped-after-failures")
				continue
			}
			noteCase("debounce", dc)
			problems, hang := runDebounce(dc)
			st.Case(fmt.Sprintf("debounce%v", *dc), len(dc.Bursts) > 0 && dc.Bursts[0] >= 2)
			st.Count("debounce:workers=" + fmt.Sprint(dc.Workers))
			for k, n := range dc.Bursts {
				if dc.Gated[k] && n >= 3 && dc.Workers >= 2 {
					st.Count("debounce:round-with-2-superseded-invocations-behind-an-executing-one")
				}
			}
			if dc.SdEarly {
				st.Count("debounce:shutdown-while-burst-pending")
			}
			if len(problems) > 0 {
				bad++
				if hang {
					bad = 3
				}
				st.Fail(map[string]any{"kind": "debounce", "mode": modeText(), "case": dc, "problems": problems})
			}
		}
	}
	if debugMode {
		// the mode is switched while tasks execute / are queued (both directions)
		for i, mc := range []*modeSwitchCase{
			{Workers: 1, Cancel: true, Via: "new", ToDebug: true, Backlog: 3, SdFirst: true},
			{Workers: 2, Cancel: false, Via: "group", ToDebug: true, Backlog: 2},
			{Workers: 2, Cancel: true, Via: "group", ToDebug: false, Backlog: 3, SdFirst: true},
			{Workers: 3, Cancel: false, Via: "new", ToDebug: false, Backlog: 1, SdFirst: true},
			{Workers: 1, Cancel: false, Via: "new", ToDebug: true, Backlog: 0},
		} {
			noteCase("modeswitch", mc)
			problems := runModeSwitch(mc)
			st.Case(fmt.Sprintf("modeswitch%d", i), true)
			st.Count("debug:mode-switched-while-tasks-execute")
			if len(problems) > 0 {
				st.Fail(map[string]any{"kind": "modeswitch", "case": mc, "problems": problems})
			}
		}
		st.Count("debug:runs-with-debug.SetEnabled(true)")
	}
	st.Extra["c16_exported_api_driven"] = apiDriven
	st.Extra["c16_worker_counts_sampled"] = map[string]any{
		"num_cpu": runtime.NumCPU(), "machine_derived": machineWorkerCounts(), "default_when_option_left_out": 2 * runtime.NumCPU(),
		"note": "the pool model and its theorems are parametric in the worker count n >= 1; the lockstep correspondence now also samples large n: every value of machine_derived and the default, each with all workers busy at Shutdown (family allbusy-*), besides 1..4",
	}
	st.Extra["c16_options_varied"] = "WithWorkerCount (left out / 1..4 / around and above NumCPU, 2*NumCPU, 4*NumCPU), WithCancelPendingTasksOnShutdown and WithPanicOnSubmitAfterShutdown (left out / true / false / repeated, last wins), constructor workerpool.New or Group.CreatePool; the model configuration is computed in Coq from the option list (Options.v)"
	if err := cf.Write(*out); err != nil {
		vx.Die("write cases: %v", err)
	}
	if err := st.Write(*stats); err != nil {
		vx.Die("write stats: %v", err)
	}
}

// worker counts of the input distribution, relative to the machine-derived constants
func workerClass(w int) string {
	n := runtime.NumCPU()
	switch {
	case w <= 4:
		return fmt.Sprint(w)
	case w < 2*n:
		return "5..2*NumCPU-1"
	case w == 2*n:
		return "2*NumCPU(default)"
	case w <= 4*n:
		return "2*NumCPU+1..4*NumCPU"
	}
	return ">4*NumCPU"
}

// which options a case sets explicitly / leaves to the default / repeats
func countOpts(st *vx.Stats, pre, via string, opts []optT) {
	seen := map[string]int{}
	for _, o := range opts {
		seen[o.K]++
		if o.K == "workers" {
			st.Count(pre + ":opt:workers=explicit")
		} else {
			st.Count(fmt.Sprintf("%s:opt:%s=%v", pre, o.K, o.B))
		}
	}
	for _, k := range []string{"workers", "cancel", "panic"} {
		if seen[k] == 0 {
			st.Count(pre + ":opt:" + k + "=omitted")
		} else if seen[k] > 1 {
			st.Count(pre + ":opt:" + k + "=repeated(last-wins)")
		}
	}
	if via == "group" {
		for i := len(opts) - 1; i >= 0; i-- {
			if opts[i].K == "cancel" {
				st.Count(fmt.Sprintf("%s:group-pool-explicit-cancel=%v", pre, opts[i].B))
				break
			}
		}
	}
}

func flagArgs() []string {
	a := append([]string{}, os.Args[1:]...)
	if len(a) > 0 && !strings.HasPrefix(a[0], "-") {
		a = a[1:]
	}
	return a
}
