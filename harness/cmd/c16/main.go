// C16 harness: runs runtime/workerpool (real code, build tag verif) on
//   - directed and random *scripts*: one goroutine per operation, released in script order; after every directive the
//     process is left to settle (all goroutines blocked, read from runtime.Stack) and the observable state is recorded;
//     gated tasks and the two verif yield points restrict the schedule. The Coq model runs the same script.
//   - *free-running* runs: concurrent submitters (with nested submits), Shutdown/Start cycles (with and without waiting
//     for ShutdownComplete in between), random delays at the yield points; judged by a Go-side conservation oracle and,
//     in Coq, by the predicate conserved_b.
package main

import (
	"flag"
	"fmt"
	"os"
	"regexp"
	"runtime"
	"sort"
	"strings"
	"sync"
	"sync/atomic"
	"time"

	"github.com/iotaledger/hive.go/runtime/syncutils"
	"github.com/iotaledger/hive.go/runtime/workerpool"

	"verif/harness/vx"
)

const (
	yieldSubmit = "workerpool.Submit:checked"
	yieldPop    = "stack.PopOrWait:beforeWait"
)

// ---------- gates ----------

type gate struct {
	mu     sync.Mutex
	closed bool
	ch     chan struct{}
}

func (g *gate) wait() {
	g.mu.Lock()
	if !g.closed {
		g.mu.Unlock()
		return
	}
	ch := g.ch
	g.mu.Unlock()
	<-ch
}

func (g *gate) set(closed bool) {
	g.mu.Lock()
	defer g.mu.Unlock()
	if closed && !g.closed {
		g.closed, g.ch = true, make(chan struct{})
	} else if !closed && g.closed {
		g.closed = false
		close(g.ch)
	}
}

// ---------- quiescence ----------

var hdrRe = regexp.MustCompile(`(?m)^goroutine \d+ \[([^\],]+)`)
var stackBuf = make([]byte, 4<<20)

// quiescent: every goroutine except the caller is blocked (channel, mutex, cond, waitgroup, select).
func quiescent() bool {
	n := runtime.Stack(stackBuf, true)
	running := 0
	for _, m := range hdrRe.FindAllSubmatch(stackBuf[:n], -1) {
		switch string(m[1]) {
		case "running":
			running++
		case "runnable", "syscall", "sleep", "preempted", "copystack":
			return false
		}
	}
	return running <= 1
}

func settle(timeout time.Duration) bool {
	deadline := time.Now().Add(timeout)
	ok := 0
	for {
		runtime.Gosched()
		if quiescent() {
			ok++
			if ok >= 2 {
				return true
			}
		} else {
			ok = 0
		}
		if time.Now().After(deadline) {
			return false
		}
	}
}

func within(d time.Duration, f func()) bool {
	done := make(chan struct{})
	go func() { f(); close(done) }()
	t := time.NewTimer(d)
	defer t.Stop()
	select {
	case <-done:
		return true
	case <-t.C:
		return false
	}
}

// ---------- hooks ----------

type hookCtl struct {
	holdSub, holdDisp gate
	noise             *atomic.Uint64 // != nil: random delays (free-running mode)
}

var curHooks atomic.Pointer[hookCtl]

func noiseDelay(n *atomic.Uint64) {
	x := n.Add(0x9E3779B97F4A7C15)
	x ^= x >> 31
	switch x % 8 {
	case 0, 1, 2:
		runtime.Gosched()
	case 3:
		for i := 0; i < 3; i++ {
			runtime.Gosched()
		}
	case 4:
		time.Sleep(time.Duration(x>>8%200) * time.Microsecond)
	}
}

func installHooks() {
	workerpool.VerifYield = func(p string) {
		if h := curHooks.Load(); h != nil && p == yieldSubmit {
			if h.noise != nil {
				noiseDelay(h.noise)
			}
			h.holdSub.wait()
		}
	}
	syncutils.VerifYield = func(p string) {
		if h := curHooks.Load(); h != nil && p == yieldPop {
			if h.noise != nil {
				noiseDelay(h.noise)
			}
			h.holdDisp.wait()
		}
	}
}

// ---------- scripts ----------

type dirT struct {
	K string `json:"k"` // submit shutdown start waitsd waitzero gate holdsub holddisp
	T int    `json:"t,omitempty"`
	B bool   `json:"b,omitempty"`
}

type scriptCase struct {
	Name    string  `json:"name"`
	Workers int     `json:"workers"`
	Cancel  bool    `json:"cancel"`
	Panic   bool    `json:"panic_opt"`
	Prog    [][]int `json:"prog"`
	Gated   []bool  `json:"gated"`
	Script  []dirT  `json:"script"`
}

type obsT struct {
	Running bool   `json:"running"`
	Pending int    `json:"pending"`
	Ran     []int  `json:"ran"`
	NAcc    int    `json:"nacc"`
	NCanc   int    `json:"ncanc"`
	Rej     []int  `json:"rej"`
	Done    []bool `json:"done"`
}

type runner struct {
	sc       *scriptCase
	wp       *workerpool.WorkerPool
	hooks    *hookCtl
	taskGate gate
	mu       sync.Mutex
	ran, rej []int
	acc      []int
	inc, dec atomic.Int64
	done     []*atomic.Bool
}

func (r *runner) submit(t int) {
	defer func() {
		if e := recover(); e != nil {
			r.mu.Lock()
			r.rej = append(r.rej, t)
			r.mu.Unlock()
		}
	}()
	r.wp.Submit(r.taskFn(t))
	if r.sc.Panic {
		r.mu.Lock()
		r.acc = append(r.acc, t)
		r.mu.Unlock()
	}
}

func (r *runner) taskFn(t int) func() {
	return func() {
		if t < len(r.sc.Gated) && r.sc.Gated[t] {
			r.taskGate.wait()
		}
		if t < len(r.sc.Prog) {
			for _, u := range r.sc.Prog[t] {
				r.submit(u)
			}
		}
		r.mu.Lock()
		r.ran = append(r.ran, t)
		r.mu.Unlock()
	}
}

func sorted(x []int) []int {
	y := append([]int{}, x...)
	sort.Ints(y)
	return y
}

func (r *runner) observe() obsT {
	r.mu.Lock()
	defer r.mu.Unlock()
	o := obsT{Running: r.wp.IsRunning(), Pending: r.wp.PendingTasksCounter.Get(), Ran: sorted(r.ran), Rej: sorted(r.rej),
		NAcc: int(r.inc.Load())}
	o.NCanc = int(r.dec.Load()) - len(r.ran)
	for _, d := range r.done {
		o.Done = append(o.Done, d.Load())
	}
	return o
}

// multiset difference a - b (sorted)
func msetDiff(a, b []int) (d []int, ok bool) {
	cnt := map[int]int{}
	for _, x := range a {
		cnt[x]++
	}
	ok = true
	for _, x := range b {
		cnt[x]--
		if cnt[x] < 0 {
			ok = false
		}
	}
	for x, c := range cnt {
		for i := 0; i < c; i++ {
			d = append(d, x)
		}
	}
	sort.Ints(d)
	return d, ok
}

type scriptResult struct {
	Obs       []obsT   `json:"obs"`
	FinalCanc []int    `json:"final_canc"`
	Problems  []string `json:"problems,omitempty"`
}

const settleTimeout = 8 * time.Second

func runScript(sc *scriptCase) scriptResult {
	r := &runner{sc: sc, hooks: &hookCtl{}}
	curHooks.Store(r.hooks)
	defer curHooks.Store(nil)
	r.wp = workerpool.New("c16", workerpool.WithWorkerCount(sc.Workers), workerpool.WithCancelPendingTasksOnShutdown(sc.Cancel),
		workerpool.WithPanicOnSubmitAfterShutdown(sc.Panic))
	r.wp.PendingTasksCounter.Subscribe(func(o, n int) {
		if n > o {
			r.inc.Add(int64(n - o))
		} else {
			r.dec.Add(int64(o - n))
		}
	})
	var res scriptResult
	problem := func(f string, a ...any) { res.Problems = append(res.Problems, fmt.Sprintf(f, a...)) }
	for i, d := range sc.Script {
		launch := func(f func()) {
			fl := &atomic.Bool{}
			r.done = append(r.done, fl)
			go func() { f(); fl.Store(true) }()
		}
		t := d.T
		switch d.K {
		case "submit":
			launch(func() { r.submit(t) })
		case "shutdown":
			launch(func() { r.wp.Shutdown() })
		case "start":
			launch(func() { r.wp.Start() })
		case "waitsd":
			launch(func() { r.wp.ShutdownComplete.Wait() })
		case "waitzero":
			launch(func() { r.wp.PendingTasksCounter.WaitIsZero() })
		case "gate":
			r.taskGate.set(d.B)
		case "holdsub":
			r.hooks.holdSub.set(d.B)
		case "holddisp":
			r.hooks.holdDisp.set(d.B)
		default:
			vx.Die("bad directive %q", d.K)
		}
		if !settle(settleTimeout) {
			problem("directive %d (%s): process did not settle within %v", i, d.K, settleTimeout)
		}
		res.Obs = append(res.Obs, r.observe())
	}
	// Go-side oracle on the final state (every script ends with: release all holds, Shutdown, ShutdownComplete.Wait)
	last := res.Obs[len(res.Obs)-1]
	for j, dn := range last.Done {
		if !dn {
			problem("operation %d never returned (hang)", j)
		}
	}
	if last.Pending != 0 {
		problem("PendingTasksCounter = %d after shutdown completed", last.Pending)
	}
	if r.inc.Load() != r.dec.Load() {
		problem("counter increases %d != decreases %d", r.inc.Load(), r.dec.Load())
	}
	if !sc.Cancel && last.NCanc != 0 {
		problem("%d task(s) cancelled without cancel-on-shutdown", last.NCanc)
	}
	r.mu.Lock()
	if sc.Panic {
		d, ok := msetDiff(r.acc, r.ran)
		if !ok {
			problem("a task ran more often than it was accepted: accepted=%v ran=%v", sorted(r.acc), sorted(r.ran))
		}
		res.FinalCanc = d
		if len(d) != last.NCanc {
			problem("accepted-but-not-run tasks %v but %d cancellations counted", d, last.NCanc)
		}
		if len(r.acc) != int(r.inc.Load()) {
			problem("%d submits accepted but %d counter increases", len(r.acc), r.inc.Load())
		}
	}
	nran := len(r.ran)
	r.mu.Unlock()
	// nothing runs after shutdown completed
	settle(time.Second)
	r.mu.Lock()
	if len(r.ran) != nran {
		problem("a task ran after ShutdownComplete.Wait returned")
	}
	r.mu.Unlock()
	if len(res.Problems) > 0 {
		// abandon the pool, make sure nothing stays held
		r.taskGate.set(false)
		r.hooks.holdSub.set(false)
		r.hooks.holdDisp.set(false)
	}
	return res
}

func dirCoq(d dirT) string {
	switch d.K {
	case "submit":
		return "XOp (OSubmit " + fmt.Sprint(d.T) + ")"
	case "shutdown":
		return "XOp OShutdown"
	case "start":
		return "XOp OStart"
	case "waitsd":
		return "XOp OWaitShutdown"
	case "waitzero":
		return "XOp OWaitZero"
	case "gate":
		return "XGate " + vx.Bool(d.B)
	case "holdsub":
		return "XHoldSub " + vx.Bool(d.B)
	case "holddisp":
		return "XHoldDisp " + vx.Bool(d.B)
	}
	panic("dirCoq")
}

func natList(x []int) string { return vx.ListOf(x, func(v int) string { return fmt.Sprint(v) }) }

func scriptCoq(sc *scriptCase, res scriptResult) string {
	prog := vx.ListOf(sc.Prog, natList)
	cfg := fmt.Sprintf("(repaired %d %s %s)", sc.Workers, vx.Bool(sc.Cancel), prog)
	obs := vx.ListOf(res.Obs, func(o obsT) string {
		return fmt.Sprintf("mkObs %s (%d)%%Z %s %d %d %s %s", vx.Bool(o.Running), o.Pending, natList(o.Ran), o.NAcc, o.NCanc, natList(o.Rej),
			vx.ListOf(o.Done, vx.Bool))
	})
	return fmt.Sprintf("CScript %s %s %s %s %s %s", cfg, vx.ListOf(sc.Gated, vx.Bool), vx.Bool(sc.Panic),
		vx.ListOf(sc.Script, dirCoq), obs, natList(res.FinalCanc))
}

var cleanup = []dirT{{K: "holdsub"}, {K: "holddisp"}, {K: "gate"}, {K: "shutdown"}, {K: "waitsd"}}

func sub(t int) dirT { return dirT{K: "submit", T: t} }

// directed regression scripts (every defect found: D16a, D16b, D16c; D16d needs a third yield point and is covered by
// the model-level witness only) - first in the cases file
func directed() []*scriptCase {
	var out []*scriptCase
	for _, w := range []int{1, 2} {
		out = append(out,
			&scriptCase{Name: "D16a-submit-parked-after-check", Workers: w, Panic: true, Prog: [][]int{{}, {}}, Gated: []bool{false, false},
				Script: []dirT{{K: "start"}, {K: "holdsub", B: true}, sub(0), {K: "shutdown"}, sub(1), {K: "waitsd"}, {K: "holdsub"}, {K: "waitzero"}}},
			&scriptCase{Name: "D16b-dispatcher-parked-before-wait", Workers: w, Panic: true, Prog: [][]int{{}, {}}, Gated: []bool{false, false},
				Script: []dirT{{K: "holddisp", B: true}, {K: "start"}, {K: "shutdown"}, sub(0), {K: "holddisp"}, {K: "waitsd"}}},
			&scriptCase{Name: "D16b-dispatcher-parked-with-push", Workers: w, Panic: true, Prog: [][]int{{}, {}}, Gated: []bool{false, false},
				Script: []dirT{{K: "start"}, {K: "holddisp", B: true}, sub(0), sub(1), {K: "shutdown"}, {K: "holddisp"}, {K: "waitsd"}}},
			&scriptCase{Name: "D16c-start-while-draining-nested", Workers: w, Panic: true, Prog: [][]int{{2, 3}, {3}, {}, {}}, Gated: []bool{true, true, false, false},
				Script: []dirT{{K: "start"}, {K: "gate", B: true}, sub(0), sub(1), sub(2), {K: "shutdown"}, {K: "start"}, sub(3), {K: "gate"}, sub(2), {K: "waitzero"}}},
			&scriptCase{Name: "D16c-start-while-draining-cancel", Workers: w, Cancel: true, Panic: true, Prog: [][]int{{2, 3}, {3}, {}, {}}, Gated: []bool{true, true, false, false},
				Script: []dirT{{K: "start"}, {K: "gate", B: true}, sub(0), sub(1), sub(2), sub(3), {K: "shutdown"}, {K: "start"}, {K: "start"}, {K: "gate"}, sub(2)}},
		)
	}
	for _, s := range out {
		s.Script = append(s.Script, cleanup...)
	}
	return out
}

func randomScript(rng *vx.Rng, idx int) *scriptCase {
	sc := &scriptCase{Name: fmt.Sprintf("rnd%d", idx), Workers: vx.Pick(rng, []int{1, 1, 2, 2, 3, 4}), Cancel: rng.Bool(), Panic: rng.Chance(4, 5)}
	const nt = 6
	sc.Prog = make([][]int, nt)
	sc.Gated = make([]bool, nt)
	// tasks 0..2 may have kids among 3..5 and may be gated; 3 may have the kid 5; 3..5 never gated
	for t := 0; t < 3; t++ {
		if rng.Chance(1, 2) {
			for k := rng.Intn(3); k >= 0; k-- {
				sc.Prog[t] = append(sc.Prog[t], 3+rng.Intn(3))
			}
		}
		sc.Gated[t] = rng.Chance(1, 2)
	}
	if rng.Chance(1, 3) {
		sc.Prog[3] = []int{5}
	}
	n := 5 + rng.Intn(10)
	running, gateClosed, hs, hd := false, false, false, false
	if rng.Chance(9, 10) {
		sc.Script = append(sc.Script, dirT{K: "start"})
		running = true
	}
	startPending := false // a Start may still be blocked (issued while workers could be alive)
	for len(sc.Script) < n {
		x := rng.Intn(100)
		// while the dispatcher is held at its yield point the outcome must not depend on how several pushes interleave
		// with it: only single leaf submits, no release of other holds
		if hd && x >= 78 && x < 94 {
			continue
		}
		switch {
		case x < 50:
			if hd {
				sc.Script = append(sc.Script, sub(4+rng.Intn(2)))
			} else {
				sc.Script = append(sc.Script, sub(rng.Intn(nt)))
			}
		case x < 60:
			sc.Script = append(sc.Script, dirT{K: "shutdown"})
			running = false
		case x < 68:
			sc.Script = append(sc.Script, dirT{K: "start"})
			if gateClosed || hs || hd {
				startPending = true
			}
			running = true
		case x < 73:
			// ShutdownComplete.Wait only when it returns promptly and no Start can be waiting on the same WaitGroup
			if !running && !gateClosed && !hs && !hd && !startPending {
				sc.Script = append(sc.Script, dirT{K: "waitsd"})
			}
		case x < 78:
			sc.Script = append(sc.Script, dirT{K: "waitzero"})
		case x < 88:
			if hs {
				continue // several parked submitters released while workers can block on the gate: order-dependent outcome
			}
			gateClosed = !gateClosed
			sc.Script = append(sc.Script, dirT{K: "gate", B: gateClosed})
			if !gateClosed && !hs && !hd {
				startPending = false
			}
		case x < 94:
			if !sc.Cancel && !gateClosed {
				hs = !hs
				sc.Script = append(sc.Script, dirT{K: "holdsub", B: hs})
				if !gateClosed && !hs && !hd {
					startPending = false
				}
			}
		default:
			if !sc.Cancel && (hd || (!hs && !gateClosed)) {
				hd = !hd
				sc.Script = append(sc.Script, dirT{K: "holddisp", B: hd})
				if !gateClosed && !hs && !hd {
					startPending = false
				}
			}
		}
	}
	sc.Script = append(sc.Script, cleanup...)
	return sc
}

// ---------- free-running ----------

type freeCase struct {
	Idx        int    `json:"idx"`
	Seed       uint64 `json:"seed"`
	Workers    int    `json:"workers"`
	Cancel     bool   `json:"cancel"`
	Panic      bool   `json:"panic_opt"`
	Submitters int    `json:"submitters"`
	PerSub     int    `json:"per_submitter"`
	Cycles     int    `json:"cycles"`
	NoWait     bool   `json:"restart_without_wait"`
	Noise      bool   `json:"hook_noise"`
}

type freeResult struct {
	Accepted, Ran, Cancelled []int
	Pending                  int
	Complete                 bool
	Problems                 []string
}

const freeBound = 10 * time.Second

func runFree(fc *freeCase) freeResult {
	rng := vx.NewRng(fc.Seed)
	h := &hookCtl{}
	if fc.Noise {
		h.noise = &atomic.Uint64{}
		h.noise.Store(fc.Seed)
	}
	curHooks.Store(h)
	defer curHooks.Store(nil)
	wp := workerpool.New("c16free", workerpool.WithWorkerCount(fc.Workers), workerpool.WithCancelPendingTasksOnShutdown(fc.Cancel),
		workerpool.WithPanicOnSubmitAfterShutdown(fc.Panic))
	var inc, dec atomic.Int64
	wp.PendingTasksCounter.Subscribe(func(o, n int) {
		if n > o {
			inc.Add(int64(n - o))
		} else {
			dec.Add(int64(o - n))
		}
	})
	maxTasks := fc.Submitters*fc.PerSub*4 + 8
	ranCnt := make([]atomic.Int32, maxTasks)
	accepted := make([]atomic.Int32, maxTasks) // 1 accepted, 2 rejected (panic option only)
	var nextID atomic.Int32
	var submit func(depth int, r *vx.Rng)
	var rmu sync.Mutex // protects forks of rng inside tasks
	submit = func(depth int, r *vx.Rng) {
		id := int(nextID.Add(1)) - 1
		if id >= maxTasks {
			return
		}
		nk := 0
		if depth < 2 && r.Chance(3, 10) {
			nk = 1 + r.Intn(2)
		}
		rmu.Lock()
		kr := r.Fork()
		rmu.Unlock()
		defer func() {
			if e := recover(); e != nil {
				accepted[id].Store(2)
			}
		}()
		wp.Submit(func() {
			for k := 0; k < nk; k++ {
				submit(depth+1, kr)
			}
			ranCnt[id].Add(1)
		})
		if fc.Panic {
			accepted[id].Store(1)
		}
	}
	var res freeResult
	problem := func(f string, a ...any) { res.Problems = append(res.Problems, fmt.Sprintf(f, a...)) }
	wp.Start()
	var wg sync.WaitGroup
	for g := 0; g < fc.Submitters; g++ {
		r := rng.Fork()
		wg.Add(1)
		go func() {
			defer wg.Done()
			for i := 0; i < fc.PerSub; i++ {
				submit(0, r)
				if r.Chance(1, 4) {
					runtime.Gosched()
				}
			}
		}()
	}
	cr := rng.Fork()
	wg.Add(1)
	go func() {
		defer wg.Done()
		for c := 0; c < fc.Cycles; c++ {
			for k := cr.Intn(40); k > 0; k-- {
				runtime.Gosched()
			}
			wp.Shutdown()
			if !fc.NoWait {
				wp.ShutdownComplete.Wait()
			}
			wp.Start()
		}
	}()
	if !within(freeBound, wg.Wait) {
		problem("submitters / Shutdown-Start cycles did not finish within %v (hang)", freeBound)
		return res
	}
	wp.Shutdown()
	res.Complete = within(freeBound, wp.ShutdownComplete.Wait)
	if !res.Complete {
		problem("ShutdownComplete.Wait did not return within %v after Shutdown", freeBound)
		return res
	}
	res.Pending = wp.PendingTasksCounter.Get()
	total := 0
	n := int(nextID.Load())
	if n > maxTasks {
		n = maxTasks
	}
	for id := 0; id < n; id++ {
		total += int(ranCnt[id].Load())
	}
	settle(2 * time.Second)
	total2 := 0
	for id := 0; id < n; id++ {
		rc := int(ranCnt[id].Load())
		total2 += rc
		if rc > 1 {
			problem("task %d ran %d times", id, rc)
		}
		switch accepted[id].Load() {
		case 1:
			res.Accepted = append(res.Accepted, id)
			if rc == 1 {
				res.Ran = append(res.Ran, id)
			} else {
				res.Cancelled = append(res.Cancelled, id)
				if !fc.Cancel {
					problem("accepted task %d was never run (no cancel-on-shutdown)", id)
				}
			}
		case 2:
			if rc != 0 {
				problem("rejected task %d ran", id)
			}
		default:
			if fc.Panic && rc != 0 {
				res.Ran = append(res.Ran, id) // ran although Submit never returned normally: shows up as ran-not-accepted in Coq
			}
		}
	}
	if total2 != total {
		problem("%d task(s) ran after ShutdownComplete.Wait returned", total2-total)
	}
	if res.Pending != 0 {
		problem("PendingTasksCounter = %d after shutdown completed", res.Pending)
	}
	if inc.Load() != dec.Load() {
		problem("counter increases %d != decreases %d", inc.Load(), dec.Load())
	}
	if fc.Panic && int(inc.Load()) != len(res.Accepted) {
		problem("%d submits accepted, %d counter increases", len(res.Accepted), inc.Load())
	}
	if !fc.Panic {
		if c := int(dec.Load()) - total2; c < 0 || (c > 0 && !fc.Cancel) {
			problem("%d decreases for %d executed tasks (cancel=%v)", dec.Load(), total2, fc.Cancel)
		}
	}
	return res
}

func main() {
	var (
		nScripts = flag.Int("n", 200, "random scripts")
		nFree    = flag.Int("free", 60, "free-running runs")
		seed     = flag.Uint64("seed", 1, "seed")
		out      = flag.String("out", "cases.v", "cases file")
		stats    = flag.String("stats", "stats.json", "stats file")
	)
	// subcommand: `group` = group.go aggregation harness (group.go in this directory); anything else = pool harness
	if len(os.Args) > 1 && os.Args[1] == "group" {
		groupMain(os.Args[2:])
		return
	}
	args := flagArgs()
	flag.CommandLine.Parse(args)
	installHooks()
	rng := vx.NewRng(*seed)
	st := vx.NewStats("a script is non-trivial if it accepts >= 2 tasks and contains a Shutdown before the clean-up; a free run if >= 1 task was submitted while a Shutdown/Start cycle ran; distinct = distinct (config, script) / (config, seed)")
	cf := &vx.CasesFile{
		Header: "From Coq Require Import List ZArith Bool.\nFrom Verif.C16_Pool Require Import Model Corr.\nImport ListNotations.\n",
		Type:   "case",
		Footer: "Definition M := Eval vm_compute in mismatches cases.\nPrint M.",
	}
	var scripts []*scriptCase
	scripts = append(scripts, directed()...)
	sr := rng.Fork()
	for i := 0; i < *nScripts; i++ {
		scripts = append(scripts, randomScript(sr, i))
	}
	failures := 0
	for _, sc := range scripts {
		if failures >= 5 {
			st.Count("script:skipped-after-5-failures")
			continue
		}
		res := runScript(sc)
		cf.Add(scriptCoq(sc, res))
		st.CaseIndex = append(st.CaseIndex, sc)
		hasSd := false
		for _, d := range sc.Script[:len(sc.Script)-len(cleanup)] {
			if d.K == "shutdown" {
				hasSd = true
			}
			st.Count("dir:" + d.K)
		}
		last := res.Obs[len(res.Obs)-1]
		st.Case(fmt.Sprintf("%v", *sc), hasSd && last.NAcc >= 2)
		st.Count(fmt.Sprintf("script:workers=%d", sc.Workers))
		st.Count(fmt.Sprintf("script:cancel=%v", sc.Cancel))
		if last.NCanc > 0 {
			st.Count("script:with-cancelled-tasks")
		}
		if len(last.Rej) > 0 {
			st.Count("script:with-rejected-submits")
		}
		if strings.HasPrefix(sc.Name, "D16") {
			st.Count("script:directed")
		}
		st.Sample(map[string]any{"script": sc.Name, "final": last}, 3)
		if len(res.Problems) > 0 {
			failures++
			st.Fail(map[string]any{"kind": "script", "case": sc, "problems": res.Problems, "observations": res.Obs})
		}
	}
	fr := rng.Fork()
	for i := 0; i < *nFree; i++ {
		fc := &freeCase{Idx: i, Seed: fr.U64(), Workers: 1 + fr.Intn(4), Cancel: fr.Bool(), Panic: fr.Chance(4, 5), Submitters: 1 + fr.Intn(4),
			PerSub: 5 + fr.Intn(25), Cycles: fr.Intn(4), NoWait: fr.Chance(1, 2), Noise: fr.Chance(2, 3)}
		if failures >= 8 {
			st.Count("free:skipped-after-failures")
			continue
		}
		res := runFree(fc)
		st.CaseIndex = append(st.CaseIndex, fc)
		st.Case(fmt.Sprintf("%v", *fc), fc.Cycles > 0)
		st.Count(fmt.Sprintf("free:workers=%d", fc.Workers))
		st.Count(fmt.Sprintf("free:cycles=%d", fc.Cycles))
		if len(res.Cancelled) > 0 {
			st.Count("free:with-cancelled-tasks")
		}
		if fc.Panic || len(res.Problems) > 0 {
			cf.Add(fmt.Sprintf("CFree %s %s %s %s (%d)%%Z %s", vx.Bool(fc.Cancel), natList(res.Accepted), natList(res.Ran), natList(res.Cancelled),
				res.Pending, vx.Bool(res.Complete)))
		} else {
			cf.Add("CFree true [] [] [] 0%Z true") // identities unobservable without the panic option: judged by the Go oracle only
		}
		if len(res.Problems) > 0 {
			failures++
			st.Fail(map[string]any{"kind": "free", "case": fc, "problems": res.Problems})
		}
	}
	if err := cf.Write(*out); err != nil {
		vx.Die("write cases: %v", err)
	}
	if err := st.Write(*stats); err != nil {
		vx.Die("write stats: %v", err)
	}
}

func flagArgs() []string {
	a := append([]string{}, os.Args[1:]...)
	if len(a) > 0 && !strings.HasPrefix(a[0], "-") {
		a = a[1:]
	}
	return a
}
