// C16 group harness (sub-command `group`): runs runtime/workerpool/group.go (real code) on
//   - sequential *histories* of NewGroup / CreateGroup / CreatePool (including the replacement of a shut-down pool under
//     its name) and pool-counter changes (PendingTasksCounter.Update/Set directly, and real Submit / task completion);
//     after every operation it records every counter and, for every group, whether WaitChildren() / WaitParents()
//     calls have returned (real calls in goroutines, judged after the process settled). The Coq model (Group.v) replays
//     the history; a Go-side oracle that walks the harness's own tree judges the property independently.
//   - free-running concurrent runs over a group tree (tasks submitting to other pools), judged at the end.
package main

import (
	"flag"
	"fmt"
	"runtime"
	"sync"
	"sync/atomic"

	"github.com/iotaledger/hive.go/runtime/workerpool"

	"verif/harness/vx"
)

type gopT struct {
	K string `json:"k"` // newgroup creategroup createpool replacepool update set submit finish shutdownpool
	I int    `json:"i"` // target node (creation index)
	V int    `json:"v,omitempty"`
	O []optT `json:"opts,omitempty"` // createpool: the caller's options, in order (see main.go optT)
	T bool   `json:"task_pool,omitempty"`
}

// what a Shutdown of a group-created pool with a backlog did (op shutdownpool): judged in Go by conservation with the
// cancel flag the CALLER asked for, and in Coq against the option resolution + the pool model
type gshutT struct {
	Node      int    `json:"node"`
	Opts      []optT `json:"opts"`
	Gated     int    `json:"gated_at_shutdown"`
	RanBefore int    `json:"ran_before"`
	Accepted  []int  `json:"accepted"`
	Ran       []int  `json:"ran"`
	Cancelled []int  `json:"cancelled"`
	Pending   int    `json:"pending"`
}

type gnode struct {
	isPool   bool
	parent   int // -1: none
	pool     *workerpool.WorkerPool
	group    *workerpool.Group
	name     string
	gates    []chan struct{} // gated tasks of the pool that have not been released (FIFO)
	replaced bool
	opts     []optT
	nsub     int // tasks submitted (ids 0..nsub-1)
	mu       sync.Mutex
	ran      []int
}

type gobsT struct {
	Vals []int  `json:"vals"`
	WC   []bool `json:"wait_children_returned"`
	WP   []bool `json:"wait_parents_returned"`
}

type probe struct{ done atomic.Bool }

type grunner struct {
	nodes  []*gnode
	wc, wp map[int]*probe // outstanding (blocked) probe per group
}

func (r *grunner) val(i int) int {
	n := r.nodes[i]
	if n.isPool {
		return n.pool.PendingTasksCounter.Get()
	}
	return n.group.PendingChildrenCounter.Get()
}

// all pools of the subtree of g idle? (harness's own bookkeeping: independent of the group's counters)
func (r *grunner) poolsIdleBelow(g int) bool {
	for i, n := range r.nodes {
		if n.parent != g {
			continue
		}
		if n.isPool {
			if r.val(i) != 0 {
				return false
			}
		} else if !r.poolsIdleBelow(i) {
			return false
		}
	}
	return true
}

func (r *grunner) top(g int) int {
	for r.nodes[g].parent >= 0 {
		g = r.nodes[g].parent
	}
	return g
}

func (r *grunner) observe() (gobsT, bool) {
	// the operation itself may be asynchronous (a released task decrements the counter on a worker): settle first, so
	// that fresh probes see the counters after the operation
	if !settle(settleTimeout) {
		return gobsT{}, false
	}
	for i, n := range r.nodes {
		if n.isPool {
			continue
		}
		if p := r.wc[i]; p == nil || p.done.Load() {
			np, g := &probe{}, n.group
			r.wc[i] = np
			go func() { g.WaitChildren(); np.done.Store(true) }()
		}
		if p := r.wp[i]; p == nil || p.done.Load() {
			np, g := &probe{}, n.group
			r.wp[i] = np
			go func() { g.WaitParents(); np.done.Store(true) }()
		}
	}
	ok := settle(settleTimeout)
	var o gobsT
	for i, n := range r.nodes {
		o.Vals = append(o.Vals, r.val(i))
		if !n.isPool {
			o.WC = append(o.WC, r.wc[i].done.Load())
			o.WP = append(o.WP, r.wp[i].done.Load())
		}
	}
	return o, ok
}

func runGroupHist(ops []gopT) (obs []gobsT, shuts []gshutT, problems []string) {
	r := &grunner{wc: map[int]*probe{}, wp: map[int]*probe{}}
	problem := func(f string, a ...any) { problems = append(problems, fmt.Sprintf(f, a...)) }
	for k, o := range ops {
		switch o.K {
		case "newgroup":
			r.nodes = append(r.nodes, &gnode{parent: -1, group: workerpool.NewGroup(fmt.Sprintf("g%d", len(r.nodes)))})
		case "newpool":
			p := workerpool.New(fmt.Sprintf("p%d", len(r.nodes)), workerpool.WithWorkerCount(1)).Start()
			r.nodes = append(r.nodes, &gnode{isPool: true, parent: -1, pool: p})
		case "creategroup":
			name := fmt.Sprintf("g%d", len(r.nodes))
			r.nodes = append(r.nodes, &gnode{parent: o.I, group: r.nodes[o.I].group.CreateGroup(name), name: name})
		case "createpool":
			name := fmt.Sprintf("p%d", len(r.nodes))
			p := r.nodes[o.I].group.CreatePool(name, goOpts(o.O)...)
			r.nodes = append(r.nodes, &gnode{isPool: true, parent: o.I, pool: p, name: name, opts: o.O})
		case "replacepool":
			// o.I: an existing pool of a group; it is shut down and a new pool is created under the same name. The old
			// pool stays subscribed (the model keeps it in the forest); the new one is a new node.
			old := r.nodes[o.I]
			old.pool.Shutdown()
			old.replaced = true
			p := r.nodes[old.parent].group.CreatePool(old.name, workerpool.WithWorkerCount(1))
			r.nodes = append(r.nodes, &gnode{isPool: true, parent: old.parent, pool: p, name: old.name})
		case "update":
			r.nodes[o.I].pool.PendingTasksCounter.Update(o.V)
		case "set":
			r.nodes[o.I].pool.PendingTasksCounter.Set(o.V)
		case "submit":
			n := r.nodes[o.I]
			ch := make(chan struct{})
			n.gates = append(n.gates, ch)
			id := n.nsub
			n.nsub++
			n.pool.Submit(func() {
				<-ch
				n.mu.Lock()
				n.ran = append(n.ran, id)
				n.mu.Unlock()
			})
		case "finish":
			n := r.nodes[o.I]
			close(n.gates[0])
			n.gates = n.gates[1:]
		case "shutdownpool":
			// a pool made by CreatePool whose counter was only moved by real tasks: Shutdown while gated tasks are executing
			// (at most one per worker) and the rest of the accepted tasks is queued, then the gates open
			n := r.nodes[o.I]
			_, effCancel, _ := resolve("group", n.opts)
			sh := gshutT{Node: o.I, Opts: n.opts, Gated: len(n.gates)}
			n.mu.Lock()
			sh.RanBefore = len(n.ran)
			n.mu.Unlock()
			if !within(freeBound, func() { n.pool.Shutdown() }) {
				problem("op %d: Shutdown of pool %d did not return within %v", k, o.I, freeBound)
			}
			for _, ch := range n.gates {
				close(ch)
			}
			n.gates = nil
			n.replaced = true
			if !within(freeBound, n.pool.ShutdownComplete.Wait) {
				problem("op %d: pool %d: ShutdownComplete.Wait did not return within %v after Shutdown", k, o.I, freeBound)
			}
			settle(settleTimeout)
			n.mu.Lock()
			sh.Ran = sorted(n.ran)
			n.mu.Unlock()
			seen := map[int]int{}
			for _, id := range sh.Ran {
				seen[id]++
			}
			for id := 0; id < n.nsub; id++ {
				sh.Accepted = append(sh.Accepted, id)
				switch {
				case seen[id] > 1:
					problem("op %d: pool %d: task %d ran %d times", k, o.I, id, seen[id])
				case seen[id] == 0:
					sh.Cancelled = append(sh.Cancelled, id)
					if !effCancel {
						problem("op %d: pool %d made by CreatePool with options %v (cancel-on-shutdown disabled by the caller): accepted task %d was never run", k, o.I, n.opts, id)
					}
				}
			}
			sh.Pending = n.pool.PendingTasksCounter.Get()
			if sh.Pending != 0 {
				problem("op %d: pool %d: PendingTasksCounter = %d after its shutdown completed", k, o.I, sh.Pending)
			}
			shuts = append(shuts, sh)
		default:
			vx.Die("bad group op %q", o.K)
		}
		ob, settled := r.observe()
		if !settled {
			problem("op %d (%s): process did not settle", k, o.K)
		}
		obs = append(obs, ob)
		// Go-side oracle
		gi := 0
		for i, n := range r.nodes {
			if n.isPool {
				continue
			}
			nz := 0
			for j, c := range r.nodes {
				if c.parent == i && ob.Vals[j] != 0 {
					nz++
				}
			}
			if ob.Vals[i] != nz {
				problem("op %d: group %d counter %d but %d children with non-zero counter", k, i, ob.Vals[i], nz)
			}
			idle := r.poolsIdleBelow(i)
			if (ob.Vals[i] == 0) != idle {
				problem("op %d: group %d counter %d but pools-idle-below=%v", k, i, ob.Vals[i], idle)
			}
			if ob.WC[gi] != idle {
				problem("op %d: group %d WaitChildren returned=%v but pools-idle-below=%v", k, i, ob.WC[gi], idle)
			}
			if tidle := r.poolsIdleBelow(r.top(i)); ob.WP[gi] != tidle {
				problem("op %d: group %d WaitParents returned=%v but whole tree idle=%v", k, i, ob.WP[gi], tidle)
			}
			gi++
		}
	}
	// clean-up (not part of the history): everything idle, shut the trees down under a watchdog
	for _, n := range r.nodes {
		for _, ch := range n.gates {
			close(ch)
		}
		n.gates = nil
	}
	settle(settleTimeout)
	for _, n := range r.nodes {
		if n.isPool {
			n.pool.PendingTasksCounter.Set(0)
		}
	}
	for i, n := range r.nodes {
		n := n
		if !n.isPool && n.parent < 0 {
			if !within(freeBound, func() { n.group.Shutdown() }) {
				problem("Group.Shutdown of root %d did not return with all pools idle", i)
			}
		}
	}
	for i, n := range r.nodes {
		n := n
		if n.isPool {
			if n.parent < 0 {
				n.pool.Shutdown()
			}
			if !within(freeBound, n.pool.ShutdownComplete.Wait) {
				problem("pool %d: ShutdownComplete.Wait did not return after Group.Shutdown", i)
			}
		}
	}
	settle(settleTimeout)
	for i, n := range r.nodes {
		if !n.isPool && !(r.wc[i].done.Load() && r.wp[i].done.Load()) {
			problem("group %d: a WaitChildren/WaitParents call never returned although everything is idle", i)
		}
	}
	return obs, shuts, problems
}

func gopCoq(o gopT) string {
	switch o.K {
	case "newgroup":
		return "GNewGroup"
	case "newpool":
		return "GNewPool"
	case "creategroup":
		return fmt.Sprintf("GCreateGroup %d", o.I)
	case "createpool":
		return fmt.Sprintf("GCreatePool %d", o.I)
	case "update":
		return fmt.Sprintf("GUpdate %d (%d)%%Z", o.I, o.V)
	case "set":
		return fmt.Sprintf("GSet %d (%d)%%Z", o.I, o.V)
	case "submit":
		return fmt.Sprintf("GUpdate %d 1%%Z", o.I)
	case "finish":
		return fmt.Sprintf("GUpdate %d (-1)%%Z", o.I)
	case "shutdownpool": // every accepted task of the pool finishes (run or cancelled): its counter returns to zero
		return fmt.Sprintf("GSet %d 0%%Z", o.I)
	}
	panic("gopCoq " + o.K)
}

// replacepool i = (Shutdown of pool i, which changes no counter) + CreatePool under the parent of i
func histCoq(ops []gopT, parents map[int]int, obs []gobsT) string {
	zl := func(x []int) string { return vx.ListOf(x, func(v int) string { return fmt.Sprintf("(%d)%%Z", v) }) }
	return fmt.Sprintf("GHist %s %s",
		vx.ListOf(ops, func(o gopT) string {
			if o.K == "replacepool" {
				return fmt.Sprintf("GCreatePool %d", parents[o.I])
			}
			return gopCoq(o)
		}),
		vx.ListOf(obs, func(o gobsT) string {
			return fmt.Sprintf("mkGObs %s %s %s", zl(o.Vals), vx.ListOf(o.WC, vx.Bool), vx.ListOf(o.WP, vx.Bool))
		}))
}

// generator state mirrors only the shape (kinds, parents, number of unreleased gated tasks)
type gshape struct {
	isPool   []bool
	parent   []int
	gated    []int
	replaced []bool
	taskPool []bool // counter moved by real tasks only (submit / finish / shutdownpool)
}

func (s *gshape) add(pool bool, parent int) {
	s.isPool = append(s.isPool, pool)
	s.parent = append(s.parent, parent)
	s.gated = append(s.gated, 0)
	s.replaced = append(s.replaced, false)
	s.taskPool = append(s.taskPool, false)
}

// the caller's options of a CreatePool: each option of the package left out / set to each value / repeated with the
// last occurrence deciding; worker counts 1..3 and, rarely, the default (option left out) or above it
func randomPoolOpts(rng *vx.Rng) []optT {
	w := 1 + rng.Intn(3)
	switch rng.Intn(16) {
	case 0:
		w = 2 * runtime.NumCPU() // may be left out by representOpts
	case 1:
		w = 2*runtime.NumCPU() + 1
	}
	cancel := rng.Chance(1, 2)
	return representOpts(rng, "group", w, cancel, rng.Chance(1, 3))
}

func (s *gshape) pick(rng *vx.Rng, pool bool) int {
	var c []int
	for i, p := range s.isPool {
		if p == pool {
			c = append(c, i)
		}
	}
	if len(c) == 0 {
		return -1
	}
	return vx.Pick(rng, c)
}

func (s *gshape) apply(o gopT) {
	switch o.K {
	case "newgroup":
		s.add(false, -1)
	case "newpool":
		s.add(true, -1)
	case "creategroup":
		s.add(false, o.I)
	case "createpool":
		s.add(true, o.I)
		s.taskPool[len(s.taskPool)-1] = o.T
	case "shutdownpool":
		s.replaced[o.I] = true
		s.gated[o.I] = 0
	case "replacepool":
		s.replaced[o.I] = true
		s.add(true, s.parent[o.I])
	case "submit":
		s.gated[o.I]++
	case "finish":
		s.gated[o.I]--
	}
}

func directedGroup() [][]gopT {
	hs := directedGroupRaw()
	for _, h := range hs {
		for i := range h {
			if h[i].K == "createpool" && h[i].O == nil {
				h[i].O = []optT{{K: "workers", N: 1 + h[i].V%2}}
			}
		}
	}
	return hs
}

// Shutdown of a group-created pool with a backlog, for each way the caller can state cancel-on-shutdown (round 2)
func directedShutdownPool() [][]gopT {
	var out [][]gopT
	for _, o := range [][]optT{
		{{K: "workers", N: 1}, {K: "cancel", B: false}},
		{{K: "cancel", B: false}, {K: "workers", N: 2}},
		{{K: "workers", N: 1}, {K: "cancel", B: true}},
		{{K: "workers", N: 2}},
		{{K: "cancel", B: true}, {K: "workers", N: 1}, {K: "cancel", B: false}, {K: "panic", B: true}},
		{{K: "cancel", B: false}, {K: "workers", N: 3}, {K: "cancel", B: true}},
		{{K: "cancel", B: false}}, // default worker count
		{{K: "workers", N: 2*runtime.NumCPU() + 1}, {K: "cancel", B: false}},
	} {
		h := []gopT{{K: "newgroup"}, {K: "creategroup", I: 0}, {K: "createpool", I: 1, O: o, T: true}, {K: "createpool", I: 0, O: []optT{{K: "workers", N: 1}}}}
		w, _, _ := resolve("group", o)
		for i := 0; i < w+3; i++ {
			h = append(h, gopT{K: "submit", I: 2})
		}
		h = append(h, gopT{K: "submit", I: 3}, gopT{K: "finish", I: 2}, gopT{K: "shutdownpool", I: 2}, gopT{K: "finish", I: 3})
		out = append(out, h)
	}
	return out
}

func directedGroupRaw() [][]gopT {
	return [][]gopT{
		// nested groups: a pool two levels down drives both counters; a sibling keeps the parent non-zero
		{{K: "newgroup"}, {K: "creategroup", I: 0}, {K: "createpool", I: 1}, {K: "createpool", I: 0}, {K: "submit", I: 2}, {K: "submit", I: 2},
			{K: "submit", I: 3}, {K: "finish", I: 2}, {K: "finish", I: 3}, {K: "finish", I: 2}},
		// a replaced (shut down) pool keeps feeding the group counter
		{{K: "newgroup"}, {K: "createpool", I: 0}, {K: "replacepool", I: 1}, {K: "update", I: 1, V: 1}, {K: "update", I: 2, V: 1},
			{K: "update", I: 2, V: -1}, {K: "update", I: 1, V: -1}},
		// Set jumps, negative values, 3 levels, WaitParents of the deepest group
		{{K: "newgroup"}, {K: "creategroup", I: 0}, {K: "creategroup", I: 1}, {K: "createpool", I: 2}, {K: "createpool", I: 0}, {K: "set", I: 3, V: 5},
			{K: "set", I: 3, V: 2}, {K: "update", I: 4, V: -1}, {K: "set", I: 3, V: 0}, {K: "update", I: 4, V: 1}, {K: "set", I: 3, V: 0}},
		// two independent roots and a free pool
		{{K: "newgroup"}, {K: "newgroup"}, {K: "newpool"}, {K: "createpool", I: 0}, {K: "createpool", I: 1}, {K: "update", I: 2, V: 1},
			{K: "submit", I: 3}, {K: "submit", I: 4}, {K: "finish", I: 3}, {K: "update", I: 2, V: -1}, {K: "finish", I: 4}},
	}
}

func randomGroupHist(rng *vx.Rng) []gopT {
	s := &gshape{}
	var ops []gopT
	emit := func(o gopT) { ops = append(ops, o); s.apply(o) }
	emit(gopT{K: "newgroup"})
	n := 8 + rng.Intn(28)
	maxNodes := 4 + rng.Intn(5)
	for len(ops) < n {
		x := rng.Intn(100)
		switch {
		case x < 4 && len(s.isPool) < maxNodes:
			emit(gopT{K: "newgroup"})
		case x < 6 && len(s.isPool) < maxNodes:
			emit(gopT{K: "newpool"})
		case x < 16 && len(s.isPool) < maxNodes:
			emit(gopT{K: "creategroup", I: s.pick(rng, false)})
		case x < 32 && len(s.isPool) < maxNodes:
			emit(gopT{K: "createpool", I: s.pick(rng, false), O: randomPoolOpts(rng), T: rng.Chance(1, 2)})
		case x < 35 && len(s.isPool) < maxNodes:
			if p := s.pick(rng, true); p >= 0 && s.parent[p] >= 0 && !s.replaced[p] && s.gated[p] == 0 {
				emit(gopT{K: "replacepool", I: p})
			}
		default:
			p := s.pick(rng, true)
			if p < 0 {
				emit(gopT{K: "createpool", I: s.pick(rng, false), O: randomPoolOpts(rng), T: rng.Chance(1, 2)})
				continue
			}
			if s.taskPool[p] && !s.replaced[p] { // (after its shutdown a task pool is only a counter, like a replaced pool)
				switch y := rng.Intn(10); {
				case y < 6:
					emit(gopT{K: "submit", I: p})
				case y < 8:
					if s.gated[p] > 0 {
						emit(gopT{K: "finish", I: p})
					}
				default:
					if s.gated[p] > 0 {
						emit(gopT{K: "shutdownpool", I: p})
					}
				}
				continue
			}
			switch y := rng.Intn(10); {
			case y < 3:
				emit(gopT{K: "update", I: p, V: 1})
			case y < 6:
				emit(gopT{K: "update", I: p, V: -1})
			case y < 7:
				emit(gopT{K: "update", I: p, V: vx.Pick(rng, []int{-2, 2, 0, 3})})
			case y < 8:
				emit(gopT{K: "set", I: p, V: vx.Pick(rng, []int{0, 0, 1, 2, -1})})
			case y < 9:
				if !s.replaced[p] {
					emit(gopT{K: "submit", I: p})
				}
			default:
				if s.gated[p] > 0 {
					emit(gopT{K: "finish", I: p})
				}
			}
		}
	}
	return ops
}

// ---------- free-running ----------

type gfreeCase struct {
	Idx        int    `json:"idx"`
	Seed       uint64 `json:"seed"`
	Depth      int    `json:"depth"`
	Pools      int    `json:"pools"`
	Submitters int    `json:"submitters"`
	PerSub     int    `json:"per_submitter"`
}

func runGroupFree(fc *gfreeCase) (vals []int, returned bool, problems []string) {
	rng := vx.NewRng(fc.Seed)
	problem := func(f string, a ...any) { problems = append(problems, fmt.Sprintf(f, a...)) }
	root := workerpool.NewGroup("root")
	groups := []*workerpool.Group{root}
	for d := 1; d < fc.Depth; d++ {
		groups = append(groups, vx.Pick(rng, groups).CreateGroup(fmt.Sprintf("g%d", d)))
	}
	var pools []*workerpool.WorkerPool
	var owner []*workerpool.Group
	for p := 0; p < fc.Pools; p++ {
		g := vx.Pick(rng, groups)
		pools = append(pools, g.CreatePool(fmt.Sprintf("p%d", p), goOpts(randomPoolOpts(rng.Fork()))...))
		owner = append(owner, g)
	}
	var ran, submitted atomic.Int64
	// monitor: whenever WaitChildren of a group returns while no submitter is active in its subtree... (not decidable from
	// outside without stopping the world): the monitor only checks that the calls return at all
	var wg sync.WaitGroup
	for s := 0; s < fc.Submitters; s++ {
		r := rng.Fork()
		wg.Add(1)
		go func() {
			defer wg.Done()
			for i := 0; i < fc.PerSub; i++ {
				p := r.Intn(len(pools))
				q := r.Intn(len(pools))
				nested := r.Chance(1, 3)
				submitted.Add(1)
				pools[p].Submit(func() {
					if nested {
						submitted.Add(1)
						pools[q].Submit(func() { ran.Add(1) })
					}
					ran.Add(1)
				})
				if r.Chance(1, 5) {
					owner[p].WaitChildren()
				}
			}
		}()
	}
	if !within(freeBound, wg.Wait) {
		problem("submitters did not finish (a WaitChildren call hangs)")
		return nil, false, problems
	}
	returned = within(freeBound, func() {
		root.WaitChildren()
		for _, g := range groups {
			g.WaitParents()
		}
	})
	if !returned {
		problem("root.WaitChildren / WaitParents did not return after all submitters finished")
		return nil, false, problems
	}
	// after root.WaitChildren returned with no submitter left, nothing may be pending or still run
	if ran.Load() != submitted.Load() {
		problem("root.WaitChildren returned but only %d of %d tasks have run", ran.Load(), submitted.Load())
	}
	for _, p := range pools {
		vals = append(vals, p.PendingTasksCounter.Get())
	}
	for _, g := range groups {
		vals = append(vals, g.PendingChildrenCounter.Get())
	}
	for _, v := range vals {
		if v != 0 {
			problem("counters after root.WaitChildren returned: %v", vals)
			break
		}
	}
	if !within(freeBound, func() { root.Shutdown() }) {
		problem("root.Shutdown did not return")
	}
	for _, p := range pools {
		if !within(freeBound, p.ShutdownComplete.Wait) {
			problem("a pool did not complete its shutdown after Group.Shutdown")
		}
	}
	return vals, returned, problems
}

func groupMain(args []string) {
	fs := flag.NewFlagSet("group", flag.ExitOnError)
	var (
		nHist = fs.Int("n", 150, "random histories")
		nFree = fs.Int("free", 20, "free-running runs")
		nWatch = fs.Int("watch", 10, "observer scenarios over deep group chains (watch.go)")
		nRounds = fs.Int("watchrounds", 80, "gated rounds per observer scenario")
		seed  = fs.Uint64("seed", 1, "seed")
		out   = fs.String("out", "gcases.v", "cases file")
		stats = fs.String("stats", "gstats.json", "stats file")
	)
	fs.Parse(args)
	rng := vx.NewRng(*seed ^ 0x6a09e667)
	st := vx.NewStats("a group history is non-trivial if it has a nested group or >= 2 pools and some counter leaves and re-enters zero; a free run always; distinct = distinct histories / (config, seed)")
	cf := &vx.CasesFile{
		Header: "From Coq Require Import List ZArith Bool.\nFrom Verif.C16_Pool Require Import Model Options Group GroupCorr.\nImport ListNotations.\n",
		Type:   "gcase",
		Footer: "Definition M := Eval vm_compute in mismatches cases.\nPrint M.",
	}
	hists := append(directedGroup(), directedShutdownPool()...)
	nDirected := len(hists)
	hr := rng.Fork()
	for i := 0; i < *nHist; i++ {
		hists = append(hists, randomGroupHist(hr))
	}
	failures := 0
	for hi, ops := range hists {
		if failures >= 5 {
			st.Count("ghist:skipped-after-5-failures")
			continue
		}
		obs, shuts, problems := runGroupHist(ops)
		sh := &gshape{}
		parents := map[int]int{}
		nested, reenter := false, false
		for _, o := range ops {
			if o.K == "replacepool" {
				parents[o.I] = sh.parent[o.I]
			}
			if o.K == "creategroup" {
				nested = true
			}
			sh.apply(o)
			st.Count("gop:" + o.K)
			if o.K == "createpool" {
				countOpts(st, "gpool", "group", o.O)
			}
		}
		npools := 0
		for _, p := range sh.isPool {
			if p {
				npools++
			}
		}
		wasNZ := false
		for _, ob := range obs {
			if len(ob.Vals) > 0 && ob.Vals[0] != 0 {
				wasNZ = true
			} else if wasNZ {
				reenter = true
			}
		}
		cf.Add(histCoq(ops, parents, obs))
		st.CaseIndex = append(st.CaseIndex, map[string]any{"kind": "group-history", "ops": ops})
		st.Case(fmt.Sprintf("%v", ops), (nested || npools >= 2) && reenter)
		for _, x := range shuts {
			// its own case: option resolution (Options.v) + pool model on the equivalent script, and conservation
			cf.Add(fmt.Sprintf("GPoolShutdown %d %s %d %d %s %s %s (%d)%%Z", runtime.NumCPU(), optsCoq(x.Opts), x.Gated, x.RanBefore,
				natList(x.Accepted), natList(x.Ran), natList(x.Cancelled), x.Pending))
			st.CaseIndex = append(st.CaseIndex, map[string]any{"kind": "group-pool-shutdown", "ops": ops, "shutdown": x})
			_, c, _ := resolve("group", x.Opts)
			w, _, _ := resolve("group", x.Opts)
			st.Case(fmt.Sprintf("shut %v %v", ops, x.Node), x.Gated > w)
			st.Count(fmt.Sprintf("gshut:effective-cancel=%v", c))
			if x.Gated > w {
				st.Count(fmt.Sprintf("gshut:with-backlog:effective-cancel=%v", c))
			}
		}
		st.Count(fmt.Sprintf("ghist:nodes=%d", len(sh.isPool)))
		if nested {
			st.Count("ghist:nested")
		}
		if hi < nDirected {
			st.Count("ghist:directed")
		}
		if len(problems) > 0 {
			failures++
			st.Fail(map[string]any{"kind": "group-history", "ops": ops, "problems": problems, "observations": obs})
		}
	}
	fr := rng.Fork()
	for i := 0; i < *nFree; i++ {
		fc := &gfreeCase{Idx: i, Seed: fr.U64(), Depth: 1 + fr.Intn(3), Pools: 1 + fr.Intn(4), Submitters: 1 + fr.Intn(4), PerSub: 10 + fr.Intn(40)}
		if failures >= 8 {
			st.Count("gfree:skipped-after-failures")
			continue
		}
		vals, returned, problems := runGroupFree(fc)
		cf.Add(fmt.Sprintf("GFinal %s %s", vx.ListOf(vals, func(v int) string { return fmt.Sprintf("(%d)%%Z", v) }), vx.Bool(returned)))
		st.CaseIndex = append(st.CaseIndex, fc)
		st.Case(fmt.Sprintf("%v", *fc), true)
		st.Count(fmt.Sprintf("gfree:depth=%d", fc.Depth))
		if len(problems) > 0 {
			failures++
			st.Fail(map[string]any{"kind": "group-free", "case": fc, "problems": problems})
		}
	}
	// observers against the propagation up deep chains (watch.go)
	wr := rng.Fork()
	wfail := 0
	for _, fc := range watchCases(wr, *nWatch, *nRounds) {
		if wfail >= 3 {
			st.Count("gwatch:skipped-after-failures")
			continue
		}
		res := runGroupWatch(fc)
		cf.Add(watchCoq(fc, res))
		st.CaseIndex = append(st.CaseIndex, fc)
		st.Case(fmt.Sprintf("%v", *fc), fc.Depth >= 2 && res.Reads > 0)
		st.Count(fmt.Sprintf("gwatch:depth=%s", depthClass(fc.Depth)))
		st.Count(fmt.Sprintf("gwatch:submitters=%d", fc.Submitters))
		st.Hist["gwatch:group-reads"] += int(res.Reads)
		st.Hist["gwatch:idle-reads"] += int(res.IdleReads)
		st.Hist["gwatch:rounds"] += int(int64(fc.Rounds))
		if len(res.Problems) > 0 {
			wfail++
			st.Fail(map[string]any{"kind": "group-watch", "case": fc, "problems": res.Problems})
		}
	}
	if err := cf.Write(*out); err != nil {
		vx.Die("write cases: %v", err)
	}
	if err := st.Write(*stats); err != nil {
		vx.Die("write stats: %v", err)
	}
}

func depthClass(d int) string {
	switch {
	case d <= 3:
		return fmt.Sprint(d)
	case d < 16:
		return "4-15"
	case d < 40:
		return "16-39"
	}
	return "40"
}
