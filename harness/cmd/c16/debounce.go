// C16 harness, families added in round 6:
//   - DebounceFunc (exported method of workerpool.go): gated / free bursts of invocations on one debouncer, judged by the
//     conservation / termination oracle (every wrapper task that Submit accepted finishes: PendingTasksCounter returns to 0
//     and Shutdown + ShutdownComplete.Wait return; an invoked function runs at most once, never two at a time; the latest
//     invocation of a burst runs exactly once). Go-side oracle only (the wrapper tasks are ordinary tasks of the pool model
//     as long as they terminate, which is what the oracle checks).
//   - the process-global debug mode (runtime/debug, debug.SetEnabled): `run --debug` re-executes the harness as a child
//     process with the mode enabled (a panic inside a worker goroutine cannot be recovered: the parent turns a dead child
//     into a property failure that names the case that was running); the child runs the same families with the same
//     oracles and writes a cases file for the same Coq model, plus directed cases that switch the mode while tasks execute.
package main

import (
	"bytes"
	"context"
	"encoding/json"
	"fmt"
	"os"
	"os/exec"
	"runtime"
	"sync"
	"sync/atomic"
	"time"

	"github.com/iotaledger/hive.go/runtime/debug"
	"github.com/iotaledger/hive.go/runtime/workerpool"

	"verif/harness/vx"
)

// ---------- debug mode: parent / child ----------

var (
	debugMode bool   // this process runs with debug.SetEnabled(true)
	curFile   string // child: the case that is about to run is written here
)

func modeText() string {
	if debugMode {
		return "debug.SetEnabled(true) (process-global debug mode of runtime/debug)"
	}
	return "default mode (debug disabled)"
}

// noteCase: (child of `run --debug`) remember which case is about to run
func noteCase(kind string, c any) {
	if curFile == "" {
		return
	}
	b, _ := json.Marshal(map[string]any{"kind": kind, "mode": modeText(), "case": c})
	_ = os.WriteFile(curFile, b, 0o644)
}

// debugParent runs the same command line in a child process with the debug mode enabled. A child that dies (a panic in a
// worker goroutine) or hangs becomes an oracle failure with the case that was running as the failing input.
func debugParent(args []string, out, stats string) {
	cur := stats + ".cur"
	_ = os.Remove(cur)
	child := []string{"run", "--debugchild", "--cur", cur}
	for _, a := range args {
		if a != "--debug" && a != "-debug" {
			child = append(child, a)
		}
	}
	ctx, cancel := context.WithTimeout(context.Background(), 800*time.Second)
	defer cancel()
	cmd := exec.CommandContext(ctx, os.Args[0], child...)
	var buf bytes.Buffer
	cmd.Stdout, cmd.Stderr = &buf, &buf
	err := cmd.Run()
	if err == nil {
		os.Stdout.Write(buf.Bytes())
		return
	}
	_ = os.Remove(out)
	st := vx.NewStats("debug-mode child process died")
	tail := buf.String()
	if i := bytes.Index(buf.Bytes(), []byte("panic:")); i >= 0 {
		tail = tail[i:]
	}
	if len(tail) > 2500 {
		tail = tail[:2500]
	}
	var c any
	if b, e := os.ReadFile(cur); e == nil {
		_ = json.Unmarshal(b, &c)
	}
	why := fmt.Sprintf("the harness process running with debug.SetEnabled(true) died (%v) while this case was running: a task accepted by Submit was neither run nor cancelled and counted down (the same case passes in the default mode)", err)
	if ctx.Err() != nil {
		why = "the harness process running with debug.SetEnabled(true) did not finish within 800 s while this case was running"
	}
	st.Fail(map[string]any{"kind": "debug-mode-crash", "mode": "debug.SetEnabled(true)", "running": c, "why": why, "output": tail})
	if e := st.Write(stats); e != nil {
		vx.Die("write stats: %v", e)
	}
}

// ---------- mode switched while tasks execute ----------

type modeSwitchCase struct {
	Workers int    `json:"workers"`
	Cancel  bool   `json:"cancel"`
	Via     string `json:"via"`
	ToDebug bool   `json:"switch_to_debug"` // tasks are submitted / started in the other mode, then the mode is switched
	Backlog int    `json:"backlog"`
	SdFirst bool   `json:"shutdown_before_release"`
}

// runModeSwitch: gated tasks occupy the workers and a backlog is queued in one mode; the mode is switched; the gate opens
// (optionally after Shutdown). Every accepted task is run or (cancel-on-shutdown) cancelled and counted down.
func runModeSwitch(mc *modeSwitchCase) (problems []string) {
	problem := func(f string, a ...any) { problems = append(problems, fmt.Sprintf(f, a...)) }
	debug.SetEnabled(!mc.ToDebug)
	defer debug.SetEnabled(debugMode)
	wp := makePool(mc.Via, mc.Workers, mc.Cancel)
	var inc, dec, ran atomic.Int64
	wp.PendingTasksCounter.Subscribe(func(o, n int) {
		if n > o {
			inc.Add(int64(n - o))
		} else {
			dec.Add(int64(o - n))
		}
	})
	wp.Start()
	var g gate
	g.set(true)
	var entered atomic.Int64
	for i := 0; i < mc.Workers; i++ {
		wp.Submit(func() { entered.Add(1); g.wait(); ran.Add(1) })
	}
	if !waitFor(freeBound, func() bool { return int(entered.Load()) == mc.Workers }) {
		problem("%d of %d gated tasks started on %d workers", entered.Load(), mc.Workers, mc.Workers)
	}
	for i := 0; i < mc.Backlog; i++ {
		wp.Submit(func() { ran.Add(1) })
	}
	debug.SetEnabled(mc.ToDebug)
	if mc.SdFirst {
		if !within(freeBound, func() { wp.Shutdown() }) {
			problem("Shutdown did not return within %v", freeBound)
		}
	}
	g.set(false)
	if !mc.SdFirst {
		if !within(freeBound, wp.PendingTasksCounter.WaitIsZero) {
			problem("gate open, pool running, but PendingTasksCounter = %d after %v", wp.PendingTasksCounter.Get(), freeBound)
		}
		wp.Shutdown()
	}
	if !within(freeBound, wp.ShutdownComplete.Wait) {
		problem("ShutdownComplete.Wait did not return within %v after Shutdown (PendingTasksCounter = %d)", freeBound, wp.PendingTasksCounter.Get())
		return
	}
	total := int64(mc.Workers + mc.Backlog)
	if p := wp.PendingTasksCounter.Get(); p != 0 {
		problem("PendingTasksCounter = %d after shutdown completed", p)
	}
	if inc.Load() != total || dec.Load() != total {
		problem("%d tasks accepted: %d counter increases, %d decreases", total, inc.Load(), dec.Load())
	}
	if r := ran.Load(); r > total || (r < total && !(mc.Cancel && mc.SdFirst)) || r < int64(mc.Workers) {
		problem("%d of %d accepted tasks ran (cancel=%v, shutdown before release=%v)", r, total, mc.Cancel, mc.SdFirst)
	}
	return
}

func makePool(via string, workers int, cancel bool) *workerpool.WorkerPool {
	o := goOpts([]optT{{K: "workers", N: workers}, {K: "cancel", B: cancel}})
	if via == "group" {
		return workerpool.NewGroup("c16dg").CreatePool("c16d", o...) // returns the pool started; Start again is a no-op
	}
	return workerpool.New("c16d", o...)
}

func waitFor(d time.Duration, cond func() bool) bool {
	deadline := time.Now().Add(d)
	for !cond() {
		if time.Now().After(deadline) {
			return false
		}
		time.Sleep(50 * time.Microsecond)
	}
	return true
}

// ---------- DebounceFunc ----------

type debounceCase struct {
	Idx     int    `json:"idx"`
	Seed    uint64 `json:"seed"`
	Via     string `json:"via"`
	Workers int    `json:"workers"`
	Cancel  bool   `json:"cancel"`
	// one entry per round: the burst sizes; in a gated round the first invocation parks at a gate while it executes, the
	// others are invoked one by one (the process settles after each when Settle), then the gate opens
	Bursts  []int  `json:"bursts"`
	Gated   []bool `json:"gated"`
	Settle  bool   `json:"settle_between_invocations"`
	SdEarly bool   `json:"shutdown_before_last_release"` // last round (cancel off only): Shutdown while the burst is pending
	Debs    int    `json:"debouncers"`                   // debouncers used round-robin per round (each has its own state)
}

func genDebounce(r *vx.Rng, idx int) *debounceCase {
	dc := &debounceCase{Idx: idx, Seed: r.U64(), Via: vx.Pick(r, []string{"new", "new", "group"}), Workers: vx.Pick(r, []int{1, 2, 2, 3, 4}),
		Cancel: r.Bool(), Settle: r.Chance(2, 3), Debs: 1 + r.Intn(2)}
	for k := 1 + r.Intn(3); k > 0; k-- {
		dc.Bursts = append(dc.Bursts, 1+r.Intn(6))
		dc.Gated = append(dc.Gated, r.Chance(3, 4))
	}
	dc.SdEarly = !dc.Cancel && r.Chance(1, 3)
	return dc
}

// directed shapes: A executes (gated), B and C are invoked, A is released - for 1..4 workers, then a second burst
func directedDebounce() (out []*debounceCase) {
	for w := 1; w <= 4; w++ {
		for _, via := range []string{"new", "group"} {
			out = append(out, &debounceCase{Idx: -len(out) - 1, Seed: uint64(w), Via: via, Workers: w, Cancel: via == "group", Bursts: []int{3, 1, 4},
				Gated: []bool{true, false, true}, Settle: true, Debs: 1})
		}
	}
	return
}

func runDebounce(dc *debounceCase) (problems []string, hang bool) {
	problem := func(f string, a ...any) { problems = append(problems, fmt.Sprintf(f, a...)) }
	r := vx.NewRng(dc.Seed)
	wp := makePool(dc.Via, dc.Workers, dc.Cancel)
	var inc, dec atomic.Int64
	wp.PendingTasksCounter.Subscribe(func(o, n int) {
		if n > o {
			inc.Add(int64(n - o))
		} else {
			dec.Add(int64(o - n))
		}
	})
	wp.Start()
	debs := make([]func(func(), ...string), dc.Debs)
	for i := range debs {
		debs[i] = wp.DebounceFunc()
	}
	var mu sync.Mutex
	invoked := 0
	for round, n := range dc.Bursts {
		deb := debs[round%len(debs)]
		last := round == len(dc.Bursts)-1
		ran := make([]atomic.Int32, n)
		var executing, overlap atomic.Int32
		var g gate
		entered := make(chan struct{}, 1)
		if dc.Gated[round] {
			g.set(true)
		}
		for i := 0; i < n; i++ {
			i := i
			nap := r.Intn(3)
			deb(func() {
				if executing.Add(1) > 1 {
					overlap.Add(1)
				}
				if i == 0 && dc.Gated[round] {
					entered <- struct{}{}
					g.wait()
				}
				for k := 0; k < nap; k++ {
					runtime.Gosched()
				}
				ran[i].Add(1)
				executing.Add(-1)
			})
			mu.Lock()
			invoked++
			mu.Unlock()
			if i == 0 && dc.Gated[round] {
				select {
				case <-entered:
				case <-time.After(freeBound):
					problem("round %d: the only invocation so far was not executed within %v (pending = %d)", round, freeBound, wp.PendingTasksCounter.Get())
					g.set(false)
					return problems, true
				}
			}
			if dc.Settle {
				settle(settleTimeout)
			}
		}
		sdEarly := last && dc.SdEarly
		if sdEarly {
			if !within(freeBound, func() { wp.Shutdown() }) {
				problem("round %d: Shutdown did not return within %v", round, freeBound)
				g.set(false)
				return problems, true
			}
		}
		g.set(false)
		if sdEarly {
			if !within(freeBound, wp.ShutdownComplete.Wait) {
				problem("round %d: Shutdown while a burst of %d invocations was pending (no cancel-on-shutdown): ShutdownComplete.Wait did not return within %v, PendingTasksCounter = %d: an accepted wrapper task never finishes",
					round, n, freeBound, wp.PendingTasksCounter.Get())
				return problems, true
			}
		} else if !within(freeBound, wp.PendingTasksCounter.WaitIsZero) {
			problem("round %d: burst of %d invocations, gate open, pool running, but PendingTasksCounter = %d, Queue.Size() = %d after %v: an accepted wrapper task never finishes",
				round, n, wp.PendingTasksCounter.Get(), wp.Queue.Size(), freeBound)
			return problems, true
		}
		for i := 0; i < n; i++ {
			if c := ran[i].Load(); c > 1 {
				problem("round %d: function of invocation %d ran %d times", round, i, c)
			}
		}
		if c := ran[n-1].Load(); c != 1 {
			problem("round %d: the latest invocation (%d of %d) ran %d times after the burst was processed", round, n, n, c)
		}
		if dc.Gated[round] && ran[0].Load() != 1 {
			problem("round %d: invocation 1 had started executing but is not recorded as run", round)
		}
		if dc.Gated[round] {
			// every invocation of the burst is made while the first holds the execution mutex: 2..n-1 are superseded before
			// they can take it
			for i := 1; i < n-1; i++ {
				if ran[i].Load() != 0 {
					problem("round %d: superseded invocation %d of %d ran although a later one had been made before the executing one finished", round, i+1, n)
				}
			}
		}
		if overlap.Load() != 0 {
			problem("round %d: two debounced functions executed at the same time", round)
		}
	}
	if !dc.SdEarly {
		wp.Shutdown()
		if !within(freeBound, wp.ShutdownComplete.Wait) {
			problem("ShutdownComplete.Wait did not return within %v after Shutdown", freeBound)
			return problems, true
		}
	}
	if p := wp.PendingTasksCounter.Get(); p != 0 {
		problem("PendingTasksCounter = %d after shutdown completed", p)
	}
	if int(inc.Load()) != invoked || inc.Load() != dec.Load() {
		problem("%d invocations while running: %d counter increases, %d decreases", invoked, inc.Load(), dec.Load())
	}
	return problems, false
}

// exported API of the anchored files and where the harness drives it (notes/C16.md has the same table)
var apiDriven = map[string]string{
	"workerpool.New / WithWorkerCount / WithCancelPendingTasksOnShutdown / WithPanicOnSubmitAfterShutdown": "run (scripts, free), waiters, group",
	"WorkerPool.Start / Submit / Shutdown / IsRunning / WorkerCount / ShutdownComplete / PendingTasksCounter / Queue": "run (scripts, free), waiters",
	"WorkerPool.DebounceFunc":                             "run: debounce family (round 6)",
	"Task (no exported methods; run / markDone / detectDeadlock through the pool, both debug modes)": "run, run --debug (round 6)",
	"NewGroup / Group.CreatePool / CreateGroup / Shutdown / WaitChildren / WaitParents / PendingChildrenCounter": "group",
	"Group.Name / Pool / Pools / Group / Root / IsShutdown / String": "not driven (read-only accessors / printing)",
}
