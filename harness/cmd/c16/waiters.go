// C16 harness, sub-command `waiters` (round 2, seed class C16-m7): the pool's dispatcher shares the condition variable
// elementAdded of its public Queue (syncutils.Stack) with every caller of Queue.WaitSizeIsAbove, and the condition variable
// valueDecreasedCond of its public PendingTasksCounter with every caller of WaitIsZero / WaitIsBelow. This family runs the
// pool with 1-3 such EXTERNAL WAITERS (back-pressure / monitoring goroutines):
//
//	wp.Queue.WaitSizeIsAbove(n)  wp.Queue.WaitSizeIsBelow(n)  wp.Queue.WaitIsEmpty()
//	wp.PendingTasksCounter.WaitIsAbove(n)  .WaitIsBelow(n)  .WaitIsZero()
//
// registered before the pool is started, while the dispatcher is parked, while a backlog builds up behind gated tasks, after
// the backlog has drained, and across Shutdown / restart. Every script is run in lockstep with the model of
// coq/C16_Pool/Waiters.v (cases of kind CWait: after every directive the settled state incl. Queue.Size() and, per waiter,
// whether its call has returned). Go-side oracle (runScript): in a quiescent state in which the runner holds nothing back the
// pending counter and the queue are at zero (every accepted task has run or was cancelled), exactly the expected number of
// tasks executes while the gate is closed, no waiter sleeps on a condition that holds, conservation at the end.
//
// Schedule-independence of the settled states: tasks are leaves; one Submit per directive; while the gate is closed only
// gated tasks are submitted (queue length and counter then move monotonically and stay), so a waiter's condition is never
// true only transiently - except thresholds 0 of the "above" kinds, which are registered only where the generator knows the
// dispatcher to be blocked on the full channel (queue) resp. after the gate was closed (counter).
package main

import (
	"flag"
	"fmt"
	"runtime"

	"github.com/iotaledger/hive.go/runtime/workerpool"

	"verif/harness/vx"
)

func isWaiterDir(k string) bool {
	switch k {
	case "qabove", "qbelow", "cabove", "cbelow":
		return true
	}
	return false
}

// B with threshold 1 on the "below" kinds: the alias of the API (WaitIsEmpty / WaitIsZero)
func waiterCall(wp *workerpool.WorkerPool, d dirT) {
	switch d.K {
	case "qabove":
		wp.Queue.WaitSizeIsAbove(d.N)
	case "qbelow":
		if d.B && d.N == 1 {
			wp.Queue.WaitIsEmpty()
		} else {
			wp.Queue.WaitSizeIsBelow(d.N)
		}
	case "cabove":
		wp.PendingTasksCounter.WaitIsAbove(d.N)
	case "cbelow":
		if d.B && d.N == 1 {
			wp.PendingTasksCounter.WaitIsZero()
		} else {
			wp.PendingTasksCounter.WaitIsBelow(d.N)
		}
	}
}

func waiterName(d dirT) string {
	switch d.K {
	case "qabove":
		return fmt.Sprintf("Queue.WaitSizeIsAbove(%d)", d.N)
	case "qbelow":
		if d.B && d.N == 1 {
			return "Queue.WaitIsEmpty()"
		}
		return fmt.Sprintf("Queue.WaitSizeIsBelow(%d)", d.N)
	case "cabove":
		return fmt.Sprintf("PendingTasksCounter.WaitIsAbove(%d)", d.N)
	}
	if d.B && d.N == 1 {
		return "PendingTasksCounter.WaitIsZero()"
	}
	return fmt.Sprintf("PendingTasksCounter.WaitIsBelow(%d)", d.N)
}

func waiterCond(d dirT, qsize, pending int) bool {
	switch d.K {
	case "qabove":
		return qsize > d.N
	case "qbelow":
		return qsize < d.N
	case "cabove":
		return pending > d.N
	}
	return pending < d.N
}

func wdirCoq(d dirT) string {
	switch d.K {
	case "qabove":
		return fmt.Sprintf("YWait (QAbove %d)", d.N)
	case "qbelow":
		return fmt.Sprintf("YWait (QBelow %d)", d.N)
	case "cabove":
		return fmt.Sprintf("YWait (PAbove (%d)%%Z)", d.N)
	case "cbelow":
		return fmt.Sprintf("YWait (PBelow (%d)%%Z)", d.N)
	}
	return "YDir (" + dirCoq(d) + ")"
}

func waitScriptCoq(sc *scriptCase, res scriptResult) string {
	obs := vx.ListOf(res.Obs, func(o obsT) string {
		return fmt.Sprintf("mkWobs (mkObs %s (%d)%%Z %s %d %d %s %s) %d %s", vx.Bool(o.Running), o.Pending, natList(o.Ran), o.NAcc, o.NCanc,
			natList(o.Rej), vx.ListOf(o.Done, vx.Bool), o.QSize, vx.ListOf(o.WDone, vx.Bool))
	})
	return fmt.Sprintf("CWait %d %s %s %s %s %s %s %s", sc.NCPU, vx.Bool(sc.Via == "group"), optsCoq(sc.Opts), vx.ListOf(sc.Prog, natList),
		vx.ListOf(sc.Gated, vx.Bool), vx.ListOf(sc.Script, wdirCoq), obs, natList(res.FinalCanc))
}

const never = 64 // a threshold that no queue length / counter value of these scripts reaches

type wbuilder struct {
	sc *scriptCase
}

func (b *wbuilder) add(d dirT, exec int) {
	b.sc.Script = append(b.sc.Script, d)
	b.sc.Exec = append(b.sc.Exec, exec)
}

func newWaitCase(name, via string, w int, cancel bool) *wbuilder {
	// task 0: gated leaf, task 1: free leaf; panic option for task identities
	return &wbuilder{sc: &scriptCase{Name: name, Via: via, Waiters: true, Prog: [][]int{{}, {}}, Gated: []bool{true, false},
		Opts: []optT{{K: "workers", N: w}, {K: "panic", B: true}, {K: "cancel", B: cancel}}}}
}

func (b *wbuilder) fin() *scriptCase {
	for _, d := range cleanup {
		b.add(d, -1)
	}
	return b.sc.fin()
}

func wq(k string, n int) dirT { return dirT{K: k, N: n} }

var (
	qEmpty = dirT{K: "qbelow", N: 1, B: true}
	cZero  = dirT{K: "cbelow", N: 1, B: true}
)

// directed scripts: the shapes of the class, for 1 and 2 workers
func directedWaiters() []*scriptCase {
	var out []*scriptCase
	for _, w := range []int{1, 2} {
		// the dispatcher parks, then a monitor that waits for a backlog; submits to the idle pool
		b := newWaitCase(fmt.Sprintf("w-monitor-after-dispatcher-w%d", w), "new", w, false)
		b.add(dirT{K: "start"}, 0)
		b.add(wq("qabove", 5), 0)
		b.add(sub(1), 0)
		b.add(sub(1), 0)
		b.add(dirT{K: "waitzero"}, 0)
		b.add(sub(1), 0)
		out = append(out, b.fin())
		// the monitor is there before the pool is started (it is the longest-waiting goroutine of the condition variable)
		b = newWaitCase(fmt.Sprintf("w-monitor-before-start-w%d", w), "new", w, false)
		b.add(wq("qabove", 5), -1)
		b.add(dirT{K: "start"}, 0)
		b.add(sub(1), 0)
		b.add(dirT{K: "waitzero"}, 0)
		b.add(sub(1), 0)
		b.add(sub(1), 0)
		out = append(out, b.fin())
		// two monitors around the dispatcher, one threshold within reach; pool made by a group
		b = newWaitCase(fmt.Sprintf("w-two-monitors-group-w%d", w), "group", w, w == 1)
		b.add(dirT{K: "start"}, 0)
		b.add(wq("qabove", never), 0)
		b.add(wq("cabove", never), 0)
		b.add(wq("qabove", 1), 0)
		for i := 0; i < 3; i++ {
			b.add(sub(1), 0)
		}
		out = append(out, b.fin())
		// the waiters stay across Shutdown and restart: the new dispatcher parks behind them
		b = newWaitCase(fmt.Sprintf("w-monitor-across-restart-w%d", w), "new", w, w == 2)
		b.add(wq("qabove", never), -1)
		b.add(dirT{K: "start"}, 0)
		b.add(sub(1), 0)
		b.add(dirT{K: "shutdown"}, 0)
		b.add(dirT{K: "waitsd"}, 0)
		b.add(dirT{K: "start"}, 0)
		b.add(sub(1), 0)
		b.add(sub(1), 0)
		b.add(dirT{K: "waitzero"}, 0)
		out = append(out, b.fin())
		// back-pressure: waiters for the backlog to build up and to drain again; WaitIsZero callers share the counter's
		// condition variable with the dispatcher (which waits for zero before it closes the channel) - Shutdown with a backlog
		b = newWaitCase(fmt.Sprintf("w-backlog-drain-w%d", w), "new", w, false)
		b.add(dirT{K: "start"}, 0)
		b.add(wq("qabove", 1), 0)
		b.add(dirT{K: "gate", B: true}, 0)
		for i := 1; i <= 2*w+1+3; i++ {
			b.add(sub(0), min(i, w))
		}
		b.add(qEmpty, w)
		b.add(wq("qbelow", 2), w)
		b.add(cZero, w)
		b.add(cZero, w)
		b.add(wq("cbelow", 3), w)
		b.add(wq("qabove", 0), w)
		b.add(dirT{K: "shutdown"}, w)
		b.add(dirT{K: "gate"}, 0)
		b.add(dirT{K: "waitsd"}, 0)
		out = append(out, b.fin())
	}
	return out
}

// a random phased script: [waiters] start [waiters] {served submits} gate-closed {gated submits, waiters in between}
// [shutdown] gate-open [waiters] ( waitsd start | ) {served submits} [waitzero]
func randomWaitScript(rng *vx.Rng, idx int) *scriptCase {
	w := vx.Pick(rng, []int{1, 1, 2, 2, 3})
	via := "new"
	early := rng.Chance(1, 2) // waiters registered before Start (only possible when the pool is made by New)
	if !early && rng.Chance(1, 3) {
		via = "group"
	}
	b := newWaitCase(fmt.Sprintf("wrnd%d", idx), via, w, rng.Bool())
	absorbed := 2*w + 1 // gated tasks taken by the workers, the channel and the dispatcher before the queue grows
	n := absorbed + 1 + rng.Intn(3)
	// a waiter that may be registered anywhere
	anywhere := func() dirT {
		switch rng.Intn(10) {
		case 0, 1:
			return wq("qabove", never)
		case 2:
			return wq("qabove", 1+rng.Intn(3))
		case 3:
			return wq("cabove", never)
		case 4:
			return wq("cabove", 1+rng.Intn(n))
		case 5:
			return qEmpty
		case 6:
			return wq("qbelow", rng.Intn(4))
		case 7:
			return cZero
		case 8:
			return wq("cbelow", rng.Intn(n+1))
		}
		return wq("qabove", 1)
	}
	budget := 1 + rng.Intn(3)
	place := func(exec int, p, q int, gen func() dirT) {
		for budget > 0 && rng.Chance(p, q) {
			b.add(gen(), exec)
			budget--
		}
	}
	if early {
		place(-1, 2, 3, anywhere)
	}
	b.add(dirT{K: "start"}, 0)
	place(0, 1, 2, anywhere)
	for k := rng.Intn(3); k > 0; k-- {
		b.add(sub(1), 0)
	}
	place(0, 1, 3, anywhere)
	b.add(dirT{K: "gate", B: true}, 0)
	for i := 1; i <= n; i++ {
		b.add(sub(0), min(i, w))
		place(min(i, w), 1, 4, func() dirT {
			// thresholds 0 of the "above" kinds: the counter is stable now; the queue once the dispatcher is blocked
			if rng.Chance(1, 3) {
				return wq("cabove", 0)
			}
			if i >= absorbed && rng.Chance(1, 2) {
				return wq("qabove", 0)
			}
			return anywhere()
		})
	}
	if budget > 0 { // at least one waiter per script
		b.add(anywhere(), w)
		budget = 0
	}
	stopped := rng.Chance(1, 2)
	if stopped {
		b.add(dirT{K: "shutdown"}, w)
	}
	b.add(dirT{K: "gate"}, 0)
	// after the drain only waiters that can not be satisfied by a transient (one free task at a time: queue and counter <= 1)
	late := func() dirT {
		switch rng.Intn(5) {
		case 0:
			return wq("qabove", never)
		case 1:
			return wq("qabove", 1+rng.Intn(2))
		case 2:
			return wq("cabove", 1+rng.Intn(2))
		case 3:
			return qEmpty
		}
		return cZero
	}
	budget = rng.Intn(2)
	place(0, 1, 1, late)
	if stopped && rng.Chance(2, 3) {
		b.add(dirT{K: "waitsd"}, 0)
		b.add(dirT{K: "start"}, 0)
		stopped = false
	}
	for k := rng.Intn(3); k > 0; k-- {
		b.add(sub(1), 0)
	}
	if rng.Chance(1, 2) {
		b.add(dirT{K: "waitzero"}, 0)
	}
	if !stopped && rng.Chance(1, 2) {
		b.add(sub(1), 0)
	}
	return b.fin()
}

func waitersMain(args []string) {
	fs := flag.NewFlagSet("waiters", flag.ExitOnError)
	var (
		nScripts = fs.Int("n", 60, "random scripts")
		seed     = fs.Uint64("seed", 1, "seed")
		out      = fs.String("out", "wcases.v", "cases file")
		stats    = fs.String("stats", "wstats.json", "stats file")
	)
	fs.Parse(args)
	installHooks()
	rng := vx.NewRng(*seed)
	st := vx.NewStats("a waiters script is non-trivial if a waiter is parked on the queue's or counter's condition variable while a task is accepted; distinct = distinct (config, script)")
	cf := &vx.CasesFile{
		Header: "From Coq Require Import List ZArith Bool.\nFrom Verif.C16_Pool Require Import Model Options Corr Waiters WaitCorr.\nImport ListNotations.\n",
		Type:   "wcase",
		Footer: "Definition M := Eval vm_compute in wmismatches cases.\nPrint M.",
	}
	scripts := directedWaiters()
	sr := rng.Fork()
	for i := 0; i < *nScripts; i++ {
		scripts = append(scripts, randomWaitScript(sr, i))
	}
	failures := 0
	for _, sc := range scripts {
		if failures >= 5 {
			st.Count("wscript:skipped-after-5-failures")
			continue
		}
		res := runScript(sc)
		st.CaseIndex = append(st.CaseIndex, sc)
		if len(res.Obs) == 0 {
			failures++
			cf.Add("CWait 1 false [] [] [] [] [] [1]") // can not agree: reported below anyway
			st.Fail(map[string]any{"kind": "waiters-script", "case": sc, "problems": res.Problems})
			continue
		}
		cf.Add(scriptCoq(sc, res))
		// non-trivial: some observation with an unreturned waiter at which the number of accepted tasks grew afterwards
		nontrivial := false
		for i := 0; i+1 < len(res.Obs); i++ {
			for _, dn := range res.Obs[i].WDone {
				if !dn && res.Obs[i+1].NAcc > res.Obs[i].NAcc {
					nontrivial = true
				}
			}
		}
		st.Case(fmt.Sprintf("%v", *sc), nontrivial)
		nw := 0
		for i, d := range sc.Script {
			if isWaiterDir(d.K) {
				nw++
				pos := "running"
				if i == 0 || (sc.Script[0].K != "start" && !seenStart(sc.Script[:i])) {
					pos = "before-start"
				}
				st.Count("waiter:" + d.K + ":" + thresholdClass(d.N) + ":" + pos)
			} else {
				st.Count("wdir:" + d.K)
			}
		}
		st.Count(fmt.Sprintf("wscript:waiters=%d", nw))
		st.Count(fmt.Sprintf("wscript:workers=%d", sc.Workers))
		st.Count("wscript:via=" + sc.Via)
		last := res.Obs[len(res.Obs)-1]
		ret := 0
		for _, dn := range last.WDone {
			if dn {
				ret++
			}
		}
		st.Count(fmt.Sprintf("wscript:waiters-returned=%d-of-%d", ret, len(last.WDone)))
		st.Sample(map[string]any{"script": sc.Name, "final": last}, 3)
		if len(res.Problems) > 0 {
			failures++
			st.Fail(map[string]any{"kind": "waiters-script", "case": sc, "problems": res.Problems, "observations": res.Obs})
		}
	}
	st.Extra["c16_external_waiters"] = "1-3 goroutines blocked in Queue.WaitSizeIsAbove / WaitSizeIsBelow / WaitIsEmpty and PendingTasksCounter.WaitIsAbove / WaitIsBelow / WaitIsZero of the pool (thresholds 0, within reach, never reached), registered before Start, while the dispatcher is parked, during a gated backlog, after the drain and across Shutdown/restart; lockstep with Waiters.v (cases CWait incl. Queue.Size() and which waiters returned); NumCPU=" + fmt.Sprint(runtime.NumCPU())
	if err := cf.Write(*out); err != nil {
		vx.Die("write cases: %v", err)
	}
	if err := st.Write(*stats); err != nil {
		vx.Die("write stats: %v", err)
	}
}

func seenStart(ds []dirT) bool {
	for _, d := range ds {
		if d.K == "start" {
			return true
		}
	}
	return false
}

func thresholdClass(n int) string {
	switch {
	case n == 0:
		return "0"
	case n >= never:
		return "never"
	}
	return "within-reach"
}
