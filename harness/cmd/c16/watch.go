// C16 group harness, family `watch` (round 4, seed class C16-m10): concurrent observers against the propagation of a
// counter change up a DEEP chain of groups.
//
// A scenario is a chain root = g0 > g1 > ... > g(depth-1) (depth 1..40) with 1..3 pools hanging off groups of the chain
// (the first one off the deepest group, optionally behind a side branch). It runs `rounds` rounds. One round:
//   - a gate is closed: every task of the round blocks on it, so during the gated phase NO counter of the tree ever decreases;
//   - 1..4 submitters (started together) Submit gated tasks to the pools; when a Submit has RETURNED the submitter takes a
//     stamp from the one global atomic clock and publishes it as "pool p has an accepted task since stamp m";
//   - observers poll in tight loops while the submitters run: readers (PendingChildrenCounter.Get()==0, the IsZero-style
//     read, bottom-up over pool, deepest group, ..., root; top-down; random levels) and callers of the real
//     WaitChildren() / WaitParents(); every read is bracketed by two stamps s1 < s2 of the same clock;
//   - then the gate-open stamp is published, the gate opens, the pools drain, every counter must be back at 0.
// Oracle (no timing assumption, only the order of the stamps): a read / WaitChildren of group g that came back "idle"
// with brackets (s1,s2), observed before the gate-open stamp was published, is a FAILURE when
//   (O1) a pool below g had a task accepted at a stamp m < s1 (Submit had returned before the read began, the task is
//        parked at the closed gate: accepted and unfinished for the whole duration of the read), or
//   (O2) the same observer had, earlier in the same gated phase, read a non-zero counter of a node BELOW g (a pool with
//        pending tasks or a group with a busy child): counters do not decrease in the gated phase, so a pool below g has
//        pending tasks during the whole later read of g.
// On the code as it is, a counter value becomes visible (valueMutex released) only after the whole chain above it has been
// updated, so neither can happen (theorem C16_group_wait_sound, GroupConc*.v).
package main

import (
	"fmt"
	"runtime"
	"sync"
	"sync/atomic"

	"github.com/iotaledger/hive.go/runtime/syncutils"
	"github.com/iotaledger/hive.go/runtime/workerpool"

	"verif/harness/vx"
)

type gwatchCase struct {
	Kind       string `json:"kind"`
	Idx        int    `json:"idx"`
	Seed       uint64 `json:"seed"`
	Depth      int    `json:"depth"` // number of groups on the chain
	Pools      int    `json:"pools"`
	Side       bool   `json:"side_branch"` // the first pool sits in a side group below the deepest chain group
	Submitters int    `json:"submitters"`
	PerSub     int    `json:"per_submitter"`
	Readers    int    `json:"readers"`
	Waiters    int    `json:"waitchildren_callers"`
	Rounds     int    `json:"rounds"`
}

type gwatchResult struct {
	Reads, IdleReads, Judged int64   // reads of group counters / that returned idle / idle reads with an accepted task or non-zero node below
	Sweeps                   [][]int // sample of bottom-up sweeps (values read pool .. root) taken while submitters ran
	Problems                 []string
}

type wnode struct {
	counter *syncutils.Counter
	group   *workerpool.Group // nil for a pool
	level   int               // groups of the chain: 0 = root; side group: depth; pools: -1
	name    string
}

// one observed path: nodes bottom-up (pool first, root last)
type wpath struct {
	pool  int // index into pools
	nodes []*wnode
}

func runGroupWatch(fc *gwatchCase) (res gwatchResult) {
	rng := vx.NewRng(fc.Seed)
	var pmu sync.Mutex
	problem := func(f string, a ...any) {
		pmu.Lock()
		if len(res.Problems) < 6 {
			res.Problems = append(res.Problems, fmt.Sprintf(f, a...))
		}
		pmu.Unlock()
	}
	failed := func() bool { pmu.Lock(); defer pmu.Unlock(); return len(res.Problems) > 0 }

	// ---- tree ----
	root := workerpool.NewGroup("g0")
	chain := []*wnode{{counter: root.PendingChildrenCounter, group: root, level: 0, name: "g0"}}
	for d := 1; d < fc.Depth; d++ {
		g := chain[d-1].group.CreateGroup(fmt.Sprintf("g%d", d))
		chain = append(chain, &wnode{counter: g.PendingChildrenCounter, group: g, level: d, name: fmt.Sprintf("g%d", d)})
	}
	var pools []*workerpool.WorkerPool
	var paths []*wpath
	for p := 0; p < fc.Pools; p++ {
		at := fc.Depth - 1
		if p > 0 {
			at = rng.Intn(fc.Depth)
		}
		up := append([]*wnode(nil), chain[:at+1]...) // root .. owner
		owner := chain[at].group
		if p == 0 && fc.Side {
			sg := owner.CreateGroup("side")
			up = append(up, &wnode{counter: sg.PendingChildrenCounter, group: sg, level: fc.Depth, name: "side"})
			owner = sg
		}
		wp := owner.CreatePool(fmt.Sprintf("p%d", p), workerpool.WithWorkerCount(2))
		pools = append(pools, wp)
		nodes := []*wnode{{counter: wp.PendingTasksCounter, level: -1, name: fmt.Sprintf("p%d", p)}}
		for i := len(up) - 1; i >= 0; i-- {
			nodes = append(nodes, up[i])
		}
		paths = append(paths, &wpath{pool: p, nodes: nodes})
	}

	var clk atomic.Int64
	var reads, idle, judged atomic.Int64
	var sweepMu sync.Mutex

	for round := 0; round < fc.Rounds && !failed(); round++ {
		gate := make(chan struct{})
		var gateOpen atomic.Int64            // 0 while the gate is closed, else the stamp taken before it opened
		minAcc := make([]atomic.Int64, len(pools)) // earliest stamp at which a Submit to the pool had returned (0: none yet)
		var stop atomic.Bool
		var start, obsWG, subWG, taskWG sync.WaitGroup
		start.Add(1)

		// idle verdict of group node n (on path pa at position k, i.e. pa.nodes[:k] lie below it) with brackets s1 < s2;
		// lowAt/lowName: stamp at which this observer finished reading a non-zero node below n in this gated phase (0: none)
		judge := func(how string, pa *wpath, k int, s1, s2 int64, lowAt int64, lowName string, lowVal int) {
			idle.Add(1)
			m := minAcc[pa.pool].Load()
			hit1 := m != 0 && m < s1
			hit2 := lowAt != 0 && lowAt < s1
			if !hit1 && !hit2 {
				return
			}
			if gateOpen.Load() != 0 { // the gated phase may have ended before the read: no verdict
				return
			}
			judged.Add(1)
			n := pa.nodes[k]
			if hit1 {
				problem("round %d: %s of group %s (level %d of a chain of %d groups) came back idle, read bracketed by stamps (%d,%d), but pool %s below it had a task whose Submit returned at stamp %d and which is parked at the closed gate (accepted and unfinished during the whole read; gate still closed after the read)",
					round, how, n.name, n.level, fc.Depth, s1, s2, pa.nodes[0].name, m)
			} else {
				problem("round %d: %s of group %s (level %d of a chain of %d groups) came back idle, read bracketed by stamps (%d,%d), after the same observer had read %s = %d below it at stamp %d in the same gated phase (no task of the tree can finish before the gate opens, so a pool below %s has pending tasks during the whole read)",
					round, how, n.name, n.level, fc.Depth, s1, s2, lowName, lowVal, lowAt, n.name)
			}
		}

		// ---- observers ----
		for o := 0; o < fc.Readers; o++ {
			o, r := o, rng.Fork()
			obsWG.Add(1)
			go func() {
				defer obsWG.Done()
				start.Wait()
				pa := paths[o%len(paths)]
				mode := o % 3 // 0: bottom-up sweeps, 1: pool then one random group above, 2: pool then root then the rest top-down
				var sample []int
				for it := 0; !stop.Load(); it++ {
					// the non-zero node read so far that lies lowest on the path (position lowK, stamp lowAt after its read)
					var lowAt int64
					var lowName string
					var lowVal int
					lowK := len(pa.nodes)
					look := func(k int) int {
						n := pa.nodes[k]
						s1 := clk.Add(1)
						v := n.counter.Get()
						s2 := clk.Add(1)
						if k > 0 {
							reads.Add(1)
							if v == 0 {
								if lowK < k { // only a node BELOW n counts
									judge("PendingChildrenCounter.Get()", pa, k, s1, s2, lowAt, lowName, lowVal)
								} else {
									judge("PendingChildrenCounter.Get()", pa, k, s1, s2, 0, "", 0)
								}
							}
						}
						if v != 0 && k < lowK {
							lowK, lowAt, lowName, lowVal = k, s2, n.name, v
						}
						return v
					}
					switch mode {
					case 0:
						vals := make([]int, 0, len(pa.nodes))
						for k := range pa.nodes {
							vals = append(vals, look(k))
						}
						if vals[0] != 0 && sample == nil && gateOpen.Load() == 0 { // the whole sweep lies in the gated phase
							sample = vals
						}
					case 1:
						look(0)
						look(1 + r.Intn(len(pa.nodes)-1))
					default:
						look(0)
						for k := len(pa.nodes) - 1; k >= 1; k-- {
							look(k)
						}
					}
					if it%64 == 63 {
						runtime.Gosched()
					}
				}
				if sample != nil {
					sweepMu.Lock()
					if len(res.Sweeps) < 8 {
						res.Sweeps = append(res.Sweeps, sample)
					}
					sweepMu.Unlock()
				}
			}()
		}
		// callers of the real WaitChildren / WaitParents: the call blocks while the group is busy (then it returns after the
		// gate opened and is not judged); a call that returns in the gated phase is judged like a read
		for o := 0; o < fc.Waiters; o++ {
			o, r := o, rng.Fork()
			obsWG.Add(1)
			go func() {
				defer obsWG.Done()
				start.Wait()
				pa := paths[o%len(paths)]
				for !stop.Load() {
					k := len(pa.nodes) - 1 // root
					how := "WaitChildren()"
					switch r.Intn(3) {
					case 0:
						k = 1 + r.Intn(len(pa.nodes)-1)
					case 1:
						how = "WaitParents() of the deepest group = WaitChildren()"
					}
					var lowAt int64
					var lowVal int
					s0 := clk.Add(1)
					if v := pa.nodes[0].counter.Get(); v != 0 {
						lowVal, lowAt = v, clk.Add(1)
					}
					_ = s0
					s1 := clk.Add(1)
					if how == "WaitChildren()" {
						pa.nodes[k].group.WaitChildren()
					} else {
						pa.nodes[1].group.WaitParents()
					}
					s2 := clk.Add(1)
					reads.Add(1)
					judge(how, pa, k, s1, s2, lowAt, pa.nodes[0].name, lowVal)
				}
			}()
		}

		// ---- submitters ----
		for s := 0; s < fc.Submitters; s++ {
			r := rng.Fork()
			subWG.Add(1)
			go func() {
				defer subWG.Done()
				start.Wait()
				for i := 0; i < fc.PerSub; i++ {
					p := r.Intn(len(pools))
					taskWG.Add(1)
					pools[p].Submit(func() {
						<-gate
						taskWG.Done()
					})
					m := clk.Add(1) // Submit has returned: the task is accepted
					for {
						cur := minAcc[p].Load()
						if cur != 0 && cur <= m {
							break
						}
						if minAcc[p].CompareAndSwap(cur, m) {
							break
						}
					}
				}
			}()
		}
		start.Done()
		ok := within(freeBound, subWG.Wait)
		if !ok {
			problem("round %d: a Submit did not return within %v", round, freeBound)
		}
		// all tasks accepted and parked: let the observers look at the settled gated state for a few more sweeps
		for i := 0; i < 3; i++ {
			runtime.Gosched()
		}
		if ok {
			// every group above a pool with an accepted task must be non-zero now (sequential check, same predicate)
			for _, pa := range paths {
				if minAcc[pa.pool].Load() == 0 {
					continue
				}
				for k := 1; k < len(pa.nodes); k++ {
					if v := pa.nodes[k].counter.Get(); v == 0 {
						problem("round %d: all Submits returned, pool %s has accepted tasks parked at the closed gate, but group %s (level %d of %d) has PendingChildrenCounter 0", round, pa.nodes[0].name, pa.nodes[k].name, pa.nodes[k].level, fc.Depth)
						break
					}
				}
			}
		}
		stop.Store(true)
		gateOpen.Store(clk.Add(1))
		close(gate)
		if !within(freeBound, func() { taskWG.Wait(); obsWG.Wait() }) {
			problem("round %d: tasks / WaitChildren callers did not finish within %v after the gate opened", round, freeBound)
			break
		}
		if !within(freeBound, func() {
			for _, p := range pools {
				p.PendingTasksCounter.WaitIsZero()
			}
		}) {
			problem("round %d: a pool did not drain", round)
			break
		}
		// every decrement chain has completed when the pool counter can be read as zero: the whole tree is idle
		for _, pa := range paths {
			for k := 1; k < len(pa.nodes); k++ {
				if v := pa.nodes[k].counter.Get(); v != 0 {
					problem("round %d: every pool drained (WaitIsZero returned) but group %s (level %d of %d) has PendingChildrenCounter %d", round, pa.nodes[k].name, pa.nodes[k].level, fc.Depth, v)
					break
				}
			}
		}
	}
	res.Reads, res.IdleReads, res.Judged = reads.Load(), idle.Load(), judged.Load()
	if !within(freeBound, func() { root.Shutdown() }) {
		problem("root.Shutdown did not return")
	}
	for _, p := range pools {
		if !within(freeBound, p.ShutdownComplete.Wait) {
			problem("a pool did not complete its shutdown after Group.Shutdown")
		}
	}
	return res
}

// depth 1..40, biased to the ends
func watchCases(rng *vx.Rng, n int, rounds int) []*gwatchCase {
	depths := []int{40, 1, 2, 33, 40, 3, 17, 40, 8, 25}
	var out []*gwatchCase
	for i := 0; i < n; i++ {
		d := 1 + rng.Intn(40)
		if i < len(depths) {
			d = depths[i]
		}
		out = append(out, &gwatchCase{Kind: "group-watch", Idx: i, Seed: rng.U64(), Depth: d, Pools: 1 + rng.Intn(3), Side: rng.Chance(1, 4),
			Submitters: 1 + rng.Intn(4), PerSub: 1 + rng.Intn(3), Readers: 2 + rng.Intn(3), Waiters: rng.Intn(3), Rounds: rounds})
	}
	return out
}

func watchCoq(fc *gwatchCase, res gwatchResult) string {
	return fmt.Sprintf("GWatch %d %s", fc.Depth, vx.ListOf(res.Sweeps, func(s []int) string {
		return vx.ListOf(s, func(v int) string { return fmt.Sprintf("(%d)%%Z", v) })
	}))
}
