package main

import (
	"time"

	"github.com/iotaledger/hive.go/ds"
)

// gateSet is a ReadableSet whose iteration entry points first run a callback: the harness uses it to place a
// concurrent call exactly between "the method under test took its locks" and "it starts iterating its argument".
type gateSet struct {
	ds.ReadableSet[int]
	gate func()
}

func (g *gateSet) ForEach(cb func(int) error) error {
	if g.gate != nil {
		g.gate()
	}
	return g.ReadableSet.ForEach(cb)
}

func (g *gateSet) Range(cb func(int)) {
	if g.gate != nil {
		g.gate()
	}
	g.ReadableSet.Range(cb)
}

// probeD11b: DeleteAll holds applyMutex.RLock while iterating `other`; an Apply arrives (queues as a writer), then
// DeleteAll touches the first element. Returns (deleteAllReturned, applyReturned) within the watchdog.
func probeD11b(settle, watchdog time.Duration) (bool, bool) {
	s := ds.NewSet(1, 2, 3)
	applyDone := make(chan struct{})
	delDone := make(chan struct{})
	other := &gateSet{ReadableSet: ds.NewSet(1, 2), gate: func() {
		go func() {
			s.Apply(ds.NewSetMutations(4))
			close(applyDone)
		}()
		time.Sleep(settle) // let Apply reach applyMutex.Lock()
	}}
	go func() {
		s.DeleteAll(other)
		close(delDone)
	}()
	t := time.After(watchdog)
	d, a := false, false
	for !(d && a) {
		select {
		case <-delDone:
			d, delDone = true, nil
		case <-applyDone:
			a, applyDone = true, nil
		case <-t:
			return d, a
		}
	}
	return d, a
}
