// C11 harness: ds.Set / orderedmap.OrderedMap / ds.SetArithmetic.
//
//	hx-c11 hist --n N --len L   lockstep histories (all methods, diffs, orders, codec) -> cases.v + Go reference oracle
//	hx-c11 conc --runs R        directed lock schedules, free-running method pairs under a watchdog,
//	                            linearizability of Add/Delete/Has, atomicity of Apply/Compute/Replace (Go oracles only)
//	hx-c11 codec --n N          SerializableOrderedMap[K,V] / Set[K] codec with key / value types whose serix encoding can
//	                            fail (codec.go): Encode error paths, Decode of truncated / malformed inputs -> codec.v + Go oracle
package main

import (
	"flag"
	"fmt"
	"os"
	"strings"
	"time"

	"github.com/iotaledger/hive.go/ds"
	"github.com/iotaledger/hive.go/ds/orderedmap"
	"github.com/iotaledger/hive.go/serializer/v2/serix"

	"verif/harness/vx"
)

type op struct {
	K string    `json:"k"`
	E uint32    `json:"e,omitempty"`
	V uint32    `json:"v,omitempty"`
	L []uint32  `json:"l,omitempty"`
	D []uint32  `json:"d,omitempty"`
	N int       `json:"n,omitempty"`
	F string    `json:"f,omitempty"`
	B []byte    `json:"b,omitempty"`
	S *reScript `json:"s,omitempty"` // ForEachRe / SForEachRe: iteration with a consumer that mutates the receiver
}

func nl(l []uint32) string { return vx.ListOf(l, func(x uint32) string { return vx.N(uint64(x)) }) }
func bl(b []byte) string   { return vx.ListOf(b, func(x byte) string { return vx.N(uint64(x)) }) }

// factory / predicate as Coq terms
func (o op) fun() string {
	switch o.F {
	case "const":
		return "(f_const " + nl(o.L) + " " + nl(o.D) + ")"
	case "toggle":
		return "(f_toggle " + vx.N(uint64(o.E)) + ")"
	case "compl":
		return "(f_compl " + nl(o.L) + ")"
	case "lt":
		return "(p_lt " + vx.N(uint64(o.E)) + ")"
	case "even":
		return "p_even"
	case "in":
		return "(p_in " + nl(o.L) + ")"
	}
	panic("fun " + o.F)
}

func (o op) coq() string {
	e := vx.N(uint64(o.E))
	switch o.K {
	case "Add", "Delete", "Has", "Is", "Get", "MDelete":
		return "O" + o.K + " " + e
	case "AddAll", "DeleteAll", "Replace", "HasAll", "Equals", "Intersect":
		return "O" + o.K + " " + nl(o.L)
	case "Apply":
		return "OApply " + nl(o.L) + " " + nl(o.D)
	case "Compute", "Filter":
		return "O" + o.K + " " + o.fun()
	case "ForEach", "Pairs", "RevPairs":
		return "O" + o.K + " " + vx.Nat(o.N)
	case "Decode":
		return "ODecode " + bl(o.B)
	case "ForEachRe":
		return "OForEachRe " + vx.Bool(o.S.Rev) + " " + o.S.coq()
	case "SForEachRe":
		return "OSForEachRe " + o.S.coq()
	case "Set":
		return "OSet " + e + " " + vx.N(uint64(o.V))
	}
	return "O" + o.K // Clear Any Clone Size IsEmpty ToSlice Encode Head Tail MClone
}

func contains(l []uint32, e uint32) bool {
	for _, x := range l {
		if x == e {
			return true
		}
	}
	return false
}

func dedup(l []uint32) []uint32 {
	r := []uint32{}
	for _, x := range l {
		if !contains(r, x) {
			r = append(r, x)
		}
	}
	return r
}

func eqSlice(a, b []uint32) bool {
	if len(a) != len(b) {
		return false
	}
	for i := range a {
		if a[i] != b[i] {
			return false
		}
	}
	return true
}

func mutsOf(a, d []uint32) ds.SetMutations[uint32] {
	return ds.NewSetMutations[uint32]().WithAddedElements(ds.NewSet(a...)).WithDeletedElements(ds.NewSet(d...))
}

// factory semantics in Go (applied to the read-only view handed to Compute)
func (o op) factory() func(ds.ReadableSet[uint32]) ds.SetMutations[uint32] {
	return func(v ds.ReadableSet[uint32]) ds.SetMutations[uint32] {
		switch o.F {
		case "const":
			return mutsOf(o.L, o.D)
		case "toggle":
			if v.Has(o.E) {
				return mutsOf(nil, []uint32{o.E})
			}
			return mutsOf([]uint32{o.E}, nil)
		default: // compl
			add := []uint32{}
			for _, x := range o.L {
				if !v.Has(x) {
					add = append(add, x)
				}
			}
			return mutsOf(add, v.ToSlice())
		}
	}
}

func (o op) pred() func(uint32) bool {
	switch o.F {
	case "lt":
		return func(e uint32) bool { return e < o.E }
	case "even":
		return func(e uint32) bool { return e%2 == 0 }
	}
	return func(e uint32) bool { return contains(o.L, e) }
}

func visitTerm(l []uint32, b bool) string { return "RVisit " + nl(l) + " " + vx.Bool(b) }

type pair struct{ k, v uint32 }

func pairsTerm(l []pair) string {
	return vx.ListOf(l, func(p pair) string { return vx.Pair(vx.N(uint64(p.k)), vx.N(uint64(p.v))) })
}

func optN(ok bool, v uint32) string { return vx.Opt(ok, vx.N(uint64(v))) }

func u32le(x uint32) []byte { return []byte{byte(x), byte(x >> 8), byte(x >> 16), byte(x >> 24)} }

// ---------------------------------------------------------------------------------------------------------------
// reference set: the property's own definition (duplicate-free slice in first-insertion order), independent of Coq
// ---------------------------------------------------------------------------------------------------------------

type ref struct{ l []uint32 }

func (r *ref) add(e uint32) bool {
	if contains(r.l, e) {
		return false
	}
	r.l = append(r.l, e)
	return true
}

func (r *ref) del(e uint32) bool {
	for i, x := range r.l {
		if x == e {
			r.l = append(append([]uint32{}, r.l[:i]...), r.l[i+1:]...)
			return true
		}
	}
	return false
}

// expected result of a Set operation per the mathematical definition, as a Coq term of type out
func (r *ref) expect(o op) string {
	switch o.K {
	case "Add":
		return "RBool " + vx.Bool(r.add(o.E))
	case "Delete":
		return "RBool " + vx.Bool(r.del(o.E))
	case "Has":
		return "RBool " + vx.Bool(contains(r.l, o.E))
	case "AddAll":
		added := []uint32{}
		for _, e := range o.L {
			if r.add(e) {
				added = append(added, e)
			}
		}
		return "RList " + nl(added)
	case "DeleteAll":
		rem := []uint32{}
		for _, e := range o.L {
			if r.del(e) {
				rem = append(rem, e)
			}
		}
		return "RList " + nl(rem)
	case "Apply", "Compute":
		a, d := o.L, o.D
		if o.K == "Compute" {
			switch o.F {
			case "toggle":
				if contains(r.l, o.E) {
					a, d = nil, []uint32{o.E}
				} else {
					a, d = []uint32{o.E}, nil
				}
			case "compl":
				a = []uint32{}
				for _, x := range o.L {
					if !contains(r.l, x) {
						a = append(a, x)
					}
				}
				d = append([]uint32{}, r.l...)
			}
		}
		added, rem := []uint32{}, []uint32{}
		for _, e := range a {
			if r.add(e) {
				added = append(added, e)
			}
		}
		for _, e := range d {
			if r.del(e) {
				rem = append(rem, e)
			}
		}
		return "RMut " + nl(added) + " " + nl(rem)
	case "Replace":
		prev := r.l
		r.l = dedup(o.L)
		rem := []uint32{}
		for _, p := range prev {
			if !contains(r.l, p) {
				rem = append(rem, p)
			}
		}
		return "RList " + nl(rem)
	case "Clear":
		r.l = []uint32{}
		return "RUnit"
	case "HasAll":
		ok := true
		for _, e := range o.L {
			ok = ok && contains(r.l, e)
		}
		return "RBool " + vx.Bool(ok)
	case "Equals":
		ok := len(o.L) == len(r.l)
		for _, e := range o.L {
			ok = ok && contains(r.l, e)
		}
		return "RBool " + vx.Bool(ok)
	case "Intersect", "Filter":
		p := o.pred()
		if o.K == "Intersect" {
			p = func(e uint32) bool { return contains(o.L, e) }
		}
		res := []uint32{}
		for _, e := range r.l {
			if p(e) {
				res = append(res, e)
			}
		}
		return "RList " + nl(res)
	case "Any":
		if len(r.l) == 0 {
			return "ROpt None"
		}
		return "ROpt " + optN(true, r.l[0])
	case "Is":
		return "RBool " + vx.Bool(len(r.l) == 1 && r.l[0] == o.E)
	case "Clone", "ToSlice":
		return "RList " + nl(r.l)
	case "Size":
		return "RNat " + vx.Nat(len(r.l))
	case "IsEmpty":
		return "RBool " + vx.Bool(len(r.l) == 0)
	case "ForEach":
		if o.N > 0 && o.N <= len(r.l) {
			return visitTerm(r.l[:o.N], false)
		}
		return visitTerm(r.l, true)
	case "Encode":
		b := u32le(uint32(len(r.l)))
		for _, e := range r.l {
			b = append(b, u32le(e)...)
		}
		return "RBytes " + bl(b)
	case "Decode":
		b := o.B
		if len(b) < 4 {
			return "RDec None"
		}
		n := uint32(b[0]) | uint32(b[1])<<8 | uint32(b[2])<<16 | uint32(b[3])<<24
		pos := 4
		for i := uint32(0); i < n; i++ {
			if len(b)-pos < 4 {
				return "RDec None"
			}
			r.add(uint32(b[pos]) | uint32(b[pos+1])<<8 | uint32(b[pos+2])<<16 | uint32(b[pos+3])<<24)
			pos += 4
		}
		return "RDec (Some " + vx.Nat(pos) + ")"
	}
	panic("expect " + o.K)
}

// ---------------------------------------------------------------------------------------------------------------
// real code
// ---------------------------------------------------------------------------------------------------------------

func runSetOp(s ds.Set[uint32], o op) (res string) {
	defer func() {
		if r := recover(); r != nil {
			res = "RUnit (* panic: " + strings.ReplaceAll(fmt.Sprint(r), "*)", "") + " *)"
			if o.K == "Clear" {
				res = "RBool false (* panic *)"
			}
		}
	}()
	switch o.K {
	case "Add":
		return "RBool " + vx.Bool(s.Add(o.E))
	case "Delete":
		return "RBool " + vx.Bool(s.Delete(o.E))
	case "Has":
		return "RBool " + vx.Bool(s.Has(o.E))
	case "AddAll":
		return "RList " + nl(s.AddAll(ds.NewSet(o.L...)).ToSlice())
	case "DeleteAll":
		return "RList " + nl(s.DeleteAll(ds.NewSet(o.L...)).ToSlice())
	case "Apply":
		m := s.Apply(mutsOf(o.L, o.D))
		return "RMut " + nl(m.AddedElements().ToSlice()) + " " + nl(m.DeletedElements().ToSlice())
	case "Compute":
		m := s.Compute(o.factory())
		return "RMut " + nl(m.AddedElements().ToSlice()) + " " + nl(m.DeletedElements().ToSlice())
	case "Replace":
		return "RList " + nl(s.Replace(ds.NewSet(o.L...)).ToSlice())
	case "Clear":
		s.Clear()
		return "RUnit"
	case "HasAll":
		return "RBool " + vx.Bool(s.HasAll(ds.NewSet(o.L...)))
	case "Equals":
		return "RBool " + vx.Bool(s.Equals(ds.NewSet(o.L...)))
	case "Intersect":
		return "RList " + nl(s.Intersect(ds.NewSet(o.L...)).ToSlice())
	case "Filter":
		return "RList " + nl(s.Filter(o.pred()).ToSlice())
	case "Any":
		e, ok := s.Any()
		return "ROpt " + optN(ok, e)
	case "Is":
		return "RBool " + vx.Bool(s.Is(o.E))
	case "Clone":
		return "RList " + nl(s.Clone().ToSlice())
	case "Size":
		return "RNat " + vx.Nat(s.Size())
	case "IsEmpty":
		return "RBool " + vx.Bool(s.IsEmpty())
	case "ToSlice":
		return "RList " + nl(s.ToSlice())
	case "ForEach":
		seen := []uint32{}
		err := s.ForEach(func(e uint32) error {
			seen = append(seen, e)
			if len(seen) == o.N {
				return fmt.Errorf("stop")
			}
			return nil
		})
		return visitTerm(seen, err == nil)
	case "Encode":
		b, err := s.Encode(serix.DefaultAPI)
		if err != nil {
			return "RUnit (* encode error *)"
		}
		return "RBytes " + bl(b)
	case "Decode":
		n, err := s.Decode(serix.DefaultAPI, o.B)
		if err != nil {
			if n != 0 {
				return "RUnit (* error with bytesRead != 0 *)"
			}
			return "RDec None"
		}
		return "RDec (Some " + vx.Nat(n) + ")"
	}
	panic("runSetOp " + o.K)
}

func mapPairs(m *orderedmap.OrderedMap[uint32, uint32]) []pair {
	r := []pair{}
	m.ForEach(func(k, v uint32) bool { r = append(r, pair{k, v}); return true })
	return r
}

func runMapOp(m *orderedmap.OrderedMap[uint32, uint32], o op) string {
	optP := func(k, v uint32, ok bool) string {
		return "ROptP " + vx.Opt(ok, vx.Pair(vx.N(uint64(k)), vx.N(uint64(v))))
	}
	switch o.K {
	case "Set":
		p, ok := m.Set(o.E, o.V)
		return "ROpt " + optN(ok, p)
	case "Get":
		v, ok := m.Get(o.E)
		return "ROpt " + optN(ok, v)
	case "Has":
		return "RBool " + vx.Bool(m.Has(o.E))
	case "MDelete":
		return "RBool " + vx.Bool(m.Delete(o.E))
	case "Head":
		return optP(m.Head())
	case "Tail":
		return optP(m.Tail())
	case "Pairs", "RevPairs":
		seen := []pair{}
		f := func(k, v uint32) bool { seen = append(seen, pair{k, v}); return len(seen) != o.N }
		var b bool
		if o.K == "Pairs" {
			b = m.ForEach(f)
		} else {
			b = m.ForEachReverse(f)
		}
		return "RPairs " + pairsTerm(seen) + " " + vx.Bool(b)
	case "MClone":
		return "RPairs " + pairsTerm(mapPairs(m.Clone())) + " true"
	case "Clear":
		m.Clear()
		return "RUnit"
	case "Size":
		return "RNat " + vx.Nat(m.Size())
	case "IsEmpty":
		return "RBool " + vx.Bool(m.IsEmpty())
	}
	panic("runMapOp " + o.K)
}

// reference ordered map
type refMap struct{ l []pair }

func (r *refMap) idx(k uint32) int {
	for i, p := range r.l {
		if p.k == k {
			return i
		}
	}
	return -1
}

func (r *refMap) expect(o op) string {
	optP := func(ok bool, p pair) string {
		return "ROptP " + vx.Opt(ok, vx.Pair(vx.N(uint64(p.k)), vx.N(uint64(p.v))))
	}
	switch o.K {
	case "Set":
		if i := r.idx(o.E); i >= 0 {
			old := r.l[i].v
			r.l[i].v = o.V
			return "ROpt " + optN(true, old)
		}
		r.l = append(r.l, pair{o.E, o.V})
		return "ROpt None"
	case "Get":
		if i := r.idx(o.E); i >= 0 {
			return "ROpt " + optN(true, r.l[i].v)
		}
		return "ROpt None"
	case "Has":
		return "RBool " + vx.Bool(r.idx(o.E) >= 0)
	case "MDelete":
		if i := r.idx(o.E); i >= 0 {
			r.l = append(append([]pair{}, r.l[:i]...), r.l[i+1:]...)
			return "RBool true"
		}
		return "RBool false"
	case "Head":
		if len(r.l) == 0 {
			return optP(false, pair{})
		}
		return optP(true, r.l[0])
	case "Tail":
		if len(r.l) == 0 {
			return optP(false, pair{})
		}
		return optP(true, r.l[len(r.l)-1])
	case "Pairs", "RevPairs":
		l := append([]pair{}, r.l...)
		if o.K == "RevPairs" {
			for i, j := 0, len(l)-1; i < j; i, j = i+1, j-1 {
				l[i], l[j] = l[j], l[i]
			}
		}
		if o.N > 0 && o.N <= len(l) {
			return "RPairs " + pairsTerm(l[:o.N]) + " false"
		}
		return "RPairs " + pairsTerm(l) + " true"
	case "MClone":
		return "RPairs " + pairsTerm(r.l) + " true"
	case "Clear":
		r.l = nil
		return "RUnit"
	case "Size":
		return "RNat " + vx.Nat(len(r.l))
	case "IsEmpty":
		return "RBool " + vx.Bool(len(r.l) == 0)
	}
	panic("refMap " + o.K)
}

// ---------------------------------------------------------------------------------------------------------------
// generators
// ---------------------------------------------------------------------------------------------------------------

var pool = []uint32{0, 1, 2, 3, 4, 5, 7, 255, 256, 65536, 1 << 31, ^uint32(0)}

func universe(r *vx.Rng) []uint32 {
	n := 2 + r.Intn(5) // 2..6 elements
	u := []uint32{}
	for len(u) < n {
		x := vx.Pick(r, pool)
		if r.Chance(2, 3) {
			x = uint32(r.Intn(6))
		}
		if !contains(u, x) {
			u = append(u, x)
		}
	}
	return u
}

// sub: a random list over u (may repeat: NewSet deduplicates), length 0..len(u)+1
func sub(r *vx.Rng, u []uint32) []uint32 {
	n := r.Intn(len(u) + 2)
	l := []uint32{}
	for i := 0; i < n; i++ {
		l = append(l, vx.Pick(r, u))
	}
	return l
}

func encodeList(l []uint32, count uint32) []byte {
	b := u32le(count)
	for _, e := range l {
		b = append(b, u32le(e)...)
	}
	return b
}

func genDecode(r *vx.Rng, u []uint32) []byte {
	l := sub(r, u)
	b := encodeList(l, uint32(len(l)))
	switch r.Intn(10) {
	case 0: // truncated
		if len(b) > 0 {
			b = b[:r.Intn(len(b))]
		}
	case 1: // count larger than the entries present
		b = encodeList(l, uint32(len(l)+1+r.Intn(3)))
	case 2: // trailing bytes / count smaller
		b = append(b, byte(r.Intn(256)), byte(r.Intn(256)))
	case 3:
		if len(l) > 0 {
			b = encodeList(l, uint32(len(l)-1))
		}
	case 4:
		b = []byte{}
	}
	return b
}

func genSetOp(r *vx.Rng, u []uint32) op {
	if r.Chance(1, 12) {
		return op{K: "SForEachRe", S: genReScript(r, u, true)}
	}
	e := vx.Pick(r, u)
	k := r.Intn(100)
	switch {
	case k < 12:
		return op{K: "Add", E: e}
	case k < 22:
		return op{K: "Delete", E: e}
	case k < 26:
		return op{K: "Has", E: e}
	case k < 33:
		return op{K: "AddAll", L: dedup(sub(r, u))}
	case k < 40:
		return op{K: "DeleteAll", L: dedup(sub(r, u))}
	case k < 48:
		return op{K: "Apply", L: dedup(sub(r, u)), D: dedup(sub(r, u))}
	case k < 55:
		switch r.Intn(3) {
		case 0:
			return op{K: "Compute", F: "const", L: dedup(sub(r, u)), D: dedup(sub(r, u))}
		case 1:
			return op{K: "Compute", F: "toggle", E: e}
		}
		return op{K: "Compute", F: "compl", L: u}
	case k < 62:
		return op{K: "Replace", L: dedup(sub(r, u))}
	case k < 64:
		return op{K: "Clear"}
	case k < 68:
		return op{K: "HasAll", L: dedup(sub(r, u))}
	case k < 73:
		l := dedup(sub(r, u))
		return op{K: "Equals", L: l}
	case k < 77:
		return op{K: "Intersect", L: dedup(sub(r, u))}
	case k < 80:
		switch r.Intn(3) {
		case 0:
			return op{K: "Filter", F: "lt", E: e}
		case 1:
			return op{K: "Filter", F: "even"}
		}
		return op{K: "Filter", F: "in", L: dedup(sub(r, u))}
	case k < 82:
		return op{K: "Any"}
	case k < 85:
		return op{K: "Is", E: e}
	case k < 87:
		return op{K: "Clone"}
	case k < 89:
		return op{K: "Size"}
	case k < 90:
		return op{K: "IsEmpty"}
	case k < 92:
		return op{K: "ToSlice"}
	case k < 95:
		return op{K: "ForEach", N: r.Intn(len(u) + 1)}
	case k < 97:
		return op{K: "Encode"}
	}
	return op{K: "Decode", B: genDecode(r, u)}
}

func genMapOp(r *vx.Rng, u []uint32) op {
	if r.Chance(1, 7) {
		return op{K: "ForEachRe", S: genReScript(r, u, false)}
	}
	e := vx.Pick(r, u)
	k := r.Intn(100)
	switch {
	case k < 30:
		return op{K: "Set", E: e, V: uint32(r.Intn(4))}
	case k < 40:
		return op{K: "Get", E: e}
	case k < 45:
		return op{K: "Has", E: e}
	case k < 65:
		return op{K: "MDelete", E: e}
	case k < 70:
		return op{K: "Head"}
	case k < 75:
		return op{K: "Tail"}
	case k < 81:
		return op{K: "Pairs", N: r.Intn(len(u) + 1)}
	case k < 89:
		return op{K: "RevPairs", N: r.Intn(len(u) + 1)}
	case k < 93:
		return op{K: "MClone"}
	case k < 95:
		return op{K: "Clear"}
	case k < 98:
		return op{K: "Size"}
	}
	return op{K: "IsEmpty"}
}

// ---------------------------------------------------------------------------------------------------------------
// cases
// ---------------------------------------------------------------------------------------------------------------

func obsTerm(out string, pairs []pair, size int) string {
	return "mkObs (" + out + ") " + pairsTerm(pairs) + " " + vx.Nat(size)
}

func setPairs(l []uint32) []pair {
	p := make([]pair, len(l))
	for i, e := range l {
		p[i] = pair{e, 0}
	}
	return p
}

func emitSet(cf *vx.CasesFile, st *vx.Stats, init []uint32, h []op, tag string) {
	s := ds.NewSet(init...)
	r := &ref{l: dedup(init)}
	obs := make([]string, len(h))
	ops := make([]string, len(h))
	mutating := 0
	for i, o := range h {
		before := append([]uint32{}, r.l...)
		var got, want string
		if o.K == "SForEachRe" {
			got, want = reIterSet(s, r, o, st)
		} else {
			got = runSetOp(s, o)
			want = r.expect(o)
		}
		now := s.ToSlice()
		obs[i] = obsTerm(got, setPairs(now), s.Size())
		ops[i] = o.coq()
		st.Count("set:" + o.K)
		if !eqSlice(before, r.l) {
			mutating++
		}
		if got != want || !eqSlice(now, r.l) || s.Size() != len(r.l) {
			st.Fail(map[string]any{"sig": "", "kind": "set", "init": init, "history": h[:i+1], "op": o, "got": got, "want": want, "contents": now, "want_contents": r.l})
			ops, obs = ops[:i+1], obs[:i+1]
			break
		}
	}
	cf.Add("CSet " + nl(init) + " " + vx.List(ops) + " " + vx.List(obs))
	st.Case("S"+nl(init)+strings.Join(ops, ";"), mutating >= 2)
	st.CaseIndex = append(st.CaseIndex, map[string]any{"tag": tag, "kind": "set", "init": init, "history": h})
	st.Sample(map[string]any{"kind": "set", "init": init, "history": ops, "observed": obs}, 2)
}

func emitMap(cf *vx.CasesFile, st *vx.Stats, h []op, tag string) {
	m := orderedmap.New[uint32, uint32]()
	r := &refMap{}
	obs := make([]string, len(h))
	ops := make([]string, len(h))
	mutating := 0
	for i, o := range h {
		n0 := fmt.Sprint(r.l)
		var got, want string
		if o.K == "ForEachRe" {
			got, want = reIterMap(m, r, o, st)
		} else {
			got = runMapOp(m, o)
			want = r.expect(o)
		}
		now := mapPairs(m)
		obs[i] = obsTerm(got, now, m.Size())
		ops[i] = o.coq()
		st.Count("map:" + o.K)
		if n0 != fmt.Sprint(r.l) {
			mutating++
		}
		if got != want || fmt.Sprint(now) != fmt.Sprint(append([]pair{}, r.l...)) || m.Size() != len(r.l) {
			st.Fail(map[string]any{"sig": "", "kind": "map", "history": h[:i+1], "op": o, "got": got, "want": want, "contents": now, "want_contents": fmt.Sprint(r.l)})
			ops, obs = ops[:i+1], obs[:i+1]
			break
		}
	}
	cf.Add("CMap " + vx.List(ops) + " " + vx.List(obs))
	st.Case("M"+strings.Join(ops, ";"), mutating >= 2)
	st.CaseIndex = append(st.CaseIndex, map[string]any{"tag": tag, "kind": "map", "history": h})
	st.Sample(map[string]any{"kind": "map", "history": ops, "observed": obs}, 3)
}

type aop struct {
	Sub bool     `json:"sub"`
	A   []uint32 `json:"a"`
	D   []uint32 `json:"d"`
	Thr int      `json:"thr"`
	Def bool     `json:"default_thr"`
}

func emitArith(cf *vx.CasesFile, st *vx.Stats, h []aop, tag string) {
	ar := ds.NewSetArithmetic[uint32]()
	cnt := map[uint32]int{}
	ops := make([]string, len(h))
	obs := make([]string, len(h))
	crossings := 0
	for i, o := range h {
		var m ds.SetMutations[uint32]
		thr := o.Thr
		if o.Def {
			thr = 1
		}
		args := []int{o.Thr}
		if o.Def {
			args = nil
		}
		if o.Sub {
			m = ar.Subtract(mutsOf(o.A, o.D), args...)
		} else {
			m = ar.Add(mutsOf(o.A, o.D), args...)
		}
		ga, gd := m.AddedElements().ToSlice(), m.DeletedElements().ToSlice()
		// oracle: exactly the elements whose (count >= thr) status changed in this call
		old := map[uint32]int{}
		touched := dedup(append(append([]uint32{}, o.A...), o.D...))
		for _, e := range touched {
			old[e] = cnt[e]
		}
		inc, dec := o.A, o.D
		if o.Sub {
			inc, dec = o.D, o.A
		}
		for _, e := range inc {
			cnt[e]++
		}
		for _, e := range dec {
			cnt[e]--
		}
		ok := true
		for _, e := range touched {
			up := old[e] < thr && cnt[e] >= thr
			down := old[e] >= thr && cnt[e] < thr
			if contains(ga, e) != up || contains(gd, e) != down {
				ok = false
			}
		}
		for _, e := range append(append([]uint32{}, ga...), gd...) {
			if !contains(touched, e) {
				ok = false
			}
		}
		crossings += len(ga) + len(gd)
		if !ok {
			st.Fail(map[string]any{"sig": "", "kind": "arith", "history": h[:i+1], "added": ga, "deleted": gd})
		}
		name := "AAdd"
		if o.Sub {
			name = "ASub"
		}
		ops[i] = fmt.Sprintf("%s %s %s (%s)", name, nl(o.A), nl(o.D), vx.Z(int64(thr)))
		obs[i] = "mkAObs " + nl(ga) + " " + nl(gd)
		st.Count("arith:" + name)
	}
	cf.Add("CArith " + vx.List(ops) + " " + vx.List(obs))
	st.Case("A"+strings.Join(ops, ";"), crossings >= 2)
	st.CaseIndex = append(st.CaseIndex, map[string]any{"tag": tag, "kind": "arith", "history": h})
	st.Sample(map[string]any{"kind": "arith", "history": ops, "observed": obs}, 4)
}

func genArith(r *vx.Rng, n int) []aop {
	u := universe(r)
	thrs := []int{1, 1, 2, 2, 3, 0, -1}
	fixed := vx.Pick(r, thrs)
	h := []aop{}
	for i := 0; i < n; i++ {
		o := aop{Sub: r.Chance(2, 5), A: dedup(sub(r, u)), D: dedup(sub(r, u)), Thr: fixed}
		if r.Chance(1, 6) {
			o.Thr = vx.Pick(r, thrs)
		}
		if o.Thr == 1 && r.Bool() {
			o.Def = true
		}
		if r.Chance(3, 5) { // usual use: disjoint added/deleted
			d := []uint32{}
			for _, e := range o.D {
				if !contains(o.A, e) {
					d = append(d, e)
				}
			}
			o.D = d
		}
		h = append(h, o)
	}
	return h
}

func directedSets() (inits [][]uint32, hs [][]op) {
	add := func(init []uint32, h ...op) { inits = append(inits, init); hs = append(hs, h) }
	// D11a (repaired): Replace returns the removed elements only
	add([]uint32{1, 2}, op{K: "Replace", L: []uint32{2, 3}}, op{K: "ToSlice"})
	// D11b (repaired) sequential part: DeleteAll reports exactly the deleted ones, in argument order
	add([]uint32{1, 2, 3}, op{K: "DeleteAll", L: []uint32{3, 9, 1}}, op{K: "ToSlice"})
	// re-insertion moves an element to the end; Any follows the order
	add([]uint32{1, 2, 3}, op{K: "Delete", E: 1}, op{K: "Add", E: 1}, op{K: "Any"}, op{K: "ToSlice"}, op{K: "Delete", E: 3}, op{K: "Delete", E: 2}, op{K: "Delete", E: 1}, op{K: "Any"}, op{K: "Add", E: 5})
	// Apply with overlapping added/deleted sets: both report the element (membership unchanged)
	add([]uint32{}, op{K: "Apply", L: []uint32{1}, D: []uint32{1}}, op{K: "Apply", L: []uint32{2, 3}, D: []uint32{3, 4}})
	// codec: round trip into a non-empty set, duplicates, short input keeps the decoded prefix
	add([]uint32{7, ^uint32(0), 256}, op{K: "Encode"}, op{K: "Decode", B: encodeList([]uint32{256, 5, 5, 65536}, 4)}, op{K: "Decode", B: encodeList([]uint32{9, 8}, 3)}, op{K: "Decode", B: []byte{1, 0, 0}}, op{K: "Encode"})
	add([]uint32{1, 2, 3}, op{K: "Clear"}, op{K: "Any"}, op{K: "Add", E: 2}, op{K: "Equals", L: []uint32{2}}, op{K: "Is", E: 2}, op{K: "Compute", F: "compl", L: []uint32{1, 2, 3}})
	return
}

var hangs int

// guarded runs one lockstep case under a watchdog; a hang or a panic of the real code becomes an oracle failure
func guarded(st *vx.Stats, desc any, f func()) {
	done := make(chan any, 1)
	go func() {
		defer func() { done <- recover() }()
		f()
	}()
	select {
	case p := <-done:
		if p != nil {
			st.Fail(map[string]any{"sig": "", "kind": "panic in a sequential history", "panic": fmt.Sprint(p), "case": desc})
		}
	case <-time.After(6 * time.Second):
		hangs++
		st.Fail(map[string]any{"sig": "", "kind": "a sequential history did not return within 6 s (lock never released?)", "case": desc})
	}
}

func hist(args []string) {
	fs := flag.NewFlagSet("hist", flag.ExitOnError)
	n := fs.Int("n", 400, "")
	maxLen := fs.Int("len", 30, "")
	seed := fs.Uint64("seed", 1, "")
	out := fs.String("out", "cases.v", "")
	stats := fs.String("stats", "stats.json", "")
	_ = fs.Parse(args)
	r := vx.NewRng(mixSeed(*seed))
	st := vx.NewStats("lockstep histories on universes of 2..6 uint32 elements (small values and byte-boundary values): ds.Set with all interface methods (60%), orderedmap.OrderedMap[uint32,uint32] (25%), ds.SetArithmetic with thresholds {default,1,2,3,0,-1} (15%); every result + contents/order/size after every op; distinct = distinct histories; non-trivial = at least two content-changing ops (sets/maps) or two reported crossings (arith)")
	cf := &vx.CasesFile{
		Header: "From Coq Require Import NArith ZArith List.\nFrom Verif.C11_Set Require Import Model Corr.\nImport ListNotations.\nOpen Scope N_scope.\n",
		Type:   "case",
		Footer: "Definition M := Eval vm_compute in mismatches cases.\nPrint M.\n",
	}
	// known finding: Apply with an element in both mutation sets reports it as added and as deleted though its membership is unchanged
	{
		s := ds.NewSet[uint32]()
		m := s.Apply(mutsOf([]uint32{1}, []uint32{1}))
		if s.Size() == 0 && eqSlice(m.AddedElements().ToSlice(), []uint32{1}) && eqSlice(m.DeletedElements().ToSlice(), []uint32{1}) {
			st.Known = append(st.Known, "apply-overlap-reports-unchanged-element")
		}
	}
	inits, hs := directedSets()
	for i := range hs {
		i := i
		guarded(st, hs[i], func() { emitSet(cf, st, inits[i], hs[i], "directed") })
	}
	emitMap(cf, st, []op{{K: "Set", E: 1, V: 1}, {K: "Set", E: 2, V: 2}, {K: "Set", E: 3, V: 3}, {K: "Set", E: 2, V: 9}, {K: "MDelete", E: 2}, {K: "RevPairs"}, {K: "MDelete", E: 1}, {K: "Head"}, {K: "MDelete", E: 3}, {K: "Tail"}, {K: "Set", E: 2, V: 1}, {K: "Pairs", N: 1}}, "directed")
	// iteration with a consumer that mutates the receiver: every command at the first / a middle / the last element
	for i, sc := range directedReScripts() {
		sc := sc
		h := []op{{K: "Set", E: 1, V: 1}, {K: "Set", E: 2, V: 2}, {K: "Set", E: 3, V: 3}, {K: "Set", E: 4, V: 0}, {K: "Set", E: 5, V: 1}, {K: "ForEachRe", S: sc}, {K: "RevPairs"}, {K: "Set", E: 2, V: 5}, {K: "Pairs"}}
		guarded(st, h, func() { emitMap(cf, st, h, "directed-reentrant") })
		if !sc.Rev && i%2 == 0 {
			via := []string{"ForEach", "Range", "Filter"}[(i/2)%3]
			if sc.Stop >= 0 {
				via = "ForEach"
			}
			cp := *sc
			cp.Via = via
			hs := []op{{K: "SForEachRe", S: &cp}, {K: "ToSlice"}, {K: "Add", E: 2}, {K: "ToSlice"}}
			guarded(st, hs, func() { emitSet(cf, st, []uint32{1, 2, 3, 4, 5}, hs, "directed-reentrant") })
		}
	}
	for tries := 0; cf.Len() < *n && tries < 2**n && len(st.OracleFailures) < 20 && hangs < 3; tries++ {
		rr := r.Fork()
		u := universe(rr)
		l := 3 + rr.Intn(*maxLen)
		k := rr.Intn(100)
		switch {
		case k < 60:
			h := make([]op, l)
			for i := range h {
				h[i] = genSetOp(rr, u)
			}
			init := sub(rr, u)
			guarded(st, map[string]any{"init": init, "history": h}, func() { emitSet(cf, st, init, h, "random") })
		case k < 85:
			h := make([]op, l)
			for i := range h {
				h[i] = genMapOp(rr, u)
			}
			guarded(st, h, func() { emitMap(cf, st, h, "random") })
		default:
			ah := genArith(rr, 2+l/2)
			guarded(st, ah, func() { emitArith(cf, st, ah, "random") })
		}
	}
	if err := cf.Write(*out); err != nil {
		vx.Die("%v", err)
	}
	if err := st.Write(*stats); err != nil {
		vx.Die("%v", err)
	}
}

func main() {
	if len(os.Args) < 2 {
		vx.Die("usage: hx-c11 hist|conc|codec [flags] --seed S --out cases.v --stats stats.json")
	}
	switch os.Args[1] {
	case "hist":
		hist(os.Args[2:])
	case "conc":
		conc(os.Args[2:])
	case "codec":
		codecCmd(os.Args[2:])
	default:
		vx.Die("unknown subcommand %s", os.Args[1])
	}
}
