package main

import (
	"fmt"
	"time"
)

func main() {
	d, a := probeD11b(50*time.Millisecond, 2*time.Second)
	fmt.Println("DeleteAll returned:", d, "Apply returned:", a)
}
