// hx-c11 codec: error paths of the ordered-map / set codec (round 2, seed class "an entry whose serix encoding fails").
//
// SerializableOrderedMap[K,V] and ds.Set[K] are instantiated with key / value types whose serix codec can FAIL:
//   - kstr / vstr / vbytes: string / []byte with a one-byte length prefix: more than 255 bytes cannot be encoded
//   - *vrec: a pointer to a struct: the nil pointer cannot be encoded
//   - fkey / fval: serix.Serializable types with a scripted failure (the error names the entry)
//
// next to uint32 and types.Empty that never fail. Failing keys and failing values are placed at every position
// (first / middle / last, alone and combined) and at random.
//
// Go oracle (independent of the Coq model; the per-entry codec = api.Encode / api.Decode of ONE key or value is the
// fault oracle): Encode returns an error iff the encoding of some key or value fails, and then no bytes; otherwise the
// bytes are count ++ (key ++ value)*, Decode of them into a fresh object restores contents and order and consumes all
// bytes. Decode of any input (every truncation, inflated count, trailing bytes, a corrupted byte, into a non-empty
// object) reports success iff count and all entries can be decoded, then with the right bytesRead and contents; an
// error comes with bytesRead 0.
// Coq: the same cases against CodecModel.som_encode / som_decode with table codecs.
package main

import (
	"bytes"
	"context"
	"errors"
	"flag"
	"fmt"
	"reflect"
	"strings"

	"github.com/iotaledger/hive.go/ds"
	"github.com/iotaledger/hive.go/ds/serializableorderedmap"
	"github.com/iotaledger/hive.go/ds/types"
	"github.com/iotaledger/hive.go/serializer/v2/serix"

	"verif/harness/vx"
)

type kstr string
type vstr string
type vbytes []byte
type vrec struct {
	A uint32 `serix:""`
	B uint8  `serix:""`
}

type faultErr struct {
	Key bool
	ID  uint16
}

func (e *faultErr) Error() string {
	return fmt.Sprintf("scripted codec fault key=%v id=%d", e.Key, e.ID)
}

var errMalformed = errors.New("malformed scripted value")

type fkey struct {
	ID  uint16
	Bad bool
}

func (k fkey) Encode() ([]byte, error) {
	if k.Bad {
		return nil, &faultErr{Key: true, ID: k.ID}
	}
	return []byte{0xF1, byte(k.ID), byte(k.ID >> 8)}, nil
}

func (k *fkey) Decode(b []byte) (int, error) {
	if len(b) < 3 || b[0] != 0xF1 {
		return 0, errMalformed
	}
	k.ID, k.Bad = uint16(b[1])|uint16(b[2])<<8, false
	return 3, nil
}

type fval struct {
	ID  uint16
	Bad bool
}

func (v fval) Encode() ([]byte, error) {
	if v.Bad {
		return nil, &faultErr{Key: false, ID: v.ID}
	}
	return []byte{0xF2, byte(v.ID), byte(v.ID >> 8)}, nil
}

func (v *fval) Decode(b []byte) (int, error) {
	if len(b) < 3 || b[0] != 0xF2 {
		return 0, errMalformed
	}
	v.ID, v.Bad = uint16(b[1])|uint16(b[2])<<8, false
	return 3, nil
}

func newCodecAPI() *serix.API {
	api := serix.NewAPI()
	lp := serix.TypeSettings{}.WithLengthPrefixType(serix.LengthPrefixTypeAsByte)
	for _, o := range []any{kstr(""), vstr(""), vbytes{}} {
		if err := api.RegisterTypeSettings(o, lp); err != nil {
			vx.Die("register: %v", err)
		}
	}
	return api
}

// ---------------------------------------------------------------------------------------------------------------

type kvp[K comparable, V any] struct {
	k K
	v V
}

type codecObj[K comparable, V any] interface {
	put(k K, v V)
	enc(api *serix.API) ([]byte, error)
	dec(api *serix.API, b []byte) (int, error)
	pairs() []kvp[K, V]
}

type somObj[K comparable, V any] struct {
	m *serializableorderedmap.SerializableOrderedMap[K, V]
}

func (o somObj[K, V]) put(k K, v V)                              { o.m.Set(k, v) }
func (o somObj[K, V]) enc(api *serix.API) ([]byte, error)        { return o.m.Encode(api) }
func (o somObj[K, V]) dec(api *serix.API, b []byte) (int, error) { return o.m.Decode(api, b) }
func (o somObj[K, V]) pairs() []kvp[K, V] {
	r := []kvp[K, V]{}
	o.m.ForEach(func(k K, v V) bool { r = append(r, kvp[K, V]{k, v}); return true })
	return r
}

type setObj[K comparable] struct{ s ds.Set[K] }

func (o setObj[K]) put(k K, _ types.Empty)                    { o.s.Add(k) }
func (o setObj[K]) enc(api *serix.API) ([]byte, error)        { return o.s.Encode(api) }
func (o setObj[K]) dec(api *serix.API, b []byte) (int, error) { return o.s.Decode(api, b) }
func (o setObj[K]) pairs() []kvp[K, types.Empty] {
	r := []kvp[K, types.Empty]{}
	for _, k := range o.s.ToSlice() {
		r = append(r, kvp[K, types.Empty]{k, types.Void})
	}
	return r
}

type family[K comparable, V any] struct {
	name         string
	mk           func() codecObj[K, V]
	key          func(r *vx.Rng, i int, bad bool) K // distinct for distinct i
	val          func(r *vx.Rng, bad bool) V
	kFail, vFail bool
}

// plan: n entries; kbad[i] / vbad[i]: the key / value of the i-th entry cannot be encoded; dup >= 0: a further Set of the
// dup-th key (keeps its position, replaces its value)
type plan struct {
	N    int    `json:"n"`
	KBad []bool `json:"key_fails"`
	VBad []bool `json:"value_fails"`
	Dup  int    `json:"reset_key"`
}

func (p plan) String() string {
	s := ""
	for i := 0; i < p.N; i++ {
		switch {
		case p.KBad[i] && p.VBad[i]:
			s += "B"
		case p.KBad[i]:
			s += "K"
		case p.VBad[i]:
			s += "V"
		default:
			s += "."
		}
	}
	return fmt.Sprintf("%s/dup%d", s, p.Dup)
}

func short(x any) string {
	s := fmt.Sprintf("%#v", x)
	if rv := reflect.ValueOf(x); rv.Kind() == reflect.Ptr && !rv.IsNil() {
		s = "&" + fmt.Sprintf("%#v", rv.Elem().Interface())
	}
	s = strings.ReplaceAll(s, "main.", "")
	if len(s) > 40 {
		s = fmt.Sprintf("%s...(%d chars)", s[:24], len(s))
	}
	return s
}

type runner func(p plan, rr *vx.Rng, cf *vx.CasesFile, st *vx.Stats, tag string)

// encOne: the per-entry codec (fault oracle): bytes or nil
func encOne(api *serix.API, x any) []byte {
	b, err := api.Encode(context.Background(), x)
	if err != nil {
		return nil
	}
	if b == nil {
		b = []byte{}
	}
	return b
}

// universe of keys or values with their codes; two objects with the same (successful) code are the same element
type univ struct {
	objs  []any
	codes [][]byte
}

func (u *univ) id(api *serix.API, x any) int {
	c := encOne(api, x)
	for i, o := range u.objs {
		if c != nil && u.codes[i] != nil && bytes.Equal(c, u.codes[i]) {
			return i
		}
		if c == nil && u.codes[i] == nil && reflect.DeepEqual(o, x) {
			return i
		}
	}
	return -1
}

func (u *univ) add(api *serix.API, x any) int {
	if i := u.id(api, x); i >= 0 {
		return i
	}
	u.objs = append(u.objs, x)
	u.codes = append(u.codes, encOne(api, x))
	return len(u.objs) - 1
}

func (u *univ) tbl() string {
	items := make([]string, len(u.objs))
	for i := range u.objs {
		items[i] = vx.Pair(fmt.Sprint(i), vx.Opt(u.codes[i] != nil, cbl(u.codes[i])))
	}
	return vx.List(items)
}

// cbl: bytes as a list of N without the %N suffix (the cases file opens N_scope): a third of the parse time
func cbl(b []byte) string {
	var sb strings.Builder
	sb.WriteString("[")
	for i, x := range b {
		if i > 0 {
			sb.WriteString(";")
		}
		fmt.Fprintf(&sb, "%d", x)
	}
	sb.WriteString("]")
	return sb.String()
}

type idPair struct{ k, v int }

func idPairsTerm(l []idPair) string {
	return vx.ListOf(l, func(p idPair) string { return fmt.Sprintf("(%d,%d)", p.k, p.v) })
}

// refDecode: count, then count times (key, value) with the per-entry decoders; Set semantics into init
func refDecode[K comparable, V any](api *serix.API, init []kvp[K, V], b []byte) (ok bool, read int, res []kvp[K, V]) {
	res = append([]kvp[K, V]{}, init...)
	if len(b) < 4 {
		return false, 0, res
	}
	n := uint32(b[0]) | uint32(b[1])<<8 | uint32(b[2])<<16 | uint32(b[3])<<24
	read = 4
	for i := uint32(0); i < n; i++ {
		var k K
		c, err := api.Decode(context.Background(), b[read:], &k)
		if err != nil {
			return false, 0, res
		}
		read += c
		var v V
		c, err = api.Decode(context.Background(), b[read:], &v)
		if err != nil {
			return false, 0, res
		}
		read += c
		found := false
		for j := range res {
			if res[j].k == k {
				res[j].v, found = v, true
			}
		}
		if !found {
			res = append(res, kvp[K, V]{k, v})
		}
	}
	return true, read, res
}

func samePairs[K comparable, V any](api *serix.API, a, b []kvp[K, V]) bool {
	if len(a) != len(b) {
		return false
	}
	for i := range a {
		if a[i].k != b[i].k {
			return false
		}
		ca, cb := encOne(api, a[i].v), encOne(api, b[i].v)
		if (ca == nil) != (cb == nil) || !bytes.Equal(ca, cb) {
			return false
		}
		if ca == nil && !reflect.DeepEqual(a[i].v, b[i].v) {
			return false
		}
	}
	return true
}

func descPairs[K comparable, V any](l []kvp[K, V]) []string {
	r := make([]string, len(l))
	for i, p := range l {
		r[i] = short(p.k) + " -> " + short(p.v)
	}
	return r
}

func mkRunner[K comparable, V any](api *serix.API, f family[K, V]) runner {
	return func(p plan, rr *vx.Rng, cf *vx.CasesFile, st *vx.Stats, tag string) {
		// ---- the entries
		entries := []kvp[K, V]{}
		for i := 0; i < p.N; i++ {
			entries = append(entries, kvp[K, V]{f.key(rr, i, p.KBad[i]), f.val(rr, p.VBad[i])})
		}
		if p.Dup >= 0 && p.Dup < p.N {
			entries = append(entries, kvp[K, V]{entries[p.Dup].k, f.val(rr, false)})
		}
		ku, vu := &univ{}, &univ{}
		ids := []idPair{}
		for _, e := range entries {
			ids = append(ids, idPair{ku.add(api, e.k), vu.add(api, e.v)})
		}
		// reference contents (Set semantics), and the fault-free sub-map
		ref := []kvp[K, V]{}
		for _, e := range entries {
			found := false
			for j := range ref {
				if ref[j].k == e.k {
					ref[j].v, found = e.v, true
				}
			}
			if !found {
				ref = append(ref, e)
			}
		}
		desc := map[string]any{"family": f.name, "plan": p, "entries_in_set_order": descPairs(entries)}
		fail := func(what string, more map[string]any) {
			m := map[string]any{"sig": "", "kind": "codec", "what": what}
			for k, v := range desc {
				m[k] = v
			}
			for k, v := range more {
				m[k] = v
			}
			st.Fail(m)
		}

		// ---- Encode
		obj := f.mk()
		for _, e := range entries {
			obj.put(e.k, e.v)
		}
		if got := obj.pairs(); !samePairs(api, got, ref) {
			fail("contents after Set differ from the reference", map[string]any{"contents": descPairs(got)})
		}
		want := u32le(uint32(len(ref)))
		firstFault := "" // "K<i>" / "V<i>"
		var faultID uint16
		for i, e := range ref {
			kb, vb := encOne(api, e.k), encOne(api, e.v)
			if kb == nil && firstFault == "" {
				firstFault = fmt.Sprintf("CEKey %d", i)
				if fk, ok := any(e.k).(fkey); ok {
					faultID = fk.ID
				}
			}
			if vb == nil && firstFault == "" {
				firstFault = fmt.Sprintf("CEVal %d", i)
				if fv, ok := any(e.v).(fval); ok {
					faultID = fv.ID
				}
			}
			want = append(append(want, kb...), vb...)
		}
		got, err := obj.enc(api)
		encObs := ""
		switch {
		case err != nil:
			encObs = "XErr None"
			var fe *faultErr
			if errors.As(err, &fe) { // a scripted fault names the api.Encode call that failed
				cls := "CEVal"
				if fe.Key {
					cls = "CEKey"
				}
				idx := -1
				for i, e := range ref {
					if fk, ok := any(e.k).(fkey); ok && fe.Key && fk.ID == fe.ID && fk.Bad {
						idx = i
					}
					if fv, ok := any(e.v).(fval); ok && !fe.Key && fv.ID == fe.ID && fv.Bad && idx < 0 {
						idx = i
					}
				}
				if idx >= 0 {
					encObs = fmt.Sprintf("XErr (Some (%s %d))", cls, idx)
				}
				if firstFault != "" && strings.HasPrefix(firstFault, cls) && fe.ID != faultID {
					fail("Encode reports a later scripted fault than the first one in iteration order", map[string]any{"first_fault": firstFault, "reported_id": fe.ID})
				}
			}
			if firstFault == "" {
				fail("Encode fails though every key and value can be encoded", map[string]any{"error_class": "encode-error"})
			}
			if len(got) != 0 {
				fail("Encode returns bytes together with an error", map[string]any{"bytes": fmt.Sprintf("%x", got)})
			}
		default:
			if got == nil {
				got = []byte{}
			}
			encObs = "XOk " + cbl(got)
			if firstFault != "" {
				more := map[string]any{"first_fault": firstFault, "bytes": fmt.Sprintf("%x", got)}
				fresh := f.mk()
				n, derr := fresh.dec(api, got)
				more["decode_of_these_bytes"] = fmt.Sprintf("bytesRead=%d error=%v contents=%v", n, derr != nil, descPairs(fresh.pairs()))
				fail("Encode returns a nil error although the encoding of an entry fails (truncated bytes reported as success)", more)
			} else {
				if !bytes.Equal(got, want) {
					fail("Encode output differs from count ++ (key ++ value)*", map[string]any{"bytes": fmt.Sprintf("%x", got), "want": fmt.Sprintf("%x", want)})
				}
				fresh := f.mk()
				n, derr := fresh.dec(api, got)
				if derr != nil || n != len(got) || !samePairs(api, fresh.pairs(), ref) {
					fail("Decode(Encode(m)) does not restore contents and order / consume all bytes", map[string]any{"bytes": fmt.Sprintf("%x", got), "bytesRead": n, "decode_error": derr != nil, "decoded": descPairs(fresh.pairs())})
				}
			}
		}
		st.Count("codec:" + f.name)
		if firstFault == "" {
			st.Count("codec-encode:ok")
		} else {
			st.Count("codec-encode:" + strings.Fields(firstFault)[0])
		}

		// ---- Decode: inputs derived from the encoding of the fault-free entries
		good := []kvp[K, V]{}
		for _, e := range ref {
			if encOne(api, e.k) != nil && encOne(api, e.v) != nil {
				good = append(good, e)
			}
		}
		gobj := f.mk()
		for _, e := range good {
			gobj.put(e.k, e.v)
		}
		gb, gerr := gobj.enc(api)
		dobs := []string{}
		toCoq := rr.Chance(1, 3) // the Go oracle judges every Decode; a third of the cases carry their Decode observations to Coq
		if gerr != nil {
			fail("Encode of the fault-free entries fails", map[string]any{"good": descPairs(good)})
		} else {
			type dinput struct {
				init []kvp[K, V]
				b    []byte
				coq  bool
				kind string
			}
			ins := []dinput{{nil, gb, true, "exact"}}
			cuts := map[int]bool{}
			for c := 0; c < len(gb); c++ { // every truncation for the Go oracle, a few of them for Coq
				cuts[c] = false
			}
			for i := 0; i < 2 && len(gb) > 0; i++ {
				cuts[rr.Intn(len(gb))] = true
			}
			if len(gb) > 0 {
				cuts[len(gb)-1] = true
			}
			for c := 0; c < len(gb); c++ {
				ins = append(ins, dinput{nil, gb[:c], cuts[c], "truncated"})
			}
			ins = append(ins, dinput{nil, append(append([]byte{}, gb...), 0xEE, byte(rr.Intn(256))), true, "trailing"})
			infl := append([]byte{}, gb...)
			copy(infl, u32le(uint32(len(good)+1+rr.Intn(2))))
			ins = append(ins, dinput{nil, infl, true, "count-inflated"})
			if len(good) > 0 {
				defl := append([]byte{}, gb...)
				copy(defl, u32le(uint32(rr.Intn(len(good)))))
				ins = append(ins, dinput{nil, defl, true, "count-deflated"})
				// into a non-empty object: some of the keys already there (with other values), in another order
				init := []kvp[K, V]{}
				for i := len(good) - 1; i >= 0; i-- {
					if rr.Bool() {
						init = append(init, kvp[K, V]{good[i].k, f.val(rr, false)})
					}
				}
				ins = append(ins, dinput{init, gb, true, "into-non-empty"})
				if len(gb) > 4 {
					ins = append(ins, dinput{init, gb[:4+rr.Intn(len(gb)-4)], true, "truncated-into-non-empty"})
				}
			}
			for i := 0; i < 3 && len(gb) > 4; i++ { // a corrupted byte behind the count: judged by the reference decoder only
				cb := append([]byte{}, gb...)
				cb[4+rr.Intn(len(gb)-4)] ^= byte(1 << rr.Intn(8))
				ins = append(ins, dinput{nil, cb, false, "corrupted"})
			}
			for _, in := range ins {
				o := f.mk()
				for _, e := range in.init {
					o.put(e.k, e.v)
				}
				initIDs := []idPair{}
				for _, e := range in.init {
					initIDs = append(initIDs, idPair{ku.add(api, e.k), vu.add(api, e.v)})
				}
				n, derr := o.dec(api, in.b)
				after := o.pairs()
				wok, wread, wres := refDecode(api, in.init, in.b)
				st.Count("codec-decode:" + in.kind)
				more := map[string]any{"input_kind": in.kind, "input": fmt.Sprintf("%x", in.b), "into": descPairs(in.init), "bytesRead": n, "decode_error": derr != nil, "contents": descPairs(after)}
				switch {
				case derr == nil && !wok:
					fail("Decode reports success on an input whose count/entries cannot all be decoded (half-filled object reported as success)", more)
				case derr != nil && wok:
					fail("Decode fails on a well-formed input", more)
				case derr == nil && (n != wread || !samePairs(api, after, wres)):
					more["want_bytesRead"], more["want_contents"] = wread, descPairs(wres)
					fail("Decode succeeds with wrong bytesRead / contents / order", more)
				case derr != nil && n != 0:
					fail("Decode returns an error together with bytesRead != 0", more)
				}
				if !in.coq || !toCoq || len(gb) > 120 {
					continue
				}
				res := "None"
				if derr == nil {
					res = "(Some " + vx.Nat(n) + ")"
				}
				ap, okIDs := []idPair{}, true
				for _, e := range after {
					ki, vi := ku.id(api, e.k), vu.id(api, e.v)
					okIDs = okIDs && ki >= 0 && vi >= 0
					ap = append(ap, idPair{ki, vi})
				}
				if okIDs {
					dobs = append(dobs, "mkDObs "+idPairsTerm(initIDs)+" "+cbl(in.b)+" "+res+" "+idPairsTerm(ap))
				}
			}
		}
		cf.Add("CCodec " + idPairsTerm(ids) + " " + ku.tbl() + " " + vu.tbl() + " (" + encObs + ") " + vx.List(dobs))
		st.Case("C"+f.name+p.String()+fmt.Sprint(descPairs(entries)), p.N >= 2)
		st.CaseIndex = append(st.CaseIndex, map[string]any{"tag": tag, "kind": "codec", "family": f.name, "plan": p, "entries_in_set_order": descPairs(entries)})
		st.Sample(map[string]any{"kind": "codec", "family": f.name, "plan": p.String(), "entries": descPairs(entries), "encode": encObs}, 6)
	}
}

// ---------------------------------------------------------------------------------------------------------------
// key / value generators
// ---------------------------------------------------------------------------------------------------------------

var codecU32 = []uint32{0, 1, 2, 255, 256, 65535, 65536, 1 << 24, 1 << 31, ^uint32(0), 7, 3}

func strOf(r *vx.Rng, c byte, bad bool) string {
	if bad {
		return strings.Repeat(string(rune(c)), 256+r.Intn(3)*22)
	}
	if r.Chance(1, 25) {
		return strings.Repeat(string(rune(c)), 255) // the longest string that can be encoded
	}
	return strings.Repeat(string(rune(c)), 1+r.Intn(3))
}

func keyU32(off int) func(*vx.Rng, int, bool) uint32 {
	return func(_ *vx.Rng, i int, _ bool) uint32 { return codecU32[(off+i)%len(codecU32)] }
}
func keyStr(r *vx.Rng, i int, bad bool) kstr {
	if i == 0 && !bad && r.Chance(1, 4) {
		return ""
	}
	return kstr(strOf(r, byte('a'+i), bad))
}
func keyF(r *vx.Rng, i int, bad bool) fkey { return fkey{ID: uint16(i*257 + 1), Bad: bad} }

func valEmpty(*vx.Rng, bool) types.Empty { return types.Void }
func valU32(r *vx.Rng, _ bool) uint32    { return vx.Pick(r, codecU32) }
func valStr(r *vx.Rng, bad bool) vstr {
	if !bad && r.Chance(1, 5) {
		return ""
	}
	return vstr(strOf(r, byte('p'+r.Intn(4)), bad))
}
func valBytes(r *vx.Rng, bad bool) vbytes {
	if !bad && r.Chance(1, 5) {
		if r.Bool() {
			return nil
		}
		return vbytes{}
	}
	return vbytes(strOf(r, byte(r.Intn(4)), bad))
}
func valRec(r *vx.Rng, bad bool) *vrec {
	if bad {
		return nil
	}
	return &vrec{A: vx.Pick(r, codecU32), B: uint8(r.Intn(3))}
}
func valF(r *vx.Rng, bad bool) fval { return fval{ID: uint16(r.Intn(5) * 255), Bad: bad} }

func som[K comparable, V any]() codecObj[K, V] {
	return somObj[K, V]{serializableorderedmap.New[K, V]()}
}
func setOf[K comparable]() codecObj[K, types.Empty] { return setObj[K]{ds.NewSet[K]()} }

type famEntry struct {
	name         string
	run          runner
	kFail, vFail bool
}

func addFam[K comparable, V any](l *[]famEntry, api *serix.API, name string, mk func() codecObj[K, V], key func(*vx.Rng, int, bool) K, kFail bool, val func(*vx.Rng, bool) V, vFail bool) {
	*l = append(*l, famEntry{name, mkRunner(api, family[K, V]{name: name, mk: mk, key: key, val: val, kFail: kFail, vFail: vFail}), kFail, vFail})
}

func addValFams[K comparable](l *[]famEntry, api *serix.API, kname string, key func(*vx.Rng, int, bool) K, kFail bool) {
	addFam(l, api, "map["+kname+"]empty", som[K, types.Empty], key, kFail, valEmpty, false)
	addFam(l, api, "map["+kname+"]uint32", som[K, uint32], key, kFail, valU32, false)
	addFam(l, api, "map["+kname+"]vstr", som[K, vstr], key, kFail, valStr, true)
	addFam(l, api, "map["+kname+"]vbytes", som[K, vbytes], key, kFail, valBytes, true)
	addFam(l, api, "map["+kname+"]*vrec", som[K, *vrec], key, kFail, valRec, true)
	addFam(l, api, "map["+kname+"]fval", som[K, fval], key, kFail, valF, true)
	addFam(l, api, "set["+kname+"]", setOf[K], key, kFail, valEmpty, false)
}

func codecFamilies(api *serix.API) []famEntry {
	l := []famEntry{}
	addValFams(&l, api, "uint32", keyU32(3), false)
	addValFams(&l, api, "kstr", keyStr, true)
	addValFams(&l, api, "fkey", keyF, true)
	return l
}

// directed plans: a failing key / value / both at the first, a middle and the last position, and a failing key and a
// failing value at two different positions (either order)
func directedPlans(n int, kFail, vFail bool) []plan {
	pos := []int{0}
	if n/2 != 0 {
		pos = append(pos, n/2)
	}
	if n-1 != 0 && n-1 != n/2 {
		pos = append(pos, n-1)
	}
	mk := func(k, v int) plan {
		p := plan{N: n, KBad: make([]bool, n), VBad: make([]bool, n), Dup: -1}
		if k >= 0 {
			p.KBad[k] = true
		}
		if v >= 0 {
			p.VBad[v] = true
		}
		return p
	}
	ps := []plan{mk(-1, -1)}
	for _, a := range pos {
		if kFail {
			ps = append(ps, mk(a, -1))
		}
		if vFail {
			ps = append(ps, mk(-1, a))
		}
		if kFail && vFail {
			ps = append(ps, mk(a, a))
			for _, b := range pos {
				if a != b {
					ps = append(ps, mk(a, b))
				}
			}
		}
	}
	return ps
}

func codecCmd(args []string) {
	fs := flag.NewFlagSet("codec", flag.ExitOnError)
	n := fs.Int("n", 300, "number of random cases after the directed ones")
	seed := fs.Uint64("seed", 1, "")
	out := fs.String("out", "codec.v", "")
	stats := fs.String("stats", "stats.json", "")
	_ = fs.Parse(args)
	r := vx.NewRng(mixSeed(*seed ^ 0xc0dec))
	st := vx.NewStats("codec of SerializableOrderedMap[K,V] / ds.Set[K] for K in {uint32, kstr, fkey}, V in {Empty, uint32, vstr, vbytes, *vrec, fval} (kstr/vstr/vbytes: > 255 bytes cannot be encoded; *vrec: nil cannot; fkey/fval: scripted failure): 0..6 entries, failing keys / values at the first, a middle, the last position and at random; Encode result + Decode of the encoding, of every truncation, inflated/deflated count, trailing bytes, a corrupted byte, into a non-empty object; distinct = distinct (family, plan, entries); non-trivial = at least two entries")
	cf := &vx.CasesFile{
		Header: "From Coq Require Import NArith ZArith List.\nFrom Verif.C11_Set Require Import Model CodecModel Corr.\nImport ListNotations.\nOpen Scope N_scope.\n",
		Type:   "ccase",
		Footer: "Definition M := Eval vm_compute in cmismatches cases.\nPrint M.\n",
	}
	api := newCodecAPI()
	fams := codecFamilies(api)
	run := func(f famEntry, p plan, tag string) {
		rr := r.Fork()
		guarded(st, map[string]any{"family": f.name, "plan": p}, func() { f.run(p, rr, cf, st, tag) })
	}
	for _, f := range fams {
		for _, sz := range []int{1, 2, 3, 5} {
			for _, p := range directedPlans(sz, f.kFail, f.vFail) {
				if sz == 2 && !(p.KBad[0] || p.VBad[0] || p.KBad[1] || p.VBad[1]) {
					continue
				}
				run(f, p, "directed")
			}
		}
		run(f, plan{N: 0, KBad: []bool{}, VBad: []bool{}, Dup: -1}, "directed")
	}
	for i := 0; i < *n && len(st.OracleFailures) < 20 && hangs < 3; i++ {
		f := vx.Pick(r, fams)
		if !(f.kFail || f.vFail) && r.Chance(2, 3) {
			f = vx.Pick(r, fams)
		}
		sz := r.Intn(7)
		p := plan{N: sz, KBad: make([]bool, sz), VBad: make([]bool, sz), Dup: -1}
		if r.Chance(3, 5) {
			for j := 0; j < sz; j++ {
				p.KBad[j] = f.kFail && r.Chance(1, 5)
				p.VBad[j] = f.vFail && r.Chance(1, 5)
			}
		}
		if sz > 0 && r.Chance(1, 4) {
			p.Dup = r.Intn(sz)
		}
		run(f, p, "random")
	}
	if err := cf.Write(*out); err != nil {
		vx.Die("%v", err)
	}
	if err := st.Write(*stats); err != nil {
		vx.Die("%v", err)
	}
}
