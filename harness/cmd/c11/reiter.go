// Re-entrant iteration: ForEach / ForEachReverse / Set.ForEach / Range / Filter whose consumer mutates the receiver
// (deletes the current element, its neighbours, inserts, clears), optionally through a helper goroutine while the
// consumer waits (a "concurrent" writer that lands exactly between two iteration steps).
//
// The consumer is scripted with commands that are RELATIVE to the iteration position; they are resolved at callback
// time against a reference (a list of elements with identities), applied to the real object and to the reference, and
// recorded as concrete mutations for the Coq model (OForEachRe / OSForEachRe).
//
// Go-side oracle (independent of Coq): the iteration has a position. After each callback the next visit must be the
// first live element behind the position (in iteration direction); the position of a removed current element is the
// gap it left. In particular every key that stays live during the whole iteration is visited exactly once, in
// insertion order (reverse for ForEachReverse), and an element removed before it is reached is not visited.
// One deviation of the pinned code is a listed known finding (foreach-visits-removed-element-after-current-removed):
// when the current element is removed and then the element it pointed to is removed as well (or the map is cleared),
// the removed successor is still visited. It is recognised exactly (the visit equals the stale successor) and the
// judgement continues from there.
package main

import (
	"fmt"
	"strings"

	"github.com/iotaledger/hive.go/ds"
	"github.com/iotaledger/hive.go/ds/orderedmap"

	"verif/harness/vx"
)

const staleSig = "foreach-visits-removed-element-after-current-removed"

type cbCmd struct {
	K string `json:"k"` // delcur delnext delnext2 delprev delfirst dellast ins setcur reins clear del set
	E uint32 `json:"e,omitempty"`
	V uint32 `json:"v,omitempty"`
}

type mop struct {
	K string `json:"k"` // set del clear
	E uint32 `json:"e,omitempty"`
	V uint32 `json:"v,omitempty"`
}

type reScript struct {
	Rev   bool      `json:"rev,omitempty"`
	Via   string    `json:"via,omitempty"` // sets: ForEach | Range | Filter
	Async bool      `json:"async,omitempty"`
	U     []uint32  `json:"u"` // keys an "ins" command may take
	Steps [][]cbCmd `json:"steps"`
	Stop  int       `json:"stop"` // the consumer returns false at this invocation (0-based); -1: never
	// filled in by the run: the concrete mutations and flag of every invocation that happened
	Resolved [][]mop `json:"resolved,omitempty"`
	Conts    []bool  `json:"conts,omitempty"`
}

func (s *reScript) coq() string {
	items := make([]string, len(s.Resolved))
	for i, ms := range s.Resolved {
		l := vx.ListOf(ms, func(m mop) string {
			switch m.K {
			case "set":
				return "MSet " + vx.N(uint64(m.E)) + " " + vx.N(uint64(m.V))
			case "del":
				return "MDel " + vx.N(uint64(m.E))
			}
			return "MClear"
		})
		items[i] = vx.Pair(l, vx.Bool(s.Conts[i]))
	}
	return vx.List(items)
}

// reference element with identity; a removed element remembers its neighbours at the time it was removed
type rel struct {
	k, v       uint32
	live       bool
	succ, pred int // ids, -1 = none; meaningful once removed
}

type reRef struct {
	els  []*rel
	live []int // ids in first-insertion order
}

func newReRef(l []pair) *reRef {
	r := &reRef{}
	for _, p := range l {
		r.els = append(r.els, &rel{k: p.k, v: p.v, live: true, succ: -1, pred: -1})
		r.live = append(r.live, len(r.els)-1)
	}
	return r
}

func (r *reRef) pairs() []pair {
	out := make([]pair, 0, len(r.live))
	for _, id := range r.live {
		out = append(out, pair{r.els[id].k, r.els[id].v})
	}
	return out
}

func (r *reRef) pos(id int) int {
	for i, x := range r.live {
		if x == id {
			return i
		}
	}
	return -1
}

func (r *reRef) byKey(k uint32) int {
	for _, id := range r.live {
		if r.els[id].k == k {
			return id
		}
	}
	return -1
}

func (r *reRef) at(i int) int {
	if i < 0 || i >= len(r.live) {
		return -1
	}
	return r.live[i]
}

func (r *reRef) apply(m mop) {
	switch m.K {
	case "set":
		if id := r.byKey(m.E); id >= 0 {
			r.els[id].v = m.V
			return
		}
		r.els = append(r.els, &rel{k: m.E, v: m.V, live: true, succ: -1, pred: -1})
		r.live = append(r.live, len(r.els)-1)
	case "del":
		id := r.byKey(m.E)
		if id < 0 {
			return
		}
		i := r.pos(id)
		e := r.els[id]
		e.live, e.succ, e.pred = false, r.at(i+1), r.at(i-1)
		r.live = append(append([]int{}, r.live[:i]...), r.live[i+1:]...)
	case "clear":
		for i, id := range r.live {
			e := r.els[id]
			e.live, e.succ, e.pred = false, r.at(i+1), r.at(i-1)
		}
		r.live = nil
	}
}

// neighbour of id in iteration direction: of a live element its live neighbour, of a removed one the neighbour it had
func (r *reRef) nb(id int, fwd bool) int {
	if id < 0 {
		return -1
	}
	e := r.els[id]
	if e.live {
		i := r.pos(id)
		if fwd {
			return r.at(i + 1)
		}
		return r.at(i - 1)
	}
	if fwd {
		return e.succ
	}
	return e.pred
}

// first live element behind the position of id
func (r *reRef) ideal(id int, fwd bool) int {
	g := r.nb(id, fwd)
	for n := 0; g >= 0 && !r.els[g].live && n <= len(r.els); n++ {
		g = r.nb(g, fwd)
	}
	return g
}

func (r *reRef) resolve(c cbCmd, cur int, fwd bool, u []uint32) []mop {
	delID := func(id int) []mop {
		if id < 0 || !r.els[id].live {
			return nil
		}
		return []mop{{K: "del", E: r.els[id].k}}
	}
	switch c.K {
	case "delcur":
		return delID(cur)
	case "delnext":
		return delID(r.nb(cur, fwd))
	case "delnext2":
		return delID(r.nb(r.nb(cur, fwd), fwd))
	case "delprev":
		return delID(r.nb(cur, !fwd))
	case "delfirst":
		return delID(r.at(0))
	case "dellast":
		return delID(r.at(len(r.live) - 1))
	case "ins":
		for _, k := range u {
			if r.byKey(k) < 0 {
				return []mop{{K: "set", E: k, V: c.V}}
			}
		}
		return []mop{{K: "set", E: c.E, V: c.V}}
	case "setcur":
		return []mop{{K: "set", E: r.els[cur].k, V: c.V}}
	case "reins":
		return append(delID(cur), mop{K: "set", E: r.els[cur].k, V: c.V})
	case "clear":
		return []mop{{K: "clear"}}
	case "del":
		return []mop{{K: "del", E: c.E}}
	case "set":
		return []mop{{K: "set", E: c.E, V: c.V}}
	}
	panic("cbCmd " + c.K)
}

// reTarget abstracts the real object under iteration
type reTarget struct {
	iterate func(cb func(k, v uint32) bool) (completed bool)
	do      func(m mop)
	isSet   bool
}

func mapTarget(m *orderedmap.OrderedMap[uint32, uint32], rev bool) reTarget {
	return reTarget{
		iterate: func(cb func(k, v uint32) bool) bool {
			if rev {
				return m.ForEachReverse(cb)
			}
			return m.ForEach(cb)
		},
		do: func(o mop) {
			switch o.K {
			case "set":
				m.Set(o.E, o.V)
			case "del":
				m.Delete(o.E)
			default:
				m.Clear()
			}
		},
	}
}

func setTarget(s ds.Set[uint32], via string, filtered *[]uint32) reTarget {
	return reTarget{
		isSet: true,
		iterate: func(cb func(k, v uint32) bool) bool {
			switch via {
			case "Range":
				s.Range(func(e uint32) { cb(e, 0) })
				return true
			case "Filter":
				*filtered = s.Filter(func(e uint32) bool { cb(e, 0); return true }).ToSlice()
				return true
			}
			return s.ForEach(func(e uint32) error {
				if !cb(e, 0) {
					return fmt.Errorf("stop")
				}
				return nil
			}) == nil
		},
		do: func(o mop) {
			switch o.K {
			case "set":
				s.Add(o.E)
			case "del":
				s.Delete(o.E)
			default:
				s.Clear()
			}
		},
	}
}

type reResult struct {
	seen      []pair
	completed bool
	problems  []string
	stale     int
}

// runReIter runs the scripted re-entrant iteration on the real object, in lockstep with the reference r (which is
// left in the expected final state)
func runReIter(t reTarget, r *reRef, sc *reScript) reResult {
	fwd := !sc.Rev
	res := reResult{}
	startKeys := []uint32{}
	startIDs := append([]int{}, r.live...)
	for _, id := range startIDs {
		startKeys = append(startKeys, r.els[id].k)
	}
	expect := r.at(0) // id the next visit must show; -1: the iteration must be over
	if !fwd {
		expect = r.at(len(r.live) - 1)
	}
	idealExpect := expect
	desync := false
	calls := 0
	sc.Resolved, sc.Conts = nil, nil
	problem := func(f string, a ...any) { res.problems = append(res.problems, fmt.Sprintf(f, a...)) }

	res.completed = t.iterate(func(k, v uint32) bool {
		idx := calls
		calls++
		res.seen = append(res.seen, pair{k, v})
		if calls > 96 {
			if calls == 97 {
				problem("the iteration does not end (more than 96 consumer calls)")
			}
			return false
		}
		if desync {
			sc.Resolved, sc.Conts = append(sc.Resolved, nil), append(sc.Conts, true)
			return true
		}
		shows := func(id int) bool { return id >= 0 && r.els[id].k == k && (t.isSet || r.els[id].v == v) }
		switch {
		case expect != idealExpect && shows(expect): // the removed successor of a removed current element
			res.stale++
		case shows(idealExpect):
			expect = idealExpect
		default:
			want := "the end of the iteration"
			if idealExpect >= 0 {
				want = fmt.Sprintf("(%d,%d)", r.els[idealExpect].k, r.els[idealExpect].v)
			}
			problem("consumer call %d shows (%d,%d); the first live element behind the position is %s", idx, k, v, want)
			desync = true
			sc.Resolved, sc.Conts = append(sc.Resolved, nil), append(sc.Conts, true)
			return true
		}
		cur := expect
		var ms []mop
		if idx < len(sc.Steps) {
			for _, c := range sc.Steps[idx] {
				for _, m := range r.resolve(c, cur, fwd, sc.U) {
					if t.isSet && m.K == "set" {
						m.V = 0
					}
					if sc.Async { // a writer on another goroutine, landing between two iteration steps
						done := make(chan struct{})
						go func() { defer close(done); t.do(m) }()
						<-done
					} else {
						t.do(m)
					}
					r.apply(m)
					ms = append(ms, m)
				}
			}
		}
		cont := idx != sc.Stop
		sc.Resolved, sc.Conts = append(sc.Resolved, ms), append(sc.Conts, cont)
		expect, idealExpect = r.nb(cur, fwd), r.ideal(cur, fwd)
		return cont
	})

	if !desync && calls <= 96 {
		stopped := sc.Stop >= 0 && calls == sc.Stop+1
		if res.completed == stopped && !(sc.Via == "Range" || sc.Via == "Filter") {
			problem("iteration returned completed=%v after %d consumer calls (consumer said stop: %v)", res.completed, calls, stopped)
		}
		if !stopped && idealExpect >= 0 {
			problem("the iteration ended after %d consumer calls although (%d,%d) is live behind the position", calls, r.els[idealExpect].k, r.els[idealExpect].v)
		}
	}
	// headline predicate, judged on keys only: the keys that were live during the whole iteration are visited exactly
	// once and in order (when the consumer did not stop the iteration)
	if calls <= 96 && !(sc.Stop >= 0 && calls == sc.Stop+1) {
		through := []uint32{}
		for _, id := range startIDs {
			if r.els[id].live {
				through = append(through, r.els[id].k)
			}
		}
		if !fwd {
			for i, j := 0, len(through)-1; i < j; i, j = i+1, j-1 {
				through[i], through[j] = through[j], through[i]
			}
		}
		vis := []uint32{}
		for _, p := range res.seen {
			if contains(through, p.k) {
				vis = append(vis, p.k)
			}
		}
		if !eqSlice(vis, through) {
			problem("keys live during the whole iteration %v (in iteration order), visits of them %v", through, vis)
		}
	}
	return res
}

// ---------------------------------------------------------------------------------------------------------------
// generation
// ---------------------------------------------------------------------------------------------------------------

var cbKinds = []struct {
	k string
	w int
}{{"delcur", 26}, {"delnext", 15}, {"delprev", 10}, {"delnext2", 5}, {"ins", 12}, {"setcur", 4}, {"reins", 6}, {"clear", 3},
	{"del", 9}, {"set", 6}, {"delfirst", 2}, {"dellast", 2}}

func genCb(r *vx.Rng, u []uint32) cbCmd {
	tot := 0
	for _, c := range cbKinds {
		tot += c.w
	}
	x := r.Intn(tot)
	for _, c := range cbKinds {
		if x < c.w {
			return cbCmd{K: c.k, E: vx.Pick(r, u), V: uint32(r.Intn(4))}
		}
		x -= c.w
	}
	panic("genCb")
}

func genReScript(r *vx.Rng, u []uint32, set bool) *reScript {
	sc := &reScript{Stop: -1, Rev: !set && r.Bool(), Async: r.Chance(1, 5), U: u}
	if set {
		sc.Via = vx.Pick(r, []string{"ForEach", "ForEach", "Range", "Filter"})
	}
	n := 1 + r.Intn(len(u)+2)
	for i := 0; i < n; i++ {
		var cs []cbCmd
		if r.Chance(3, 5) {
			cs = append(cs, genCb(r, u))
			for r.Chance(1, 4) && len(cs) < 3 {
				cs = append(cs, genCb(r, u))
			}
		}
		sc.Steps = append(sc.Steps, cs)
	}
	if r.Chance(1, 8) && (sc.Via == "" || sc.Via == "ForEach") {
		sc.Stop = r.Intn(n + 1)
	}
	return sc
}

var dirU = []uint32{1, 2, 3, 4, 5, 6, 7}

func one(k string) []cbCmd { return []cbCmd{{K: k, E: 9, V: 7}} }

// directed scripts (position of the command = consumer call): every single command at the first, a middle and the
// last element, forward and reverse, plus the combinations behind the known finding
func directedReScripts() []*reScript {
	var out []*reScript
	for _, rev := range []bool{false, true} {
		for _, k := range []string{"delcur", "delnext", "delprev", "ins", "reins", "clear", "delnext2"} {
			for _, at := range []int{0, 1, 4} {
				steps := make([][]cbCmd, at+1)
				steps[at] = one(k)
				out = append(out, &reScript{U: dirU, Rev: rev, Steps: steps, Stop: -1})
			}
		}
		// drain while iterating
		out = append(out, &reScript{U: dirU, Rev: rev, Stop: -1, Steps: [][]cbCmd{one("delcur"), one("delcur"), one("delcur"), one("delcur"), one("delcur")}})
		out = append(out, &reScript{U: dirU, Rev: rev, Stop: -1, Async: true, Steps: [][]cbCmd{nil, one("delcur"), one("delcur")}})
		// known finding: current removed, then its successor removed in the same call
		out = append(out, &reScript{U: dirU, Rev: rev, Stop: -1, Steps: [][]cbCmd{nil, {{K: "delcur"}, {K: "delnext"}}}})
		out = append(out, &reScript{U: dirU, Rev: rev, Stop: 2, Steps: [][]cbCmd{one("delcur"), nil, one("delcur")}})
	}
	return out
}

func addKnown(st *vx.Stats, sig string) {
	for _, k := range st.Known {
		if k == sig {
			return
		}
	}
	st.Known = append(st.Known, sig)
}

func verdict(got string, res reResult, st *vx.Stats) (want string) {
	if res.stale > 0 {
		addKnown(st, staleSig)
		st.Count("re:stale-visit")
	}
	if len(res.problems) > 0 {
		return "iteration position predicate violated: " + strings.Join(res.problems, "; ")
	}
	return got
}

// reIterMap / reIterSet: run one scripted re-entrant iteration; got = what the real code showed (as a Coq term),
// want = got when the Go oracle accepts it, a description of the violation otherwise; the reference is advanced
func reIterMap(m *orderedmap.OrderedMap[uint32, uint32], r *refMap, o op, st *vx.Stats) (got, want string) {
	rr := newReRef(r.l)
	res := runReIter(mapTarget(m, o.S.Rev), rr, o.S)
	r.l = rr.pairs()
	countRe(st, o.S)
	got = "RPairs " + pairsTerm(res.seen) + " " + vx.Bool(res.completed)
	return got, verdict(got, res, st)
}

func reIterSet(s ds.Set[uint32], r *ref, o op, st *vx.Stats) (got, want string) {
	rr := newReRef(setPairs(r.l))
	var filtered []uint32
	res := runReIter(setTarget(s, o.S.Via, &filtered), rr, o.S)
	r.l = []uint32{}
	for _, p := range rr.pairs() {
		r.l = append(r.l, p.k)
	}
	countRe(st, o.S)
	seen := []uint32{}
	for _, p := range res.seen {
		seen = append(seen, p.k)
	}
	if o.S.Via == "Filter" && !eqSlice(filtered, dedup(seen)) {
		res.problems = append(res.problems, fmt.Sprintf("Filter(always true) returned %v, its predicate saw %v", filtered, seen))
	}
	got = visitTerm(seen, res.completed)
	return got, verdict(got, res, st)
}

func countRe(st *vx.Stats, sc *reScript) {
	for i, ms := range sc.Resolved {
		if i < len(sc.Steps) {
			for _, c := range sc.Steps[i] {
				st.Count("re:" + c.K)
			}
		}
		if len(ms) > 0 {
			st.Count("re:calls-that-mutate")
		}
	}
	if sc.Async {
		st.Count("re:async")
	}
	if sc.Rev {
		st.Count("re:reverse")
	}
}

// mixSeed decorrelates consecutive seeds: vx.NewRng(seed) starts splitmix64 at seed*gamma+c, so the streams of seed and
// seed+1 are the same stream shifted by one draw (and the generated histories the same histories shifted by one case)
func mixSeed(x uint64) uint64 {
	x ^= x >> 33
	x *= 0xff51afd7ed558ccd
	x ^= x >> 33
	x *= 0xc4ceb9fe1a85ec53
	x ^= x >> 33
	return x + 0x5bd1e995
}
