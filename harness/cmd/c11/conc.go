package main

import (
	"flag"
	"fmt"
	"sync"
	"sync/atomic"
	"time"

	"github.com/iotaledger/hive.go/ds"

	"verif/harness/vx"
)

// a method of the shared set, callable with an optional gate that runs when the method starts iterating its argument
type method struct {
	name  string
	gated bool // takes a set argument that it iterates while holding its own locks
	call  func(s ds.Set[int], r *vx.Rng, gate func())
}

func arg(r *vx.Rng, gate func()) ds.ReadableSet[int] {
	l := []int{}
	for i := 0; i < 1+r.Intn(3); i++ {
		l = append(l, r.Intn(4))
	}
	if gate == nil {
		return ds.NewSet(l...)
	}
	return &gateSet{ReadableSet: ds.NewSet(l...), gate: gate}
}

// gateMut: SetMutations whose added set is gated (Apply iterates it with Range under the write lock)
func gateMut(r *vx.Rng, gate func()) ds.SetMutations[int] {
	m := ds.NewSetMutations[int]()
	if gate == nil {
		return m.WithAddedElements(ds.NewSet(r.Intn(4))).WithDeletedElements(ds.NewSet(r.Intn(4)))
	}
	return m.WithAddedElements(&gateWSet{Set: ds.NewSet(r.Intn(4)), gate: gate}).WithDeletedElements(ds.NewSet(r.Intn(4)))
}

type gateWSet struct {
	ds.Set[int]
	gate func()
}

func (g *gateWSet) Range(cb func(int)) {
	g.gate()
	g.Set.Range(cb)
}

func methods() []method {
	return []method{
		{"Add", false, func(s ds.Set[int], r *vx.Rng, _ func()) { s.Add(r.Intn(4)) }},
		{"Delete", false, func(s ds.Set[int], r *vx.Rng, _ func()) { s.Delete(r.Intn(4)) }},
		{"Has", false, func(s ds.Set[int], r *vx.Rng, _ func()) { s.Has(r.Intn(4)) }},
		{"AddAll", true, func(s ds.Set[int], r *vx.Rng, g func()) { s.AddAll(arg(r, g)) }},
		{"DeleteAll", true, func(s ds.Set[int], r *vx.Rng, g func()) { s.DeleteAll(arg(r, g)) }},
		{"Apply", true, func(s ds.Set[int], r *vx.Rng, g func()) { s.Apply(gateMut(r, g)) }},
		{"Compute", true, func(s ds.Set[int], r *vx.Rng, g func()) {
			s.Compute(func(v ds.ReadableSet[int]) ds.SetMutations[int] {
				if g != nil {
					g()
				}
				v.Has(1)
				v.Size()
				v.ToSlice()
				return gateMut(r, nil)
			})
		}},
		{"Replace", true, func(s ds.Set[int], r *vx.Rng, g func()) { s.Replace(arg(r, g)) }},
		{"HasAll", true, func(s ds.Set[int], r *vx.Rng, g func()) { s.HasAll(arg(r, g)) }},
		{"Equals", false, func(s ds.Set[int], r *vx.Rng, _ func()) { s.Equals(arg(r, nil)) }},
		{"Intersect", false, func(s ds.Set[int], r *vx.Rng, _ func()) { s.Intersect(arg(r, nil)) }},
		{"Filter", false, func(s ds.Set[int], r *vx.Rng, _ func()) { s.Filter(func(e int) bool { return e%2 == 0 }) }},
		{"ForEach", false, func(s ds.Set[int], r *vx.Rng, _ func()) { _ = s.ForEach(func(int) error { return nil }) }},
		{"Any", false, func(s ds.Set[int], r *vx.Rng, _ func()) { s.Any() }},
		{"Is", false, func(s ds.Set[int], r *vx.Rng, _ func()) { s.Is(r.Intn(4)) }},
		{"Clone", false, func(s ds.Set[int], r *vx.Rng, _ func()) { s.Clone() }},
		{"Size", false, func(s ds.Set[int], r *vx.Rng, _ func()) { s.Size(); s.IsEmpty() }},
		{"ToSlice", false, func(s ds.Set[int], r *vx.Rng, _ func()) { s.ToSlice() }},
		{"Clear", false, func(s ds.Set[int], r *vx.Rng, _ func()) { s.Clear() }},
		{"Iterator", false, func(s ds.Set[int], r *vx.Rng, _ func()) { s.Iterator() }},
		{"ReadOnly", false, func(s ds.Set[int], r *vx.Rng, _ func()) { s.ReadOnly().Has(1) }},
	}
}

var (
	panicMu  sync.Mutex
	panicLog []string
)

// finish is deferred by every worker goroutine: a panic of the real code is recorded, the goroutine counts as returned
func finish(d chan struct{}) {
	if p := recover(); p != nil {
		panicMu.Lock()
		panicLog = append(panicLog, fmt.Sprint(p))
		panicMu.Unlock()
	}
	close(d)
}

func takePanics() []string {
	panicMu.Lock()
	defer panicMu.Unlock()
	l := panicLog
	panicLog = nil
	return l
}

// waitAll waits for the channels under one watchdog; returns the names that did not finish
func waitAll(names []string, done []chan struct{}, watchdog time.Duration) []string {
	t := time.After(watchdog)
	hung := []string{}
	for i, d := range done {
		select {
		case <-d:
		case <-t:
			hung = append(hung, names[i])
			// the timer fired: every remaining channel gets a non-blocking look
			for j := i + 1; j < len(done); j++ {
				select {
				case <-done[j]:
				default:
					hung = append(hung, names[j])
				}
			}
			return hung
		}
	}
	return hung
}

// scripted: X has taken its locks and is about to iterate its argument; Y arrives from another goroutine and gets
// `settle` to reach its own lock call; then X continues. Both must return.
func scripted(x, y method, r *vx.Rng, settle, watchdog time.Duration) []string {
	s := ds.NewSet(0, 1, 2)
	dx, dy := make(chan struct{}), make(chan struct{})
	ry := r.Fork()
	var once sync.Once
	gate := func() {
		once.Do(func() {
			go func() {
				defer finish(dy)
				y.call(s, ry, nil)
			}()
			time.Sleep(settle)
		})
	}
	go func() {
		defer finish(dx)
		defer once.Do(func() { close(dy) }) // X never iterated (cannot happen for gated methods)
		x.call(s, r.Fork(), gate)
	}()
	return waitAll([]string{x.name, y.name}, []chan struct{}{dx, dy}, watchdog)
}

// freeRun: g goroutines, goroutine i loops method ms[i%len(ms)]; all must finish within the watchdog
func freeRun(ms []method, g, iters int, r *vx.Rng, watchdog time.Duration) []string {
	s := ds.NewSet(0, 1)
	names := make([]string, g)
	done := make([]chan struct{}, g)
	for i := 0; i < g; i++ {
		m := ms[i%len(ms)]
		names[i] = m.name
		done[i] = make(chan struct{})
		rr := r.Fork()
		go func(d chan struct{}) {
			defer finish(d)
			for k := 0; k < iters; k++ {
				m.call(s, rr, nil)
			}
		}(done[i])
	}
	return waitAll(names, done, watchdog)
}

// ---------- linearizability of Add / Delete / Has (Wing-Gong search over the recorded history) ----------

type ev struct {
	Kind     int `json:"kind"` // 0 Add 1 Delete 2 Has
	E        int `json:"e"`
	Res      bool `json:"res"`
	Inv, Ret int64
}

func linearizable(h []ev, init uint) bool {
	n := len(h)
	type key struct {
		done uint32
		st   uint
	}
	bad := map[key]bool{}
	var rec func(done uint32, st uint) bool
	rec = func(done uint32, st uint) bool {
		if done == uint32(1)<<n-1 {
			return true
		}
		if bad[key{done, st}] {
			return false
		}
		// minimal return time among pending ops: an op may go first only if it was invoked before that
		minRet := int64(1 << 62)
		for i := 0; i < n; i++ {
			if done&(1<<i) == 0 && h[i].Ret < minRet {
				minRet = h[i].Ret
			}
		}
		for i := 0; i < n; i++ {
			if done&(1<<i) != 0 || h[i].Inv > minRet {
				continue
			}
			has := st&(1<<uint(h[i].E)) != 0
			st2, res := st, has
			switch h[i].Kind {
			case 0:
				res, st2 = !has, st|(1<<uint(h[i].E))
			case 1:
				res, st2 = has, st&^(1<<uint(h[i].E))
			}
			if res == h[i].Res && rec(done|1<<i, st2) {
				return true
			}
		}
		bad[key{done, st}] = true
		return false
	}
	return rec(0, init)
}

func linRun(r *vx.Rng, g, per int, watchdog time.Duration) (h []ev, hung bool) {
	s := ds.NewSet(0)
	var clock int64
	logs := make([][]ev, g)
	done := make([]chan struct{}, g)
	names := make([]string, g)
	start := make(chan struct{})
	for i := 0; i < g; i++ {
		done[i] = make(chan struct{})
		rr := r.Fork()
		go func(i int) {
			defer finish(done[i])
			<-start
			for k := 0; k < per; k++ {
				e := ev{Kind: rr.Intn(3), E: rr.Intn(2)}
				e.Inv = atomic.AddInt64(&clock, 1)
				switch e.Kind {
				case 0:
					e.Res = s.Add(e.E)
				case 1:
					e.Res = s.Delete(e.E)
				default:
					e.Res = s.Has(e.E)
				}
				e.Ret = atomic.AddInt64(&clock, 1)
				logs[i] = append(logs[i], e)
			}
		}(i)
	}
	close(start)
	if len(waitAll(names, done, watchdog)) > 0 {
		return nil, true
	}
	for _, l := range logs {
		h = append(h, l...)
	}
	return h, false
}

// ---------- atomicity of Apply / Compute / Replace ----------
// Writers keep the pairs (0,1) and (2,3) together using only Apply / Replace / Compute; every Compute factory (which
// runs under the write lock) and the final state must see has(0)==has(1) and has(2)==has(3). AddAll / DeleteAll /
// Add / Delete on the unrelated elements 8, 9 run alongside (they share applyMutex as readers).
func atomRun(r *vx.Rng, g, iters int, watchdog time.Duration) (torn int64, hung []string) {
	s := ds.NewSet(0, 1)
	var tornSeen int64
	check := func(v ds.ReadableSet[int]) {
		l := v.ToSlice()
		in := func(e int) bool {
			for _, x := range l {
				if x == e {
					return true
				}
			}
			return false
		}
		if in(0) != in(1) || in(2) != in(3) {
			atomic.AddInt64(&tornSeen, 1)
		}
	}
	done := make([]chan struct{}, g)
	names := make([]string, g)
	for i := 0; i < g; i++ {
		done[i] = make(chan struct{})
		rr := r.Fork()
		names[i] = fmt.Sprintf("atom-%d", i)
		go func(i int) {
			defer finish(done[i])
			for k := 0; k < iters; k++ {
				p := 2 * rr.Intn(2)
				switch rr.Intn(7) {
				case 0:
					s.Apply(ds.NewSetMutations[int]().WithAddedElements(ds.NewSet(p, p+1)).WithDeletedElements(ds.NewSet(2-p, 3-p)))
				case 1:
					s.Apply(ds.NewSetMutations[int]().WithAddedElements(ds.NewSet[int]()).WithDeletedElements(ds.NewSet(p+1, p)))
				case 2:
					s.Replace(ds.NewSet(p+1, p, 8))
				case 3:
					s.Compute(func(v ds.ReadableSet[int]) ds.SetMutations[int] {
						check(v)
						if v.Has(p) {
							return ds.NewSetMutations[int]().WithAddedElements(ds.NewSet[int]()).WithDeletedElements(ds.NewSet(p, p+1))
						}
						return ds.NewSetMutations(p, p+1)
					})
				case 4:
					s.AddAll(ds.NewSet(8, 9))
				case 5:
					s.DeleteAll(ds.NewSet(9, 8))
				default:
					s.Add(9)
					s.Delete(8)
				}
			}
		}(i)
	}
	hung = waitAll(names, done, watchdog)
	if len(hung) == 0 {
		check(s)
	}
	return atomic.LoadInt64(&tornSeen), hung
}

func conc(args []string) {
	fs := flag.NewFlagSet("conc", flag.ExitOnError)
	runs := fs.Int("runs", 1, "free-running rounds over all method pairs")
	lin := fs.Int("lin", 150, "linearizability runs")
	atom := fs.Int("atom", 40, "atomicity runs")
	seed := fs.Uint64("seed", 1, "")
	_ = fs.String("out", "", "")
	stats := fs.String("stats", "stats.json", "")
	_ = fs.Parse(args)
	r := vx.NewRng(mixSeed(*seed))
	st := vx.NewStats("concurrent runs on one shared ds.Set[int]: (a) scripted arrivals: method Y arrives while gated method X holds its locks and is about to iterate its argument, for every (X,Y); (b) free-running loops for every unordered pair of the 21 methods on 2..4 goroutines; (c) Add/Delete/Has histories on 2..4 goroutines checked for linearizability (Wing-Gong search); (d) pair-atomicity of Apply/Compute/Replace next to RLock-side writers; every run under a watchdog; distinct = distinct (mode, methods, goroutines); non-trivial = at least two goroutines touching the shared set")
	const watchdog = 6 * time.Second
	settle := 15 * time.Millisecond
	ms := methods()

	// (0) the D11b schedule itself
	if d, a := probeD11b(40*time.Millisecond, watchdog); !d || !a {
		st.Fail(map[string]any{"sig": "", "kind": "D11b schedule: DeleteAll holds applyMutex.RLock, Apply queues, DeleteAll deletes its first element", "deleteAll_returned": d, "apply_returned": a})
	}
	st.Case("d11b", true)
	st.Count("conc:d11b")

	// (a) scripted
	panicked := func(where string, what any) {
		if ps := takePanics(); len(ps) > 0 {
			st.Fail(map[string]any{"sig": "", "kind": "panic in a concurrent run", "mode": where, "run": what, "panics": ps})
		}
	}
	enough := func() bool { return len(st.OracleFailures) >= 4 } // every hang costs a watchdog period: stop early
	for _, x := range ms {
		if !x.gated {
			continue
		}
		for _, y := range ms {
			if enough() {
				break
			}
			hung := scripted(x, y, r.Fork(), settle, watchdog)
			st.Case("scripted:"+x.name+"/"+y.name, true)
			st.Count("conc:scripted")
			panicked("scripted", []string{x.name, y.name})
			if len(hung) > 0 {
				st.Fail(map[string]any{"sig": "", "kind": "scripted arrival: second method arrives while the first holds its locks", "first": x.name, "second": y.name, "not_returned": hung})
			}
		}
	}

	// (b) free-running pairs
	for round := 0; round < *runs; round++ {
		for i := range ms {
			for j := i; j < len(ms) && !enough(); j++ {
				g := 2 + r.Intn(3)
				hung := freeRun([]method{ms[i], ms[j]}, g, 400, r.Fork(), watchdog)
				st.Case(fmt.Sprintf("free:%s/%s/%d", ms[i].name, ms[j].name, g), true)
				st.Count("conc:free")
				panicked("free", []string{ms[i].name, ms[j].name})
				if len(hung) > 0 {
					st.Fail(map[string]any{"sig": "", "kind": "free-running pair did not finish", "methods": []string{ms[i].name, ms[j].name}, "goroutines": g, "not_returned": hung})
				}
			}
		}
	}

	// (c) linearizability
	for i := 0; i < *lin && !enough(); i++ {
		g := 2 + r.Intn(3)
		h, hung := linRun(r.Fork(), g, 4, watchdog)
		st.Case(fmt.Sprintf("lin:%d:%d", g, i), true)
		st.Count("conc:lin")
		panicked("lin", g)
		if hung {
			st.Fail(map[string]any{"sig": "", "kind": "Add/Delete/Has run did not finish", "goroutines": g})
		} else if !linearizable(h, 1) {
			st.Fail(map[string]any{"sig": "", "kind": "Add/Delete/Has history is not linearizable", "history": h})
		}
	}

	// (d) atomicity
	for i := 0; i < *atom && !enough(); i++ {
		g := 2 + r.Intn(3)
		torn, hung := atomRun(r.Fork(), g, 1500, watchdog)
		st.Case(fmt.Sprintf("atom:%d:%d", g, i), true)
		st.Count("conc:atom")
		panicked("atom", g)
		if len(hung) > 0 {
			st.Fail(map[string]any{"sig": "", "kind": "atomicity run did not finish", "not_returned": hung})
		} else if torn > 0 {
			st.Fail(map[string]any{"sig": "", "kind": "a Compute factory / the final state saw a pair written by Apply/Replace/Compute half applied", "observations": torn})
		}
	}
	st.Sample(map[string]any{"kind": "conc", "methods": len(ms), "watchdog_s": watchdog.Seconds()}, 1)
	if err := st.Write(*stats); err != nil {
		vx.Die("%v", err)
	}
}
