// race: free-running family for the identifier map of TaskExecutor.  The model has ExecuteAt(id) / ExecuteAfter(id) /
// Cancel(id) / the wrapper's own clean-up as single steps; in the code they are atomic with respect to each other only
// because each holds queuedElementsMutex across its whole read-modify-write of queuedElements (and of the queue).  This
// family ties that assumption to the code: 2-4 goroutines run pre-generated programs of ExecuteAt / ExecuteAfter /
// Cancel on 1-2 identifiers (times far in the future, a few hundred microseconds ahead, already past) against 0-2 workers,
// while a sampler reads Size() (which also contends the queue's heap lock), and the outcome is judged by predicates of
// the property that hold for EVERY interleaving of atomic operations (no timing assumption):
//
//	every scheduled task carries a unique token; per identifier, with S accepted ExecuteAt/After, R tokens that ran,
//	C Cancel(id) = true results during the run and P = the result of one final Cancel(id) after all goroutines returned:
//	  - no token runs twice;
//	  - R + C + P <= S  (each Cancel = true prevented a pending task of its own: a task that ran was not cancelled, two
//	    Cancels never report the same task);  S >= 1 => R + C + P >= 1  (the task scheduled last was not replaced);
//	  - at every instant Size() <= number of identifiers (at most one task per identifier is pending; every queued
//	    element is the pending task of its identifier);
//	  - at quiescence, with no workers, Size() = sum of P; for any worker count Size() = 0 after the final Cancels and a
//	    second Cancel(id) is false; then the map still works: one more task per identifier is accepted, with workers it
//	    runs exactly once within the watchdog, without workers it is queued alone and Cancel(id) = true removes it;
//	  - Shutdown (waiting for the workers) returns; nothing runs twice after it either.
//
// A trial is (configuration, seed): the programs are generated from the seed, only the scheduling is free.
package main

import (
	"fmt"
	"runtime"
	"strings"
	"sync"
	"sync/atomic"
	"time"

	"github.com/iotaledger/hive.go/runtime/timed"

	"verif/harness/vx"
)

// patientWait polls cond until it holds or the budget is used up.  Only time in which this goroutine was actually
// running in small steps counts: a pause of the whole process (machine under load) uses up 5 ms of the budget, not its
// length, so the liveness verdict "did not run within the budget" is not a statement about the machine.
func patientWait(budget time.Duration, cond func() bool) bool {
	used := time.Duration(0)
	for last := time.Now(); used < budget; {
		if cond() {
			return true
		}
		time.Sleep(200 * time.Microsecond)
		now := time.Now()
		if d := now.Sub(last); d < 5*time.Millisecond {
			used += d
		} else {
			used += 5 * time.Millisecond
		}
		last = now
	}
	return cond()
}

type rcfg struct {
	Workers int    `json:"workers"`
	IDs     int    `json:"ids"`
	G       int    `json:"goroutines"`
	Ops     int    `json:"ops_per_goroutine"`
	Mix     string `json:"mix"` // far | near | mixed | paced (near/past times, pauses between the operations)
	Seed    uint64 `json:"seed"`
}

func (c rcfg) String() string {
	return fmt.Sprintf("w=%d/ids=%d/g=%d/%s", c.Workers, c.IDs, c.G, c.Mix)
}

type rop struct {
	kind  byte // 'A' ExecuteAt, 'F' ExecuteAfter, 'C' Cancel
	id    int
	when  byte // 'f' far future, 'n' near (0-400 us ahead), 'p' past
	nearU int  // microseconds ahead (near)
	yield bool // runtime.Gosched() before the operation
	pause int  // busy-wait after the operation, microseconds (mix "paced": tasks get the time to become due and start)
}

func (o rop) String() string {
	y := ""
	if o.yield {
		y = "~"
	}
	ps := ""
	if o.pause > 0 {
		ps = fmt.Sprintf("+%d", o.pause)
	}
	if o.kind == 'C' {
		return fmt.Sprintf("%sC%d%s", y, o.id, ps)
	}
	return fmt.Sprintf("%s%c%d%c%s", y, o.kind, o.id, o.when, ps)
}

func genRaceProgram(r *vx.Rng, c rcfg) []rop {
	p := make([]rop, c.Ops)
	for i := range p {
		o := rop{id: r.Intn(c.IDs), yield: r.Chance(1, 8)}
		if r.Chance(9, 20) {
			o.kind = 'C'
		} else {
			o.kind = 'A'
			if r.Chance(1, 4) {
				o.kind = 'F'
			}
			switch c.Mix {
			case "far":
				o.when = 'f'
			case "near":
				o.when = vx.Pick(r, []byte{'n', 'n', 'n', 'p'})
			case "paced":
				o.when = vx.Pick(r, []byte{'n', 'n', 'p'})
			default:
				o.when = vx.Pick(r, []byte{'f', 'f', 'n', 'n', 'p'})
			}
			o.nearU = r.Intn(400)
			if c.Mix == "paced" {
				o.nearU = r.Intn(120)
			}
		}
		if c.Mix == "paced" && r.Chance(2, 3) {
			o.pause = r.Intn(150)
		}
		p[i] = o
	}
	return p
}

type rres struct {
	Cfg     rcfg     `json:"trial"`
	Why     []string `json:"why,omitempty"`
	S       []int    `json:"scheduled"`
	R       []int    `json:"ran"`
	C       []int    `json:"cancel_true"`
	P       []int    `json:"pending_at_end"`
	MaxSize int      `json:"max_size_sampled"`
	QSize   int      `json:"size_at_quiescence"`
	Progs   []string `json:"programs,omitempty"` // only when the trial failed
}

func runRace(c rcfg) rres {
	res := rres{Cfg: c}
	bad := func(f string, a ...any) { res.Why = append(res.Why, fmt.Sprintf(f, a...)) }
	r := vx.NewRng(c.Seed)
	progs := make([][]rop, c.G)
	for g := range progs {
		progs[g] = genRaceProgram(r.Fork(), c)
	}
	te := timed.NewTaskExecutor[int](c.Workers)
	ntok := c.G*c.Ops + 2*c.IDs
	ran := make([]atomic.Int32, ntok)
	tokID := make([]int, ntok)  // identifier of the token (written by its goroutine before the call)
	tokOK := make([]bool, ntok) // ExecuteAt/After returned a task
	cTrue := make([][]int, c.G) // per goroutine, per identifier: Cancel = true results
	for g := range cTrue {
		cTrue[g] = make([]int, c.IDs)
	}
	cb := func(tok int) func() { return func() { ran[tok].Add(1) } }
	far := func() time.Time { return time.Now().Add(3 * time.Hour) }

	// sampler: Size() at every instant is bounded by the number of identifiers
	var maxSize atomic.Int32
	stopSampler := make(chan struct{})
	samplerDone := make(chan struct{})
	go func() {
		defer close(samplerDone)
		for {
			select {
			case <-stopSampler:
				return
			default:
			}
			if n := int32(te.Size()); n > maxSize.Load() {
				maxSize.Store(n)
			}
			runtime.Gosched()
		}
	}()

	start := make(chan struct{})
	var wg sync.WaitGroup
	for g := 0; g < c.G; g++ {
		wg.Add(1)
		go func(g int) {
			defer wg.Done()
			<-start
			for i, o := range progs[g] {
				if o.yield {
					runtime.Gosched()
				}
				tok := g*c.Ops + i
				switch o.kind {
				case 'C':
					if te.Cancel(o.id) {
						cTrue[g][o.id]++
					}
				default:
					tokID[tok] = o.id
					var d time.Duration
					switch o.when {
					case 'f':
						d = 3 * time.Hour
					case 'n':
						d = time.Duration(o.nearU) * time.Microsecond
					default:
						d = -time.Second
					}
					var t *timed.ScheduledTask
					if o.kind == 'F' {
						t = te.ExecuteAfter(o.id, cb(tok), d)
					} else {
						t = te.ExecuteAt(o.id, cb(tok), time.Now().Add(d))
					}
					tokOK[tok] = t != nil
				}
				if o.pause > 0 {
					for t0 := time.Now(); time.Since(t0) < time.Duration(o.pause)*time.Microsecond; {
					}
				}
			}
		}(g)
	}
	close(start)
	joined := make(chan struct{})
	go func() { wg.Wait(); close(joined) }()
	if !waitFor(joined, 20*time.Second) {
		bad("the goroutines did not finish their programs within 20 s (an operation hangs)")
		close(stopSampler)
		return res
	}
	close(stopSampler)
	<-samplerDone
	res.MaxSize = int(maxSize.Load())

	// quiescence: every near time has passed; the run counters are stable (this wait only makes P small, the
	// predicates below do not depend on it)
	total := func() int {
		n := 0
		for i := range ran {
			n += int(ran[i].Load())
		}
		return n
	}
	time.Sleep(2 * time.Millisecond)
	if c.Workers > 0 {
		last, since := total(), time.Now()
		for deadline := time.Now().Add(2 * time.Second); time.Now().Before(deadline); {
			time.Sleep(time.Millisecond)
			if n := total(); n != last {
				last, since = n, time.Now()
			} else if time.Since(since) > 15*time.Millisecond {
				break
			}
		}
	}
	res.QSize = te.Size()

	// final Cancel per identifier
	res.S, res.R, res.C, res.P = make([]int, c.IDs), make([]int, c.IDs), make([]int, c.IDs), make([]int, c.IDs)
	sumP := 0
	hung := false
	for id := 0; id < c.IDs && !hung; id++ {
		var p1, p2 bool
		if !guardFor(func() { p1 = te.Cancel(id); p2 = te.Cancel(id) }, 15*time.Second) {
			bad("the final Cancel(%d) hung", id)
			hung = true
			break
		}
		if p1 {
			res.P[id] = 1
			sumP++
		}
		if p2 {
			bad("Cancel(%d) returned true twice in a row with no ExecuteAt in between", id)
		}
	}
	if hung {
		return res
	}
	// (with workers the comparison would race with a task becoming due between the two readings: Size() after the
	// final Cancels, below, is the exact form of the same predicate)
	if c.Workers == 0 && res.QSize != sumP {
		bad("at quiescence Size() = %d but %d identifiers had a pending task (final Cancel(id) = true): a queued element is not the pending task of any identifier", res.QSize, sumP)
	}
	if n := te.Size(); n != 0 {
		bad("Size() = %d after Cancel(id) of every identifier: an element is queued that no identifier tracks (it was neither replaced by a completed ExecuteAt nor removed by a Cancel)", n)
	}
	if res.MaxSize > c.IDs {
		bad("Size() = %d was observed with %d identifiers: more than one task per identifier queued", res.MaxSize, c.IDs)
	}

	// the map still works: one more task per identifier
	zbase := c.G * c.Ops
	if c.Workers > 0 {
		for id := 0; id < c.IDs; id++ {
			tokID[zbase+id] = id
			at := time.Now().Add(time.Duration(id) * 300 * time.Microsecond)
			tokOK[zbase+id] = te.ExecuteAt(id, cb(zbase+id), at) != nil
			if !tokOK[zbase+id] {
				bad("ExecuteAt(%d) after the run was refused", id)
			}
		}
		zwait := 5 * time.Second
		if len(res.Why) > 0 {
			zwait = 300 * time.Millisecond // the trial has failed already: do not spend the watchdog on it
		}
		patientWait(zwait, func() bool {
			for id := 0; id < c.IDs; id++ {
				if tokOK[zbase+id] && ran[zbase+id].Load() == 0 {
					return false
				}
			}
			return true
		})
		for id := 0; id < c.IDs; id++ {
			if tokOK[zbase+id] && ran[zbase+id].Load() == 0 {
				bad("the task scheduled for identifier %d after the run (nobody cancels it) did not run within %v", id, zwait)
			}
			if te.Cancel(id) && ran[zbase+id].Load() > 0 {
				bad("Cancel(%d) = true after the only pending task of the identifier had run", id)
			}
		}
	} else {
		for id := 0; id < c.IDs; id++ {
			tokID[zbase+id] = id
			tokOK[zbase+id] = te.ExecuteAt(id, cb(zbase+id), far()) != nil
			tokOK[zbase+c.IDs+id] = te.ExecuteAfter(id, cb(zbase+c.IDs+id), time.Hour) != nil // replaces it
			tokID[zbase+c.IDs+id] = id
		}
		if n := te.Size(); n != c.IDs {
			bad("after one ExecuteAt + one replacing ExecuteAfter per identifier Size() = %d, want %d", n, c.IDs)
		}
		for id := 0; id < c.IDs; id++ {
			if !te.Cancel(id) {
				bad("Cancel(%d) = false although a task was just scheduled", id)
			}
		}
		if n := te.Size(); n != 0 {
			bad("Size() = %d after cancelling every identifier", n)
		}
	}

	// Shutdown waits for the workers: afterwards nothing runs any more
	if !guardFor(func() { te.Shutdown(timed.CancelPendingElements) }, 15*time.Second) {
		bad("Shutdown(CancelPendingElements) did not return within 15 s")
	}
	for tok := 0; tok < zbase; tok++ {
		if !tokOK[tok] {
			if progs[tok/c.Ops][tok%c.Ops].kind != 'C' {
				bad("ExecuteAt/After of token %d was refused before any Shutdown", tok)
			}
			continue
		}
		id := tokID[tok]
		res.S[id]++
		switch n := ran[tok].Load(); {
		case n > 1:
			bad("token %d (identifier %d) ran %d times", tok, id, n)
			res.R[id]++
		case n == 1:
			res.R[id]++
		}
	}
	for tok := zbase; tok < ntok; tok++ {
		if n := ran[tok].Load(); n > 1 {
			bad("the task scheduled after the run for identifier %d ran %d times", tokID[tok], n)
		}
	}
	for g := range cTrue {
		for id, n := range cTrue[g] {
			res.C[id] += n
		}
	}
	for id := 0; id < c.IDs; id++ {
		s, acc := res.S[id], res.R[id]+res.C[id]+res.P[id]
		if acc > s {
			bad("identifier %d: %d tasks were scheduled but %d ran + %d Cancel(id) = true + %d pending at the end = %d: a Cancel reported true without preventing a task of its own (the task ran, or two Cancels report the same task)", id, s, res.R[id], res.C[id], res.P[id], acc)
		}
		if s > 0 && acc == 0 {
			bad("identifier %d: %d tasks were scheduled, none ran, none was cancelled, none is pending: the task scheduled last was lost", id, s)
		}
	}
	if len(res.Why) > 0 {
		for _, p := range progs {
			parts := make([]string, len(p))
			for i, o := range p {
				parts[i] = o.String()
			}
			res.Progs = append(res.Progs, strings.Join(parts, " "))
		}
	}
	return res
}

// ---------------------------------------------------------------- rounds: tight accounting
//
// The free-running programs above leave the number of replaced tasks open (any ExecuteAt may or may not have replaced
// one), so "R + C + P <= S" has slack.  A round removes the slack: ONE task X is scheduled for the identifier, then k
// goroutines behind a barrier each issue one operation on it (Cancel(id), or at most one of them ExecuteAt(id, Y)),
// then one final Cancel(id).  X was scheduled before every other operation started and Y is the only other task, so per
// round, for EVERY interleaving of atomic operations: exactly one of {X ran, some Cancel = true took X, Y replaced X},
// and Y (if accepted) ran, was taken by a Cancel = true or is pending at the final Cancel:
//
//	without Y:  ran(X) + #Cancel=true (the final one included) = 1
//	with Y:     1 <= ran(X) + ran(Y) + #Cancel=true <= 2,  ran(Y) + #Cancel=true >= 1
//
// Rounds run back to back on one executor (a defect may leave state behind: Size() = 0 after the final Cancel of every
// round); the run counters are read after Shutdown has waited for the workers.

type roundRec struct {
	When  byte `json:"x_time"`      // f n p
	K     int  `json:"ops"`         // concurrent operations
	Y     int  `json:"y_op"`        // index of the operation that is ExecuteAt(id, Y), -1 = none
	YWhen byte `json:"y_time"`      // f n p
	CTrue int  `json:"cancel_true"` // concurrent Cancels that returned true
	Final bool `json:"final_cancel"`
	RanX  int  `json:"ran_x"`
	RanY  int  `json:"ran_y"`
	Size  int  `json:"size_after"`
}

type roundsRes struct {
	Workers int        `json:"workers"`
	Seed    uint64     `json:"seed"`
	Rounds  int        `json:"rounds"`
	Why     []string   `json:"why,omitempty"`
	Bad     []roundRec `json:"failing_rounds,omitempty"`
	tight   int
	xRan    int
	xCancel int
}

func runRounds(workers, n int, seed uint64) roundsRes {
	res := roundsRes{Workers: workers, Seed: seed, Rounds: n}
	r := vx.NewRng(seed)
	te := timed.NewTaskExecutor[int](workers)
	ran := make([]atomic.Int32, 2*n)
	cb := func(tok int) func() { return func() { ran[tok].Add(1) } }
	when := func(c byte) time.Time {
		switch c {
		case 'f':
			return time.Now().Add(3 * time.Hour)
		case 'n':
			return time.Now().Add(time.Duration(20+r.Intn(200)) * time.Microsecond)
		}
		return time.Now().Add(-time.Second)
	}
	recs := make([]roundRec, n)
	times := []byte{'f', 'f', 'n', 'n', 'p'}
	if workers == 0 {
		times = []byte{'f', 'n'}
	}
	for i := 0; i < n; i++ {
		rec := roundRec{When: vx.Pick(r, times), K: 2 + r.Intn(2), Y: -1}
		if r.Chance(1, 2) {
			rec.Y = r.Intn(rec.K)
			rec.YWhen = vx.Pick(r, times)
		}
		// rendezvous: with workers, a near X becomes due about when the concurrent operations start
		xAt := when(rec.When)
		var meet time.Time
		if workers > 0 && rec.When == 'n' {
			meet = time.Now().Add(150 * time.Microsecond)
			xAt = meet.Add(time.Duration(r.Intn(160)-80) * time.Microsecond)
		}
		if te.ExecuteAt(0, cb(2*i), xAt) == nil {
			res.Why = append(res.Why, fmt.Sprintf("round %d: ExecuteAt refused", i))
			break
		}
		yAt := when(rec.YWhen)
		var ready, ctrue atomic.Int32
		var yOK atomic.Bool
		var wg sync.WaitGroup
		for j := 0; j < rec.K; j++ {
			wg.Add(1)
			go func(j int) {
				defer wg.Done()
				ready.Add(1)
				for ready.Load() < int32(rec.K) { // spin barrier: the operations start together
					runtime.Gosched()
				}
				for !meet.IsZero() && time.Now().Before(meet) {
				}
				if j == rec.Y {
					yOK.Store(te.ExecuteAt(0, cb(2*i+1), yAt) != nil)
				} else if te.Cancel(0) {
					ctrue.Add(1)
				}
			}(j)
		}
		done := make(chan struct{})
		go func() { wg.Wait(); close(done) }()
		if !waitFor(done, 10*time.Second) {
			res.Why = append(res.Why, fmt.Sprintf("round %d: an operation hung", i))
			return res
		}
		if rec.Y >= 0 && !yOK.Load() {
			res.Why = append(res.Why, fmt.Sprintf("round %d: ExecuteAt refused", i))
		}
		if workers > 0 && r.Chance(1, 2) {
			time.Sleep(time.Duration(r.Intn(300)) * time.Microsecond) // sometimes let a near task become due first
		}
		rec.CTrue = int(ctrue.Load())
		rec.Final = te.Cancel(0)
		rec.Size = te.Size()
		recs[i] = rec
	}
	if !guardFor(func() { te.Shutdown(timed.CancelPendingElements) }, 15*time.Second) {
		res.Why = append(res.Why, "Shutdown(CancelPendingElements) did not return within 15 s")
	}
	for i, rec := range recs {
		if rec.K == 0 {
			continue
		}
		rec.RanX, rec.RanY = int(ran[2*i].Load()), int(ran[2*i+1].Load())
		c := rec.CTrue
		if rec.Final {
			c++
		}
		why := ""
		switch {
		case rec.RanX > 1 || rec.RanY > 1:
			why = "a task ran twice"
		case rec.Size != 0:
			why = fmt.Sprintf("Size() = %d after the final Cancel(id): an element is queued that the identifier does not track", rec.Size)
		case rec.Y < 0 && rec.RanX+c != 1:
			why = fmt.Sprintf("one task, it ran %d times and %d Cancel(id) returned true: want exactly one of the two", rec.RanX, c)
		case rec.Y >= 0 && (rec.RanX+rec.RanY+c < 1 || rec.RanX+rec.RanY+c > 2 || rec.RanY+c < 1):
			why = fmt.Sprintf("task X then (Cancels || ExecuteAt Y): X ran %d, Y ran %d, %d Cancel(id) = true: Y must run, be cancelled or be pending, and at most two outcomes exist for two tasks", rec.RanX, rec.RanY, c)
		}
		if rec.Y < 0 {
			res.tight++
			res.xRan += rec.RanX
			res.xCancel += c
		}
		if why != "" {
			if len(res.Why) < 6 {
				res.Why = append(res.Why, fmt.Sprintf("round %d: %s", i, why))
			}
			if len(res.Bad) < 6 {
				res.Bad = append(res.Bad, rec)
			}
		}
	}
	return res
}

// raceConfigs: workers x identifiers x goroutines x mix, enumerated; seeds from the run's rng.
func raceConfigs(r *vx.Rng, reps, ops int) []rcfg {
	var cs []rcfg
	for rep := 0; rep < reps; rep++ {
		for _, w := range []int{0, 1, 2} {
			for _, ids := range []int{1, 2} {
				for _, g := range []int{2, 3, 4} {
					mixes := []string{"far", "near", "mixed", "paced"}
					if w == 0 {
						mixes = []string{"far", "mixed"} // nothing ever runs: the time only orders the heap
					}
					for _, m := range mixes {
						cs = append(cs, rcfg{Workers: w, IDs: ids, G: g, Ops: ops, Mix: m, Seed: r.U64()})
					}
				}
			}
		}
	}
	return cs
}

func runRaces(st *vx.Stats, r *vx.Rng, reps, ops, par int) {
	defer runRoundTrials(st, r.Fork(), reps, par)
	cs := raceConfigs(r, reps, ops)
	results := make([]rres, len(cs))
	sem := make(chan struct{}, par)
	var wg sync.WaitGroup
	for i := range cs {
		wg.Add(1)
		sem <- struct{}{}
		go func(i int) {
			defer wg.Done()
			defer func() { <-sem }()
			results[i] = runRace(cs[i])
		}(i)
	}
	wg.Wait()
	var sumS, sumR, sumC, sumP, contended, fails int
	for i, res := range results {
		st.Count("race:" + cs[i].String())
		for id := range res.S {
			sumS += res.S[id]
			sumR += res.R[id]
			sumC += res.C[id]
			sumP += res.P[id]
		}
		if len(res.Why) > 0 {
			fails++
			if len(res.Why) > 6 {
				res.Why = append(res.Why[:6], fmt.Sprintf("... and %d more", len(res.Why)-6))
			}
			st.Fail(map[string]any{"sig": "", "kind": "race", "violated": strings.Join(res.Why, "; "), "trial": res,
				"what": fmt.Sprintf("%d goroutines run the programs (A = ExecuteAt, F = ExecuteAfter, C = Cancel; identifier; f/n/p = far/near/past time) concurrently on one TaskExecutor with %d workers; judged by interleaving-independent accounting", cs[i].G, cs[i].Workers)})
		}
		if res.MaxSize > 0 {
			contended++
		}
	}
	st.Sample(map[string]any{"race_trial": results[0]}, 8)
	st.Extra["race"] = map[string]any{"trials": len(cs), "ops_per_goroutine": ops, "scheduled": sumS, "ran": sumR, "cancel_true": sumC,
		"pending_at_end": sumP, "trials_sampler_saw_elements": contended, "failed": fails}
}

func runRoundTrials(st *vx.Stats, r *vx.Rng, reps, par int) {
	type cfg struct {
		w    int
		seed uint64
	}
	var cs []cfg
	for rep := 0; rep < 2*reps; rep++ {
		for _, w := range []int{0, 1, 2} {
			cs = append(cs, cfg{w, r.U64()})
		}
	}
	results := make([]roundsRes, len(cs))
	sem := make(chan struct{}, par)
	var wg sync.WaitGroup
	for i := range cs {
		wg.Add(1)
		sem <- struct{}{}
		go func(i int) {
			defer wg.Done()
			defer func() { <-sem }()
			results[i] = runRounds(cs[i].w, 150, cs[i].seed)
		}(i)
	}
	wg.Wait()
	rounds, tight, fails, xRan, xCancel := 0, 0, 0, 0, 0
	for _, res := range results {
		xRan += res.xRan
		xCancel += res.xCancel
		st.Count(fmt.Sprintf("race-rounds:w=%d", res.Workers))
		rounds += res.Rounds
		tight += res.tight
		if len(res.Why) > 0 {
			fails++
			st.Fail(map[string]any{"sig": "", "kind": "race-rounds", "violated": strings.Join(res.Why, "; "), "trial": res,
				"what": "per round: ExecuteAt(0, X); then 2-3 goroutines behind a barrier issue Cancel(0) (one of them possibly ExecuteAt(0, Y)); then a final Cancel(0); exactly-one accounting per round"})
		}
	}
	st.Extra["race_rounds"] = map[string]any{"trials": len(cs), "rounds": rounds, "rounds_without_second_task": tight, "of_these_task_ran": xRan, "of_these_cancelled": xCancel, "failed": fails}
}
