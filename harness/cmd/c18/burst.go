// burst: wake-ups.  k pollers (one-shot consumers of a Queue, looping pollers of which the first one that pops is held at
// the poll:popped yield point, or workers of an Executor / TaskExecutor whose callbacks are gated) are parked in
// waitCond.Wait() on an empty queue (detected on the condition variable's waiter count), then j >= 2 elements with
// times in the past / a few milliseconds ahead are added back to back (from one goroutine, or from j goroutines behind
// a barrier), so that the second Add runs before the first woken poller has popped, and the woken poller does not come
// back (it polls once / its callback blocks / it is held).  Oracle = the property: every element is delivered (callback
// started) exactly once, not before its time, within the watchdog.  Sound because at most k-1 consumers are ever
// withheld: one-shot consumers get j <= k elements, at most k-1 callbacks are gated, one poller is held.
// The same trial is a case of the model (CRun): k workers step into WWait, j Adds (each one Signal), clock passes every
// time, workers run to quiescence with the gated callbacks (one-shot consumer = a callback that never returns) blocked:
// the model must start the same set.
package main

import (
	"fmt"
	"reflect"
	"sort"
	"strings"
	"sync"
	"sync/atomic"
	"time"
	"unsafe"

	"github.com/iotaledger/hive.go/runtime/timed"

	"verif/harness/vx"
)

// condWaiters = number of goroutines registered in waitCond.Wait() of the queue (sync.Cond: notifyList.wait - notify;
// the ticket is taken before Wait releases the mutex, so a Signal issued after this count is reached cannot miss them).
// -1 when the layout is not the expected one.
func condWaiters(queue any) (n int) {
	defer func() {
		if recover() != nil {
			n = -1
		}
	}()
	nl := reflect.ValueOf(queue).Elem().FieldByName("waitCond").Elem().FieldByName("notify")
	w := atomic.LoadUint32((*uint32)(unsafe.Pointer(nl.FieldByName("wait").UnsafeAddr())))
	nt := atomic.LoadUint32((*uint32)(unsafe.Pointer(nl.FieldByName("notify").UnsafeAddr())))
	return int(w - nt)
}

func executorQueue(ex *timed.Executor) any {
	f := reflect.ValueOf(ex).Elem().FieldByName("queue")
	return reflect.NewAt(f.Type(), unsafe.Pointer(f.UnsafeAddr())).Elem().Interface()
}

// waitParked waits until k goroutines wait on the queue's condition variable (or 2 s); returns the count seen.
func waitParked(queue any, k int) int {
	deadline := time.Now().Add(2 * time.Second)
	for {
		n := condWaiters(queue)
		if n < 0 {
			time.Sleep(30 * time.Millisecond) // unknown layout: plain settling time
			return -1
		}
		if n >= k || time.Now().After(deadline) {
			return n
		}
		time.Sleep(200 * time.Microsecond)
	}
}

type bkind struct {
	Target string `json:"target"` // queue-oneshot | queue-hold | exec | task
	K      int    `json:"pollers"`
	Dues   []int  `json:"due_ms"`          // per element: offset of its time from the moment of the burst
	Gated  []bool `json:"gated,omitempty"` // exec / task: the callback blocks until the end of the trial
	Par    bool   `json:"parallel_adds,omitempty"`
}

func (k bkind) String() string {
	return fmt.Sprintf("%s/k=%d/due=%v/gated=%v/par=%v", k.Target, k.K, k.Dues, k.Gated, k.Par)
}

func burstKinds() []bkind {
	var ks []bkind
	duePatterns := func(j int) [][]int {
		past, near, mixed, same := make([]int, j), make([]int, j), make([]int, j), make([]int, j)
		for i := 0; i < j; i++ {
			past[i] = -1000 + i
			near[i] = 10 * (i + 1)
			mixed[i] = []int{20, -5, 8, -1, 30, 2}[i%6]
			same[i] = 15
		}
		return [][]int{past, near, mixed, same}
	}
	for _, k := range []int{2, 3, 4} {
		for j := 2; j <= k; j++ {
			for pi, d := range duePatterns(j) {
				ks = append(ks, bkind{Target: "queue-oneshot", K: k, Dues: d, Par: (pi+j+k)%2 == 0})
			}
		}
		for _, j := range []int{2, 3, 5} {
			for pi, d := range duePatterns(j) {
				ks = append(ks, bkind{Target: "queue-hold", K: k, Dues: d, Par: (pi+j)%3 == 0})
				// the callbacks of the earliest elements block: at most k-1 of them
				g := make([]bool, j)
				type ix struct{ i, d int }
				var o []ix
				for i, x := range d {
					o = append(o, ix{i, x})
				}
				sort.SliceStable(o, func(a, b int) bool { return o[a].d < o[b].d })
				ng := 1 + (pi+j)%(k-1+0)
				if ng > k-1 {
					ng = k - 1
				}
				if ng > j {
					ng = j
				}
				for _, x := range o[:ng] {
					g[x.i] = true
				}
				tg := "exec"
				if (pi+j+k)%2 == 1 {
					tg = "task"
				}
				ks = append(ks, bkind{Target: tg, K: k, Dues: d, Gated: g, Par: (pi+k)%3 == 0})
			}
		}
	}
	return ks
}

type bres struct {
	Kind      bkind    `json:"kind"`
	Parked    int      `json:"parked"`    // goroutines seen waiting on the condition variable before the burst
	Delivered []int    `json:"delivered"` // element ids in delivery order
	Why       []string `json:"why,omitempty"`
}

func runBurst(k bkind) bres {
	res := bres{Kind: k}
	j := len(k.Dues)
	var mu sync.Mutex
	var order []int
	stamps := map[int]time.Time{}
	record := func(id int) {
		now := time.Now()
		mu.Lock()
		order = append(order, id)
		if _, ok := stamps[id]; !ok {
			stamps[id] = now
		}
		mu.Unlock()
	}
	ndeliv := func() int {
		mu.Lock()
		defer mu.Unlock()
		seen := map[int]bool{}
		for _, x := range order {
			seen[x] = true
		}
		return len(seen)
	}

	var q *timed.Queue[int]
	var ex *timed.Executor
	var te *timed.TaskExecutor[int]
	var queue any
	gate := make(chan struct{})
	holdRelease := make(chan struct{})
	var gateOnce, holdOnce sync.Once
	openGates := func() { gateOnce.Do(func() { close(gate) }); holdOnce.Do(func() { close(holdRelease) }) }
	defer openGates()
	var pollers sync.WaitGroup
	switch k.Target {
	case "queue-oneshot", "queue-hold":
		q = timed.NewQueue[int]()
		queue = q
		if k.Target == "queue-hold" {
			var first atomic.Bool
			hookHandlers.Store(hookKey(q), func(point string, _ any) {
				if point == "poll:popped" && first.CompareAndSwap(false, true) {
					<-holdRelease // the first poller that pops does not come back before the others are done
				}
			})
			defer hookHandlers.Delete(hookKey(q))
		}
		for i := 0; i < k.K; i++ {
			pollers.Add(1)
			go func() {
				defer pollers.Done()
				for {
					v := q.Poll(true)
					if v == 0 {
						return
					}
					record(v - 1)
					if k.Target == "queue-oneshot" {
						return
					}
				}
			}()
		}
	case "exec":
		ex = timed.NewExecutor(k.K)
		queue = executorQueue(ex)
	default:
		te = timed.NewTaskExecutor[int](k.K)
		ex = te.Executor
		queue = executorQueue(ex)
	}
	res.Parked = waitParked(queue, k.K)

	// the burst
	var qel []*timed.QueueElement[int]
	xel := make([]*timed.ScheduledTask, j)
	qelArr := make([]*timed.QueueElement[int], j)
	due := make([]time.Time, j)
	base := time.Now()
	for i := range due {
		due[i] = base.Add(time.Duration(k.Dues[i]) * time.Millisecond)
	}
	addOne := func(i int) {
		switch {
		case q != nil:
			qelArr[i] = q.Add(i+1, due[i])
		default:
			cb := func() {
				record(i)
				if k.Gated[i] {
					<-gate
				}
			}
			if te != nil {
				xel[i] = te.ExecuteAt(i, cb, due[i])
			} else {
				xel[i] = ex.ExecuteAt(cb, due[i])
			}
		}
	}
	if k.Par {
		var wg sync.WaitGroup
		barrier := make(chan struct{})
		for i := 0; i < j; i++ {
			wg.Add(1)
			go func(i int) { defer wg.Done(); <-barrier; addOne(i) }(i)
		}
		time.Sleep(200 * time.Microsecond)
		close(barrier)
		if !guard(wg.Wait) {
			res.Why = append(res.Why, "an Add of the burst hung")
		}
	} else {
		if !guard(func() {
			for i := 0; i < j; i++ {
				addOne(i)
			}
		}) {
			res.Why = append(res.Why, "an Add of the burst hung")
		}
	}
	qel = qelArr
	for i := 0; i < j; i++ {
		if (q != nil && qel[i] == nil) || (q == nil && xel[i] == nil) {
			res.Why = append(res.Why, fmt.Sprintf("Add of element %d was refused although no Shutdown was called", i))
		}
	}

	// outcome: everything but the held poller's element must arrive on its own; then the held poller is released
	maxDue := base
	for _, d := range due {
		if d.After(maxDue) {
			maxDue = d
		}
	}
	want := j
	if k.Target == "queue-hold" {
		want = j - 1
	}
	deadline := maxDue.Add(5 * time.Second)
	for time.Now().Before(deadline) && ndeliv() < want {
		time.Sleep(300 * time.Microsecond)
	}
	got := ndeliv()
	if k.Target == "queue-hold" {
		holdOnce.Do(func() { close(holdRelease) })
		d2 := time.Now().Add(5 * time.Second)
		if maxDue.Add(5 * time.Second).After(d2) {
			d2 = maxDue.Add(5 * time.Second)
		}
		for time.Now().Before(d2) && ndeliv() < j {
			time.Sleep(300 * time.Microsecond)
		}
	}
	time.Sleep(10 * time.Millisecond) // late duplicates
	mu.Lock()
	res.Delivered = append([]int(nil), order...)
	st2 := map[int]time.Time{}
	for id, t := range stamps {
		st2[id] = t
	}
	mu.Unlock()
	if got < want {
		res.Why = append(res.Why, fmt.Sprintf("only %d of %d elements were delivered within 5 s after the last scheduled time although %d pollers were waiting and at most %d of them were withheld (size %d)",
			got, j, k.K, withheld(k), sizeOf(q, ex)))
	}
	for i := 0; i < j; i++ {
		n := 0
		for _, x := range res.Delivered {
			if x == i {
				n++
			}
		}
		switch {
		case n > 1:
			res.Why = append(res.Why, fmt.Sprintf("element %d delivered %d times", i, n))
		case n == 0:
			res.Why = append(res.Why, fmt.Sprintf("element %d (neither cancelled nor dropped) was not delivered", i))
		case st2[i].Before(due[i]):
			res.Why = append(res.Why, fmt.Sprintf("element %d delivered %v before its time", i, due[i].Sub(st2[i])))
		}
	}

	// clean-up
	openGates()
	if q != nil {
		q.Shutdown(timed.CancelPendingElements)
		for _, e := range qel {
			if e != nil {
				e.Cancel()
			}
		}
		done := make(chan struct{})
		go func() { pollers.Wait(); close(done) }()
		waitFor(done, 2*time.Second)
	} else {
		ex.Shutdown(timed.CancelPendingElements, timed.DontWaitForShutdown)
		for _, e := range xel {
			if e != nil {
				e.Cancel()
			}
		}
	}
	return res
}

func withheld(k bkind) int {
	switch k.Target {
	case "queue-oneshot":
		return len(k.Dues) - 1 // each consumer that returned is gone; the last element still has its own consumer
	case "queue-hold":
		return 1
	}
	n := 0
	for _, g := range k.Gated {
		if g {
			n++
		}
	}
	return n
}

func sizeOf(q *timed.Queue[int], ex *timed.Executor) int {
	if q != nil {
		return q.Size()
	}
	return ex.Size()
}

// coq: CRun nw labels blocked tick ordered started
func (r bres) coq() string {
	const mT0 = 1000000
	var labels []string
	for i := 0; i < r.Kind.K; i++ {
		labels = append(labels, fmt.Sprintf("LWorker %d 0", i)) // finds the heap empty: WWait
	}
	var blocked []int
	for i, d := range r.Kind.Dues {
		key := "None"
		if r.Kind.Target == "task" {
			key = fmt.Sprintf("(Some %d)", i)
		}
		labels = append(labels, fmt.Sprintf("LAdd %s %s", vx.N(uint64(mT0+d*1000)), key))
		switch r.Kind.Target {
		case "queue-oneshot":
			blocked = append(blocked, i) // a consumer that polls once = a worker whose callback never returns
		case "exec", "task":
			if r.Kind.Gated[i] {
				blocked = append(blocked, i)
			}
		}
	}
	d := append([]int(nil), r.Delivered...)
	sort.Ints(d)
	f := func(x int) string { return fmt.Sprint(x) }
	return fmt.Sprintf("CRun %d %s %s %s false %s", r.Kind.K, vx.List(labels), vx.ListOf(blocked, f), vx.N(1000000000), vx.ListOf(d, f))
}

func runBursts(cf *vx.CasesFile, st *vx.Stats, reps, par int) {
	kinds := burstKinds()
	results := make([][]bres, len(kinds))
	sem := make(chan struct{}, par)
	var wg sync.WaitGroup
	for i := range kinds {
		results[i] = make([]bres, reps)
		for rep := 0; rep < reps; rep++ {
			wg.Add(1)
			sem <- struct{}{}
			go func(i, rep int) {
				defer wg.Done()
				defer func() { <-sem }()
				results[i][rep] = runBurst(kinds[i])
			}(i, rep)
		}
	}
	wg.Wait()
	trials, parkedAll := 0, 0
	for i, k := range kinds {
		emitted := false
		for rep := 0; rep < reps; rep++ {
			r := results[i][rep]
			trials++
			if r.Parked >= k.K {
				parkedAll++
			}
			st.Count("burst:" + k.Target + fmt.Sprintf("/k=%d", k.K))
			if len(r.Why) > 0 {
				st.Fail(map[string]any{"sig": "", "kind": "burst", "violated": strings.Join(r.Why, "; "), "trial": r,
					"what": fmt.Sprintf("%d pollers/workers parked in Poll(true) on the empty queue (%d seen waiting), burst of %d Adds (times %v ms from now, parallel=%v), woken consumer withheld (%s)",
						k.K, r.Parked, len(k.Dues), k.Dues, k.Par, k.Target)})
				continue
			}
			if !emitted {
				emitted = true
				cf.Add(r.coq())
				st.Case("B"+k.String(), true)
				st.CaseIndex = append(st.CaseIndex, map[string]any{"kind": "burst", "trial": r})
			}
		}
	}
	st.Extra["bursts"] = map[string]any{"kinds": len(kinds), "reps": reps, "trials": trials, "all_pollers_seen_parked": parkedAll}
}
