package main

import (
	"sync"

	"github.com/iotaledger/hive.go/runtime/timed"
)

// Per-queue handlers for the Poll yield hook (runtime/timed/verif_on.go). The hook variable is set once, before any
// queue exists; queues without a registered handler pass straight through.
var hookHandlers sync.Map // queue pointer (any) -> func(element any)

func init() {
	timed.VerifYield = func(point string, queue any, element any) {
		if point != "poll:popped" {
			return
		}
		if h, ok := hookHandlers.Load(queue); ok {
			h.(func(any))(element)
		}
	}
}
