package main

import (
	"reflect"
	"sync"

	"github.com/iotaledger/hive.go/runtime/timed"
)

// Per-object handlers for the yield hook of runtime/timed (verif_on.go). The hook variable is set once, before any
// queue exists; objects without a registered handler pass straight through. The key is the address of the object the
// hook reports as `queue`: the *Queue[T] for the poll:* points, the *TaskExecutor[T] for the task:* points.
var hookHandlers sync.Map // uintptr -> func(point string, element any)

func hookKey(obj any) uintptr { return reflect.ValueOf(obj).Pointer() }

// executorQueueKey returns the key of the (unexported) queue of an Executor: the poll:* points of its workers report it.
func executorQueueKey(ex *timed.Executor) uintptr {
	return reflect.ValueOf(ex).Elem().FieldByName("queue").Pointer()
}

func init() {
	timed.VerifYield = func(point string, queue any, element any) {
		if h, ok := hookHandlers.Load(hookKey(queue)); ok {
			h.(func(string, any))(point, element)
		}
	}
}
