// extreme inputs: scheduled times far outside the usual range (beyond the years 1678..2262 in which UnixNano is
// defined, the zero time.Time, the largest second counts) and the same instant in different representations (monotonic
// reading stripped, other Locations, rebuilt from Unix seconds).  Ordering, "never early" and "eventually delivered"
// are by INSTANT.  Used by the lockstep scripts (sop.Far / sop.Rep), the timing grid (planOp.Far / planOp.Rep) and the
// preload family below.
//
// preload: elements with far-future times (never due within the run) and ordinary elements (due within +-150 ms, some
// of them at far-past instants) are all queued while nobody can poll (Queue: the pollers are started afterwards;
// Executor: every worker is inside a gated callback), then polling starts.  Every poller takes the earliest element, so
// all ordinary elements are popped before any far one whatever the number of pollers.  Oracle = the property: every
// ordinary element delivered exactly once, not before its instant, within the watchdog; no far element delivered;
// with one poller the deliveries come in the order of the instants.  Also a case of the model (CRun; with one poller
// the order of the starts is compared, which includes the heap's choice among equal instants).
package main

import (
	"fmt"
	"math"
	"sort"
	"strings"
	"sync"
	"time"

	"github.com/iotaledger/hive.go/runtime/timed"

	"verif/harness/vx"
)

type farT struct {
	Name string
	Rank int // > 0: later than everything ordinary, increasing with the instant; < 0: earlier, decreasing
	Mk   func(base time.Time) time.Time
}

// ordered by instant within each sign
var farTable = []farT{
	{"y2200", 1, func(time.Time) time.Time { return time.Date(2200, 1, 1, 0, 0, 0, 0, time.UTC) }},
	{"y2262-04-12", 2, func(time.Time) time.Time { return time.Date(2262, 4, 12, 0, 0, 0, 0, time.UTC) }}, // first day after the last UnixNano
	{"now+maxDuration", 3, func(b time.Time) time.Time { return b.Add(time.Duration(math.MaxInt64)) }},        // the "never" idiom, year ~2318
	{"y9999", 4, func(time.Time) time.Time { return time.Date(9999, 12, 31, 23, 59, 59, 0, time.UTC) }},
	{"unix(1<<40)", 5, func(time.Time) time.Time { return time.Unix(1<<40, 0) }},
	{"unix(1<<62)", 6, func(time.Time) time.Time { return time.Unix(1<<62, 999999999) }},
	{"y1677-09-20", -1, func(time.Time) time.Time { return time.Date(1677, 9, 20, 0, 0, 0, 0, time.UTC) }}, // last day before the first UnixNano
	{"y1600", -2, func(time.Time) time.Time { return time.Date(1600, 2, 29, 12, 0, 0, 0, time.UTC) }},
	{"zero", -3, func(time.Time) time.Time { return time.Time{} }},
	{"unix(-1<<40)", -4, func(time.Time) time.Time { return time.Unix(-1<<40, 0) }},
}

func farByRank(rank int) farT {
	for _, f := range farTable {
		if f.Rank == rank {
			return f
		}
	}
	panic("no such far time")
}

var farFuture = []int{1, 2, 3, 4, 5, 6}
var farPast = []int{-1, -2, -3, -4}

const nReps = 6

// rep returns the same instant in another representation.
func rep(t time.Time, r int) time.Time {
	switch r % nReps {
	case 1:
		return t.Round(0) // monotonic reading stripped
	case 2:
		return t.UTC()
	case 3:
		return t.In(time.FixedZone("E", 5*3600+1800))
	case 4:
		return time.Unix(t.Unix(), int64(t.Nanosecond())) // rebuilt from the Unix seconds
	case 5:
		return t.In(time.FixedZone("W", -11*3600)).Round(0)
	}
	return t
}

// mkTime: the scheduled time of an add: far != 0 selects farTable, else base+off; then the representation.
func mkTime(base time.Time, off time.Duration, far, r int) time.Time {
	t := base.Add(off)
	if far != 0 {
		t = farByRank(far).Mk(base)
	}
	t2 := rep(t, r)
	if !t2.Equal(t) {
		panic(fmt.Sprintf("harness: representation %d changes the instant of %v", r, t))
	}
	return t2
}

// ---------------------------------------------------------------- preload

type xel struct {
	Far int `json:"far,omitempty"` // farTable rank (0 = ordinary)
	Ms  int `json:"ms,omitempty"`  // ordinary: offset from the start of the trial
	Rep int `json:"rep,omitempty"`
}

type xkind struct {
	Executor bool  `json:"executor"` // else Queue whose pollers start after the adds
	NW       int   `json:"workers"`
	Els      []xel `json:"elements"` // in the order of the Adds
}

func (k xkind) String() string { return fmt.Sprintf("exec=%v/w=%d/%v", k.Executor, k.NW, k.Els) }

func (e xel) neverDue() bool { return e.Far > 0 }

func genPreload(r *vx.Rng) xkind {
	k := xkind{Executor: r.Bool(), NW: vx.Pick(r, []int{1, 1, 2, 3})}
	nFar := vx.Pick(r, []int{1, 1, 2, 3, 3})
	if r.Chance(1, 2) && nFar < k.NW {
		nFar = k.NW
	}
	nOrd := 2 + r.Intn(4)
	var els []xel
	for i := 0; i < nFar; i++ {
		els = append(els, xel{Far: vx.Pick(r, farFuture), Rep: r.Intn(nReps)})
	}
	slots := []int{-40, -20, 20, 40, 60, 80, 100, 120, 140}
	for i := 0; i < nOrd; i++ {
		switch {
		case r.Chance(1, 6):
			els = append(els, xel{Far: vx.Pick(r, farPast), Rep: r.Intn(nReps)})
		default:
			els = append(els, xel{Ms: vx.Pick(r, slots), Rep: r.Intn(nReps)}) // equal instants in different representations happen
		}
	}
	for i := len(els) - 1; i > 0; i-- {
		j := r.Intn(i + 1)
		els[i], els[j] = els[j], els[i]
	}
	k.Els = els
	return k
}

func directedPreloads() []xkind {
	return []xkind{
		{false, 1, []xel{{Far: 3}, {Ms: 40}}},                                              // the "never" idiom and an element due in 40 ms
		{false, 2, []xel{{Far: 5}, {Far: 2, Rep: 3}, {Ms: 20, Rep: 1}, {Ms: -20}, {Ms: 20}}}, // as many far elements as pollers
		{true, 1, []xel{{Ms: 60}, {Far: 6}, {Far: -3}, {Ms: 20, Rep: 2}, {Far: -2, Rep: 4}}},
		{true, 3, []xel{{Far: 3, Rep: 1}, {Far: 4}, {Far: 2}, {Ms: 40}, {Ms: 40, Rep: 5}, {Far: -1}}},
		{false, 1, []xel{{Far: 1}, {Ms: 60, Rep: 3}, {Ms: 60, Rep: 1}, {Ms: 60}, {Ms: 20, Rep: 4}, {Far: -4}}}, // in-range far future, equal instants
	}
}

type xres struct {
	Kind      xkind    `json:"kind"`
	Delivered []int    `json:"delivered"`
	Why       []string `json:"why,omitempty"`
}

func runPreload(k xkind) xres {
	res := xres{Kind: k}
	var mu sync.Mutex
	var order []int
	stamps := map[int]time.Time{}
	record := func(id int) {
		now := time.Now()
		mu.Lock()
		order = append(order, id)
		if _, ok := stamps[id]; !ok {
			stamps[id] = now
		}
		mu.Unlock()
	}
	n := len(k.Els)
	var ordinary []int
	for i, e := range k.Els {
		if !e.neverDue() {
			ordinary = append(ordinary, i)
		}
	}
	nOrdDelivered := func() int {
		mu.Lock()
		defer mu.Unlock()
		seen := map[int]bool{}
		for _, x := range order {
			if !k.Els[x].neverDue() {
				seen[x] = true
			}
		}
		return len(seen)
	}

	var q *timed.Queue[int]
	var ex *timed.Executor
	gate := make(chan struct{})
	var gateOnce sync.Once
	open := func() { gateOnce.Do(func() { close(gate) }) }
	defer open()
	var pollers sync.WaitGroup
	if k.Executor {
		ex = timed.NewExecutor(k.NW)
		var started sync.WaitGroup
		for i := 0; i < k.NW; i++ {
			started.Add(1)
			ex.ExecuteAt(func() { started.Done(); <-gate }, time.Now().Add(-time.Second))
		}
		if !guard(started.Wait) {
			res.Why = append(res.Why, "the gating callbacks did not all start")
			return res
		}
	} else {
		q = timed.NewQueue[int]()
	}
	start := time.Now()
	due := make([]time.Time, n)
	qels := make([]*timed.QueueElement[int], n)
	xels := make([]*timed.ScheduledTask, n)
	for i, e := range k.Els {
		due[i] = mkTime(start, time.Duration(e.Ms)*time.Millisecond, e.Far, e.Rep)
		i := i
		if !guard(func() {
			if q != nil {
				qels[i] = q.Add(i+1, due[i])
			} else {
				xels[i] = ex.ExecuteAt(func() { record(i) }, due[i])
			}
		}) {
			res.Why = append(res.Why, fmt.Sprintf("Add of element %d hung", i))
		}
		if (q != nil && qels[i] == nil) || (q == nil && xels[i] == nil) {
			res.Why = append(res.Why, fmt.Sprintf("Add of element %d was refused although no Shutdown was called", i))
		}
	}
	// polling starts
	if q != nil {
		for i := 0; i < k.NW; i++ {
			pollers.Add(1)
			go func() {
				defer pollers.Done()
				for {
					v := q.Poll(true)
					if v == 0 {
						return
					}
					record(v - 1)
				}
			}()
		}
	} else {
		open()
	}
	deadline := start.Add(150*time.Millisecond + 5*time.Second)
	for time.Now().Before(deadline) && nOrdDelivered() < len(ordinary) {
		time.Sleep(300 * time.Microsecond)
	}
	time.Sleep(15 * time.Millisecond) // late duplicates, far elements delivered early
	mu.Lock()
	res.Delivered = append([]int(nil), order...)
	st2 := map[int]time.Time{}
	for id, t := range stamps {
		st2[id] = t
	}
	mu.Unlock()
	size := 0
	if q != nil {
		size = q.Size()
	} else {
		size = ex.Size()
	}
	for i, e := range k.Els {
		c := 0
		for _, x := range res.Delivered {
			if x == i {
				c++
			}
		}
		switch {
		case c > 1:
			res.Why = append(res.Why, fmt.Sprintf("element %d delivered %d times", i, c))
		case e.neverDue() && c > 0:
			res.Why = append(res.Why, fmt.Sprintf("element %d scheduled for %s (%v) was delivered now: before its time", i, farByRank(e.Far).Name, due[i].Year()))
		case !e.neverDue() && c == 0:
			res.Why = append(res.Why, fmt.Sprintf("element %d (due %v after the start, neither cancelled nor dropped) was not delivered within 5 s after its time; %d poller(s), all elements were queued before polling started, %d still queued", i, due[i].Sub(start), k.NW, size))
		case !e.neverDue() && st2[i].Add(time.Millisecond).Before(due[i]):
			res.Why = append(res.Why, fmt.Sprintf("element %d delivered %v before its time", i, due[i].Sub(st2[i])))
		}
	}
	if k.NW == 1 && len(res.Why) == 0 {
		for a := 1; a < len(res.Delivered); a++ {
			x, y := res.Delivered[a-1], res.Delivered[a]
			if due[y].Before(due[x]) {
				res.Why = append(res.Why, fmt.Sprintf("one poller, everything queued before it started: element %d (instant %v) was delivered before element %d whose instant %v is earlier", x, due[x], y, due[y]))
			}
		}
	}
	// clean-up (the far elements are cancelled: they would hold their pollers for ever)
	if q != nil {
		q.Shutdown(timed.CancelPendingElements)
		for _, e := range qels {
			if e != nil {
				e.Cancel()
			}
		}
		done := make(chan struct{})
		go func() { pollers.Wait(); close(done) }()
		if !waitFor(done, 3*time.Second) {
			res.Why = append(res.Why, "a poller did not return within 3 s after Shutdown(CancelPendingElements) and the Cancel of every element")
		}
	} else {
		ex.Shutdown(timed.CancelPendingElements, timed.DontWaitForShutdown)
		for _, e := range xels {
			if e != nil {
				e.Cancel()
			}
		}
	}
	return res
}

// abstract instant of an element of the preload family (model clock: T0 = 10^6 us at the start of the trial; the run
// lasts < 10^9 us): order-preserving, far-future instants are beyond the final tick
func (e xel) instant() string {
	const mT0 = 1000000
	switch {
	case e.Far > 0:
		return vx.N(uint64(mT0) + uint64(e.Far)*1000000000000)
	case e.Far < 0:
		return vx.N(uint64(mT0 + e.Far*100000))
	}
	return vx.N(uint64(mT0 + e.Ms*1000))
}

// coq: CRun nw labels blocked tick ordered started.  The gating callbacks of the Executor variant are not part of the
// model case: the model's workers simply have not been scheduled before all Adds are done.
func (r xres) coq() string {
	var labels []string
	for _, e := range r.Kind.Els {
		labels = append(labels, fmt.Sprintf("LAdd %s None", e.instant()))
	}
	d := append([]int(nil), r.Delivered...)
	ordered := r.Kind.NW == 1
	if !ordered {
		sort.Ints(d)
	}
	f := func(x int) string { return fmt.Sprint(x) }
	return fmt.Sprintf("CRun %d %s [] %s %s %s", r.Kind.NW, vx.List(labels), vx.N(1000000000), vx.Bool(ordered), vx.ListOf(d, f))
}

func runPreloads(cf *vx.CasesFile, st *vx.Stats, r *vx.Rng, n, par int) {
	kinds := directedPreloads()
	for len(kinds) < n {
		kinds = append(kinds, genPreload(r.Fork()))
	}
	results := make([]xres, len(kinds))
	sem := make(chan struct{}, par)
	var wg sync.WaitGroup
	for i := range kinds {
		wg.Add(1)
		sem <- struct{}{}
		go func(i int) {
			defer wg.Done()
			defer func() { <-sem }()
			results[i] = runPreload(kinds[i])
		}(i)
	}
	wg.Wait()
	for i, k := range kinds {
		res := results[i]
		tg := "queue"
		if k.Executor {
			tg = "executor"
		}
		st.Count(fmt.Sprintf("preload:%s/workers=%d", tg, k.NW))
		for _, e := range k.Els {
			if e.Far != 0 {
				st.Count("preload-time:" + farByRank(e.Far).Name)
			}
			st.Count(fmt.Sprintf("preload-rep:%d", e.Rep%nReps))
		}
		if len(res.Why) > 0 {
			st.Fail(map[string]any{"sig": "", "kind": "preload", "violated": strings.Join(res.Why, "; "), "trial": res,
				"what": "all elements queued while nobody polls (far-future: never due in the run; far: farTable rank, ms: offset from the start, rep: representation of the instant), then polling starts"})
			continue
		}
		cf.Add(res.coq())
		st.Case("X"+k.String(), true)
		st.CaseIndex = append(st.CaseIndex, map[string]any{"kind": "preload", "trial": res})
	}
}
