// Probes: tiny directed reproductions of the C18 defects on the real code (D18a, D18b, max-size drop,
// Add/Shutdown race). `hx-c18 probe` prints one line per probe; used while building the check and kept
// so that a pinned tree can be inspected in a scratch worktree.
package main

import (
	"fmt"
	"sync"
	"sync/atomic"
	"time"

	"github.com/iotaledger/hive.go/runtime/timed"
)

func waitFor(ch <-chan struct{}, d time.Duration) bool {
	select {
	case <-ch:
		return true
	case <-time.After(d):
		return false
	}
}

func probes() {
	past := func() time.Time { return time.Now().Add(-time.Second) }
	future := func() time.Time { return time.Now().Add(time.Hour) }

	// D18a: re-scheduling an identifier while its previous callback is running.
	{
		te := timed.NewTaskExecutor[int](1)
		started, release, finished := make(chan struct{}), make(chan struct{}), make(chan struct{})
		var ran2 atomic.Int32
		te.ExecuteAt(1, func() { close(started); <-release; close(finished) }, past())
		ok := waitFor(started, 2*time.Second)
		te.ExecuteAt(1, func() { ran2.Add(1) }, future())
		close(release)
		waitFor(finished, 2*time.Second)
		time.Sleep(50 * time.Millisecond)
		c := te.Cancel(1)
		fmt.Printf("D18a started=%v size=%d Cancel(1) after re-schedule during running callback = %v (want true)\n", ok, te.Size(), c)
		te.Shutdown(timed.CancelPendingElements)
	}
	// D18b: Cancel(id) while the callback is already running.
	{
		te := timed.NewTaskExecutor[int](1)
		started, release := make(chan struct{}), make(chan struct{})
		te.ExecuteAt(1, func() { close(started); <-release }, past())
		waitFor(started, 2*time.Second)
		c := te.Cancel(1)
		fmt.Printf("D18b Cancel(1) while callback running = %v (want false: nothing was prevented)\n", c)
		close(release)
		te.Shutdown(timed.CancelPendingElements)
	}
	// max-size: which element is dropped, and does the id stay in the map?
	{
		te := timed.NewTaskExecutor[int](0, timed.WithMaxQueueSize(2))
		base := time.Now().Add(time.Hour)
		var ran [4]atomic.Int32
		for i, off := range []int{30, 10, 20} {
			i := i
			te.ExecuteAt(i, func() { ran[i].Add(1) }, base.Add(time.Duration(off)*time.Minute))
		}
		fmt.Printf("maxsize size=%d Cancel(0)=%v Cancel(1)=%v Cancel(2)=%v\n", te.Size(), te.Cancel(0), te.Cancel(1), te.Cancel(2))
	}
	// Add racing with Shutdown: an accepted element that nobody will ever deliver.
	{
		stuck := 0
		const trials = 3000
		for i := 0; i < trials; i++ {
			ex := timed.NewExecutor(1)
			var ran atomic.Int32
			res := make(chan bool, 1)
			go func() { res <- ex.ExecuteAt(func() { ran.Add(1) }, past()) != nil }()
			ex.Shutdown()
			acc := <-res
			time.Sleep(200 * time.Microsecond)
			if acc && ran.Load() == 0 && ex.Size() > 0 {
				stuck++
			}
		}
		fmt.Printf("add/shutdown race: %d/%d accepted elements left in the heap after Shutdown returned\n", stuck, trials)
	}
	fmt.Println(shutdownHangProbe(200))
	d, h := lateCancel(400)
	fmt.Printf("D18c late cancel (hook): cancelled-before-select element delivered in %d/400 trials (hung %d)\n", d, h)
}

// lateCancel (D18c): the poller is held between pop and select (yield hook); Cancel() runs to completion on the
// popped element whose time is already due; then the poller continues. Returns how often the cancelled element was
// delivered although Cancel had returned before the select was even entered.
func lateCancel(trials int) (int, int) {
	delivered, hung := 0, 0
	for i := 0; i < trials; i++ {
		q := timed.NewQueue[int]()
		popped, goOn := make(chan struct{}), make(chan struct{})
		var once sync.Once
		hookHandlers.Store(hookKey(q), func(point string, _ any) {
			if point == "poll:popped" {
				once.Do(func() { close(popped); <-goOn })
			}
		})
		res := make(chan int, 1)
		e := q.Add(7, time.Now().Add(-time.Millisecond))
		go func() { res <- q.Poll(false) }()
		if !waitFor(popped, 2*time.Second) {
			hung++
			hookHandlers.Delete(hookKey(q))
			continue
		}
		e.Cancel()
		close(goOn)
		select {
		case v := <-res:
			if v == 7 {
				delivered++
			}
		case <-time.After(2 * time.Second):
			hung++
		}
		hookHandlers.Delete(hookKey(q))
	}
	return delivered, hung
}

// shutdownHangProbe (D18d): two idle workers wait on the condition variable; ExecuteAt wakes one of them with Signal;
// Shutdown finds the heap non-empty (the woken worker has not popped yet) and does not Broadcast: the other worker
// sleeps forever and Executor.Shutdown never returns.
func shutdownHangProbe(trials int) string {
	hangs := 0
	for i := 0; i < trials; i++ {
		ex := timed.NewExecutor(2)
		time.Sleep(2 * time.Millisecond) // let both workers reach waitCond.Wait()
		ex.ExecuteAt(func() {}, time.Now().Add(10*time.Millisecond))
		if !guardFor(func() { ex.Shutdown() }, time.Second) {
			hangs++
		}
	}
	return fmt.Sprintf("D18d ExecuteAt; Shutdown() with 2 idle workers: Shutdown hung in %d/%d trials", hangs, trials)
}

func guardFor(f func(), d time.Duration) bool {
	done := make(chan struct{})
	go func() { f(); close(done) }()
	return waitFor(done, d)
}
