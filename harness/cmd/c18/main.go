// C18 harness: runtime/timed Queue / Executor / TaskExecutor.
//
//	script : deterministic scenarios on a real TaskExecutor (blocking callbacks, times either past or far future);
//	         after every client operation the implementation settles; observed per operation: return value,
//	         Size(), callbacks started so far, callbacks finished so far  -> CScript cases (lockstep with the model).
//	hist   : timing runs on a coarse grid; the recorded history (monotonic stamps, microseconds) is judged by a
//	         Go-side oracle (never_early, at_most_once, cancel_honoured, all_delivered) and emitted as CHist
//	         cases on which Coq re-evaluates the same predicates of the model.
//	hook   : the poller is held between pop and select, Cancel completes, the poller continues (D18c).
//	windows: see windows.go (every yield point x client operations completed while the worker is held).
package main

import (
	"flag"
	"fmt"
	"os"
	"sort"
	"strings"
	"sync"
	"time"

	"github.com/iotaledger/hive.go/runtime/timed"

	"verif/harness/vx"
)

// ---------------------------------------------------------------- scripts

type sop struct {
	Kind string `json:"k"`             // add cancel tcancel release shutdown
	Off  int    `json:"off,omitempty"` // add: <0 = that many seconds in the past, >0 = that many hours in the future
	Key  int    `json:"key"`           // add: -1 = plain Executor.ExecuteAt; tcancel: identifier
	B    bool   `json:"b,omitempty"`   // add: the callback blocks until released
	E    int    `json:"e,omitempty"`   // cancel / release: element id (= index among accepted adds)
	FC   bool   `json:"fc,omitempty"`
	FI   bool   `json:"fi,omitempty"`
	FP   bool   `json:"fp,omitempty"`  // shutdown: PanicOnModificationsAfterShutdown (not a parameter of the model: a refused modification = no state change; the outcome class nil / panic is judged Go-side)
	Far  int    `json:"far,omitempty"` // add: extreme instant (farTable rank; > 0 never due, < 0 long past) instead of Off
	Rep  int    `json:"rep,omitempty"` // add: representation of the instant (extreme.go: rep)
}

const t0 = 1000000

// abstract instant of an add (the scenario clock stands at t0): order-preserving
func (o sop) instant() uint64 {
	if o.Far != 0 {
		return uint64(t0 + o.Far*10000)
	}
	return uint64(t0 + o.Off)
}

func (o sop) coq() string {
	switch o.Kind {
	case "add":
		k := "None"
		if o.Key >= 0 {
			k = fmt.Sprintf("(Some %d)", o.Key)
		}
		return fmt.Sprintf("SAdd %s %s %s", vx.N(o.instant()), k, vx.Bool(o.B))
	case "cancel":
		return fmt.Sprintf("SCancel %d", o.E)
	case "tcancel":
		return fmt.Sprintf("STCancel %d", o.Key)
	case "release":
		return fmt.Sprintf("SRelease %d", o.E)
	}
	return fmt.Sprintf("SShutdown %s %s", vx.Bool(o.FC), vx.Bool(o.FI))
}

type obsT struct {
	Ret      int   // -1 none, 0 false, 1 true
	Size     int   // -1 = the operation hung
	Started  []int // sorted
	Finished []int
	Panic    bool // the operation panicked (recovered by the caller); not part of the Coq observation: see scriptOracle
}

// try runs f the way a caller that uses PanicOnModificationsAfterShutdown does: under recover
func try(f func()) (panicked bool) {
	defer func() {
		if r := recover(); r != nil {
			panicked = true
		}
	}()
	f()
	return false
}

func (o obsT) coq() string {
	r := "None"
	if o.Ret >= 0 {
		r = "(Some " + vx.Bool(o.Ret == 1) + ")"
	}
	f := func(x int) string { return fmt.Sprint(x) }
	return fmt.Sprintf("(%s, %d, %s, %s)", r, o.Size, vx.ListOf(o.Started, f), vx.ListOf(o.Finished, f))
}

func (o obsT) key() string { return o.coq() + fmt.Sprint(o.Panic) }

// guard runs f under a watchdog: a hang becomes an outcome.
func guard(f func()) bool {
	done := make(chan struct{})
	go func() { f(); close(done) }()
	return waitFor(done, 5*time.Second)
}

type scriptRun struct {
	mu       sync.Mutex
	started  []int
	finished []int
}

func (r *scriptRun) snap(te *timed.TaskExecutor[int]) (int, []int, []int) {
	sz := te.Size()
	r.mu.Lock()
	defer r.mu.Unlock()
	s := append([]int(nil), r.started...)
	f := append([]int(nil), r.finished...)
	sort.Ints(s)
	sort.Ints(f)
	return sz, s, f
}

// settle waits until (Size, #started, #finished) has not changed for win (and at least win has passed).
func (r *scriptRun) settle(te *timed.TaskExecutor[int], win time.Duration) {
	last := [3]int{-2, 0, 0}
	stableSince := time.Now()
	deadline := time.Now().Add(20 * win)
	for {
		sz := te.Size()
		r.mu.Lock()
		cur := [3]int{sz, len(r.started), len(r.finished)}
		r.mu.Unlock()
		if cur != last {
			last, stableSince = cur, time.Now()
		} else if time.Since(stableSince) >= win {
			return
		}
		if time.Now().After(deadline) {
			return
		}
		time.Sleep(time.Millisecond)
	}
}

func runScript(nw, maxsz int, ops []sop, win time.Duration) []obsT {
	te := timed.NewTaskExecutor[int](nw, timed.WithMaxQueueSize(maxsz))
	base := time.Now()
	r := &scriptRun{}
	var elems []*timed.ScheduledTask
	rel := map[int]chan struct{}{}
	released := map[int]bool{}
	var out []obsT
	for _, op := range ops {
		ret := -1
		hung := false
		panicked := false
		switch op.Kind {
		case "add":
			id := len(elems)
			var ch chan struct{}
			if op.B {
				ch = make(chan struct{})
			}
			cb := func() {
				r.mu.Lock()
				r.started = append(r.started, id)
				r.mu.Unlock()
				if ch != nil {
					<-ch
				}
				r.mu.Lock()
				r.finished = append(r.finished, id)
				r.mu.Unlock()
			}
			var at time.Time
			if op.Off < 0 {
				at = mkTime(base, time.Duration(op.Off)*time.Second, op.Far, op.Rep)
			} else {
				at = mkTime(base, time.Duration(op.Off)*time.Hour, op.Far, op.Rep)
			}
			var task *timed.ScheduledTask
			hung = !guard(func() {
				panicked = try(func() {
					if op.Key < 0 {
						task = te.Executor.ExecuteAt(cb, at)
					} else {
						task = te.ExecuteAt(op.Key, cb, at)
					}
				})
			})
			ret = 0
			if task != nil {
				ret = 1
				elems = append(elems, task)
				if ch != nil {
					rel[id] = ch
				}
			}
		case "cancel":
			if op.E < len(elems) {
				hung = !guard(func() { panicked = try(func() { elems[op.E].Cancel() }) })
			}
		case "tcancel":
			var c bool
			hung = !guard(func() { panicked = try(func() { c = te.Cancel(op.Key) }) })
			ret = 0
			if c {
				ret = 1
			}
		case "release":
			if ch, ok := rel[op.E]; ok {
				if !released[op.E] {
					released[op.E] = true
					close(ch)
				}
			}
		case "shutdown":
			var fl []timed.ShutdownFlag
			if op.FC {
				fl = append(fl, timed.CancelPendingElements)
			}
			if op.FI {
				fl = append(fl, timed.IgnorePendingTimeouts)
			}
			if op.FP {
				fl = append(fl, timed.PanicOnModificationsAfterShutdown)
			}
			fl = append(fl, timed.DontWaitForShutdown)
			hung = !guard(func() { panicked = try(func() { te.Shutdown(fl...) }) })
		}
		r.settle(te, win)
		sz, s, f := r.snap(te)
		if hung {
			sz = -1
		}
		out = append(out, obsT{Ret: ret, Size: sz, Started: s, Finished: f, Panic: panicked})
	}
	// clean-up: free every goroutine
	for id, ch := range rel {
		if !released[id] {
			close(ch)
		}
	}
	try(func() { te.Shutdown(timed.CancelPendingElements, timed.DontWaitForShutdown) }) // panics when the scenario shut down with the panic flag
	for _, e := range elems {
		e.Cancel()
	}
	return out
}

func obsKey(o []obsT) string {
	p := make([]string, len(o))
	for i, x := range o {
		p[i] = x.key()
	}
	return strings.Join(p, ";")
}

type script struct {
	NW    int    `json:"workers"`
	MaxSz int    `json:"maxsize"`
	Ops   []sop  `json:"ops"`
	Tag   string `json:"tag"`
}

func directedScripts() []script {
	add := func(key, off int, b bool) sop { return sop{Kind: "add", Key: key, Off: off, B: b} }
	tc := func(k int) sop { return sop{Kind: "tcancel", Key: k} }
	rl := func(e int) sop { return sop{Kind: "release", E: e} }
	sh := func(fc, fi bool) sop { return sop{Kind: "shutdown", FC: fc, FI: fi} }
	shp := func(fc, fi bool) sop { return sop{Kind: "shutdown", FC: fc, FI: fi, FP: true} }
	far := func(key, rank, rp int, b bool) sop { return sop{Kind: "add", Key: key, Far: rank, Rep: rp, B: b} }
	return []script{
		// D18a: re-schedule while the previous callback of the identifier runs; then Cancel; then a third task
		{1, 0, []sop{add(1, -1, true), add(1, 2, false), rl(0), tc(1), add(1, 3, false), add(1, 4, false), tc(1), tc(1), sh(false, true)}, "D18a"},
		// D18b: Cancel(id) while the callback is running
		{1, 0, []sop{add(1, -1, true), tc(1), rl(0), tc(1), sh(false, false)}, "D18b"},
		// replace a parked task by a due one; cancel a task in the heap behind a busy worker
		{1, 0, []sop{add(0, 5, false), add(0, -1, true), add(2, -2, false), add(2, -1, false), tc(2), rl(1), tc(0), sh(true, false)}, "replace"},
		// size bound: which element goes (array slot len-1 after the sift-up), and the identifier stays tracked
		{0, 2, []sop{add(0, 30, false), add(1, 10, false), add(2, 20, false), tc(0), tc(1), tc(2), sh(false, true)}, "maxsize"},
		{0, 3, []sop{add(-1, 5, false), add(-1, 3, false), add(-1, 4, false), add(-1, 1, false), add(-1, 2, false), {Kind: "cancel", E: 1}, add(-1, 6, false), sh(false, true)}, "maxsize2"},
		{1, 3, []sop{add(-1, 9, false), add(0, 5, false), add(1, 3, false), add(2, 4, false), add(0, 1, false), add(1, 8, false), tc(0), tc(1), tc(2), sh(false, true)}, "maxsize3"},
		// shutdown flags with pending elements; adds after the shutdown are refused
		{2, 0, []sop{add(0, 3, false), add(1, 2, false), add(2, 1, false), add(-1, -1, true), sh(false, false), add(0, -1, false), tc(0), tc(2), rl(3)}, "shutdown-none"},
		{2, 0, []sop{add(0, 3, false), add(1, 2, false), add(2, 1, false), sh(false, true), add(0, -1, false), tc(0)}, "shutdown-ignore"},
		{2, 0, []sop{add(0, 3, false), add(1, 2, false), add(2, 1, false), sh(true, false), add(0, -1, false), tc(0), tc(1)}, "shutdown-cancel"},
		{1, 0, []sop{add(0, -1, true), add(1, -1, false), add(2, 1, false), sh(true, true), rl(0), tc(1)}, "shutdown-both"},
		// PanicOnModificationsAfterShutdown: the refused add / the second Shutdown panic (recovered by the caller) and change
		// nothing; what was pending at the Shutdown (behind a busy worker / not due) is still delivered resp. cancellable
		{1, 0, []sop{add(0, -1, true), add(1, -1, false), add(2, -2, false), shp(false, false), add(2, -1, false), add(-1, -1, false), rl(0), tc(1), tc(2), sh(true, false)}, "shutdown-panic"},
		{2, 0, []sop{add(0, -1, true), add(1, -1, true), add(2, -1, false), add(0, 2, false), shp(false, true), add(0, -1, false), tc(2), rl(0), rl(1), tc(0), shp(false, false)}, "shutdown-panic-ignore"},
		{1, 0, []sop{add(0, -1, true), add(1, -1, false), add(2, 3, false), shp(true, false), add(1, -1, false), tc(1), rl(0), tc(2), sh(false, false)}, "shutdown-panic-cancel"},
		{0, 0, []sop{add(0, 1, false), add(1, 2, false), shp(false, false), add(2, 1, false), tc(0), tc(2), add(1, 1, false), tc(1)}, "shutdown-panic-noworker"},
		// direct Cancel() on the returned task bypasses the identifier map
		{1, 0, []sop{add(0, 2, false), {Kind: "cancel", E: 0}, tc(0), add(0, -1, false), tc(0)}, "direct-cancel"},
		// extreme instants: while the only worker is busy, elements beyond 2262 / before 1678 / at the zero time and due
		// elements in several representations are queued; the worker must take them in the order of the instants
		{1, 0, []sop{add(-1, -1, true), far(-1, 3, 0, false), far(0, 5, 2, false), add(1, -1, false), {Kind: "add", Key: 2, Off: -2, Rep: 1}, far(-1, -3, 3, true),
			{Kind: "add", Key: -1, Off: -3, B: true, Rep: 4}, far(-1, -2, 0, true), rl(0), rl(5), rl(7), rl(6), tc(0), sh(false, true)}, "extreme-times"},
		{2, 2, []sop{add(-1, -1, true), add(-1, -1, true), far(0, 6, 1, false), far(1, 2, 5, false), add(2, -1, false), rl(0), tc(0), tc(1), tc(2), rl(1), sh(false, true)}, "extreme-maxsize"},
		// a burst seen by the lockstep: two workers, both callbacks block, both must have started
		{2, 0, []sop{add(-1, -1, true), add(-1, -2, true), add(-1, -1, false), rl(1), rl(0), sh(false, false)}, "two-workers-blocking"},
	}
}

func genScript(r *vx.Rng, maxLen int) script {
	sc := script{NW: vx.Pick(r, []int{0, 1, 1, 1, 2, 2, 3}), MaxSz: vx.Pick(r, []int{0, 0, 0, 0, 1, 2, 3}), Tag: "random"}
	n := 4 + r.Intn(maxLen-3)
	accepted := 0
	var blockedIDs []int
	shut := false
	for i := 0; i < n; i++ {
		p := r.Intn(100)
		switch {
		case p < 50:
			o := sop{Kind: "add", Key: r.Intn(4) - 1}
			if r.Chance(1, 2) {
				o.Off = -(1 + r.Intn(3))
				o.B = r.Chance(1, 2)
			} else {
				o.Off = 1 + r.Intn(7)
			}
			if r.Chance(1, 7) { // extreme instant instead: never due / long past
				if r.Chance(3, 5) {
					o.Far, o.B = vx.Pick(r, farFuture), false
				} else {
					o.Far = vx.Pick(r, farPast)
					o.Off, o.B = -1, r.Chance(1, 2)
				}
			}
			if r.Chance(1, 2) {
				o.Rep = r.Intn(nReps)
			}
			if !shut {
				if o.B {
					blockedIDs = append(blockedIDs, accepted)
				}
				accepted++
			}
			sc.Ops = append(sc.Ops, o)
		case p < 70:
			sc.Ops = append(sc.Ops, sop{Kind: "tcancel", Key: r.Intn(3)})
		case p < 77:
			sc.Ops = append(sc.Ops, sop{Kind: "cancel", E: r.Intn(accepted + 1)})
		case p < 93:
			if len(blockedIDs) > 0 && r.Chance(4, 5) {
				j := r.Intn(len(blockedIDs))
				sc.Ops = append(sc.Ops, sop{Kind: "release", E: blockedIDs[j]})
				blockedIDs = append(blockedIDs[:j], blockedIDs[j+1:]...)
			} else {
				sc.Ops = append(sc.Ops, sop{Kind: "release", E: r.Intn(accepted + 2)})
			}
		default:
			sc.Ops = append(sc.Ops, sop{Kind: "shutdown", FC: r.Chance(1, 3), FI: r.Chance(1, 2), FP: r.Chance(2, 5)})
			shut = true
		}
	}
	if r.Chance(2, 3) {
		for _, b := range blockedIDs {
			sc.Ops = append(sc.Ops, sop{Kind: "release", E: b})
		}
		sc.Ops = append(sc.Ops, sop{Kind: "shutdown", FI: true}) // flush: shows which elements are still there
	}
	return sc
}

// scriptOracle: model-independent checks on the observations (identifier-map logic only where it is unambiguous):
// a callback starts at most once; Cancel(id) = true is never followed by the start of the task it removed (the
// task tracked for id is the last accepted add of id); sizes are within the bound.
func scriptOracle(sc script, o []obsT) string {
	tracked := map[int]int{} // identifier -> element id of its last accepted add
	dead := map[int]bool{}
	id := 0
	shut, fp := false, false // a Shutdown took effect / it had PanicOnModificationsAfterShutdown (later Shutdowns change nothing)
	for i, op := range sc.Ops {
		ob := o[i]
		if ob.Size < 0 {
			return fmt.Sprintf("operation %d hung", i)
		}
		// outcome class: exactly the modifications (Add / ExecuteAt, a further Shutdown) after a Shutdown with the panic flag panic
		wantPanic := shut && fp && (op.Kind == "add" || op.Kind == "shutdown")
		if ob.Panic != wantPanic {
			return fmt.Sprintf("operation %d (%s): panicked=%v, expected %v (shut down=%v with PanicOnModificationsAfterShutdown=%v)", i, op.Kind, ob.Panic, wantPanic, shut, fp)
		}
		if op.Kind == "add" && shut && ob.Ret == 1 {
			return fmt.Sprintf("operation %d: add accepted after Shutdown", i)
		}
		if op.Kind == "shutdown" && !shut {
			shut, fp = true, op.FP
		}
		if sc.MaxSz > 0 && ob.Size > sc.MaxSz {
			return fmt.Sprintf("size %d exceeds the bound after op %d", ob.Size, i)
		}
		seen := map[int]bool{}
		for _, s := range ob.Started {
			if seen[s] {
				return fmt.Sprintf("callback %d started twice", s)
			}
			seen[s] = true
		}
		prevStarted := map[int]bool{}
		if i > 0 {
			for _, s := range o[i-1].Started {
				prevStarted[s] = true
			}
		}
		switch op.Kind {
		case "add":
			if ob.Ret == 1 {
				if op.Key >= 0 {
					if old, ok := tracked[op.Key]; ok && !prevStarted[old] {
						dead[old] = true // replaced before it started
					}
					tracked[op.Key] = id
				}
				id++
			}
		case "tcancel":
			if e, ok := tracked[op.Key]; ok && ob.Ret == 1 && !prevStarted[e] {
				dead[e] = true
			}
			if ob.Ret == 1 {
				delete(tracked, op.Key)
			}
		}
		for _, s := range ob.Started {
			if dead[s] && !prevStarted[s] {
				return fmt.Sprintf("task %d started after it was cancelled/replaced (op %d)", s, i)
			}
		}
	}
	return ""
}

func runScriptStable(sc script, win time.Duration) ([]obsT, bool) {
	o1 := runScript(sc.NW, sc.MaxSz, sc.Ops, win)
	o2 := runScript(sc.NW, sc.MaxSz, sc.Ops, win)
	if obsKey(o1) != obsKey(o2) {
		// two runs of a deterministic scenario disagree: timing noise (or a real race). Decide with a slow run.
		return runScript(sc.NW, sc.MaxSz, sc.Ops, 6*win), true
	}
	return o1, false
}

func emitScript(cf *vx.CasesFile, st *vx.Stats, sc script, o1 []obsT, retried bool) {
	if retried {
		st.Count("script:settle-retry")
	}
	cf.Add(fmt.Sprintf("CScript %d %d %s %s", sc.NW, sc.MaxSz, vx.ListOf(sc.Ops, sop.coq), vx.ListOf(o1, obsT.coq)))
	parts := make([]string, len(sc.Ops))
	nontrivial := false
	for i, op := range sc.Ops {
		parts[i] = op.coq()
		st.Count("script-op:" + op.Kind)
		if op.Kind == "tcancel" && o1[i].Ret == 1 {
			nontrivial = true
		}
	}
	st.Count(fmt.Sprintf("script:workers=%d", sc.NW))
	st.Count(fmt.Sprintf("script:maxsize=%d", sc.MaxSz))
	st.Case(fmt.Sprintf("S%d/%d:%s", sc.NW, sc.MaxSz, strings.Join(parts, ";")), nontrivial || len(o1[len(o1)-1].Started) >= 2)
	st.CaseIndex = append(st.CaseIndex, map[string]any{"kind": "script", "script": sc})
	st.Sample(map[string]any{"script": parts, "observed": obsKey(o1)}, 2)
	if why := scriptOracle(sc, o1); why != "" {
		st.Fail(map[string]any{"sig": "", "kind": "script", "script": sc, "why": why})
	}
}

// ---------------------------------------------------------------- timing histories

type hev struct {
	Kind string `json:"k"` // add cancel shutdown deliver discard
	E    int    `json:"e"`
	Due  int64  `json:"due,omitempty"`
	At   int64  `json:"at"`
	FC   bool   `json:"fc,omitempty"`
	FI   bool   `json:"fi,omitempty"`
}

func (h hev) coq() string {
	switch h.Kind {
	case "add":
		return fmt.Sprintf("EAdd %d %s None %s", h.E, vx.N(uint64(h.Due)), vx.N(uint64(h.At)))
	case "cancel":
		return fmt.Sprintf("ECancel %d false %s", h.E, vx.N(uint64(h.At)))
	case "shutdown":
		return fmt.Sprintf("EShutdown %s %s %s", vx.Bool(h.FC), vx.Bool(h.FI), vx.N(uint64(h.At)))
	case "deliver":
		return fmt.Sprintf("EDeliver %d %s", h.E, vx.N(uint64(h.At)))
	}
	return fmt.Sprintf("EDiscard %d", h.E)
}

type plan struct {
	Executor bool     `json:"executor"`       // else Queue with pollers
	Task     bool     `json:"task,omitempty"` // Executor only: a TaskExecutor, every add under an identifier of its own (ExecuteAt / ExecuteAfter)
	Tag      string   `json:"tag,omitempty"`
	NW       int      `json:"workers"`
	Slots    int      `json:"slots"`
	Ops      []planOp `json:"ops"`
	GridMs   int      `json:"grid_ms"`
}

type planOp struct {
	Slot    int    `json:"slot"`
	Kind    string `json:"k"` // add cancel shutdown
	DueSlot int    `json:"due_slot,omitempty"`
	E       int    `json:"e,omitempty"`
	FC      bool   `json:"fc,omitempty"`
	FI      bool   `json:"fi,omitempty"`
	FP      bool   `json:"fp,omitempty"`  // shutdown: PanicOnModificationsAfterShutdown; a shutdown op after the first one is a further Shutdown call (changes nothing)
	Far     int    `json:"far,omitempty"` // add: extreme instant (farTable rank) instead of the slot
	Rep     int    `json:"rep,omitempty"` // add: representation of the instant
}

// abstract stamp of an extreme instant (order-preserving: before / after every stamp of a run)
func farStamp(rank int) int64 {
	if rank > 0 {
		return stampBase + 1_000_000_000_000_000 + int64(rank)
	}
	return int64(1000 * (10 + rank))
}

const stampBase = 10_000_000 // microseconds; keeps "past" due times positive

func genPlan(r *vx.Rng, gridMs int) plan {
	p := plan{Executor: r.Bool(), NW: 1 + r.Intn(3), Slots: 7 + r.Intn(5), GridMs: gridMs}
	p.Task = p.Executor && r.Bool()
	type el struct{ dueSlot int }
	var els []el
	shutAt := -1
	if r.Chance(3, 5) {
		shutAt = 2 + r.Intn(p.Slots-2)
	}
	// never-due elements: fewer than pollers (each can hold one poller for the whole run); cancelled before the Shutdown
	nFar := 0
	if p.NW >= 2 && r.Chance(1, 2) {
		nFar = 1 + r.Intn(p.NW-1)
	}
	for s := 0; s < p.Slots; s++ {
		if nFar > 0 && (shutAt < 0 || s < shutAt) && r.Chance(1, 3) {
			nFar--
			p.Ops = append(p.Ops, planOp{Slot: s, Kind: "add", Far: vx.Pick(r, farFuture), Rep: r.Intn(nReps)})
			els = append(els, el{s})
		}
		if s == shutAt {
			p.Ops = append(p.Ops, planOp{Slot: s, Kind: "shutdown", FC: r.Chance(1, 4), FI: r.Chance(1, 3), FP: r.Chance(2, 5)})
		}
		if shutAt >= 0 && s > shutAt && r.Chance(1, 6) { // a further Shutdown with flags of its own: changes nothing
			p.Ops = append(p.Ops, planOp{Slot: s, Kind: "shutdown", FC: r.Bool(), FI: r.Bool(), FP: r.Bool()})
		}
		k := r.Intn(3)
		for j := 0; j < k; j++ {
			if len(els) > 0 && r.Chance(1, 3) {
				p.Ops = append(p.Ops, planOp{Slot: s, Kind: "cancel", E: r.Intn(len(els))})
			} else {
				d := s + r.Intn(6) - 1 // -1: already due
				o := planOp{Slot: s, Kind: "add", DueSlot: d}
				if r.Chance(1, 2) {
					o.Rep = r.Intn(nReps)
				}
				if r.Chance(1, 10) {
					o.Far = vx.Pick(r, farPast) // long past: due at once
				}
				p.Ops = append(p.Ops, o)
				if shutAt < 0 || s < shutAt {
					els = append(els, el{d})
				}
			}
		}
	}
	return p
}

// directedPlans: every shutdown flag combination with PanicOnModificationsAfterShutdown on every target (Queue with pollers /
// Executor / TaskExecutor), elements pending at the Shutdown, refused modifications (Add / ExecuteAt / ExecuteAfter / a
// further Shutdown with other flags) and Cancels after it while elements are still pending; plus the TaskExecutor
// without the panic flag
func directedPlans(gridMs int) (ps []plan) {
	mk := func(executor, task bool, nw int, fc, fi, fp bool) plan {
		a := func(s, d int) planOp { return planOp{Slot: s, Kind: "add", DueSlot: d} }
		return plan{Executor: executor, Task: task, NW: nw, Slots: 7, GridMs: gridMs, Tag: "directed", Ops: []planOp{
			a(0, 2), a(0, 4), a(0, 5), a(1, 3), a(1, 0),
			{Slot: 2, Kind: "shutdown", FC: fc, FI: fi, FP: fp}, a(2, 3), a(2, 1),
			a(3, 2), {Slot: 3, Kind: "cancel", E: 2}, {Slot: 3, Kind: "shutdown", FC: true, FI: !fi, FP: !fp},
			{Slot: 4, Kind: "cancel", E: 0}, a(4, 6),
		}}
	}
	for _, t := range [][2]bool{{true, true}, {true, false}, {false, false}} {
		for i, f := range [][3]bool{{false, false, true}, {false, true, true}, {true, false, true}} {
			ps = append(ps, mk(t[0], t[1], 1+i%2, f[0], f[1], f[2]))
		}
	}
	ps = append(ps, mk(true, true, 2, false, false, false), mk(true, true, 1, false, true, false))
	return ps
}

// runPlan executes the plan in real time and returns the recorded history (oldest first).
func runPlan(p plan) (hist []hev, notes []string) {
	grid := time.Duration(p.GridMs) * time.Millisecond
	start := time.Now()
	stamp := func() int64 { return stampBase + time.Since(start).Microseconds() }
	var mu sync.Mutex
	var delivered []hev
	record := func(e int) {
		a := stamp()
		mu.Lock()
		delivered = append(delivered, hev{Kind: "deliver", E: e, At: a})
		mu.Unlock()
	}
	var q *timed.Queue[int]
	var ex *timed.Executor
	var pollers sync.WaitGroup
	var te *timed.TaskExecutor[int]
	if p.Task {
		te = timed.NewTaskExecutor[int](p.NW)
		ex = te.Executor
	} else if p.Executor {
		ex = timed.NewExecutor(p.NW)
	} else {
		q = timed.NewQueue[int]()
		for i := 0; i < p.NW; i++ {
			pollers.Add(1)
			go func() {
				defer pollers.Done()
				for {
					v := q.Poll(true)
					if v == 0 { // empty value: the queue was shut down (values are id+1)
						return
					}
					record(v - 1)
				}
			}()
		}
	}
	var qelems []*timed.QueueElement[int]
	var xelems []*timed.ScheduledTask
	nacc := 0
	var maxDue int64
	isFC, isFP, shutdown := false, false, false
	shutRet := make(chan struct{})
	var farIDs []int
	// every client operation runs under recover and a watchdog; its outcome class (returned / panicked / hung) is an
	// observation: exactly the modifications after a Shutdown with PanicOnModificationsAfterShutdown panic
	hungOp := false
	client := func(what string, wantPanic bool, f func()) {
		if hungOp {
			return
		}
		var panicked bool
		if !guard(func() { panicked = try(f) }) {
			hungOp = true
			notes = append(notes, what+" hung (no further client operation is executed)")
			return
		}
		if panicked != wantPanic {
			notes = append(notes, fmt.Sprintf("%s: panicked=%v, expected %v (shut down=%v with PanicOnModificationsAfterShutdown=%v)", what, panicked, wantPanic, shutdown, isFP))
		}
	}
	cancelElem := func(e int) {
		if hungOp {
			return
		}
		client("Cancel", false, func() {
			if p.Task {
				te.Cancel(e)
			} else if p.Executor {
				xelems[e].Cancel()
			} else {
				qelems[e].Cancel()
			}
		})
		hist = append(hist, hev{Kind: "cancel", E: e, At: stamp()})
	}
	flagsOf := func(fc, fi, fp bool) (fl []timed.ShutdownFlag) {
		if fc {
			fl = append(fl, timed.CancelPendingElements)
		}
		if fi {
			fl = append(fl, timed.IgnorePendingTimeouts)
		}
		if fp {
			fl = append(fl, timed.PanicOnModificationsAfterShutdown)
		}
		return fl
	}
	doShutdown := func(fc, fi, fp bool) {
		for _, e := range farIDs { // the never-due elements would keep their pollers for ever
			cancelElem(e)
		}
		fl := flagsOf(fc, fi, fp)
		hist = append(hist, hev{Kind: "shutdown", FC: fc, FI: fi, At: stamp()})
		// the shutdown itself is synchronous (no Add runs concurrently with it); waiting for the workers is not
		client("Shutdown", false, func() {
			if p.Executor {
				ex.Shutdown(append(fl, timed.DontWaitForShutdown)...)
			} else {
				q.Shutdown(fl...)
			}
		})
		shutdown, isFC, isFP = true, fc, fp
		if p.Executor && fp {
			return // a further Shutdown would panic: the end of the run polls the deliveries instead
		}
		go func() {
			if p.Executor {
				ex.Shutdown() // already shut down: only waits for the workers
			} else {
				pollers.Wait()
			}
			close(shutRet)
		}()
	}
	for _, op := range p.Ops {
		if d := time.Until(start.Add(time.Duration(op.Slot) * grid)); d > 0 {
			time.Sleep(d)
		}
		switch op.Kind {
		case "add":
			due := time.Duration(op.DueSlot)*grid + grid/2
			id := nacc
			at := stamp()
			var ok bool
			when := mkTime(start, due, op.Far, op.Rep)
			dueStamp := stampBase + due.Microseconds()
			if op.Far != 0 {
				dueStamp = farStamp(op.Far)
			}
			client("Add", shutdown && isFP, func() {
				if p.Executor {
					var t *timed.ScheduledTask
					switch {
					case p.Task && op.Far == 0 && op.Rep == 0:
						t = te.ExecuteAfter(id, func() { record(id) }, time.Until(when))
					case p.Task:
						t = te.ExecuteAt(id, func() { record(id) }, when)
					default:
						t = ex.ExecuteAt(func() { record(id) }, when)
					}
					if ok = t != nil; ok {
						xelems = append(xelems, t)
					}
				} else {
					t := q.Add(id+1, when)
					if ok = t != nil; ok {
						qelems = append(qelems, t)
					}
				}
			})
			if ok && shutdown {
				notes = append(notes, "Add accepted after Shutdown")
			}
			if ok {
				hist = append(hist, hev{Kind: "add", E: id, Due: dueStamp, At: at})
				nacc++
				if op.Far > 0 {
					farIDs = append(farIDs, id)
				} else if op.Far < 0 {
					if at > maxDue { // long past: due at the moment of the Add
						maxDue = at
					}
				} else if dueStamp > maxDue {
					maxDue = dueStamp
				}
			} else if !shutdown {
				notes = append(notes, "Add refused before any Shutdown")
			}
		case "cancel":
			if op.E < nacc {
				cancelElem(op.E)
			}
		case "shutdown":
			if !shutdown {
				doShutdown(op.FC, op.FI, op.FP)
			} else {
				// a further Shutdown (flags of its own) changes nothing - in particular it does not adopt CancelPendingElements /
				// IgnorePendingTimeouts - and panics iff the first one had the panic flag
				fl := flagsOf(op.FC, op.FI, op.FP)
				client("second Shutdown", isFP, func() {
					if p.Executor {
						ex.Shutdown(append(fl, timed.DontWaitForShutdown)...)
					} else {
						q.Shutdown(fl...)
					}
				})
			}
		}
	}
	if !shutdown {
		doShutdown(false, false, false)
	}
	cancelled := map[int]bool{}
	for _, h := range hist {
		if h.Kind == "cancel" {
			cancelled[h.E] = true
		}
	}
	// wait: Shutdown must return once every pending element had its time (3 s of slack), then one more grid step
	// for late duplicates
	limit := time.Duration(maxDue-stampBase)*time.Microsecond + 3*time.Second
	if p.Executor && isFP {
		// no Shutdown call to wait for (it would panic): wait until every accepted, not cancelled element was delivered
		// (CancelPendingElements: the workers are gone at once, two grid steps for deliveries in flight); judged below
		for time.Now().Before(start.Add(limit)) {
			if isFC {
				time.Sleep(2 * grid)
				break
			}
			got := map[int]bool{}
			mu.Lock()
			for _, h := range delivered {
				got[h.E] = true
			}
			mu.Unlock()
			all := true
			for e := 0; e < nacc; e++ {
				all = all && (got[e] || cancelled[e])
			}
			if all {
				break
			}
			time.Sleep(time.Millisecond)
		}
	} else if d := time.Until(start.Add(limit)); d > 0 {
		if !waitFor(shutRet, d) {
			notes = append(notes, "Shutdown did not return within 3 s after the last scheduled time")
		}
	}
	time.Sleep(grid)
	mu.Lock()
	hist = append(hist, delivered...)
	mu.Unlock()
	if isFC {
		got := map[int]bool{}
		for _, h := range hist {
			if h.Kind == "deliver" {
				got[h.E] = true
			}
		}
		for e := 0; e < nacc; e++ {
			if !got[e] && !cancelled[e] {
				hist = append(hist, hev{Kind: "discard", E: e, At: stamp()}) // CancelPendingElements: assumed discarded
			}
		}
	}
	sort.SliceStable(hist, func(i, j int) bool { return hist[i].At < hist[j].At })
	// release everything
	for _, e := range qelems {
		e.Cancel()
	}
	for _, e := range xelems {
		e.Cancel()
	}
	return hist, notes
}

// judgeHist: Go-side oracle, written against the property statement (not the model).
func judgeHist(h []hev, bandUs int64) [4]bool {
	due := map[int]int64{}
	cancelAt := map[int]int64{}
	final := map[int]bool{}
	ignoreAt := int64(-1)
	count := map[int]int{}
	for _, e := range h {
		switch e.Kind {
		case "add":
			due[e.E] = e.Due
		case "cancel":
			if _, ok := cancelAt[e.E]; !ok {
				cancelAt[e.E] = e.At
			}
			final[e.E] = true
		case "shutdown":
			if e.FI && ignoreAt < 0 {
				ignoreAt = e.At
			}
		case "discard":
			final[e.E] = true
		}
	}
	v := [4]bool{true, true, true, true}
	for _, e := range h {
		if e.Kind != "deliver" {
			continue
		}
		count[e.E]++
		final[e.E] = true
		d, ok := due[e.E]
		if !ok || (e.At < d && !(ignoreAt >= 0 && e.At >= ignoreAt)) {
			v[0] = false
		}
		if count[e.E] > 1 {
			v[1] = false
		}
		if c, ok := cancelAt[e.E]; ok && e.At > c+bandUs {
			v[2] = false
		}
	}
	for e := range due {
		if !final[e] {
			v[3] = false
		}
	}
	return v
}

func emitHist(cf *vx.CasesFile, st *vx.Stats, p plan, hist []hev, notes []string) {
	band := int64(p.GridMs) * 1000
	v := judgeHist(hist, band)
	rev := make([]string, len(hist))
	nd, nc := 0, 0
	for i, h := range hist {
		rev[len(hist)-1-i] = h.coq()
		st.Count("hist-ev:" + h.Kind)
		if h.Kind == "deliver" {
			nd++
		}
		if h.Kind == "cancel" {
			nc++
		}
	}
	vb := []string{vx.Bool(v[0]), vx.Bool(v[1]), vx.Bool(v[2]), vx.Bool(v[3])}
	cf.Add(fmt.Sprintf("CHist %s %s %s", vx.N(uint64(band)), vx.List(rev), vx.List(vb)))
	target := "queue"
	if p.Executor {
		target = "executor"
	}
	st.Count(fmt.Sprintf("hist:%s/workers=%d", target, p.NW))
	st.Case(fmt.Sprintf("H%v", p), nd >= 2)
	st.CaseIndex = append(st.CaseIndex, map[string]any{"kind": "hist", "plan": p})
	st.Sample(map[string]any{"plan": p, "deliveries": nd, "cancels": nc, "verdict": v}, 4)
	names := []string{"never_early", "at_most_once", "cancel_honoured", "all_delivered"}
	for i, ok := range v {
		if !ok {
			st.Fail(map[string]any{"sig": "", "kind": "hist", "violated": names[i], "plan": p, "history": hist})
		}
	}
	for _, n := range notes {
		st.Fail(map[string]any{"sig": "", "kind": "hist", "violated": n, "plan": p, "history": hist})
	}
}

// ---------------------------------------------------------------- main

func main() {
	if len(os.Args) > 1 && os.Args[1] == "probe" {
		probes()
		return
	}
	if len(os.Args) < 2 || os.Args[1] != "run" {
		vx.Die("usage: hx-c18 run --scripts N --len L --hists H --grid MS --win MS --hook T --seed S --out cases.v --stats stats.json | hx-c18 probe")
	}
	fs := flag.NewFlagSet("run", flag.ExitOnError)
	nScripts := fs.Int("scripts", 200, "")
	maxLen := fs.Int("len", 12, "")
	nHists := fs.Int("hists", 96, "")
	gridMs := fs.Int("grid", 50, "")
	winMs := fs.Int("win", 30, "")
	hookTrials := fs.Int("hook", 600, "")
	winReps := fs.Int("windows", 6, "")
	burstReps := fs.Int("burst", 3, "")
	nPreload := fs.Int("preload", 60, "")
	raceReps := fs.Int("race", 2, "")
	raceOps := fs.Int("raceops", 400, "")
	racePar := fs.Int("racepar", 3, "")
	only := fs.String("only", "", "run only this family (race)")
	par := fs.Int("par", 32, "")
	seed := fs.Uint64("seed", 1, "")
	out := fs.String("out", "cases.v", "")
	stats := fs.String("stats", "stats.json", "")
	_ = fs.Parse(os.Args[2:])
	r := vx.NewRng(*seed)
	st := vx.NewStats("scripts: deterministic TaskExecutor scenarios (0-3 workers, size bound 0-3, identifiers 0-2, past/future times, blocking callbacks, direct and by-identifier cancels, shutdown flags), distinct = distinct (config, op list), non-trivial = some Cancel(id) returned true or >= 2 callbacks started | hists: timing runs on a grid (Queue with pollers / Executor, 1-3 workers, adds due -1..4 slots ahead, cancels, shutdown flags), non-trivial = >= 2 deliveries")
	cf := &vx.CasesFile{
		Header: "From Coq Require Import NArith List.\nFrom Verif.C18_Timed Require Import Model Corr.\nImport ListNotations.\n",
		Type:   "case",
		Footer: "Definition M := Eval vm_compute in mismatches cases.\nPrint M.\n",
	}
	win := time.Duration(*winMs) * time.Millisecond
	if *only == "race" { // the race-detector build runs this family alone
		*nScripts, *nHists, *hookTrials, *winReps, *burstReps, *nPreload = 0, 0, 0, 0, 0, 0
	}

	// scripts: generated first (sequential rng), run in parallel, emitted in order
	scripts := directedScripts()
	if *nScripts == 0 {
		scripts = nil
	}
	for len(scripts) < *nScripts {
		scripts = append(scripts, genScript(r.Fork(), *maxLen))
	}
	sem := make(chan struct{}, *par)
	var wg sync.WaitGroup
	tmpO := make([][]obsT, len(scripts))
	tmpR := make([]bool, len(scripts))
	for i := range scripts {
		wg.Add(1)
		sem <- struct{}{}
		go func(i int) {
			defer wg.Done()
			defer func() { <-sem }()
			tmpO[i], tmpR[i] = runScriptStable(scripts[i], win)
		}(i)
	}
	wg.Wait()
	for i := range scripts {
		emitScript(cf, st, scripts[i], tmpO[i], tmpR[i])
	}

	// timing histories
	plans := directedPlans(*gridMs)
	if len(plans) > *nHists {
		plans = plans[:*nHists]
	}
	for len(plans) < *nHists {
		plans = append(plans, genPlan(r.Fork(), *gridMs))
	}
	type hres struct {
		h []hev
		n []string
	}
	tmpH := make([]hres, len(plans))
	for i := range plans {
		wg.Add(1)
		sem <- struct{}{}
		go func(i int) {
			defer wg.Done()
			defer func() { <-sem }()
			h, n := runPlan(plans[i])
			tmpH[i] = hres{h, n}
		}(i)
		time.Sleep(3 * time.Millisecond) // de-phase the grids
	}
	wg.Wait()
	for i := range plans {
		emitHist(cf, st, plans[i], tmpH[i].h, tmpH[i].n)
	}

	// known finding taskexecutor-stale-identifier: the size bound drops a task but its identifier stays in the map
	{
		te := timed.NewTaskExecutor[int](0, timed.WithMaxQueueSize(1))
		base := time.Now()
		te.ExecuteAt(0, func() {}, base.Add(time.Hour))
		te.ExecuteAt(1, func() {}, base.Add(2*time.Hour)) // dropped at once (last array slot)
		if te.Size() == 1 && te.Cancel(1) && te.Size() == 1 {
			st.Known = append(st.Known, "taskexecutor-stale-identifier")
		}
		te.Shutdown(timed.CancelPendingElements, timed.DontWaitForShutdown)
	}

	// D18c with the yield hook: a Cancel that returned before the select is entered must win
	if *hookTrials > 0 {
		d, hung := lateCancel(*hookTrials)
		st.Count("hook:late-cancel-trials")
		st.Extra["late_cancel"] = map[string]int{"trials": *hookTrials, "delivered": d, "hung": hung}
		if d > 0 || hung > 0 {
			st.Fail(map[string]any{"sig": "", "kind": "hook", "violated": "cancel_honoured", "what": fmt.Sprintf("Add(due); poller pops and is held before the select; Cancel() returns; poller continues: delivered in %d, hung in %d of %d trials", d, hung, *hookTrials)})
		}
	}
	// windows: worker held at every yield point x client operations completed meanwhile
	if *winReps > 0 {
		runWindows(cf, st, *winReps, *par)
	}
	// bursts: several parked pollers, back-to-back Adds, the woken consumer does not come back
	if *burstReps > 0 {
		runBursts(cf, st, *burstReps, *par)
	}
	// preload: extreme instants / representations queued together with ordinary elements before polling starts
	if *nPreload > 0 {
		runPreloads(cf, st, r.Fork(), *nPreload, *par)
	}
	// race: free-running ExecuteAt / ExecuteAfter / Cancel on the same identifiers from several goroutines
	if *raceReps > 0 {
		runRaces(st, r.Fork(), *raceReps, *raceOps, *racePar)
	}
	if err := cf.Write(*out); err != nil {
		vx.Die("%v", err)
	}
	if err := st.Write(*stats); err != nil {
		vx.Die("%v", err)
	}
}
