// windows: the poller / worker is held at one of the yield points of runtime/timed (every point where Poll or the
// TaskExecutor wrapper has made a choice but not yet acted on it), client operations run to completion meanwhile, the
// poller is released, and the outcome is judged with the property's own predicate:
//
//	at most once, never early (unless a Shutdown with IgnorePendingTimeouts was issued), a Cancel() / replacement that
//	completed while Poll had not yet decided to return the element => the element is not delivered, Cancel(id) = true
//	<=> a pending task existed and it does not run, everything else is delivered (unless CancelPendingElements).
//
// point x action is enumerated, not sampled (windowKinds); every kind is repeated because the Go select picks at random
// among the ready channels. The schedule of a trial is fully controlled, so it is also emitted as the exact label
// sequence of the Coq model (CWin): the model must end with the same set of started callbacks / return values.
package main

import (
	"fmt"
	"sort"
	"strings"
	"sync"
	"time"

	"github.com/iotaledger/hive.go/runtime/timed"

	"verif/harness/vx"
)

type wkind struct {
	Target  string   `json:"target"`             // queue | exec | task
	Point   string   `json:"point"`              // poll:popped poll:timer poll:ctx poll:ignore poll:timer2 task:polled task:checked
	Due     string   `json:"due"`                // past | soon
	SFC     bool     `json:"reach_fc,omitempty"` // flags of the Shutdown that leads to the ctx / ignore / timer2 points
	SFI     bool     `json:"reach_fi,omitempty"`
	Actions []string `json:"actions"` // cancel cancel2 tcancel tcancel2 replace sd-none sd-ignore sd-cancel
}

func (k wkind) String() string {
	return fmt.Sprintf("%s/%s/%s/fc=%v,fi=%v/%s", k.Target, k.Point, k.Due, k.SFC, k.SFI, strings.Join(k.Actions, "+"))
}

// windowKinds enumerates target x point x (how the point is reached) x action sequence.
func windowKinds() []wkind {
	var ks []wkind
	type reach struct {
		point, due string
		fc, fi     bool
	}
	pollReach := []reach{
		{"poll:popped", "past", false, false}, {"poll:popped", "soon", false, false},
		{"poll:timer", "past", false, false}, {"poll:timer", "soon", false, false},
		{"poll:ctx", "soon", false, false}, {"poll:ctx", "soon", false, true}, {"poll:ctx", "soon", true, false}, {"poll:ctx", "soon", true, true},
		{"poll:ignore", "soon", false, true},
		{"poll:timer2", "soon", false, false},
	}
	taskReach := []reach{
		{"task:polled", "past", false, false}, {"task:polled", "soon", false, false},
		{"task:checked", "past", false, false}, {"task:checked", "soon", false, false},
	}
	plainActs := [][]string{{}, {"cancel"}, {"cancel2"}, {"cancel", "cancel"}, {"sd-none"}, {"sd-ignore"}, {"sd-cancel"},
		{"cancel", "sd-none"}, {"cancel", "sd-ignore"}, {"sd-ignore", "cancel"}, {"sd-none", "cancel"}, {"cancel", "sd-cancel"}}
	taskActs := [][]string{{}, {"tcancel"}, {"tcancel2"}, {"replace"}, {"replace", "tcancel"}, {"tcancel", "tcancel"}, {"tcancel", "replace"},
		{"replace", "replace"}, {"sd-none"}, {"sd-ignore"}, {"sd-cancel"}, {"tcancel", "sd-ignore"}, {"replace", "sd-ignore"}, {"sd-ignore", "tcancel"},
		{"sd-none", "replace"}, {"tcancel", "sd-none"}}
	usesShutdown := func(a []string) bool {
		for _, x := range a {
			if strings.HasPrefix(x, "sd-") {
				return true
			}
		}
		return false
	}
	for _, tg := range []string{"queue", "exec", "task"} {
		rs := pollReach
		acts := plainActs
		if tg == "task" {
			rs = append(append([]reach{}, pollReach...), taskReach...)
			acts = taskActs
		}
		for _, r := range rs {
			alreadyShut := r.point == "poll:ctx" || r.point == "poll:ignore" || r.point == "poll:timer2"
			for _, a := range acts {
				if alreadyShut && usesShutdown(a) {
					continue // a second Shutdown is a no-op
				}
				ks = append(ks, wkind{Target: tg, Point: r.point, Due: r.due, SFC: r.fc, SFI: r.fi, Actions: a})
			}
		}
	}
	return ks
}

// ---------------------------------------------------------------- one trial

type wctl struct {
	armed                                      chan struct{}
	gateReached, gateRelease, reached, release chan struct{}
	mu                                         sync.Mutex
	stage                                      int // 0 waiting for the gate (e popped), 1 waiting for the target point, 2 pass-through
	target                                     string
	isE                                        func(point string, el any) bool
	once                                       [4]sync.Once
}

func (c *wctl) handle(point string, el any) {
	<-c.armed
	c.mu.Lock()
	st := c.stage
	c.mu.Unlock()
	switch {
	case st == 0 && point == "poll:popped" && c.isE(point, el):
		c.once[0].Do(func() { close(c.gateReached) })
		<-c.gateRelease
		c.mu.Lock()
		if c.target == "poll:popped" {
			c.stage = 2
		} else {
			c.stage = 1
		}
		c.mu.Unlock()
	case st == 1 && point == c.target && c.isE(point, el):
		c.mu.Lock()
		c.stage = 2
		c.mu.Unlock()
		c.once[1].Do(func() { close(c.reached) })
		<-c.release
	}
}

func (c *wctl) freeAll() {
	c.once[2].Do(func() { close(c.gateRelease) })
	c.once[3].Do(func() { close(c.release) })
}

type wres struct {
	Kind      wkind    `json:"kind"`
	Reached   bool     `json:"reached"`
	Rets      []int    `json:"rets"`      // per action: -1 no return value, 0 false, 1 true
	Delivered []int    `json:"delivered"` // element ids in delivery order (0 = e, 1 = f, 2.. = replacements)
	Why       []string `json:"why,omitempty"`
	Either    bool     `json:"either,omitempty"` // some element may legitimately go either way (CancelPendingElements raced)
	labels    []string
}

const (
	wMust = iota
	wMustNot
	wEither
)

func runWindow(k wkind) wres {
	res := wres{Kind: k}
	c := &wctl{armed: make(chan struct{}), gateReached: make(chan struct{}), gateRelease: make(chan struct{}),
		reached: make(chan struct{}), release: make(chan struct{}), target: k.Point}
	defer c.freeAll()

	const mT0 = 1000000 // model clock (Corr.T0), in microseconds
	mnow := int64(mT0)
	lab := func(f string, a ...any) { res.labels = append(res.labels, fmt.Sprintf(f, a...)) }
	mkey := func(key int) string {
		if k.Target != "task" {
			return "None"
		}
		return fmt.Sprintf("(Some %d)", key)
	}

	start := time.Now()
	var mu sync.Mutex
	var order []int
	stamps := map[int]time.Time{}
	record := func(id int) {
		now := time.Now()
		mu.Lock()
		order = append(order, id)
		if _, ok := stamps[id]; !ok {
			stamps[id] = now
		}
		mu.Unlock()
	}
	count := func(id int) int {
		mu.Lock()
		defer mu.Unlock()
		n := 0
		for _, x := range order {
			if x == id {
				n++
			}
		}
		return n
	}

	var q *timed.Queue[int]
	var ex *timed.Executor
	var te *timed.TaskExecutor[int]
	var keys []uintptr
	var pollerDone chan struct{}
	switch k.Target {
	case "queue":
		q = timed.NewQueue[int]()
		keys = []uintptr{hookKey(q)}
	case "exec":
		ex = timed.NewExecutor(1)
		keys = []uintptr{executorQueueKey(ex)}
	default:
		te = timed.NewTaskExecutor[int](1)
		keys = []uintptr{executorQueueKey(te.Executor), hookKey(te)}
	}
	for _, key := range keys {
		hookHandlers.Store(key, c.handle)
	}
	defer func() {
		for _, key := range keys {
			hookHandlers.Delete(key)
		}
	}()
	if q != nil {
		pollerDone = make(chan struct{})
		go func() {
			defer close(pollerDone)
			for {
				v := q.Poll(true)
				if v == 0 {
					return
				}
				record(v - 1)
			}
		}()
	}
	lab("LWorker 0 0") // the worker finds the heap empty and waits

	// elements
	var qel []*timed.QueueElement[int]
	var xel []*timed.ScheduledTask
	due := map[int]time.Time{}
	status := map[int]int{}
	nacc := 0
	add := func(at time.Time, mt int64, key int) bool {
		id := nacc
		ok := false
		switch k.Target {
		case "queue":
			if e := q.Add(id+1, at); e != nil {
				qel, ok = append(qel, e), true
			}
		case "exec":
			if e := ex.ExecuteAt(func() { record(id) }, at); e != nil {
				xel, ok = append(xel, e), true
			}
		default:
			if e := te.ExecuteAt(key, func() { record(id) }, at); e != nil {
				xel, ok = append(xel, e), true
			}
		}
		lab("LAdd %s %s", vx.N(uint64(mt)), mkey(key))
		if ok {
			due[id], status[id] = at, wMust
			nacc++
		}
		return ok
	}
	cleanup := func() {
		c.freeAll()
		switch k.Target {
		case "queue":
			q.Shutdown(timed.CancelPendingElements)
			for _, e := range qel {
				e.Cancel()
			}
			waitFor(pollerDone, 2*time.Second)
		case "exec":
			ex.Shutdown(timed.CancelPendingElements, timed.DontWaitForShutdown)
			for _, e := range xel {
				e.Cancel()
			}
		default:
			te.Shutdown(timed.CancelPendingElements, timed.DontWaitForShutdown)
			for _, e := range xel {
				e.Cancel()
			}
		}
	}
	defer cleanup()

	// how far ahead "soon" is: long enough to reach the point before the time, short enough for a quick trial
	eOff := time.Duration(0)
	if k.Due == "soon" {
		switch k.Point {
		case "poll:ctx", "poll:ignore":
			eOff = 120 * time.Millisecond
		case "poll:timer2":
			eOff = 60 * time.Millisecond
		default:
			eOff = 15 * time.Millisecond
		}
	}
	var eHandle any
	c.isE = func(point string, el any) bool {
		if strings.HasPrefix(point, "task:") {
			id, ok := el.(int)
			return ok && id == 0
		}
		return el == eHandle
	}
	var eDue time.Time
	var meDue int64
	if k.Due == "past" {
		eDue, meDue = start.Add(-time.Second), mT0-1000
	} else {
		eDue, meDue = start.Add(eOff), mT0+eOff.Microseconds()
	}
	add(eDue, meDue, 0)
	if k.Target == "queue" {
		eHandle = any(qel[0])
	} else {
		eHandle = any(xel[0])
	}
	close(c.armed)
	if !waitFor(c.gateReached, 5*time.Second) {
		return res // the worker never popped e
	}
	lab("LWorker 0 0") // pops e: WPopped e
	// f: a second element behind e (other identifier), due after e
	fDue := eDue.Add(25 * time.Millisecond)
	mfDue := meDue + 25000
	if k.Due == "past" {
		fDue, mfDue = time.Now().Add(25*time.Millisecond), mT0+25000
	}
	add(fDue, mfDue, 1)

	shut, ignoreIssued := false, false
	decided := false // Poll has returned e
	shutdown := func(fc, fi bool) {
		var fl []timed.ShutdownFlag
		if fc {
			fl = append(fl, timed.CancelPendingElements)
		}
		if fi {
			fl = append(fl, timed.IgnorePendingTimeouts)
		}
		switch k.Target {
		case "queue":
			q.Shutdown(fl...)
		case "exec":
			ex.Shutdown(append(fl, timed.DontWaitForShutdown)...)
		default:
			te.Shutdown(append(fl, timed.DontWaitForShutdown)...)
		}
		lab("LShutdown %s %s", vx.Bool(fc), vx.Bool(fi))
		if !shut {
			shut = true
			ignoreIssued = ignoreIssued || fi
			if fc {
				for id, s := range status {
					if s == wMust && !(id == 0 && decided) && count(id) == 0 {
						status[id] = wEither
					}
				}
			}
		}
	}
	tick := func(to int64) {
		if to > mnow {
			lab("LTick %s", vx.N(uint64(to-mnow)))
			mnow = to
		}
	}

	// go to the target point
	if k.Point != "poll:popped" {
		c.once[2].Do(func() { close(c.gateRelease) })
		switch k.Point {
		case "poll:timer", "task:polled", "task:checked":
			if k.Due == "soon" {
				lab("LWorker 0 0") // parks in the select
				tick(meDue)
			}
			lab("LWorker 0 0") // the select takes the timer: WChosen e
			if k.Point != "poll:timer" {
				lab("LWorker 0 0") // re-check passed, Poll returns: WDeliv e
				decided = true
			}
			if k.Point == "task:checked" {
				lab("LWorker 0 0") // the wrapper removed its entry: WRun e
			}
		case "poll:ctx", "poll:ignore":
			lab("LWorker 0 0") // parks
			guard(func() { shutdown(k.SFC, k.SFI) })
		case "poll:timer2":
			lab("LWorker 0 0")
			guard(func() { shutdown(false, false) })
			lab("LWorker 0 0") // WPopped2 -> WParked2
			tick(meDue)
			lab("LWorker 0 0") // inner select takes the timer: WChosen e
		}
		if !waitFor(c.reached, 5*time.Second) {
			return res // e.g. the time passed before the Shutdown was issued; not judged
		}
	}
	res.Reached = true

	// actions while the worker is held
	tracked := map[int]int{0: 0, 1: 1} // identifier -> pending element id (task target)
	if k.Point == "task:checked" {
		delete(tracked, 0) // e has started: it is not pending any more, Cancel(0) cannot prevent it
	}
	for _, a := range k.Actions {
		ret := -1
		hung := false
		switch a {
		case "cancel", "cancel2":
			id := 0
			if a == "cancel2" {
				id = 1
			}
			hung = !guard(func() {
				if k.Target == "queue" {
					qel[id].Cancel()
				} else {
					xel[id].Cancel()
				}
			})
			lab("LCancel %d", id)
			if !(id == 0 && decided) && status[id] != wMustNot {
				status[id] = wMustNot
			}
		case "tcancel", "tcancel2":
			key := 0
			if a == "tcancel2" {
				key = 1
			}
			var r bool
			hung = !guard(func() { r = te.Cancel(key) })
			lab("LTCancel %d", key)
			ret = 0
			if r {
				ret = 1
			}
			want := 0
			if id, ok := tracked[key]; ok {
				want = 1
				delete(tracked, key)
				status[id] = wMustNot
			}
			if ret != want && !hung {
				res.Why = append(res.Why, fmt.Sprintf("Cancel(%d) returned %v although a pending task %s", key, r, map[bool]string{true: "existed", false: "did not exist"}[want == 1]))
			}
		case "replace":
			if id, ok := tracked[0]; ok {
				status[id] = wMustNot
				delete(tracked, 0)
			}
			var ok bool
			at := time.Now().Add(20 * time.Millisecond)
			hung = !guard(func() { ok = add(at, mnow+20000, 0) })
			ret = 0
			if ok {
				ret = 1
				tracked[0] = nacc - 1
			}
			if ok == shut && !hung {
				res.Why = append(res.Why, fmt.Sprintf("ExecuteAt accepted=%v with shutdown=%v", ok, shut))
			}
		case "sd-none":
			hung = !guard(func() { shutdown(false, false) })
		case "sd-ignore":
			hung = !guard(func() { shutdown(false, true) })
		case "sd-cancel":
			hung = !guard(func() { shutdown(true, false) })
		}
		if hung {
			res.Why = append(res.Why, "operation "+a+" hung while the worker was held")
		}
		res.Rets = append(res.Rets, ret)
	}
	c.freeAll()

	// wait for the outcome: everything that must be delivered, then a quiet window for what must not
	var maxDue time.Time
	for _, d := range due {
		if d.After(maxDue) {
			maxDue = d
		}
	}
	deadline := time.Now().Add(5 * time.Second)
	if maxDue.Add(5 * time.Second).After(deadline) {
		deadline = maxDue.Add(5 * time.Second)
	}
	for time.Now().Before(deadline) {
		all := true
		for id, s := range status {
			if s == wMust && count(id) == 0 {
				all = false
			}
		}
		if all && time.Now().After(maxDue) {
			break
		}
		time.Sleep(500 * time.Microsecond)
	}
	time.Sleep(25 * time.Millisecond)

	mu.Lock()
	res.Delivered = append([]int(nil), order...)
	st2 := map[int]time.Time{}
	for id, t := range stamps {
		st2[id] = t
	}
	mu.Unlock()
	ids := make([]int, 0, len(status))
	for id := range status {
		ids = append(ids, id)
	}
	sort.Ints(ids)
	for _, id := range ids {
		n := 0
		for _, x := range res.Delivered {
			if x == id {
				n++
			}
		}
		switch {
		case n > 1:
			res.Why = append(res.Why, fmt.Sprintf("element %d delivered %d times", id, n))
		case n == 0 && status[id] == wMust:
			res.Why = append(res.Why, fmt.Sprintf("element %d was neither cancelled nor discarded but not delivered within 5 s after its time", id))
		case n >= 1 && status[id] == wMustNot:
			res.Why = append(res.Why, fmt.Sprintf("element %d delivered although its cancellation/replacement had completed while it was still pending (the worker was held before the decision to return / start it)", id))
		}
		if n >= 1 && !ignoreIssued && st2[id].Before(due[id]) {
			res.Why = append(res.Why, fmt.Sprintf("element %d delivered %v before its time", id, due[id].Sub(st2[id])))
		}
		if status[id] == wEither {
			res.Either = true
		}
	}
	return res
}

// coq: CWin labels rets started  (rets = the values returned by Cancel(id), oldest first)
func (r wres) coq() string {
	var rets []string
	for i, a := range r.Kind.Actions {
		if strings.HasPrefix(a, "tcancel") {
			rets = append(rets, vx.Bool(r.Rets[i] == 1))
		}
	}
	d := append([]int(nil), r.Delivered...)
	sort.Ints(d)
	return fmt.Sprintf("CWin %s %s %s", vx.List(r.labels), vx.List(rets), vx.ListOf(d, func(x int) string { return fmt.Sprint(x) }))
}

// runWindows runs every kind reps times (in parallel), judges, and emits the schedule-independent trials as CWin cases.
func runWindows(cf *vx.CasesFile, st *vx.Stats, reps, par int) {
	kinds := windowKinds()
	results := make([][]wres, len(kinds))
	for i := range results {
		results[i] = make([]wres, reps)
	}
	sem := make(chan struct{}, par)
	var wg sync.WaitGroup
	for rep := 0; rep < reps; rep++ {
		for i := range kinds {
			wg.Add(1)
			sem <- struct{}{}
			go func(i, rep int) {
				defer wg.Done()
				defer func() { <-sem }()
				results[i][rep] = runWindow(kinds[i])
			}(i, rep)
		}
	}
	wg.Wait()
	unreached := map[string]int{}
	pointReached := map[string]int{}
	trials, judged := 0, 0
	for i, k := range kinds {
		emitted := false
		for rep := 0; rep < reps; rep++ {
			r := results[i][rep]
			trials++
			if !r.Reached {
				unreached[k.String()]++
				continue
			}
			judged++
			pointReached[k.Target+"/"+k.Point]++
			st.Count("window:" + k.Target + "/" + k.Point)
			if len(r.Why) > 0 {
				st.Fail(map[string]any{"sig": "", "kind": "window", "violated": strings.Join(r.Why, "; "), "trial": r,
					"what": "worker held at " + k.Point + " (" + k.Target + ", time " + k.Due + "), operations " + strings.Join(k.Actions, ", ") + " completed meanwhile, worker released"})
				continue
			}
			if !emitted && !r.Either {
				emitted = true
				cf.Add(r.coq())
				st.Case("W"+k.String(), len(k.Actions) > 0)
				st.CaseIndex = append(st.CaseIndex, map[string]any{"kind": "window", "trial": r})
			}
		}
	}
	st.Extra["windows"] = map[string]any{"kinds": len(kinds), "reps": reps, "trials": trials, "judged": judged, "unreached": unreached, "reached_per_point": pointReached}
}
