package main

import (
	"fmt"
	"sync"
	"time"

	"github.com/iotaledger/hive.go/ds/reactive"

	"verif/harness/vx"
)

const concWatchdog = 20 * time.Second

// runScripts runs the scripts (at most 4) in parallel after a common start barrier; false = some script hung.
func runScripts(scripts [][]func()) bool {
	if len(scripts) > 4 {
		panic("more than 4 goroutines")
	}
	var start, wg sync.WaitGroup
	start.Add(1)
	wg.Add(len(scripts))
	for _, sc := range scripts {
		go func(sc []func()) {
			defer wg.Done()
			start.Wait()
			for _, f := range sc {
				f()
			}
		}(sc)
	}
	start.Done()
	return within(concWatchdog, wg.Wait)
}

type concCase struct {
	kind   string
	script []string // one line per goroutine
	eff    int      // goroutines with at least one effective write
}

func (c *concCase) report(st *vx.Stats, ok bool, why string) {
	st.Count("conc:" + c.kind)
	st.Case("conc:"+c.kind+":"+fmt.Sprint(c.script), c.eff >= 2)
	if !ok {
		st.Fail(map[string]any{"sig": "", "kind": "conc-" + c.kind, "script": c.script, "why": why})
	}
}

// ---- (1) DerivedVariable2..4 + InheritFrom, writers on different (and sometimes the same) inputs
func concDV(r *vx.Rng, st *vx.Stats) {
	f := r.Intn(5) // pure compute functions only
	ar := 2 + r.Intn(3)
	in := make([]reactive.Variable[int], ar)
	for i := range in {
		in[i] = reactive.NewVariable[int]()
		in[i].Set(r.Intn(5) - 2)
	}
	d := newDerived(f, in, 0)
	t := reactive.NewVariable[int]()
	t.InheritFrom(d)
	g := 2 + r.Intn(3)
	c := &concCase{kind: "dv"}
	scripts := make([][]func(), g)
	for j := 0; j < g; j++ {
		i := j % ar
		if r.Chance(1, 4) {
			i = r.Intn(ar)
		}
		line := fmt.Sprintf("in%d:", i)
		for k := 20 + r.Intn(60); k > 0; k-- {
			v := r.Intn(7) - 3
			scripts[j] = append(scripts[j], func() { in[i].Set(v) })
			line += fmt.Sprint(" ", v)
		}
		c.script = append(c.script, line)
	}
	c.eff = g
	if !runScripts(scripts) {
		c.report(st, false, "hang: writers on the inputs of a DerivedVariable did not return")
		return
	}
	xs := make([]int, ar)
	for i := range in {
		xs[i] = in[i].Get()
	}
	want := applyFn(f, 0, xs)
	ok := d.Get() == want && t.Get() == want
	c.report(st, ok, fmt.Sprintf("%s: after quiescence derived=%d inheriting=%d compute(inputs %v)=%d", fnNames[f], d.Get(), t.Get(), xs, want))
}

// ---- (2) DerivedSet / SubtractReactive: one writer per base set, one goroutine subscribing / unsubscribing sources
func concSN(r *vx.Rng, st *vx.Stats) {
	g0 := &gen{r: r}
	bases := []reactive.Set[int]{reactive.NewSet[int](), reactive.NewSet[int](), reactive.NewSet[int]()}
	for _, b := range bases {
		for k := r.Intn(3); k > 0; k-- {
			b.Add(1 + r.Intn(5))
		}
	}
	d := reactive.NewDerivedSet[int]()
	sub := bases[0].SubtractReactive(bases[1], bases[2])
	type subT struct {
		src    int
		unsub  func()
		active bool
	}
	var mu sync.Mutex
	subs := []*subT{}
	for i := range bases {
		if r.Chance(2, 3) {
			subs = append(subs, &subT{i, d.InheritFrom(bases[i]), true})
		}
	}
	c := &concCase{kind: "sn"}
	scripts := make([][]func(), 4)
	for j := 0; j < 3; j++ {
		line := fmt.Sprintf("base%d:", j)
		b := bases[j]
		for k := 15 + r.Intn(40); k > 0; k-- {
			o := g0.randSetOp(r, 5)
			scripts[j] = append(scripts[j], func() { applySetOp(b, o) })
			line += " " + o.coq()
		}
		c.script = append(c.script, line)
	}
	line := "structure:"
	for k := 4 + r.Intn(10); k > 0; k-- {
		if r.Bool() {
			i := r.Intn(3)
			scripts[3] = append(scripts[3], func() {
				u := d.InheritFrom(bases[i])
				mu.Lock()
				subs = append(subs, &subT{i, u, true})
				mu.Unlock()
			})
			line += fmt.Sprintf(" inherit%d", i)
		} else {
			pick := r.Intn(8)
			scripts[3] = append(scripts[3], func() {
				mu.Lock()
				var s *subT
				if len(subs) > 0 {
					if x := subs[pick%len(subs)]; x.active {
						s = x
						x.active = false
					}
				}
				mu.Unlock()
				if s != nil {
					s.unsub()
				}
			})
			line += fmt.Sprintf(" unsub#%d", pick)
		}
	}
	c.script = append(c.script, line)
	c.eff = 4
	if !runScripts(scripts) {
		c.report(st, false, "hang: writers on the sources of a DerivedSet / SubtractReactive did not return")
		return
	}
	want := map[int]bool{}
	for _, s := range subs {
		if s.active {
			for _, e := range bases[s.src].ToSlice() {
				want[e] = true
			}
		}
	}
	dv := d.ToSlice()
	ok := len(dv) == len(want)
	for _, e := range dv {
		ok = ok && want[e]
	}
	wantR := map[int]bool{}
	for _, e := range bases[0].ToSlice() {
		wantR[e] = true
	}
	for _, e := range append(bases[1].ToSlice(), bases[2].ToSlice()...) {
		delete(wantR, e)
	}
	rv := sub.ToSlice()
	okR := len(rv) == len(wantR)
	for _, e := range rv {
		okR = okR && wantR[e]
	}
	c.report(st, ok && okR, fmt.Sprintf("after quiescence derived=%v union of current sources=%v | subtract=%v source minus others=%v", sortedCopy(dv), want, sortedCopy(rv), wantR))
}

// ---- (3) Counter: writers on the inputs, one goroutine adding monitors
func concCT(r *vx.Rng, st *vx.Stats) {
	cnd := r.Intn(3)
	in := make([]reactive.Variable[int], 3)
	for i := range in {
		in[i] = reactive.NewVariable[int]()
		in[i].Set(r.Intn(4) - 1)
	}
	var ctr reactive.Counter[int]
	if cnd == 0 {
		ctr = reactive.NewCounter[int]()
	} else {
		ctr = reactive.NewCounter[int](func(v int) bool { return condHolds(cnd, v) })
	}
	var mu sync.Mutex
	mons := []int{}
	for i := range in {
		if r.Bool() {
			ctr.Monitor(in[i])
			mons = append(mons, i)
		}
	}
	c := &concCase{kind: "ct"}
	scripts := make([][]func(), 4)
	for j := 0; j < 3; j++ {
		line := fmt.Sprintf("in%d:", j)
		v0 := in[j]
		for k := 20 + r.Intn(60); k > 0; k-- {
			v := r.Intn(4) - 1
			scripts[j] = append(scripts[j], func() { v0.Set(v) })
			line += fmt.Sprint(" ", v)
		}
		c.script = append(c.script, line)
	}
	line := "monitor:"
	for k := 2 + r.Intn(5); k > 0; k-- {
		i := r.Intn(3)
		scripts[3] = append(scripts[3], func() {
			ctr.Monitor(in[i])
			mu.Lock()
			mons = append(mons, i)
			mu.Unlock()
		})
		line += fmt.Sprint(" ", i)
	}
	c.script = append(c.script, line)
	c.eff = 4
	if !runScripts(scripts) {
		c.report(st, false, "hang: writers on the inputs of a Counter did not return")
		return
	}
	want := 0
	for _, i := range mons {
		if condHolds(cnd, in[i].Get()) {
			want++
		}
	}
	c.report(st, ctr.Get() == want, fmt.Sprintf("%s: after quiescence counter=%d, monitored inputs satisfying the condition=%d", condNames[cnd], ctr.Get(), want))
}

// ---- (4) SortedSet: weight writers racing with add / delete / replace of the same elements
func concSS(r *vx.Rng, st *vx.Stats) {
	g0 := &gen{r: r}
	tb := r.Bool()
	var u *sortedSetUnderTest
	if tb {
		u = newSSUT[lel](true)
	} else {
		u = newSSUT[int](false)
	}
	u.apply(setOp{K: "addall", Es: []int{1, 2, 3}})
	c := &concCase{kind: "ss"}
	g := 3 + r.Intn(2)
	scripts := make([][]func(), g)
	for j := 0; j < g; j++ {
		if j < 2 {
			line := "weights:"
			for k := 20 + r.Intn(60); k > 0; k-- {
				e, v := 1+r.Intn(ssUniverse), r.Intn(5)-1
				scripts[j] = append(scripts[j], func() { u.setWeight(e, v) })
				line += fmt.Sprintf(" w%d=%d", e, v)
			}
			c.script = append(c.script, line)
		} else {
			line := "set:"
			for k := 15 + r.Intn(40); k > 0; k-- {
				o := g0.randSetOp(r, ssUniverse)
				scripts[j] = append(scripts[j], func() { u.apply(o) })
				line += " " + o.coq()
			}
			c.script = append(c.script, line)
		}
	}
	c.eff = g
	if !runScripts(scripts) {
		c.report(st, false, "hang: weight updates racing with add/delete on a SortedSet did not return")
		return
	}
	why := judgeSorted(u, tb)
	c.report(st, why == "", "after quiescence: "+why)
}

// ---- (6) EvictionState: one evicting goroutine, others asking for events
func concEV(r *vx.Rng, st *vx.Stats) {
	e := reactive.NewEvictionState[uint32]()
	type handle struct {
		slot uint32
		ev   reactive.Event
	}
	var mu sync.Mutex
	var hs []handle
	c := &concCase{kind: "ev"}
	g := 3 + r.Intn(2)
	scripts := make([][]func(), g)
	line := "evict:"
	slot := 0
	for k := 3 + r.Intn(6); k > 0; k-- {
		slot += r.Intn(4)
		s := uint32(slot)
		if r.Chance(1, 5) && slot > 2 {
			s = uint32(slot - 2) // a stale eviction
		}
		scripts[0] = append(scripts[0], func() { e.Evict(s) })
		line += fmt.Sprint(" ", s)
	}
	c.script = append(c.script, line)
	for j := 1; j < g; j++ {
		line := "events:"
		for k := 6 + r.Intn(14); k > 0; k-- {
			s := uint32(r.Intn(slot + 4))
			scripts[j] = append(scripts[j], func() {
				ev := e.EvictionEvent(s)
				mu.Lock()
				hs = append(hs, handle{s, ev})
				mu.Unlock()
			})
			line += fmt.Sprint(" ", s)
		}
		c.script = append(c.script, line)
	}
	c.eff = g
	if !runScripts(scripts) {
		c.report(st, false, "hang: Evict racing with EvictionEvent did not return")
		return
	}
	last := e.LastEvictedSlot()
	for _, h := range hs {
		if h.ev.WasTriggered() != (h.slot <= last) {
			c.report(st, false, fmt.Sprintf("after quiescence: event of slot %d triggered=%v, last evicted slot %d", h.slot, h.ev.WasTriggered(), last))
			return
		}
	}
	c.report(st, true, "")
}

// ---- (5) WaitGroup: Add / Done from several goroutines; in half of the runs one pinned element is never done
func concWG(r *vx.Rng, st *vx.Stats) {
	w := reactive.NewWaitGroup[int]()
	pinned := r.Bool()
	if pinned {
		w.Add(9)
	} else {
		w.Add(1)
	}
	c := &concCase{kind: "wg"}
	if pinned {
		c.script = append(c.script, "pinned 9")
	}
	g := 2 + r.Intn(3)
	scripts := make([][]func(), g)
	for j := 0; j < g; j++ {
		line := ""
		for k := 15 + r.Intn(40); k > 0; k-- {
			es := make([]int, 1+r.Intn(2))
			for i := range es {
				es[i] = 1 + r.Intn(3)
			}
			if r.Bool() {
				scripts[j] = append(scripts[j], func() { w.Add(es...) })
				line += fmt.Sprint(" add", es)
			} else {
				scripts[j] = append(scripts[j], func() { w.Done(es...) })
				line += fmt.Sprint(" done", es)
			}
		}
		c.script = append(c.script, line)
	}
	c.eff = g
	if !runScripts(scripts) {
		c.report(st, false, "hang: Add/Done on a WaitGroup did not return")
		return
	}
	if pinned {
		// the pending set was never empty
		c.report(st, !w.WasTriggered() && w.PendingElements().Has(9), "triggered although element 9 was pending all the time")
		return
	}
	// quiescent: finish sequentially; the group was non-empty at the start, so once it is empty it must have triggered
	w.Done(1, 2, 3)
	ok := w.PendingElements().Size() == 0 && w.WasTriggered()
	waited := within(5*time.Second, w.Wait)
	c.report(st, ok && waited, fmt.Sprintf("after Done of every element: pending=%d triggered=%v Wait returned=%v", w.PendingElements().Size(), w.WasTriggered(), waited))
}

func concAll(r, rFresh *vx.Rng, st *vx.Stats, runs, fresh int) {
	// directed schedules for the two repaired defects first
	if fin, pending, trig := wgDupDirected(5 * time.Second); !(fin && pending == 0 && trig) {
		st.Fail(map[string]any{"sig": "", "kind": "directed-D14c", "why": fmt.Sprintf("WaitGroup{1}: Add(1) stopped after the duplicate check | Done(1) | Add resumes: finished=%v pending=%d triggered=%v (the set became empty, the group must trigger)", fin, pending, trig)})
	}
	st.Count("conc:directed-D14c")
	for i := 0; i < 2; i++ {
		if !ssDeadlockSchedule(5 * time.Second) {
			st.Fail(map[string]any{"sig": "", "kind": "directed-D14b", "why": "SortedSet{1,2}: weight(2).Set held in a HeaviestElement subscriber | Delete(1) | weight(1).Set(1) | release: Delete and Set never returned"})
			break
		}
	}
	st.Count("conc:directed-D14b")
	if !evictMaxSlot(5 * time.Second) {
		st.Fail(map[string]any{"sig": "", "kind": "directed-evict-max", "why": "NewEvictionState[uint8](): EvictionEvent(255); Evict(255) did not return / did not trigger the event"})
	}
	st.Count("conc:directed-evict-max")
	if e, lost := wgDupRace(2000); lost > 0 {
		st.Fail(map[string]any{"sig": "", "kind": "race-D14c", "why": fmt.Sprintf("WaitGroup{1}: Add(1) || Done(1): %d of %d runs ended empty and untriggered", lost, e)})
	}
	// first-use races on fresh objects (fresh.go): about 1 s per 4000 rounds, wall limit 1 s + 1 s per 1000 rounds, <= 30 s
	wall := time.Duration(1+fresh/1000) * time.Second
	if wall > 30*time.Second {
		wall = 30 * time.Second
	}
	freshFirstUse(rFresh, st, fresh, wall)
	for i := 0; i < runs; i++ {
		concDV(r.Fork(), st)
		concSN(r.Fork(), st)
		concCT(r.Fork(), st)
		concSS(r.Fork(), st)
		concEV(r.Fork(), st)
		concWG(r.Fork(), st)
	}
}
