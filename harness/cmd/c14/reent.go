// Re-entrant callbacks (hx-c14 reent): every derived kind invokes caller-supplied code (event handlers, OnUpdate
// subscribers, compute functions, conditions) somewhere inside its own calls. A scenario registers ONE such callback
// whose body is a script of calls back into the objects of the scenario (reads; writes where the unchanged code
// supports them), then drives a short history of top-level calls from a single goroutine. Judged:
//   - progress: the goroutine must not park on a lock (it is the only one touching the objects, so a lock wait can
//     never end: that is the deadlock, recognised by the goroutine's wait state and reported with the scenario, the
//     call in progress and the scripted action in progress; a 20 s watchdog covers everything else);
//   - what the scripted reads returned (e.g. a subscriber of the derived value reads the value it was notified of);
//   - the property's defining function after every top-level call (same oracles as the lockstep family).
//
// Which (callback site, scripted call) pairs are demanded is the behaviour of the unchanged code, learnt with
// `hx-c14 reent --probe`: the pairs that park there (table reBlocked, each with the lock it waits for) are run once per
// run as observations and never combined into demanded scenarios; every other pair must complete.
// EvictionState scenarios (tree-shaped handler scripts: handlers re-arm further events with their own handlers, read
// LastEvictedSlot, evict further) are also replayed on the model EVR (case CEVR).
package main

import (
	"fmt"
	"os"
	"sort"
	"strings"
	"sync/atomic"
	"time"

	"github.com/iotaledger/hive.go/ds"
	"github.com/iotaledger/hive.go/ds/reactive"

	"verif/harness/vx"
)

const reWatchdog = 20 * time.Second

// ---------------------------------------------------------------------------------------------------------------
// progress watchdog
// ---------------------------------------------------------------------------------------------------------------

type reProgress struct {
	gid atomic.Int64
	op  atomic.Int32 // index of the top-level call in progress
	in  atomic.Value // string: scripted action in progress ("" = outside the script)
	ran atomic.Int32 // executions of the script
}

func (p *reProgress) at(site string, a string) {
	if site == "" {
		p.in.Store("")
		return
	}
	p.in.Store(site + ": " + a)
}

func lockParked(state string) bool {
	return strings.HasPrefix(state, "sync.") || strings.HasPrefix(state, "semacquire")
}

// reGuard runs a single-goroutine scenario. outcome = "ok" | "blocked[<wait state>]" | "timeout[<state>]".
func reGuard(f func(p *reProgress) string) (outcome, fail string, p *reProgress) {
	p = &reProgress{}
	p.in.Store("")
	done := make(chan string, 1)
	go func() {
		p.gid.Store(goid())
		done <- f(p)
	}()
	start := time.Now()
	select {
	case fail = <-done:
		return "ok", fail, p
	case <-time.After(3 * time.Millisecond):
	}
	streak, last := 0, ""
	for {
		select {
		case fail = <-done:
			return "ok", fail, p
		case <-time.After(4 * time.Millisecond):
		}
		st := "starting"
		if id := p.gid.Load(); id != 0 {
			st = gstate(id)
		}
		// nobody else touches the scenario's objects: a goroutine parked on a lock stays parked. Several consecutive
		// observations of the same wait state only guard against reading the state of a goroutine that is just leaving it.
		if lockParked(st) && (streak == 0 || st == last) {
			streak++
			last = st
		} else {
			streak = 0
		}
		if streak >= 6 {
			return "blocked[" + st + "]", "", p
		}
		if time.Since(start) > reWatchdog {
			return "timeout[" + st + "]", "", p
		}
	}
}

// ---------------------------------------------------------------------------------------------------------------
// scenarios
// ---------------------------------------------------------------------------------------------------------------

type reAct struct {
	K  string `json:"k"`
	A  int    `json:"a,omitempty"`
	B  int    `json:"b,omitempty"`
	Es []int  `json:"es,omitempty"`
}

func (a reAct) String() string {
	s := a.K
	if a.Es != nil {
		return s + fmt.Sprint(a.Es)
	}
	return fmt.Sprintf("%s(%d,%d)", s, a.A, a.B)
}

type reScenario struct {
	Kind string   `json:"kind"`
	Site string   `json:"site"` // the callback that runs the script
	Acts []reAct  `json:"script"`
	P    []int    `json:"params,omitempty"`
	Ins0 []int    `json:"ins0,omitempty"`
	Bs0  [][]int  `json:"bases0,omitempty"`
	DV   []dvOp   `json:"dv_history,omitempty"`
	SN   []snOp   `json:"sn_history,omitempty"`
	CT   []ctOp   `json:"ct_history,omitempty"`
	SS   []ssOp   `json:"ss_history,omitempty"`
	WG   []wgOp   `json:"wg_history,omitempty"`
	EV   []evrAct `json:"ev_history,omitempty"`
}

func (sc *reScenario) key() string {
	return fmt.Sprint(sc.Kind, sc.Site, sc.Acts, sc.P, sc.Ins0, sc.Bs0, sc.DV, sc.SN, sc.CT, sc.SS, sc.WG, sc.EV)
}

var reWrites = map[string]bool{"set-other-in": true, "b-add-other": true, "b-del-other": true, "set-other-w": true, "set-in": true, "set-t": true, "set-d": true, "unsub-d": true, "b-add": true, "b-del": true, "d-add": true, "d-del": true,
	"inherit": true, "unsub": true, "set-c": true, "monitor": true, "set-w": true, "add": true, "del": true, "done": true}

func hasWrites(acts []reAct) bool {
	for _, a := range acts {
		if reWrites[a.K] {
			return true
		}
	}
	return false
}

type reKind struct {
	name  string
	sites []string
	acts  []string
	gen   func(r *vx.Rng, sc *reScenario)            // setup + history (site and script are already chosen)
	act   func(r *vx.Rng, k string) reAct            // parameters of one scripted call
	run   func(sc *reScenario, p *reProgress) string // returns the first oracle failure
	// okNext (optional): may a call of kind k follow the calls already in the script? (order-dependent baseline)
	okNext func(site string, acts []reAct, k string) bool
}

// reBlocked: (kind/site/action) pairs that park on the UNCHANGED code (hx-c14 reent --probe, 2026-10-02, /repo 83b7f6c),
// with the lock the callback runs under. They are observations, not demanded (see notes/C14.md 5c).
var reBlocked = func() map[string]string {
	m := map[string]string{}
	put := func(kind, why string, sites []string, acts ...string) {
		for _, s := range sites {
			for _, a := range acts {
				m[blockedKey(kind, s, a)] = why
			}
		}
	}
	// DerivedVariable: the compute function runs inside Variable.Compute -> updateValue, i.e. under the derived variable's
	// valueMutex (write) and updateOrderMutex; subscribers run under the updateOrderMutex of the variable that notifies
	// (and of every variable further up the notification chain)
	put("dv", "compute runs under the derived variable's valueMutex: Get() read-locks it again", []string{"compute"}, "get-d")
	put("dv", "a write needs the updateOrderMutex of a variable that is notifying further up the stack (or the execution lock of the running callback)",
		[]string{"compute", "dsub-pre", "dsub", "tsub"}, "set-in", "set-other-in", "set-d", "unsub-d")
	put("dv", "t.Set inside t's own subscriber needs t's updateOrderMutex", []string{"tsub"}, "set-t")
	put("dv", "input.Set inside a subscriber of the same input needs its updateOrderMutex (another input is fine: set-other-in)", []string{"insub-pre", "insub"}, "set-in")
	// DerivedSet / SubtractReactive: subscribers run under the write-order mutex of the set that notifies
	put("sn", "writing the source that is notifying needs its mutex (another source is fine: b-add-other)", []string{"bsub-pre", "bsub"}, "b-add", "b-del")
	put("sn", "any write that reaches the derived set needs its mutex, held while its subscribers run", []string{"dsub"}, "b-add", "b-del", "b-add-other", "b-del-other", "d-add", "d-del", "inherit", "unsub")
	put("sn", "a write to a source reaches the SubtractReactive result, whose mutex is held while its subscribers run", []string{"rsub"}, "b-add", "b-del", "b-add-other", "b-del-other")
	// Counter: the condition runs inside counter.Compute -> updateValue (valueMutex write-locked)
	put("ct", "the condition runs under the counter's valueMutex: Get() read-locks it again", []string{"cond"}, "get-c")
	put("ct", "a write needs the counter's / the notifying input's updateOrderMutex", []string{"cond", "csub"}, "set-in", "set-other-in", "set-c", "monitor")
	put("ct", "input.Set inside a subscriber of the same input needs its updateOrderMutex (another input is fine: set-other-in)", []string{"insub-pre", "insub"}, "set-in")
	// SortedSet: HeaviestElement / LightestElement are set while sortedSet.mutex is write-locked
	put("ss", "Heaviest/Lightest subscribers run under sortedSet.mutex (write): Ascending/Descending read-lock it again", []string{"hsub", "lsub"}, "asc", "desc", "judge")
	put("ss", "a write needs sortedSet.mutex / the set's mutex / the weight's updateOrderMutex held further up the stack", []string{"hsub", "lsub"}, "set-w", "set-other-w", "add", "del")
	put("ss", "Add/Delete inside a subscriber of the set needs the set's mutex", []string{"ssub"}, "add", "del")
	put("ss", "weight.Set inside a subscriber of the same weight needs its updateOrderMutex (another element's weight is fine: set-other-w)", []string{"wsub-pre", "wsub"}, "set-w")
	put("ss", "not a lock: a subscriber of a weight may run before the set's own weight callback, the sorted view is stale there by design", []string{"wsub-pre", "wsub"}, "judge")
	// WaitGroup: subscribers of PendingElements() run under the pending set's mutex
	put("wg", "Add/Done inside a subscriber of PendingElements() needs the pending set's mutex", []string{"psub"}, "add", "done")
	return m
}()

func blockedKey(kind, site, act string) string { return kind + "/" + site + "/" + act }

// ---------------------------------------------------------------------------------------------------------------
// (1) DerivedVariable1..4 + inheriting variable
// ---------------------------------------------------------------------------------------------------------------

func newDerivedHook(f int, in []reactive.Variable[int], initial int, hook func(args []int)) reactive.DerivedVariable[int] {
	c := func(cur int, xs ...int) int {
		hook(xs)
		return applyFn(f, cur, xs)
	}
	switch len(in) {
	case 1:
		return reactive.NewDerivedVariable[int](func(cur, a int) int { return c(cur, a) }, in[0], initial)
	case 2:
		return reactive.NewDerivedVariable2[int](func(cur, a, b int) int { return c(cur, a, b) }, in[0], in[1], initial)
	case 3:
		return reactive.NewDerivedVariable3[int](func(cur, a, b, x int) int { return c(cur, a, b, x) }, in[0], in[1], in[2], initial)
	}
	return reactive.NewDerivedVariable4[int](func(cur, a, b, x, y int) int { return c(cur, a, b, x, y) }, in[0], in[1], in[2], in[3], initial)
}

func reRunDV(sc *reScenario, p *reProgress) string {
	f, si := sc.P[0], sc.P[1]
	in := make([]reactive.Variable[int], len(sc.Ins0))
	for i, v := range sc.Ins0 {
		in[i] = reactive.NewVariable[int]()
		in[i].Set(v)
	}
	si %= len(in)
	var d reactive.DerivedVariable[int]
	var t reactive.Variable[int]
	fail := ""
	note := func(s string, a ...any) {
		if fail == "" {
			fail = fmt.Sprintf("call %d: ", p.op.Load()) + fmt.Sprintf(s, a...)
		}
	}
	writes := hasWrites(sc.Acts)
	dDirty, tDirty, dSub := false, false, true
	depth := 0
	inputs := func() []int {
		xs := make([]int, len(in))
		for i := range in {
			xs[i] = in[i].Get()
		}
		return xs
	}
	script := func(site string, newv int, args []int) {
		if site != sc.Site || depth > 0 {
			return
		}
		depth++
		defer func() { depth--; p.at("", "") }()
		p.ran.Add(1)
		for _, a := range sc.Acts {
			p.at(site, a.String())
			switch a.K {
			case "get-d":
				if d != nil {
					got := d.Get()
					if !writes && (site == "dsub" || site == "dsub-pre" || site == "tsub") && got != newv {
						note("%s subscriber notified of %d reads derived.Get() = %d", site, newv, got)
					}
				}
			case "get-t":
				if t != nil {
					got := t.Get()
					if !writes && site == "tsub" && got != newv {
						note("subscriber of the inheriting variable notified of %d reads Get() = %d", newv, got)
					}
				}
			case "get-in":
				j := a.A % len(in)
				got := in[j].Get()
				if !writes && site == "compute" && got != args[j] {
					note("compute called with input%d = %d while input%d.Get() = %d", j, args[j], j, got)
				}
				if !writes && f != 5 && dSub && !dDirty && (site == "dsub" || site == "dsub-pre") {
					if xs := inputs(); applyFn(f, 0, xs) != newv {
						note("subscriber of the derived variable notified of %d while compute(inputs %v) = %d", newv, xs, applyFn(f, 0, xs))
					}
				}
			case "set-in":
				in[a.A%len(in)].Set(a.B)
			case "set-other-in":
				// a subscriber of one input writes ANOTHER input (cascade)
				if len(in) > 1 {
					in[(si+1+a.A%(len(in)-1))%len(in)].Set(a.B)
				}
			case "set-t":
				if t != nil {
					t.Set(a.B)
					tDirty = true
				}
			case "set-d":
				if d != nil {
					d.Set(a.B)
					dDirty = true
				}
			case "unsub-d":
				if d != nil {
					d.Unsubscribe()
					dSub = false
				}
			}
		}
	}
	if sc.Site == "insub-pre" {
		in[si].OnUpdate(func(_, n int) { script("insub-pre", n, nil) })
	}
	d = newDerivedHook(f, in, 0, func(args []int) { script("compute", 0, args) })
	if sc.Site == "dsub-pre" {
		d.OnUpdate(func(_, n int) { script("dsub-pre", n, nil) })
	}
	t = reactive.NewVariable[int]()
	t.InheritFrom(d)
	switch sc.Site {
	case "dsub":
		d.OnUpdate(func(_, n int) { script("dsub", n, nil) })
	case "tsub":
		t.OnUpdate(func(_, n int) { script("tsub", n, nil) })
	case "insub":
		in[si].OnUpdate(func(_, n int) { script("insub", n, nil) })
	}
	for k, o := range sc.DV {
		p.op.Store(int32(k))
		in[o.I%len(in)].Set(o.V)
		dv, tv := d.Get(), t.Get()
		if f != 5 && dSub && !dDirty {
			if xs := inputs(); dv != applyFn(f, 0, xs) {
				note("after %s: derived=%d compute(inputs %v)=%d", o.coq(), dv, xs, applyFn(f, 0, xs))
			}
		}
		if !tDirty && tv != dv {
			note("after %s: inheriting variable=%d source=%d", o.coq(), tv, dv)
		}
	}
	return fail
}

var reDV = &reKind{
	name:  "dv",
	sites: []string{"compute", "dsub-pre", "dsub", "tsub", "insub-pre", "insub"},
	acts:  []string{"get-d", "get-t", "get-in", "set-in", "set-other-in", "set-t", "set-d", "unsub-d"},
	act: func(r *vx.Rng, k string) reAct {
		return reAct{K: k, A: r.Intn(4), B: r.Intn(7) - 3}
	},
	gen: func(r *vx.Rng, sc *reScenario) {
		ar := 1 + r.Intn(4)
		if sc.Site == "compute" && ar == 1 {
			ar = 2
		}
		sc.Ins0 = make([]int, ar)
		for i := range sc.Ins0 {
			if r.Bool() {
				sc.Ins0[i] = r.Intn(7) - 3
			}
		}
		sc.P = []int{r.Intn(5), r.Intn(ar)}
		for k := 3 + r.Intn(6); k > 0; k-- {
			i := r.Intn(ar)
			if r.Chance(1, 2) {
				i = sc.P[1] // the input whose subscriber runs the script
			}
			sc.DV = append(sc.DV, dvOp{K: "in", I: i, V: r.Intn(7) - 3})
		}
	},
	run: reRunDV,
}

// ---------------------------------------------------------------------------------------------------------------
// (2) DerivedSet / SubtractReactive
// ---------------------------------------------------------------------------------------------------------------

func reRunSN(sc *reScenario, p *reProgress) string {
	si := sc.P[0] % 3
	bases := make([]reactive.Set[int], 3)
	for i := range bases {
		bases[i] = reactive.NewSet(sc.Bs0[i]...)
	}
	d := reactive.NewDerivedSet[int]()
	var r reactive.Set[int]
	type subT struct {
		src    int
		unsub  func()
		active bool
	}
	var subs []*subT
	fail := ""
	note := func(s string, a ...any) {
		if fail == "" {
			fail = fmt.Sprintf("call %d: ", p.op.Load()) + fmt.Sprintf(s, a...)
		}
	}
	writes := hasWrites(sc.Acts)
	dDirty := false
	depth := 0
	inSlice := func(xs []int, e int) bool {
		for _, x := range xs {
			if x == e {
				return true
			}
		}
		return false
	}
	script := func(site string, m ds.SetMutations[int]) {
		if site != sc.Site || depth > 0 {
			return
		}
		depth++
		defer func() { depth--; p.at("", "") }()
		p.ran.Add(1)
		checkView := func(what string, view []int) {
			if writes || m == nil {
				return
			}
			m.AddedElements().Range(func(e int) {
				if !m.DeletedElements().Has(e) && !inSlice(view, e) {
					note("%s subscriber notified of added %d reads %v", what, e, view)
				}
			})
			m.DeletedElements().Range(func(e int) {
				if !m.AddedElements().Has(e) && inSlice(view, e) {
					note("%s subscriber notified of deleted %d reads %v", what, e, view)
				}
			})
		}
		for _, a := range sc.Acts {
			p.at(site, a.String())
			switch a.K {
			case "d-slice":
				v := d.ToSlice()
				if site == "dsub" {
					checkView("derived set", v)
				}
			case "d-has":
				_ = d.Has(1+a.A%5) && d.Size() > 0
			case "r-slice":
				if r != nil {
					v := r.ToSlice()
					if site == "rsub" {
						checkView("SubtractReactive", v)
					}
				}
			case "b-slice":
				v := bases[a.A%3].ToSlice()
				if (site == "bsub" || site == "bsub-pre") && a.A%3 == si {
					checkView("source", v)
				}
			case "b-add":
				bases[a.A%3].Add(1 + a.B%5)
			case "b-del":
				bases[a.A%3].Delete(1 + a.B%5)
			case "b-add-other":
				bases[(si+1+a.A%2)%3].Add(1 + a.B%5)
			case "b-del-other":
				bases[(si+1+a.A%2)%3].Delete(1 + a.B%5)
			case "d-add":
				d.Add(1 + a.B%5)
				dDirty = true
			case "d-del":
				d.Delete(1 + a.B%5)
				dDirty = true
			case "inherit":
				subs = append(subs, &subT{a.A % 3, d.InheritFrom(bases[a.A%3]), true})
			case "unsub":
				for _, s := range subs {
					if s.active {
						s.active = false
						s.unsub()
						break
					}
				}
			}
		}
	}
	if sc.Site == "bsub-pre" {
		bases[si].OnUpdate(func(m ds.SetMutations[int]) { script("bsub-pre", m) })
	}
	for i := range bases {
		if sc.P[1]>>uint(i)&1 == 1 {
			subs = append(subs, &subT{i, d.InheritFrom(bases[i]), true})
		}
	}
	r = bases[0].SubtractReactive(bases[1], bases[2])
	switch sc.Site {
	case "dsub":
		d.OnUpdate(func(m ds.SetMutations[int]) { script("dsub", m) })
	case "rsub":
		r.OnUpdate(func(m ds.SetMutations[int]) { script("rsub", m) })
	case "bsub":
		bases[si].OnUpdate(func(m ds.SetMutations[int]) { script("bsub", m) })
	}
	for k, o := range sc.SN {
		p.op.Store(int32(k))
		switch o.K {
		case "base":
			applySetOp(bases[o.I%3], *o.O)
		case "inherit":
			subs = append(subs, &subT{o.I % 3, d.InheritFrom(bases[o.I%3]), true})
		case "unsub":
			if len(subs) > 0 {
				if s := subs[o.I%len(subs)]; s.active {
					s.active = false
					s.unsub()
				}
			}
		}
		dv, rv := d.ToSlice(), r.ToSlice()
		if !dDirty {
			want := map[int]bool{}
			for _, s := range subs {
				if s.active {
					for _, e := range bases[s.src].ToSlice() {
						want[e] = true
					}
				}
			}
			ok := len(want) == len(dv)
			for _, e := range dv {
				ok = ok && want[e]
			}
			if !ok {
				note("after %s: derived set %v is not the union of its current sources %v", o.coq(), sortedCopy(dv), want)
			}
		}
		want := map[int]bool{}
		for _, e := range bases[0].ToSlice() {
			want[e] = true
		}
		for _, e := range append(bases[1].ToSlice(), bases[2].ToSlice()...) {
			delete(want, e)
		}
		ok := len(want) == len(rv)
		for _, e := range rv {
			ok = ok && want[e]
		}
		if !ok {
			note("after %s: SubtractReactive result %v is not source minus others %v", o.coq(), sortedCopy(rv), want)
		}
	}
	return fail
}

var reSN = &reKind{
	name:  "sn",
	sites: []string{"bsub-pre", "dsub", "rsub", "bsub"},
	acts:  []string{"d-slice", "d-has", "r-slice", "b-slice", "b-add", "b-del", "b-add-other", "b-del-other", "d-add", "d-del", "inherit", "unsub"},
	act: func(r *vx.Rng, k string) reAct {
		return reAct{K: k, A: r.Intn(3), B: r.Intn(5)}
	},
	gen: func(r *vx.Rng, sc *reScenario) {
		g0 := &gen{r: r}
		sc.Bs0 = make([][]int, 3)
		for i := range sc.Bs0 {
			sc.Bs0[i] = []int{}
			for k := r.Intn(3); k > 0; k-- {
				sc.Bs0[i] = dedup(append(sc.Bs0[i], 1+r.Intn(5)))
			}
		}
		sc.P = []int{r.Intn(3), 1 + r.Intn(7)}
		if sc.Site == "rsub" || r.Chance(1, 3) {
			sc.P[0] = 0
		}
		for k := 3 + r.Intn(6); k > 0; k-- {
			x := r.Intn(100)
			switch {
			case x < 75:
				o := g0.randSetOp(r, 5)
				i := r.Intn(3)
				if r.Chance(1, 2) {
					i = sc.P[0]
				}
				sc.SN = append(sc.SN, snOp{K: "base", I: i, O: &o})
			case x < 90:
				sc.SN = append(sc.SN, snOp{K: "inherit", I: r.Intn(3)})
			default:
				sc.SN = append(sc.SN, snOp{K: "unsub", I: r.Intn(4)})
			}
		}
	},
	run: reRunSN,
}

// ---------------------------------------------------------------------------------------------------------------
// (3) Counter
// ---------------------------------------------------------------------------------------------------------------

func reRunCT(sc *reScenario, p *reProgress) string {
	c, si := sc.P[0], sc.P[1]
	in := make([]reactive.Variable[int], len(sc.Ins0))
	for i, v := range sc.Ins0 {
		in[i] = reactive.NewVariable[int]()
		in[i].Set(v)
	}
	si %= len(in)
	var ctr reactive.Counter[int]
	fail := ""
	note := func(s string, a ...any) {
		if fail == "" {
			fail = fmt.Sprintf("call %d: ", p.op.Load()) + fmt.Sprintf(s, a...)
		}
	}
	writes := hasWrites(sc.Acts)
	dirty := false
	mons := []int{}
	depth := 0
	script := func(site string, newv int) {
		if site != sc.Site || depth > 0 {
			return
		}
		depth++
		defer func() { depth--; p.at("", "") }()
		p.ran.Add(1)
		for _, a := range sc.Acts {
			p.at(site, a.String())
			switch a.K {
			case "get-c":
				if ctr != nil {
					got := ctr.Get()
					if !writes && site == "csub" && got != newv {
						note("subscriber of the counter notified of %d reads Get() = %d", newv, got)
					}
				}
			case "get-in":
				got := in[a.A%len(in)].Get()
				if !writes && (site == "insub" || site == "insub-pre") && a.A%len(in) == si && got != newv {
					note("subscriber of input%d notified of %d reads Get() = %d", si, newv, got)
				}
			case "set-in":
				in[a.A%len(in)].Set(a.B)
			case "set-other-in":
				in[(si+1+a.A%(len(in)-1))%len(in)].Set(a.B)
			case "set-c":
				if ctr != nil {
					ctr.Set(a.B)
					dirty = true
				}
			case "monitor":
				if ctr != nil {
					ctr.Monitor(in[a.A%len(in)])
					mons = append(mons, a.A%len(in))
				}
			}
		}
	}
	ctr = reactive.NewCounter[int](func(v int) bool {
		script("cond", v)
		return condHolds(c, v)
	})
	if sc.Site == "insub-pre" {
		in[si].OnUpdate(func(_, n int) { script("insub-pre", n) })
	}
	for i := range in {
		if sc.P[2]>>uint(i)&1 == 1 {
			ctr.Monitor(in[i])
			mons = append(mons, i)
		}
	}
	switch sc.Site {
	case "csub":
		ctr.OnUpdate(func(_, n int) { script("csub", n) })
	case "insub":
		in[si].OnUpdate(func(_, n int) { script("insub", n) })
	}
	for k, o := range sc.CT {
		p.op.Store(int32(k))
		if o.K == "in" {
			in[o.I%len(in)].Set(o.V)
		} else {
			ctr.Monitor(in[o.I%len(in)])
			mons = append(mons, o.I%len(in))
		}
		if !dirty {
			want := 0
			for _, i := range mons {
				if condHolds(c, in[i].Get()) {
					want++
				}
			}
			if got := ctr.Get(); got != want {
				note("after %s: counter=%d, monitored inputs satisfying the condition=%d", o.coq(), got, want)
			}
		}
	}
	return fail
}

var reCT = &reKind{
	name:  "ct",
	sites: []string{"cond", "csub", "insub-pre", "insub"},
	acts:  []string{"get-c", "get-in", "set-in", "set-other-in", "set-c", "monitor"},
	act: func(r *vx.Rng, k string) reAct {
		return reAct{K: k, A: r.Intn(3), B: r.Intn(5) - 1}
	},
	gen: func(r *vx.Rng, sc *reScenario) {
		n := 2 + r.Intn(2)
		sc.Ins0 = make([]int, n)
		for i := range sc.Ins0 {
			if r.Bool() {
				sc.Ins0[i] = r.Intn(5) - 1
			}
		}
		sc.P = []int{r.Intn(3), r.Intn(n), 1 + r.Intn(7)}
		for k := 3 + r.Intn(6); k > 0; k-- {
			if r.Chance(4, 5) {
				i := r.Intn(n)
				if r.Chance(1, 2) {
					i = sc.P[1]
				}
				sc.CT = append(sc.CT, ctOp{K: "in", I: i, V: r.Intn(5) - 1})
			} else {
				sc.CT = append(sc.CT, ctOp{K: "monitor", I: r.Intn(n)})
			}
		}
	},
	run: reRunCT,
}

// ---------------------------------------------------------------------------------------------------------------
// (4) SortedSet
// ---------------------------------------------------------------------------------------------------------------

func reRunSS(sc *reScenario, p *reProgress) string {
	tb := sc.P[0] == 1
	var u *sortedSetUnderTest
	if tb {
		u = newSSUT[lel](true)
	} else {
		u = newSSUT[int](false)
	}
	fail := ""
	note := func(s string, a ...any) {
		if fail == "" {
			fail = fmt.Sprintf("call %d: ", p.op.Load()) + fmt.Sprintf(s, a...)
		}
	}
	writes := hasWrites(sc.Acts)
	depth := 0
	script := func(site string, newv int) {
		if site != sc.Site || depth > 0 {
			return
		}
		depth++
		defer func() { depth--; p.at("", "") }()
		p.ran.Add(1)
		for _, a := range sc.Acts {
			p.at(site, a.String())
			e := 1 + a.A%ssUniverse
			switch a.K {
			case "asc":
				_ = u.ascending()
			case "desc":
				_ = u.descending()
			case "judge":
				// the whole sorted view, read from inside the callback, is consistent with the current weights
				if why := judgeSorted(u, tb); why != "" && !writes {
					note("read from a %s callback: %s", site, why)
				}
			case "get-h":
				if got := u.heaviest(); !writes && site == "hsub" && got != newv {
					note("HeaviestElement subscriber notified of %d reads Get() = %d", newv, got)
				}
			case "get-l":
				if got := u.lightest(); !writes && site == "lsub" && got != newv {
					note("LightestElement subscriber notified of %d reads Get() = %d", newv, got)
				}
			case "slice":
				_ = u.base()
				_ = u.has(e)
			case "get-w":
				_ = u.weight(e)
			case "set-w":
				u.setWeight(e, a.B)
			case "set-other-w":
				// a subscriber of one element's weight writes the weight of ANOTHER element
				if newv > 0 {
					u.setWeight(1+(newv+a.A%(ssUniverse-1))%ssUniverse, a.B)
				}
			case "add":
				u.apply(setOp{K: "add", E: e})
			case "del":
				u.apply(setOp{K: "delete", E: e})
			}
		}
	}
	if sc.Site == "wsub-pre" {
		for e := 1; e <= ssUniverse; e++ {
			e := e
			u.onWeight(e, func() { script("wsub-pre", e) })
		}
	}
	for e := 1; e <= ssUniverse; e++ {
		if w := sc.Ins0[e-1]; w != 0 {
			u.setWeight(e, w)
		}
	}
	u.apply(setOp{K: "addall", Es: []int{1, 2, 3}})
	switch sc.Site {
	case "hsub":
		u.onHeaviest(func(n int) { script("hsub", n) })
	case "lsub":
		u.onLightest(func(n int) { script("lsub", n) })
	case "ssub":
		u.onSet(func() { script("ssub", 0) })
	case "wsub":
		for e := 1; e <= ssUniverse; e++ {
			e := e
			u.onWeight(e, func() { script("wsub", e) })
		}
	}
	for k, o := range sc.SS {
		p.op.Store(int32(k))
		if o.K == "set" {
			u.apply(*o.O)
		} else {
			u.setWeight(o.E, o.V)
		}
		if why := judgeSorted(u, tb); why != "" {
			note("after %s: %s", o.coq(), why)
		}
	}
	return fail
}

var reSS = &reKind{
	name:  "ss",
	sites: []string{"hsub", "lsub", "ssub", "wsub-pre", "wsub"},
	acts:  []string{"asc", "desc", "judge", "get-h", "get-l", "slice", "get-w", "set-w", "set-other-w", "add", "del"},
	act: func(r *vx.Rng, k string) reAct {
		return reAct{K: k, A: r.Intn(ssUniverse), B: r.Intn(5) - 1}
	},
	gen: func(r *vx.Rng, sc *reScenario) {
		g0 := &gen{r: r}
		sc.P = []int{r.Intn(2)}
		sc.Ins0 = make([]int, ssUniverse)
		for i := range sc.Ins0 {
			if r.Bool() {
				sc.Ins0[i] = r.Intn(5) - 1
			}
		}
		for k := 4 + r.Intn(7); k > 0; k-- {
			if r.Chance(2, 5) {
				o := g0.randSetOp(r, ssUniverse)
				sc.SS = append(sc.SS, sop(o))
			} else {
				sc.SS = append(sc.SS, ssOp{K: "weight", E: 1 + r.Intn(ssUniverse), V: r.Intn(5) - 1})
			}
		}
	},
	run: reRunSS,
}

// ---------------------------------------------------------------------------------------------------------------
// (5) WaitGroup
// ---------------------------------------------------------------------------------------------------------------

func reRunWG(sc *reScenario, p *reProgress) string {
	w := reactive.NewWaitGroup[int]()
	fail := ""
	note := func(s string, a ...any) {
		if fail == "" {
			fail = fmt.Sprintf("call %d: ", p.op.Load()) + fmt.Sprintf(s, a...)
		}
	}
	// reference: the pending set; the group triggers when a Done removes the last pending element; the OnTrigger
	// handler runs once, at that moment, and its scripted Add/Done act on the same set
	ref := map[int]bool{}
	refTrig := false
	var refApply func(k string, es []int)
	refApply = func(k string, es []int) {
		for _, e := range es {
			if k == "add" {
				ref[e] = true
			} else if ref[e] {
				delete(ref, e)
				if len(ref) == 0 && !refTrig {
					refTrig = true
					if sc.Site == "trig" {
						for _, a := range sc.Acts {
							if a.K == "add" || a.K == "done" {
								refApply(a.K, a.Es)
							}
						}
					}
				}
			}
		}
	}
	fired := 0
	depth := 0
	script := func(site string) {
		if site != sc.Site || depth > 0 {
			return
		}
		depth++
		defer func() { depth--; p.at("", "") }()
		p.ran.Add(1)
		wrote := false
		for _, a := range sc.Acts {
			p.at(site, a.String())
			switch a.K {
			case "pending":
				got := w.PendingElements().ToSlice()
				if site == "trig" && !wrote && len(got) != 0 {
					note("OnTrigger handler runs while %v is pending", got)
				}
			case "was":
				if got := w.WasTriggered(); site == "trig" && !got {
					note("OnTrigger handler reads WasTriggered() = false")
				}
			case "add":
				w.Add(a.Es...)
				wrote = true
			case "done":
				w.Done(a.Es...)
				wrote = true
			}
		}
	}
	if sc.Site == "trig" {
		w.OnTrigger(func() { fired++; script("trig") })
	} else {
		w.OnTrigger(func() { fired++ })
		w.PendingElements().OnUpdate(func(ds.SetMutations[int]) { script("psub") })
	}
	for k, o := range sc.WG {
		p.op.Store(int32(k))
		if o.K == "add" {
			w.Add(o.Es...)
		} else {
			w.Done(o.Es...)
		}
		refApply(o.K, o.Es)
		got := sortedCopy(w.PendingElements().ToSlice())
		want := []int{}
		for e := range ref {
			want = append(want, e)
		}
		sort.Ints(want)
		wantFired := 0
		if refTrig {
			wantFired = 1
		}
		if !eqInts(got, want) || w.WasTriggered() != refTrig || fired != wantFired {
			note("after %s: pending=%v triggered=%v handler calls=%d; expected pending=%v triggered=%v (a Done removed the last pending element: %v)", o.coq(), got, w.WasTriggered(), fired, want, refTrig, refTrig)
		}
	}
	return fail
}

var reWG = &reKind{
	name:  "wg",
	sites: []string{"trig", "psub"},
	acts:  []string{"pending", "was", "add", "done"},
	act: func(r *vx.Rng, k string) reAct {
		es := make([]int, 1+r.Intn(2))
		for i := range es {
			es[i] = 1 + r.Intn(4)
		}
		return reAct{K: k, Es: es}
	},
	gen: func(r *vx.Rng, sc *reScenario) {
		n := 3 + r.Intn(6)
		for len(sc.WG) < n {
			es := make([]int, 1+r.Intn(3))
			for i := range es {
				es[i] = 1 + r.Intn(4)
			}
			if r.Chance(25*len(sc.WG)+10, 100) {
				sc.WG = append(sc.WG, wgOp{"done", es})
			} else {
				sc.WG = append(sc.WG, wgOp{"add", es})
			}
		}
		// make the trigger likely: finish with a Done of everything
		if r.Chance(2, 3) {
			sc.WG = append(sc.WG, wgOp{"done", []int{1, 2, 3, 4}})
			sc.WG = append(sc.WG, wgOp{"add", []int{1 + r.Intn(4)}})
			sc.WG = append(sc.WG, wgOp{"done", []int{1, 2, 3, 4}})
		}
	},
	run: reRunWG,
	// unchanged code: Event.Trigger = Set(true) takes the event's updateOrderMutex even when the event is already
	// triggered, so an OnTrigger handler that re-fills the group and empties it again (Add(x); Done(x)) re-enters
	// Trigger on the event that is notifying and parks. A Done in the handler is demanded only when no Add precedes it
	// (the group is empty when the handler starts, such a Done removes nothing).
	okNext: func(site string, acts []reAct, k string) bool {
		if site != "trig" || k != "done" {
			return true
		}
		for _, a := range acts {
			if a.K == "add" {
				return false
			}
		}
		return true
	},
}

// ---------------------------------------------------------------------------------------------------------------
// (6) EvictionState: tree-shaped handler scripts, replayed on the model EVR
// ---------------------------------------------------------------------------------------------------------------

type evrAct struct {
	K string   `json:"k"`           // last mark event evict
	S int      `json:"s,omitempty"` // slot (absolute) / mark number
	H []evrAct `json:"h,omitempty"` // handler registered on the event with OnTrigger
}

func (a evrAct) coq() string {
	switch a.K {
	case "last":
		return "EVR.ALast"
	case "mark":
		return "(EVR.AMark " + vx.N(uint64(a.S)) + ")"
	case "evict":
		return "(EVR.AEvict " + vx.N(uint64(a.S)) + ")"
	}
	if len(a.H) == 0 {
		return "(EVR.AEvent " + vx.N(uint64(a.S)) + " [])"
	}
	return "(EVR.AEvent " + vx.N(uint64(a.S)) + " " + vx.ListOf(a.H, evrAct.coq) + ")"
}

func (a evrAct) size() int {
	n := 1
	for _, b := range a.H {
		n += b.size()
	}
	return n
}

func (a evrAct) nested() (depth int, reads, evicts, events int) {
	for _, b := range a.H {
		d, r, e, v := b.nested()
		if d+1 > depth {
			depth = d + 1
		}
		reads, evicts, events = reads+r, evicts+e, events+v
		switch b.K {
		case "last":
			reads++
		case "evict":
			evicts++
		case "event":
			events++
		}
	}
	return
}

// evrExec runs the history; obs = per top-level call (last, triggered per handle in hand-out order, log of the values
// read / marks written by handlers so far).
func evrExec(h []evrAct, p *reProgress) (obs []string, fail string) {
	e := reactive.NewEvictionState[uint32]()
	type handle struct {
		slot  int
		ev    reactive.Event
		fired int
	}
	var hs []*handle
	var log []int
	evicted := false
	note := func(s string, a ...any) {
		if fail == "" {
			fail = fmt.Sprintf("call %d: ", p.op.Load()) + fmt.Sprintf(s, a...)
		}
	}
	var do func(a evrAct, ctx int)
	do = func(a evrAct, ctx int) {
		if ctx >= 0 {
			p.at(fmt.Sprintf("handler of the eviction event of slot %d", ctx), fmt.Sprintf("%s(%d)", a.K, a.S))
			p.ran.Add(1)
		}
		switch a.K {
		case "last":
			v := int(e.LastEvictedSlot())
			log = append(log, v)
			if ctx >= 0 && v < ctx {
				note("handler of the eviction event of slot %d reads LastEvictedSlot() = %d", ctx, v)
			}
		case "mark":
			log = append(log, 100+a.S)
		case "event":
			ev := e.EvictionEvent(uint32(a.S))
			hd := &handle{slot: a.S, ev: ev}
			hs = append(hs, hd)
			ev.OnTrigger(func() {
				hd.fired++
				for _, b := range a.H {
					do(b, a.S)
				}
			})
		case "evict":
			evicted = true
			e.Evict(uint32(a.S))
		}
		if ctx >= 0 {
			p.at("", "")
		}
	}
	for k, a := range h {
		p.op.Store(int32(k))
		do(a, -1)
		last := int(e.LastEvictedSlot())
		tr := make([]string, len(hs))
		for i, x := range hs {
			t := x.ev.WasTriggered()
			tr[i] = vx.Bool(t)
			// the property: triggered exactly the events of slots up to the last evicted slot (a nested Evict counts)
			want := evicted && x.slot <= last
			wantFired := 0
			if t {
				wantFired = 1
			}
			if t != want || x.fired != wantFired {
				note("after %s: event handed out for slot %d: triggered=%v handler calls=%d, last evicted slot=%d (evicted anything: %v)", a.coq(), x.slot, t, x.fired, last, evicted)
			}
		}
		bl := "([]:list bool)"
		if len(tr) > 0 {
			bl = vx.List(tr)
		}
		obs = append(obs, "("+vx.N(uint64(last))+", "+bl+", "+nList(log)+")")
	}
	return obs, fail
}

func evrScript(r *vx.Rng, slot, depth int) []evrAct {
	n := 1 + r.Intn(3)
	out := make([]evrAct, 0, n)
	cl := func(s int) int {
		if s < 0 {
			return 0
		}
		if s > 14 {
			return 14
		}
		return s
	}
	for len(out) < n {
		x := r.Intn(100)
		switch {
		case x < 35:
			out = append(out, evrAct{K: "last"})
		case x < 45:
			out = append(out, evrAct{K: "mark", S: r.Intn(8)})
		case x < 75:
			if depth > 0 {
				s := cl(slot - 1 + r.Intn(4))
				out = append(out, evrAct{K: "event", S: s, H: evrScript(r, s, depth-1)})
			}
		default:
			out = append(out, evrAct{K: "evict", S: cl(slot - 1 + r.Intn(4))})
		}
	}
	return out
}

func evrRandom(r *vx.Rng) []evrAct {
	n := 3 + r.Intn(8)
	h := make([]evrAct, 0, n)
	hi := 1
	for len(h) < n {
		s := hi - 1 + r.Intn(5)
		if s < 0 {
			s = 0
		}
		if s > 12 {
			s = r.Intn(13)
		}
		x := r.Intn(100)
		switch {
		case x < 55:
			a := evrAct{K: "event", S: s}
			if r.Chance(4, 5) {
				a.H = evrScript(r, s, 1+r.Intn(2))
			}
			h = append(h, a)
		case x < 62:
			h = append(h, evrAct{K: "last"})
		default:
			h = append(h, evrAct{K: "evict", S: s})
			if s > hi {
				hi = s
			}
		}
	}
	return h
}

// the slot-by-slot clean-up pattern: the handler of slot k reads the frontier and re-arms itself for slot k+1
func evrChain(from, to int, withLast bool) evrAct {
	a := evrAct{K: "event", S: from}
	if withLast {
		a.H = append(a.H, evrAct{K: "last"})
	}
	a.H = append(a.H, evrAct{K: "mark", S: from % 8})
	if from < to {
		a.H = append(a.H, evrChain(from+1, to, withLast))
	}
	return a
}

func evrDirected() [][]evrAct {
	return [][]evrAct{
		{evrChain(1, 6, true), {K: "event", S: 7}, {K: "evict", S: 0}, {K: "evict", S: 3}, {K: "last"}, {K: "evict", S: 9}},
		// a handler that evicts further while the outer Evict still has collected events to trigger
		{{K: "event", S: 1, H: []evrAct{{K: "evict", S: 4}, {K: "last"}}}, {K: "event", S: 2, H: []evrAct{{K: "last"}, {K: "mark", S: 2}}},
			{K: "event", S: 4, H: []evrAct{{K: "mark", S: 4}, {K: "event", S: 2, H: []evrAct{{K: "mark", S: 5}}}, {K: "event", S: 6, H: []evrAct{{K: "last"}}}}},
			{K: "evict", S: 2}, {K: "evict", S: 6}},
		// handlers on the pre-triggered event of an evicted slot run inside EvictionEvent(...).OnTrigger
		{{K: "evict", S: 3}, {K: "event", S: 2, H: []evrAct{{K: "last"}, {K: "evict", S: 5}, {K: "event", S: 5, H: []evrAct{{K: "last"}}}, {K: "event", S: 6, H: []evrAct{{K: "last"}}}}}, {K: "evict", S: 6}},
		// two handlers on the same stored event, a stale nested eviction, a nested eviction of slot 0
		{{K: "event", S: 0, H: []evrAct{{K: "mark", S: 1}, {K: "evict", S: 0}}}, {K: "event", S: 0, H: []evrAct{{K: "last"}, {K: "evict", S: 1}}}, {K: "event", S: 1, H: []evrAct{{K: "mark", S: 3}}}, {K: "evict", S: 0}},
	}
}

func reEV(g *gen, h []evrAct, tag string) {
	sc := &reScenario{Kind: "ev", Site: "handler", EV: h}
	if reFailures["ev"] >= reMaxFailures {
		g.st.Count("reent:skipped-after-failures:ev")
		return
	}
	var obs []string
	outcome, fail, p := reGuard(func(p *reProgress) string {
		var f string
		obs, f = evrExec(h, p)
		return f
	})
	depth, reads, evicts, events := 0, 0, 0, 0
	for _, a := range h {
		d, r, e, v := a.nested()
		if d > depth {
			depth = d
		}
		reads, evicts, events = reads+r, evicts+e, events+v
	}
	g.st.Count("reent:ev:" + tag)
	g.st.Count(fmt.Sprintf("reent:ev:handler-depth%d", depth))
	if reads > 0 {
		g.st.Count("reent:ev:handler/LastEvictedSlot")
	}
	if evicts > 0 {
		g.st.Count("reent:ev:handler/Evict")
	}
	if events > 0 {
		g.st.Count("reent:ev:handler/EvictionEvent+OnTrigger")
	}
	idx := map[string]any{"kind": "reent-ev", "tag": tag, "scenario": sc}
	if outcome != "ok" || fail != "" {
		reFailures["ev"]++
	}
	if outcome != "ok" {
		// no cases entry: the history never completed
		g.st.Case("reent:"+sc.key(), false)
		g.st.Fail(map[string]any{"sig": "", "kind": "reentrant-callback-deadlock", "scenario": sc, "outcome": outcome,
			"why": fmt.Sprintf("EvictionState: top-level call %d (%s) never returned: %s, goroutine %s; nobody else uses the object", p.op.Load(), h[p.op.Load()].coq(), p.in.Load(), outcome)})
		return
	}
	key := make([]string, len(h))
	for i, a := range h {
		key[i] = a.coq()
	}
	term := fmt.Sprintf("CEVR %s %s", vx.ListOf(h, evrAct.coq), vx.List(obs))
	g.cf.Add(term)
	g.st.Count("case:evr")
	g.st.Case("reent:"+sc.key(), p.ran.Load() >= 2)
	g.st.CaseIndex = append(g.st.CaseIndex, idx)
	g.st.Sample(map[string]any{"kind": "reent-ev", "history": key, "observed(last,triggered per handle,handler log)": obs}, 1)
	if fail != "" {
		g.st.Fail(map[string]any{"sig": "", "kind": "reentrant-callback-value", "scenario": sc, "why": "EvictionState: " + fail})
	}
}

// ---------------------------------------------------------------------------------------------------------------
// driver
// ---------------------------------------------------------------------------------------------------------------

var reKinds = []*reKind{reDV, reSN, reCT, reSS, reWG}

func (k *reKind) allowed(site string) []string {
	out := []string{}
	for _, a := range k.acts {
		if _, b := reBlocked[blockedKey(k.name, site, a)]; !b {
			out = append(out, a)
		}
	}
	return out
}

var reFailures = map[string]int{}

// after a few reported failures of a kind the rest of its scenarios is skipped (every hang leaks a goroutine)
const reMaxFailures = 3

func reOne(st *vx.Stats, k *reKind, sc *reScenario, demanded bool) (outcome string) {
	if reFailures[k.name] >= reMaxFailures {
		st.Count("reent:skipped-after-failures:" + k.name)
		return "skipped"
	}
	outcome, fail, p := reGuard(func(p *reProgress) string { return k.run(sc, p) })
	for _, a := range sc.Acts {
		st.Count("reent:" + blockedKey(k.name, sc.Site, a.K))
	}
	if !demanded {
		return outcome
	}
	st.Case("reent:"+sc.key(), p.ran.Load() >= 1)
	if outcome != "ok" || fail != "" {
		reFailures[k.name]++
	}
	if outcome != "ok" {
		st.Fail(map[string]any{"sig": "", "kind": "reentrant-callback-deadlock", "scenario": sc, "outcome": outcome,
			"why": fmt.Sprintf("%s: top-level call %d never returned: the %s callback's scripted call %v is parked, goroutine %s; nobody else uses the objects (the same scripted call completes on the unchanged code)", k.name, p.op.Load(), sc.Site, p.in.Load(), outcome)})
	} else if fail != "" {
		st.Fail(map[string]any{"sig": "", "kind": "reentrant-callback-value", "scenario": sc, "why": k.name + ": " + fail})
	}
	return outcome
}

// sigSortedSetExtremeSubscriber: listed known finding (KNOWN_FINDINGS.txt), reproduced by a directed scenario.
const sigSortedSetExtremeSubscriber = "sortedset-extreme-subscriber-reads-sorted-view"

func reentAll(g *gen, n int) {
	st, r := g.st, g.r
	// known finding, directed: SortedSet{1,2,3} with equal weights, a HeaviestElement subscriber that reads Ascending();
	// weight(2).Set(3) makes 2 the heaviest: heaviestElement.Set runs under sortedSet.mutex (write), the subscriber
	// read-locks it again
	{
		sc := &reScenario{Kind: "ss", Site: "hsub", Acts: []reAct{{K: "asc"}}, P: []int{0}, Ins0: make([]int, ssUniverse),
			SS: []ssOp{{K: "weight", E: 2, V: 3}}}
		outcome, _, _ := reGuard(func(p *reProgress) string { return reRunSS(sc, p) })
		st.Count("reent:directed-known-finding:" + outcome)
		if outcome != "ok" {
			st.Known = append(st.Known, sigSortedSetExtremeSubscriber)
		}
	}
	// EvictionState: directed + random tree scripts (correspondence cases)
	for _, h := range evrDirected() {
		reEV(g, h, "directed")
	}
	for i := 0; i < 2*n; i++ {
		reEV(g, evrRandom(r.Fork()), "random")
	}
	for _, k := range reKinds {
		// every demanded (site, scripted call) pair on its own, then random scripts of 1-3 calls
		for _, site := range k.sites {
			for _, a := range k.allowed(site) {
				for rep := 0; rep < 2; rep++ {
					rr := r.Fork()
					sc := &reScenario{Kind: k.name, Site: site, Acts: []reAct{k.act(rr, a)}}
					k.gen(rr, sc)
					reOne(st, k, sc, true)
				}
			}
		}
		for i := 0; i < n; i++ {
			rr := r.Fork()
			site := vx.Pick(rr, k.sites)
			al := k.allowed(site)
			if len(al) == 0 {
				continue
			}
			sc := &reScenario{Kind: k.name, Site: site}
			for j := 1 + rr.Intn(3); j > 0; j-- {
				if a := vx.Pick(rr, al); k.okNext == nil || k.okNext(site, sc.Acts, a) {
					sc.Acts = append(sc.Acts, k.act(rr, a))
				}
			}
			if len(sc.Acts) == 0 {
				continue
			}
			k.gen(rr, sc)
			reOne(st, k, sc, true)
		}
		if k.name == "wg" {
			sc := &reScenario{Kind: "wg", Site: "trig", Acts: []reAct{{K: "add", Es: []int{1}}, {K: "done", Es: []int{1}}},
				WG: []wgOp{{"add", []int{2}}, {"done", []int{2}}}}
			if out := reOne(st, k, sc, false); out != "skipped" {
				if out != "ok" {
					out = "parks"
				}
				st.Count("reent-observed-not-demanded:wg/trig/done-after-add:" + out)
			}
		}
		// observations: the pairs that park on the unchanged code, once each
		keys := []string{}
		for key := range reBlocked {
			if strings.HasPrefix(key, k.name+"/") {
				keys = append(keys, key)
			}
		}
		sort.Strings(keys)
		for _, key := range keys {
			parts := strings.Split(key, "/")
			rr := r.Fork()
			sc := &reScenario{Kind: k.name, Site: parts[1], Acts: []reAct{k.act(rr, parts[2])}}
			k.gen(rr, sc)
			out := reOne(st, k, sc, false)
			if out == "skipped" {
				continue
			}
			if out != "ok" {
				out = "parks"
			}
			st.Count("reent-observed-not-demanded:" + key + ":" + out)
		}
	}
}

// reentProbe prints, for every (kind, site, scripted call), how many of `reps` random scenarios completed: the table
// behind reBlocked.
func reentProbe(r *vx.Rng, reps int) {
	for _, k := range reKinds {
		for _, site := range k.sites {
			for _, a := range k.acts {
				if only := os.Getenv("REENT_ONLY"); only != "" && !strings.HasPrefix(blockedKey(k.name, site, a), only) {
					continue
				}
				okN, ranN, failN := 0, 0, 0
				outs := map[string]int{}
				firstFail := ""
				for rep := 0; rep < reps; rep++ {
					rr := r.Fork()
					sc := &reScenario{Kind: k.name, Site: site, Acts: []reAct{k.act(rr, a)}}
					k.gen(rr, sc)
					outcome, fail, p := reGuard(func(p *reProgress) string { return k.run(sc, p) })
					if outcome == "ok" {
						okN++
					} else {
						outs[outcome+" in "+fmt.Sprint(p.in.Load())]++
					}
					if p.ran.Load() > 0 {
						ranN++
					}
					if fail != "" {
						failN++
						if firstFail == "" {
							firstFail = fail
						}
					}
				}
				ws := map[string]bool{}
				for o := range outs {
					ws[o[:strings.Index(o, "]")+1]] = true
				}
				wl := []string{}
				for o := range ws {
					wl = append(wl, o)
				}
				sort.Strings(wl)
				fmt.Printf("%-28s completed %2d/%2d script-ran %2d oracle-failures %2d %v %s\n", blockedKey(k.name, site, a), okN, reps, ranN, failN, wl, firstFail)
			}
		}
	}
}
