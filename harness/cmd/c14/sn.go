package main

import (
	"fmt"

	"github.com/iotaledger/hive.go/ds"
	"github.com/iotaledger/hive.go/ds/reactive"

	"verif/harness/vx"
)

// setOp is one call on a reactive Set.
type setOp struct {
	K  string `json:"k"` // add delete addall deleteall apply replace
	E  int    `json:"e,omitempty"`
	Es []int  `json:"es,omitempty"`
	Ds []int  `json:"ds,omitempty"`
}

func (o setOp) coq() string {
	switch o.K {
	case "add":
		return "(SAdd " + vx.N(uint64(o.E)) + ")"
	case "delete":
		return "(SDelete " + vx.N(uint64(o.E)) + ")"
	case "addall":
		return "(SAddAll " + nList(o.Es) + ")"
	case "deleteall":
		return "(SDeleteAll " + nList(o.Es) + ")"
	case "apply":
		return "(SApply " + nList(o.Es) + " " + nList(o.Ds) + ")"
	}
	return "(SReplace " + nList(o.Es) + ")"
}

func applySetOp(s reactive.Set[int], o setOp) {
	switch o.K {
	case "add":
		s.Add(o.E)
	case "delete":
		s.Delete(o.E)
	case "addall":
		s.AddAll(ds.NewSet(o.Es...))
	case "deleteall":
		s.DeleteAll(ds.NewSet(o.Es...))
	case "apply":
		s.Apply(ds.NewSetMutations[int]().WithAddedElements(ds.NewSet(o.Es...)).WithDeletedElements(ds.NewSet(o.Ds...)))
	case "replace":
		s.Replace(ds.NewSet(o.Es...))
	}
}

func (g *gen) randSetOp(r *vx.Rng, universe int) setOp {
	k := r.Intn(100)
	sub := func(max int) []int {
		n := r.Intn(max + 1)
		xs := make([]int, n)
		for i := range xs {
			xs[i] = 1 + r.Intn(universe)
		}
		return dedup(xs)
	}
	switch {
	case k < 30:
		return setOp{K: "add", E: 1 + r.Intn(universe)}
	case k < 55:
		return setOp{K: "delete", E: 1 + r.Intn(universe)}
	case k < 63:
		return setOp{K: "addall", Es: sub(3)}
	case k < 71:
		return setOp{K: "deleteall", Es: sub(3)}
	case k < 85:
		return setOp{K: "apply", Es: sub(3), Ds: sub(3)}
	}
	return setOp{K: "replace", Es: sub(4)}
}

type snOp struct {
	K  string `json:"k"` // base inherit unsub direct mksub
	I  int    `json:"i,omitempty"`
	O  *setOp `json:"o,omitempty"`
	Os []int  `json:"others,omitempty"`
}

func (o snOp) coq() string {
	switch o.K {
	case "base":
		return fmt.Sprintf("SN.OBase %s %s", vx.Nat(o.I), o.O.coq())
	case "inherit":
		return "SN.OInherit " + vx.Nat(o.I)
	case "unsub":
		return "SN.OUnsub " + vx.Nat(o.I)
	case "direct":
		return "SN.ODirect " + o.O.coq()
	}
	return fmt.Sprintf("SN.OMkSub %s %s", vx.Nat(o.I), natList(o.Os))
}

func optNList(present bool, xs []int) string {
	if !present {
		return "None"
	}
	return "(Some " + nList(xs) + ")"
}

func snRun(g *gen, bs0 [][]int, h []snOp, tag string) {
	bases := make([]reactive.Set[int], len(bs0))
	for i, b := range bs0 {
		bases[i] = reactive.NewSet(b...)
	}
	d := reactive.NewDerivedSet[int]()
	var r reactive.Set[int]
	var rsrc int
	var roth []int
	type subT struct {
		src    int
		unsub  func()
		active bool
		calls  int
	}
	var subs []*subT
	ddirty, doubleUnsub := false, false
	obs := make([]string, 0, len(h))
	changes := 0
	lastD := ""
	fail := ""
	for k, o := range h {
		switch o.K {
		case "base":
			if o.I < len(bases) {
				applySetOp(bases[o.I], *o.O)
			}
		case "inherit":
			if o.I < len(bases) {
				subs = append(subs, &subT{src: o.I, unsub: d.InheritFrom(bases[o.I]), active: true})
			}
		case "unsub":
			if o.I < len(subs) {
				s := subs[o.I]
				s.unsub()
				s.active = false
				s.calls++
				if s.calls > 1 {
					doubleUnsub = true
				}
			}
		case "direct":
			applySetOp(d, *o.O)
			ddirty = true
		case "mksub":
			if o.I < len(bases) {
				others := []reactive.ReadableSet[int]{}
				roth = nil
				for _, x := range o.Os {
					if x < len(bases) {
						others = append(others, bases[x])
						roth = append(roth, x)
					}
				}
				r = bases[o.I].SubtractReactive(others...)
				rsrc = o.I
			}
		}
		bt := make([]string, len(bases))
		for i, b := range bases {
			bt[i] = nList(b.ToSlice())
		}
		dv := d.ToSlice()
		var rv []int
		if r != nil {
			rv = r.ToSlice()
		}
		obs = append(obs, "("+vx.List(bt)+", "+nList(dv)+", "+optNList(r != nil, rv)+")")
		if s := fmt.Sprint(dv); s != lastD {
			changes++
			lastD = s
		}
		// oracle: union of the sources of the active subscriptions / source minus others
		if !ddirty && !doubleUnsub && fail == "" {
			want := map[int]bool{}
			for _, s := range subs {
				if s.active {
					for _, e := range bases[s.src].ToSlice() {
						want[e] = true
					}
				}
			}
			ok := len(want) == len(dv)
			for _, e := range dv {
				ok = ok && want[e]
			}
			if !ok {
				fail = fmt.Sprintf("after op %d: derived set %v is not the union of its current sources %v", k, sortedCopy(dv), want)
			}
		}
		if r != nil && fail == "" {
			want := map[int]bool{}
			for _, e := range bases[rsrc].ToSlice() {
				want[e] = true
			}
			for _, x := range roth {
				for _, e := range bases[x].ToSlice() {
					delete(want, e)
				}
			}
			ok := len(want) == len(rv)
			for _, e := range rv {
				ok = ok && want[e]
			}
			if !ok {
				fail = fmt.Sprintf("after op %d: SubtractReactive result %v is not source minus others %v", k, sortedCopy(rv), want)
			}
		}
	}
	key := make([]string, len(h))
	for i, o := range h {
		key[i] = o.coq()
		g.st.Count("sn:" + o.K)
		if o.O != nil {
			g.st.Count("sn:set:" + o.O.K)
		}
	}
	bt := make([]string, len(bs0))
	for i, b := range bs0 {
		bt[i] = nList(b)
	}
	term := fmt.Sprintf("CSN %s %s %s", vx.List(bt), vx.ListOf(h, snOp.coq), vx.List(obs))
	idx := map[string]any{"kind": "sn", "tag": tag, "bases0": bs0, "history": h}
	g.emit("sn", term, append([]string{fmt.Sprint(bs0)}, key...), changes >= 3, idx)
	g.st.Sample(map[string]any{"kind": "sn", "history": key, "observed(bases,derived,subtract)": obs}, 2)
	if fail != "" {
		g.st.Fail(map[string]any{"sig": "", "case": idx, "why": fail})
	}
}

func bop(i int, o setOp) snOp { return snOp{K: "base", I: i, O: &o} }

func snDirected(g *gen) {
	// D13 regression (repaired): Replace on a source of a DerivedSet, overlapping sources, re-adding, unsubscribing
	snRun(g, [][]int{{1, 2}, {2}, {}}, []snOp{
		{K: "inherit", I: 0}, {K: "inherit", I: 1}, bop(0, setOp{K: "replace", Es: []int{2, 3}}),
		bop(1, setOp{K: "delete", E: 2}), bop(0, setOp{K: "delete", E: 2}), bop(0, setOp{K: "add", E: 2}),
		{K: "unsub", I: 0}, bop(0, setOp{K: "add", E: 4}), bop(1, setOp{K: "add", E: 5}), {K: "unsub", I: 1},
	}, "directed")
	// an element added and deleted by the same Apply; empty Replace; SubtractReactive with a repeated other
	snRun(g, [][]int{{1, 2, 3}, {3}, {1}}, []snOp{
		{K: "mksub", I: 0, Os: []int{1, 2, 1}}, {K: "inherit", I: 0}, bop(0, setOp{K: "apply", Es: []int{4, 5}, Ds: []int{4, 1}}),
		bop(1, setOp{K: "replace", Es: []int{}}), bop(2, setOp{K: "replace", Es: []int{2, 1}}), bop(0, setOp{K: "replace", Es: []int{3, 2, 1}}),
		bop(2, setOp{K: "deleteall", Es: []int{1, 2}}),
	}, "directed")
	// the same source inherited twice, unsubscribed twice (outside the theorem's guard; the model mirrors the code)
	snRun(g, [][]int{{1}, {1, 2}, {}}, []snOp{
		{K: "inherit", I: 0}, {K: "inherit", I: 0}, {K: "inherit", I: 1}, {K: "unsub", I: 0}, {K: "unsub", I: 0}, {K: "unsub", I: 0},
		bop(1, setOp{K: "delete", E: 1}), bop(1, setOp{K: "add", E: 1}),
	}, "directed")
}

func snRandom(g *gen, n int) {
	r := g.r.Fork()
	univ := 4 + r.Intn(2)
	bs0 := make([][]int, 3)
	for i := range bs0 {
		bs0[i] = []int{}
		if r.Chance(1, 2) {
			for k := r.Intn(3); k > 0; k-- {
				bs0[i] = dedup(append(bs0[i], 1+r.Intn(univ)))
			}
		}
	}
	wild := r.Chance(1, 5) // direct writes / double unsubscribe allowed (outside the guard, model still mirrors)
	h := make([]snOp, 0, n)
	nsubs := 0
	unsubbed := map[int]bool{}
	for len(h) < n {
		k := r.Intn(100)
		switch {
		case k < 60:
			o := g.randSetOp(r, univ)
			h = append(h, bop(r.Intn(3), o))
		case k < 76:
			h = append(h, snOp{K: "inherit", I: r.Intn(3)})
			nsubs++
		case k < 86:
			if nsubs > 0 {
				j := r.Intn(nsubs)
				if !unsubbed[j] || wild {
					h = append(h, snOp{K: "unsub", I: j})
					unsubbed[j] = true
				}
			}
		case k < 90:
			if wild {
				o := g.randSetOp(r, univ)
				h = append(h, snOp{K: "direct", O: &o})
			}
		default:
			no := r.Intn(3)
			os := make([]int, no)
			for i := range os {
				os[i] = r.Intn(3)
			}
			h = append(h, snOp{K: "mksub", I: r.Intn(3), Os: os})
		}
	}
	snRun(g, bs0, h, "random")
}
