package main

// Forced schedules for DerivedVariable2..4 (+ an inheriting variable, optionally inputs that themselves inherit from a
// source): writers on different (and the same) inputs are held at every boundary at which code supplied by the caller
// runs inside a write - the Get of another input (before / after the read), the compute function, subscribers of the
// changed input registered before / after the derived variable, subscribers of the derived and of the inheriting
// variable.  While writer A is held, writer B is started and runs until it has returned or is parked on a lock
// (observed through the goroutine's wait state, so no timing is involved); B may be held at a boundary of its own and the
// two are released in either order; a third writer may join.  Judged after all writers returned by the property itself:
// derived == compute(current inputs), inheriting == derived.  No hook in /repo is needed: the inputs are
// ReadableVariables of the harness (a Variable whose Get reports to the scenario), compute and all subscribers are ours.
//
// For two inputs the schedule that was forced is also written as a schedule of the interleaving model
// (coq/C14_Derived/ModelDVI.v) and the model's final state compared with the observed one (case CDVI).

import (
	"fmt"
	"runtime"
	"strconv"
	"strings"
	"sync/atomic"
	"time"

	"github.com/iotaledger/hive.go/ds/reactive"

	"verif/harness/vx"
)

// boundary kinds
const (
	kInPre   = iota // subscriber of the written input registered before the derived variable: after the input changed, before the recompute
	kGetPre         // the recompute is about to read another input
	kGetPost        // the recompute has read another input
	kCompute        // entry of the compute function (all arguments evaluated)
	kDPre           // subscriber of the derived variable registered before the inheriting one: derived changed, inheriting not yet
	kDPost          // subscriber of the derived variable registered after the inheriting one
	kTSub           // subscriber of the inheriting variable
	kInPost         // subscriber of the written input registered after the derived variable: the recompute has returned
	kKinds
)

var kindNames = []string{"input-subscriber-before-derived", "before-Get-of-input", "after-Get-of-input", "compute-entry", "derived-subscriber-before-inheriting", "derived-subscriber-after-inheriting", "inheriting-subscriber", "input-subscriber-after-derived"}

type holdSpec struct {
	Kind int    `json:"kind"`
	Idx  int    `json:"input"` // the input read (Get kinds) or written (input-subscriber kinds); 0 otherwise
	At   string `json:"at,omitempty"`
}

func (h *holdSpec) String() string {
	if h == nil {
		return "-"
	}
	if h.Kind == kGetPre || h.Kind == kGetPost || h.Kind == kInPre || h.Kind == kInPost {
		return fmt.Sprintf("%s%d", kindNames[h.Kind], h.Idx)
	}
	return kindNames[h.Kind]
}

type writerSpec struct {
	In   int       `json:"in"`
	V    int       `json:"v"`
	Hold *holdSpec `json:"hold,omitempty"`
}

type schedScenario struct {
	Arity  int          `json:"arity"`
	F      int          `json:"fn"`
	Ins0   []int        `json:"ins0"`
	Chain  bool         `json:"chain"`   // the inputs inherit from source variables and the writers write the sources
	W      []writerSpec `json:"writers"` // W[0] is held first; W[1] is started while W[0] is held; W[2] after W[1] settled
	BFirst bool         `json:"release_second_writer_first"`
}

func (s *schedScenario) key() string {
	parts := []string{fmt.Sprintf("ar%d f%d chain=%v bfirst=%v %v", s.Arity, s.F, s.Chain, s.BFirst, s.Ins0)}
	for _, w := range s.W {
		parts = append(parts, fmt.Sprintf("in%d=%d@%s", w.In, w.V, w.Hold))
	}
	return strings.Join(parts, " ")
}

// ---- goroutine identity and wait state (runtime.Stack; no hook, no timing)

func goid() int64 {
	var buf [64]byte
	n := runtime.Stack(buf[:], false)
	s := strings.TrimPrefix(string(buf[:n]), "goroutine ")
	if i := strings.IndexByte(s, ' '); i > 0 {
		if id, err := strconv.ParseInt(s[:i], 10, 64); err == nil {
			return id
		}
	}
	return -1
}

// gstate returns the scheduler state of goroutine id ("running", "runnable", "sync.Mutex.Lock", "chan receive", ...; "gone").
func gstate(id int64) string {
	buf := make([]byte, 1<<16)
	for {
		n := runtime.Stack(buf, true)
		if n < len(buf) {
			buf = buf[:n]
			break
		}
		buf = make([]byte, 2*len(buf))
	}
	s := string(buf)
	tag := fmt.Sprintf("goroutine %d [", id)
	i := strings.Index(s, "\n"+tag)
	if strings.HasPrefix(s, tag) {
		i = -1
	} else if i < 0 {
		return "gone"
	}
	s = s[i+1+len(tag):]
	if j := strings.IndexAny(s, ",]"); j >= 0 {
		return s[:j]
	}
	return "?"
}

func parked(state string) bool {
	return strings.HasPrefix(state, "sync.") || strings.HasPrefix(state, "semacquire") || strings.HasPrefix(state, "chan ") || state == "select"
}

// ---- one running scenario

type hold struct {
	spec    holdSpec
	hit     atomic.Bool
	reached chan struct{}
	release chan struct{}
}

type writerRun struct {
	gid    atomic.Int64
	hold   *hold
	passed atomic.Uint32 // boundary kinds this writer went through
	done   chan struct{}
	ready  chan struct{}
}

type schedRun struct {
	w       []*writerRun
	judging atomic.Bool
}

// at is called at every boundary by whichever goroutine runs there.
func (r *schedRun) at(kind, idx int) {
	if r.judging.Load() {
		return
	}
	g := goid()
	for _, w := range r.w {
		if w.gid.Load() != g {
			continue
		}
		for {
			old := w.passed.Load()
			if w.passed.CompareAndSwap(old, old|1<<uint(kind)) {
				break
			}
		}
		if h := w.hold; h != nil && h.spec.Kind == kind && (h.spec.Idx == idx || kind == kCompute || kind == kDPre || kind == kDPost || kind == kTSub) && h.hit.CompareAndSwap(false, true) {
			close(h.reached)
			<-h.release
		}
		return
	}
}

// settle waits until the writer is held at its boundary (only before its release), has returned, or is parked on a
// lock (every other goroutine of the scenario is parked then, so the state is stable).
func (r *schedRun) settle(w *writerRun, beforeRelease bool) string {
	var reached chan struct{}
	if beforeRelease && w.hold != nil {
		reached = w.hold.reached
	}
	look := func() string {
		select {
		case <-reached:
			return "held"
		case <-w.done:
			return "returned"
		default:
			return ""
		}
	}
	deadline := time.Now().Add(5 * time.Second)
	for {
		if o := look(); o != "" {
			return o
		}
		if st := gstate(w.gid.Load()); parked(st) {
			// the hold's own channel receive parks the goroutine too: the channels decide
			if o := look(); o != "" {
				return o
			}
			return "blocked[" + st + "]"
		}
		if time.Now().After(deadline) {
			return "unsettled"
		}
		time.Sleep(20 * time.Microsecond)
	}
}

type gatedVar struct {
	reactive.Variable[int]
	run *schedRun
	idx int
}

func (g *gatedVar) Get() int {
	g.run.at(kGetPre, g.idx)
	v := g.Variable.Get()
	g.run.at(kGetPost, g.idx)
	return v
}

func newDerivedGated(run *schedRun, f int, in []*gatedVar) reactive.DerivedVariable[int] {
	switch len(in) {
	case 2:
		return reactive.NewDerivedVariable2[int](func(cur, a, b int) int { run.at(kCompute, 0); return applyFn(f, cur, []int{a, b}) }, in[0], in[1])
	case 3:
		return reactive.NewDerivedVariable3[int](func(cur, a, b, c int) int { run.at(kCompute, 0); return applyFn(f, cur, []int{a, b, c}) }, in[0], in[1], in[2])
	}
	return reactive.NewDerivedVariable4[int](func(cur, a, b, c, d int) int { run.at(kCompute, 0); return applyFn(f, cur, []int{a, b, c, d}) }, in[0], in[1], in[2], in[3])
}

// model steps of one Set that lie before each boundary (ModelDVI.v: acquire, update, lock d, read, write, notify, unlock d, unlock input)
func modelSteps(kind int, dChanged bool) int {
	switch kind {
	case kInPre:
		return 2
	case kGetPre:
		return 3
	case kGetPost, kCompute:
		return 4
	case kDPre:
		return 5
	case kDPost, kTSub:
		return 6
	}
	if dChanged {
		return 7
	}
	return 6
}

// runSched executes one scenario; returns the events, the model schedule and the failure text ("" = property holds).
func runSched(sc *schedScenario) (events []string, sched []int, obs [4]int, nontrivial bool, fail string) {
	run := &schedRun{}
	src := make([]reactive.Variable[int], sc.Arity)
	in := make([]*gatedVar, sc.Arity)
	for i := range in {
		in[i] = &gatedVar{Variable: reactive.NewVariable[int](), run: run, idx: i}
		if sc.Chain {
			src[i] = reactive.NewVariable[int]()
			src[i].Set(sc.Ins0[i])
			in[i].InheritFrom(src[i])
		} else {
			in[i].Set(sc.Ins0[i])
			src[i] = in[i].Variable
		}
	}
	for i := range in {
		i := i
		in[i].OnUpdate(func(_, _ int) { run.at(kInPre, i) })
	}
	d := newDerivedGated(run, sc.F, in)
	t := reactive.NewVariable[int]()
	d.OnUpdate(func(_, _ int) { run.at(kDPre, 0) })
	t.InheritFrom(d)
	d.OnUpdate(func(_, _ int) { run.at(kDPost, 0) })
	t.OnUpdate(func(_, _ int) { run.at(kTSub, 0) })
	for i := range in {
		i := i
		in[i].OnUpdate(func(_, _ int) { run.at(kInPost, i) })
	}

	for _, ws := range sc.W {
		w := &writerRun{done: make(chan struct{}), ready: make(chan struct{})}
		if ws.Hold != nil {
			w.hold = &hold{spec: *ws.Hold, reached: make(chan struct{}), release: make(chan struct{})}
		}
		run.w = append(run.w, w)
	}
	start := func(k int) {
		w, ws := run.w[k], sc.W[k]
		go func() {
			defer close(w.done)
			w.gid.Store(goid())
			close(w.ready)
			src[ws.In].Set(ws.V)
		}()
		<-w.ready
	}
	released := make([]bool, len(run.w))
	release := func(k int) {
		if h := run.w[k].hold; h != nil && !released[k] {
			released[k] = true
			close(h.release)
		}
	}
	steps := func(k int) int {
		w := run.w[k]
		return modelSteps(w.hold.spec.Kind, w.passed.Load()&(1<<kDPre) != 0)
	}
	rep := func(k, n int) {
		for ; n > 0; n-- {
			sched = append(sched, k)
		}
	}
	name := []string{"A", "B", "C"}

	finished := within(concWatchdog, func() {
		// A runs to its boundary
		start(0)
		stA := run.settle(run.w[0], true)
		events = append(events, "A "+stA)
		if stA == "held" {
			rep(0, steps(0))
		} else {
			rep(0, 8)
		}
		heldB := false
		for k := 1; k < len(run.w); k++ {
			start(k)
			stK := run.settle(run.w[k], true)
			events = append(events, name[k]+" "+stK)
			if stK == "held" {
				rep(k, steps(k))
				heldB = heldB || k == 1
			} else {
				rep(k, 8)
			}
			nontrivial = nontrivial || stA == "held"
		}
		order := []int{0, 1}
		if sc.BFirst && heldB {
			order = []int{1, 0}
		}
		for _, k := range order {
			if k < len(run.w) && run.w[k].hold != nil {
				release(k)
				events = append(events, fmt.Sprintf("release %s -> %s", name[k], run.settle(run.w[k], false)))
				rep(k, 8)
			}
		}
		for k := range run.w {
			release(k)
		}
		for _, w := range run.w {
			<-w.done
		}
	})
	if !finished {
		for k := range run.w {
			release(k)
		}
		// the scenario goroutine may still be running: do not touch what it writes
		return nil, nil, obs, false, "hang: the writers did not return within the watchdog"
	}
	for round := 0; round < 4; round++ {
		for k := range run.w {
			rep(k, 8)
		}
	}
	run.judging.Store(true)
	xs := make([]int, sc.Arity)
	for i := range in {
		xs[i] = in[i].Variable.Get()
		if sc.Chain && xs[i] != src[i].Get() {
			fail = fmt.Sprintf("after all writers returned input%d (inheriting)=%d but its source=%d", i, xs[i], src[i].Get())
		}
	}
	want := applyFn(sc.F, 0, xs)
	dv, tv := d.Get(), t.Get()
	if dv != want {
		fail = fmt.Sprintf("%s: after all writers returned derived=%d but compute(inputs %v)=%d (inheriting=%d); events: %s", fnNames[sc.F], dv, xs, want, tv, strings.Join(events, "; "))
	} else if tv != dv && fail == "" {
		fail = fmt.Sprintf("after all writers returned inheriting=%d but derived=%d; events: %s", tv, dv, strings.Join(events, "; "))
	}
	obs = [4]int{xs[0], xs[1], dv, tv}
	return
}

// ---- scenario family

func holdPoints(arity, i int) []holdSpec {
	hs := []holdSpec{{Kind: kInPre, Idx: i}}
	for j := 0; j < arity; j++ {
		if j != i {
			hs = append(hs, holdSpec{Kind: kGetPre, Idx: j}, holdSpec{Kind: kGetPost, Idx: j})
		}
	}
	return append(hs, holdSpec{Kind: kCompute, Idx: 0}, holdSpec{Kind: kDPre, Idx: 0}, holdSpec{Kind: kDPost, Idx: 0}, holdSpec{Kind: kTSub, Idx: 0}, holdSpec{Kind: kInPost, Idx: i})
}

// fill chooses initial values and written values: every write changes its input, writers of one input write different values.
func (s *schedScenario) fill(r *vx.Rng) {
	s.Ins0 = make([]int, s.Arity)
	for i := range s.Ins0 {
		s.Ins0[i] = r.Intn(5) - 2
	}
	used := map[int][]int{}
	for k := range s.W {
		i := s.W[k].In
		for {
			v := r.Intn(9) - 4
			ok := v != s.Ins0[i]
			for _, u := range used[i] {
				ok = ok && u != v
			}
			if ok {
				s.W[k].V = v
				used[i] = append(used[i], v)
				break
			}
		}
	}
}

func schedAll(r *vx.Rng, st *vx.Stats, cf *vx.CasesFile, extra int) {
	var scs []*schedScenario
	hp := func(h holdSpec) *holdSpec { h.At = h.String(); return &h }
	pureFns := []int{0, 2, 0, 2, 1, 3, 4} // sum and the positional polynomial notice every stale argument
	n := 0
	// (1) every boundary of A x every input written by B
	for ar := 2; ar <= 4; ar++ {
		for i := 0; i < ar; i++ {
			for _, h := range holdPoints(ar, i) {
				for j := 0; j < ar; j++ {
					scs = append(scs, &schedScenario{Arity: ar, F: pureFns[n%4], W: []writerSpec{{In: i, Hold: hp(h)}, {In: j}}})
					n++
				}
			}
		}
	}
	// (2) two inputs: B is held at a boundary of its own, both release orders
	for i := 0; i < 2; i++ {
		for _, h := range holdPoints(2, i) {
			for j := 0; j < 2; j++ {
				for _, hb := range holdPoints(2, j) {
					for o := 0; o < 2; o++ {
						scs = append(scs, &schedScenario{Arity: 2, F: pureFns[n%4], BFirst: o == 1, W: []writerSpec{{In: i, Hold: hp(h)}, {In: j, Hold: hp(hb)}}})
						n++
					}
				}
			}
		}
	}
	// (3) sampled: three and four inputs with two holds, a third writer, inputs that inherit from sources, all compute functions
	for k := 0; k < extra; k++ {
		ar := 2 + r.Intn(3)
		i, j := r.Intn(ar), r.Intn(ar)
		sc := &schedScenario{Arity: ar, F: vx.Pick(r, pureFns), Chain: r.Chance(1, 3), BFirst: r.Bool()}
		sc.W = []writerSpec{{In: i, Hold: hp(vx.Pick(r, holdPoints(ar, i)))}, {In: j}}
		if r.Chance(2, 3) {
			sc.W[1].Hold = hp(vx.Pick(r, holdPoints(ar, j)))
		}
		if r.Chance(1, 2) {
			c := r.Intn(ar)
			if c == j { // B and C write different inputs: the final inputs do not depend on their order
				c = (c + 1) % ar
			}
			sc.W = append(sc.W, writerSpec{In: c})
		}
		scs = append(scs, sc)
	}
	for _, sc := range scs {
		sc.fill(r)
		events, sched, obs, nontrivial, fail := runSched(sc)
		st.Count(fmt.Sprintf("sched:arity%d", sc.Arity))
		st.Count("sched:A@" + kindNames[sc.W[0].Hold.Kind])
		for _, e := range events {
			if i := strings.IndexByte(e, '['); i > 0 {
				e = e[:i] + "[lock]"
			}
			st.Count("sched:event:" + e)
		}
		st.Case("sched:"+sc.key(), nontrivial)
		st.Sample(map[string]any{"kind": "sched", "scenario": sc, "events": events}, 3)
		if fail != "" {
			st.Fail(map[string]any{"sig": "", "kind": "sched-derived-variable", "scenario": sc, "events": events, "why": fail})
		}
		if sc.Arity == 2 && !sc.Chain && !strings.HasPrefix(fail, "hang") {
			progs := make([]string, len(sc.W))
			for k, w := range sc.W {
				progs[k] = vx.List([]string{vx.Pair(vx.Bool(w.In == 1), vx.Z(int64(w.V)))})
			}
			cf.Add(fmt.Sprintf("CDVI %s %s %s %s %s (%s, %s, %s, %s)", fnNames[sc.F], vx.Z(int64(sc.Ins0[0])), vx.Z(int64(sc.Ins0[1])),
				vx.List(progs), natList(sched), vx.Z(int64(obs[0])), vx.Z(int64(obs[1])), vx.Z(int64(obs[2])), vx.Z(int64(obs[3]))))
			st.CaseIndex = append(st.CaseIndex, map[string]any{"kind": "sched", "scenario": sc, "events": events, "model_schedule": sched})
		}
	}
}
