package main

import (
	"fmt"

	"github.com/iotaledger/hive.go/ds/reactive"

	"verif/harness/vx"
)

var condNames = []string{"CT.CNonZero", "CT.CPos", "CT.CEven"}

func condHolds(c, v int) bool {
	switch c {
	case 0:
		return v != 0
	case 1:
		return v > 0
	}
	return v%2 == 0
}

type ctOp struct {
	K string `json:"k"` // in monitor unmon setc
	I int    `json:"i,omitempty"`
	V int    `json:"v,omitempty"`
}

func (o ctOp) coq() string {
	switch o.K {
	case "in":
		return fmt.Sprintf("CT.OSetIn %s %s", vx.Nat(o.I), vx.Z(int64(o.V)))
	case "monitor":
		return "CT.OMonitor " + vx.Nat(o.I)
	case "unmon":
		return "CT.OUnmon " + vx.Nat(o.I)
	}
	return "CT.OSetC " + vx.Z(int64(o.V))
}

func ctRun(g *gen, c int, ins0 []int, h []ctOp, tag string) {
	in := make([]reactive.Variable[int], len(ins0))
	for i, v := range ins0 {
		in[i] = reactive.NewVariable[int]()
		in[i].Set(v)
	}
	var ctr reactive.Counter[int]
	if c == 0 {
		ctr = reactive.NewCounter[int]() // default condition: non-zero
	} else {
		ctr = reactive.NewCounter[int](func(v int) bool { return condHolds(c, v) })
	}
	type monT struct {
		inp   int
		unsub func()
	}
	var mons []monT
	dirty, anyUnmon := false, false
	obs := make([]string, 0, len(h))
	changes, last := 0, 0
	fail := ""
	for k, o := range h {
		switch o.K {
		case "in":
			if o.I < len(in) {
				in[o.I].Set(o.V)
			}
		case "monitor":
			if o.I < len(in) {
				mons = append(mons, monT{o.I, ctr.Monitor(in[o.I])})
			}
		case "unmon":
			if o.I < len(mons) {
				mons[o.I].unsub()
				anyUnmon = true
			}
		case "setc":
			ctr.Set(o.V)
			dirty = true
		}
		v := ctr.Get()
		obs = append(obs, vx.Z(int64(v)))
		if v != last {
			changes++
			last = v
		}
		if !dirty && !anyUnmon && fail == "" {
			want := 0
			for _, m := range mons {
				if condHolds(c, in[m.inp].Get()) {
					want++
				}
			}
			if v != want {
				fail = fmt.Sprintf("after op %d: counter=%d, monitored inputs satisfying the condition=%d", k, v, want)
			}
		}
	}
	key := make([]string, len(h))
	for i, o := range h {
		key[i] = o.coq()
		g.st.Count("ct:" + o.K)
	}
	term := fmt.Sprintf("CCT %s %s %s %s", condNames[c], zList(ins0), vx.ListOf(h, ctOp.coq), vx.List(obs))
	idx := map[string]any{"kind": "ct", "tag": tag, "cond": condNames[c], "ins0": ins0, "history": h}
	g.emit("ct", term, append([]string{condNames[c], fmt.Sprint(ins0)}, key...), changes >= 2, idx)
	g.st.Sample(map[string]any{"kind": "ct", "cond": condNames[c], "history": key, "observed": obs}, 1)
	if fail != "" {
		g.st.Fail(map[string]any{"sig": "", "case": idx, "why": fail})
	}
}

func ctDirected(g *gen) {
	ctRun(g, 0, []int{0, 3, 0}, []ctOp{{K: "monitor", I: 0}, {K: "monitor", I: 1}, {K: "monitor", I: 1}, {K: "in", I: 0, V: 2}, {K: "in", I: 0, V: 5}, {K: "in", I: 1, V: 0}, {K: "unmon", I: 1}, {K: "in", I: 1, V: 4}, {K: "in", I: 0, V: 0}}, "directed")
	ctRun(g, 2, []int{0, 1}, []ctOp{{K: "monitor", I: 0}, {K: "monitor", I: 1}, {K: "in", I: 1, V: 2}, {K: "setc", V: 7}, {K: "in", I: 0, V: 1}}, "directed")
}

func ctRandom(g *gen, n int) {
	r := g.r.Fork()
	c := r.Intn(3)
	k := 2 + r.Intn(3)
	ins0 := make([]int, k)
	for i := range ins0 {
		if r.Chance(1, 2) {
			ins0[i] = r.Intn(5) - 1
		}
	}
	wild := r.Chance(1, 4)
	h := make([]ctOp, 0, n)
	nm := 0
	for len(h) < n {
		x := r.Intn(100)
		switch {
		case x < 60:
			h = append(h, ctOp{K: "in", I: r.Intn(k), V: r.Intn(5) - 1})
		case x < 85:
			h = append(h, ctOp{K: "monitor", I: r.Intn(k)})
			nm++
		case x < 95:
			if nm > 0 && (wild || r.Chance(1, 3)) {
				h = append(h, ctOp{K: "unmon", I: r.Intn(nm)})
			}
		default:
			if wild {
				h = append(h, ctOp{K: "setc", V: r.Intn(5) - 1})
			}
		}
	}
	ctRun(g, c, ins0, h, "random")
}
