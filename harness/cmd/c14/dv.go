package main

import (
	"fmt"

	"github.com/iotaledger/hive.go/ds/reactive"

	"verif/harness/vx"
)

var fnNames = []string{"DV.FSum", "DV.FMax", "DV.FLin", "DV.FParity", "DV.FFirst", "DV.FAcc"}

func applyFn(f int, cur int, xs []int) int {
	s := 0
	for _, x := range xs {
		s += x
	}
	switch f {
	case 0:
		return s
	case 1:
		m := 0
		for _, x := range xs {
			if x > m {
				m = x
			}
		}
		return m
	case 2:
		acc := 0
		for _, x := range xs {
			acc = 3*acc + x
		}
		return acc
	case 3:
		return ((s % 2) + 2) % 2
	case 4:
		if len(xs) == 0 {
			return 0
		}
		return xs[0]
	}
	return cur + s
}

type dvOp struct {
	K string `json:"k"` // in unsub setd inherit uninherit sett
	I int    `json:"i,omitempty"`
	V int    `json:"v,omitempty"`
}

func (o dvOp) coq() string {
	switch o.K {
	case "in":
		return fmt.Sprintf("DV.OSetIn %s %s", vx.Nat(o.I), vx.Z(int64(o.V)))
	case "unsub":
		return "DV.OUnsub"
	case "setd":
		return "DV.OSetD " + vx.Z(int64(o.V))
	case "inherit":
		return "DV.OInherit"
	case "uninherit":
		return "DV.OUnInherit"
	}
	return "DV.OSetT " + vx.Z(int64(o.V))
}

// newDerived builds NewDerivedVariable<len(inputs)> with compute function f.
func newDerived(f int, in []reactive.Variable[int], initial int) reactive.DerivedVariable[int] {
	switch len(in) {
	case 1:
		return reactive.NewDerivedVariable[int](func(cur, a int) int { return applyFn(f, cur, []int{a}) }, in[0], initial)
	case 2:
		return reactive.NewDerivedVariable2[int](func(cur, a, b int) int { return applyFn(f, cur, []int{a, b}) }, in[0], in[1], initial)
	case 3:
		return reactive.NewDerivedVariable3[int](func(cur, a, b, c int) int { return applyFn(f, cur, []int{a, b, c}) }, in[0], in[1], in[2], initial)
	}
	return reactive.NewDerivedVariable4[int](func(cur, a, b, c, d int) int { return applyFn(f, cur, []int{a, b, c, d}) }, in[0], in[1], in[2], in[3], initial)
}

func dvRun(g *gen, f int, ins0 []int, initial int, h []dvOp, tag string) {
	in := make([]reactive.Variable[int], len(ins0))
	for i, v := range ins0 {
		in[i] = reactive.NewVariable[int]()
		in[i].Set(v)
	}
	d := newDerived(f, in, initial)
	t := reactive.NewVariable[int]()
	var unT []func()
	d0 := d.Get()
	obs := make([]string, 0, len(h))
	changes, last := 0, d0
	ddirty, tdirty, dsub := false, false, true
	fail := ""
	for k, o := range h {
		switch o.K {
		case "in":
			if o.I < len(in) {
				in[o.I].Set(o.V)
			}
		case "unsub":
			d.Unsubscribe()
			dsub = false
		case "setd":
			d.Set(o.V)
			ddirty = true
		case "inherit":
			unT = append(unT, t.InheritFrom(d))
			tdirty = false
		case "uninherit":
			if len(unT) > 0 {
				unT[len(unT)-1]()
				unT = unT[:len(unT)-1]
			}
		case "sett":
			t.Set(o.V)
			tdirty = true
		}
		dv, tv := d.Get(), t.Get()
		obs = append(obs, vx.Pair(vx.Z(int64(dv)), vx.Z(int64(tv))))
		if dv != last {
			changes++
			last = dv
		}
		// oracle: the property itself on the real values
		if f != 5 && dsub && !ddirty {
			xs := make([]int, len(in))
			for i := range in {
				xs[i] = in[i].Get()
			}
			if want := applyFn(f, 0, xs); dv != want && fail == "" {
				fail = fmt.Sprintf("after op %d: derived=%d compute(inputs %v)=%d", k, dv, xs, want)
			}
		}
		if len(unT) > 0 && !tdirty && tv != dv && fail == "" {
			fail = fmt.Sprintf("after op %d: inheriting variable=%d source=%d", k, tv, dv)
		}
	}
	key := make([]string, len(h))
	for i, o := range h {
		key[i] = o.coq()
		g.st.Count("dv:" + o.K)
	}
	g.st.Count(fmt.Sprintf("dv:arity%d", len(ins0)))
	term := fmt.Sprintf("CDV %s %s %s %s %s %s", fnNames[f], zList(ins0), vx.Z(int64(initial)), vx.Z(int64(d0)), vx.ListOf(h, dvOp.coq), vx.List(obs))
	idx := map[string]any{"kind": "dv", "tag": tag, "fn": fnNames[f], "ins0": ins0, "initial": initial, "history": h}
	g.emit("dv", term, append([]string{fnNames[f], fmt.Sprint(ins0, initial)}, key...), changes >= 2, idx)
	g.st.Sample(map[string]any{"kind": "dv", "fn": fnNames[f], "history": key, "observed(d,t)": obs}, 1)
	if fail != "" {
		g.st.Fail(map[string]any{"sig": "", "case": idx, "why": fail})
	}
}

func dvDirected(g *gen) {
	// two inputs changing alternately, inheritance chain, unsubscribe
	dvRun(g, 0, []int{1, 2}, 7, []dvOp{{K: "inherit"}, {K: "in", I: 0, V: 5}, {K: "in", I: 1, V: -5}, {K: "in", I: 1, V: -5}, {K: "sett", V: 9}, {K: "in", I: 0, V: 5}, {K: "in", I: 0, V: 6}, {K: "unsub"}, {K: "in", I: 0, V: 1}}, "directed")
	// value-preserving recompute does not notify: t keeps the direct write
	dvRun(g, 3, []int{0, 0, 0}, 0, []dvOp{{K: "inherit"}, {K: "sett", V: 4}, {K: "in", I: 0, V: 2}, {K: "in", I: 1, V: 1}, {K: "uninherit"}, {K: "in", I: 2, V: 1}}, "directed")
	// accumulator compute: one recompute per input at construction and per change
	dvRun(g, 5, []int{1, 1, 1, 1}, 10, []dvOp{{K: "in", I: 3, V: 2}, {K: "in", I: 3, V: 2}, {K: "setd", V: 0}, {K: "in", I: 0, V: 0}}, "directed")
	// zero-valued inputs at construction: every input subscription still recomputes once (OnUpdate(..., true))
	for ar := 1; ar <= 4; ar++ {
		for z := 0; z < ar; z++ {
			ins := []int{2, 2, 2, 2}[:ar]
			ins = append([]int{}, ins...)
			ins[z] = 0
			dvRun(g, 5, ins, 1, []dvOp{{K: "in", I: z, V: 1}, {K: "in", I: z, V: 0}}, "directed")
		}
	}
	dvRun(g, 4, []int{0}, 3, []dvOp{{K: "in", I: 0, V: 3}, {K: "inherit"}, {K: "inherit"}, {K: "uninherit"}, {K: "in", I: 0, V: 0}, {K: "uninherit"}, {K: "in", I: 0, V: 1}}, "directed")
}

func dvRandom(g *gen, n int) {
	r := g.r.Fork()
	f := r.Intn(6)
	if r.Chance(1, 4) {
		f = 5 // the accumulator notices every extra or missing recompute
	}
	ar := 1 + r.Intn(4)
	ins0 := make([]int, ar)
	for i := range ins0 {
		if r.Chance(1, 2) {
			ins0[i] = r.Intn(7) - 3
		}
	}
	initial := 0
	if r.Chance(1, 3) {
		initial = r.Intn(9) - 4
	}
	h := make([]dvOp, 0, n)
	for len(h) < n {
		k := r.Intn(100)
		switch {
		case k < 62:
			h = append(h, dvOp{K: "in", I: r.Intn(ar), V: r.Intn(7) - 3})
		case k < 66:
			h = append(h, dvOp{K: "unsub"})
		case k < 72:
			h = append(h, dvOp{K: "setd", V: r.Intn(7) - 3})
		case k < 84:
			h = append(h, dvOp{K: "inherit"})
		case k < 92:
			h = append(h, dvOp{K: "uninherit"})
		default:
			h = append(h, dvOp{K: "sett", V: r.Intn(7) - 3})
		}
	}
	dvRun(g, f, ins0, initial, h, "random")
}
