// C14 harness: derived reactive values of ds/reactive (DerivedVariable1..4 / InheritFrom, DerivedSet /
// SubtractReactive, Counter, SortedSet, EvictionState, WaitGroup).
//
//	hx-c14 lock  --n N --len L   lockstep histories: every observation after every call goes to cases.v
//	hx-c14 sched --n N           forced schedules on DerivedVariable2..4: writers held at callback boundaries (sched.go)
//	hx-c14 reent --n N           re-entrant callbacks: scripted calls back into the object from inside its callbacks (reent.go)
//	hx-c14 conc  --runs R --fresh F  F barrier-released rounds of first operations on fresh objects (fresh.go), then free-running writers (<= 4 goroutines) + quiescence barrier, judged in Go against
//	                             the defining function; directed schedules for D14b / D14c; all under watchdogs
package main

import (
	"flag"
	"os"
	"sort"
	"strings"
	"time"

	"verif/harness/vx"
)

const lockWatchdog = 20 * time.Second

type gen struct {
	r  *vx.Rng
	cf *vx.CasesFile
	st *vx.Stats
}

func nList(xs []int) string {
	out := make([]string, len(xs))
	for i, x := range xs {
		out[i] = vx.N(uint64(x))
	}
	if len(out) == 0 {
		return "([]:list N)"
	}
	return vx.List(out)
}

func zList(xs []int) string {
	out := make([]string, len(xs))
	for i, x := range xs {
		out[i] = vx.Z(int64(x))
	}
	if len(out) == 0 {
		return "([]:list Z)"
	}
	return vx.List(out)
}

func natList(xs []int) string {
	out := make([]string, len(xs))
	for i, x := range xs {
		out[i] = vx.Nat(x)
	}
	if len(out) == 0 {
		return "([]:list nat)"
	}
	return vx.List(out)
}

func sortedCopy(xs []int) []int {
	c := append([]int{}, xs...)
	sort.Ints(c)
	return c
}

func eqInts(a, b []int) bool {
	if len(a) != len(b) {
		return false
	}
	for i := range a {
		if a[i] != b[i] {
			return false
		}
	}
	return true
}

// dedup keeps the first occurrence of every element (iteration order of a ds.Set built from the slice).
func dedup(xs []int) []int {
	seen := map[int]bool{}
	out := []int{}
	for _, x := range xs {
		if !seen[x] {
			seen[x] = true
			out = append(out, x)
		}
	}
	return out
}

func (g *gen) subset(universe, maxLen int) []int {
	n := g.r.Intn(maxLen + 1)
	xs := make([]int, n)
	for i := range xs {
		xs[i] = 1 + g.r.Intn(universe)
	}
	return dedup(xs)
}

func (g *gen) emit(kind, term string, keyParts []string, nontrivial bool, idx any) {
	g.cf.Add(term)
	g.st.Count("case:" + kind)
	g.st.Case(kind+":"+strings.Join(keyParts, ";"), nontrivial)
	g.st.CaseIndex = append(g.st.CaseIndex, idx)
}

func main() {
	if len(os.Args) < 2 {
		vx.Die("usage: hx-c14 lock|conc [flags] --seed S --out cases.v --stats stats.json")
	}
	fs := flag.NewFlagSet(os.Args[1], flag.ExitOnError)
	n := fs.Int("n", 60, "histories per kind")
	maxLen := fs.Int("len", 30, "")
	runs := fs.Int("runs", 40, "free-running runs per kind")
	seed := fs.Uint64("seed", 1, "")
	out := fs.String("out", "cases.v", "")
	stats := fs.String("stats", "stats.json", "")
	fresh := fs.Int("fresh", 4000, "conc: barrier-released rounds of first operations on fresh objects (fresh.go)")
	probe := fs.Bool("probe", false, "reent: print which (callback site, scripted call) pairs complete")
	_ = fs.Parse(os.Args[2:])
	r := vx.NewRng(*seed)
	switch os.Args[1] {
	case "lock":
		st := vx.NewStats("lockstep histories per derived kind (DerivedVariable1-4+InheritFrom with 6 compute functions; 3 base sets -> DerivedSet with InheritFrom/unsubscribe/direct writes + SubtractReactive; Counter with 3 conditions; SortedSet with/without Less tie-break over 5 elements; EvictionState over slots 0..12; WaitGroup); every observation after every call is compared; distinct = distinct (kind, history); non-trivial = the derived value changed at least twice")
		g := &gen{r: r, st: st, cf: &vx.CasesFile{
			Header: "From Coq Require Import ZArith NArith List Bool.\nFrom Verif.C14_Derived Require Import Model Corr.\nImport ListNotations.\n",
			Type:   "case",
			Footer: "Definition M := Eval vm_compute in mismatches cases.\nPrint M.\n",
		}}
		// every history runs under a watchdog: a call that never returns is an outcome, not a stuck harness
		guard := func(kind string, f func()) bool {
			if within(lockWatchdog, f) {
				return true
			}
			st.Fail(map[string]any{"sig": "", "kind": "lockstep-hang", "what": kind + ": a sequential history did not return (the last case in case_index of this kind was never completed)", "case": len(st.CaseIndex)})
			return false
		}
		ok := guard("directed", func() {
			dvDirected(g)
			snDirected(g)
			ctDirected(g)
			ssDirected(g)
			evDirected(g)
			wgDirected(g)
		})
		for i := 0; ok && i < *n; i++ {
			ok = guard("dv", func() { dvRandom(g, 3+g.r.Intn(*maxLen)) }) &&
				guard("sn", func() { snRandom(g, 3+g.r.Intn(*maxLen)) }) &&
				guard("ct", func() { ctRandom(g, 3+g.r.Intn(*maxLen)) }) &&
				guard("ss", func() { ssRandom(g, 3+g.r.Intn(*maxLen)) }) &&
				guard("ev", func() { evRandom(g, 3+g.r.Intn(*maxLen)) }) &&
				guard("wg", func() { wgRandom(g, 3+g.r.Intn(*maxLen)) })
		}
		if !ok {
			// the hung goroutine may still own the generator state: report without a cases file
			if err := st.Write(*stats); err != nil {
				vx.Die("%v", err)
			}
			os.Exit(0)
		}
		if err := g.cf.Write(*out); err != nil {
			vx.Die("%v", err)
		}
		if err := st.Write(*stats); err != nil {
			vx.Die("%v", err)
		}
	case "conc":
		st := vx.NewStats("free-running runs: 2-4 goroutines write different inputs / sources / weights / elements concurrently (structural changes interleaved), quiescence barrier, then the derived value is compared with its defining function of the inputs' final values; every run under a watchdog; before them barrier-released rounds of FIRST operations on fresh objects (fresh.go: 2-4 workers leave a spin barrier within nanoseconds into EvictionEvent of the same new slot / InheritFrom, Add, SubtractReactive, OnUpdate on fresh sets / Monitor on a fresh counter / Add of the same new element to a fresh WaitGroup or SortedSet / NewDerivedVariable2 and InheritFrom over fresh variables), judged at quiescence by the same defining functions; distinct = distinct (kind, script); non-trivial = at least two goroutines performed an effective write")
		// (the first-use rounds draw from a stream of their own: the free-running runs of a seed stay what they were)
		concAll(r, vx.NewRng(*seed*0x9E3779B9+14), st, *runs, *fresh)
		if err := st.Write(*stats); err != nil {
			vx.Die("%v", err)
		}
	case "sched":
		st := vx.NewStats("forced schedules on DerivedVariable2..4 (+ inheriting variable, optionally inheriting inputs): writer A held at every boundary where caller-supplied code runs inside a write (Get of another input before/after the read, compute entry, subscribers of the written input before/after the derived variable, subscribers of the derived / inheriting variable) x writer B on every input, B held at a boundary of its own with both release orders, a third writer; B runs until returned or parked on a lock (goroutine wait state, no timing); judged after all writers returned: derived == compute(current inputs), inheriting == derived; two-input scenarios are also replayed as schedules of the interleaving model DVI; distinct = distinct scenario; non-trivial = A was held and another writer ran meanwhile")
		cf := &vx.CasesFile{
			Header: "From Coq Require Import ZArith NArith List Bool.\nFrom Verif.C14_Derived Require Import Model ModelDVI Corr.\nImport ListNotations.\n",
			Type:   "case",
			Footer: "Definition M := Eval vm_compute in mismatches cases.\nPrint M.\n",
		}
		schedAll(r, st, cf, *n)
		if err := cf.Write(*out); err != nil {
			vx.Die("%v", err)
		}
		if err := st.Write(*stats); err != nil {
			vx.Die("%v", err)
		}
	case "reent":
		if *probe {
			reentProbe(r, *n)
			return
		}
		st := vx.NewStats("re-entrant callbacks, single goroutine: one callback (EvictionState event handlers with tree-shaped scripts; DerivedVariable compute functions / subscribers of the derived, the inheriting and the input variables; subscribers of a DerivedSet, a SubtractReactive result and their sources; Counter conditions / subscribers; SortedSet Heaviest/Lightest/set/weight subscribers; WaitGroup OnTrigger handlers and pending-set subscribers) runs a script of calls back into the scenario's objects during a short history of top-level calls; judged: the goroutine never parks on a lock (wait state) / 20 s watchdog, what the scripted reads return, the defining function after every call; the demanded (site, call) pairs are those that complete on the unchanged code; distinct = distinct scenario; non-trivial = the script ran (EvictionState: at least two handler actions ran)")
		g := &gen{r: r, st: st, cf: &vx.CasesFile{
			Header: "From Coq Require Import ZArith NArith List Bool.\nFrom Verif.C14_Derived Require Import Model ModelEVR Corr.\nImport ListNotations.\n",
			Type:   "case",
			Footer: "Definition M := Eval vm_compute in mismatches cases.\nPrint M.\n",
		}}
		reentAll(g, *n)
		if err := g.cf.Write(*out); err != nil {
			vx.Die("%v", err)
		}
		if err := st.Write(*stats); err != nil {
			vx.Die("%v", err)
		}
	case "probe":
		e, l := wgDupRace(*n)
		println("wgDupRace: empty", e, "lost", l)
		f, p, t := wgDupDirected(2 * time.Second)
		println("wgDupDirected: finished", f, "pending", p, "triggered", t)
		hang := 0
		for i := 0; i < *runs; i++ {
			if !ssDeadlockSchedule(2 * time.Second) {
				hang++
			}
		}
		println("ssDeadlock: hangs", hang, "of", *runs)
		println("evictMax returned:", evictMaxSlot(2*time.Second))
	default:
		vx.Die("unknown subcommand %s", os.Args[1])
	}
}
