package main

import (
	"fmt"

	"github.com/iotaledger/hive.go/ds"
	"github.com/iotaledger/hive.go/ds/reactive"

	"verif/harness/vx"
)

// lel is an element type with a Less method: SortedSet uses it to break weight ties.
type lel int

func (a lel) Less(b lel) bool { return a < b }

type ssOp struct {
	K string `json:"k"` // set weight
	O *setOp `json:"o,omitempty"`
	E int    `json:"e,omitempty"`
	V int    `json:"v,omitempty"`
}

func (o ssOp) coq() string {
	if o.K == "set" {
		return "SS.OSet " + o.O.coq()
	}
	return fmt.Sprintf("SS.OWeight %s %s", vx.N(uint64(o.E)), vx.Z(int64(o.V)))
}

const ssUniverse = 5

// sortedSetUnderTest hides the element type.
type sortedSetUnderTest struct {
	apply      func(o setOp)
	setWeight  func(e, v int)
	weight     func(e int) int
	base       func() []int
	descending func() []int
	ascending  func() []int
	heaviest   func() int
	lightest   func() int
	// subscriptions used by the re-entrant family (reent.go): the callback gets the new value / nothing
	onHeaviest func(cb func(newHeaviest int))
	onLightest func(cb func(newLightest int))
	onSet      func(cb func())
	onWeight   func(e int, cb func())
	has        func(e int) bool
	add        func(e int) bool // Add of one element with its return value (fresh.go)
}

func newSSUT[E ~int](tb bool) *sortedSetUnderTest {
	weights := make([]reactive.Variable[int], ssUniverse+1)
	for i := range weights {
		weights[i] = reactive.NewVariable[int]()
	}
	s := reactive.NewSortedSet[E, int](func(e E) reactive.Variable[int] { return weights[int(e)] })
	conv := func(xs []int) []E {
		out := make([]E, len(xs))
		for i, x := range xs {
			out[i] = E(x)
		}
		return out
	}
	back := func(xs []E) []int {
		out := make([]int, len(xs))
		for i, x := range xs {
			out[i] = int(x)
		}
		return out
	}
	return &sortedSetUnderTest{
		apply: func(o setOp) {
			switch o.K {
			case "add":
				s.Add(E(o.E))
			case "delete":
				s.Delete(E(o.E))
			case "addall":
				s.AddAll(ds.NewSet(conv(o.Es)...))
			case "deleteall":
				s.DeleteAll(ds.NewSet(conv(o.Es)...))
			case "apply":
				s.Apply(ds.NewSetMutations[E]().WithAddedElements(ds.NewSet(conv(o.Es)...)).WithDeletedElements(ds.NewSet(conv(o.Ds)...)))
			case "replace":
				s.Replace(ds.NewSet(conv(o.Es)...))
			}
		},
		setWeight:  func(e, v int) { weights[e].Set(v) },
		weight:     func(e int) int { return weights[e].Get() },
		base:       func() []int { return back(s.ToSlice()) },
		descending: func() []int { return back(s.Descending()) },
		ascending:  func() []int { return back(s.Ascending()) },
		heaviest:   func() int { return int(s.HeaviestElement().Get()) },
		lightest:   func() int { return int(s.LightestElement().Get()) },
		onHeaviest: func(cb func(int)) { s.HeaviestElement().OnUpdate(func(_, n E) { cb(int(n)) }) },
		onLightest: func(cb func(int)) { s.LightestElement().OnUpdate(func(_, n E) { cb(int(n)) }) },
		onSet:      func(cb func()) { s.OnUpdate(func(ds.SetMutations[E]) { cb() }) },
		onWeight:   func(e int, cb func()) { weights[e].OnUpdate(func(_, _ int) { cb() }) },
		has:        func(e int) bool { return s.Has(E(e)) },
		add:        func(e int) bool { return s.Add(E(e)) },
	}
}

// judgeSorted is the property on the real values: same elements as the set, ordered by current weight
// (heaviest first; ties by Less when tb), ends = Heaviest/Lightest, Ascending = reverse.
func judgeSorted(u *sortedSetUnderTest, tb bool) string {
	desc, asc, base := u.descending(), u.ascending(), u.base()
	if !eqInts(sortedCopy(desc), sortedCopy(base)) {
		return fmt.Sprintf("Descending %v does not list the elements of the set %v", desc, base)
	}
	for i := range desc {
		if asc[len(asc)-1-i] != desc[i] {
			return fmt.Sprintf("Ascending %v is not the reverse of Descending %v", asc, desc)
		}
	}
	for i := 0; i+1 < len(desc); i++ {
		wl, wr := u.weight(desc[i]), u.weight(desc[i+1])
		if wl < wr || (wl == wr && tb && desc[i] < desc[i+1]) {
			return fmt.Sprintf("Descending %v not sorted at %d: weights %d, %d", desc, i, wl, wr)
		}
	}
	wantH, wantL := 0, 0
	if len(desc) > 0 {
		wantH, wantL = desc[0], desc[len(desc)-1]
	}
	if u.heaviest() != wantH || u.lightest() != wantL {
		return fmt.Sprintf("Heaviest/Lightest = %d/%d, ends of %v", u.heaviest(), u.lightest(), desc)
	}
	return ""
}

func ssRun(g *gen, tb bool, h []ssOp, tag string) {
	var u *sortedSetUnderTest
	if tb {
		u = newSSUT[lel](true)
	} else {
		u = newSSUT[int](false)
	}
	obs := make([]string, 0, len(h))
	changes := 0
	last := ""
	fail := ""
	for k, o := range h {
		if o.K == "set" {
			u.apply(*o.O)
		} else {
			u.setWeight(o.E, o.V)
		}
		desc := u.descending()
		obs = append(obs, fmt.Sprintf("(%s, %s, %s, %s)", nList(u.base()), nList(desc), vx.N(uint64(u.heaviest())), vx.N(uint64(u.lightest()))))
		if s := fmt.Sprint(desc); s != last {
			changes++
			last = s
		}
		if why := judgeSorted(u, tb); why != "" && fail == "" {
			fail = fmt.Sprintf("after op %d: %s", k, why)
		}
	}
	key := make([]string, len(h))
	for i, o := range h {
		key[i] = o.coq()
		g.st.Count("ss:" + o.K)
		if o.O != nil {
			g.st.Count("ss:set:" + o.O.K)
		}
	}
	term := fmt.Sprintf("CSS %s %s %s", vx.Bool(tb), vx.ListOf(h, ssOp.coq), vx.List(obs))
	idx := map[string]any{"kind": "ss", "tag": tag, "tiebreak": tb, "history": h}
	g.emit("ss", term, append([]string{vx.Bool(tb)}, key...), changes >= 3, idx)
	g.st.Sample(map[string]any{"kind": "ss", "tiebreak": tb, "history": key, "observed(set,descending,heaviest,lightest)": obs}, 2)
	if fail != "" {
		g.st.Fail(map[string]any{"sig": "", "case": idx, "why": fail})
	}
}

func sop(o setOp) ssOp { return ssOp{K: "set", O: &o} }

func ssDirected(g *gen) {
	for _, tb := range []bool{false, true} {
		// weights set before adding, ties, moving to both ends, weight change of a removed element, re-adding
		ssRun(g, tb, []ssOp{
			{K: "weight", E: 2, V: 5}, sop(setOp{K: "add", E: 1}), sop(setOp{K: "add", E: 2}), sop(setOp{K: "add", E: 3}),
			{K: "weight", E: 3, V: 5}, {K: "weight", E: 1, V: 9}, {K: "weight", E: 1, V: -1}, {K: "weight", E: 2, V: 5},
			sop(setOp{K: "delete", E: 2}), {K: "weight", E: 2, V: 100}, {K: "weight", E: 3, V: -7}, sop(setOp{K: "add", E: 2}),
			sop(setOp{K: "replace", Es: []int{4, 2}}), {K: "weight", E: 4, V: 100}, sop(setOp{K: "deleteall", Es: []int{2, 4}}),
		}, "directed")
		ssRun(g, tb, []ssOp{
			sop(setOp{K: "addall", Es: []int{3, 1, 2, 5, 4}}), {K: "weight", E: 5, V: 1}, {K: "weight", E: 1, V: 1}, {K: "weight", E: 3, V: 1},
			{K: "weight", E: 3, V: 0}, sop(setOp{K: "apply", Es: []int{1}, Ds: []int{5, 3}}), {K: "weight", E: 2, V: 2}, {K: "weight", E: 4, V: 2},
		}, "directed")
	}
}

func ssRandom(g *gen, n int) {
	r := g.r.Fork()
	tb := r.Bool()
	h := make([]ssOp, 0, n)
	for len(h) < n {
		if r.Chance(45, 100) {
			o := g.randSetOp(r, ssUniverse)
			h = append(h, sop(o))
		} else {
			// few distinct weights so that ties are frequent
			h = append(h, ssOp{K: "weight", E: 1 + r.Intn(ssUniverse), V: r.Intn(5) - 1})
		}
	}
	ssRun(g, tb, h, "random")
}
