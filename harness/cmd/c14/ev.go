package main

import (
	"fmt"

	"github.com/iotaledger/hive.go/ds/reactive"

	"verif/harness/vx"
)

type evOp struct {
	K string `json:"k"` // event evict
	S int    `json:"s"`
}

func (o evOp) coq() string {
	if o.K == "event" {
		return "EV.OEvent " + vx.N(uint64(o.S))
	}
	return "EV.OEvict " + vx.N(uint64(o.S))
}

func evRun(g *gen, h []evOp, tag string) {
	e := reactive.NewEvictionState[uint32]()
	type handle struct {
		slot uint32
		ev   reactive.Event
		// number of times the OnTrigger callback registered at hand-out ran
		fired *int
	}
	var hs []handle
	obs := make([]string, 0, len(h))
	evicted := false
	changes := 0
	fail := ""
	for k, o := range h {
		if o.K == "event" {
			ev := e.EvictionEvent(uint32(o.S))
			cnt := new(int)
			ev.OnTrigger(func() { *cnt++ })
			hs = append(hs, handle{uint32(o.S), ev, cnt})
		} else {
			before := e.LastEvictedSlot()
			e.Evict(uint32(o.S))
			if !evicted || e.LastEvictedSlot() != before {
				changes++
			}
			evicted = true
		}
		last := e.LastEvictedSlot()
		tr := make([]string, len(hs))
		for i, x := range hs {
			t := x.ev.WasTriggered()
			tr[i] = vx.Bool(t)
			want := evicted && x.slot <= last
			if fail == "" && (t != want || (t && *x.fired != 1) || (!t && *x.fired != 0)) {
				fail = fmt.Sprintf("after op %d: event handed out for slot %d: triggered=%v callbacks=%d, last evicted=%d (evicted anything: %v)", k, x.slot, t, *x.fired, last, evicted)
			}
		}
		bl := "([]:list bool)"
		if len(tr) > 0 {
			bl = vx.List(tr)
		}
		obs = append(obs, vx.Pair(vx.N(uint64(last)), bl))
	}
	key := make([]string, len(h))
	for i, o := range h {
		key[i] = o.coq()
		g.st.Count("ev:" + o.K)
	}
	term := fmt.Sprintf("CEV %s %s", vx.ListOf(h, evOp.coq), vx.List(obs))
	idx := map[string]any{"kind": "ev", "tag": tag, "history": h}
	g.emit("ev", term, key, changes >= 2 && len(hs) >= 2, idx)
	g.st.Sample(map[string]any{"kind": "ev", "history": key, "observed(last,triggered per handle)": obs}, 1)
	if fail != "" {
		g.st.Fail(map[string]any{"sig": "", "case": idx, "why": fail})
	}
}

func evDirected(g *gen) {
	evRun(g, []evOp{{"event", 0}, {"event", 3}, {"event", 3}, {"evict", 0}, {"event", 0}, {"event", 1}, {"evict", 2}, {"evict", 1}, {"event", 2}, {"evict", 3}, {"event", 4}, {"evict", 9}, {"event", 9}, {"event", 10}}, "directed")
	evRun(g, []evOp{{"event", 5}, {"evict", 5}, {"evict", 5}, {"event", 5}, {"event", 6}, {"evict", 4}}, "directed")
}

func evRandom(g *gen, n int) {
	r := g.r.Fork()
	h := make([]evOp, 0, n)
	hi := 2
	for len(h) < n {
		// slots cluster around the eviction frontier
		s := hi - 2 + r.Intn(6)
		if s < 0 {
			s = 0
		}
		if s > 12 {
			s = r.Intn(13)
		}
		if r.Chance(65, 100) {
			h = append(h, evOp{"event", s})
		} else {
			h = append(h, evOp{"evict", s})
			if s > hi && hi < 12 {
				hi = s
			}
		}
	}
	evRun(g, h, "random")
}
