package main

import (
	"fmt"

	"github.com/iotaledger/hive.go/ds/reactive"

	"verif/harness/vx"
)

type wgOp struct {
	K  string `json:"k"` // add done
	Es []int  `json:"es"`
}

func (o wgOp) coq() string {
	if o.K == "add" {
		return "WG.OAdd " + nList(o.Es)
	}
	return "WG.ODone " + nList(o.Es)
}

func wgRun(g *gen, h []wgOp, tag string) {
	w := reactive.NewWaitGroup[int]()
	fired := 0
	w.OnTrigger(func() { fired++ })
	obs := make([]string, 0, len(h))
	becameEmpty := false
	changes := 0
	fail := ""
	for k, o := range h {
		before := w.PendingElements().Size()
		if o.K == "add" {
			w.Add(o.Es...)
		} else {
			w.Done(o.Es...)
		}
		p := w.PendingElements().ToSlice()
		if len(p) != before {
			changes++
		}
		// a Done call empties the set at some point during the call iff it ends empty after starting non-empty
		// (Done only deletes)
		if o.K == "done" && before > 0 && len(p) == 0 {
			becameEmpty = true
		}
		t := w.WasTriggered()
		obs = append(obs, vx.Pair(nList(p), vx.Bool(t)))
		if fail == "" && (t != becameEmpty || (t && fired != 1) || (!t && fired != 0)) {
			fail = fmt.Sprintf("after op %d: triggered=%v (callbacks %d), pending set became empty after being non-empty: %v", k, t, fired, becameEmpty)
		}
	}
	key := make([]string, len(h))
	for i, o := range h {
		key[i] = o.coq()
		g.st.Count("wg:" + o.K)
	}
	term := fmt.Sprintf("CWG %s %s", vx.ListOf(h, wgOp.coq), vx.List(obs))
	idx := map[string]any{"kind": "wg", "tag": tag, "history": h}
	g.emit("wg", term, key, changes >= 3, idx)
	g.st.Sample(map[string]any{"kind": "wg", "history": key, "observed(pending,triggered)": obs}, 1)
	if fail != "" {
		g.st.Fail(map[string]any{"sig": "", "case": idx, "why": fail})
	}
}

func wgDirected(g *gen) {
	wgRun(g, []wgOp{{"add", []int{1, 2, 2}}, {"add", []int{1}}, {"done", []int{3}}, {"done", []int{1}}, {"done", []int{1, 2}}, {"add", []int{4}}, {"done", []int{4}}}, "directed")
	wgRun(g, []wgOp{{"done", []int{1}}, {"add", []int{}}, {"add", []int{1, 1, 1}}, {"done", []int{1, 1}}}, "directed")
}

func wgRandom(g *gen, n int) {
	r := g.r.Fork()
	if n > 14 {
		n = 14
	}
	h := make([]wgOp, 0, n)
	for len(h) < n {
		k := 1 + r.Intn(3)
		if r.Chance(1, 10) {
			k = 0
		}
		es := make([]int, k)
		for i := range es {
			es[i] = 1 + r.Intn(4)
		}
		// mostly adds first so that the group is usually non-empty for a while
		if r.Chance(2*len(h)+20, 100) {
			h = append(h, wgOp{"done", es})
		} else {
			h = append(h, wgOp{"add", es})
		}
	}
	wgRun(g, h, "random")
}
