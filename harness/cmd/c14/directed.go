package main

import (
	"sync"
	"sync/atomic"
	"time"

	"github.com/iotaledger/hive.go/ds/reactive"
)

// within runs f in a goroutine and reports whether it returned in time (a hang becomes an outcome).
func within(d time.Duration, f func()) bool {
	done := make(chan struct{})
	go func() {
		defer close(done)
		f()
	}()
	select {
	case <-done:
		return true
	case <-time.After(d):
		return false
	}
}

// wgDupRace: D14c. The group holds {1}; Add(1) (a duplicate) races with Done(1). Afterwards either 1 is pending
// again (Add came second) or the set is empty, in which case it became empty after being non-empty and the
// group must have triggered. Free-running (the window is between pendingElements.Add returning false and the
// counter correction in Add; there is no callback inside it). Returns (runs with an empty final set, of which not triggered).
func wgDupRace(iterations int) (empty, lost int) {
	for i := 0; i < iterations; i++ {
		w := reactive.NewWaitGroup[int](1)
		var start, wg sync.WaitGroup
		start.Add(1)
		wg.Add(2)
		go func() { defer wg.Done(); start.Wait(); w.Add(1) }()
		go func() { defer wg.Done(); start.Wait(); w.Done(1) }()
		start.Done()
		wg.Wait()
		if w.PendingElements().Size() == 0 {
			empty++
			if !w.WasTriggered() {
				lost++
			}
		}
	}
	return
}

// ssDeadlockSchedule: D14b, directed. Elements 1 and 2 are in the set. T0 raises the weight of 2 and is held inside
// a HeaviestElement subscriber (it owns the sorted-set mutex there). T1 = Delete(1) queues for that mutex, then
// T2 = weight(1).Set queues behind it holding the execution lock of 1's weight callback. When T0 is released T1
// gets the mutex first and calls the weight subscription's unsubscribe, which needs that execution lock.
// Returns true when T1 and T2 both returned.
func ssDeadlockSchedule(wait time.Duration) (completed bool) {
	weights := []reactive.Variable[int]{reactive.NewVariable[int](), reactive.NewVariable[int](), reactive.NewVariable[int]()}
	s := reactive.NewSortedSet[int, int](func(e int) reactive.Variable[int] { return weights[e] })
	weights[1].Set(5)
	weights[2].Set(3)
	s.Add(1)
	s.Add(2)
	gate := make(chan struct{})
	var armed, entered atomic.Bool
	s.HeaviestElement().OnUpdate(func(_, _ int) {
		if armed.Load() {
			entered.Store(true)
			<-gate
		}
	})
	armed.Store(true)
	var wg sync.WaitGroup
	wg.Add(3)
	go func() { defer wg.Done(); weights[2].Set(9) }() // T0: 2 becomes the heaviest -> subscriber blocks under the mutex
	for !entered.Load() {
		time.Sleep(time.Millisecond)
	}
	armed.Store(false)
	go func() { defer wg.Done(); s.Delete(1) }() // T1
	time.Sleep(30 * time.Millisecond)
	go func() { defer wg.Done(); weights[1].Set(1) }() // T2
	time.Sleep(30 * time.Millisecond)
	close(gate)
	return within(wait, wg.Wait)
}

// wgDupDirected: D14c by a directed schedule (hook in Add, tag verif). Group {1}; A = Add(1) is stopped after it saw
// 1 pending (counter already raised to 2); B = Done(1) runs completely (deletes 1, counter 1, no trigger); A resumes
// and corrects the counter to 0. The pending set became empty after being non-empty: the group must be triggered.
// Returns (finished in time, pending count, triggered).
func wgDupDirected(wait time.Duration) (finished bool, pending int, triggered bool) {
	w := reactive.NewWaitGroup[int](1)
	reached, release := make(chan struct{}), make(chan struct{})
	var once sync.Once
	reactive.VerifHookWaitGroupAddDuplicate = func() {
		once.Do(func() { close(reached); <-release })
	}
	defer func() { reactive.VerifHookWaitGroupAddDuplicate = nil }()
	finished = within(wait, func() {
		var wg sync.WaitGroup
		wg.Add(1)
		go func() { defer wg.Done(); w.Add(1) }()
		<-reached
		w.Done(1)
		close(release)
		wg.Wait()
	})
	return finished, w.PendingElements().Size(), w.WasTriggered()
}

// evictMaxSlot: Evict(maximum of the slot type) must return (the loop variable of evict must not wrap around).
func evictMaxSlot(wait time.Duration) bool {
	e := reactive.NewEvictionState[uint8]()
	ev := e.EvictionEvent(255)
	ok := within(wait, func() { e.Evict(255) })
	return ok && ev.WasTriggered() && e.LastEvictedSlot() == 255
}
