// C14, first-use races inside the derived reactive objects: the FIRST operations on a brand-new object (or on a key the
// object has never seen), issued by several goroutines at once. The free-running family (conc.go) starts its goroutines
// through a sync.WaitGroup, so their first calls are microseconds apart and whatever an implementation sets up on first
// use (the stored event of a slot, the record of an element, the first subscription of a source, a lazily created map
// entry in a helper package) is practically always set up by one goroutine alone. Here every round builds fresh objects
// and releases k = 2..4 persistent workers through a spin barrier (release on the last arrival or at a common clock
// deadline, per-worker skews of 0..63 spin iterations, batches of rounds run back to back; same construction as
// harness/cmd/c15/barrier.go) into one or two first operations each:
//
//	ev  EvictionState.EvictionEvent(slot) of the same never-requested slot (+ a neighbour slot) and OnTrigger on the result
//	sn  DerivedSet.InheritFrom(source) / source.Add(same new element) / source.SubtractReactive(other) / first OnUpdate
//	    subscription of the derived set, on sources that have never been subscribed to
//	ct  Counter.Monitor(input) / input.Set on a fresh counter and never-subscribed inputs
//	wg  WaitGroup.Add(same new element) / Done / OnTrigger on a fresh group
//	ss  SortedSet.Add(same new element) / weight.Set on a fresh sorted set
//	dv  NewDerivedVariable2 over never-subscribed inputs / input.Set / InheritFrom of a never-subscribed derived variable
//
// When all workers have finished, the driver goroutine alone performs the sequential rest (Evict, the last Done) and judges
// with the defining function of the kind (the oracles of conc.go), plus what "the first use happened once" means for the
// callers: every caller of EvictionEvent(slot) for a not yet evicted slot got THE event of that slot (one object; it is
// triggered iff slot <= LastEvictedSlot and the OnTrigger callback of every caller ran exactly once then), exactly one of
// the racing Add(e) calls for a new element returned true, a subscriber saw every element of the derived set exactly once.
package main

import (
	"fmt"
	"runtime"
	"strings"
	"sync/atomic"
	"time"

	"github.com/iotaledger/hive.go/ds"
	"github.com/iotaledger/hive.go/ds/reactive"

	"verif/harness/vx"
)

// ---------------------------------------------------------------------------------------------------- spin barrier

const barrierMaxK = 4

// spinGate: the spin barrier of one round
type spinGate struct {
	k        int
	deadline bool // release at a common clock deadline instead of on the last arrival
	skew     [barrierMaxK]int
	arrived  atomic.Int32
	goAt     atomic.Int64 // deadline mode: unix nanos published by the last arriver
}

// spinRound: one barrier-released round. run(g) is executed by worker g < k (it starts with the gate), judge by the
// driver after all workers have finished the round's batch: ("", "") when the round is fine.
type spinRound interface {
	run(g int)
	judge() (kind, why string)
}

var barrierSink atomic.Int64

// spinUntil: busy wait (no scheduler call in the fast path: the point is to leave within nanoseconds of the others);
// yields now and then so that a descheduled partner on a busy machine cannot make this burn a core for long, and gives up
// after ~2 s (the worker then proceeds unsynchronised: only the simultaneity is lost, never the oracle's soundness).
func spinUntil(cond func() bool) {
	for i := 1; !cond(); i++ {
		if i%4096 == 0 {
			runtime.Gosched()
			if i > 1<<24 {
				return
			}
		}
	}
}

// wait: worker g passes the gate (arrival, release, its skew)
func (rd *spinGate) wait(g int) {
	k := int32(rd.k)
	if rd.deadline {
		if rd.arrived.Add(1) == k {
			rd.goAt.Store(time.Now().UnixNano() + 3000)
		}
		spinUntil(func() bool { t := rd.goAt.Load(); return t != 0 && time.Now().UnixNano() >= t })
	} else {
		rd.arrived.Add(1)
		spinUntil(func() bool { return rd.arrived.Load() >= k })
	}
	x := 0
	for i := 0; i < rd.skew[g]; i++ {
		x += i
	}
	barrierSink.Add(int64(x & 1))
}

// drawGate draws k (0: random 2..4), the release mode and the skews
func drawGate(r *vx.Rng, gt *spinGate, k int) {
	if k == 0 {
		k = 2 + r.Intn(barrierMaxK-1)
	}
	gt.k, gt.deadline = k, r.Chance(1, 3)
	for g := 0; g < k; g++ {
		if r.Chance(1, 2) {
			gt.skew[g] = r.Intn(64)
		}
	}
}

func (rd *spinGate) String() string {
	rel := "arrival"
	if rd.deadline {
		rel = "deadline"
	}
	return fmt.Sprintf("k=%d release=%s skew=%v", rd.k, rel, rd.skew[:rd.k])
}

// bBatch: the rounds the workers run back to back, re-synchronising among themselves before each one. While all k
// worker threads are on a processor a round takes about a microsecond, so one scheduling quantum yields a whole batch of
// simultaneous arrivals even when the machine is oversubscribed (a descheduled worker costs one wait per batch).
type bBatch struct {
	k      int
	rounds []spinRound
	shapes []string
	done   atomic.Int32
}

const barrierBatch = 32

// spinDrive: 4 persistent workers run batches of rounds drawn by newRound (k = 0: it also draws the number of workers;
// all rounds of a batch have the same k); the driver judges every round of a finished batch (the workers are idle then:
// whatever judge does to the round's objects is quiescent). Stops early after maxWall. Counters are filed under tag.
func spinDrive(st *vx.Stats, tag string, rounds int, maxWall time.Duration, newRound func(k int) (spinRound, int, string)) {
	if rounds <= 0 {
		return
	}
	if runtime.GOMAXPROCS(0) < 2 || runtime.NumCPU() < 2 {
		st.Count(tag + ":skipped-single-processor")
		return
	}
	var cur atomic.Pointer[bBatch]
	var quit atomic.Bool
	var exited atomic.Int32
	for g := 0; g < barrierMaxK; g++ {
		go func(g int) {
			defer exited.Add(1)
			var last *bBatch
			for i := 1; ; i++ {
				b := cur.Load()
				if b != last && b != nil {
					last = b
					if g < b.k {
						for _, rd := range b.rounds {
							rd.run(g)
						}
						b.done.Add(1)
					}
					i = 0
					continue
				}
				if quit.Load() {
					return
				}
				if i%2048 == 0 {
					runtime.Gosched()
				}
			}
		}(g)
	}
	start := time.Now()
	fails, n := 0, 0
	var running *bBatch
	// finish: waits for the running batch (watchdog) and judges its rounds; false = hung
	finish := func() bool {
		b := running
		running = nil
		if b == nil {
			return true
		}
		t0 := time.Now()
		for i := 1; b.done.Load() < int32(b.k); i++ {
			if i%64 == 0 {
				runtime.Gosched()
				if i%65536 == 0 && time.Since(t0) > concWatchdog {
					st.Fail(map[string]any{"sig": "", "kind": tag + ": barrier-released concurrent first operations hung (watchdog)", "round": n, "shapes": b.shapes})
					return false
				}
			}
		}
		for i, rd := range b.rounds {
			st.Count(tag + ":rounds")
			st.Count(fmt.Sprintf("%s:k=%d", tag, b.k))
			var kind, why string
			if !within(concWatchdog, func() { kind, why = rd.judge() }) {
				st.Fail(map[string]any{"sig": "", "kind": tag + ": the sequential rest of a round (Evict / Done / reads) hung (watchdog)", "round": n + i, "shape": b.shapes[i]})
				return false
			}
			if why != "" {
				fails++
				st.Count(tag + ":failed-rounds")
				if fails <= 3 {
					st.Fail(map[string]any{"sig": "", "kind": kind, "round": n + i, "shape": b.shapes[i], "why": why})
				}
			}
		}
		n += len(b.rounds)
		return true
	}
	ok := true
	for left := rounds; left > 0 && ok; {
		if time.Since(start) > maxWall {
			st.Count(tag + ":stopped-at-wall-limit")
			break
		}
		sz := barrierBatch
		if left < sz {
			sz = left
		}
		left -= sz
		next := &bBatch{} // built while the workers run the previous batch
		for i := 0; i < sz; i++ {
			rd, k, shape := newRound(next.k)
			next.k = k
			next.rounds = append(next.rounds, rd)
			next.shapes = append(next.shapes, shape)
		}
		if ok = finish(); ok {
			running = next
			cur.Store(next)
		}
	}
	if ok {
		ok = finish()
	}
	quit.Store(true)
	for i := 0; ok && exited.Load() < barrierMaxK && i < 2000; i++ {
		time.Sleep(time.Millisecond)
	}
	st.Extra[tag+"_ms"] = time.Since(start).Milliseconds()
}

// ------------------------------------------------------------------------------------------------ operations, drawing

const fSlots = 2 // operations per worker

// fOp: one operation of a worker; K = 0: none. The meaning of K, I, V depends on the round kind (names in the tables).
type fOp struct{ K, I, V int }

type fOps [barrierMaxK][fSlots]fOp

func (o *fOps) shape(k int, name func(fOp) string) string {
	s := ""
	for g := 0; g < k; g++ {
		if g > 0 {
			s += " | "
		}
		for i := 0; i < fSlots && o[g][i].K != 0; i++ {
			if i > 0 {
				s += ";"
			}
			s += name(o[g][i])
		}
	}
	return s
}

// drawOps: the first operations of workers 0 and 1 are a drawn combination of operation kinds (so that every pair is
// exercised as the very first access), the rest is random; the second operation exists with probability 1/2. fill
// draws the arguments of an operation of kind K; same = the first operations of workers 0 and 1 use the same arguments
// when their kinds agree (the same new slot / element / source).
func drawOps(r *vx.Rng, k int, combos [][2]int, any []int, fill func(K int) fOp) (o fOps, combo [2]int) {
	combo = vx.Pick(r, combos)
	for g := 0; g < k; g++ {
		if g < 2 {
			o[g][0] = fill(combo[g])
			if g == 1 && combo[0] == combo[1] && r.Chance(3, 4) {
				o[1][0] = o[0][0]
			}
		} else {
			o[g][0] = fill(vx.Pick(r, any))
			if r.Chance(1, 2) {
				o[g][0] = o[r.Intn(2)][0] // a third / fourth caller of the same first operation
			}
		}
		if r.Chance(1, 2) {
			o[g][1] = fill(vx.Pick(r, any))
		}
	}
	return
}

// ------------------------------------------------------------------------------------------------ (6) EvictionState

const (
	fEvEvent = 1 // EvictionEvent(I) + OnTrigger on the result
)

type fEvRound struct {
	spinGate
	e     reactive.EvictionState[uint32]
	pre   int // Evict(pre) by the driver before the race (-1: none)
	evict []uint32
	ops   fOps
	evs   [barrierMaxK][fSlots]reactive.Event
	fired [barrierMaxK][fSlots]atomic.Int32
}

func newFreshEvRound(r *vx.Rng, st *vx.Stats, k int) (*fEvRound, string) {
	rd := &fEvRound{e: reactive.NewEvictionState[uint32](), pre: -1}
	drawGate(r, &rd.spinGate, k)
	if r.Chance(1, 2) {
		rd.pre = r.Intn(3)
		rd.e.Evict(uint32(rd.pre))
	}
	base := rd.pre + 1 + r.Intn(3)
	rd.ops, _ = drawOps(r, rd.k, [][2]int{{fEvEvent, fEvEvent}}, []int{fEvEvent}, func(int) fOp {
		return fOp{K: fEvEvent, I: base + r.Intn(2)}
	})
	// the sequential rest: the slots are evicted in one or two steps; in a quarter of the rounds only up to base
	switch r.Intn(4) {
	case 0:
		rd.evict = []uint32{uint32(base)}
	case 1:
		rd.evict = []uint32{uint32(base), uint32(base + 1)}
	default:
		rd.evict = []uint32{uint32(base + 1)}
	}
	shape := rd.ops.shape(rd.k, func(o fOp) string { return fmt.Sprintf("EvictionEvent(%d).OnTrigger", o.I) })
	st.Count("fresh:ev")
	return rd, fmt.Sprintf("fresh EvictionState[uint32]: Evict(pre=%d) then %s ops=[%s] then Evict%v", rd.pre, rd.spinGate.String(), shape, rd.evict)
}

func (rd *fEvRound) run(g int) {
	rd.wait(g)
	for s := 0; s < fSlots; s++ {
		if o := rd.ops[g][s]; o.K == fEvEvent {
			ev := rd.e.EvictionEvent(uint32(o.I))
			rd.evs[g][s] = ev
			c := &rd.fired[g][s]
			ev.OnTrigger(func() { c.Add(1) })
		}
	}
}

const fEvKind = "concurrent first EvictionEvent calls for a slot of a fresh EvictionState"

func (rd *fEvRound) judge() (string, string) {
	// the property at a quiescent point: triggered <=> slot <= last evicted slot (nothing evicted: nothing triggered)
	check := func(when string) string {
		last, any := rd.e.LastEvictedSlot(), rd.pre >= 0 || when != "before Evict"
		for g := 0; g < rd.k; g++ {
			for s := 0; s < fSlots; s++ {
				ev := rd.evs[g][s]
				if ev == nil {
					continue
				}
				slot := uint32(rd.ops[g][s].I)
				want := any && slot <= last
				if got := ev.WasTriggered(); got != want {
					return fmt.Sprintf("%s: the event handed to worker %d (op %d) for slot %d has WasTriggered() = %v, LastEvictedSlot() = %d (evicted anything: %v)", when, g, s, slot, got, last, any)
				}
				wantN := int32(0)
				if want {
					wantN = 1
				}
				if n := rd.fired[g][s].Load(); n != wantN {
					return fmt.Sprintf("%s: the OnTrigger callback registered by worker %d (op %d) on the event of slot %d ran %d times, LastEvictedSlot() = %d (expected %d)", when, g, s, slot, n, last, wantN)
				}
			}
		}
		return ""
	}
	if why := check("before Evict"); why != "" {
		return fEvKind, why
	}
	// one event per slot: all callers that asked while the slot was not evicted hold the same object, and so does a later
	// caller (reported only when the property's own predicate below finds nothing: a second object that is triggered on
	// time would still be a get-or-create that ran twice)
	ident := ""
	for g := 0; g < rd.k && ident == ""; g++ {
		for s := 0; s < fSlots; s++ {
			if rd.evs[g][s] == nil {
				continue
			}
			if late := rd.e.EvictionEvent(uint32(rd.ops[g][s].I)); late != rd.evs[g][s] {
				ident = fmt.Sprintf("EvictionEvent(%d) after the race returns a different event than the one handed to worker %d (op %d) during the race (the slot is not evicted: one stored event per slot)", rd.ops[g][s].I, g, s)
				break
			}
		}
	}
	for _, s := range rd.evict {
		rd.e.Evict(s)
		if why := check(fmt.Sprintf("after Evict(%d)", s)); why != "" {
			if ident != "" {
				why += "; before the Evict: " + ident
			}
			return fEvKind, why
		}
	}
	if ident != "" {
		return fEvKind, ident
	}
	return "", ""
}

// ------------------------------------------------------------------------------------- (2) DerivedSet / SubtractReactive

const (
	fSnInherit = 1 + iota // d.InheritFrom(source I)
	fSnAdd                // source I .Add(V)
	fSnSub                // source0.SubtractReactive(source1)
	fSnWatch              // d.OnUpdate(counting subscriber)
)

const fSnUniverse = 3

type fSnRound struct {
	spinGate
	src     [2]reactive.Set[int]
	initial [2][fSnUniverse + 1]bool
	d       reactive.DerivedSet[int]
	ops     fOps
	ret     [barrierMaxK][fSlots]bool
	subs    [barrierMaxK][fSlots]reactive.Set[int]
	seen    [barrierMaxK][fSlots]*[fSnUniverse + 1]atomic.Int32 // watcher: net additions per element
}

func newFreshSnRound(r *vx.Rng, st *vx.Stats, k int) (*fSnRound, string) {
	rd := &fSnRound{d: reactive.NewDerivedSet[int]()}
	drawGate(r, &rd.spinGate, k)
	init := ""
	for i := range rd.src {
		rd.src[i] = reactive.NewSet[int]()
		if r.Chance(1, 3) {
			e := 1 + r.Intn(fSnUniverse)
			rd.src[i].Add(e)
			rd.initial[i][e] = true
			init += fmt.Sprintf(" source%d={%d}", i, e)
		}
	}
	e0 := 1 + r.Intn(fSnUniverse)
	var combo [2]int
	rd.ops, combo = drawOps(r, rd.k, [][2]int{{fSnInherit, fSnInherit}, {fSnInherit, fSnAdd}, {fSnAdd, fSnInherit}, {fSnAdd, fSnAdd}, {fSnAdd, fSnAdd},
		{fSnSub, fSnAdd}, {fSnAdd, fSnSub}, {fSnSub, fSnSub}, {fSnWatch, fSnInherit}, {fSnInherit, fSnWatch}, {fSnWatch, fSnWatch}, {fSnSub, fSnInherit}},
		[]int{fSnInherit, fSnInherit, fSnAdd, fSnAdd, fSnAdd, fSnSub, fSnWatch}, func(K int) fOp {
			o := fOp{K: K, I: r.Intn(2), V: e0}
			if r.Chance(1, 4) {
				o.V = 1 + r.Intn(fSnUniverse)
			}
			return o
		})
	for g := 0; g < rd.k; g++ {
		for s := 0; s < fSlots; s++ {
			if rd.ops[g][s].K == fSnWatch {
				rd.seen[g][s] = new([fSnUniverse + 1]atomic.Int32)
			}
		}
	}
	st.Count(fmt.Sprintf("fresh:sn:%sx%s", fSnName(fOp{K: combo[0], I: -1}), fSnName(fOp{K: combo[1], I: -1})))
	return rd, fmt.Sprintf("fresh DerivedSet + 2 fresh sources (%s ): %s ops=[%s]", init, rd.spinGate.String(), rd.ops.shape(rd.k, fSnName))
}

func fSnName(o fOp) string {
	switch o.K {
	case fSnInherit:
		if o.I < 0 {
			return "InheritFrom"
		}
		return fmt.Sprintf("derived.InheritFrom(source%d)", o.I)
	case fSnAdd:
		if o.I < 0 {
			return "Add"
		}
		return fmt.Sprintf("source%d.Add(%d)", o.I, o.V)
	case fSnSub:
		if o.I < 0 {
			return "SubtractReactive"
		}
		return "source0.SubtractReactive(source1)"
	}
	if o.I < 0 {
		return "OnUpdate"
	}
	return "derived.OnUpdate"
}

func (rd *fSnRound) run(g int) {
	rd.wait(g)
	for s := 0; s < fSlots; s++ {
		switch o := rd.ops[g][s]; o.K {
		case fSnInherit:
			rd.d.InheritFrom(rd.src[o.I])
		case fSnAdd:
			rd.ret[g][s] = rd.src[o.I].Add(o.V)
		case fSnSub:
			rd.subs[g][s] = rd.src[0].SubtractReactive(rd.src[1])
		case fSnWatch:
			seen := rd.seen[g][s]
			rd.d.OnUpdate(func(m ds.SetMutations[int]) {
				m.AddedElements().Range(func(e int) {
					if e >= 0 && e <= fSnUniverse {
						seen[e].Add(1)
					}
				})
				m.DeletedElements().Range(func(e int) {
					if e >= 0 && e <= fSnUniverse {
						seen[e].Add(-1)
					}
				})
			})
		}
	}
}

func (rd *fSnRound) judge() (string, string) {
	const kind = "concurrent first operations on a fresh DerivedSet / fresh source sets"
	var inherited [2]bool
	var adds, trues [2][fSnUniverse + 1]int
	for g := 0; g < rd.k; g++ {
		for s := 0; s < fSlots; s++ {
			switch o := rd.ops[g][s]; o.K {
			case fSnInherit:
				inherited[o.I] = true
			case fSnAdd:
				adds[o.I][o.V]++
				if rd.ret[g][s] {
					trues[o.I][o.V]++
				}
			}
		}
	}
	var in [2][fSnUniverse + 1]bool
	for i := range rd.src {
		for _, e := range rd.src[i].ToSlice() {
			in[i][e] = true
		}
		for e := 1; e <= fSnUniverse; e++ {
			if want := rd.initial[i][e] || adds[i][e] > 0; in[i][e] != want {
				return kind, fmt.Sprintf("source%d contains %d: %v after %d Add(%d) calls (initially present: %v)", i, e, in[i][e], adds[i][e], e, rd.initial[i][e])
			}
			wantTrue := 0
			if adds[i][e] > 0 && !rd.initial[i][e] {
				wantTrue = 1
			}
			if trues[i][e] != wantTrue {
				return kind, fmt.Sprintf("%d concurrent source%d.Add(%d) calls (element initially present: %v): %d returned true, expected %d", adds[i][e], i, e, rd.initial[i][e], trues[i][e], wantTrue)
			}
		}
	}
	// derived = union of the inherited sources, every element once
	var inD [fSnUniverse + 1]int
	dv := rd.d.ToSlice()
	for _, e := range dv {
		inD[e]++
	}
	for e := 1; e <= fSnUniverse; e++ {
		want := 0
		if (inherited[0] && in[0][e]) || (inherited[1] && in[1][e]) {
			want = 1
		}
		if inD[e] != want {
			return kind, fmt.Sprintf("after quiescence the derived set is %v: element %d occurs %d times, in the union of the inherited sources (source0 inherited=%v %v, source1 inherited=%v %v) %d times",
				sortedCopy(dv), e, inD[e], inherited[0], sortedCopy(rd.src[0].ToSlice()), inherited[1], sortedCopy(rd.src[1].ToSlice()), want)
		}
	}
	for g := 0; g < rd.k; g++ {
		for s := 0; s < fSlots; s++ {
			if sub := rd.subs[g][s]; sub != nil {
				var inS [fSnUniverse + 1]int
				sv := sub.ToSlice()
				for _, e := range sv {
					inS[e]++
				}
				for e := 1; e <= fSnUniverse; e++ {
					want := 0
					if in[0][e] && !in[1][e] {
						want = 1
					}
					if inS[e] != want {
						return kind, fmt.Sprintf("after quiescence the SubtractReactive result created by worker %d (op %d) is %v, source0 = %v, source1 = %v", g, s, sortedCopy(sv), sortedCopy(rd.src[0].ToSlice()), sortedCopy(rd.src[1].ToSlice()))
					}
				}
			}
			if seen := rd.seen[g][s]; seen != nil {
				for e := 1; e <= fSnUniverse; e++ {
					if n := int(seen[e].Load()); n != inD[e] {
						return kind, fmt.Sprintf("the subscriber registered by worker %d (op %d) on the derived set was told %d net additions of element %d, the derived set is %v", g, s, n, e, sortedCopy(dv))
					}
				}
			}
		}
	}
	return "", ""
}

// ----------------------------------------------------------------------------------------------------- (3) Counter

const (
	fCtMonitor = 1 + iota // ctr.Monitor(input I)
	fCtSet                // input I .Set(V)
)

type fCtRound struct {
	spinGate
	cnd int
	in  [2]reactive.Variable[int]
	ctr reactive.Counter[int]
	ops fOps
}

func fCtName(o fOp) string {
	if o.K == fCtMonitor {
		return fmt.Sprintf("Monitor(in%d)", o.I)
	}
	return fmt.Sprintf("in%d.Set(%d)", o.I, o.V)
}

func newFreshCtRound(r *vx.Rng, st *vx.Stats, k int) (*fCtRound, string) {
	rd := &fCtRound{cnd: r.Intn(3)}
	drawGate(r, &rd.spinGate, k)
	init := ""
	for i := range rd.in {
		rd.in[i] = reactive.NewVariable[int]()
		if r.Bool() {
			v := r.Intn(4) - 1
			rd.in[i].Set(v)
			init += fmt.Sprintf(" in%d=%d", i, v)
		}
	}
	if rd.cnd == 0 {
		rd.ctr = reactive.NewCounter[int]()
	} else {
		cnd := rd.cnd
		rd.ctr = reactive.NewCounter[int](func(v int) bool { return condHolds(cnd, v) })
	}
	i0 := r.Intn(2)
	rd.ops, _ = drawOps(r, rd.k, [][2]int{{fCtMonitor, fCtMonitor}, {fCtMonitor, fCtMonitor}, {fCtMonitor, fCtSet}, {fCtSet, fCtMonitor}},
		[]int{fCtMonitor, fCtMonitor, fCtSet}, func(K int) fOp {
			o := fOp{K: K, I: i0, V: r.Intn(4) - 1}
			if r.Chance(1, 3) {
				o.I = 1 - i0
			}
			return o
		})
	st.Count("fresh:ct")
	return rd, fmt.Sprintf("fresh Counter (%s) over fresh inputs (%s ): %s ops=[%s]", condNames[rd.cnd], init, rd.spinGate.String(), rd.ops.shape(rd.k, fCtName))
}

func (rd *fCtRound) run(g int) {
	rd.wait(g)
	for s := 0; s < fSlots; s++ {
		switch o := rd.ops[g][s]; o.K {
		case fCtMonitor:
			rd.ctr.Monitor(rd.in[o.I])
		case fCtSet:
			rd.in[o.I].Set(o.V)
		}
	}
}

func (rd *fCtRound) judge() (string, string) {
	want, mons := 0, 0
	for g := 0; g < rd.k; g++ {
		for s := 0; s < fSlots; s++ {
			if o := rd.ops[g][s]; o.K == fCtMonitor {
				mons++
				if condHolds(rd.cnd, rd.in[o.I].Get()) {
					want++
				}
			}
		}
	}
	if got := rd.ctr.Get(); got != want {
		return "concurrent first Monitor calls on a fresh Counter", fmt.Sprintf("after quiescence counter = %d; %d monitors, of which %d on an input satisfying the condition (in0 = %d, in1 = %d)", got, mons, want, rd.in[0].Get(), rd.in[1].Get())
	}
	return "", ""
}

// --------------------------------------------------------------------------------------------------- (5) WaitGroup

const (
	fWgAdd       = 1 + iota // w.Add(V)
	fWgDone                 // w.Done(V)
	fWgOnTrigger            // w.OnTrigger(counting callback)
)

type fWgRound struct {
	spinGate
	w     reactive.WaitGroup[int]
	ops   fOps
	fired [barrierMaxK][fSlots]atomic.Int32
}

func fWgName(o fOp) string {
	switch o.K {
	case fWgAdd:
		return fmt.Sprintf("Add(%d)", o.V)
	case fWgDone:
		return fmt.Sprintf("Done(%d)", o.V)
	}
	return "OnTrigger"
}

func newFreshWgRound(r *vx.Rng, st *vx.Stats, k int) (*fWgRound, string) {
	rd := &fWgRound{w: reactive.NewWaitGroup[int]()}
	drawGate(r, &rd.spinGate, k)
	e0 := 1 + r.Intn(2)
	rd.ops, _ = drawOps(r, rd.k, [][2]int{{fWgAdd, fWgAdd}, {fWgAdd, fWgAdd}, {fWgAdd, fWgAdd}, {fWgAdd, fWgDone}, {fWgDone, fWgAdd}, {fWgOnTrigger, fWgAdd}, {fWgAdd, fWgOnTrigger}},
		[]int{fWgAdd, fWgAdd, fWgAdd, fWgDone, fWgOnTrigger}, func(K int) fOp {
			o := fOp{K: K, V: e0}
			if r.Chance(1, 4) {
				o.V = 3 - e0
			}
			return o
		})
	st.Count("fresh:wg")
	return rd, fmt.Sprintf("fresh WaitGroup: %s ops=[%s] then Done(1, 2)", rd.spinGate.String(), rd.ops.shape(rd.k, fWgName))
}

func (rd *fWgRound) run(g int) {
	rd.wait(g)
	for s := 0; s < fSlots; s++ {
		switch o := rd.ops[g][s]; o.K {
		case fWgAdd:
			rd.w.Add(o.V)
		case fWgDone:
			rd.w.Done(o.V)
		case fWgOnTrigger:
			c := &rd.fired[g][s]
			rd.w.OnTrigger(func() { c.Add(1) })
		}
	}
}

func (rd *fWgRound) judge() (string, string) {
	const kind = "concurrent first Add / Done calls on a fresh WaitGroup"
	adds, dones := 0, 0
	for g := 0; g < rd.k; g++ {
		for s := 0; s < fSlots; s++ {
			switch rd.ops[g][s].K {
			case fWgAdd:
				adds++
			case fWgDone:
				dones++
			}
		}
	}
	callbacks := func(when string) string {
		want := int32(0)
		if rd.w.WasTriggered() {
			want = 1
		}
		for g := 0; g < rd.k; g++ {
			for s := 0; s < fSlots; s++ {
				if rd.ops[g][s].K == fWgOnTrigger {
					if n := rd.fired[g][s].Load(); n != want {
						return fmt.Sprintf("%s: WasTriggered() = %v, the OnTrigger callback registered by worker %d (op %d) ran %d times", when, want == 1, g, s, n)
					}
				}
			}
		}
		return ""
	}
	pending, trig := rd.w.PendingElements().Size(), rd.w.WasTriggered()
	switch {
	case adds == 0 && trig:
		return kind, "the group triggered although nothing was ever added"
	case dones == 0 && trig:
		return kind, fmt.Sprintf("the group triggered although no Done was called (%d Add calls, %d pending elements)", adds, pending)
	case adds > 0 && pending == 0 && !trig:
		return kind, fmt.Sprintf("after quiescence nothing is pending (%d Add, %d Done calls: the last pending element was marked done), yet the group has not triggered", adds, dones)
	}
	if why := callbacks("after the race"); why != "" {
		return kind, why
	}
	// the sequential rest: make sure something was pending, then mark everything done
	if adds == 0 {
		rd.w.Add(1)
	}
	rd.w.Done(1, 2)
	if pending, trig = rd.w.PendingElements().Size(), rd.w.WasTriggered(); pending != 0 || !trig {
		return kind, fmt.Sprintf("after Done of every element: %d pending, triggered = %v (the last pending element was marked done: must have triggered)", pending, trig)
	}
	if why := callbacks("after Done of every element"); why != "" {
		return kind, why
	}
	return "", ""
}

// --------------------------------------------------------------------------------------------------- (4) SortedSet

const (
	fSsAdd    = 1 + iota // s.Add(V)
	fSsWeight            // weight(I).Set(V)
)

type fSsRound struct {
	spinGate
	tb  bool
	u   *sortedSetUnderTest
	ops fOps
	ret [barrierMaxK][fSlots]bool
}

func fSsName(o fOp) string {
	if o.K == fSsAdd {
		return fmt.Sprintf("Add(%d)", o.V)
	}
	return fmt.Sprintf("weight(%d).Set(%d)", o.I, o.V)
}

func newFreshSsRound(r *vx.Rng, st *vx.Stats, k int) (*fSsRound, string) {
	rd := &fSsRound{tb: r.Bool()}
	drawGate(r, &rd.spinGate, k)
	if rd.tb {
		rd.u = newSSUT[lel](true)
	} else {
		rd.u = newSSUT[int](false)
	}
	init := ""
	for e := 1; e <= 3; e++ {
		if r.Chance(1, 3) {
			w := r.Intn(4) - 1
			rd.u.setWeight(e, w)
			init += fmt.Sprintf(" weight(%d)=%d", e, w)
		}
	}
	e0 := 1 + r.Intn(3)
	rd.ops, _ = drawOps(r, rd.k, [][2]int{{fSsAdd, fSsAdd}, {fSsAdd, fSsAdd}, {fSsAdd, fSsAdd}, {fSsAdd, fSsWeight}, {fSsWeight, fSsAdd}},
		[]int{fSsAdd, fSsAdd, fSsAdd, fSsWeight}, func(K int) fOp {
			e := e0
			if r.Chance(1, 3) {
				e = 1 + r.Intn(3)
			}
			if K == fSsAdd {
				return fOp{K: K, V: e}
			}
			return fOp{K: K, I: e, V: r.Intn(4) - 1}
		})
	st.Count("fresh:ss")
	return rd, fmt.Sprintf("fresh SortedSet (tie-break by Less: %v;%s ): %s ops=[%s]", rd.tb, init, rd.spinGate.String(), rd.ops.shape(rd.k, fSsName))
}

func (rd *fSsRound) run(g int) {
	rd.wait(g)
	for s := 0; s < fSlots; s++ {
		switch o := rd.ops[g][s]; o.K {
		case fSsAdd:
			rd.ret[g][s] = rd.u.add(o.V)
		case fSsWeight:
			rd.u.setWeight(o.I, o.V)
		}
	}
}

func (rd *fSsRound) judge() (string, string) {
	const kind = "concurrent first Add calls on a fresh SortedSet"
	var adds, trues [4]int
	for g := 0; g < rd.k; g++ {
		for s := 0; s < fSlots; s++ {
			if o := rd.ops[g][s]; o.K == fSsAdd {
				adds[o.V]++
				if rd.ret[g][s] {
					trues[o.V]++
				}
			}
		}
	}
	for e := 1; e <= 3; e++ {
		want := 0
		if adds[e] > 0 {
			want = 1
		}
		if trues[e] != want || rd.u.has(e) != (adds[e] > 0) {
			return kind, fmt.Sprintf("%d concurrent Add(%d) calls: %d returned true (expected %d), Has(%d) = %v", adds[e], e, trues[e], want, e, rd.u.has(e))
		}
	}
	if why := judgeSorted(rd.u, rd.tb); why != "" {
		return kind, "after quiescence: " + why
	}
	return "", ""
}

// ------------------------------------------------------------------------------------------------ (1) DerivedVariable

const (
	fDvDerive  = 1 + iota // NewDerivedVariable2(compute, in0, in1)
	fDvSet                // input I .Set(V)
	fDvInherit            // a new variable inherits from the derived variable built before the race
)

type fDvRound struct {
	spinGate
	f   int
	in  []reactive.Variable[int]
	d0  reactive.DerivedVariable[int]
	ops fOps
	ds  [barrierMaxK][fSlots]reactive.DerivedVariable[int]
	ts  [barrierMaxK][fSlots]reactive.Variable[int]
}

func fDvName(o fOp) string {
	switch o.K {
	case fDvDerive:
		return "NewDerivedVariable2(in0,in1)"
	case fDvSet:
		return fmt.Sprintf("in%d.Set(%d)", o.I, o.V)
	}
	return "NewVariable().InheritFrom(d0)"
}

func newFreshDvRound(r *vx.Rng, st *vx.Stats, k int) (*fDvRound, string) {
	rd := &fDvRound{f: r.Intn(5)} // pure compute functions only
	drawGate(r, &rd.spinGate, k)
	init := ""
	rd.in = []reactive.Variable[int]{reactive.NewVariable[int](), reactive.NewVariable[int]()}
	for i := range rd.in {
		if r.Bool() {
			v := r.Intn(7) - 3
			rd.in[i].Set(v)
			init += fmt.Sprintf(" in%d=%d", i, v)
		}
	}
	withD0 := r.Bool()
	if withD0 {
		rd.d0 = newDerived(rd.f, rd.in, 0)
	}
	any := []int{fDvDerive, fDvDerive, fDvSet, fDvSet}
	combos := [][2]int{{fDvDerive, fDvDerive}, {fDvDerive, fDvSet}, {fDvSet, fDvDerive}}
	if withD0 {
		any = append(any, fDvInherit, fDvInherit)
		combos = [][2]int{{fDvInherit, fDvInherit}, {fDvInherit, fDvSet}, {fDvSet, fDvInherit}, {fDvInherit, fDvDerive}}
	}
	rd.ops, _ = drawOps(r, rd.k, combos, any, func(K int) fOp { return fOp{K: K, I: r.Intn(2), V: r.Intn(7) - 3} })
	st.Count("fresh:dv")
	return rd, fmt.Sprintf("fresh inputs (%s ), compute %s, derived variable d0 built before the race: %v; %s ops=[%s]", init, fnNames[rd.f], withD0, rd.spinGate.String(), rd.ops.shape(rd.k, fDvName))
}

func (rd *fDvRound) run(g int) {
	rd.wait(g)
	for s := 0; s < fSlots; s++ {
		switch o := rd.ops[g][s]; o.K {
		case fDvDerive:
			rd.ds[g][s] = newDerived(rd.f, rd.in, 0)
		case fDvSet:
			rd.in[o.I].Set(o.V)
		case fDvInherit:
			t := reactive.NewVariable[int]()
			t.InheritFrom(rd.d0)
			rd.ts[g][s] = t
		}
	}
}

func (rd *fDvRound) judge() (string, string) {
	const kind = "concurrent first subscriptions of fresh DerivedVariable inputs"
	xs := []int{rd.in[0].Get(), rd.in[1].Get()}
	want := applyFn(rd.f, 0, xs)
	if rd.d0 != nil && rd.d0.Get() != want {
		return kind, fmt.Sprintf("%s: after quiescence d0 = %d, compute(inputs %v) = %d", fnNames[rd.f], rd.d0.Get(), xs, want)
	}
	for g := 0; g < rd.k; g++ {
		for s := 0; s < fSlots; s++ {
			if d := rd.ds[g][s]; d != nil && d.Get() != want {
				return kind, fmt.Sprintf("%s: after quiescence the derived variable built by worker %d (op %d) = %d, compute(inputs %v) = %d", fnNames[rd.f], g, s, d.Get(), xs, want)
			}
			if t := rd.ts[g][s]; t != nil && t.Get() != want {
				return kind, fmt.Sprintf("%s: after quiescence the variable of worker %d (op %d) inheriting from d0 = %d, d0 = %d, compute(inputs %v) = %d", fnNames[rd.f], g, s, t.Get(), rd.d0.Get(), xs, want)
			}
		}
	}
	return "", ""
}

// ------------------------------------------------------------------------------------------------------------ driver

// freshFirstUse runs `rounds` rounds (2/6 EvictionState, 1/6 each DerivedSet, Counter, WaitGroup, SortedSet; the
// DerivedVariable rounds take the place of every 12th), stops early after maxWall
func freshFirstUse(r *vx.Rng, st *vx.Stats, rounds int, maxWall time.Duration) {
	spinDrive(st, "fresh", rounds, maxWall, func(k int) (rd spinRound, kk int, shape string) {
		var gt *spinGate
		switch r.Intn(12) {
		case 0, 1, 2, 3:
			x, s := newFreshEvRound(r, st, k)
			rd, gt, shape = x, &x.spinGate, s
		case 4, 5:
			x, s := newFreshSnRound(r, st, k)
			rd, gt, shape = x, &x.spinGate, s
		case 6, 7:
			x, s := newFreshCtRound(r, st, k)
			rd, gt, shape = x, &x.spinGate, s
		case 8, 9:
			x, s := newFreshWgRound(r, st, k)
			rd, gt, shape = x, &x.spinGate, s
		case 10:
			x, s := newFreshSsRound(r, st, k)
			rd, gt, shape = x, &x.spinGate, s
		default:
			x, s := newFreshDvRound(r, st, k)
			rd, gt, shape = x, &x.spinGate, s
		}
		// distinct = distinct (kind, initial state, operations per worker), whatever the release mode and the skews
		st.Case("fresh:"+strings.Replace(shape, gt.String(), "", 1), true)
		return rd, gt.k, shape
	})
}
