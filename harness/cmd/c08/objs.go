// Object behaviours (round 4 strengthening, class of seeds C08-m10 / C08-m12: the store under the BatchedWriter does not
// implement the batch contract the writer relies on).  Up to here every BatchWriteObject of the harness issued exactly
// one Set of one fresh one-byte value under one key.  The objects of this family ("rich" objects) own 1-3 keys and write
// their full state at every BatchWrite: a Set for every key they hold, a Delete for every key they do not hold, in
// varying order, optionally preceded by the opposite operation on the same key (Delete-then-Set / Set-then-Delete inside
// one BatchWrite), values of 0-6 bytes.  All objects of a case marshal keys and values into ONE scratch buffer that is
// overwritten by the next key / the next object / the next scheduling and scribbled over when BatchWrite returns (the
// store has to have copied what it was given).  The script is sequential: change an object (set keys, delete keys),
// Enqueue it, usually wait until the writer has collected it (its BatchWrite was called), change it again, Enqueue it
// again, ...  With a batch size above the number of schedulings and a batch timer that does not fire (1h; the batch is
// committed by Flush) all schedulings land in ONE batch: Set-then-Delete and Delete-then-Set of one key by two
// schedulings of one object inside one batch.  Other cases use small batches / a running timer and end with
// StopBatchWriter.
// Oracles (Go side, independent of the Coq model): (a) the store, read back completely and byte-exact, equals the
// sequential application of the mutation calls (recorded with a copy of their arguments at call time) of the committed
// batches; (b) for every object the store restricted to its keys equals the state it had at its last committed
// BatchWrite ("committed store contents equal the last BatchWrite of each object"); (c) the writer protocol and
// completeness (judge).  Coq: Corr.objs_ok replays the same log with Muts.apply_muts.
package main

import (
	"bytes"
	"fmt"
	"sort"
	"sync"
	"sync/atomic"
	"time"

	"github.com/iotaledger/hive.go/kvstore"
	"github.com/iotaledger/hive.go/kvstore/mapdb"

	"verif/harness/vx"
)

type rmut struct {
	del bool
	key []byte
	val []byte
}

func (m rmut) String() string {
	if m.del {
		return fmt.Sprintf("Delete(%x)", m.key)
	}
	return fmt.Sprintf("Set(%x,%x)", m.key, m.val)
}

func keyNat(k []byte) int { // keys of this family are two bytes (object, slot)
	if len(k) != 2 {
		return 1 << 20
	}
	return int(k[0])*8 + int(k[1])
}

func (m rmut) coq() string {
	if m.del {
		return fmt.Sprintf("MDel %d", keyNat(m.key))
	}
	return fmt.Sprintf("MSet %d %s", keyNat(m.key), natList(m.val))
}

func natList(b []byte) string {
	return vx.ListOf(b, func(x byte) string { return fmt.Sprint(int(x)) })
}

type rworld struct {
	mu      sync.Mutex
	events  []event
	wmuts   [][]rmut // mutations issued by the i-th BatchWrite call (order of the kWrite events)
	cur     int      // index of the BatchWrite call in progress, -1 = none
	curOV   [2]int
	stray   []string // mutation calls outside of a BatchWrite call
	inner   kvstore.KVStore
	objs    []*robj
	scratch []byte // the one marshal buffer of the case
	keybuf  []byte
	shared  bool // false: fresh slices for every call (control group)
	nextVer int
	content map[int][][]byte // version -> state of the object (per slot; nil = key absent)
}

func (w *rworld) ev(e event) {
	w.mu.Lock()
	w.events = append(w.events, e)
	w.mu.Unlock()
}

type rstore struct {
	kvstore.KVStore
	w *rworld
}

func (s *rstore) Batched() (kvstore.BatchedMutations, error) {
	bm, err := s.KVStore.Batched()
	s.w.ev(event{kind: kBatched})
	return &rbatch{BatchedMutations: bm, w: s.w}, err
}

type rbatch struct {
	kvstore.BatchedMutations
	w      *rworld
	writes [][2]int // (object, version) of the BatchWrite calls that issued a mutation on this batch
	last   int
}

func (b *rbatch) record(m rmut) {
	w := b.w
	w.mu.Lock()
	if w.cur < 0 {
		w.stray = append(w.stray, m.String())
	} else {
		w.wmuts[w.cur] = append(w.wmuts[w.cur], m)
		if len(b.writes) == 0 || b.last != w.cur {
			b.writes = append(b.writes, w.curOV)
			b.last = w.cur
		}
	}
	w.mu.Unlock()
}

func (b *rbatch) Set(k kvstore.Key, v kvstore.Value) error {
	b.record(rmut{key: append([]byte{}, k...), val: append([]byte{}, v...)})
	return b.BatchedMutations.Set(k, v)
}
func (b *rbatch) Delete(k kvstore.Key) error {
	b.record(rmut{del: true, key: append([]byte{}, k...)})
	return b.BatchedMutations.Delete(k)
}
func (b *rbatch) Cancel() {
	b.BatchedMutations.Cancel()
	b.w.ev(event{kind: kCommit, cancel: true})
}
func (b *rbatch) Commit() error {
	err := b.BatchedMutations.Commit()
	b.w.ev(event{kind: kCommit, batch: b.writes})
	return err
}

// robj: style bits: 1 = slots in reverse order, 2 = a present key is first deleted then set, 4 = an absent key is first
// set (to junk) then deleted, 8 = the value of the previous slot is re-marshalled into the buffer between two calls
type robj struct {
	id    int
	nkeys int
	style int
	flag  atomic.Bool
	w     *rworld
	ver   int      // guarded by w.mu
	vals  [][]byte // guarded by w.mu; nil = absent
}

func (o *robj) BatchWriteScheduled() bool { return !o.flag.CompareAndSwap(false, true) }
func (o *robj) ResetBatchWriteScheduled() {
	o.flag.Store(false)
	o.w.ev(event{kind: kReset, o: o.id})
}
func (o *robj) BatchWriteDone() { o.w.ev(event{kind: kDone, o: o.id}) }

func (o *robj) BatchWrite(m kvstore.BatchedMutations) {
	w := o.w
	w.mu.Lock()
	ver := o.ver
	vals := make([][]byte, len(o.vals))
	copy(vals, o.vals) // the slices themselves are never modified, only replaced
	w.events = append(w.events, event{kind: kWrite, o: o.id, v: ver})
	w.wmuts = append(w.wmuts, nil)
	w.cur = len(w.wmuts) - 1
	w.curOV = [2]int{o.id, ver}
	w.mu.Unlock()
	key := func(j int) []byte {
		if !w.shared {
			return []byte{byte(o.id), byte(j)}
		}
		w.keybuf = append(w.keybuf[:0], byte(o.id), byte(j))
		return w.keybuf
	}
	marshal := func(v []byte) []byte {
		if !w.shared {
			return append([]byte{}, v...)
		}
		w.scratch = append(w.scratch[:0], v...)
		return w.scratch
	}
	for i := 0; i < o.nkeys; i++ {
		j := i
		if o.style&1 != 0 {
			j = o.nkeys - 1 - i
		}
		if vals[j] != nil {
			if o.style&2 != 0 {
				_ = m.Delete(key(j))
			}
			_ = m.Set(key(j), marshal(vals[j]))
		} else {
			if o.style&4 != 0 {
				_ = m.Set(key(j), marshal([]byte{0xAA, byte(ver)}))
			}
			_ = m.Delete(key(j))
		}
	}
	if w.shared { // the buffers belong to the caller again
		for i := range w.scratch[:cap(w.scratch)] {
			w.scratch[:cap(w.scratch)][i] = 0xEE
		}
		for i := range w.keybuf[:cap(w.keybuf)] {
			w.keybuf[:cap(w.keybuf)][i] = 0xEE
		}
	}
	w.mu.Lock()
	w.cur = -1
	w.mu.Unlock()
}

// callObj: the object as handed to one Enqueue call; records what that call's flag test answered
type callObj struct {
	kvstore.BatchWriteObject
	called bool
	res    bool
}

func (c *callObj) BatchWriteScheduled() bool {
	c.called = true
	c.res = c.BatchWriteObject.BatchWriteScheduled()
	return c.res
}
func (c *callObj) class() int {
	if !c.called {
		return 1
	}
	if c.res {
		return 2
	}
	return 0
}

type objsResult struct {
	log                                   []event
	wmuts                                 [][]rmut
	final                                 map[string][]byte
	finalV                                []int
	nobj                                  int
	desc                                  string
	steps                                 []string
	hang                                  string
	fail                                  string
	stopped                               bool
	oneBatchTwice, setThenDel, delThenSet int
}

func readStore(s kvstore.KVStore) map[string][]byte {
	res := map[string][]byte{}
	_ = s.Iterate(kvstore.EmptyPrefix, func(k kvstore.Key, v kvstore.Value) bool {
		res[string(k)] = append([]byte{}, v...)
		return true
	})
	return res
}

func runObjs(rng *vx.Rng) (r objsResult) {
	nobj := 2 + rng.Intn(2)
	never := rng.Chance(3, 5)
	T := time.Hour
	if !never {
		T = []time.Duration{2 * time.Millisecond, 5 * time.Millisecond, 25 * time.Millisecond}[rng.Intn(3)]
	}
	nsteps := 2 + rng.Intn(5)
	b := []int{1, 2, 3, nsteps + 1, nsteps + 1, 16, optDefault}[rng.Intn(7)]
	q := []int{0, 1, 4, optDefault}[rng.Intn(4)]
	var opts []kvstore.Option
	if q != optDefault {
		opts = append(opts, kvstore.WithQueueSize(q))
	}
	if b != optDefault {
		opts = append(opts, kvstore.WithBatchSize(b))
	}
	opts = append(opts, kvstore.WithBatchTimeout(T))
	w := &rworld{cur: -1, inner: mapdb.NewMapDB(), shared: !rng.Chance(1, 8), nextVer: 1, content: map[int][][]byte{}}
	for i := 0; i < nobj; i++ {
		o := &robj{id: i, nkeys: 1 + rng.Intn(3), style: rng.Intn(16), w: w}
		if rng.Chance(1, 3) {
			o.style &= 1
		}
		o.vals = make([][]byte, o.nkeys)
		w.objs = append(w.objs, o)
	}
	bw := kvstore.NewBatchedWriter(&rstore{KVStore: w.inner, w: w}, opts...)
	r.nobj = nobj
	r.desc = fmt.Sprintf("objs objects=%d queue=%s batch=%s timeout=%v shared-buffer=%v keys/style=%s", nobj, optStr(q), optStr(b), T, w.shared,
		vx.ListOf(w.objs, func(o *robj) string { return fmt.Sprintf("%d/%d", o.nkeys, o.style) }))
	tid := 0
	collected := func(o *robj, ver int) bool { // BatchWrite of (o, >= ver) has been called and has returned
		w.mu.Lock()
		defer w.mu.Unlock()
		if w.cur >= 0 {
			return false
		}
		for i := len(w.events) - 1; i >= 0; i-- {
			if e := w.events[i]; e.kind == kWrite && e.o == o.id {
				return e.v >= ver
			}
		}
		return false
	}
	done := make(chan struct{})
	go func() {
		defer close(done)
		prev := -1
		for s := 0; s < nsteps; s++ {
			oi := rng.Intn(nobj)
			if prev >= 0 && rng.Chance(3, 5) {
				oi = prev
			}
			prev = oi
			o := w.objs[oi]
			// change the object
			w.mu.Lock()
			ver := w.nextVer
			w.nextVer++
			nv := make([][]byte, o.nkeys)
			what := ""
			wipe := rng.Chance(1, 3)
			for j := range nv {
				switch {
				case o.vals[j] != nil && (wipe || rng.Chance(2, 5)):
					nv[j] = nil
					what += fmt.Sprintf(" del(%d)", j)
				case o.vals[j] != nil && rng.Chance(1, 4):
					nv[j] = o.vals[j]
				default:
					n := []int{0, 1, 1, 2, 3, 6}[rng.Intn(6)]
					v := make([]byte, n)
					for x := range v {
						v[x] = byte(ver*16 + j*4 + x)
					}
					if n > 0 {
						v[0] = byte(ver)
					}
					nv[j] = v
					what += fmt.Sprintf(" set(%d,%x)", j, v)
				}
			}
			o.vals, o.ver = nv, ver
			w.content[ver] = nv
			t := tid
			tid++
			w.events = append(w.events, event{kind: kSet, t: t, o: oi, v: ver})
			w.mu.Unlock()
			co := &callObj{BatchWriteObject: o}
			bw.Enqueue(co)
			w.ev(event{kind: kRet, t: t, v: co.class()})
			step := fmt.Sprintf("obj%d v%d:%s; Enqueue", oi, ver, what)
			if rng.Chance(7, 10) {
				step += "; wait until collected"
				dl := time.Now().Add(5 * time.Second)
				for n := 0; !collected(o, ver); n++ {
					if time.Now().After(dl) {
						r.hang = fmt.Sprintf("object %d (version %d) was enqueued (class %d) but not collected within 5s", oi, ver, co.class())
						r.steps = append(r.steps, step)
						return
					}
					if n < 200 {
						time.Sleep(5 * time.Microsecond)
					} else {
						time.Sleep(100 * time.Microsecond)
					}
				}
			}
			if rng.Chance(1, 8) {
				bw.Flush()
				step += "; Flush"
			}
			r.steps = append(r.steps, step)
		}
		if never {
			bw.Flush()
			r.steps = append(r.steps, "Flush; wait until the writer is idle")
			dl := time.Now().Add(5 * time.Second)
			for time.Now().Before(dl) {
				_, sched, qlen, tok := bw.VerifState()
				w.mu.Lock()
				n := len(w.events)
				idle := n > 0 && w.events[n-1].kind == kBatched
				nw, nd := 0, 0
				for _, e := range w.events {
					if e.kind == kWrite {
						nw++
					} else if e.kind == kDone {
						nd++
					}
				}
				w.mu.Unlock()
				if sched == 0 && qlen == 0 && !tok && idle && nw == nd && nw > 0 {
					return
				}
				time.Sleep(50 * time.Microsecond)
			}
			r.hang = "the writer did not become idle within 5s after the final Flush"
			return
		}
		r.steps = append(r.steps, "StopBatchWriter")
		w.ev(event{kind: kInv, t: tid})
		bw.StopBatchWriter()
		w.ev(event{kind: kRet, t: tid, v: 4})
		r.stopped = true
	}()
	select {
	case <-done:
	case <-time.After(12 * time.Second):
		r.hang = "the script (Enqueue / StopBatchWriter) did not finish within 12s"
	}
	if never {
		go bw.StopBatchWriter() // released by the 1h timer only; abandoned
	} else {
		time.Sleep(200 * time.Microsecond)
	}
	w.mu.Lock()
	r.log = append([]event(nil), w.events...)
	r.wmuts = append([][]rmut(nil), w.wmuts...)
	stray := append([]string(nil), w.stray...)
	w.mu.Unlock()
	r.final = readStore(w.inner)
	r.finalV = make([]int, nobj)
	if r.hang != "" {
		return
	}
	// ---- oracles ----
	if len(stray) != 0 {
		r.fail = fmt.Sprintf("mutation calls outside of a BatchWrite call: %v", stray)
		return
	}
	expect := map[string][]byte{}
	lastVer := map[int]int{}
	wi := 0
	var open []int // indices of the BatchWrite calls of the open batch
	var batchLog []string
	for _, e := range r.log {
		switch {
		case e.kind == kWrite:
			open = append(open, wi)
			wi++
		case e.kind == kCommit && !e.cancel:
			seen := map[string]bool{} // key -> last operation was a Set, by an earlier BatchWrite call of this batch
			objsIn := map[int]int{}
			var bl []string
			for n, i := range open {
				local := map[string]bool{}
				for _, m := range r.wmuts[i] {
					if m.del {
						delete(expect, string(m.key))
					} else {
						expect[string(m.key)] = m.val
					}
					local[string(m.key)] = !m.del
					bl = append(bl, m.String())
				}
				for k, isSet := range local {
					if was, ok := seen[k]; ok && was && !isSet {
						r.setThenDel++
					} else if ok && !was && isSet {
						r.delThenSet++
					}
					seen[k] = isSet
				}
				if n < len(e.batch) {
					objsIn[e.batch[n][0]]++
					lastVer[e.batch[n][0]] = e.batch[n][1]
				}
			}
			for _, c := range objsIn {
				if c > 1 {
					r.oneBatchTwice++
				}
			}
			batchLog = append(batchLog, fmt.Sprint(bl))
			open = nil
		}
	}
	show := func(m map[string][]byte) string {
		var ks []string
		for k := range m {
			ks = append(ks, k)
		}
		sort.Strings(ks)
		s := ""
		for _, k := range ks {
			s += fmt.Sprintf(" %x=%x", k, m[k])
		}
		return "{" + s + " }"
	}
	same := len(expect) == len(r.final)
	for k, v := range expect {
		if a, ok := r.final[k]; !ok || !bytes.Equal(a, v) {
			same = false
		}
	}
	if !same {
		r.fail = fmt.Sprintf("the store holds %s, the mutations of the committed batches %v, applied in the order of the calls, give %s", show(r.final), batchLog, show(expect))
		return
	}
	for _, o := range w.objs {
		ver, ok := lastVer[o.id]
		r.finalV[o.id] = -1
		if ok {
			r.finalV[o.id] = ver
		}
		for j := 0; j < o.nkeys; j++ {
			var want []byte
			if ok {
				want = w.content[ver][j]
			}
			got, has := r.final[string([]byte{byte(o.id), byte(j)})]
			if has != (want != nil) || !bytes.Equal(got, want) {
				r.fail = fmt.Sprintf("object %d: its last committed BatchWrite wrote version %d with key %d = %x (nil: absent), the store holds %x (present: %v)", o.id, ver, j, want, got, has)
				return
			}
		}
	}
	return
}

func optStr(v int) string {
	if v == optDefault {
		return "default"
	}
	return fmt.Sprint(v)
}

// objsCoq: the case as a term of Corr.case
func objsCoq(r objsResult, objs int) string {
	var keys []int
	fin := map[int][]byte{}
	for k, v := range r.final {
		fin[keyNat([]byte(k))] = v
	}
	for o := 0; o < objs; o++ {
		for j := 0; j < 3; j++ {
			keys = append(keys, o*8+j)
		}
	}
	for k := range fin { // a key outside the universe would be a failure of the Go oracle; show it to Coq as well
		if k >= objs*8 || k%8 >= 3 {
			keys = append(keys, k)
		}
	}
	sort.Ints(keys)
	return fmt.Sprintf("Objs %s %d %s %s %s",
		vx.ListOf(r.log, func(e event) string { return e.coq() }), objs,
		vx.ListOf(r.wmuts, func(ms []rmut) string { return vx.ListOf(ms, func(m rmut) string { return m.coq() }) }),
		vx.ListOf(keys, func(k int) string {
			if v, ok := fin[k]; ok {
				return fmt.Sprintf("(%d, Some %s)", k, natList(v))
			}
			return fmt.Sprintf("(%d, None)", k)
		}), vx.Bool(true))
}
