// Option corner values (round 2 strengthening, class of seed C08-m9).  kvstore/batch_writer.go has three options
// (WithQueueSize, WithBatchSize, WithBatchTimeout); this family enumerates the grid
//   batch time-out  -1h, -1ns, 0, 1ns, 1us, 300us, 2ms, default (option not given: 500ms), 1h
//   batch size      1, 2, 4, default (option not given: 10000)
//   queue size      0, 1, 2, default (option not given: 10000)
// and runs on every grid point a scenario in which batches stay partially filled and nobody calls Flush (plus exact-fill,
// Flush, concurrent-producer and re-enqueue scenarios).  Oracle: completeness at Stop - StopBatchWriter returns within the
// watchdog and everything enqueued before is written, committed and Done (judge with stopped = true).  With the 1h
// time-out the timer never fires within a run and StopBatchWriter is - by the design of the code - only released by the
// timer, so there the scenarios (full batches / Flush in the middle) end with a Flush, no Stop is called, and completeness
// is judged once the writer is idle again.  Not varied (outside the property): batch size <= 0 (BatchCollector.Add panics on the first
// object), queue size < 0 (NewBatchedWriter panics in make).
package main

import (
	"fmt"
	"sync"
	"sync/atomic"
	"time"

	"github.com/iotaledger/hive.go/kvstore"

	"verif/harness/vx"
)

const optDefault = -1 << 40 // "do not pass the option"

type optCfg struct {
	T    time.Duration
	b, q int
}

func (c optCfg) String() string {
	f := func(v int) string {
		if v == optDefault {
			return "default"
		}
		return fmt.Sprint(v)
	}
	t := "default"
	if c.T != optDefault {
		t = c.T.String()
	}
	return fmt.Sprintf("timeout=%s batch=%s queue=%s", t, f(c.b), f(c.q))
}

func optGrid() []optCfg {
	var g []optCfg
	ts := []time.Duration{-time.Hour, -1, 0, 1, time.Microsecond, 300 * time.Microsecond, 2 * time.Millisecond, optDefault, time.Hour}
	bs := []int{1, 2, 4, optDefault}
	qs := []int{0, 1, 2, optDefault}
	for _, t := range ts {
		for bi, b := range bs {
			for qi, q := range qs {
				if t == optDefault && (bi+qi)%4 != 3 { // StopBatchWriter takes up to 500ms there: 4 of the 16 points
					continue
				}
				g = append(g, optCfg{t, b, q})
			}
		}
	}
	return g
}

const nOptShapes = 5

// runOpts: shape 0 partial batches, no Flush; 1 exact fill; 2 Flush then more objects; 3 concurrent producers racing Stop;
// 4 the same object enqueued repeatedly.
func runOpts(rng *vx.Rng, c optCfg, shape int) (log []event, final []int, desc string, hang string, spins int) {
	nobj := 3
	var opts []kvstore.Option
	if c.q != optDefault {
		opts = append(opts, kvstore.WithQueueSize(c.q))
	}
	if c.b != optDefault {
		opts = append(opts, kvstore.WithBatchSize(c.b))
	}
	if c.T != optDefault {
		opts = append(opts, kvstore.WithBatchTimeout(c.T))
	}
	never := c.T == time.Hour // the timer does not fire within the run
	if never && shape != 1 && shape != 2 {
		shape = 1 + shape%2
	}
	bsz := c.b
	if bsz == optDefault {
		bsz = 10000
	}
	w := newWorld(nobj, 0)
	w.pass.Store(true)
	w.compress = true
	bw := kvstore.NewBatchedWriter(&wstore{KVStore: w.inner, w: w}, opts...)
	desc = fmt.Sprintf("opts %v shape=%d", c, shape)
	var tid atomic.Int32
	enq := func(o, v int) {
		t := int(tid.Add(1)) - 1
		op := &opRun{opSpec: opSpec{Kind: opEnq}}
		g := curGid()
		opByGid.Store(g, op)
		w.mu.Lock()
		w.vals[o] = v
		w.events = append(w.events, event{kind: kSet, t: t, o: o, v: v})
		w.mu.Unlock()
		bw.Enqueue(w.objs[o])
		opByGid.Delete(g)
		w.mu.Lock()
		w.events = append(w.events, event{kind: kRet, t: t, v: op.class()})
		w.mu.Unlock()
	}
	done := make(chan struct{})
	go func() {
		defer close(done)
		val := 0
		next := func() int { val++; return val }
		switch shape {
		case 0: // fewer objects than a batch holds (batch size 1: every object is a batch), then Stop at once
			k := 1 + rng.Intn(3)
			if bsz > 1 && bsz <= 4 {
				k = 1 + rng.Intn(bsz-1)
				if rng.Chance(1, 3) {
					k += bsz // one full batch, then a partial one
				}
			}
			for i := 0; i < k; i++ {
				enq(i%nobj, next())
			}
		case 1: // exactly full batches
			k := 1 + rng.Intn(3)
			if bsz <= 4 {
				k = bsz * (1 + rng.Intn(2))
			}
			for i := 0; i < k; i++ {
				enq(i%nobj, next())
			}
		case 2: // Flush in the middle, a partial batch afterwards
			k := 1 + rng.Intn(3)
			for i := 0; i < k; i++ {
				enq(rng.Intn(nobj), next())
			}
			bw.Flush()
			if !never {
				for i := rng.Intn(3); i > 0; i-- {
					enq(rng.Intn(nobj), next())
				}
			}
		case 3:
			var wgp sync.WaitGroup
			enq(rng.Intn(nobj), next())
			for p := 0; p < 2; p++ {
				pr := rng.Fork()
				wgp.Add(1)
				go func(p int) {
					defer wgp.Done()
					for k := 0; k < 2; k++ {
						if pr.Chance(1, 3) {
							time.Sleep(time.Duration(pr.Intn(200)) * time.Microsecond)
						}
						enq(pr.Intn(nobj), 10+p*2+k)
					}
				}(p)
			}
			if rng.Chance(1, 2) {
				time.Sleep(time.Duration(rng.Intn(500)) * time.Microsecond)
			}
			defer wgp.Wait()
		case 4:
			for i := 1 + rng.Intn(4); i > 0; i-- {
				enq(0, next())
				if rng.Chance(1, 2) {
					time.Sleep(time.Duration(rng.Intn(200)) * time.Microsecond)
				}
			}
		}
		if never {
			// no Stop (it would wait for the 1h timer).  A final Flush: an object that was enqueued again while still
			// scheduled does not count towards the batch size, so "exactly full" is not guaranteed by the script.
			bw.Flush()
			// wait until the writer is idle again
			dl := time.Now().Add(5 * time.Second)
			for time.Now().Before(dl) {
				_, sched, qlen, tok := bw.VerifState()
				w.mu.Lock()
				n := len(w.events)
				idle := n > 0 && (w.events[n-1].kind == kBatched || w.events[n-1].kind == kRet)
				nw, nd := 0, 0
				for _, e := range w.events {
					if e.kind == kWrite {
						nw++
					} else if e.kind == kDone {
						nd++
					}
				}
				w.mu.Unlock()
				if sched == 0 && qlen == 0 && !tok && idle && nw == nd && nw > 0 {
					return
				}
				time.Sleep(100 * time.Microsecond)
			}
			return
		}
		stopT := int(tid.Add(1)) - 1
		w.mu.Lock()
		w.events = append(w.events, event{kind: kInv, t: stopT})
		w.mu.Unlock()
		bw.StopBatchWriter()
		w.mu.Lock()
		w.events = append(w.events, event{kind: kRet, t: stopT, v: 4})
		w.mu.Unlock()
	}()
	select {
	case <-done:
	case <-time.After(6 * time.Second):
		hang = "StopBatchWriter (or an Enqueue call before it) did not return within 6s"
	}
	if !never {
		time.Sleep(300 * time.Microsecond) // a writer that is still alive would show up in the log
	} else {
		go bw.StopBatchWriter() // released by the 1h timer only; the goroutines are abandoned
	}
	w.mu.Lock()
	log = append([]event(nil), w.events...)
	spins = w.idleRounds
	w.mu.Unlock()
	final = w.finalStore()
	return
}
