// Store faults (round 2 strengthening, class of seed C08-m8): the store under the BatchedWriter is wrapped so that the
// n-th call of its batch Commit (or of Batched()) returns an error.  The code under test answers with panic(err) in the
// writer goroutine, which would kill the harness.  Two ways around that:
//   - in-process (volume): the injected error's Error() method is called by the runtime on the panicking goroutine while
//     it prepares the panic message (runtime.preprintpanics, after all deferred functions have run, before the process is
//     torn down).  There the harness records "the writer panicked" and parks the goroutine for ever, so the process
//     survives and everything the writer did up to the panic is in the log.  Error() called from anywhere else (not under
//     runtime.gopanic) just returns the text.
//   - child process (faithful): the harness re-executes itself for one sequential scenario, the child streams its events
//     to stdout and really dies; the parent checks exit status, the panic message and the streamed log.
// Oracle (judge): BatchWriteDone(o) only after a SUCCESSFUL commit holding o's mutation; a refused commit carries exactly
// the open mutations; no writer callback and no return of StopBatchWriter after a failed store call; the store holds the
// successful commits only.  Coq: Corr.fault_ok (FaultModel.fck_run, the language of Fault.safety_faults).
package main

import (
	"bufio"
	"bytes"
	"fmt"
	"os"
	"os/exec"
	"runtime"
	"strconv"
	"strings"
	"sync"
	"sync/atomic"
	"time"

	"github.com/iotaledger/hive.go/kvstore"

	"verif/harness/vx"
)

const injText = "c08: injected store failure (disk full)"

type injErr struct{ w *world }

func underPanic() bool {
	pcs := make([]uintptr, 32)
	n := runtime.Callers(2, pcs)
	fr := runtime.CallersFrames(pcs[:n])
	for {
		f, more := fr.Next()
		if f.Function == "runtime.gopanic" || f.Function == "runtime.preprintpanics" {
			return true
		}
		if !more {
			return false
		}
	}
}

func (e *injErr) Error() string {
	if e.w.park && underPanic() {
		e.w.panicOnce.Do(func() {
			e.w.wevent(event{kind: kPanic})
			close(e.w.panicked)
		})
		select {} // the goroutine that panicked never gets any further; the process lives on
	}
	return injText
}

type faultPlan struct {
	commitAt, batchedAt int
}

func (p faultPlan) String() string {
	if p.batchedAt > 0 {
		return fmt.Sprintf("Batched() call %d fails", p.batchedAt)
	}
	return fmt.Sprintf("batch Commit call %d fails", p.commitAt)
}

func randPlan(rng *vx.Rng) faultPlan {
	if rng.Chance(1, 4) {
		return faultPlan{batchedAt: 1 + rng.Intn(4)}
	}
	return faultPlan{commitAt: []int{1, 1, 1, 2, 2, 3}[rng.Intn(6)]}
}

// splitAtFault: the log up to and including the failed store call and the panic; afterwards only writer callbacks and the
// return of a Stop call are kept (client events of goroutines that would have died with the process are dropped).
func splitAtFault(log []event) (res []event, reached, panicked bool) {
	for _, e := range log {
		if e.kind == kPanic {
			panicked = true
		}
		if reached && (e.kind == kSet || e.kind == kInv || (e.kind == kRet && e.v != 4)) {
			continue
		}
		if e.kind == kCommitFail || e.kind == kBatchedFail {
			reached = true
		}
		res = append(res, e)
	}
	return
}

// runFault: a free-running case (producers, Flush, racing Stop) over a store with a fault plan.
func runFault(rng *vx.Rng, shape int) (log []event, final []int, desc string, hang string) {
	q := rng.Intn(4)
	b := 1 + rng.Intn(3)
	nobj := 3
	T := time.Duration(1+rng.Intn(3)) * time.Millisecond
	if rng.Chance(1, 5) {
		T = 0
	}
	nprod := 1 + rng.Intn(3)
	per := 1 + rng.Intn(4)
	plan := randPlan(rng)
	if shape == 1 { // one Enqueue, Stop: the first non-empty commit is refused
		nprod = 0
		plan = faultPlan{commitAt: 1}
	}
	w := newWorld(nobj, 0)
	w.pass.Store(true)
	w.compress = true
	w.park = true
	w.panicked = make(chan struct{})
	w.failCommitAt, w.failBatchedAt = plan.commitAt, plan.batchedAt
	bw := kvstore.NewBatchedWriter(&wstore{KVStore: w.inner, w: w}, kvstore.WithQueueSize(q), kvstore.WithBatchSize(b), kvstore.WithBatchTimeout(T))
	desc = fmt.Sprintf("fault queue=%d batch=%d timeout=%v producers=%d x %d shape=%d: %v", q, b, T, nprod, per, shape, plan)
	var tid atomic.Int32
	enq := func(o, v int) {
		t := int(tid.Add(1)) - 1
		op := &opRun{opSpec: opSpec{Kind: opEnq}}
		g := curGid()
		opByGid.Store(g, op)
		w.mu.Lock()
		w.vals[o] = v
		w.events = append(w.events, event{kind: kSet, t: t, o: o, v: v})
		w.mu.Unlock()
		bw.Enqueue(w.objs[o])
		opByGid.Delete(g)
		w.mu.Lock()
		w.events = append(w.events, event{kind: kRet, t: t, v: op.class()})
		w.mu.Unlock()
	}
	var wgp sync.WaitGroup
	done := make(chan struct{})
	go func() { // everything runs beside the main goroutine: with a rendezvous queue the first Enqueue may never return
		enq(rng.Intn(nobj), 1)
		for p := 0; p < nprod; p++ {
			pr := rng.Fork()
			wgp.Add(1)
			go func(p int) {
				defer wgp.Done()
				for k := 0; k < per; k++ {
					if pr.Chance(1, 5) {
						bw.Flush()
					}
					if pr.Chance(1, 3) {
						time.Sleep(time.Duration(pr.Intn(300)) * time.Microsecond)
					}
					enq(pr.Intn(nobj), 2+p*per+k)
				}
			}(p)
		}
		if shape != 1 && rng.Chance(2, 3) {
			time.Sleep(time.Duration(rng.Intn(1500)) * time.Microsecond)
		}
		if shape == 2 {
			wgp.Wait()
		}
		stopT := int(tid.Add(1)) - 1
		w.mu.Lock()
		w.events = append(w.events, event{kind: kInv, t: stopT})
		w.mu.Unlock()
		bw.StopBatchWriter()
		w.mu.Lock()
		w.events = append(w.events, event{kind: kRet, t: stopT, v: 4})
		w.mu.Unlock()
		wgp.Wait()
		close(done)
	}()
	select {
	case <-done:
	case <-w.panicked:
	case <-time.After(6 * time.Second):
		if w.nCommit.Load() >= int32(plan.commitAt) && plan.commitAt > 0 || w.nBatched.Load() >= int32(plan.batchedAt) && plan.batchedAt > 0 {
			hang = "a store call failed, but within 6s the writer neither panicked nor did StopBatchWriter return"
		} else {
			hang = "StopBatchWriter (or an Enqueue call) did not return within 6s; the store was healthy (the planned fault was not reached)"
		}
	}
	time.Sleep(2*time.Millisecond + 2*T) // callbacks made after the failure would show up in the log
	w.mu.Lock()
	log = append([]event(nil), w.events...)
	w.mu.Unlock()
	final = w.finalStore()
	return
}

// ---------------------------------------------------------------- child process

// child script: e<o> = Enqueue(object o), f = Flush, w = sleep 3 batch time-outs, s = StopBatchWriter
func childMain(args []string) {
	get := func(k string) int {
		for i := 0; i+1 < len(args); i++ {
			if args[i] == "--"+k {
				n, _ := strconv.Atoi(args[i+1])
				return n
			}
		}
		return 0
	}
	script := ""
	for i := 0; i+1 < len(args); i++ {
		if args[i] == "--script" {
			script = args[i+1]
		}
	}
	w := newWorld(3, 0)
	w.pass.Store(true)
	w.compress = true
	w.failCommitAt, w.failBatchedAt = get("failcommit"), get("failbatched")
	out := bufio.NewWriter(os.Stdout)
	w.sink = func(e event) {
		fmt.Fprintf(out, "E %d %d %d %d %v", e.kind, e.o, e.v, e.t, e.cancel)
		for _, p := range e.batch {
			fmt.Fprintf(out, " %d %d", p[0], p[1])
		}
		fmt.Fprintln(out)
		if e.kind == kCommitFail || e.kind == kBatchedFail {
			fmt.Fprintln(out, "STORE", strings.Trim(fmt.Sprint(w.finalStore()), "[]"))
		}
		out.Flush()
	}
	T := time.Duration(get("tus")) * time.Microsecond
	bw := kvstore.NewBatchedWriter(&wstore{KVStore: w.inner, w: w}, kvstore.WithQueueSize(get("q")), kvstore.WithBatchSize(get("b")), kvstore.WithBatchTimeout(T))
	for i, c := range strings.Split(script, ",") {
		switch {
		case strings.HasPrefix(c, "e"):
			o, _ := strconv.Atoi(c[1:])
			w.mu.Lock()
			w.vals[o] = i + 1
			e := event{kind: kSet, t: i, o: o, v: i + 1}
			w.events = append(w.events, e)
			w.sink(e)
			w.mu.Unlock()
			bw.Enqueue(w.objs[o])
		case c == "f":
			bw.Flush()
		case c == "w":
			time.Sleep(3*T + time.Millisecond)
		case c == "s":
			bw.StopBatchWriter()
			w.mu.Lock()
			w.sink(event{kind: kRet, t: i, v: 4})
			w.mu.Unlock()
		}
	}
	time.Sleep(20*time.Millisecond + 3*T)
	w.mu.Lock()
	fmt.Fprintln(out, "SURVIVED", strings.Trim(fmt.Sprint(w.finalStore()), "[]"))
	out.Flush()
	w.mu.Unlock()
}

type childResult struct {
	log      []event
	final    []int
	desc     string
	died     bool // exit status != 0 and the runtime's panic message names the injected error
	survived bool
	problem  string // the child could not be run / its output could not be read
	abnormal string // the child ended without finishing its script although no store call had failed (first line of stderr)
}

func runChild(rng *vx.Rng) childResult {
	q := rng.Intn(3)
	b := 1 + rng.Intn(3)
	tus := []int{0, 300, 2000}[rng.Intn(3)]
	plan := randPlan(rng)
	var sc []string
	n := 1 + rng.Intn(5)
	for i := 0; i < n; i++ {
		switch x := rng.Intn(10); {
		case x < 7 || i == 0:
			sc = append(sc, fmt.Sprintf("e%d", rng.Intn(3)))
		case x < 8:
			sc = append(sc, "f")
		default:
			sc = append(sc, "w")
		}
	}
	sc = append(sc, "s")
	if q == 0 && plan.batchedAt == 1 {
		plan = faultPlan{commitAt: 1} // with a rendezvous queue the first Enqueue would wait for a writer that died at once (the child dies anyway, but say what is tested)
	}
	res := childResult{desc: fmt.Sprintf("child queue=%d batch=%d timeout=%dus script=%s: %v", q, b, tus, strings.Join(sc, ","), plan)}
	cmd := exec.Command(os.Args[0], "faultchild", "--q", strconv.Itoa(q), "--b", strconv.Itoa(b), "--tus", strconv.Itoa(tus),
		"--failcommit", strconv.Itoa(plan.commitAt), "--failbatched", strconv.Itoa(plan.batchedAt), "--script", strings.Join(sc, ","))
	var so, se bytes.Buffer
	cmd.Stdout, cmd.Stderr = &so, &se
	if err := cmd.Start(); err != nil {
		res.problem = "start: " + err.Error()
		return res
	}
	waitCh := make(chan error, 1)
	go func() { waitCh <- cmd.Wait() }()
	var werr error
	select {
	case werr = <-waitCh:
	case <-time.After(20 * time.Second):
		_ = cmd.Process.Kill()
		<-waitCh
		res.problem = "child did not terminate within 20s"
	}
	res.final = []int{-1, -1, -1}
	for _, ln := range strings.Split(so.String(), "\n") {
		f := strings.Fields(ln)
		if len(f) == 0 {
			continue
		}
		switch f[0] {
		case "E":
			if len(f) < 6 {
				continue
			}
			var e event
			e.kind, _ = strconv.Atoi(f[1])
			e.o, _ = strconv.Atoi(f[2])
			e.v, _ = strconv.Atoi(f[3])
			e.t, _ = strconv.Atoi(f[4])
			e.cancel = f[5] == "true"
			for k := 6; k+1 < len(f); k += 2 {
				a, _ := strconv.Atoi(f[k])
				bb, _ := strconv.Atoi(f[k+1])
				e.batch = append(e.batch, [2]int{a, bb})
			}
			res.log = append(res.log, e)
		case "STORE", "SURVIVED":
			if f[0] == "SURVIVED" {
				res.survived = true
			}
			for k := 1; k < len(f) && k <= 3; k++ {
				res.final[k-1], _ = strconv.Atoi(f[k])
			}
		}
	}
	res.died = werr != nil && strings.Contains(se.String(), "panic: ") && strings.Contains(se.String(), injText) && !res.survived
	if res.died {
		res.log = append(res.log, event{kind: kPanic})
	}
	if _, reached, _ := splitAtFault(res.log); !reached && !res.survived && res.problem == "" {
		res.abnormal = strings.SplitN(strings.TrimSpace(se.String()), "\n", 2)[0]
	}
	return res
}
