package main

import (
	"fmt"
	"sync/atomic"
	"time"

	"github.com/iotaledger/hive.go/kvstore"
	"github.com/iotaledger/hive.go/kvstore/mapdb"
)

type obj struct {
	flag    atomic.Bool
	written atomic.Int32
	done    atomic.Int32
	gate    chan struct{}
	at      chan struct{}
}

func (o *obj) BatchWrite(m kvstore.BatchedMutations) { o.written.Add(1); _ = m.Set([]byte{1}, []byte{1}) }
func (o *obj) BatchWriteDone()                      { o.done.Add(1) }
func (o *obj) BatchWriteScheduled() bool {
	r := !o.flag.CompareAndSwap(false, true)
	if o.gate != nil {
		o.at <- struct{}{}
		<-o.gate
	}
	return r
}
func (o *obj) ResetBatchWriteScheduled() { o.flag.Store(false) }

func main() {
	for _, q := range []int{0, 1} {
		bw := kvstore.NewBatchedWriter(mapdb.NewMapDB(), kvstore.WithBatchTimeout(time.Millisecond), kvstore.WithQueueSize(q), kvstore.WithBatchSize(1))
		a := &obj{}
		bw.Enqueue(a) // starts the writer
		b := &obj{gate: make(chan struct{}), at: make(chan struct{}, 1)}
		ret := make(chan struct{})
		go func() { bw.Enqueue(b); close(ret) }()
		<-b.at // b passed the running check and the flag test
		stopped := make(chan struct{})
		go func() { bw.StopBatchWriter(); close(stopped) }()
		select {
		case <-stopped:
			fmt.Println("Stop returned while Enqueue(b) is past the running check")
		case <-time.After(100 * time.Millisecond):
			fmt.Println("Stop waits for the in-flight Enqueue(b)")
		}
		close(b.gate)
		<-stopped
		select {
		case <-ret:
			fmt.Printf("queue %d: Enqueue(b) returned; a done=%d, b written=%d done=%d flag=%v\n", q, a.done.Load(), b.written.Load(), b.done.Load(), b.flag.Load())
		case <-time.After(2 * time.Second):
			fmt.Printf("queue %d: Enqueue(b) still blocked 2s after Stop returned; b written=%d\n", q, b.written.Load())
		}
	}
}
