// C08 harness: kvstore.BatchedWriter under scripted and free-running schedules.
//
// Scripted mode: every client call (Enqueue / Flush / StopBatchWriter) runs in its own goroutine and is
// released by the script; Enqueue calls can additionally be held at the verifYield hook (after the
// scheduledCount increment, before the running check) and inside object.BatchWriteScheduled() (after the
// flag test); the writer goroutine can be held inside every callback it makes (store.Batched, Reset, BatchWrite,
// Commit/Cancel, BatchWriteDone).  After every script item the harness waits until every goroutine of the case
// is parked or has returned (consistent runtime.Stack snapshot) and records what it saw.  The Coq side replays
// the items on the model (Corr.replay).
// Free mode: uncontrolled producers / flushers / Stop with a short batch timeout; the totally ordered event log is
// judged by a Go-side oracle (safety automaton, completeness, final store) and by Corr.free_ok.
package main

import (
	"bytes"
	"flag"
	"fmt"
	"os"
	"runtime"
	"strconv"
	"strings"
	"sync"
	"sync/atomic"
	"time"

	"github.com/iotaledger/hive.go/kvstore"
	"github.com/iotaledger/hive.go/kvstore/mapdb"

	"verif/harness/vx"
)

// ---------------------------------------------------------------- goroutine inspection

func curGid() uint64 {
	var b [64]byte
	n := runtime.Stack(b[:], false)
	f := bytes.Fields(b[:n])
	id, _ := strconv.ParseUint(string(f[1]), 10, 64)
	return id
}

type ginfo struct {
	state  string
	writer bool
}

var dumpBuf = make([]byte, 1<<18)
var dumpMu sync.Mutex

func dump() map[uint64]ginfo {
	dumpMu.Lock()
	defer dumpMu.Unlock()
	for {
		n := runtime.Stack(dumpBuf, true)
		if n < len(dumpBuf) {
			res := map[uint64]ginfo{}
			for _, blk := range bytes.Split(dumpBuf[:n], []byte("\n\n")) {
				if !bytes.HasPrefix(blk, []byte("goroutine ")) {
					continue
				}
				rest := blk[len("goroutine "):]
				sp := bytes.IndexByte(rest, ' ')
				id, _ := strconv.ParseUint(string(rest[:sp]), 10, 64)
				lb := bytes.IndexByte(rest, '[')
				rb := bytes.IndexByte(rest, ']')
				st := string(rest[lb+1 : rb])
				if c := strings.IndexByte(st, ','); c >= 0 {
					st = st[:c]
				}
				// a goroutine waiting for a mutex / semaphore is only "parked" when the lock belongs to the code under test
				// (startStopMutex, autoStartOnce, writeWg); locks inside the harness, sync.Map or mapdb are transient
				if st == "semacquire" || strings.HasPrefix(st, "sync.") {
					caller := ""
					lines := bytes.Split(blk, []byte("\n"))
					for k := 1; k < len(lines); k += 2 {
						f := string(lines[k])
						if strings.HasPrefix(f, "sync.") || strings.HasPrefix(f, "runtime.") || strings.HasPrefix(f, "internal/") {
							continue
						}
						caller = f
						break
					}
					if !strings.HasPrefix(caller, "github.com/iotaledger/hive.go/kvstore.(*BatchedWriter)") {
						st = "running"
					}
				}
				res[id] = ginfo{state: st, writer: bytes.Contains(blk, []byte(").runBatchWriter")) || bytes.Contains(blk, []byte("startBatchWriter.gowrap")) ||
					bytes.Contains(blk, []byte("startBatchWriter.func"))} // a goroutine that has not run yet shows only the go-statement wrapper
			}
			return res
		}
		dumpBuf = make([]byte, 2*len(dumpBuf))
	}
}

// parked: the goroutine is blocked in an application-level synchronisation operation. Runtime-internal waits
// ("GC assist wait", "GC sweep wait", ...) and the scheduler states (running, runnable, syscall, preempted, ...) are
// transient and count as still running.
func parked(st string) bool {
	switch st {
	case "chan receive", "chan send", "select", "semacquire", "sync.Mutex.Lock", "sync.RWMutex.RLock", "sync.RWMutex.Lock",
		"sync.Cond.Wait", "sync.WaitGroup.Wait", "sleep", "chan receive (nil chan)", "chan send (nil chan)", "select (no cases)":
		return true
	}
	return false
}

// ---------------------------------------------------------------- events

const (
	kBatched = iota
	kReset
	kWrite
	kCommit // also Cancel
	kDone
	kSet
	kInv
	kRet
	kCommitFail  // the store's batch Commit was called (with the mutations in batch) and returned the injected error
	kBatchedFail // store.Batched() returned the injected error
	kPanic       // the writer goroutine panicked with the injected error
)

type event struct {
	kind   int
	o, v   int
	t      int
	cancel bool
	batch  [][2]int
}

func (e event) coq() string {
	switch e.kind {
	case kBatched:
		return "EvBatched"
	case kReset:
		return fmt.Sprintf("EvReset %d", e.o)
	case kWrite:
		return fmt.Sprintf("EvWrite %d %d", e.o, e.v)
	case kCommit:
		if e.cancel {
			return "EvCancel"
		}
		return "EvCommit " + vx.ListOf(e.batch, func(p [2]int) string { return fmt.Sprintf("(%d, %d)", p[0], p[1]) })
	case kDone:
		return fmt.Sprintf("EvDone %d", e.o)
	case kSet:
		return fmt.Sprintf("EvSet %d %d %d", e.t, e.o, e.v)
	case kInv:
		return fmt.Sprintf("EvInv %d", e.t)
	case kRet:
		return fmt.Sprintf("EvRet %d %s", e.t, []string{"RAcc", "RRej", "RDup", "RUnit", "(RStop true)"}[e.v])
	case kCommitFail:
		return "FCommitFail " + vx.ListOf(e.batch, func(p [2]int) string { return fmt.Sprintf("(%d, %d)", p[0], p[1]) })
	case kBatchedFail:
		return "FBatchedFail"
	case kPanic:
		return "FPanic"
	}
	return "?"
}

// fcoq: the event as a term of FaultModel.fev
func (e event) fcoq() string {
	if e.kind >= kCommitFail {
		return e.coq()
	}
	return "FE (" + e.coq() + ")"
}

func (e event) String() string { return e.coq() }

// ---------------------------------------------------------------- instrumented world

type world struct {
	mu        sync.Mutex
	events    []event
	full      []event // writer callbacks plus invocations / returns of the client calls, for the Go-side oracle
	vals      []int
	gateMask  int
	pass      atomic.Bool // gates are pass-through (cleanup / free mode)
	wRelease  chan struct{}
	wAtGate   atomic.Bool
	writerGid atomic.Uint64
	armedAt   atomic.Int64 // unix nanos of the last Batched without a Commit/Cancel since; 0 = none
	inner     kvstore.KVStore
	objs      []*object

	// fault injection (fault.go): the failCommitAt-th call of the store's batch Commit / the failBatchedAt-th call of
	// store.Batched() returns an error (1-based; 0 = never)
	failCommitAt  int
	failBatchedAt int
	nCommit       atomic.Int32
	nBatched      atomic.Int32
	park          bool          // the injected error parks the panicking goroutine (the process survives)
	panicked      chan struct{} // closed when the writer panicked with the injected error
	panicOnce     sync.Once
	sink          func(event) // child-process mode: every event is written out at once
	// free-running modes with a spinning writer (batch time-out <= 0): a round (Batched, Cancel) that repeats the
	// previous round is not logged again (idempotent for every log predicate)
	compress   bool
	idleRounds int
	light      bool // start-up family: no goroutine lookup inside BatchWriteScheduled (the call's class comes from callObj)
}

var knownWriters sync.Map // gid -> true

func (w *world) wevent(e event) {
	w.mu.Lock()
	if w.compress && e.kind == kCommit && e.cancel {
		if n := len(w.events); n >= 3 && w.events[n-1].kind == kBatched && w.events[n-2].kind == kCommit && w.events[n-2].cancel && w.events[n-3].kind == kBatched {
			w.events = w.events[:n-1]
			w.idleRounds++
			w.mu.Unlock()
			return
		}
	}
	w.events = append(w.events, e)
	if !w.compress {
		w.full = append(w.full, e)
	}
	if w.sink != nil {
		w.sink(e)
	}
	w.mu.Unlock()
	switch e.kind {
	case kBatched:
		w.armedAt.Store(time.Now().UnixNano())
	case kCommit:
		w.armedAt.Store(0)
	}
	if e.kind <= kDone && w.gateMask&(1<<e.kind) != 0 && !w.pass.Load() {
		w.wAtGate.Store(true)
		<-w.wRelease
		w.wAtGate.Store(false)
	}
}

type wstore struct {
	kvstore.KVStore
	w *world
}

func (s *wstore) Batched() (kvstore.BatchedMutations, error) {
	if n := int(s.w.nBatched.Add(1)); n == s.w.failBatchedAt {
		s.w.wevent(event{kind: kBatchedFail})
		return nil, &injErr{w: s.w}
	}
	bm, err := s.KVStore.Batched()
	if s.w.writerGid.Load() == 0 {
		g := curGid()
		knownWriters.Store(g, true)
		s.w.writerGid.Store(g)
	}
	b := &wbatch{BatchedMutations: bm, w: s.w}
	s.w.wevent(event{kind: kBatched})
	return b, err
}

type wbatch struct {
	kvstore.BatchedMutations
	w    *world
	sets [][2]int
}

func (b *wbatch) Set(k kvstore.Key, v kvstore.Value) error {
	b.sets = append(b.sets, [2]int{int(k[0]), int(v[0])})
	return b.BatchedMutations.Set(k, v)
}
func (b *wbatch) Cancel() {
	b.BatchedMutations.Cancel()
	b.w.wevent(event{kind: kCommit, cancel: true})
}
func (b *wbatch) Commit() error {
	if n := int(b.w.nCommit.Add(1)); n == b.w.failCommitAt {
		b.BatchedMutations.Cancel() // nothing reaches the store
		b.w.wevent(event{kind: kCommitFail, batch: b.sets})
		return &injErr{w: b.w}
	}
	err := b.BatchedMutations.Commit()
	b.w.wevent(event{kind: kCommit, batch: b.sets})
	return err
}

type object struct {
	id   int
	flag atomic.Bool
	w    *world
}

var opByGid sync.Map // gid -> *opRun

func (o *object) BatchWriteScheduled() bool {
	r := !o.flag.CompareAndSwap(false, true)
	if o.w.light {
		return r
	}
	if x, ok := opByGid.Load(curGid()); ok {
		op := x.(*opRun)
		op.flagCalled = true
		op.flagRes = r
		if op.HoldFlag && !o.w.pass.Load() {
			op.atGate.Store(true)
			<-op.gateCh
			op.atGate.Store(false)
		}
	}
	return r
}
func (o *object) ResetBatchWriteScheduled() {
	o.flag.Store(false)
	o.w.wevent(event{kind: kReset, o: o.id})
}
func (o *object) BatchWrite(m kvstore.BatchedMutations) {
	o.w.mu.Lock()
	v := o.w.vals[o.id]
	o.w.mu.Unlock()
	_ = m.Set([]byte{byte(o.id)}, []byte{byte(v)})
	o.w.wevent(event{kind: kWrite, o: o.id, v: v})
}
func (o *object) BatchWriteDone() { o.w.wevent(event{kind: kDone, o: o.id}) }

func newWorld(nobj, mask int) *world {
	w := &world{vals: make([]int, nobj), gateMask: mask, wRelease: make(chan struct{}), inner: mapdb.NewMapDB()}
	for i := 0; i < nobj; i++ {
		w.objs = append(w.objs, &object{id: i, w: w})
	}
	return w
}

func (w *world) finalStore() []int { // -1 = absent
	res := make([]int, len(w.objs))
	for i := range w.objs {
		v, err := w.inner.Get([]byte{byte(i)})
		if err != nil || len(v) == 0 {
			res[i] = -1
		} else {
			res[i] = int(v[0])
		}
	}
	return res
}

func storeCoq(f []int) string {
	return vx.ListOf(f, func(v int) string {
		if v < 0 {
			return "None"
		}
		return fmt.Sprintf("(Some %d)", v)
	})
}

// ---------------------------------------------------------------- scripted mode

const (
	opEnq = iota
	opFlush
	opStop
)

type opSpec struct {
	Kind     int  `json:"kind"`
	Obj      int  `json:"obj"`
	Val      int  `json:"val"`
	HoldHook bool `json:"hold_hook,omitempty"`
	HoldFlag bool `json:"hold_flag,omitempty"`
}

type opRun struct {
	opSpec
	idx        int
	gid        atomic.Uint64
	started    bool
	returned   atomic.Bool
	atHook     atomic.Bool
	atGate     atomic.Bool
	hookCh     chan struct{}
	gateCh     chan struct{}
	flagCalled bool
	flagRes    bool
}

func (op *opRun) class() int {
	switch op.Kind {
	case opFlush:
		return 3
	case opStop:
		return 4
	}
	if !op.flagCalled {
		return 1
	}
	if op.flagRes {
		return 2
	}
	return 0
}

type scriptCase struct {
	Q, B  int      `json:"-"`
	Mask  int      `json:"gate_mask"`
	Ops   []opSpec `json:"ops"`
	Items []string `json:"items"`
	Desc  string   `json:"cfg"`
}

type itemObs struct {
	item    string
	events  []event
	ret     [][2]int
	running bool
	sched   int
	qlen    int
	token   bool
}

type runner struct {
	w        *world
	bw       *kvstore.BatchedWriter
	ops      []*opRun
	T        time.Duration
	seen     int // events already reported
	obs      []itemObs
	tainted  bool
	hang     string
	lastDump map[uint64]ginfo
}

func (r *runner) quiesce() bool {
	deadline := time.Now().Add(5 * time.Second)
	for spins := 0; ; spins++ {
		ok := true
		type chk struct {
			gid uint64
		}
		var need []uint64
		for _, op := range r.ops {
			if !op.started || op.returned.Load() {
				continue
			}
			g := op.gid.Load()
			if g == 0 {
				ok = false
				break
			}
			need = append(need, g)
		}
		if ok {
			d := dump()
			for _, g := range need {
				gi, present := d[g]
				if !present || !parked(gi.state) {
					ok = false
				}
			}
			for g, gi := range d {
				if gi.writer {
					if _, known := knownWriters.Load(g); !known && !parked(gi.state) {
						ok = false
					}
				}
			}
			if wg := r.w.writerGid.Load(); wg != 0 {
				if gi, present := d[wg]; present && !parked(gi.state) {
					ok = false
				}
			} else {
				for _, gi := range d { // a writer that has not reached its first callback yet
					if gi.writer && !parked(gi.state) {
						ok = false
					}
				}
			}
			// an op that returned after we sampled it is fine; one that vanished without the flag is re-checked above
			if ok {
				r.lastDump = d
				return true
			}
		}
		if time.Now().After(deadline) {
			return false
		}
		if spins < 50 {
			runtime.Gosched()
		} else {
			time.Sleep(50 * time.Microsecond)
		}
	}
}

func (r *runner) writerInSelect() bool {
	wg := r.w.writerGid.Load()
	if wg == 0 || r.lastDump == nil {
		return false
	}
	gi, ok := r.lastDump[wg]
	return ok && gi.state == "select"
}

func (r *runner) observe(item string) {
	r.w.mu.Lock()
	ev := append([]event(nil), r.w.events[r.seen:]...)
	r.seen = len(r.w.events)
	r.w.mu.Unlock()
	o := itemObs{item: item, events: ev}
	for _, op := range r.ops {
		if op.started && op.returned.Load() {
			o.ret = append(o.ret, [2]int{op.idx, op.class()})
		}
	}
	o.running, o.sched, o.qlen, o.token = r.bw.VerifState()
	r.obs = append(r.obs, o)
}

func (r *runner) release(op *opRun) {
	op.started = true
	go func() {
		g := curGid()
		opByGid.Store(g, op)
		op.gid.Store(g)
		switch op.Kind {
		case opEnq:
			r.w.mu.Lock()
			r.w.vals[op.Obj] = op.Val
			r.w.full = append(r.w.full, event{kind: kSet, t: op.idx, o: op.Obj, v: op.Val})
			r.w.mu.Unlock()
			r.bw.Enqueue(r.w.objs[op.Obj])
		case opFlush:
			r.bw.Flush()
		case opStop:
			r.w.mu.Lock()
			r.w.full = append(r.w.full, event{kind: kInv, t: op.idx})
			r.w.mu.Unlock()
			r.bw.StopBatchWriter()
		}
		opByGid.Delete(g)
		r.w.mu.Lock()
		r.w.full = append(r.w.full, event{kind: kRet, t: op.idx, v: op.class()})
		r.w.mu.Unlock()
		op.returned.Store(true)
	}()
}

func hookFn(point string) {
	if x, ok := opByGid.Load(curGid()); ok {
		op := x.(*opRun)
		if op.holdHook() {
			op.atHook.Store(true)
			<-op.hookCh
			op.atHook.Store(false)
		}
	}
}

var hooksPass atomic.Bool

func (op *opRun) holdHook() bool { return op.HoldHook && !hooksPass.Load() }

// runScript generates and runs one scripted case. Returns nil if the case was timing-tainted.
func runScript(rng *vx.Rng, directed int) (*scriptCase, *runner) {
	q := rng.Intn(4)
	b := 1 + rng.Intn(3)
	nobj := 3
	mask := 0
	switch rng.Intn(5) {
	case 0, 1:
	case 2:
		mask = 31
	default:
		mask = rng.Intn(32)
	}
	nops := 2 + rng.Intn(6)
	var specs []opSpec
	stops := 0
	for i := 0; i < nops; i++ {
		x := rng.Intn(100)
		switch {
		case x < 62 || i == 0:
			specs = append(specs, opSpec{Kind: opEnq, Obj: rng.Intn(nobj), Val: i + 1, HoldHook: rng.Chance(1, 4), HoldFlag: rng.Chance(1, 4)})
		case x < 77:
			specs = append(specs, opSpec{Kind: opFlush})
		default:
			if stops < 2 {
				stops++
				specs = append(specs, opSpec{Kind: opStop})
			} else {
				specs = append(specs, opSpec{Kind: opEnq, Obj: rng.Intn(nobj), Val: i + 1})
			}
		}
	}
	var fixedItems []string
	switch directed {
	case 1: // D08b regression: Enqueue(b) held after its running check while Stop runs; queue 0
		q, b, mask = 0, 1, 0
		specs = []opSpec{{Kind: opEnq, Obj: 0, Val: 1}, {Kind: opEnq, Obj: 1, Val: 2, HoldFlag: true}, {Kind: opStop}}
		fixedItems = []string{"IRel 0", "IRel 1", "IRel 2", "IWait", "IGate 1", "IWait", "IWait"}
	case 2: // same with queue 1
		q, b, mask = 1, 2, 0
		specs = []opSpec{{Kind: opEnq, Obj: 0, Val: 1}, {Kind: opEnq, Obj: 1, Val: 2, HoldFlag: true}, {Kind: opStop}}
		fixedItems = []string{"IRel 0", "IRel 1", "IRel 2", "IWait", "IGate 1", "IWait", "IWait"}
	case 3: // Enqueue held at the hook (counter raised) while Stop runs: rejected, writer makes one more round
		q, b, mask = 1, 1, 0
		specs = []opSpec{{Kind: opEnq, Obj: 0, Val: 1}, {Kind: opEnq, Obj: 1, Val: 2, HoldHook: true}, {Kind: opStop}}
		fixedItems = []string{"IRel 0", "IRel 1", "IRel 2", "IWait", "IHook 1", "IWait", "IWait"}
	case 4: // D08a regression shape: Stop directly after the first Enqueue, writer held in its first callback
		q, b, mask = 1, 1, 1
		specs = []opSpec{{Kind: opEnq, Obj: 0, Val: 1}, {Kind: opStop}}
		fixedItems = []string{"IRel 0", "IRel 1", "IW", "IW", "IW", "IW", "IW", "IW", "IW"}
	}
	T := 50 * time.Millisecond
	w := newWorld(nobj, mask)
	r := &runner{w: w, T: T}
	r.bw = kvstore.NewBatchedWriter(&wstore{KVStore: w.inner, w: w}, kvstore.WithQueueSize(q), kvstore.WithBatchSize(b), kvstore.WithBatchTimeout(T))
	for i, s := range specs {
		r.ops = append(r.ops, &opRun{opSpec: s, idx: i, hookCh: make(chan struct{}), gateCh: make(chan struct{})})
	}
	sc := &scriptCase{Q: q, B: b, Mask: mask, Ops: specs, Desc: fmt.Sprintf("queue=%d batch=%d", q, b)}
	next := 0
	trailing := 0
	for step := 0; step < 60 && r.hang == ""; step++ {
		// feasible actions
		type act struct {
			item string
			w    int
		}
		var acts []act
		if fixedItems != nil {
			if step >= len(fixedItems) {
				break
			}
			if fixedItems[step] == "IWait" && !r.writerInSelect() {
				continue
			}
			acts = []act{{fixedItems[step], 1}}
		} else {
			if next < len(r.ops) {
				acts = append(acts, act{fmt.Sprintf("IRel %d", next), 4})
			}
			stopParked := false
			for _, op := range r.ops {
				if op.atHook.Load() {
					acts = append(acts, act{fmt.Sprintf("IHook %d", op.idx), 2})
				}
				if op.atGate.Load() {
					acts = append(acts, act{fmt.Sprintf("IGate %d", op.idx), 2})
				}
				if op.Kind == opStop && op.started && !op.returned.Load() {
					stopParked = true
				}
			}
			if w.wAtGate.Load() {
				acts = append(acts, act{"IW", 6})
			} else if r.writerInSelect() {
				wt := 1
				if stopParked {
					wt = 4
				}
				if len(acts) == 0 {
					trailing++
					if trailing > 2 {
						break
					}
				}
				acts = append(acts, act{"IWait", wt})
			}
			if len(acts) == 0 {
				break
			}
		}
		tot := 0
		for _, a := range acts {
			tot += a.w
		}
		x := rng.Intn(tot)
		var it string
		for _, a := range acts {
			if x < a.w {
				it = a.item
				break
			}
			x -= a.w
		}
		var idx int
		if strings.Contains(it, " ") {
			idx, _ = strconv.Atoi(it[strings.IndexByte(it, ' ')+1:])
		}
		switch {
		case strings.HasPrefix(it, "IRel"):
			r.release(r.ops[idx])
			if idx >= next {
				next = idx + 1
			}
		case strings.HasPrefix(it, "IHook"):
			if r.ops[idx].atHook.Load() {
				r.ops[idx].hookCh <- struct{}{}
			}
		case strings.HasPrefix(it, "IGate"):
			if r.ops[idx].atGate.Load() {
				r.ops[idx].gateCh <- struct{}{}
			}
		case it == "IW":
			if w.wAtGate.Load() {
				w.wRelease <- struct{}{}
			}
		case it == "IWait":
			// wait for the timer: the next writer callback
			// baseline = what has been reported so far: the timer may already have fired since the last snapshot
			n0 := r.seen
			dl := time.Now().Add(20*T + 2*time.Second)
			for {
				w.mu.Lock()
				n := len(w.events)
				w.mu.Unlock()
				if n > n0 {
					break
				}
				if time.Now().After(dl) {
					if fixedItems == nil {
						r.hang = "no timeout callback"
					}
					break
				}
				time.Sleep(200 * time.Microsecond)
			}
		}
		if !r.quiesce() {
			r.hang = "no quiescence after " + it
		}
		if it != "IWait" {
			if a := w.armedAt.Load(); a != 0 && time.Now().UnixNano()-a > int64(T/2) {
				r.tainted = true
			}
		}
		sc.Items = append(sc.Items, it)
		r.observe(it)
		if r.tainted {
			break
		}
	}
	return sc, r
}

// endState: the full log, whether a Stop call that was invoked after an accepted Enqueue had returned has itself
// returned, and (in that case) what is wrong with the final state: the writer has terminated, so a call that is
// still inside Enqueue past the hook can never return, and nothing may be left in the queue.
func (r *runner) endState() (full []event, stopped bool, msg string) {
	r.w.mu.Lock()
	full = append([]event(nil), r.w.full...)
	r.w.mu.Unlock()
	accepted := false
	stopInvAfter := map[int]bool{}
	for _, e := range full {
		switch {
		case e.kind == kRet && (e.v == 0 || e.v == 2):
			accepted = true
		case e.kind == kInv && accepted:
			stopInvAfter[e.t] = true
		case e.kind == kRet && e.v == 4 && stopInvAfter[e.t]:
			stopped = true
		}
	}
	if !stopped || r.hang != "" {
		return
	}
	_, sched, qlen, _ := r.bw.VerifState()
	atHook := 0
	for _, op := range r.ops {
		if op.started && !op.returned.Load() {
			if op.atHook.Load() {
				atHook++
			} else if op.Kind == opEnq {
				msg = fmt.Sprintf("Enqueue call %d is still blocked although StopBatchWriter has returned (writer terminated)", op.idx)
			}
		}
	}
	if msg == "" && (qlen != 0 || sched != atHook) {
		msg = fmt.Sprintf("after StopBatchWriter returned: %d object(s) left in the queue, scheduledCount=%d with %d call(s) at the hook", qlen, sched, atHook)
	}
	return
}

// cleanup lets everything run and stops the writer (asynchronously; it ends with the next batch timeout).
func (r *runner) cleanup() {
	r.w.pass.Store(true)
	close(r.w.wRelease)
	for _, op := range r.ops {
		close(op.hookCh)
		close(op.gateCh)
	}
	bw := r.bw
	go bw.StopBatchWriter()
}

func itemCoq(o itemObs) string {
	return fmt.Sprintf("(%s, mkobs %s %s %s %s %d %s)", o.item,
		vx.ListOf(o.events, func(e event) string { return e.coq() }),
		vx.ListOf(o.ret, func(p [2]int) string { return fmt.Sprintf("(%d, %d)", p[0], p[1]) }),
		vx.Bool(o.running), vx.Z(int64(o.sched)), o.qlen, vx.Bool(o.token))
}

func opCoq(s opSpec) string {
	switch s.Kind {
	case opEnq:
		return fmt.Sprintf("OEnq %d %d", s.Obj, s.Val)
	case opFlush:
		return "OFlush"
	}
	return "OStop"
}

// ---------------------------------------------------------------- Go-side oracle on an event log

// judge returns "" or what is wrong. stopRet = index in log after which Stop had returned (-1: none).
func judge(log []event, final []int, stopped bool) string {
	var unc [][2]int
	var pend []int
	store := map[int]int{}
	nw, nd := map[int]int{}, map[int]int{}
	lastSet := map[int]event{}
	lastWriteAfterSet := map[int]bool{}
	retOf := map[int]int{}
	stopInv, stopRet := -1, -1
	failed := false // a store call (batch Commit / Batched) has returned an error
	var failedBatch [][2]int
	for i, e := range log {
		if failed && e.kind <= kDone {
			if e.kind == kDone {
				for _, p := range failedBatch {
					if p[0] == e.o {
						return fmt.Sprintf("BatchWriteDone(%d) although the store refused to commit the batch %v holding its mutation (Commit returned an error, nothing was written)", e.o, failedBatch)
					}
				}
			}
			return "writer callback " + e.coq() + " after a store call had failed (BatchWriteDone / further batches without a successful commit)"
		}
		if failed && e.kind == kRet && e.v == 4 {
			return fmt.Sprintf("StopBatchWriter returned although a store call had failed (refused batch %v): enqueued objects were never persisted", failedBatch)
		}
		switch e.kind {
		case kCommitFail:
			if len(pend) != 0 || len(e.batch) == 0 || fmt.Sprint(e.batch) != fmt.Sprint(unc) {
				return fmt.Sprintf("refused commit %v does not carry exactly the written mutations %v (or BatchWriteDone calls were due)", e.batch, unc)
			}
			failed, failedBatch = true, e.batch
		case kBatchedFail:
			if len(unc) != 0 || len(pend) != 0 {
				return "new batch requested while the previous one is open or BatchWriteDone calls are due"
			}
			failed = true
		case kSet:
			lastSet[e.o] = e
			lastWriteAfterSet[e.o] = false
		case kInv:
			if stopInv < 0 {
				stopInv = i
			}
		case kRet:
			retOf[e.t] = e.v
			if e.v == 4 && stopRet < 0 {
				stopRet = i
			}
			if e.v == 1 && stopInv < 0 {
				return fmt.Sprintf("Enqueue call %d rejected although no Stop had been invoked", e.t)
			}
		case kBatched:
			if len(unc) != 0 || len(pend) != 0 {
				return "new batch while the previous one is open or BatchWriteDone calls are due"
			}
		case kWrite:
			if len(pend) != 0 {
				return "BatchWrite while BatchWriteDone calls are due"
			}
			unc = append(unc, [2]int{e.o, e.v})
			nw[e.o]++
			lastWriteAfterSet[e.o] = true
		case kCommit:
			if e.cancel {
				if len(unc) != 0 {
					return "Cancel of a batch with mutations"
				}
				break
			}
			if len(pend) != 0 || len(e.batch) == 0 || fmt.Sprint(e.batch) != fmt.Sprint(unc) {
				return fmt.Sprintf("commit %v does not contain exactly the written mutations %v", e.batch, unc)
			}
			for _, p := range unc {
				store[p[0]] = p[1]
				pend = append(pend, p[0])
			}
			unc = nil
		case kDone:
			if len(pend) == 0 || pend[0] != e.o {
				return fmt.Sprintf("BatchWriteDone(%d) without a preceding commit of its mutation", e.o)
			}
			pend = pend[1:]
			nd[e.o]++
		}
		if stopRet >= 0 && i > stopRet && e.kind <= kDone {
			return "writer callback " + e.coq() + " after StopBatchWriter returned"
		}
	}
	for o, v := range final {
		sv, ok := store[o]
		if (v < 0) != !ok || (ok && sv != v) {
			return fmt.Sprintf("final store of object %d is %d, commits say %v/%v", o, v, sv, ok)
		}
	}
	if stopped {
		if len(unc) != 0 || len(pend) != 0 {
			return "Stop returned with an open batch or BatchWriteDone calls due"
		}
		for o, e := range lastSet {
			c, ok := retOf[e.t]
			if ok && (c == 0 || c == 2) {
				if !lastWriteAfterSet[o] || final[o] != e.v {
					return fmt.Sprintf("Enqueue call %d of object %d (content %d) was accepted but the store holds %d after Stop", e.t, o, e.v, final[o])
				}
			}
		}
		for o := range nw {
			if nw[o] != nd[o] {
				return fmt.Sprintf("object %d: %d BatchWrite, %d BatchWriteDone", o, nw[o], nd[o])
			}
		}
	}
	return ""
}

// ---------------------------------------------------------------- free mode

type freeCase struct {
	Desc string `json:"cfg"`
	Seed uint64 `json:"sub_seed"`
}

func runFree(rng *vx.Rng, shape int) (log []event, final []int, desc string, hang string) {
	q := rng.Intn(4)
	b := 1 + rng.Intn(3)
	nobj := 3
	T := time.Duration(1+rng.Intn(3)) * time.Millisecond
	nprod := 1 + rng.Intn(3)
	per := 1 + rng.Intn(4)
	if shape == 1 { // Stop directly after the first Enqueue
		nprod = 0
	}
	w := newWorld(nobj, 0)
	w.pass.Store(true)
	bw := kvstore.NewBatchedWriter(&wstore{KVStore: w.inner, w: w}, kvstore.WithQueueSize(q), kvstore.WithBatchSize(b), kvstore.WithBatchTimeout(T))
	desc = fmt.Sprintf("free queue=%d batch=%d timeout=%v producers=%d x %d shape=%d", q, b, T, nprod, per, shape)
	var tid atomic.Int32
	enq := func(o, v int) {
		t := int(tid.Add(1)) - 1
		op := &opRun{opSpec: opSpec{Kind: opEnq}}
		g := curGid()
		opByGid.Store(g, op)
		w.mu.Lock()
		w.vals[o] = v
		w.events = append(w.events, event{kind: kSet, t: t, o: o, v: v})
		w.mu.Unlock()
		bw.Enqueue(w.objs[o])
		opByGid.Delete(g)
		w.mu.Lock()
		w.events = append(w.events, event{kind: kRet, t: t, v: op.class()})
		w.mu.Unlock()
	}
	enq(rng.Intn(nobj), 1) // starts the writer; returned before Stop is invoked
	var wgp sync.WaitGroup
	for p := 0; p < nprod; p++ {
		pr := rng.Fork()
		wgp.Add(1)
		go func(p int) {
			defer wgp.Done()
			for k := 0; k < per; k++ {
				if pr.Chance(1, 5) {
					bw.Flush()
				}
				if pr.Chance(1, 3) {
					time.Sleep(time.Duration(pr.Intn(300)) * time.Microsecond)
				}
				enq(pr.Intn(nobj), 2+p*per+k)
			}
		}(p)
	}
	if shape != 1 && rng.Chance(2, 3) {
		time.Sleep(time.Duration(rng.Intn(1500)) * time.Microsecond)
	}
	if shape == 2 { // producers done before Stop
		wgp.Wait()
	}
	stopT := int(tid.Add(1)) - 1
	w.mu.Lock()
	w.events = append(w.events, event{kind: kInv, t: stopT})
	w.mu.Unlock()
	done := make(chan struct{})
	go func() {
		bw.StopBatchWriter()
		w.mu.Lock()
		w.events = append(w.events, event{kind: kRet, t: stopT, v: 4})
		w.mu.Unlock()
		wgp.Wait()
		close(done)
	}()
	select {
	case <-done:
	case <-time.After(8 * time.Second):
		hang = "Stop or an Enqueue call did not return within 8s"
	}
	time.Sleep(time.Duration(2+rng.Intn(3)) * T) // a writer that is still alive would show up in the log
	w.mu.Lock()
	log = append([]event(nil), w.events...)
	w.mu.Unlock()
	final = w.finalStore()
	return
}

// ---------------------------------------------------------------- main

func main() {
	if len(os.Args) < 2 {
		vx.Die("usage: hx-c08 run [flags]")
	}
	if os.Args[1] == "faultchild" {
		childMain(os.Args[2:])
		return
	}
	fs := flag.NewFlagSet("run", flag.ExitOnError)
	n := fs.Int("n", 200, "scripted cases")
	nfree := fs.Int("free", 100, "free-running cases")
	nfault := fs.Int("fault", 0, "free-running cases over a store with an injected fault (in-process)")
	nchild := fs.Int("child", 0, "sequential fault cases in a child process that really dies")
	nopts := fs.Int("opts", 0, "rounds over the grid of option corner values")
	nobjs := fs.Int("objs", 0, "cases with rich objects (several keys, Set and Delete, shared marshal buffer)")
	nstart := fs.Int("startup", 0, "rounds of concurrent first Enqueue calls on a fresh writer")
	startBudget := fs.Duration("startup-budget", 9*time.Second, "no further start-up round is begun after this time (at least a quarter of the rounds is run)")
	workers := fs.Int("workers", 4, "parallel scripted cases")
	seed := fs.Uint64("seed", 1, "seed")
	out := fs.String("out", "cases.v", "cases file")
	stats := fs.String("stats", "stats.json", "stats file")
	_ = fs.Parse(os.Args[2:])

	kvstore.SetVerifYield(hookFn)
	rng := vx.NewRng(*seed)
	st := vx.NewStats("fault: free-running cases / sequential child-process cases over a store whose n-th batch Commit or Batched() call fails; opts: grid of option corner values (time-out -1h..1h, batch 1/2/4/default, queue 0/1/2/default) x 5 scenario shapes, completeness at Stop; scripted: 2-7 client calls (Enqueue on 3 objects / Flush / Stop) released in scripted order, optional holds at the Enqueue hook / flag test / writer callbacks, queue 0-3, batch 1-3, timer waits; free: 1-3 producers x 1-4 Enqueue + Flush + racing Stop, timeout 1-3ms; distinct = distinct (config, item sequence); non-trivial = at least one commit and one Stop or hold")
	cf := &vx.CasesFile{
		Header: "From Coq Require Import List Bool ZArith.\nFrom Verif.C08_Batch Require Import Model FaultModel Muts Corr.\nImport ListNotations.\n",
		Type:   "case",
		Footer: "Definition M := Eval vm_compute in mismatches cases.\nPrint M.\n",
	}
	tainted := 0
	type result struct {
		sc      *scriptCase
		r       *runner
		final   []int
		retries int
		full    []event
		// a Stop call released after an Enqueue call had returned "accepted" (so the writer existed) has returned
		stoppedAfterStart bool
		endMsg            string
	}
	results := make([]result, *n)
	subs := make([][]*vx.Rng, *n)
	for i := range subs {
		for try := 0; try < 5; try++ {
			subs[i] = append(subs[i], rng.Fork())
		}
	}
	var next atomic.Int32
	var hangs atomic.Int32
	var wgw sync.WaitGroup
	for wk := 0; wk < *workers; wk++ {
		wgw.Add(1)
		go func() {
			defer wgw.Done()
			for {
				i := int(next.Add(1)) - 1
				if i >= *n {
					return
				}
				directed := 0
				if i < 4 {
					directed = i + 1
				}
				if hangs.Load() >= 3 { // every further case would run into the watchdogs as well
					continue
				}
				for try := 0; try < 5; try++ {
					sc, r := runScript(subs[i][try], directed)
					final := r.w.finalStore()
					full, stopped, endMsg := r.endState()
					r.cleanup()
					if r.hang != "" {
						hangs.Add(1)
					}
					if !r.tainted {
						results[i] = result{sc: sc, r: r, final: final, retries: try, full: full, stoppedAfterStart: stopped, endMsg: endMsg}
						break
					}
					results[i].retries = try + 1
				}
			}
		}()
	}
	wgw.Wait()
	for i := 0; i < *n; i++ {
		sc, r, final := results[i].sc, results[i].r, results[i].final
		tainted += results[i].retries
		for k := 0; k < results[i].retries; k++ {
			st.Count("tainted-retry")
		}
		if sc == nil {
			if hangs.Load() >= 3 {
				st.Count("skipped-after-hangs")
			} else {
				st.Count("tainted-dropped")
			}
			continue
		}
		holds := [][2]int{}
		for j, s := range sc.Ops {
			if s.HoldHook {
				holds = append(holds, [2]int{j, 0})
			}
			if s.HoldFlag {
				holds = append(holds, [2]int{j, 1})
			}
		}
		term := fmt.Sprintf("Scripted %d %d %d %s %s %s %s", sc.Q, sc.B, sc.Mask,
			vx.ListOf(sc.Ops, opCoq),
			vx.ListOf(holds, func(p [2]int) string { return fmt.Sprintf("(%d, %d)", p[0], p[1]) }),
			vx.ListOf(r.obs, itemCoq), storeCoq(final))
		cf.Add(term)
		st.CaseIndex = append(st.CaseIndex, map[string]any{"mode": "scripted", "cfg": sc.Desc, "gate_mask": sc.Mask, "ops": sc.Ops, "items": sc.Items})
		// oracle on the recorded writer events
		r.w.mu.Lock()
		lg := append([]event(nil), r.w.events[:r.seen]...)
		r.w.mu.Unlock()
		commits, holdsUsed, stopRet := 0, false, false
		for _, e := range lg {
			if e.kind == kCommit && !e.cancel {
				commits++
			}
		}
		for _, it := range sc.Items {
			if strings.HasPrefix(it, "IHook") || strings.HasPrefix(it, "IGate") || it == "IW" {
				holdsUsed = true
			}
		}
		for _, op := range r.ops {
			if op.Kind == opStop && op.returned.Load() {
				stopRet = true
			}
		}
		_ = lg
		if msg := judge(results[i].full, final, results[i].stoppedAfterStart); msg != "" {
			st.Fail(map[string]any{"mode": "scripted", "what": msg, "cfg": sc.Desc, "ops": sc.Ops, "items": sc.Items})
		} else if results[i].endMsg != "" {
			st.Fail(map[string]any{"mode": "scripted", "what": results[i].endMsg, "cfg": sc.Desc, "ops": sc.Ops, "items": sc.Items})
		}
		if r.hang != "" {
			st.Fail(map[string]any{"mode": "scripted", "what": "harness watchdog: " + r.hang, "cfg": sc.Desc, "ops": sc.Ops, "items": sc.Items})
		}
		// completeness at the end of a scripted case: every call has been released and left to finish
		st.Case(fmt.Sprint(sc.Desc, sc.Mask, sc.Ops, sc.Items), commits > 0 && (stopRet || holdsUsed))
		st.Count(fmt.Sprintf("scripted/queue=%d", sc.Q))
		st.Count(fmt.Sprintf("scripted/batch=%d", sc.B))
		if stopRet {
			st.Count("scripted/stop-returned")
		}
		if holdsUsed {
			st.Count("scripted/gates-used")
		}
		for _, it := range sc.Items {
			st.Count("item/" + strings.Fields(it)[0])
		}
	}
	hooksPass.Store(true)
	var ctr atomic.Uint64
	kvstore.SetVerifYield(func(string) {
		if c := ctr.Add(1); c%3 == 0 {
			runtime.Gosched()
		} else if c%7 == 0 {
			time.Sleep(20 * time.Microsecond)
		}
	})
	freeHangs := 0
	for i := 0; i < *nfree; i++ {
		if freeHangs >= 3 {
			st.Count("skipped-after-hangs")
			continue
		}
		sub := rng.Fork()
		shape := i % 3
		log, final, desc, hang := runFree(sub, shape)
		cf.Add(fmt.Sprintf("Free %s 3 %s true", vx.ListOf(log, func(e event) string { return e.coq() }), storeCoq(final)))
		st.CaseIndex = append(st.CaseIndex, map[string]any{"mode": "free", "cfg": desc, "index": i})
		if hang != "" {
			freeHangs++
			st.Fail(map[string]any{"mode": "free", "what": hang, "cfg": desc, "index": i})
		} else if msg := judge(log, final, true); msg != "" {
			st.Fail(map[string]any{"mode": "free", "what": msg, "cfg": desc, "index": i, "log": fmt.Sprint(log)})
		}
		rej := false
		for _, e := range log {
			if e.kind == kRet && e.v == 1 {
				rej = true
			}
		}
		st.Case(fmt.Sprint(desc, log), len(log) > 8)
		st.Count(fmt.Sprintf("free/shape=%d", shape))
		if rej {
			st.Count("free/enqueue-rejected-by-racing-stop")
		}
	}
	// ---- store faults (in-process) ----
	faultHangs := 0
	for i := 0; i < *nfault; i++ {
		if faultHangs >= 3 {
			st.Count("skipped-after-hangs")
			continue
		}
		sub := rng.Fork()
		shape := i % 3
		log, final, desc, hang := runFault(sub, shape)
		flog, reached, panicked := splitAtFault(log)
		if reached {
			cf.Add(fmt.Sprintf("Faulty %s 3 %s", vx.ListOf(flog, func(e event) string { return e.fcoq() }), storeCoq(final)))
		} else {
			cf.Add(fmt.Sprintf("Free %s 3 %s true", vx.ListOf(log, func(e event) string { return e.coq() }), storeCoq(final)))
		}
		st.CaseIndex = append(st.CaseIndex, map[string]any{"mode": "fault", "cfg": desc, "index": i})
		if hang != "" {
			faultHangs++
			st.Fail(map[string]any{"mode": "fault", "what": hang, "cfg": desc, "index": i, "log": fmt.Sprint(flog)})
		} else if msg := judge(log, final, !reached); msg != "" {
			st.Fail(map[string]any{"mode": "fault", "what": msg, "cfg": desc, "index": i, "log": fmt.Sprint(flog)})
		}
		st.Case(fmt.Sprint(desc, flog), reached)
		switch {
		case reached && panicked:
			st.Count("fault/reached-and-writer-panicked")
		case reached:
			st.Count("fault/reached-no-panic")
		default:
			st.Count("fault/not-reached(judged-as-free-run)")
		}
		for _, e := range flog {
			if e.kind == kCommitFail {
				st.Count("fault/commit-refused")
			} else if e.kind == kBatchedFail {
				st.Count("fault/batched-refused")
			}
		}
	}
	// ---- store faults (child process) ----
	for i := 0; i < *nchild; i++ {
		sub := rng.Fork()
		cr := runChild(sub)
		flog, reached, _ := splitAtFault(cr.log)
		if reached {
			cf.Add(fmt.Sprintf("Faulty %s 3 %s", vx.ListOf(flog, func(e event) string { return e.fcoq() }), storeCoq(cr.final)))
		} else {
			cf.Add(fmt.Sprintf("Free %s 3 %s true", vx.ListOf(cr.log, func(e event) string { return e.coq() }), storeCoq(cr.final)))
		}
		st.CaseIndex = append(st.CaseIndex, map[string]any{"mode": "fault-child", "cfg": cr.desc, "index": i})
		if cr.problem != "" {
			vx.Die("fault child: %s (%s)", cr.problem, cr.desc)
		}
		if cr.abnormal != "" {
			st.Fail(map[string]any{"mode": "fault-child", "what": "the child process ended without finishing its script (Enqueue..., StopBatchWriter) although no store call had failed: " + cr.abnormal, "cfg": cr.desc, "index": i, "log": fmt.Sprint(flog)})
		} else if msg := judge(cr.log, cr.final, !reached); msg != "" {
			st.Fail(map[string]any{"mode": "fault-child", "what": msg, "cfg": cr.desc, "index": i, "log": fmt.Sprint(flog)})
		}
		st.Case(fmt.Sprint(cr.desc, flog), reached)
		switch {
		case reached && cr.died:
			st.Count("fault-child/reached-and-process-died-with-the-injected-panic")
		case reached:
			st.Count("fault-child/reached-process-survived")
		default:
			st.Count("fault-child/not-reached")
		}
	}
	// ---- option corner values ----
	if *nopts > 0 {
		grid := optGrid()
		type ores struct {
			log     []event
			final   []int
			desc    string
			hang    string
			spins   int
			skipped bool
			cfg     optCfg
		}
		var jobs []ores
		var subsO []*vx.Rng
		shapes := []int{}
		off := rng.Intn(nOptShapes)
		for r := 0; r < *nopts; r++ {
			for gi, c := range grid {
				jobs = append(jobs, ores{cfg: c})
				subsO = append(subsO, rng.Fork())
				shapes = append(shapes, (gi+gi/4*2+off+r)%nOptShapes)
			}
		}
		var nextO, hangsO atomic.Int32
		var wgo sync.WaitGroup
		for wk := 0; wk < *workers; wk++ {
			wgo.Add(1)
			go func() {
				defer wgo.Done()
				for {
					i := int(nextO.Add(1)) - 1
					if i >= len(jobs) {
						return
					}
					if hangsO.Load() >= 3 {
						jobs[i].skipped = true
						continue
					}
					j := &jobs[i]
					j.log, j.final, j.desc, j.hang, j.spins = runOpts(subsO[i], j.cfg, shapes[i])
					if j.hang != "" {
						hangsO.Add(1)
					}
				}
			}()
		}
		wgo.Wait()
		for i, j := range jobs {
			if j.skipped {
				st.Count("skipped-after-hangs")
				continue
			}
			cf.Add(fmt.Sprintf("Free %s 3 %s true", vx.ListOf(j.log, func(e event) string { return e.coq() }), storeCoq(j.final)))
			st.CaseIndex = append(st.CaseIndex, map[string]any{"mode": "opts", "cfg": j.desc, "index": i})
			nw, nd := 0, 0
			for _, e := range j.log {
				if e.kind == kWrite {
					nw++
				} else if e.kind == kDone {
					nd++
				}
			}
			if j.hang != "" {
				st.Fail(map[string]any{"mode": "opts", "what": fmt.Sprintf("%s; so far %d BatchWrite, %d BatchWriteDone, store %v", j.hang, nw, nd, j.final), "cfg": j.desc, "index": i, "log": fmt.Sprint(j.log)})
			} else if msg := judge(j.log, j.final, true); msg != "" {
				st.Fail(map[string]any{"mode": "opts", "what": msg, "cfg": j.desc, "index": i, "log": fmt.Sprint(j.log)})
			}
			st.Case(fmt.Sprint(j.desc, j.log), nw > 0)
			c := j.cfg
			ts := "default(500ms)"
			if c.T != optDefault {
				ts = c.T.String()
			}
			st.Count("opts/timeout=" + ts)
			st.Count("opts/" + strings.Fields(c.String())[1])
			st.Count("opts/" + strings.Fields(c.String())[2])
			if j.spins > 0 {
				st.Count("opts/writer-spun-on-empty-batches")
			}
		}
	}
	// ---- object behaviours ----
	{
		res := make([]objsResult, *nobjs)
		subsR := make([]*vx.Rng, *nobjs)
		for i := range subsR {
			subsR[i] = rng.Fork()
		}
		var nextR, hangsR atomic.Int32
		var wgr sync.WaitGroup
		for wk := 0; wk < *workers; wk++ {
			wgr.Add(1)
			go func() {
				defer wgr.Done()
				for {
					i := int(nextR.Add(1)) - 1
					if i >= *nobjs {
						return
					}
					if hangsR.Load() >= 3 {
						res[i].desc = "skipped"
						continue
					}
					res[i] = runObjs(subsR[i])
					if res[i].hang != "" {
						hangsR.Add(1)
					}
				}
			}()
		}
		wgr.Wait()
		for i, r := range res {
			if r.desc == "skipped" {
				st.Count("skipped-after-hangs")
				continue
			}
			cf.Add(objsCoq(r, r.nobj))
			st.CaseIndex = append(st.CaseIndex, map[string]any{"mode": "objs", "cfg": r.desc, "steps": r.steps, "index": i})
			rep := map[string]any{"mode": "objs", "cfg": r.desc, "steps": r.steps, "index": i, "log": fmt.Sprint(r.log), "mutations-per-BatchWrite": fmt.Sprint(r.wmuts)}
			if r.hang != "" {
				rep["what"] = r.hang
				st.Fail(rep)
			} else if r.fail != "" {
				rep["what"] = r.fail
				st.Fail(rep)
			} else if msg := judge(r.log, r.finalV, true); msg != "" {
				rep["what"] = msg
				st.Fail(rep)
			}
			st.Case(fmt.Sprint(r.desc, r.steps), len(r.wmuts) > 1)
			st.Count("objs/cases")
			if r.oneBatchTwice > 0 {
				st.Count("objs/one-object-written-twice-in-one-batch")
			}
			if r.setThenDel > 0 {
				st.Count("objs/key-set-then-deleted-by-two-BatchWrite-calls-of-one-batch")
			}
			if r.delThenSet > 0 {
				st.Count("objs/key-deleted-then-set-by-two-BatchWrite-calls-of-one-batch")
			}
			if r.stopped {
				st.Count("objs/ended-with-Stop")
			} else {
				st.Count("objs/ended-with-Flush(timer-never-fires)")
			}
		}
	}
	// ---- start-up: concurrent first Enqueue calls ----
	kvstore.SetVerifYield(nil)
	{
		startHangs, startFails, emitted := 0, 0, 0
		t0 := time.Now()
		for i := 0; i < *nstart; i++ {
			if i >= *nstart/4 && i%64 == 0 && time.Since(t0) > *startBudget {
				st.Hist["startup/rounds-not-run(time-budget)"] += *nstart - i
				break
			}
			if startHangs >= 3 {
				st.Count("skipped-after-hangs")
				continue
			}
			sub := rng.Fork()
			log, final, desc, hang := runStartup(sub)
			msg := hang
			if hang != "" {
				startHangs++
			} else {
				msg = judge(log, final, true)
			}
			st.Count("startup/rounds")
			st.Count("startup/" + strings.Fields(desc)[1])
			if msg != "" {
				startFails++
				if startFails <= 5 {
					st.Fail(map[string]any{"mode": "startup", "what": msg, "cfg": desc, "index": i, "log": fmt.Sprint(log)})
				} else {
					st.Count("startup/further-failing-rounds")
				}
			}
			if emitted < 40 || (msg != "" && startFails <= 5) { // the Coq side sees a sample and every reported round
				emitted++
				cf.Add(fmt.Sprintf("Free %s %d %s true", vx.ListOf(log, func(e event) string { return e.coq() }), len(final), storeCoq(final)))
				st.CaseIndex = append(st.CaseIndex, map[string]any{"mode": "startup", "cfg": desc, "index": i})
				st.Case(fmt.Sprint(desc, log), true)
			}
		}
	}
	if err := cf.Write(*out); err != nil {
		vx.Die("write cases: %v", err)
	}
	if err := st.Write(*stats); err != nil {
		vx.Die("write stats: %v", err)
	}
	fmt.Printf("c08: %d scripted (%d tainted retries), %d free, %d fault + %d child, %d opts rounds, %d objs, %d startup rounds, %d oracle failures\n", *n, tainted, *nfree, *nfault, *nchild, *nopts, *nobjs, *nstart, len(st.OracleFailures))
}
