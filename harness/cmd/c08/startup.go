// Start-up (round 4 strengthening, class of seed C08-m11: the auto-start of the writer is not atomic with respect to the
// other first callers).  Every other family issues the first Enqueue of a BatchedWriter alone and lets it return before
// anything else happens.  Here k >= 2 producers issue the very first Enqueue calls of a FRESH BatchedWriter at the same
// moment (spin barrier directly in front of the call, released by a non-participant once all producers are running; no hook, no logging, no lock between barrier and call),
// some of them a second one right after.  No Stop is anywhere near: StopBatchWriter is invoked only after every producer
// has returned.  So every call "returned before StopBatchWriter was invoked": none may be rejected, and at Stop's return
// every object is written, committed, Done and in the store (judge with stopped = true; Coq: Corr.free_ok incl.
// no_rej_before_stop).  The race window cannot be widened from outside (the start runs under the private
// startStopMutex), so the family is statistical: many cheap rounds (a round costs one batch time-out of 5-100us plus the set-up of a writer).
package main

import (
	"fmt"
	"runtime"
	"sync"
	"sync/atomic"
	"time"

	"github.com/iotaledger/hive.go/kvstore"

	"verif/harness/vx"
)

func runStartup(rng *vx.Rng) (log []event, final []int, desc string, hang string) {
	k := []int{2, 3, 4, 4, 4, 6, 8, 8}[rng.Intn(8)] // per unit of time 4-8 producers hit a start-up window about 3x as often as 2
	nobj := k
	T := []time.Duration{5 * time.Microsecond, 20 * time.Microsecond, 100 * time.Microsecond}[rng.Intn(3)]
	q := []int{0, 1, k, 16}[rng.Intn(4)]
	b := []int{1, 2, k, 16}[rng.Intn(4)]
	share := rng.Chance(1, 6) // two producers on one object
	bmode := []int{0, 0, 0, 1, 2}[rng.Intn(5)]
	w := newWorld(nobj, 0)
	w.pass.Store(true)
	w.light = true
	w.compress = true
	bw := kvstore.NewBatchedWriter(&wstore{KVStore: w.inner, w: w}, kvstore.WithQueueSize(q), kvstore.WithBatchSize(b), kvstore.WithBatchTimeout(T))
	type plan struct {
		o, v   int
		second bool
		o2, v2 int
		c1, c2 *callObj
		skew   int32
		spin   *atomic.Int32
	}
	plans := make([]plan, k)
	tid := 0
	for p := range plans {
		pl := &plans[p]
		pl.o, pl.v = p, p+1
		if share && p == k-1 {
			pl.o = 0
		}
		pl.second = rng.Chance(1, 3)
		pl.spin = new(atomic.Int32)
		if bmode == 2 || (bmode == 1 && p > 0) {
			pl.skew = int32(rng.Intn(300))
		}
		pl.o2, pl.v2 = rng.Intn(nobj), 10+p
		pl.c1 = &callObj{BatchWriteObject: w.objs[pl.o]}
		pl.c2 = &callObj{BatchWriteObject: w.objs[pl.o2]}
		// the content change of the first call is made (and logged) before the barrier
		w.vals[pl.o] = pl.v
		w.events = append(w.events, event{kind: kSet, t: tid, o: pl.o, v: pl.v})
		tid += 2
	}
	desc = fmt.Sprintf("startup producers=%d barrier=%d queue=%d batch=%d timeout=%v shared-object=%v second=%s", k, bmode, q, b, T, share,
		vx.ListOf(plans, func(p plan) string { return vx.Bool(p.second) }))
	var arrive, start atomic.Int32
	var wgp sync.WaitGroup
	for p := range plans {
		wgp.Add(1)
		go func(p int) {
			defer wgp.Done()
			pl := &plans[p]
			arrive.Add(1)
			if bmode == 0 { // released by the last producer to arrive
				for n := 0; arrive.Load() < int32(k); n++ {
					if n > 20000 {
						runtime.Gosched()
					}
				}
			} else { // released by the coordinator, then a few (0-63) empty iterations of skew
				for n := 0; start.Load() == 0; n++ {
					if n > 20000 {
						runtime.Gosched()
					}
				}
				for n := int32(0); n < pl.skew; n++ {
					pl.spin.Load()
				}
			}
			bw.Enqueue(pl.c1)
			if pl.second {
				w.mu.Lock()
				w.vals[pl.o2] = pl.v2
				w.events = append(w.events, event{kind: kSet, t: 2*p + 1, o: pl.o2, v: pl.v2})
				w.mu.Unlock()
				bw.Enqueue(pl.c2)
				w.ev1(event{kind: kRet, t: 2*p + 1, v: pl.c2.class()})
			}
		}(p)
	}
	// all producers spin on one flag that is set by a non-participant once all of them are running
	for n := 0; arrive.Load() < int32(k); n++ {
		if n > 2000 {
			runtime.Gosched()
		}
	}
	start.Store(1)
	done := make(chan struct{})
	go func() {
		defer close(done)
		wgp.Wait()
		w.mu.Lock()
		for p := range plans {
			w.events = append(w.events, event{kind: kRet, t: 2 * p, v: plans[p].c1.class()})
		}
		w.events = append(w.events, event{kind: kInv, t: 2 * k})
		w.mu.Unlock()
		bw.StopBatchWriter()
		w.ev1(event{kind: kRet, t: 2 * k, v: 4})
	}()
	select {
	case <-done:
	case <-time.After(8 * time.Second):
		hang = "an Enqueue call or the StopBatchWriter after them did not return within 8s"
	}
	w.mu.Lock()
	log = append([]event(nil), w.events...)
	w.mu.Unlock()
	final = w.finalStore()
	return
}

func (w *world) ev1(e event) {
	w.mu.Lock()
	w.events = append(w.events, e)
	w.mu.Unlock()
}
