// C15 harness: runtime/event, runtime/promise.Event1, runtime/valuenotifier against the three models of coq/C15_Events.
package main

import (
	"flag"
	"os"
	"time"

	"verif/harness/vx"
)

func main() {
	if len(os.Args) < 2 || os.Args[1] != "hist" {
		vx.Die("usage: hx-c15 hist --nev N --npr N --nno N --nrl N --conc N --barrier N --fresh N --seed S --out cases.v --stats stats.json")
	}
	fs := flag.NewFlagSet("hist", flag.ExitOnError)
	nev := fs.Int("nev", 200, "event histories")
	npr := fs.Int("npr", 100, "promise histories")
	nno := fs.Int("nno", 150, "notifier histories")
	nrl := fs.Int("nrl", 40, "event histories with a LinkTo at a chosen position of a running walk")
	conc := fs.Int("conc", 10, "free-running runs per kind")
	barrier := fs.Int("barrier", 3000, "rounds of barrier-released simultaneous triggers on limited events/hooks")
	barrierMs := fs.Int("barrier-ms", 4000, "wall-clock cap for the barrier rounds")
	fresh := fs.Int("fresh", 4000, "rounds of barrier-released FIRST operations on fresh events / promise events / notifiers")
	freshMs := fs.Int("fresh-ms", 3000, "wall-clock cap for the fresh-object rounds")
	seed := fs.Uint64("seed", 1, "")
	out := fs.String("out", "cases.v", "")
	stats := fs.String("stats", "stats.json", "")
	_ = fs.Parse(os.Args[2:])
	r := vx.NewRng(*seed)
	st := vx.NewStats("lockstep histories: events (new/hook/unhook/linkTo/trigger, operations also performed inside callbacks, limits 0..3 at event and hook level, pooled hooks), promise.Event1 (OnTrigger/unsubscribe/Trigger incl. re-entrant), valuenotifier (Listener/Notify/Deregister/Wait held at the yield point, values 0..2); distinct = distinct operation sequences; non-trivial = >=3 synchronous callback invocations / >=2 promise callbacks / >=1 successful Wait")
	cf := &vx.CasesFile{
		Header: "From Coq Require Import NArith List.\nFrom Verif.C15_Events Require Import Model ModelPromise ModelNotifier Corr.\nImport ListNotations.\n",
		Type:   "case",
		Footer: "Definition M := Eval vm_compute in mismatches cases.\nPrint M.\n",
	}
	add := func(kind, term, key string, nt bool, fail string, tag string) {
		cf.Add(term)
		st.Case(kind+":"+key, nt)
		st.Count("kind:" + kind)
		st.CaseIndex = append(st.CaseIndex, map[string]any{"kind": kind, "tag": tag, "ops": key})
		st.Sample(map[string]any{"kind": kind, "ops": key}, 6)
		if fail != "" {
			st.Fail(map[string]any{"sig": "", "kind": kind, "ops": key, "why": fail})
		}
	}
	for d := 1; d <= 3; d++ {
		t, k, nt, _, f := runEventHistory(r.Fork(), 0, d)
		add("event", t, k, nt, f, "directed")
	}
	for i := 0; i < *nev; i++ {
		rr := r.Fork()
		t, k, nt, _, f := runEventHistory(rr, 4+rr.Intn(26), 0)
		add("event", t, k, nt, f, "random")
	}
	for i := 0; i < *npr; i++ {
		rr := r.Fork()
		t, k, nt, f := runPromiseHistory(rr, 2+rr.Intn(14))
		add("promise", t, k, nt, f, "random")
	}
	for rep := 0; rep < 8; rep++ { // the select of a released waiter is a coin flip when two cases are ready: repeat
		for d := 1; d <= 4; d++ {
			t, k, nt, f := runNotifierHistory(r.Fork(), 0, d)
			add("notifier", t, k, nt, f, "directed")
		}
	}
	for i := 0; i < *nno; i++ {
		rr := r.Fork()
		t, k, nt, f := runNotifierHistory(rr, 4+rr.Intn(26), 0)
		add("notifier", t, k, nt, f, "random")
	}
	re, rp, rn, rb := r.Fork(), r.Fork(), r.Fork(), r.Fork() // (the barrier stream is forked last: the older streams keep their seeds)
	rf, rl := r.Fork(), r.Fork()
	for i := 0; i < *nrl; i++ {
		t, k, nt, _, f := runEventHistory(rl.Fork(), 0, 4)
		add("event", t, k, nt, f, "relink-in-walk")
	}
	barrierLimits(rb, st, *barrier, time.Duration(*barrierMs)*time.Millisecond)
	freshFirstUse(rf, st, *fresh, time.Duration(*freshMs)*time.Millisecond)
	concEvents(re, st, *conc)
	concPromise(rp, st, *conc)
	concNotifier(rn, st, *conc)
	if err := cf.Write(*out); err != nil {
		vx.Die("%v", err)
	}
	if err := st.Write(*stats); err != nil {
		vx.Die("%v", err)
	}
}
