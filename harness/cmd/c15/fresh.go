// C15, lifecycle-start races: the FIRST operations on a brand-new object, issued by several goroutines at once. Every
// other family of this harness prepares its objects from one goroutine (events get their hooks, promises their first
// callbacks, notifiers their first listeners before anything runs concurrently), so whatever an implementation sets up
// on first use (a lazily allocated container, a lazily published field, a once-only initialisation) is always set up
// sequentially there. Here every round builds a fresh object and releases k = 2..4 workers through the spin barrier of
// barrier.go (same release modes and skews) into its first operations:
//   event     Hook x Hook, Hook x Trigger, Hook x LinkTo (other events linking to the fresh one = its first hooks come
//             from linkTo; the fresh event itself linking to fresh targets = first use of its link), Trigger x LinkTo, ...
//   promise   OnTrigger x OnTrigger, OnTrigger x Trigger, Trigger x Trigger on a fresh promise.Event1 / promise.Event
//   notifier  Listener x Listener, Listener x Notify on a fresh valuenotifier.Notifier
// (each worker performs one or two such operations; all combinations of first operations are drawn). When all workers
// have finished, the driver goroutine alone performs the quiescent part and judges with the property's own predicate:
//   event     a Trigger invokes every hook whose Hook (or linking LinkTo) call had returned before the Trigger began
//             exactly once with its argument - for the racing triggers (ordered by a logical clock that is ticked after
//             the attaching call returned and before the Trigger call) and for the quiescent trigger (all hooks); no hook
//             twice per trigger, no invocation with an argument nobody triggered; an unhooked hook no more, the others
//             still exactly once and in the same order; the fresh event linked by k racing LinkTo calls fires exactly
//             once for one trigger of each of the targets (one current target, no former one); TriggerCount = #triggers
//   promise   exactly one Trigger call wins; every callback runs exactly once, with the winner's argument, also one
//             registered afterwards
//   notifier  Wait = success only if Notify was called after the listener was created: never for a listener of a
//             round without Notify, never for a listener created after the racing Notify calls have returned (until the
//             quiescent Notify)
package main

import (
	"context"
	"fmt"
	"sync/atomic"
	"time"

	"github.com/iotaledger/hive.go/runtime/event"
	"github.com/iotaledger/hive.go/runtime/promise"
	"github.com/iotaledger/hive.go/runtime/valuenotifier"

	"verif/harness/vx"
)

const (
	fSlots = 2 // operations per worker
	// argument classes of an event round: 0..7 racing trigger (worker*2+slot), 8 / 9 the quiescent triggers, 10..17 the
	// trigger of link target (worker*2+slot)
	fArgQ1   = 50
	fArgQ2   = 51
	fArgTgt  = 100
	fArgs    = 18
	fIdxQ1   = 8
	fIdxQ2   = 9
	fIdxTgt0 = 10
)

func fArgIdx(a int) int {
	switch {
	case a >= 0 && a < 8:
		return a
	case a == fArgQ1:
		return fIdxQ1
	case a == fArgQ2:
		return fIdxQ2
	case a >= fArgTgt && a < fArgTgt+8:
		return fIdxTgt0 + a - fArgTgt
	}
	return -1
}

type fOp uint8

const (
	fNone fOp = iota
	fHook
	fTrigger
	fLinkFrom // a fresh source event links itself to the round's event: linkTo attaches the first hooks
	fLinkTo   // the round's event links itself to a fresh target: first use of its link field
	fOnTrigger
	fPTrigger
	fListener
	fNotify
)

var fOpName = map[fOp]string{fHook: "Hook", fTrigger: "Trigger", fLinkFrom: "LinkFrom", fLinkTo: "LinkTo",
	fOnTrigger: "OnTrigger", fPTrigger: "Trigger", fListener: "Listener", fNotify: "Notify"}

type fOps [barrierMaxK][fSlots]fOp

func (o *fOps) shape(k int) string {
	s := ""
	for g := 0; g < k; g++ {
		if g > 0 {
			s += " | "
		}
		for i := 0; i < fSlots && o[g][i] != fNone; i++ {
			if i > 0 {
				s += ";"
			}
			s += fOpName[o[g][i]]
		}
	}
	return s
}

// drawOps: the first operations of workers 0 and 1 are a drawn combination (so that every pair is exercised as the
// very first access), the rest is random; the second operation exists with probability 1/2
func drawOps(r *vx.Rng, k int, combos [][2]fOp, any []fOp) (o fOps, combo string) {
	c := vx.Pick(r, combos)
	for g := 0; g < k; g++ {
		if g < 2 {
			o[g][0] = c[g]
		} else {
			o[g][0] = vx.Pick(r, any)
		}
		if r.Chance(1, 2) {
			o[g][1] = vx.Pick(r, any)
		}
	}
	return o, fOpName[c[0]] + "x" + fOpName[c[1]]
}

// ---------------------------------------------------------------------------------------------------- event rounds

type fRec struct {
	h     *event.Hook[func(int)] // the hook of the round's event (nil for a link: the source's LinkTo owns that hook)
	cb    func(int)
	link  bool
	ret   int32 // logical time at which the attaching call had returned
	calls [fArgs]atomic.Int32
	bad   atomic.Int32
	pos   [2]int32 // position in the walk of the two quiescent triggers
}

type fEvRound struct {
	spinGate
	e     *event.Event1[int]
	ops   fOps
	clock atomic.Int32
	seq   atomic.Int32
	recs  [barrierMaxK][fSlots]*fRec
	other [barrierMaxK][fSlots]*event.Event1[int] // LinkFrom: the source, LinkTo: the target
	begin [barrierMaxK][fSlots]int32             // Trigger: logical time before the call
}

var fEvCombos = [][2]fOp{{fHook, fHook}, {fHook, fHook}, {fHook, fTrigger}, {fTrigger, fHook}, {fHook, fLinkFrom}, {fLinkFrom, fHook},
	{fLinkFrom, fLinkFrom}, {fHook, fLinkTo}, {fLinkTo, fHook}, {fLinkTo, fLinkTo}, {fTrigger, fLinkFrom}, {fLinkFrom, fTrigger},
	{fTrigger, fLinkTo}, {fLinkTo, fLinkFrom}, {fTrigger, fTrigger}}
var fEvAny = []fOp{fHook, fHook, fHook, fTrigger, fTrigger, fLinkFrom, fLinkFrom, fLinkTo}

func newFreshEventRound(r *vx.Rng, st *vx.Stats, k int) (*fEvRound, string) {
	rd := &fEvRound{e: event.New1[int]()}
	drawGate(r, &rd.spinGate, k)
	var combo string
	rd.ops, combo = drawOps(r, rd.k, fEvCombos, fEvAny)
	st.Count("fresh:event:" + combo)
	for g := 0; g < rd.k; g++ {
		for s := 0; s < fSlots; s++ {
			switch rd.ops[g][s] {
			case fHook, fLinkFrom:
				rec := &fRec{link: rd.ops[g][s] == fLinkFrom}
				rec.cb = func(a int) {
					i := fArgIdx(a)
					if i < 0 {
						rec.bad.Add(1)
						return
					}
					rec.calls[i].Add(1)
					if i == fIdxQ1 || i == fIdxQ2 {
						rec.pos[i-fIdxQ1] = rd.seq.Add(1)
					}
				}
				rd.recs[g][s] = rec
				if rec.link {
					// the source has its counting hook already; what races is its LinkTo = Hook on the round's event
					rd.other[g][s] = event.New1[int]()
					rd.other[g][s].Hook(rec.cb)
				}
			case fLinkTo:
				rd.other[g][s] = event.New1[int]()
			}
		}
	}
	return rd, fmt.Sprintf("fresh event: %s ops=[%s]", rd.spinGate.String(), rd.ops.shape(rd.k))
}

func (rd *fEvRound) run(g int) {
	rd.wait(g)
	for s := 0; s < fSlots; s++ {
		switch rd.ops[g][s] {
		case fHook:
			rec := rd.recs[g][s]
			rec.h = rd.e.Hook(rec.cb)
			rec.ret = rd.clock.Add(1)
		case fLinkFrom:
			rd.other[g][s].LinkTo(rd.e)
			rd.recs[g][s].ret = rd.clock.Add(1)
		case fLinkTo:
			rd.e.LinkTo(rd.other[g][s])
		case fTrigger:
			rd.begin[g][s] = rd.clock.Add(1)
			rd.e.Trigger(g*fSlots + s)
		}
	}
}

const fEvKind = "concurrent first operations on a fresh event"

func (rd *fEvRound) judge() (string, string) {
	if why := rd.judgeEvent(); why != "" {
		return fEvKind, why
	}
	return "", ""
}

func (rd *fEvRound) judgeEvent() string {
	type hk struct {
		rec  *fRec
		g, s int
	}
	var hooks []hk
	issued := [fArgs]bool{}
	triggers, linkTos := uint64(0), 0
	for g := 0; g < rd.k; g++ {
		for s := 0; s < fSlots; s++ {
			switch rd.ops[g][s] {
			case fHook, fLinkFrom:
				hooks = append(hooks, hk{rd.recs[g][s], g, s})
			case fTrigger:
				issued[g*fSlots+s] = true
				triggers++
			case fLinkTo:
				linkTos++
			}
		}
	}
	// a hook attached by the driver after the race: the racing triggers owe it nothing, every later trigger one call
	obs := &fRec{ret: 1 << 30}
	obs.cb = func(a int) {
		if i := fArgIdx(a); i >= 0 {
			obs.calls[i].Add(1)
			if i == fIdxQ1 || i == fIdxQ2 {
				obs.pos[i-fIdxQ1] = rd.seq.Add(1)
			}
		} else {
			obs.bad.Add(1)
		}
	}
	obs.h = rd.e.Hook(obs.cb)
	hooks = append(hooks, hk{obs, -1, 0})
	name := func(h hk) string {
		if h.g < 0 {
			return "a hook attached after all racing calls had returned"
		}
		if h.rec.link {
			return fmt.Sprintf("the event linked to the fresh event by worker %d (op %d)", h.g, h.s)
		}
		return fmt.Sprintf("the hook attached by worker %d (op %d)", h.g, h.s)
	}
	// (1) the racing triggers
	for _, h := range hooks {
		if h.rec.bad.Load() != 0 {
			return name(h) + " was invoked with an argument that no Trigger call passed"
		}
		for a := 0; a < 8; a++ {
			c := h.rec.calls[a].Load()
			switch {
			case (!issued[a] || h.g < 0) && c != 0:
				return fmt.Sprintf("%s was invoked with argument %d that no Trigger call passed while it was attached", name(h), a)
			case c > 1:
				return fmt.Sprintf("%s was invoked %d times by one Trigger (worker %d, op %d)", name(h), c, a/fSlots, a%fSlots)
			case issued[a] && c == 0 && h.rec.ret < rd.begin[a/fSlots][a%fSlots]:
				return fmt.Sprintf("%s: the attaching call had returned (logical time %d) before the Trigger of worker %d (op %d) began (%d), yet that Trigger did not invoke it",
					name(h), h.rec.ret, a/fSlots, a%fSlots, rd.begin[a/fSlots][a%fSlots])
			}
		}
	}
	// (2) quiescent trigger: all attaching calls have returned
	rd.e.Trigger(fArgQ1)
	triggers++
	for _, h := range hooks {
		if c := h.rec.calls[fIdxQ1].Load(); c != 1 {
			return fmt.Sprintf("%s was invoked %d times by a Trigger that began after all %d attaching calls had returned (exactly once expected)", name(h), c, len(hooks)-1)
		}
	}
	// (3) k racing LinkTo calls of the fresh event: exactly one current target
	if linkTos > 0 {
		for g := 0; g < rd.k; g++ {
			for s := 0; s < fSlots; s++ {
				if rd.ops[g][s] == fLinkTo {
					rd.other[g][s].Trigger(fArgTgt + g*fSlots + s)
				}
			}
		}
		fired := -1
		for _, h := range hooks {
			n, which := 0, -1
			for i := fIdxTgt0; i < fArgs; i++ {
				if c := int(h.rec.calls[i].Load()); c > 0 {
					n, which = n+c, i
				}
			}
			if n != 1 {
				return fmt.Sprintf("the fresh event was linked by %d racing LinkTo calls to %d fresh targets; one Trigger of each target invoked %s %d times (exactly once expected: one current target)",
					linkTos, linkTos, name(h), n)
			}
			if fired >= 0 && which != fired {
				return "the hooks of the fresh event were fired by different link targets"
			}
			fired = which
		}
		triggers++
	}
	if tc := uint64(rd.e.TriggerCount()); tc != triggers {
		return fmt.Sprintf("TriggerCount of the fresh event = %d after %d triggers", tc, triggers)
	}
	// (4) one hook unhooked: not invoked any more, the others exactly once and in the same order as before
	un := -1
	for i, h := range hooks {
		if !h.rec.link && (h.g >= 0 || len(hooks) == 1) {
			un = i
			break
		}
	}
	if un >= 0 {
		hooks[un].rec.h.Unhook()
	}
	rd.e.Trigger(fArgQ2)
	for i, h := range hooks {
		want := int32(1)
		if i == un {
			want = 0
		}
		if c := h.rec.calls[fIdxQ2].Load(); c != want {
			return fmt.Sprintf("after Unhook of one of %d hooks: %s was invoked %d times by the next Trigger, expected %d", len(hooks), name(h), c, want)
		}
	}
	for i, a := range hooks {
		for j, b := range hooks {
			if i != un && j != un && (a.rec.pos[0] < b.rec.pos[0]) != (a.rec.pos[1] < b.rec.pos[1]) && i != j {
				return fmt.Sprintf("two quiescent triggers invoked %s and %s in different orders (attachment order is one order)", name(a), name(b))
			}
		}
	}
	return ""
}

// -------------------------------------------------------------------------------------------------- promise rounds

type fCb struct {
	calls atomic.Int32
	arg   atomic.Int64
}

type fPrRound struct {
	spinGate
	arity1 bool
	on     func(cb func(int))
	trig   func(a int) bool
	was    func() bool
	ops    fOps
	cbs    [barrierMaxK][fSlots]*fCb
	won    [barrierMaxK][fSlots]bool
}

var fPrCombos = [][2]fOp{{fOnTrigger, fOnTrigger}, {fOnTrigger, fPTrigger}, {fPTrigger, fOnTrigger}, {fPTrigger, fPTrigger}}
var fPrAny = []fOp{fOnTrigger, fOnTrigger, fPTrigger}

func newFreshPromiseRound(r *vx.Rng, st *vx.Stats, k int) (*fPrRound, string) {
	rd := &fPrRound{arity1: r.Chance(2, 3)}
	drawGate(r, &rd.spinGate, k)
	if rd.arity1 {
		p := promise.NewEvent1[int]()
		rd.on = func(cb func(int)) { p.OnTrigger(cb) }
		rd.trig, rd.was = p.Trigger, p.WasTriggered
	} else {
		p := promise.NewEvent()
		rd.on = func(cb func(int)) { p.OnTrigger(func() { cb(-1) }) }
		rd.trig, rd.was = func(int) bool { return p.Trigger() }, p.WasTriggered
	}
	var combo string
	rd.ops, combo = drawOps(r, rd.k, fPrCombos, fPrAny)
	st.Count("fresh:promise:" + combo)
	for g := 0; g < rd.k; g++ {
		for s := 0; s < fSlots; s++ {
			if rd.ops[g][s] == fOnTrigger {
				rd.cbs[g][s] = &fCb{}
			}
		}
	}
	ty := "promise.Event"
	if rd.arity1 {
		ty = "promise.Event1"
	}
	return rd, fmt.Sprintf("fresh %s: %s ops=[%s]", ty, rd.spinGate.String(), rd.ops.shape(rd.k))
}

func (c *fCb) cb(a int) {
	c.arg.Store(int64(a))
	c.calls.Add(1)
}

func (rd *fPrRound) run(g int) {
	rd.wait(g)
	for s := 0; s < fSlots; s++ {
		switch rd.ops[g][s] {
		case fOnTrigger:
			rd.on(rd.cbs[g][s].cb)
		case fPTrigger:
			rd.won[g][s] = rd.trig(g*fSlots + s)
		}
	}
}

func (rd *fPrRound) judge() (string, string) {
	const kind = "concurrent first operations on a fresh promise event"
	wins, winner := 0, -1
	if rd.trig(fArgQ1) {
		wins, winner = 1, fArgQ1
	}
	for g := 0; g < rd.k; g++ {
		for s := 0; s < fSlots; s++ {
			if rd.won[g][s] {
				wins, winner = wins+1, g*fSlots+s
			}
		}
	}
	if wins != 1 {
		return kind, fmt.Sprintf("%d Trigger calls returned true (exactly one expected)", wins)
	}
	if !rd.was() {
		return kind, "WasTriggered() = false after Trigger"
	}
	late := &fCb{}
	rd.on(late.cb)
	check := func(c *fCb, who string) string {
		if n := c.calls.Load(); n != 1 {
			return fmt.Sprintf("the callback registered by %s ran %d times after the event was triggered (exactly once expected)", who, n)
		}
		if a := int(c.arg.Load()); rd.arity1 && a != winner {
			return fmt.Sprintf("the callback registered by %s ran with argument %d, the winning Trigger passed %d", who, a, winner)
		}
		return ""
	}
	for g := 0; g < rd.k; g++ {
		for s := 0; s < fSlots; s++ {
			if c := rd.cbs[g][s]; c != nil {
				if why := check(c, fmt.Sprintf("worker %d (op %d)", g, s)); why != "" {
					return kind, why
				}
			}
		}
	}
	if why := check(late, "a later OnTrigger"); why != "" {
		return kind, why
	}
	return "", ""
}

// ------------------------------------------------------------------------------------------------- notifier rounds

type fNoRound struct {
	spinGate
	n   *valuenotifier.Notifier[int]
	ops fOps
	ls  [barrierMaxK][fSlots]*valuenotifier.Listener
}

var fNoCombos = [][2]fOp{{fListener, fListener}, {fListener, fListener}, {fListener, fNotify}, {fNotify, fListener}}
var fNoAny = []fOp{fListener, fListener, fNotify}

var fCancelled = func() context.Context {
	ctx, cancel := context.WithCancel(context.Background())
	cancel()
	return ctx
}()

const fValue = 7

func newFreshNotifierRound(r *vx.Rng, st *vx.Stats, k int) (*fNoRound, string) {
	rd := &fNoRound{n: valuenotifier.New[int]()}
	drawGate(r, &rd.spinGate, k)
	var combo string
	rd.ops, combo = drawOps(r, rd.k, fNoCombos, fNoAny)
	st.Count("fresh:notifier:" + combo)
	return rd, fmt.Sprintf("fresh notifier: %s ops=[%s]", rd.spinGate.String(), rd.ops.shape(rd.k))
}

func (rd *fNoRound) run(g int) {
	rd.wait(g)
	for s := 0; s < fSlots; s++ {
		switch rd.ops[g][s] {
		case fListener:
			rd.ls[g][s] = rd.n.Listener(fValue)
		case fNotify:
			rd.n.Notify(fValue)
		}
	}
}

var fNotWoken atomic.Int64 // not part of the property (Wait = success ONLY IF ...): reported as a counter

func (rd *fNoRound) judge() (string, string) {
	const kind = "concurrent first operations on a fresh value notifier"
	notified := false
	for g := 0; g < rd.k; g++ {
		for s := 0; s < fSlots; s++ {
			notified = notified || rd.ops[g][s] == fNotify
		}
	}
	// a Wait with a cancelled context never blocks; success needs the value's channel to be closed
	for g := 0; g < rd.k; g++ {
		for s := 0; s < fSlots; s++ {
			if l := rd.ls[g][s]; l != nil && !(g == 0 && notified) {
				// (worker 0's listeners of a round with Notify are kept for the quiescent Notify below)
				if err := l.Wait(fCancelled); err == nil && !notified {
					return kind, fmt.Sprintf("Wait of the listener created by worker %d (op %d) returned success although Notify was never called", g, s)
				}
			}
		}
	}
	b, b2 := rd.n.Listener(fValue), rd.n.Listener(fValue)
	if err := b2.Wait(fCancelled); err == nil {
		return kind, "Wait of a listener created after all racing calls had returned reported success before any later Notify"
	}
	rd.n.Notify(fValue)
	// (whether the quiescent Notify reached the listeners is looked up in their channel: no waiting, no timing)
	if !isClosed(chanField(b, "channel")) {
		fNotWoken.Add(1)
	}
	_ = b.Wait(fCancelled)
	for s := 0; s < fSlots && notified; s++ {
		if l := rd.ls[0][s]; l != nil {
			if !isClosed(chanField(l, "channel")) {
				fNotWoken.Add(1)
			}
			_ = l.Wait(fCancelled)
		}
	}
	return "", ""
}

// ------------------------------------------------------------------------------------------------------------ driver

// freshFirstUse runs `rounds` rounds (about 60 % event, 20 % promise, 20 % notifier), stops early after maxWall
func freshFirstUse(r *vx.Rng, st *vx.Stats, rounds int, maxWall time.Duration) {
	spinDrive(st, "fresh", rounds, maxWall, func(k int) (spinRound, int, string) {
		switch r.Intn(5) {
		case 0:
			rd, shape := newFreshPromiseRound(r, st, k)
			return rd, rd.k, shape
		case 1:
			rd, shape := newFreshNotifierRound(r, st, k)
			return rd, rd.k, shape
		default:
			rd, shape := newFreshEventRound(r, st, k)
			return rd, rd.k, shape
		}
	})
	if n := fNotWoken.Load(); n > 0 {
		st.Extra["fresh_notifier_listeners_not_woken_by_later_notify"] = n
	}
}
