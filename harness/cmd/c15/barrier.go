// C15 (a) runtime/event, simultaneous triggers: the clause "an event or hook limited by WithMaxTriggerCount(n) fires exactly
// min(n, number of triggers) times under any concurrency" needs triggers whose count tests overlap within nanoseconds.
// Free-running goroutines (concEvents) are concurrent only at a much coarser grain, so here k persistent workers are
// released into Trigger through a spin barrier, round after round, on fresh events/hooks with small limits. The schedule
// families: (release) the workers leave on the last arrival at a shared counter, or all at a common clock deadline;
// (skew) each worker spins 0..63 extra iterations after the release so that the offsets between the count tests sweep
// the neighbourhood of 0 in both directions; (train) every worker triggers the same 1..4 fresh events one after the
// other, so that one round gives several near-simultaneous arrivals.
// The oracle is the property's own predicate, exact: per limited hook calls = min(limit, accepted triggers), accepted =
// min(event limit, k); no hook twice with one worker's argument; Event.TriggerCount = k; Hook.TriggerCount in [calls, k].
package main

import (
	"fmt"
	"runtime"
	"sync/atomic"
	"time"

	"github.com/iotaledger/hive.go/runtime/event"

	"verif/harness/vx"
)

const barrierMaxK = 4

// one limited-or-not hook of a round with its per-worker invocation counters
type bHook struct {
	ev    int
	limit uint64
	h     *event.Hook[func(int)]
	calls [barrierMaxK]atomic.Int32 // invocations with worker g's argument
}

type bEvent struct {
	e      *event.Event1[int]
	limit  uint64
	linked int // index of the event this one is linked to (-1: triggered directly)
}

// spinGate: the spin barrier of one round (shared by all round families of this file and fresh.go)
type spinGate struct {
	k        int
	deadline bool // release at a common clock deadline instead of on the last arrival
	skew     [barrierMaxK]int
	arrived  atomic.Int32
	goAt     atomic.Int64 // deadline mode: unix nanos published by the last arriver
}

type bRound struct {
	spinGate
	evs    []*bEvent
	direct []int // events the workers trigger, in this order
	hooks  []*bHook
}

// spinRound: one barrier-released round. run(g) is executed by worker g < k (it starts with the gate), judge by the
// driver after all workers have finished the round's batch: ("", "") when the round is fine.
type spinRound interface {
	run(g int)
	judge() (kind, why string)
}

var barrierSink atomic.Int64

// spinUntil: busy wait (no scheduler call in the fast path: the point is to leave within nanoseconds of the others);
// yields now and then so that a descheduled partner on a busy machine cannot make this burn a core for long, and gives up
// after ~2 s (the worker then proceeds unsynchronised: only the simultaneity is lost, never the oracle's soundness).
func spinUntil(cond func() bool) {
	for i := 1; !cond(); i++ {
		if i%4096 == 0 {
			runtime.Gosched()
			if i > 1<<24 {
				return
			}
		}
	}
}

// wait: worker g passes the gate (arrival, release, its skew)
func (rd *spinGate) wait(g int) {
	k := int32(rd.k)
	if rd.deadline {
		if rd.arrived.Add(1) == k {
			rd.goAt.Store(time.Now().UnixNano() + 3000)
		}
		spinUntil(func() bool { t := rd.goAt.Load(); return t != 0 && time.Now().UnixNano() >= t })
	} else {
		rd.arrived.Add(1)
		spinUntil(func() bool { return rd.arrived.Load() >= k })
	}
	x := 0
	for i := 0; i < rd.skew[g]; i++ {
		x += i
	}
	barrierSink.Add(int64(x & 1))
}

// drawGate draws k (0: random 2..4), the release mode and the skews
func drawGate(r *vx.Rng, gt *spinGate, k int) {
	if k == 0 {
		k = 2 + r.Intn(barrierMaxK-1)
	}
	gt.k, gt.deadline = k, r.Chance(1, 3)
	for g := 0; g < k; g++ {
		if r.Chance(1, 2) {
			gt.skew[g] = r.Intn(64)
		}
	}
}

func (rd *spinGate) String() string {
	rel := "arrival"
	if rd.deadline {
		rel = "deadline"
	}
	return fmt.Sprintf("k=%d release=%s skew=%v", rd.k, rel, rd.skew[:rd.k])
}

func (rd *bRound) run(g int) {
	rd.wait(g)
	for _, e := range rd.direct {
		rd.evs[e].e.Trigger(g)
	}
}

// newBarrierRound draws the shape of one round from r (k = 0: also the number of workers) and builds fresh events and
// hooks for it.
func newBarrierRound(r *vx.Rng, k int) (*bRound, string) {
	rd := &bRound{}
	drawGate(r, &rd.spinGate, k)
	train := 1 + r.Intn(4)
	shape := ""
	small := []uint64{1, 1, 2, 2, 3}
	for t := 0; t < train; t++ {
		kind := vx.Pick(r, []string{"event", "hook", "hook", "both", "link"})
		var elim uint64
		if kind == "event" || kind == "both" {
			elim = vx.Pick(r, small)
		}
		var opts []event.Option
		if elim > 0 {
			opts = append(opts, event.WithMaxTriggerCount(elim))
		}
		ei := len(rd.evs)
		rd.evs = append(rd.evs, &bEvent{e: event.New1[int](opts...), limit: elim, linked: -1})
		rd.direct = append(rd.direct, ei)
		addHook := func(e int, lim uint64) {
			bh := &bHook{ev: e, limit: lim}
			var ho []event.Option
			if lim > 0 {
				ho = append(ho, event.WithMaxTriggerCount(lim))
			}
			bh.h = rd.evs[e].e.Hook(func(a int) {
				if a >= 0 && a < barrierMaxK {
					bh.calls[a].Add(1)
				}
			}, ho...)
			rd.hooks = append(rd.hooks, bh)
		}
		shape += fmt.Sprintf("%s(e=%d", kind, elim)
		switch kind {
		case "event":
			addHook(ei, 0)
		case "hook", "both":
			// several limited hooks in one walk: every one of them is its own count test reached almost simultaneously
			nh := 1 + r.Intn(3)
			for i := 0; i < nh; i++ {
				lim := vx.Pick(r, small)
				addHook(ei, lim)
				shape += fmt.Sprintf(",h=%d", lim)
			}
			addHook(ei, 0)
		case "link":
			// a limited event fed through LinkTo (the link hook triggers it inline), with a limited hook of its own
			lim := vx.Pick(r, small)
			li := len(rd.evs)
			rd.evs = append(rd.evs, &bEvent{e: event.New1[int](event.WithMaxTriggerCount(lim)), limit: lim, linked: ei})
			rd.evs[li].e.LinkTo(rd.evs[ei].e)
			hl := vx.Pick(r, []uint64{0, 1, 2})
			addHook(li, hl)
			addHook(ei, 0)
			shape += fmt.Sprintf(",linked=%d,h=%d", lim, hl)
		}
		shape += ")"
	}
	return rd, fmt.Sprintf("%s train=%s", rd.spinGate.String(), shape)
}

func minU(a, b uint64) uint64 {
	if a < b {
		return a
	}
	return b
}

const barrierKind = "simultaneous Trigger calls with WithMaxTriggerCount: wrong number of invocations"

func (rd *bRound) judge() (kind, why string) {
	if why = rd.judgeCounts(); why != "" {
		kind = barrierKind
	}
	return
}

// judgeCounts: exact counts (the property's predicate), "" when the round is fine
func (rd *bRound) judgeCounts() string {
	k := uint64(rd.k)
	// triggers reaching an event / accepted by it
	reach := make([]uint64, len(rd.evs))
	acc := make([]uint64, len(rd.evs))
	for i, e := range rd.evs {
		reach[i] = k
		if e.linked >= 0 {
			reach[i] = acc[e.linked] // events are created target first
		}
		acc[i] = reach[i]
		if e.limit > 0 {
			acc[i] = minU(e.limit, reach[i])
		}
		if tc := uint64(e.e.TriggerCount()); tc != reach[i] {
			return fmt.Sprintf("event #%d: TriggerCount = %d after %d triggers", i, tc, reach[i])
		}
	}
	for i, h := range rd.hooks {
		total := uint64(0)
		for g := 0; g < barrierMaxK; g++ {
			c := h.calls[g].Load()
			if c > 1 {
				return fmt.Sprintf("hook #%d (event #%d) was called %d times with the argument of one trigger (worker %d)", i, h.ev, c, g)
			}
			total += uint64(c)
		}
		want := acc[h.ev]
		if h.limit > 0 {
			want = minU(h.limit, want)
		}
		if total != want {
			return fmt.Sprintf("hook #%d (WithMaxTriggerCount(%d)) of event #%d (WithMaxTriggerCount(%d)) reached by %d concurrent triggers fired %d times, expected exactly %d",
				i, h.limit, h.ev, rd.evs[h.ev].limit, reach[h.ev], total, want)
		}
		if tc := uint64(h.h.TriggerCount()); tc < total || tc > acc[h.ev] {
			return fmt.Sprintf("hook #%d: TriggerCount = %d with %d invocations and %d accepted triggers of its event", i, tc, total, acc[h.ev])
		}
	}
	return ""
}

// bBatch: the rounds the workers run back to back, re-synchronising among themselves before each one. While all k
// worker threads are on a processor a round takes well under a microsecond, so one scheduling quantum yields a whole
// batch of simultaneous arrivals even when the machine is oversubscribed (a descheduled worker costs one wait per
// batch instead of one per round).
type bBatch struct {
	k      int
	rounds []spinRound
	shapes []string
	done   atomic.Int32
}

const barrierBatch = 32

// newRound(k) draws one round for k workers (k = 0: it also draws k) and returns it with its k and its replayable shape
func newBarrierBatch(n int, newRound func(k int) (spinRound, int, string)) *bBatch {
	b := &bBatch{}
	for i := 0; i < n; i++ {
		rd, k, shape := newRound(b.k)
		b.k = k
		b.rounds = append(b.rounds, rd)
		b.shapes = append(b.shapes, shape)
	}
	return b
}

// barrierLimits runs `rounds` rounds (stops early after maxWall); failures go to st.Fail with the round's shape.
func barrierLimits(r *vx.Rng, st *vx.Stats, rounds int, maxWall time.Duration) {
	spinDrive(st, "barrier", rounds, maxWall, func(k int) (spinRound, int, string) {
		rd, shape := newBarrierRound(r, k)
		return rd, rd.k, shape
	})
}

// spinDrive: 4 persistent workers run batches of rounds drawn by newRound; the driver judges every round of a finished
// batch (the workers are idle then: whatever judge does to the round's objects is quiescent). Counters are filed
// under tag ("barrier", "fresh").
func spinDrive(st *vx.Stats, tag string, rounds int, maxWall time.Duration, newRound func(k int) (spinRound, int, string)) {
	if rounds <= 0 {
		return
	}
	if runtime.GOMAXPROCS(0) < 2 {
		st.Count(tag + ":skipped-single-processor")
		return
	}
	var cur atomic.Pointer[bBatch]
	var quit atomic.Bool
	var exited atomic.Int32
	for g := 0; g < barrierMaxK; g++ {
		go func(g int) {
			defer exited.Add(1)
			var last *bBatch
			for i := 1; ; i++ {
				b := cur.Load()
				if b != last && b != nil {
					last = b
					if g < b.k {
						for _, rd := range b.rounds {
							rd.run(g)
						}
						b.done.Add(1)
					}
					i = 0
					continue
				}
				if quit.Load() {
					return
				}
				if i%2048 == 0 {
					runtime.Gosched()
				}
			}
		}(g)
	}
	start := time.Now()
	fails, n := 0, 0
	var running *bBatch
	// finish: waits for the running batch (watchdog) and judges its rounds; false = hung
	finish := func() bool {
		b := running
		running = nil
		if b == nil {
			return true
		}
		t0 := time.Now()
		for i := 1; b.done.Load() < int32(b.k); i++ {
			if i%64 == 0 {
				runtime.Gosched()
				if i%65536 == 0 && time.Since(t0) > 20*time.Second {
					st.Fail(map[string]any{"sig": "", "kind": tag + ": barrier-released concurrent operations hung (watchdog)", "round": n, "shapes": b.shapes})
					return false
				}
			}
		}
		for i, rd := range b.rounds {
			st.Count(tag + ":rounds")
			st.Count(fmt.Sprintf("%s:k=%d", tag, b.k))
			if kind, why := rd.judge(); why != "" {
				fails++
				st.Count(tag + ":failed-rounds")
				if fails <= 3 {
					st.Fail(map[string]any{"sig": "", "kind": kind, "round": n + i, "shape": b.shapes[i], "why": why})
				}
			}
		}
		n += len(b.rounds)
		return true
	}
	ok := true
	for left := rounds; left > 0 && ok; {
		if time.Since(start) > maxWall {
			st.Count(tag + ":stopped-at-wall-limit")
			break
		}
		sz := barrierBatch
		if left < sz {
			sz = left
		}
		left -= sz
		next := newBarrierBatch(sz, newRound) // built while the workers run the previous batch
		if ok = finish(); ok {
			running = next
			cur.Store(next)
		}
	}
	if ok {
		ok = finish()
	}
	quit.Store(true)
	for i := 0; ok && exited.Load() < barrierMaxK && i < 2000; i++ {
		time.Sleep(time.Millisecond)
	}
	st.Extra[tag+"_ms"] = time.Since(start).Milliseconds()
}
