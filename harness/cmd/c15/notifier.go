// C15 (c) runtime/valuenotifier: lockstep histories in which every Wait is held at the verif yield point between
// its deregistered check and its select (M4), and released only when at least one select case is ready;
// plus free-running Listener/Notify/Wait/Deregister judged on logical-clock intervals.
package main

import (
	"context"
	"errors"
	"fmt"
	"reflect"
	"strings"
	"sync"
	"sync/atomic"
	"time"
	"unsafe"

	"github.com/iotaledger/hive.go/runtime/valuenotifier"

	"verif/harness/vx"
)

func chanField(l *valuenotifier.Listener, name string) chan struct{} {
	f := reflect.ValueOf(l).Elem().FieldByName(name)
	return *(*chan struct{})(unsafe.Pointer(f.UnsafeAddr()))
}

func isClosed(ch chan struct{}) bool {
	select {
	case <-ch:
		return true
	default:
		return false
	}
}

func classify(err error) string {
	switch {
	case err == nil:
		return "ROk"
	case errors.Is(err, valuenotifier.ErrListenerDeregistered):
		return "RDereg"
	default:
		return "RCtx"
	}
}

type waiter struct {
	l, thread int
	gate      chan struct{}
	res       chan string
	cancel    context.CancelFunc
	cancelled bool
	parked    bool // sits at the yield point
	done      bool
	result    string
}

type lrec struct {
	l          *valuenotifier.Listener
	val        int
	createdAt  int
	deregAt    int // op clock of the first deregistration (explicit or by its own Wait), 0 = none
	notifiedAt []int
}

type noHist struct {
	r       *vx.Rng
	n       *valuenotifier.Notifier[int]
	ls      []*lrec
	ws      []*waiter
	acts    []string
	desc    []string
	thr     int
	clock   int
	arrived chan chan struct{}
	notifs  map[int][]int // value -> op clocks of Notify
	fail    string
}

const watchdog = 10 * time.Second

func (h *noHist) listener(v int) {
	h.clock++
	h.acts = append(h.acts, "NX (NAListener "+vx.N(uint64(v))+")")
	h.desc = append(h.desc, fmt.Sprintf("l%d=listener(%d)", len(h.ls), v))
	h.ls = append(h.ls, &lrec{l: h.n.Listener(v), val: v, createdAt: h.clock})
}

func (h *noHist) notify(v int) {
	h.clock++
	h.acts = append(h.acts, "NX (NANotify "+vx.N(uint64(v))+")")
	h.desc = append(h.desc, fmt.Sprintf("notify(%d)", v))
	h.notifs[v] = append(h.notifs[v], h.clock)
	h.n.Notify(v)
}

func (h *noHist) deregister(l int) {
	h.clock++
	t := h.thr
	h.thr++
	h.acts = append(h.acts, fmt.Sprintf("NX (NADeregister %d)", l), fmt.Sprintf("NXRun %d", t))
	h.desc = append(h.desc, fmt.Sprintf("dereg(l%d)", l))
	if h.ls[l].deregAt == 0 {
		h.ls[l].deregAt = h.clock
	}
	h.ls[l].l.Deregister()
}

// waitBegin starts l.Wait in a goroutine; it either returns at once (already deregistered) or parks at the yield point.
func (h *noHist) waitBegin(l int) {
	h.clock++
	t := h.thr
	h.thr++
	h.acts = append(h.acts, fmt.Sprintf("NX (NAWait %d)", l))
	h.desc = append(h.desc, fmt.Sprintf("w%d=wait(l%d)", len(h.ws), l))
	ctx, cancel := context.WithCancel(context.Background())
	w := &waiter{l: l, thread: t, res: make(chan string, 1), cancel: cancel}
	h.ws = append(h.ws, w)
	lst := h.ls[l].l
	go func() { w.res <- classify(lst.Wait(ctx)) }()
	select {
	case g := <-h.arrived:
		w.gate, w.parked = g, true
	case r := <-w.res:
		w.done, w.result = true, r
		if r != "RDereg" {
			h.fail = "Wait returned " + r + " before its select"
		}
	case <-time.After(watchdog):
		h.fail = "watchdog: Wait neither parked nor returned"
		w.done, w.result = true, "RCtx"
	}
}

func (h *noHist) ready(w *waiter) (ch, dch bool) {
	l := h.ls[w.l].l
	return isClosed(chanField(l, "channel")), isClosed(chanField(l, "deregisteredChan"))
}

// release lets a parked waiter run its select (something must be ready) and the deferred Deregister.
func (h *noHist) release(wi int) {
	w := h.ws[wi]
	ch, dch := h.ready(w)
	if !ch && !dch && !w.cancelled {
		h.acts = append(h.acts, fmt.Sprintf("NXPeek %d false false", w.l))
		return
	}
	h.clock++
	h.desc = append(h.desc, fmt.Sprintf("select(w%d)", wi))
	h.acts = append(h.acts, fmt.Sprintf("NXPeek %d %s %s", w.l, vx.Bool(ch), vx.Bool(dch)))
	w.parked = false
	close(w.gate)
	select {
	case r := <-w.res:
		w.done, w.result = true, r
	case <-time.After(watchdog):
		h.fail = "watchdog: released Wait did not return although a select case was ready"
		w.done, w.result = true, "RCtx"
		return
	}
	c := "CCtx"
	switch w.result {
	case "ROk":
		c = "CChan"
		if !ch {
			h.fail = "Wait returned success although its channel was not closed"
		}
	case "RDereg":
		if dch {
			c = "CDereg"
		} else {
			c = "CChan"
		}
	}
	h.acts = append(h.acts, fmt.Sprintf("NX (NAStep %d %s)", w.thread, c), fmt.Sprintf("NXRun %d", w.thread))
	lr := h.ls[w.l]
	// oracle: success only if Notify(value) after creation and before the listener's deregistration
	if w.result == "ROk" {
		ok := false
		for _, t := range h.notifs[lr.val] {
			if t > lr.createdAt && (lr.deregAt == 0 || t < lr.deregAt) {
				ok = true
			}
		}
		if !ok {
			h.fail = fmt.Sprintf("Wait on l%d (value %d) returned success without a Notify between its creation and its deregistration", w.l, lr.val)
		}
	}
	if lr.deregAt == 0 {
		lr.deregAt = h.clock // Wait's deferred Deregister
	}
}

func (h *noHist) cancelCtx(wi int) {
	w := h.ws[wi]
	if w.cancelled {
		return
	}
	w.cancelled = true
	w.cancel()
	h.desc = append(h.desc, fmt.Sprintf("cancel(w%d)", wi))
}

func (h *noHist) parked() []int {
	var p []int
	for i, w := range h.ws {
		if w.parked {
			p = append(p, i)
		}
	}
	return p
}

func (h *noHist) randomOp() {
	r := h.r
	k := r.Intn(100)
	switch {
	case k < 22 || len(h.ls) == 0:
		h.listener(r.Intn(3))
	case k < 42:
		h.notify(r.Intn(3))
	case k < 57:
		h.deregister(r.Intn(len(h.ls)))
	case k < 77:
		if len(h.parked()) < 4 {
			// mostly listeners that are not deregistered yet
			l := r.Intn(len(h.ls))
			h.waitBegin(l)
		}
	case k < 95:
		if p := h.parked(); len(p) > 0 {
			h.release(vx.Pick(r, p))
		}
	default:
		if p := h.parked(); len(p) > 0 {
			h.cancelCtx(vx.Pick(r, p))
		}
	}
}

func (h *noHist) directed(k int) {
	switch k {
	case 1: // D15a (repaired)
		h.listener(1)
		h.notify(1)
		h.listener(1)
		h.waitBegin(0)
		h.release(0)
		h.waitBegin(1)
		h.cancelCtx(1)
		h.release(1)
	case 2: // D15b (repaired): Deregister in the window of Wait
		h.listener(1)
		h.waitBegin(0)
		h.deregister(0)
		h.release(0)
	case 3: // D15c (repaired): shared entry, Deregister then Notify in the window
		h.listener(1)
		h.listener(1)
		h.waitBegin(0)
		h.deregister(0)
		h.notify(1)
		h.release(0)
		h.waitBegin(1)
		h.release(1)
	case 4: // later generation must survive the deregistration of an earlier listener of the same value
		h.listener(2)
		h.listener(2)
		h.notify(2)
		h.listener(2)
		h.deregister(1)
		h.deregister(0)
		h.notify(2)
		h.waitBegin(2)
		h.release(0)
	}
}

func runNotifierHistory(r *vx.Rng, ops int, directed int) (term, key string, nontrivial bool, fail string) {
	h := &noHist{r: r, n: valuenotifier.New[int](), arrived: make(chan chan struct{}), notifs: map[int][]int{}}
	valuenotifier.VerifYield = func(string) {
		g := make(chan struct{})
		h.arrived <- g
		<-g
	}
	if directed > 0 {
		h.directed(directed)
	} else {
		for i := 0; i < ops && h.fail == ""; i++ {
			h.randomOp()
		}
	}
	// finish: every parked waiter gets its context cancelled and is released
	for _, i := range h.parked() {
		h.cancelCtx(i)
		h.release(i)
	}
	valuenotifier.VerifYield = nil
	for i, x := range h.ls {
		h.acts = append(h.acts, fmt.Sprintf("NXPeek %d %s %s", i, vx.Bool(isClosed(chanField(x.l, "channel"))), vx.Bool(isClosed(chanField(x.l, "deregisteredChan")))))
	}
	var res []string
	nOk := 0
	for _, w := range h.ws {
		if w.done {
			res = append(res, fmt.Sprintf("(%d, %s)", w.l, w.result))
			if w.result == "ROk" {
				nOk++
			}
		}
	}
	term = fmt.Sprintf("CNotif %s %s", vx.List(h.acts), vx.List(res))
	return term, strings.Join(h.desc, ";"), nOk >= 1, h.fail
}

// concNotifier: free-running; a successful Wait must overlap a Notify of its value (logical clock intervals).
func concNotifier(r *vx.Rng, st *vx.Stats, runs int) {
	for run := 0; run < runs; run++ {
		n := valuenotifier.New[int]()
		var clk atomic.Int64
		type span struct{ from, to int64 }
		var mu sync.Mutex
		notifs := map[int][]span{}
		type lr struct {
			l       *valuenotifier.Listener
			val     int
			created int64
			deregTo atomic.Int64 // minimal end tick of a completed Deregister call (0 = none)
		}
		var lsMu sync.Mutex
		var ls []*lr
		fails := atomic.Int64{}
		var wg sync.WaitGroup
		stop := make(chan struct{})
		waiters := 2 + r.Intn(3)
		seeds := make([]*vx.Rng, waiters+2)
		for i := range seeds {
			seeds[i] = r.Fork()
		}
		for j := 0; j < waiters; j++ {
			wg.Add(1)
			go func(rr *vx.Rng) {
				defer wg.Done()
				for k := 0; k < 60; k++ {
					v := rr.Intn(2)
					c := clk.Add(1)
					x := &lr{l: n.Listener(v), val: v, created: c}
					lsMu.Lock()
					ls = append(ls, x)
					lsMu.Unlock()
					ctx, cancel := context.WithTimeout(context.Background(), time.Duration(50+rr.Intn(300))*time.Microsecond)
					err := x.l.Wait(ctx)
					end := clk.Add(1)
					cancel()
					if err == nil {
						ok := false
						d := x.deregTo.Load()
						mu.Lock()
						for _, s := range notifs[v] {
							if s.from < end && s.to > x.created && (d == 0 || s.from < d) {
								ok = true
							}
						}
						mu.Unlock()
						if !ok {
							fails.Add(1)
						}
					}
				}
			}(seeds[j])
		}
		var bg sync.WaitGroup
		bg.Add(2)
		go func(rr *vx.Rng) { // notifier
			defer bg.Done()
			for {
				select {
				case <-stop:
					return
				default:
				}
				v := rr.Intn(2)
				// the span is recorded before the call so that a waiter woken by it finds it
				from := clk.Add(1)
				mu.Lock()
				notifs[v] = append(notifs[v], span{from, 1 << 62})
				idx := len(notifs[v]) - 1
				mu.Unlock()
				n.Notify(v)
				to := clk.Add(1)
				mu.Lock()
				notifs[v][idx].to = to
				mu.Unlock()
				time.Sleep(time.Duration(rr.Intn(80)) * time.Microsecond)
			}
		}(seeds[waiters])
		go func(rr *vx.Rng) { // deregisterer
			defer bg.Done()
			for {
				select {
				case <-stop:
					return
				default:
				}
				lsMu.Lock()
				var x *lr
				if len(ls) > 0 {
					x = ls[len(ls)-1-rr.Intn(min(len(ls), 3))]
				}
				lsMu.Unlock()
				if x != nil {
					x.l.Deregister()
					to := clk.Add(1)
					x.deregTo.CompareAndSwap(0, to)
				}
				time.Sleep(time.Duration(rr.Intn(60)) * time.Microsecond)
			}
		}(seeds[waiters+1])
		done := make(chan struct{})
		go func() { wg.Wait(); close(done) }()
		st.Count("conc-notifier:runs")
		select {
		case <-done:
		case <-time.After(30 * time.Second):
			st.Fail(map[string]any{"sig": "", "kind": "free-running notifier hung (watchdog)"})
		}
		close(stop)
		bg.Wait()
		if fails.Load() > 0 {
			st.Fail(map[string]any{"sig": "", "kind": "free-running notifier: Wait succeeded without an overlapping Notify of its value", "count": fails.Load()})
		}
	}
}
