// C15 (b) runtime/promise.Event1: lockstep histories (callbacks register / unsubscribe / trigger re-entrantly) and
// free-running registration racing Trigger.
package main

import (
	"fmt"
	"strings"
	"sync"
	"sync/atomic"
	"time"

	"github.com/iotaledger/hive.go/runtime/promise"

	"verif/harness/vx"
)

type prHist struct {
	r      *vx.Rng
	ev     *promise.Event1[int]
	acts   []string
	desc   []string
	log    [][2]int
	res    []bool
	unsub  []func()
	thr    int
	cur    []int
	budget int
	depth  int
	// oracle bookkeeping
	trigArg    int
	triggered  bool
	unsubEarly map[int]bool // unsubscribed before the (first) Trigger
}

func (h *prHist) onTrigger() {
	c := len(h.unsub)
	t := h.thr
	h.thr++
	h.acts = append(h.acts, "PAOnTrigger")
	h.desc = append(h.desc, fmt.Sprintf("on=c%d", c))
	h.unsub = append(h.unsub, nil)
	h.cur = append(h.cur, t)
	u := h.ev.OnTrigger(func(v int) {
		h.acts = append(h.acts, fmt.Sprintf("PACall %d %d", h.cur[len(h.cur)-1], c))
		h.log = append(h.log, [2]int{c, v})
		h.inCallback()
	})
	h.cur = h.cur[:len(h.cur)-1]
	h.unsub[c] = u
}

func (h *prHist) unsubscribe(c int) {
	if h.unsub[c] == nil {
		return // OnTrigger of c has not returned yet (we are inside its inline call)
	}
	h.acts = append(h.acts, fmt.Sprintf("PAUnsub %d", c))
	h.desc = append(h.desc, fmt.Sprintf("unsub(c%d)", c))
	if !h.triggered {
		h.unsubEarly[c] = true
	}
	h.unsub[c]()
}

func (h *prHist) trigger() {
	a := 100 + len(h.res)
	t := h.thr
	h.thr++
	h.acts = append(h.acts, "PATrigger "+vx.N(uint64(a)))
	h.desc = append(h.desc, fmt.Sprintf("trigger(%d)", a))
	if !h.triggered {
		h.triggered, h.trigArg = true, a
	}
	idx := len(h.res)
	h.res = append(h.res, false)
	h.cur = append(h.cur, t)
	h.res[idx] = h.ev.Trigger(a)
	h.cur = h.cur[:len(h.cur)-1]
}

func (h *prHist) randomOp() {
	if h.budget <= 0 {
		return
	}
	h.budget--
	k := h.r.Intn(100)
	switch {
	case k < 50:
		h.onTrigger()
	case k < 75:
		if len(h.unsub) > 0 {
			h.unsubscribe(h.r.Intn(len(h.unsub)))
		}
	default:
		if h.depth > 0 || h.r.Chance(1, 2) {
			h.trigger()
		}
	}
}

func (h *prHist) inCallback() {
	if h.depth >= 3 || !h.r.Chance(1, 2) {
		return
	}
	h.depth++
	for i := h.r.Intn(3); i > 0; i-- {
		h.randomOp()
	}
	h.depth--
}

func runPromiseHistory(r *vx.Rng, ops int) (term, key string, nontrivial bool, fail string) {
	h := &prHist{r: r, ev: promise.NewEvent1[int](), budget: ops, unsubEarly: map[int]bool{}}
	for h.budget > 0 {
		h.randomOp()
	}
	if r.Chance(3, 4) && !h.triggered {
		h.trigger()
	}
	resT := make([]string, len(h.res))
	for i, b := range h.res {
		resT[i] = vx.Bool(b)
	}
	term = fmt.Sprintf("CPromise %s %s %s %s", vx.List(h.acts), pairList(h.log), vx.List(resT), vx.Bool(h.ev.WasTriggered()))
	// oracle
	cnt := map[int]int{}
	for _, x := range h.log {
		cnt[x[0]]++
		if x[1] != h.trigArg {
			fail = fmt.Sprintf("callback c%d got %d, the event was triggered with %d", x[0], x[1], h.trigArg)
		}
	}
	for c := range h.unsub {
		want := 0
		if h.triggered && !h.unsubEarly[c] {
			want = 1
		}
		if cnt[c] != want {
			fail = fmt.Sprintf("callback c%d ran %d times, expected %d (triggered=%v, unsubscribed before=%v)", c, cnt[c], want, h.triggered, h.unsubEarly[c])
		}
	}
	nTrue := 0
	for _, b := range h.res {
		if b {
			nTrue++
		}
	}
	if nTrue > 1 || (h.triggered && nTrue != 1) {
		fail = fmt.Sprintf("%d Trigger calls returned true", nTrue)
	}
	return term, strings.Join(h.desc, ";"), len(h.log) >= 2, fail
}

// concPromise: registrations (and some unsubscriptions) race Trigger calls.
func concPromise(r *vx.Rng, st *vx.Stats, runs int) {
	for run := 0; run < runs; run++ {
		ev := promise.NewEvent1[int]()
		g := 2 + r.Intn(4)
		per := 30 + r.Intn(50)
		ntr := 1 + r.Intn(3)
		counts := make([]atomic.Int64, g*per)
		bad := atomic.Int64{}
		wins := atomic.Int64{}
		winArg := atomic.Int64{}
		var wg sync.WaitGroup
		start := make(chan struct{})
		for j := 0; j < g; j++ {
			wg.Add(1)
			go func(j int) {
				defer wg.Done()
				<-start
				for k := 0; k < per; k++ {
					c := j*per + k
					ev.OnTrigger(func(v int) {
						counts[c].Add(1)
						if v < 1000 {
							bad.Add(1)
						}
						winArg.CompareAndSwap(0, int64(v))
						if winArg.Load() != int64(v) {
							bad.Add(1)
						}
					})
				}
			}(j)
		}
		for j := 0; j < ntr; j++ {
			wg.Add(1)
			go func(j int) {
				defer wg.Done()
				<-start
				for k := 0; k < j*7; k++ {
					_ = ev.WasTriggered()
				}
				if ev.Trigger(1000 + j) {
					wins.Add(1)
				}
			}(j)
		}
		close(start)
		done := make(chan struct{})
		go func() { wg.Wait(); close(done) }()
		st.Count("conc-promise:runs")
		select {
		case <-done:
		case <-time.After(20 * time.Second):
			st.Fail(map[string]any{"sig": "", "kind": "promise registration racing Trigger hung (watchdog)"})
			continue
		}
		wrong := -1
		for c := range counts {
			if counts[c].Load() != 1 {
				wrong = c
			}
		}
		if wrong >= 0 || bad.Load() != 0 || wins.Load() != 1 {
			st.Fail(map[string]any{"sig": "", "kind": "promise registration racing Trigger", "callback": wrong,
				"bad_args": bad.Load(), "triggers_won": wins.Load()})
		}
	}
}
