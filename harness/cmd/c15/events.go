// C15 (a) runtime/event: lockstep histories with re-entrant callbacks (the operations a callback performs are, for
// the model, steps of other threads scheduled between the walker's call step and its read of the next pointer),
// and free-running concurrent Trigger/Hook/Unhook with WithMaxTriggerCount.
package main

import (
	"bytes"
	"fmt"
	"runtime"
	"sort"
	"strings"
	"sync"
	"sync/atomic"
	"time"

	"github.com/iotaledger/hive.go/runtime/event"
	"github.com/iotaledger/hive.go/runtime/workerpool"

	"verif/harness/vx"
)

var (
	thePool     *workerpool.WorkerPool
	thePoolOnce sync.Once
)

func pool() *workerpool.WorkerPool {
	thePoolOnce.Do(func() {
		thePool = workerpool.New("c15", workerpool.WithWorkerCount(1)).Start()
	})
	return thePool
}

// drain waits until the pool has no pending task; false = watchdog fired.
func drain() bool {
	done := make(chan struct{})
	go func() { pool().PendingTasksCounter.WaitIsZero(); close(done) }()
	select {
	case <-done:
		return true
	case <-time.After(10 * time.Second):
		return false
	}
}

// goid: the running goroutine's number (to tell the worker from the caller of Trigger)
func goid() string {
	var buf [40]byte
	b := buf[:runtime.Stack(buf[:], false)]
	b = bytes.TrimPrefix(b, []byte("goroutine "))
	if i := bytes.IndexByte(b, ' '); i > 0 {
		return string(b[:i])
	}
	return ""
}

type hookRec struct {
	h                  *event.Hook[func(int)]
	ev                 int
	max                uint64
	pooled, link       bool
	attachedAt, goneAt int // op clock; goneAt = 0 while never explicitly unhooked
}

type evRec struct {
	e      *event.Event1[int]
	max    uint64
	pooled bool
	linked bool // has ever been the source of a LinkTo (its triggers may come from a target)
}

type trigRec struct {
	ev, arg, from, to int // op clock interval of the direct Trigger call
	links        []int // link target of every event when the call began (-1 = none)
}

type evHist struct {
	r       *vx.Rng
	evs     []*evRec
	hooks   []*hookRec
	acts    []string
	desc    []string
	syncLog [][2]int
	poolMu  sync.Mutex
	poolLog [][2]int
	threads int
	cur     []int // stack of model thread ids of the running Trigger calls
	depth   int
	budget  int
	clock   int
	nextArg int
	trigs   []trigRec
	linkOf  []int // current link target per event
	linkOps []int // op clocks of the LinkTo calls
	main    string
	wrongG  atomic.Int64 // callbacks that ran on the wrong side (pool worker vs. caller of Trigger)
	script  map[int][]int // directed cases: hook id -> hooks it unhooks inside its callback (first invocation only)
	scriptF map[int]func() // directed cases: hook id -> operations it performs inside its callback (first invocation only)
}

func (h *evHist) emit(s string) { h.acts = append(h.acts, s) }
func (h *evHist) tickOp(d string) {
	h.clock++
	h.desc = append(h.desc, d)
}

func (h *evHist) newEvent(max uint64, pooled bool) {
	var opts []event.Option
	if max > 0 {
		opts = append(opts, event.WithMaxTriggerCount(max))
	}
	if pooled {
		opts = append(opts, event.WithWorkerPool(pool()))
	}
	h.evs = append(h.evs, &evRec{e: event.New1[int](opts...), max: max, pooled: pooled})
	h.linkOf = append(h.linkOf, -1)
	h.emit(fmt.Sprintf("XA (ANewEvent %s %s)", vx.N(max), vx.Bool(pooled)))
	h.tickOp(fmt.Sprintf("new(max=%d,pooled=%v)", max, pooled))
}

func (h *evHist) hook(e int, max uint64, po string) {
	id := len(h.hooks)
	rec := &hookRec{ev: e, max: max}
	switch po {
	case "PDefault":
		rec.pooled = h.evs[e].pooled
	case "PPool":
		rec.pooled = true
	}
	var opts []event.Option
	if max > 0 {
		opts = append(opts, event.WithMaxTriggerCount(max))
	}
	switch po {
	case "PSync":
		opts = append(opts, event.WithWorkerPool(nil))
	case "PPool":
		opts = append(opts, event.WithWorkerPool(pool()))
	}
	h.tickOp(fmt.Sprintf("hook(e%d,max=%d,%s)=h%d", e, max, po, id))
	rec.attachedAt = h.clock
	h.hooks = append(h.hooks, rec)
	h.emit(fmt.Sprintf("XA (AHook %d %s %s)", e, vx.N(max), po))
	pooled := rec.pooled
	rec.h = h.evs[e].e.Hook(func(a int) {
		if (goid() == h.main) == pooled {
			h.wrongG.Add(1)
			return
		}
		if pooled {
			h.poolMu.Lock()
			h.poolLog = append(h.poolLog, [2]int{id, a})
			h.poolMu.Unlock()
			return
		}
		h.syncLog = append(h.syncLog, [2]int{id, a})
		if l, ok := h.script[id]; ok {
			delete(h.script, id)
			for _, x := range l {
				h.unhook(x)
			}
		} else if f, ok := h.scriptF[id]; ok {
			delete(h.scriptF, id)
			h.depth++
			f()
			h.depth--
		} else {
			h.inCallback(id)
		}
		// the walker continues: read of the next pointer etc.
		h.emit(fmt.Sprintf("XRun %d", h.cur[len(h.cur)-1]))
	}, opts...)
}

func (h *evHist) unhook(id int) {
	h.tickOp(fmt.Sprintf("unhook(h%d)", id))
	if h.hooks[id].goneAt == 0 {
		h.hooks[id].goneAt = h.clock
	}
	h.emit(fmt.Sprintf("XA (AUnhook %d)", id))
	h.hooks[id].h.Unhook()
}

func (h *evHist) trigger(e int) {
	a := h.nextArg
	h.nextArg++
	t := h.threads
	h.threads++
	h.tickOp(fmt.Sprintf("trigger(e%d,%d)", e, a))
	from := h.clock
	links := append([]int{}, h.linkOf...)
	h.emit(fmt.Sprintf("XA (ATrigger %d %s)", e, vx.N(uint64(a))))
	h.emit(fmt.Sprintf("XRun %d", t))
	h.cur = append(h.cur, t)
	h.evs[e].e.Trigger(a)
	h.cur = h.cur[:len(h.cur)-1]
	h.clock++
	h.trigs = append(h.trigs, trigRec{ev: e, arg: a, from: from, to: h.clock, links: links})
}

func (h *evHist) linkTo(e int, tgt int) {
	t := h.threads
	h.threads++
	h.tickOp(fmt.Sprintf("link(e%d->%d)", e, tgt))
	h.evs[e].linked = true
	h.linkOf[e] = tgt
	h.linkOps = append(h.linkOps, h.clock)
	if tgt < 0 {
		h.emit(fmt.Sprintf("XA (ALinkTo %d None)", e))
		h.emit(fmt.Sprintf("XRun %d", t))
		h.evs[e].e.LinkTo(nil)
		return
	}
	h.emit(fmt.Sprintf("XA (ALinkTo %d (Some %d))", e, tgt))
	h.emit(fmt.Sprintf("XRun %d", t))
	h.hooks = append(h.hooks, &hookRec{ev: tgt, link: true, attachedAt: h.clock})
	h.evs[e].e.LinkTo(h.evs[tgt].e)
}

// a random operation; inside a callback (depth > 0) it is biased towards what disturbs the running walk
func (h *evHist) randomOp() {
	if h.budget <= 0 {
		return
	}
	h.budget--
	r := h.r
	ne := len(h.evs)
	k := r.Intn(100)
	switch {
	case k < 6 && ne < 4 && h.depth == 0:
		h.newEvent(vx.Pick(r, []uint64{0, 0, 0, 1, 2, 3}), r.Chance(1, 6))
	case k < 30:
		e := r.Intn(ne)
		max := vx.Pick(r, []uint64{0, 0, 0, 1, 1, 2, 3})
		po := vx.Pick(r, []string{"PDefault", "PDefault", "PDefault", "PSync", "PPool"})
		h.hook(e, max, po)
	case k < 52:
		var cand []int
		for i, x := range h.hooks {
			if !x.link {
				cand = append(cand, i)
			}
		}
		if len(cand) == 0 {
			return
		}
		// mostly recent / still attached ones, sometimes an already removed one
		id := vx.Pick(r, cand)
		if r.Chance(2, 3) {
			var live []int
			for _, i := range cand {
				if h.hooks[i].goneAt == 0 {
					live = append(live, i)
				}
			}
			if len(live) > 0 {
				id = vx.Pick(r, live)
			}
		}
		h.unhook(id)
	case k < 60 && ne >= 2:
		e := 1 + r.Intn(ne-1)
		tgt := r.Intn(e)
		if r.Chance(1, 5) {
			tgt = -1
		}
		if tgt >= 0 && h.evs[tgt].pooled {
			return // a link through a pooled target runs Trigger on the worker: not lockstep-comparable
		}
		h.linkTo(e, tgt)
	default:
		if h.depth >= 3 {
			return
		}
		h.trigger(r.Intn(ne))
	}
}

func (h *evHist) inCallback(id int) {
	if h.budget <= 0 || !h.r.Chance(2, 5) {
		return
	}
	h.depth++
	n := 1 + h.r.Intn(3)
	for i := 0; i < n; i++ {
		// biased: unhook the running hook itself or its successors (exercises the frozen next pointers)
		if h.r.Chance(1, 3) && h.budget > 0 {
			h.budget--
			cand := id + h.r.Intn(3)
			if cand < len(h.hooks) && !h.hooks[cand].link {
				h.unhook(cand)
				continue
			}
		}
		h.randomOp()
	}
	h.depth--
}

// judge: the property on the implementation's own outputs, independent of the Coq model.
func (h *evHist) judge() string {
	if n := h.wrongG.Load(); n > 0 {
		return fmt.Sprintf("%d callback invocation(s) ran on the wrong goroutine (WithWorkerPool(nil) hook on the pool, or a pooled hook inline)", n)
	}
	cnt := map[[2]int]int{}
	perHook := map[int]int{}
	for _, x := range h.syncLog {
		cnt[x]++
		perHook[x[0]]++
	}
	for _, x := range h.poolLog {
		cnt[x]++
		perHook[x[0]]++
	}
	for k, c := range cnt {
		// (an event that is the source of a LinkTo can legitimately be triggered twice with one argument: re-linking
		// while the target's trigger is running lets both the old and the new link hook fire)
		if c > 1 && !h.evs[h.hooks[k[0]].ev].linked {
			return fmt.Sprintf("hook h%d called %d times with the arguments of one trigger (%d)", k[0], c, k[1])
		}
	}
	// exactly once: direct triggers of unlimited events; hooks without limit, attached before, not unhooked before the end
	for _, t := range h.trigs {
		if h.evs[t.ev].max != 0 {
			continue
		}
		for id, x := range h.hooks {
			if x.link || x.ev != t.ev || x.max != 0 || x.attachedAt >= t.from {
				continue
			}
			if x.goneAt != 0 && x.goneAt <= t.to {
				continue
			}
			if cnt[[2]int{id, t.arg}] != 1 {
				return fmt.Sprintf("hook h%d (attached before, never unhooked) was called %d times by trigger(e%d,%d)", id, cnt[[2]int{id, t.arg}], t.ev, t.arg)
			}
		}
	}
	// links: a callback of event e runs with the argument of a direct Trigger(t, a) only if e = t or e was linked
	// (through a chain) to t when that call began -- judged for calls during which no LinkTo happened
	byArg := map[int]trigRec{}
	for _, t := range h.trigs {
		byArg[t.arg] = t
	}
	for _, x := range append(append([][2]int{}, h.syncLog...), h.poolLog...) {
		t, ok := byArg[x[1]]
		if !ok {
			return fmt.Sprintf("hook h%d was called with argument %d that no trigger passed", x[0], x[1])
		}
		relinked := false
		for _, c := range h.linkOps {
			if c >= t.from && c <= t.to {
				relinked = true
			}
		}
		if relinked {
			continue
		}
		e, reach := h.hooks[x[0]].ev, false
		for i := 0; i < 8 && e >= 0; i++ {
			if e == t.ev {
				reach = true
				break
			}
			if e >= len(t.links) {
				break
			}
			e = t.links[e]
		}
		if !reach {
			return fmt.Sprintf("hook h%d of e%d fired for trigger(e%d,%d) although e%d was not linked to it", x[0], h.hooks[x[0]].ev, t.ev, t.arg, h.hooks[x[0]].ev)
		}
	}
	// synchronous hooks in attachment order within one trigger of one event
	last := map[[2]int]int{}
	for _, x := range h.syncLog {
		key := [2]int{h.hooks[x[0]].ev, x[1]}
		if h.evs[key[0]].linked {
			continue
		}
		if p, ok := last[key]; ok && p >= x[0] {
			return fmt.Sprintf("trigger arg %d on e%d called h%d after h%d (attachment order violated)", x[1], key[0], x[0], p)
		}
		last[key] = x[0]
	}
	// limits
	for id, x := range h.hooks {
		if x.link {
			continue
		}
		if x.max > 0 {
			tc := uint64(x.h.TriggerCount())
			want := x.max
			if tc < want {
				want = tc
			}
			if uint64(perHook[id]) != want {
				return fmt.Sprintf("hook h%d with WithMaxTriggerCount(%d) reached by %d triggers was called %d times", id, x.max, tc, perHook[id])
			}
		}
	}
	return ""
}

func pairList(l [][2]int) string {
	out := make([]string, len(l))
	for i, x := range l {
		out[i] = fmt.Sprintf("(%d, %s)", x[0], vx.N(uint64(x[1])))
	}
	return vx.List(out)
}

func runEventHistory(r *vx.Rng, ops int, directed int) (term string, key string, nontrivial bool, desc []string, fail string) {
	h := &evHist{r: r, budget: ops, nextArg: 1, main: goid()}
	if directed > 0 {
		h.budget = 0
	}
	switch directed {
	case 1: // a callback unhooks itself and its successor: the walker continues from the removed element into a removed one
		h.newEvent(0, false)
		for i := 0; i < 4; i++ {
			h.hook(0, 0, "PDefault")
		}
		h.script = map[int][]int{1: {1, 2}}
		h.trigger(0)
		h.trigger(0)
	case 2: // a callback unhooks only its successor: the successor is skipped
		h.newEvent(0, false)
		for i := 0; i < 4; i++ {
			h.hook(0, 0, "PDefault")
		}
		h.script = map[int][]int{1: {2}}
		h.trigger(0)
		h.trigger(0)
	case 3: // limits at both levels + re-linking
		h.newEvent(3, false)
		h.newEvent(0, false)
		h.newEvent(0, false)
		h.hook(0, 2, "PDefault")
		h.hook(0, 0, "PDefault")
		h.hook(2, 1, "PSync")
		h.hook(2, 0, "PPool")
		h.linkTo(2, 0)
		h.trigger(0)
		h.trigger(0)
		h.linkTo(2, 1)
		h.trigger(0)
		h.trigger(1)
		h.trigger(0)
		h.linkTo(2, -1)
		h.trigger(1)
	case 4:
		// LinkTo at a chosen position of a running walk: event 1 is linked to event 0; while a Trigger of event 0 stands on a
		// hook before the link hook / on the link hook itself (= inside a hook of event 1) / on a hook behind it, that hook
		// re-links event 1 (to the same target, to another one, to none, or twice). The link hook is the last element of
		// the target's list or is followed by 1..2 hooks. "Exactly once per trigger of the current target, no longer for a
		// former one" is then a statement about the walker that is under way.
		h.newEvent(0, false)
		h.newEvent(vx.Pick(r, []uint64{0, 0, 0, 2, 3}), false)
		h.newEvent(0, false)
		var before, inner, behind []int
		for i, n := 0, r.Intn(3); i < n; i++ {
			before = append(before, len(h.hooks))
			h.hook(0, 0, "PDefault")
		}
		for i, n := 0, 1+r.Intn(2); i < n; i++ {
			inner = append(inner, len(h.hooks))
			h.hook(1, vx.Pick(r, []uint64{0, 0, 0, 1, 2}), "PDefault")
		}
		if r.Chance(1, 3) {
			h.linkTo(1, 2) // the link to event 0 is then already a re-link
		}
		h.linkTo(1, 0)
		for i, n := 0, vx.Pick(r, []int{0, 0, 0, 1, 2}); i < n; i++ {
			behind = append(behind, len(h.hooks))
			h.hook(0, 0, "PDefault")
		}
		pos := [][]int{inner, inner, before, behind}
		h.scriptF = map[int]func(){}
		for i, n := 0, 1+r.Intn(2); i < n; i++ {
			at := vx.Pick(r, pos)
			if len(at) == 0 {
				at = inner
			}
			tgts := vx.Pick(r, [][]int{{0}, {0}, {0}, {2}, {-1}, {0, 0}, {2, 0}, {-1, 0}})
			h.scriptF[vx.Pick(r, at)] = func() {
				for _, t := range tgts {
					h.linkTo(1, t)
				}
			}
		}
		for i, n := 0, 2+r.Intn(2); i < n; i++ {
			h.trigger(vx.Pick(r, []int{0, 0, 0, 2, 1}))
		}
	default:
		h.newEvent(vx.Pick(r, []uint64{0, 0, 0, 2, 3}), false)
		if r.Bool() {
			h.newEvent(vx.Pick(r, []uint64{0, 0, 1, 2}), r.Chance(1, 5))
		}
		for h.budget > 0 {
			h.randomOp()
		}
	}
	// probe: one more trigger of every event shows who is still attached
	h.budget = 0
	for e := range h.evs {
		h.trigger(e)
	}
	if !drain() {
		return "", "", false, h.desc, "watchdog: worker pool did not drain"
	}
	ecnt := make([]string, len(h.evs))
	for i, e := range h.evs {
		ecnt[i] = vx.N(uint64(e.e.TriggerCount()))
	}
	hcnt := make([]string, len(h.hooks))
	for i, x := range h.hooks {
		if x.link {
			hcnt[i] = "None"
		} else {
			hcnt[i] = "(Some " + vx.N(uint64(x.h.TriggerCount())) + ")"
		}
	}
	h.poolMu.Lock()
	pl := append([][2]int{}, h.poolLog...)
	h.poolMu.Unlock()
	sort.Slice(pl, func(i, j int) bool { return pl[i][0] < pl[j][0] || (pl[i][0] == pl[j][0] && pl[i][1] < pl[j][1]) })
	term = fmt.Sprintf("CEvent %s %s %s %s %s", vx.List(h.acts), pairList(h.syncLog), pairList(pl), vx.List(ecnt), vx.List(hcnt))
	return term, strings.Join(h.desc, ";"), len(h.syncLog) >= 3, h.desc, h.judge()
}

// ---------- free-running ----------

// concEvents: G goroutines trigger one event concurrently while another goroutine hooks and unhooks other hooks.
// Oracle (exact): a stable hook (attached before, never unhooked) is called exactly once per accepted trigger,
// accepted = min(eventMax, G*T) (all of them without a limit); a hook limited to n is called exactly min(n, accepted) times.
func concEvents(r *vx.Rng, st *vx.Stats, runs int) {
	for run := 0; run < runs; run++ {
		g := 2 + r.Intn(5)
		per := 20 + r.Intn(60)
		emax := vx.Pick(r, []uint64{0, 0, 1, 5, uint64(g*per) / 2, uint64(g * per), uint64(g*per) + 3})
		var opts []event.Option
		if emax > 0 {
			opts = append(opts, event.WithMaxTriggerCount(emax))
		}
		ev := event.New1[int](opts...)
		nh := 3 + r.Intn(5)
		limits := make([]uint64, nh)
		counts := make([]atomic.Int64, nh)
		seen := make([]sync.Map, nh)
		dup := atomic.Int64{}
		var churnBefore []*event.Hook[func(int)]
		for i := 0; i < nh; i++ {
			i := i
			if r.Chance(1, 2) {
				limits[i] = vx.Pick(r, []uint64{1, 2, 7, uint64(g * per / 3), uint64(g*per) + 1})
			}
			var ho []event.Option
			if limits[i] > 0 {
				ho = append(ho, event.WithMaxTriggerCount(limits[i]))
			}
			// churn hooks interleaved with the stable ones so that removed neighbours exist
			churnBefore = append(churnBefore, ev.Hook(func(int) {}))
			ev.Hook(func(a int) {
				counts[i].Add(1)
				if _, loaded := seen[i].LoadOrStore(a, true); loaded {
					dup.Add(1)
				}
			}, ho...)
		}
		total := g * per
		accepted := uint64(total)
		if emax > 0 && emax < accepted {
			accepted = emax
		}
		var wg sync.WaitGroup
		stop := make(chan struct{})
		for j := 0; j < g; j++ {
			wg.Add(1)
			go func(j int) {
				defer wg.Done()
				for k := 0; k < per; k++ {
					ev.Trigger(j*per + k)
				}
			}(j)
		}
		var cw sync.WaitGroup
		cw.Add(1)
		go func() {
			defer cw.Done()
			for _, c := range churnBefore {
				c.Unhook()
			}
			var mine []*event.Hook[func(int)]
			// bounded: a walker also visits hooks attached while it runs, so an unbounded attacher can keep it busy forever
			for i := 0; i < 400; i++ {
				select {
				case <-stop:
					return
				default:
				}
				runtime.Gosched()
				mine = append(mine, ev.Hook(func(int) {}, event.WithMaxTriggerCount(2)))
				if len(mine) > 3 {
					mine[0].Unhook()
					mine = mine[1:]
				}
			}
		}()
		done := make(chan struct{})
		go func() { wg.Wait(); close(done) }()
		hung := false
		select {
		case <-done:
		case <-time.After(20 * time.Second):
			hung = true
		}
		close(stop)
		cw.Wait()
		st.Count("conc-event:runs")
		if hung {
			st.Fail(map[string]any{"sig": "", "kind": "concurrent Trigger hung (watchdog)", "goroutines": g, "per": per})
			continue
		}
		for i := 0; i < nh; i++ {
			want := accepted
			if limits[i] > 0 && limits[i] < want {
				want = limits[i]
			}
			if uint64(counts[i].Load()) != want || dup.Load() != 0 {
				st.Fail(map[string]any{"sig": "", "kind": "concurrent Trigger/Hook/Unhook: wrong number of invocations",
					"goroutines": g, "triggers": total, "eventMax": emax, "hookMax": limits[i], "hook": i,
					"calls": counts[i].Load(), "expected": want, "duplicate_args": dup.Load()})
				break
			}
		}
		if uint64(ev.TriggerCount()) != uint64(total) {
			st.Fail(map[string]any{"sig": "", "kind": "TriggerCount after concurrent triggers", "got": ev.TriggerCount(), "expected": total})
		}
	}
}
