// Type-shape generator for the serix binary codec harness: a random schema tree is turned into a Go type with
// reflect (StructOf/SliceOf/ArrayOf/MapOf/PointerTo + serix tags), the type settings are registered on a fresh
// serix.API, and the same tree is printed as a Coq `schema` term (effective settings = position settings merged
// over registry settings, computed here and not with TypeSettings.merge).
package main

import (
	"fmt"
	"math/big"
	"reflect"
	"strings"
	"time"

	"github.com/iotaledger/hive.go/serializer/v2"
	"github.com/iotaledger/hive.go/serializer/v2/serix"

	"verif/harness/vx"
)

type Kind int

const (
	KBool Kind = iota
	KInt
	KString
	KBytes
	KByteArr
	KU256
	KTime
	KPtr
	KStruct
	KSlice
	KArr
	KMap
	KIface
	KCustom // zoo type with a custom codec (zoo.go)
)

var kindNames = []string{"bool", "int", "string", "bytes", "bytearr", "u256", "time", "ptr", "struct", "slice", "arr", "map", "iface", "custom"}

type TyCode struct {
	Is32 bool
	C    uint32
}

type ARules struct {
	Min, Max                 uint64
	NoDup, Lex, One8, One32 bool
	Must                     []uint32
}

// TS mirrors the attributes of serix.TypeSettings that matter on the wire.
type TS struct {
	L      *int // 0..3 = byte, uint16, uint32, uint64
	Code   *TyCode
	LexOrd *bool
	Rules  *ARules
}

func mergeTS(a, b TS) TS { // a overrides b, attribute-wise
	if a.L == nil {
		a.L = b.L
	}
	if a.Code == nil {
		a.Code = b.Code
	}
	if a.LexOrd == nil {
		a.LexOrd = b.LexOrd
	}
	if a.Rules == nil {
		a.Rules = b.Rules
	}
	return a
}

type FKind int

const (
	FPlain FKind = iota
	FOpt
	FEmb
	FEmbPtr
)

type Field struct {
	K   FKind
	N   *Node
	Tag TS // settings given by the serix struct tag (lenPrefix, minLen, maxLen only)
}

type Alt struct {
	Code uint32
	N    *Node // KPtr(KStruct) or KStruct
}

type Node struct {
	K      Kind
	T      reflect.Type
	Signed bool
	W      int
	Float  bool
	N      int // array length
	Pred   string // KCustom (effective tree): name of the validator predicate registered for the type on this API, "" = none
	Fields []Field
	Elem   *Node // ptr target, slice/array element, map value
	Key    *Node
	Iface  *ifaceInfo
	// effective settings (filled by computeEff)
	L     int
	Mn    uint64
	Mx    uint64
	Rules ARules
	Auto  bool
	Code  *TyCode
	// bookkeeping
	Depth int
}

type ifaceInfo struct {
	T     reflect.Type
	Den32 bool
	Alts  []Alt
}

type IfA interface{}
type IfB interface{}

var (
	anyType    = reflect.TypeOf((*any)(nil)).Elem()
	ifAType    = reflect.TypeOf((*IfA)(nil)).Elem()
	ifBType    = reflect.TypeOf((*IfB)(nil)).Elem()
	bigPtrType = reflect.TypeOf((*big.Int)(nil))
	timeType   = reflect.TypeOf(time.Time{})
	stringType = reflect.TypeOf("")
	bytesType  = reflect.TypeOf([]byte(nil))
)

var intTypes = map[string]reflect.Type{
	"s1": reflect.TypeOf(int8(0)), "s2": reflect.TypeOf(int16(0)), "s4": reflect.TypeOf(int32(0)), "s8": reflect.TypeOf(int64(0)),
	"u1": reflect.TypeOf(uint8(0)), "u2": reflect.TypeOf(uint16(0)), "u4": reflect.TypeOf(uint32(0)), "u8": reflect.TypeOf(uint64(0)),
	"f4": reflect.TypeOf(float32(0)), "f8": reflect.TypeOf(float64(0)),
}

// Shape is one generated type tree with its registrations.
type Shape struct {
	Root    *Node
	RootTS  TS // settings passed with serix.WithTypeSettings at the root
	Reg     map[reflect.Type]*TS
	RegOrd  []reflect.Type
	Ifaces  map[reflect.Type]*ifaceInfo
	IfOrd   []reflect.Type
	API     *serix.API
	uid     int
	HasTime bool
	// settings objects live as long as the API, like a user's: one *serix.ArrayRules per harness *ARules (several types
	// may deliberately share one), the root option is built once. A library that mutates a caller's settings object in
	// place then shows up as a result that depends on earlier calls.
	arObj   map[*ARules]*serix.ArrayRules
	rootOpt *serix.TypeSettings
	Pred    map[reflect.Type]string // validated zoo types: name of the validator predicate registered on this API
	HasZero bool // contains a sequence whose element can be empty on the wire, or an optional zero-size target
	Feat    map[string]bool
}

type Gen struct {
	sharable []*ARules // rules objects of collection types that later collection types may share (same pointer)
	r  *vx.Rng
	sh *Shape
	// knobs
	maxDepth   int
	inProgress map[reflect.Type]bool
}

func ip(i int) *int    { return &i }
func bp(b bool) *bool { return &b }

func (g *Gen) reg(t reflect.Type) *TS {
	if ts, ok := g.sh.Reg[t]; ok {
		return ts
	}
	ts := &TS{}
	g.sh.Reg[t] = ts
	g.sh.RegOrd = append(g.sh.RegOrd, t)
	return ts
}

func (g *Gen) feat(f string) { g.sh.Feat[f] = true }

// genNode builds a node at the given depth; keyable = must be usable as a Go map key.
func (g *Gen) genNode(depth int, keyable bool) *Node {
	r := g.r
	leaf := depth >= g.maxDepth
	for {
		var k Kind
		if leaf || r.Chance(2, 5) {
			k = vx.Pick(r, []Kind{KBool, KInt, KInt, KInt, KString, KBytes, KByteArr, KU256, KTime, KCustom})
		} else {
			k = vx.Pick(r, []Kind{KStruct, KStruct, KStruct, KSlice, KSlice, KArr, KMap, KMap, KIface, KPtr})
		}
		if k == KCustom {
			if keyable {
				continue
			}
			return g.genCustom(depth, r.Chance(1, 3))
		}
		if keyable && (k == KArr || k == KBytes || k == KSlice || k == KMap || k == KU256 || k == KTime || k == KIface || k == KPtr) {
			continue
		}
		n := &Node{K: k, Depth: depth}
		switch k {
		case KBool:
			n.T = reflect.TypeOf(false)
		case KInt:
			names := []string{"s1", "s2", "s4", "s8", "u1", "u2", "u4", "u8", "u1", "u2", "u4", "u8", "f4", "f8"}
			nm := vx.Pick(r, names)
			if keyable && nm[0] == 'f' {
				nm = "u2"
			}
			n.T = intTypes[nm]
			n.Signed = nm[0] == 's'
			n.Float = nm[0] == 'f'
			n.W = int(nm[1] - '0')
		case KString:
			n.T = stringType
		case KBytes:
			n.T = bytesType
		case KByteArr:
			n.N = vx.Pick(r, []int{0, 1, 2, 3, 4, 8, 32})
			n.T = reflect.ArrayOf(n.N, reflect.TypeOf(byte(0)))
			if !keyable && r.Chance(1, 5) {
				g.ensureCode(n.T)
			}
		case KU256:
			n.T = bigPtrType
		case KTime:
			n.T = timeType
			g.sh.HasTime = true
		case KPtr:
			// pointers the encoder supports: to struct, to array (byte or not), to time.Time
			var e *Node
			switch r.Intn(4) {
			case 0, 1:
				e = g.genStruct(depth + 1)
			case 2:
				e = g.genArr(depth + 1)
			default:
				e = g.genNode(g.maxDepth, false)
				if e.K != KByteArr && e.K != KTime {
					e = g.genStruct(depth + 1)
				}
			}
			n.Elem = e
			n.T = reflect.PointerTo(e.T)
		case KStruct:
			return g.genStructKey(depth, keyable)
		case KSlice:
			n.Elem = g.genElem(depth + 1)
			if ie := g.ifaceElem(depth+1, 6); ie != nil {
				n.Elem = ie
			}
			n.T = reflect.SliceOf(n.Elem.T)
		case KArr:
			return g.genArr(depth)
		case KMap:
			n.Key = g.genNode(maxInt(depth+1, g.maxDepth-1), true)
			n.Elem = g.genElem(depth + 1)
			if ie := g.ifaceElem(depth+1, 4); ie != nil {
				n.Elem = ie // map with interface-typed values (the decoder looks up the settings of the nil element first)
				g.feat("map-iface-elem")
			}
			n.T = reflect.MapOf(n.Key.T, n.Elem.T)
		case KIface:
			n.Iface = g.genIface(depth + 1)
			if n.Iface == nil {
				continue
			}
			n.T = n.Iface.T
		}
		return n
	}
}

func maxInt(a, b int) int {
	if a > b {
		return a
	}
	return b
}

// element of a slice/array/map value: its position carries no settings, so what it needs must be in the registry
func (g *Gen) genElem(depth int) *Node {
	for {
		e := g.genNode(depth, false)
		if e.K == KInt && e.W == 1 && !e.Signed {
			continue // []uint8 is the byte-slice form, [N]uint8 the byte array form
		}
		return e
	}
}

func (g *Gen) genArr(depth int) *Node {
	n := &Node{K: KArr, Depth: depth}
	n.Elem = g.genElem(depth + 1)
	n.N = vx.Pick(g.r, []int{0, 1, 2, 3, 3, 4})
	n.T = reflect.ArrayOf(n.N, n.Elem.T)
	return n
}

func (g *Gen) genStruct(depth int) *Node { return g.genStructKey(depth, false) }

func (g *Gen) genStructKey(depth int, keyable bool) *Node {
	r := g.r
	n := &Node{K: KStruct, Depth: depth}
	nf := r.Intn(5)
	if r.Chance(1, 12) {
		nf = 0
	}
	g.sh.uid++
	uid := g.sh.uid
	var sf []reflect.StructField
	for i := 0; i < nf; i++ {
		f := Field{K: FPlain}
		inlinedEmb := false
		c := r.Intn(10)
		switch {
		case keyable:
			f.N = g.genNode(maxInt(depth+1, g.maxDepth), true)
		case c == 0: // optional: pointer to struct / array, interface, *big.Int
			f.K = FOpt
			g.feat("optional")
			switch r.Intn(4) {
			case 0:
				f.N = &Node{K: KU256, T: bigPtrType, Depth: depth + 1}
			case 1:
				f.N = &Node{K: KIface, Depth: depth + 1}
				f.N.Iface = g.genIface(depth + 1)
				if f.N.Iface == nil {
					f.N = &Node{K: KU256, T: bigPtrType, Depth: depth + 1}
				} else {
					f.N.T = f.N.Iface.T
				}
			case 2:
				e := g.genArr(depth + 1)
				if r.Bool() {
					e = &Node{K: KByteArr, N: vx.Pick(r, []int{1, 4, 32}), Depth: depth + 1}
					e.T = reflect.ArrayOf(e.N, reflect.TypeOf(byte(0)))
				}
				f.N = &Node{K: KPtr, Elem: e, T: reflect.PointerTo(e.T), Depth: depth + 1}
			default:
				e := g.genStruct(depth + 1)
				f.N = &Node{K: KPtr, Elem: e, T: reflect.PointerTo(e.T), Depth: depth + 1}
			}
		case c == 1 && depth < g.maxDepth: // embedded struct (value or pointer)
			e := g.genStruct(depth + 1)
			if r.Bool() {
				f.K = FEmb
				f.N = e
				g.feat("embedded")
			} else {
				f.K = FEmbPtr
				f.N = &Node{K: KPtr, Elem: e, T: reflect.PointerTo(e.T), Depth: depth + 1}
				g.feat("embeddedptr")
			}
			if r.Chance(1, 3) {
				// `inlined` on an embedded field: in the binary form it is an ordinary field (own type code written, a nil
				// pointer rejected like any other); the Go field stays anonymous
				f.K = FPlain
				inlinedEmb = true
				g.feat("embedded-inlined")
			}
		default:
			f.N = g.genNode(depth+1, false)
		}
		// tag settings
		tag := fmt.Sprintf("s%df%d", uid, i)
		needL := f.N.K == KString || f.N.K == KBytes || f.N.K == KSlice || f.N.K == KArr || f.N.K == KMap ||
			(f.N.K == KPtr && f.N.Elem.K == KArr)
		if f.K == FPlain || f.K == FOpt {
			if needL && r.Chance(4, 5) {
				l := g.pickL()
				f.Tag.L = ip(l)
				tag += ",lenPrefix=" + []string{"uint8", "uint16", "uint32", "uint64"}[l]
			}
			if needL && r.Chance(1, 2) {
				ru := &ARules{}
				if r.Bool() {
					ru.Min = uint64(r.Intn(3))
				}
				if r.Bool() {
					ru.Max = uint64(1 + r.Intn(5))
				}
				if ru.Min != 0 || ru.Max != 0 {
					f.Tag.Rules = ru
					if ru.Min != 0 {
						tag += fmt.Sprintf(",minLen=%d", ru.Min)
					}
					if ru.Max != 0 {
						tag += fmt.Sprintf(",maxLen=%d", ru.Max)
					}
					g.feat("minmax")
				}
			}
			if f.K == FOpt {
				tag += ",optional"
			}
		}
		if inlinedEmb {
			tag += ",inlined"
		}
		name := fmt.Sprintf("F%d", i)
		sfield := reflect.StructField{Name: name, Type: f.N.T, Tag: reflect.StructTag(`serix:"` + tag + `"`)}
		if f.K == FEmb || f.K == FEmbPtr || inlinedEmb {
			sfield.Name = fmt.Sprintf("E%d", i)
			sfield.Anonymous = true
		}
		sf = append(sf, sfield)
		n.Fields = append(n.Fields, f)
	}
	n.T = reflect.StructOf(sf)
	if !keyable && r.Chance(1, 3) {
		g.ensureCode(n.T)
	}
	return n
}

func (g *Gen) pickL() int {
	c := g.r.Intn(10)
	switch {
	case c < 4:
		return 0
	case c < 7:
		return 1
	case c < 9:
		return 2
	}
	g.feat("L64")
	return 3
}

// ensureCode gives the type an object code in the registry (uint8 or uint32 denotation).
func (g *Gen) ensureCode(t reflect.Type) *TyCode {
	ts := g.reg(t)
	if ts.Code == nil {
		is32 := g.r.Chance(1, 3)
		c := uint32(g.r.Intn(6))
		if g.r.Chance(1, 5) {
			c = vx.Pick(g.r, []uint32{255, 127, 128})
		}
		if is32 && g.r.Chance(1, 3) {
			c = vx.Pick(g.r, []uint32{256, 65536, 0xffffffff, 0x01020304})
		}
		ts.Code = &TyCode{Is32: is32, C: c}
		g.feat("code")
	}
	return ts.Code
}

// genCustom: a zoo type with a custom codec; the validated ones get their predicate chosen once per shape.
func (g *Gen) genCustom(depth int, withCode bool) *Node {
	t := vx.Pick(g.r, zooTypes)
	n := &Node{K: KCustom, T: t, Depth: depth}
	if g.sh.Pred == nil {
		g.sh.Pred = map[reflect.Type]string{}
	}
	switch t {
	case tZooFixV:
		if g.sh.Pred[t] == "" {
			g.sh.Pred[t] = vx.Pick(g.r, []string{"pred_lt2", "pred_sum_even", "pred_first_nonzero"})
		}
	case tZooLPV:
		if g.sh.Pred[t] == "" {
			g.sh.Pred[t] = vx.Pick(g.r, []string{"pred_even_len", "pred_sum_even", "pred_first_nonzero"})
		}
	}
	if withCode {
		g.ensureCode(t)
	}
	g.feat("custom")
	if g.sh.Pred[t] != "" {
		g.feat("custom-validator")
	}
	return n
}

// ifaceElem: with probability 1/k an element of one of the registered interface types (also at leaf depth).
func (g *Gen) ifaceElem(depth int, k int) *Node {
	if !g.r.Chance(1, k) {
		return nil
	}
	inf := g.genIface(depth)
	if inf == nil || len(inf.Alts) == 0 {
		return nil
	}
	return &Node{K: KIface, Iface: inf, T: inf.T, Depth: depth}
}

// genIface picks one of the three interface types; its alternatives are generated once per shape.
func (g *Gen) genIface(depth int) *ifaceInfo {
	var cands []reflect.Type
	for _, t := range []reflect.Type{anyType, ifAType, ifBType} {
		if !g.inProgress[t] { // no recursive types: an interface is not used inside its own alternatives
			cands = append(cands, t)
		}
	}
	if len(cands) == 0 {
		return nil
	}
	t := vx.Pick(g.r, cands)
	if inf, ok := g.sh.Ifaces[t]; ok {
		return inf
	}
	inf := &ifaceInfo{T: t, Den32: g.r.Chance(1, 3)}
	g.sh.Ifaces[t] = inf
	g.sh.IfOrd = append(g.sh.IfOrd, t)
	g.feat("iface")
	g.inProgress[t] = true
	defer func() { g.inProgress[t] = false }()
	na := 1 + g.r.Intn(3)
	used := map[uint32]bool{}
	for tries := 0; len(inf.Alts) < na && tries < 30; tries++ {
		st := g.genStruct(maxInt(depth, g.maxDepth-1))
		if g.r.Chance(1, 4) {
			st = g.genCustom(depth, false) // a custom-codec type as alternative (registered by value)
		}
		ts := g.reg(st.T)
		if ts.Code != nil && (ts.Code.Is32 != inf.Den32 || used[ts.Code.C]) {
			continue // the empty struct type may already carry a code of the other denotation
		}
		if ts.Code == nil {
			c := uint32(g.r.Intn(5))
			for used[c] {
				c++
			}
			ts.Code = &TyCode{Is32: inf.Den32, C: c}
		}
		used[ts.Code.C] = true
		alt := Alt{Code: ts.Code.C, N: st}
		if st.K == KStruct && g.r.Bool() {
			alt.N = &Node{K: KPtr, Elem: st, T: reflect.PointerTo(st.T), Depth: st.Depth}
		}
		inf.Alts = append(inf.Alts, alt)
	}
	return inf
}

// assignRegistry walks the tree and makes sure every node that needs a length prefix gets one from its position or
// from the registry; sprinkles array rules / lexical ordering on collection types.
func (g *Gen) assignRegistry(n *Node, pos TS, seen map[*Node]bool) {
	if seen[n] {
		return
	}
	seen[n] = true
	r := g.r
	switch n.K {
	case KString, KBytes:
		ts := g.reg(n.T)
		if pos.L == nil && ts.L == nil {
			ts.L = ip(g.pickL())
		} else if ts.L == nil && r.Chance(1, 4) {
			ts.L = ip(g.pickL())
		}
		if ts.Rules == nil && r.Chance(1, 6) {
			ts.Rules = &ARules{Min: uint64(r.Intn(2)), Max: uint64(2 + r.Intn(6))}
			g.feat("minmax")
		}
	case KPtr:
		g.assignRegistry(n.Elem, pos, seen)
	case KStruct:
		for _, f := range n.Fields {
			g.assignRegistry(f.N, f.Tag, seen)
		}
	case KSlice, KArr, KMap:
		ts := g.reg(n.T)
		if pos.L == nil && ts.L == nil {
			ts.L = ip(g.pickL())
		} else if ts.L == nil && r.Chance(1, 4) {
			ts.L = ip(g.pickL())
		}
		if ts.Rules == nil && len(g.sharable) > 0 && r.Chance(1, 3) {
			// share ONE rules object with another collection type (e.g. common bounds for a map and a slice)
			ts.Rules = vx.Pick(r, g.sharable)
			g.feat("shared-rules")
		}
		if ts.Rules == nil && r.Chance(3, 5) {
			ru := &ARules{}
			if r.Chance(1, 3) {
				ru.Min = uint64(r.Intn(3))
			}
			if r.Chance(1, 3) {
				ru.Max = uint64(1 + r.Intn(6))
			}
			if n.K != KMap || r.Chance(1, 4) {
				ru.NoDup = r.Chance(1, 2)
				ru.Lex = r.Chance(1, 2)
			}
			e := n.Elem
			if n.K != KMap && (e.K == KIface || (e.K == KStruct || e.K == KPtr) && g.codeOf(e) != nil) {
				var is32 bool
				var codes []uint32
				if e.K == KIface {
					is32 = e.Iface.Den32
					for _, a := range e.Iface.Alts {
						codes = append(codes, a.Code)
					}
				} else {
					c := g.codeOf(e)
					is32 = c.Is32
					codes = []uint32{c.C}
				}
				if r.Chance(1, 3) {
					if is32 {
						ru.One32 = true
					} else {
						ru.One8 = true
					}
					g.feat("oneofeach")
				}
				if r.Chance(1, 3) && len(codes) > 0 {
					ru.Must = []uint32{vx.Pick(r, codes)}
					if r.Chance(1, 3) && len(codes) > 1 {
						ru.Must = append(ru.Must, codes[0])
					}
					g.feat("mustoccur")
				}
			}
			ts.Rules = ru
			if !ru.One8 && !ru.One32 && len(ru.Must) == 0 {
				g.sharable = append(g.sharable, ru)
			}
			if ru.Lex {
				g.feat("lex")
			}
			if ru.NoDup {
				g.feat("nodup")
			}
		}
		if ts.LexOrd == nil && r.Chance(1, 3) {
			ts.LexOrd = bp(r.Chance(3, 4))
			g.feat("autosort")
		}
		if n.Key != nil {
			g.assignRegistry(n.Key, TS{}, seen)
		}
		g.assignRegistry(n.Elem, TS{}, seen)
	case KIface:
		for _, a := range n.Iface.Alts {
			g.assignRegistry(a.N, pos, seen)
		}
	}
}

func (g *Gen) codeOf(n *Node) *TyCode {
	if n.K == KPtr {
		return g.codeOf(n.Elem)
	}
	if ts, ok := g.sh.Reg[n.T]; ok {
		return ts.Code
	}
	return nil
}

// ---------- effective settings ----------

// Nodes can be shared (an interface's alternatives are reached from every use of the interface), and the position
// settings of the uses may differ, so effective settings are computed into a fresh copy of the tree.
func (sh *Shape) effective(n *Node, pos TS, depth int) *Node {
	c := *n
	ts := pos
	if r, ok := sh.Reg[n.T]; ok {
		ts = mergeTS(pos, *r)
	}
	switch n.K {
	case KString, KBytes:
		if ts.L != nil {
			c.L = *ts.L
		} else {
			c.L = -1
		}
		if ts.Rules != nil {
			c.Mn, c.Mx = ts.Rules.Min, ts.Rules.Max
		}
	case KByteArr:
		c.Code = ts.Code
	case KCustom:
		c.Code = ts.Code
		c.Pred = sh.Pred[n.T]
	case KPtr:
		c.Elem = sh.effective(n.Elem, pos, depth+1)
	case KStruct:
		c.Code = ts.Code
		c.Fields = nil
		for _, f := range n.Fields {
			ff := f
			switch f.K {
			case FPlain, FOpt:
				ff.N = sh.effective(f.N, f.Tag, depth+1)
			default:
				ff.N = sh.effective(f.N, TS{}, depth+1)
			}
			c.Fields = append(c.Fields, ff)
		}
	case KSlice, KArr, KMap:
		if ts.L != nil {
			c.L = *ts.L
		} else {
			c.L = -1
		}
		if ts.Rules != nil {
			c.Rules = *ts.Rules
		}
		c.Auto = ts.LexOrd != nil && *ts.LexOrd
		if n.Key != nil {
			c.Key = sh.effective(n.Key, TS{}, depth+1)
		}
		c.Elem = sh.effective(n.Elem, TS{}, depth+1)
	case KIface:
		inf := *n.Iface
		inf.Alts = nil
		if depth < 12 {
			for _, a := range n.Iface.Alts {
				inf.Alts = append(inf.Alts, Alt{Code: a.Code, N: sh.effective(a.N, pos, depth+1)})
			}
		}
		c.Iface = &inf
	}
	return &c
}

// ---------- registration on a fresh API ----------

func toSerixTS(ts TS) serix.TypeSettings { return (*Shape)(nil).toSerix(ts) }

// toSerix converts harness settings; with a Shape, equal *ARules pointers yield the same *serix.ArrayRules object.
func (sh *Shape) toSerix(ts TS) serix.TypeSettings {
	s := serix.TypeSettings{}
	if ts.L != nil {
		s = s.WithLengthPrefixType([]serix.LengthPrefixType{serix.LengthPrefixTypeAsByte, serix.LengthPrefixTypeAsUint16,
			serix.LengthPrefixTypeAsUint32, serix.LengthPrefixTypeAsUint64}[*ts.L])
	}
	if ts.Code != nil {
		if ts.Code.Is32 {
			s = s.WithObjectType(ts.Code.C)
		} else {
			s = s.WithObjectType(uint8(ts.Code.C))
		}
	}
	if ts.LexOrd != nil {
		s = s.WithLexicalOrdering(*ts.LexOrd)
	}
	if ts.Rules != nil && sh != nil && sh.arObj[ts.Rules] != nil {
		s = s.WithArrayRules(sh.arObj[ts.Rules])
	} else if ts.Rules != nil {
		ar := &serix.ArrayRules{Min: uint(ts.Rules.Min), Max: uint(ts.Rules.Max)}
		if sh != nil {
			if sh.arObj == nil {
				sh.arObj = map[*ARules]*serix.ArrayRules{}
			}
			sh.arObj[ts.Rules] = ar
		}
		if ts.Rules.NoDup {
			ar.ValidationMode |= serializer.ArrayValidationModeNoDuplicates
		}
		if ts.Rules.Lex {
			ar.ValidationMode |= serializer.ArrayValidationModeLexicalOrdering
		}
		if ts.Rules.One8 {
			ar.ValidationMode |= serializer.ArrayValidationModeAtMostOneOfEachTypeByte
		}
		if ts.Rules.One32 {
			ar.ValidationMode |= serializer.ArrayValidationModeAtMostOneOfEachTypeUint32
		}
		if len(ts.Rules.Must) > 0 {
			ar.MustOccur = serializer.TypePrefixes{}
			for _, c := range ts.Rules.Must {
				ar.MustOccur[c] = struct{}{}
			}
		}
		s = s.WithArrayRules(ar)
	}
	return s
}

func (sh *Shape) register() error {
	api := serix.NewAPI()
	for _, t := range sh.RegOrd {
		ts := sh.Reg[t]
		if ts.L == nil && ts.Code == nil && ts.LexOrd == nil && ts.Rules == nil {
			continue
		}
		if err := api.RegisterTypeSettings(reflect.Zero(t).Interface(), sh.toSerix(*ts)); err != nil {
			return fmt.Errorf("register %s: %w", t, err)
		}
	}
	for _, it := range sh.IfOrd {
		inf := sh.Ifaces[it]
		var objs []any
		for _, a := range inf.Alts {
			objs = append(objs, reflect.Zero(a.N.T).Interface())
		}
		if len(objs) == 0 {
			continue
		}
		if err := api.RegisterInterfaceObjects(reflect.Zero(reflect.PointerTo(it)).Interface(), objs...); err != nil {
			return fmt.Errorf("register iface %s: %w", it, err)
		}
	}
	if err := registerZooValidators(api, sh.Pred); err != nil {
		return fmt.Errorf("register validators: %w", err)
	}
	sh.API = api
	return nil
}

// newShape generates one type tree, registers it and computes the effective tree.
func newShape(r *vx.Rng, maxDepth int) (*Shape, *Node) {
	sh := &Shape{Reg: map[reflect.Type]*TS{}, Ifaces: map[reflect.Type]*ifaceInfo{}, Feat: map[string]bool{}}
	g := &Gen{r: r, sh: sh, maxDepth: maxDepth, inProgress: map[reflect.Type]bool{}}
	root := g.genNode(0, false)
	sh.Root = root
	// root settings, passed as option
	if root.K == KString || root.K == KBytes || root.K == KSlice || root.K == KArr || root.K == KMap || (root.K == KPtr && root.Elem.K == KArr) {
		if r.Chance(2, 3) {
			sh.RootTS.L = ip(g.pickL())
		}
		if r.Chance(1, 4) {
			sh.RootTS.Rules = &ARules{Min: uint64(r.Intn(2)), Max: uint64(r.Intn(5))}
			if root.K != KString && root.K != KBytes {
				sh.RootTS.Rules.Lex = r.Chance(1, 3)
				sh.RootTS.Rules.NoDup = r.Chance(1, 3)
			}
		}
		if r.Chance(1, 5) {
			sh.RootTS.LexOrd = bp(true)
		}
	}
	g.assignRegistry(root, sh.RootTS, map[*Node]bool{})
	eff := sh.effective(root, sh.RootTS, 0)
	return sh, eff
}

// ---------- Coq printing of the effective schema ----------

func coqCode(c *TyCode) string {
	if c == nil {
		return "None"
	}
	if c.Is32 {
		return fmt.Sprintf("(Some (TC32 %d))", c.C)
	}
	return fmt.Sprintf("(Some (TC8 %d))", c.C)
}

func coqL(l int) string { return []string{"L8", "L16", "L32", "L64"}[l] }

func coqRules(ru ARules, auto bool) string {
	must := make([]string, len(ru.Must))
	for i, c := range ru.Must {
		must[i] = fmt.Sprint(c)
	}
	return fmt.Sprintf("(mkAR %d %d %s %s %s %s [%s] %s)", ru.Min, ru.Max, vx.Bool(ru.NoDup), vx.Bool(ru.Lex), vx.Bool(ru.One8),
		vx.Bool(ru.One32), strings.Join(must, "; "), vx.Bool(auto))
}

func (n *Node) coq() string {
	switch n.K {
	case KBool:
		return "SBool"
	case KInt:
		return fmt.Sprintf("(SInt %s W%d)", vx.Bool(n.Signed), n.W)
	case KString:
		return fmt.Sprintf("(SString %s %d %d)", coqL(n.L), n.Mn, n.Mx)
	case KBytes:
		return fmt.Sprintf("(SBytes %s %d %d)", coqL(n.L), n.Mn, n.Mx)
	case KByteArr:
		return fmt.Sprintf("(SByteArr %d %s)", n.N, coqCode(n.Code))
	case KCustom:
		return n.coqCustom()
	case KU256:
		return "SU256"
	case KTime:
		return "STime"
	case KPtr:
		return "(SPtr " + n.Elem.coq() + ")"
	case KStruct:
		return fmt.Sprintf("(SStruct %s %s)", coqCode(n.Code), coqFields(n.Fields))
	case KSlice:
		return fmt.Sprintf("(SSlice %s %s %s)", coqL(n.L), coqRules(n.Rules, n.Auto), n.Elem.coq())
	case KArr:
		return fmt.Sprintf("(SArr %d %s %s %s)", n.N, coqL(n.L), coqRules(n.Rules, n.Auto), n.Elem.coq())
	case KMap:
		return fmt.Sprintf("(SMap %s %s %s %s)", coqL(n.L), coqRules(n.Rules, n.Auto), n.Key.coq(), n.Elem.coq())
	case KIface:
		den := "Den8"
		if n.Iface.Den32 {
			den = "Den32"
		}
		s := "ANil"
		for i := len(n.Iface.Alts) - 1; i >= 0; i-- {
			a := n.Iface.Alts[i]
			s = fmt.Sprintf("(ACons %d %s %s)", a.Code, a.N.coq(), s)
		}
		return fmt.Sprintf("(SIface %s %s)", den, s)
	}
	return "?"
}

// custom-codec node of the effective tree
func (n *Node) coqCustom() string {
	f := "(CFix 2)"
	if n.T == tZooLP || n.T == tZooLPV {
		f = "CLen8"
	}
	p := "None"
	if n.Pred != "" {
		p = "(Some " + n.Pred + ")"
	}
	return fmt.Sprintf("(SCustom %s %s %s)", coqCode(n.Code), f, p)
}

func coqFields(fs []Field) string {
	s := "FNil"
	for i := len(fs) - 1; i >= 0; i-- {
		f := fs[i]
		k := []string{"FPlain", "FOpt", "FEmb", "FEmbPtr"}[f.K]
		sch := f.N.coq()
		if f.K == FEmbPtr {
			sch = f.N.Elem.coq() // the model's FEmbPtr carries the struct schema itself
		}
		s = fmt.Sprintf("(FCons %s %s %s)", k, sch, s)
	}
	return s
}

// static facts used for the statistics / guards
func (n *Node) walk(f func(*Node), depth int) {
	f(n)
	if depth > 14 {
		return
	}
	switch n.K {
	case KPtr, KSlice, KArr:
		n.Elem.walk(f, depth+1)
	case KMap:
		n.Key.walk(f, depth+1)
		n.Elem.walk(f, depth+1)
	case KStruct:
		for _, fl := range n.Fields {
			fl.N.walk(f, depth+1)
		}
	case KIface:
		for _, a := range n.Iface.Alts {
			a.N.walk(f, depth+1)
		}
	}
}

// minSize: least number of bytes an encoding of the node has (0 = can be empty on the wire)
func (n *Node) minSize() int {
	lp := func(l int) int { return []int{1, 2, 4, 8}[l] }
	cs := func(c *TyCode) int {
		if c == nil {
			return 0
		}
		if c.Is32 {
			return 4
		}
		return 1
	}
	switch n.K {
	case KBool:
		return 1
	case KInt:
		return n.W
	case KString, KBytes, KSlice, KArr, KMap:
		return lp(n.L)
	case KByteArr:
		return cs(n.Code) + n.N
	case KCustom:
		if n.T == tZooLP || n.T == tZooLPV {
			return cs(n.Code) + 1
		}
		return cs(n.Code) + 2
	case KU256:
		return 32
	case KTime:
		return 8
	case KPtr:
		return n.Elem.minSize()
	case KStruct:
		return cs(n.Code) + fieldsMin(n.Fields)
	case KIface:
		if n.Iface.Den32 {
			return 4
		}
		return 1
	}
	return 0
}

func fieldsMin(fs []Field) int {
	s := 0
	for _, f := range fs {
		switch f.K {
		case FOpt:
			s += 4
		case FEmb:
			s += fieldsMin(f.N.Fields)
		case FEmbPtr:
			s += fieldsMin(f.N.Elem.Fields)
		default:
			s += f.N.minSize()
		}
	}
	return s
}
