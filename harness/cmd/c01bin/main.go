// Harness for the serix binary codec parts of C01 / C03 / C02 (checks/c01bin.py, c03bin.py, c02serix.py).
//
//	hx-c01bin c01 --types N --seed S --out cases.v --stats stats.json   round trip + determinism
//	hx-c01bin c03 ...                                                   wire layout + canonical validated decoding
//	hx-c01bin c02 ...                                                   decoder totality / resource bounds on hostile input
//
// Every case is one real serix.API.Encode / Decode call on a reflect-generated type; the case file carries the
// schema (as Coq definitions in the header), the input and the observed outcome.
package main

import (
	"bytes"
	"encoding/hex"
	"flag"
	"fmt"
	"hash/fnv"
	"os"
	"reflect"
	"runtime"
	"strings"
	"time"

	"github.com/iotaledger/hive.go/ierrors"
	"github.com/iotaledger/hive.go/serializer/v2"
	"github.com/iotaledger/hive.go/serializer/v2/serix"

	"verif/harness/vx"
)

func classify(err error) string {
	is := func(t error) bool { return ierrors.Is(err, t) }
	switch {
	case is(serializer.ErrDeserializationNotEnoughData):
		return "ENotEnough"
	case is(serializer.ErrDeserializationInvalidBoolValue):
		return "EBool"
	case is(serializer.ErrArrayValidationMinElementsNotReached), is(serializer.ErrSliceLengthTooShort), is(serializer.ErrStringTooShort),
		is(serializer.ErrDeserializationLengthMinNotReached):
		return "EMin"
	case is(serializer.ErrArrayValidationMaxElementsExceeded), is(serializer.ErrSliceLengthTooLong), is(serializer.ErrStringTooLong),
		is(serializer.ErrDeserializationLengthMaxExceeded):
		return "EMax"
	case is(serializer.ErrDeserializationLengthInvalid):
		return "ELenInvalid"
	case is(serializer.ErrArrayValidationOrderViolatesLexicalOrder):
		return "EOrder"
	case is(serializer.ErrArrayValidationViolatesUniqueness):
		return "EDup"
	case is(serix.ErrMapValidationViolatesUniqueness):
		return "EDupKey"
	case is(serializer.ErrArrayValidationViolatesTypeUniqueness):
		return "ETypeDup"
	case is(serializer.ErrArrayValidationTypesNotOccurred):
		return "EMustOccur"
	case is(serializer.ErrDeserializationTypeMismatch):
		return "ETypeMismatch"
	case is(serix.ErrInterfaceUnderlyingTypeNotRegistered):
		return "EIface"
	case is(serix.ErrNonUTF8String):
		return "EUtf8"
	case is(serializer.ErrUint256Nil), is(serializer.ErrUint256NumNegative), is(serializer.ErrUint256TooBig):
		return "EU256"
	case is(serializer.ErrInvalidBytes):
		return "EInvalid"
	case is(errZooInvalid):
		return "EValidator"
	}
	return "EOther"
}

func opts(sh *Shape, val bool) []serix.Option {
	if sh.rootOpt == nil {
		t := sh.toSerix(sh.RootTS)
		sh.rootOpt = &t
	}
	o := []serix.Option{serix.WithTypeSettings(*sh.rootOpt)}
	if val {
		o = append(o, serix.WithValidation())
	}
	return o
}

// doEncode returns (bytes, "" ) on success, (nil, class) on error, class "PANIC" on panic.
func doEncode(sh *Shape, v reflect.Value, val bool) (b []byte, cls string, msg string) {
	defer func() {
		if r := recover(); r != nil {
			b, cls, msg = nil, "PANIC", fmt.Sprint(r)
		}
	}()
	out, err := sh.API.Encode(ctxBg, v.Interface(), opts(sh, val)...)
	if err != nil {
		return nil, classify(err), err.Error()
	}
	return append([]byte{}, out...), "", ""
}

// doEncodeElem encodes a value in element position (no position settings).
func doEncodeElem(sh *Shape, e *Node, v reflect.Value) (b []byte, cls string, msg string) {
	defer func() {
		if r := recover(); r != nil {
			b, cls, msg = nil, "PANIC", fmt.Sprint(r)
		}
	}()
	if e.K == KIface && v.IsNil() {
		return nil, "EOther", "nil interface"
	}
	out, err := sh.API.Encode(ctxBg, v.Interface())
	if err != nil {
		return nil, classify(err), err.Error()
	}
	return append([]byte{}, out...), "", ""
}

type decRes struct {
	ptr   reflect.Value
	n     int
	cls   string
	msg   string
	alloc uint64
	dur   time.Duration
}

func doDecode(sh *Shape, t reflect.Type, b []byte, val bool, measure bool) (res decRes) {
	res.ptr = reflect.New(t)
	var m0, m1 runtime.MemStats
	o := opts(sh, val)
	in := append([]byte{}, b...)
	if measure {
		runtime.ReadMemStats(&m0)
	}
	t0 := time.Now()
	func() {
		defer func() {
			if r := recover(); r != nil {
				res.cls, res.msg = "PANIC", fmt.Sprint(r)
			}
		}()
		n, err := sh.API.Decode(ctxBg, in, res.ptr.Interface(), o...)
		res.n = n
		if err != nil {
			res.cls, res.msg = classify(err), err.Error()
		}
	}()
	res.dur = time.Since(t0)
	if measure {
		runtime.ReadMemStats(&m1)
		res.alloc = m1.TotalAlloc - m0.TotalAlloc
	}
	return res
}

// ---------- run state ----------

type run struct {
	r     *vx.Rng
	st    *vx.Stats
	cf    *vx.CasesFile
	defs  []string
	mode  string
	seed  uint64
	nfail int
}

type tcase struct {
	sh   *Shape
	eff  *Node
	name string
	idx  int
	sch  string
}

func (ru *run) newType(i int, depth int) *tcase {
	for try := 0; try < 50; try++ {
		sh, eff := newShape(ru.r.Fork(), depth)
		if eff.K == KIface {
			continue // Encode(obj any) sees the dynamic type of a root interface value
		}
		sch := eff.coq()
		if len(sch) > 6000 {
			continue
		}
		// steer away from the D02d pattern at scale: a sequence of zero-size elements behind a 4/8-byte length prefix
		// iterates up to 2^32 times on a mutated count (minutes); uint8/uint16 prefixes keep the pattern but bound it
		slow := false
		eff.walk(func(n *Node) {
			if (n.K == KSlice || n.K == KArr) && n.Elem.minSize() == 0 && n.L >= 2 {
				slow = true
			}
			if n.K == KMap && n.Key.minSize()+n.Elem.minSize() == 0 && n.L >= 2 {
				slow = true
			}
		}, 0)
		if slow {
			ru.st.Count("gen:skipped-zero-size-wide-prefix")
			continue
		}
		if err := sh.register(); err != nil {
			vx.Die("registration failed (generator bug): %v\n%s", err, sch)
		}
		tc := &tcase{sh: sh, eff: eff, name: fmt.Sprintf("T%d", i), idx: i, sch: sch}
		ru.defs = append(ru.defs, fmt.Sprintf("Definition %s : schema := %s.", tc.name, sch))
		ru.st.Count("root:" + kindNames[eff.K])
		for f := range sh.Feat {
			ru.st.Count("feat:" + f)
		}
		eff.walk(func(n *Node) {
			if (n.K == KSlice || n.K == KArr) && n.Elem.minSize() == 0 {
				sh.HasZero = true
			}
			if n.K == KMap && n.Key.minSize()+n.Elem.minSize() == 0 {
				sh.HasZero = true
			}
			if n.K == KStruct {
				for _, f := range n.Fields {
					if f.K == FOpt && f.N.minSize() == 0 {
						sh.HasZero = true
					}
				}
			}
		}, 0)
		if sh.HasZero {
			ru.st.Count("feat:zero-size-element")
		}
		return tc
	}
	vx.Die("could not generate a type")
	return nil
}

func hashOf(s string) string {
	h := fnv.New64a()
	h.Write([]byte(s))
	return fmt.Sprintf("%x", h.Sum64())
}

func obsEnc(b []byte, cls string) string {
	switch cls {
	case "":
		return "(OEOk " + vx.Bytes(b) + ")"
	case "PANIC":
		return "OEPanic"
	}
	return "(OEErr " + cls + ")"
}

func (ru *run) addEnc(tc *tcase, val bool, vterm string, b []byte, cls string) {
	o := obsEnc(b, cls)
	if cls != "" && cls != "PANIC" && strings.Count(vterm, "VMap [(") > 0 && multiEntryMap(vterm) {
		// which entry's error comes first depends on Go's map iteration order: only "some error" is comparable
		o = "OEErrAny"
		ru.st.Count("enc:error-with-multi-entry-map")
	}
	ru.cf.Add(fmt.Sprintf("CEnc %s %s %s %s", vx.Bool(val), tc.name, vterm, o))
	ru.st.CaseIndex = append(ru.st.CaseIndex, map[string]any{"op": "enc", "type": tc.idx, "val": val, "value": clip(vterm), "out": clsOr(cls, b)})
	ru.st.Case(hashOf(tc.sch+vterm+vx.Bool(val)), tc.eff.K >= KPtr && tc.eff.K != KCustom)
	ru.st.Count("enc:" + clsName(cls))
}

// addRaw adds a case whose Coq term the caller wrote itself (compact forms of large values).
func (ru *run) addRaw(term string, tc *tcase, op string, key string) {
	ru.cf.Add(term)
	ru.st.CaseIndex = append(ru.st.CaseIndex, map[string]any{"op": op, "type": tc.idx, "term": clip(term)})
	ru.st.Case(hashOf(key), true)
	ru.st.Count(op)
}

func minInt(a, b int) int {
	if a < b {
		return a
	}
	return b
}

func (ru *run) addDec(tc *tcase, val bool, in []byte, d decRes) {
	var o string
	if d.cls == "" && tc.sh.HasZero && maxLen(tc.eff, d.ptr.Elem(), 0) > len(in)+1 {
		// a decoded collection longer than the whole input: only zero-size elements can do that (D02d); the model
		// reports the distinguished error EUnbounded for it
		d.cls = "EUnbounded"
		ru.st.Count("dec:iterations-exceed-input")
	}
	switch d.cls {
	case "":
		o = fmt.Sprintf("(ODOk %s %d)", toCoq(tc.eff, d.ptr.Elem()), d.n)
	case "PANIC":
		o = "ODPanic"
	default:
		o = "(ODErr " + d.cls + ")"
	}
	ru.cf.Add(fmt.Sprintf("CDec %s %s %s %s", vx.Bool(val), tc.name, vx.Bytes(in), o))
	ru.st.CaseIndex = append(ru.st.CaseIndex, map[string]any{"op": "dec", "type": tc.idx, "val": val, "in": hex.EncodeToString(in), "out": clsName(d.cls), "n": d.n})
	ru.st.Case(hashOf(tc.sch+hex.EncodeToString(in)+vx.Bool(val)), tc.eff.K >= KPtr && tc.eff.K != KCustom)
	ru.st.Count("dec:" + clsName(d.cls))
}

func clsName(c string) string {
	if c == "" {
		return "ok"
	}
	return c
}

func clsOr(c string, b []byte) string {
	if c == "" {
		return hex.EncodeToString(b)
	}
	return c
}

func clip(s string) string {
	if len(s) > 400 {
		return s[:400] + "..."
	}
	return s
}

func (ru *run) fail(sig string, tc *tcase, what string, extra map[string]any) {
	ru.nfail++
	if ru.nfail > 20 {
		return
	}
	m := map[string]any{"sig": sig, "what": what, "mode": ru.mode, "seed": ru.seed, "type_index": tc.idx, "schema": clip(tc.sch), "gotype": clip(tc.eff.T.String())}
	for k, v := range extra {
		m[k] = v
	}
	ru.st.Fail(m)
}

// ---------- C01: round trip and determinism ----------

func (ru *run) c01(tc *tcase, nvals int) {
	r := ru.r
	for k := 0; k < nvals; k++ {
		vg := &VGen{r: r.Fork(), sh: tc.sh, honor: r.Chance(3, 4)}
		v := vg.gen(tc.eff)
		vterm := toCoq(tc.eff, v)
		for _, val := range []bool{false, true} {
			b, cls, msg := doEncode(tc.sh, v, val)
			ru.addEnc(tc, val, vterm, b, cls)
			if cls == "PANIC" {
				ru.fail("encode-panic", tc, "Encode panicked: "+msg, map[string]any{"value": clip(vterm), "val": val})
				continue
			}
			if cls != "" {
				continue
			}
			// determinism (Go map iteration order varies between calls)
			for j := 0; j < 3; j++ {
				b2, cls2, _ := doEncode(tc.sh, v, val)
				if cls2 != "" || !bytes.Equal(b, b2) {
					ru.fail("nondeterministic-encode", tc, "two Encode calls on the same value differ", map[string]any{"value": clip(vterm), "b1": hex.EncodeToString(b), "b2": clsOr(cls2, b2)})
					break
				}
			}
			junk := make([]byte, r.Intn(4))
			for i := range junk {
				junk[i] = byte(r.Intn(256))
			}
			if r.Bool() {
				junk = nil
			}
			in := append(append([]byte{}, b...), junk...)
			d := doDecode(tc.sh, tc.eff.T, in, val, false)
			ru.addDec(tc, val, in, d)
			// Go-side round-trip oracle
			switch {
			case d.cls != "":
				ru.fail(zsig(tc, "roundtrip-decode-fails"), tc, "Decode rejects the bytes Encode produced: "+d.cls+" "+d.msg, map[string]any{"value": clip(vterm), "val": val, "bytes": hex.EncodeToString(b)})
			case d.n != len(b):
				ru.fail(zsig(tc, "roundtrip-consumed"), tc, fmt.Sprintf("Decode consumed %d of %d produced bytes", d.n, len(b)), map[string]any{"value": clip(vterm), "val": val, "bytes": hex.EncodeToString(b)})
			case !vg.lossy && canonPrint(tc.eff, d.ptr.Elem()) != canonPrint(tc.eff, v):
				ru.fail(zsig(tc, "roundtrip-value"), tc, "decoded value differs from the encoded one", map[string]any{"value": clip(vterm), "decoded": clip(toCoq(tc.eff, d.ptr.Elem())), "val": val, "bytes": hex.EncodeToString(b)})
			}
		}
		if vg.lossy {
			ru.st.Count("value:lossy-time")
		}
		if vg.odd {
			ru.st.Count("value:odd")
		}
	}
}

// zsig: failures on shapes with zero-size sequence elements / optional targets are the listed finding family.
func zsig(tc *tcase, s string) string {
	if tc.sh.HasZero {
		return "zero-size-element-" + s
	}
	return s
}

// ---------- mutations ----------

// flipBool finds the wire position of bools by differential encoding and sets it to a non-canonical value.
func mutations(r *vx.Rng, b []byte, hostile bool) [][]byte {
	var out [][]byte
	cp := func() []byte { return append([]byte{}, b...) }
	n := len(b)
	if n == 0 {
		return [][]byte{{}, {0}, {1}, {0xff}}
	}
	// truncations
	cuts := 3
	if hostile {
		cuts = 8
	}
	for i := 0; i < cuts; i++ {
		out = append(out, cp()[:r.Intn(n)])
	}
	// single byte changes (0/1 -> 2, +-1, ff)
	for i := 0; i < 6; i++ {
		m := cp()
		p := r.Intn(n)
		switch r.Intn(5) {
		case 0:
			m[p] ^= 1 << uint(r.Intn(8))
		case 1:
			m[p]++
		case 2:
			m[p]--
		case 3:
			m[p] = vx.Pick(r, []byte{0, 1, 2, 0x7f, 0x80, 0xff})
		default:
			if m[p] <= 1 {
				m[p] = 2 + byte(r.Intn(254)) // a bool or a small count
			} else {
				m[p] = 0
			}
		}
		out = append(out, m)
	}
	// length inflation: windows of 1/2/4/8 bytes set to ff.., 7f.., or a large count
	for i := 0; i < 4; i++ {
		m := cp()
		w := vx.Pick(r, []int{1, 2, 4, 8})
		p := r.Intn(n)
		for j := 0; j < w && p+j < n; j++ {
			m[p+j] = 0xff
		}
		if r.Bool() && p+w-1 < n {
			m[p+w-1] = vx.Pick(r, []byte{0x7f, 0x00, 0x3f})
		}
		out = append(out, m)
	}
	// swap two adjacent equal-length windows (swapped entries / elements), duplicate a window, insert / delete bytes
	for i := 0; i < 4; i++ {
		w := 1 + r.Intn(4)
		if n >= 2*w {
			p := r.Intn(n - 2*w + 1)
			m := cp()
			copy(m[p:], b[p+w:p+2*w])
			copy(m[p+w:], b[p:p+w])
			out = append(out, m)
			d := append(append(append([]byte{}, b[:p+w]...), b[p:p+w]...), b[p+w:]...)
			out = append(out, d)
		}
	}
	for i := 0; i < 2; i++ {
		p := r.Intn(n + 1)
		ins := append(append(append([]byte{}, b[:p]...), byte(r.Intn(3))), b[p:]...)
		out = append(out, ins)
		if p < n {
			del := append(append([]byte{}, b[:p]...), b[p+1:]...)
			out = append(out, del)
		}
	}
	return out
}

func randomShort(r *vx.Rng, max int) []byte {
	l := r.Intn(max + 1)
	b := make([]byte, l)
	for i := range b {
		b[i] = vx.Pick(r, []byte{0, 0, 1, 1, 2, 3, 4, 0x7f, 0x80, 0xff, byte(r.Intn(256))})
	}
	return b
}

// structural mutations that need to know where things are: found by encoding parts separately and searching the
// encoding of the whole for them.
func (ru *run) structural(tc *tcase, v reflect.Value, b []byte) [][]byte {
	var out [][]byte
	r := ru.r
	var visit func(n *Node, v reflect.Value, depth int)
	splice := func(old, new []byte) {
		if len(old) == 0 {
			return
		}
		if i := bytes.Index(b, old); i >= 0 {
			m := append(append(append([]byte{}, b[:i]...), new...), b[i+len(old):]...)
			out = append(out, m)
		}
	}
	lp := func(l int, c int) []byte {
		x := make([]byte, []int{1, 2, 4, 8}[l])
		for i := range x {
			x[i] = byte(c >> (8 * uint(i)))
		}
		return x
	}
	visit = func(n *Node, v reflect.Value, depth int) {
		if depth > 10 || len(out) > 24 {
			return
		}
		switch n.K {
		case KPtr:
			if !v.IsNil() {
				visit(n.Elem, v.Elem(), depth+1)
			}
		case KStruct:
			for i, f := range n.Fields {
				fv := v.Field(i)
				if f.K == FOpt && !fv.IsNil() {
					// padded / shortened optional marker
					if ob, cls, _ := doEncodeField(tc.sh, f, fv); cls == "" && len(ob) > 0 {
						old := append(lp(2, len(ob)), ob...)
						splice(old, append(lp(2, len(ob)+1), append(append([]byte{}, ob...), 0)...))
						splice(old, append(lp(2, len(ob)+1), ob...))
						splice(old, append(lp(2, len(ob)-1), ob...))
					}
				}
				if f.K == FOpt && fv.IsNil() {
					continue
				}
				visit(f.N, fv, depth+1)
			}
		case KSlice, KArr:
			var ebs [][]byte
			ok := n.L >= 0
			for i := 0; i < v.Len(); i++ {
				eb, cls, _ := doEncodeElem(tc.sh, n.Elem, v.Index(i))
				ok = ok && cls == ""
				ebs = append(ebs, eb)
				if i < 3 {
					visit(n.Elem, v.Index(i), depth+1)
				}
			}
			if ok && len(ebs) >= 1 {
				whole := append(lp(n.L, len(ebs)), bytes.Join(ebs, nil)...)
				// duplicate the first element, drop the last, swap the first two, reverse
				dup := append(lp(n.L, len(ebs)+1), append(append([]byte{}, ebs[0]...), bytes.Join(ebs, nil)...)...)
				splice(whole, dup)
				splice(whole, append(lp(n.L, len(ebs)-1), bytes.Join(ebs[:len(ebs)-1], nil)...))
				splice(whole, append(lp(n.L, len(ebs)+1), bytes.Join(ebs, nil)...))
				if len(ebs) >= 2 {
					sw := append([][]byte{ebs[1], ebs[0]}, ebs[2:]...)
					splice(whole, append(lp(n.L, len(ebs)), bytes.Join(sw, nil)...))
				}
			}
		case KMap:
			var ebs [][]byte
			ok := n.L >= 0
			it := v.MapRange()
			for it.Next() {
				kb, c1, _ := doEncodeElem(tc.sh, n.Key, it.Key())
				vb, c2, _ := doEncodeElem(tc.sh, n.Elem, it.Value())
				ok = ok && c1 == "" && c2 == ""
				ebs = append(ebs, append(kb, vb...))
				if len(ebs) < 3 {
					visit(n.Elem, it.Value(), depth+1)
				}
			}
			if ok && len(ebs) >= 1 {
				// entries in wire (sorted) order
				sortBytes(ebs)
				whole := append(lp(n.L, len(ebs)), bytes.Join(ebs, nil)...)
				dup := append(lp(n.L, len(ebs)+1), append(append([]byte{}, ebs[0]...), bytes.Join(ebs, nil)...)...)
				splice(whole, dup)
				if len(ebs) >= 2 {
					sw := append([][]byte{ebs[1], ebs[0]}, ebs[2:]...)
					splice(whole, append(lp(n.L, len(ebs)), bytes.Join(sw, nil)...))
					k := r.Intn(len(ebs) - 1)
					sw2 := append([][]byte{}, ebs...)
					sw2[k], sw2[k+1] = sw2[k+1], sw2[k]
					splice(whole, append(lp(n.L, len(ebs)), bytes.Join(sw2, nil)...))
				}
			}
		case KIface:
			if !v.IsNil() {
				d := v.Elem()
				for _, a := range n.Iface.Alts {
					if a.N.T == d.Type() {
						visit(a.N, d, depth+1)
					}
				}
			}
		}
	}
	visit(tc.eff, v, 0)
	return out
}

func sortBytes(x [][]byte) {
	for i := 1; i < len(x); i++ {
		for j := i; j > 0 && bytes.Compare(x[j-1], x[j]) > 0; j-- {
			x[j-1], x[j] = x[j], x[j-1]
		}
	}
}

// doEncodeField encodes the value of an optional field the way the struct encoder does (with the tag settings).
func doEncodeField(sh *Shape, f Field, fv reflect.Value) (b []byte, cls string, msg string) {
	defer func() {
		if r := recover(); r != nil {
			b, cls, msg = nil, "PANIC", fmt.Sprint(r)
		}
	}()
	out, err := sh.API.Encode(ctxBg, fv.Interface(), serix.WithTypeSettings(toSerixTS(f.Tag)), serix.WithValidation())
	if err != nil {
		return nil, classify(err), err.Error()
	}
	return append([]byte{}, out...), "", ""
}

// boolFlips: positions where the encodings of v and of v with one bool leaf flipped differ by exactly 0<->1.
func (ru *run) boolMutations(tc *tcase, v reflect.Value, b []byte) [][]byte {
	var out [][]byte
	var leaves []reflect.Value
	var visit func(n *Node, v reflect.Value, depth int)
	visit = func(n *Node, v reflect.Value, depth int) {
		if depth > 10 {
			return
		}
		switch n.K {
		case KBool:
			if v.CanSet() {
				leaves = append(leaves, v)
			}
		case KPtr:
			if !v.IsNil() {
				visit(n.Elem, v.Elem(), depth+1)
			}
		case KStruct:
			for i, f := range n.Fields {
				visit(f.N, v.Field(i), depth+1)
			}
		case KSlice, KArr:
			for i := 0; i < v.Len(); i++ {
				visit(n.Elem, v.Index(i), depth+1)
			}
		}
	}
	c := reflect.New(tc.eff.T).Elem()
	c.Set(v)
	visit(tc.eff, c, 0)
	for i, lf := range leaves {
		if i >= 3 {
			break
		}
		lf.SetBool(!lf.Bool())
		b2, cls, _ := doEncode(tc.sh, c, false)
		lf.SetBool(!lf.Bool())
		if cls != "" || len(b2) != len(b) {
			continue
		}
		pos := -1
		for j := range b {
			if b[j] != b2[j] {
				if pos >= 0 {
					pos = -2
					break
				}
				pos = j
			}
		}
		if pos >= 0 && b[pos] <= 1 && b2[pos] <= 1 {
			m := append([]byte{}, b...)
			m[pos] = vx.Pick(ru.r, []byte{2, 3, 0x80, 0xff})
			out = append(out, m)
		}
	}
	return out
}

// ---------- C03: layout + canonical validated decoding ----------

func (ru *run) c03(tc *tcase, nvals int) {
	r := ru.r
	seen := map[string]bool{}
	tryInput := func(in []byte, src string) {
		k := string(in)
		if seen[k] || len(seen) > 60 {
			return
		}
		seen[k] = true
		d := doDecode(tc.sh, tc.eff.T, in, true, false)
		ru.addDec(tc, true, in, d)
		ru.st.Count("c03in:" + src + ":" + clsName(d.cls))
		if d.cls == "PANIC" {
			ru.fail("decode-panic", tc, "Decode panicked: "+d.msg, map[string]any{"in": hex.EncodeToString(in)})
			return
		}
		if d.cls != "" {
			return
		}
		if d.n > len(in) {
			ru.fail("consumed-more-than-supplied", tc, fmt.Sprintf("consumed %d > %d", d.n, len(in)), map[string]any{"in": hex.EncodeToString(in)})
			return
		}
		// reverse direction: what the validating decoder accepts re-encodes (with validation) to exactly b[:n]
		b2, cls2, msg2 := doEncode(tc.sh, d.ptr.Elem(), true)
		if cls2 == "" && bytes.Equal(b2, in[:d.n]) {
			return
		}
		sig := zsig(tc, "noncanonical-accepted")
		if tc.sh.HasTime && hasSaturatedTime(tc.eff, d.ptr.Elem(), 0) {
			// documented exclusion (guard no_time_saturation): a stamp above MaxInt64 ns was saturated / wrapped by ReadTime
			ru.st.Count("c03:time-saturation-excluded")
			return
		}
		if tc.sh.HasTime && cls2 == "" {
			// documented exclusion: stamps above MaxInt64 ns saturate; only counted when a re-decode of the re-encoding is stable
			d3 := doDecode(tc.sh, tc.eff.T, b2, true, false)
			if d3.cls == "" && canonPrint(tc.eff, d3.ptr.Elem()) == canonPrint(tc.eff, d.ptr.Elem()) && timeSaturated(tc.eff, in[:d.n], b2) {
				ru.st.Count("c03:time-saturation-excluded")
				return
			}
		}
		ru.fail(sig, tc, "validating Decode accepted bytes that do not re-encode to themselves: "+clsOr(cls2, b2)+" "+msg2,
			map[string]any{"in": hex.EncodeToString(in), "n": d.n, "decoded": clip(toCoq(tc.eff, d.ptr.Elem()))})
	}
	for k := 0; k < nvals; k++ {
		vg := &VGen{r: r.Fork(), sh: tc.sh, honor: r.Chance(2, 3)}
		v := vg.gen(tc.eff)
		vterm := toCoq(tc.eff, v)
		// forward: layout of the validated and the unvalidated encoding
		b, cls, msg := doEncode(tc.sh, v, true)
		ru.addEnc(tc, true, vterm, b, cls)
		if cls == "PANIC" {
			ru.fail("encode-panic", tc, "Encode panicked: "+msg, map[string]any{"value": clip(vterm)})
		}
		bn, clsn, _ := doEncode(tc.sh, v, false)
		if cls == "" {
			tryInput(b, "valid")
			for _, m := range ru.boolMutations(tc, v, b) {
				tryInput(m, "bool")
			}
			for _, m := range ru.structural(tc, v, b) {
				tryInput(m, "struct")
			}
			ms := mutations(r, b, false)
			for _, m := range ms {
				tryInput(m, "mut")
			}
		} else if clsn == "" {
			// a rule-violating value encoded without validation: the validating decoder must not accept it silently
			ru.addEnc(tc, false, vterm, bn, clsn)
			tryInput(bn, "violating")
			for _, m := range ru.structural(tc, v, bn) {
				tryInput(m, "struct")
			}
		}
	}
	for i := 0; i < 4; i++ {
		tryInput(randomShort(r, 12), "random")
	}
}

// timeSaturated: the two byte strings differ only inside 8-byte windows whose original value exceeds MaxInt64.
func timeSaturated(n *Node, a, b []byte) bool {
	if len(a) != len(b) {
		return false
	}
	for i := 0; i < len(a); i++ {
		if a[i] != b[i] {
			// some window of 8 bytes containing i must have its top bit set in a
			ok := false
			for s := i - 7; s <= i; s++ {
				if s >= 0 && s+8 <= len(a) && a[s+7]&0x80 != 0 {
					ok = true
				}
			}
			if !ok {
				return false
			}
		}
	}
	return true
}

// ---------- C02: hostile input ----------

func (ru *run) c02(tc *tcase, nvals int, known *[]string) {
	r := ru.r
	seen := map[string]bool{}
	tryInput := func(in []byte, src string) {
		k := string(in)
		if seen[k] || len(seen) > 70 {
			return
		}
		seen[k] = true
		for _, val := range []bool{false, true} {
			d := doDecode(tc.sh, tc.eff.T, in, val, true)
			ru.st.Count("c02in:" + src)
			switch {
			case d.cls == "PANIC":
				ru.addDec(tc, val, in, d)
				ru.fail("decode-panic", tc, "Decode panicked: "+d.msg, map[string]any{"in": hex.EncodeToString(in), "val": val})
				continue
			case d.cls == "" && d.n > len(in):
				ru.fail("consumed-more-than-supplied", tc, fmt.Sprintf("consumed %d > %d supplied", d.n, len(in)), map[string]any{"in": hex.EncodeToString(in), "val": val})
			}
			// unbounded iteration: a decoded collection longer than the whole input (only zero-size elements can do that)
			if d.cls == "" && maxLen(tc.eff, d.ptr.Elem(), 0) > len(in)+1 {
				ru.st.Count("c02:iterations-exceed-input")
				if !tc.sh.HasZero {
					ru.fail("iterations-exceed-input", tc, "decoded collection longer than the input", map[string]any{"in": hex.EncodeToString(in), "val": val})
				} else {
					addKnown(known, "D02d-zero-size-element-iterations")
				}
				// the model reports EUnbounded here
				d.cls = "EUnbounded"
			}
			ru.addDec(tc, val, in, d)
			limit := uint64(64*1024 + 64*len(in))
			if d.alloc > limit && tc.sh.HasZero {
				// the per-iteration allocations of a zero-size-element loop driven by the count alone: finding D02d
				addKnown(known, "D02d-zero-size-element-iterations")
				ru.st.Count("c02:alloc-zero-size-loop")
			} else if d.alloc > limit {
				// re-measure once (GC / runtime noise)
				d2 := doDecode(tc.sh, tc.eff.T, in, val, true)
				if d2.alloc > limit {
					ru.fail("allocation-not-bounded-by-input", tc, fmt.Sprintf("Decode allocated %d bytes for %d input bytes", d2.alloc, len(in)), map[string]any{"in": hex.EncodeToString(in), "val": val})
				}
			}
			if d.dur > 2*time.Second {
				ru.fail(zsig(tc, "decode-too-slow"), tc, fmt.Sprintf("Decode took %v for %d input bytes", d.dur, len(in)), map[string]any{"in": hex.EncodeToString(in), "val": val})
			}
		}
	}
	for k := 0; k < nvals; k++ {
		vg := &VGen{r: r.Fork(), sh: tc.sh, honor: true}
		v := vg.gen(tc.eff)
		b, cls, _ := doEncode(tc.sh, v, false)
		if cls != "" {
			continue
		}
		tryInput(b, "valid")
		for _, m := range mutations(r, b, true) {
			tryInput(m, "mut")
		}
		for _, m := range ru.structural(tc, v, b) {
			tryInput(m, "struct")
		}
	}
	for i := 0; i < 10; i++ {
		tryInput(randomShort(r, 16), "random")
	}
	tryInput(nil, "empty")
}

func addKnown(known *[]string, sig string) {
	for _, k := range *known {
		if k == sig {
			return
		}
	}
	*known = append(*known, sig)
}

// ---------- directed regression cases ----------

// directed builds the fixed shapes of the defect rows and runs them first.
func (ru *run) directed(known *[]string) {
	// the shapes are produced by the same generator machinery from hand-made nodes
	u16 := &Node{K: KInt, T: intTypes["u2"], W: 2}
	u8 := &Node{K: KInt, T: intTypes["u1"], W: 1}
	mk := func(root *Node, rootTS TS, reg func(sh *Shape)) *tcase {
		sh := &Shape{Reg: map[reflect.Type]*TS{}, Ifaces: map[reflect.Type]*ifaceInfo{}, Feat: map[string]bool{}, RootTS: rootTS, Root: root}
		if reg != nil {
			reg(sh)
		}
		if err := sh.register(); err != nil {
			vx.Die("directed registration: %v", err)
		}
		eff := sh.effective(root, rootTS, 0)
		i := len(ru.defs)
		tc := &tcase{sh: sh, eff: eff, name: fmt.Sprintf("D%d", i), idx: -1 - i, sch: eff.coq()}
		ru.defs = append(ru.defs, fmt.Sprintf("Definition %s : schema := %s.", tc.name, tc.sch))
		eff.walk(func(n *Node) {
			if (n.K == KSlice || n.K == KArr) && n.Elem.minSize() == 0 {
				sh.HasZero = true
			}
		}, 0)
		return tc
	}
	// D01a: [3]uint16
	arr := &Node{K: KArr, N: 3, Elem: u16, T: reflect.ArrayOf(3, u16.T)}
	tcA := mk(arr, TS{L: ip(0)}, nil)
	va := reflect.New(arr.T).Elem()
	for i := 0; i < 3; i++ {
		va.Index(i).SetUint(uint64(i + 1))
	}
	ru.roundtripDirected(tcA, va, "D01a")
	for _, in := range [][]byte{{2, 1, 0, 2, 0}, {4, 1, 0, 2, 0, 3, 0, 4, 0}, {3, 1, 0}, {0}} {
		for _, val := range []bool{false, true} {
			ru.addDec(tcA, val, in, doDecode(tcA.sh, arr.T, in, val, false))
		}
	}
	// D01b: []byte and []uint16 with a uint64 length prefix
	bs := &Node{K: KBytes, T: bytesType}
	tcB := mk(bs, TS{L: ip(3)}, nil)
	vb := reflect.New(bs.T).Elem()
	vb.SetBytes([]byte{1, 2})
	ru.roundtripDirected(tcB, vb, "D01b")
	for _, in := range [][]byte{{0xff, 0xff, 0xff, 0xff, 0xff, 0xff, 0xff, 0xff}, {0xff, 0xff, 0xff, 0xff, 0xff, 0xff, 0xff, 0x7f, 1}, {2, 0, 0, 0, 0, 0, 0}, {0, 0, 0, 0, 0, 0, 0, 0x80}} {
		for _, val := range []bool{false, true} {
			ru.addDec(tcB, val, in, doDecode(tcB.sh, bs.T, in, val, true))
		}
	}
	sl := &Node{K: KSlice, Elem: u16, T: reflect.SliceOf(u16.T)}
	tcB2 := mk(sl, TS{L: ip(3)}, nil)
	vs := reflect.MakeSlice(sl.T, 2, 2)
	vs.Index(0).SetUint(513)
	vs2 := reflect.New(sl.T).Elem()
	vs2.Set(vs)
	ru.roundtripDirected(tcB2, vs2, "D01b")
	for _, in := range [][]byte{{0xff, 0xff, 0xff, 0xff, 0xff, 0xff, 0xff, 0x7f, 1, 2}, {0xff, 0xff, 0xff, 0xff, 0xff, 0xff, 0xff, 0xff}} {
		for _, val := range []bool{false, true} {
			ru.addDec(tcB2, val, in, doDecode(tcB2.sh, sl.T, in, val, true))
		}
	}
	// D01d: struct { *struct{X uint8}; Y uint8 } with the embedded pointer nil
	inner := &Node{K: KStruct, Fields: []Field{{K: FPlain, N: u8}}}
	inner.T = reflect.StructOf([]reflect.StructField{{Name: "X", Type: u8.T, Tag: `serix:"dx"`}})
	ip_ := &Node{K: KPtr, Elem: inner, T: reflect.PointerTo(inner.T)}
	outer := &Node{K: KStruct, Fields: []Field{{K: FEmbPtr, N: ip_}, {K: FPlain, N: u8}}}
	outer.T = reflect.StructOf([]reflect.StructField{{Name: "Inner", Type: ip_.T, Anonymous: true, Tag: `serix:""`}, {Name: "Y", Type: u8.T, Tag: `serix:"dy"`}})
	tcD := mk(outer, TS{}, nil)
	vo := reflect.New(outer.T).Elem()
	vo.Field(1).SetUint(7)
	for _, val := range []bool{false, true} {
		b, cls, _ := doEncode(tcD.sh, vo, val)
		ru.addEnc(tcD, val, toCoq(tcD.eff, vo), b, cls)
		if cls == "" {
			d := doDecode(tcD.sh, outer.T, b, val, false)
			if d.cls != "" {
				ru.fail("D01d-nil-embedded-pointer", tcD, "Encode accepts a nil embedded pointer but Decode rejects the bytes", map[string]any{"bytes": hex.EncodeToString(b)})
			}
		}
	}
	vo.Field(0).Set(reflect.New(inner.T))
	ru.roundtripDirected(tcD, vo, "D01d")
	// array rules: lexical order / no duplicates / both (the "lexical+nodup collapses to one validator" path), with
	// duplicated, swapped and valid element sequences; decoded with validation and re-encoded
	for _, ru0 := range []ARules{{NoDup: true, Lex: true}, {NoDup: true}, {Lex: true}, {Lex: true, Max: 2}, {NoDup: true, Lex: true, Min: 2}} {
		ru1 := ru0
		sl := &Node{K: KSlice, Elem: u16, T: reflect.SliceOf(u16.T)}
		tcR := mk(sl, TS{L: ip(0), Rules: &ru1, LexOrd: bp(ru1.Lex && ru1.Max == 0)}, nil)
		for _, in := range [][]byte{{2, 5, 0, 5, 0}, {2, 6, 0, 5, 0}, {2, 5, 0, 6, 0}, {3, 1, 0, 2, 0, 2, 0}, {1, 9, 9}, {0}, {3, 0, 1, 0, 1, 1, 0}} {
			d := doDecode(tcR.sh, sl.T, in, true, false)
			ru.addDec(tcR, true, in, d)
			if d.cls == "" {
				b2, cls2, _ := doEncode(tcR.sh, d.ptr.Elem(), true)
				ru.addEnc(tcR, true, toCoq(tcR.eff, d.ptr.Elem()), b2, cls2)
				if cls2 != "" || !bytes.Equal(b2, in[:d.n]) {
					ru.fail("noncanonical-accepted", tcR, "directed array-rule case: validating Decode accepted bytes that do not re-encode to themselves", map[string]any{"in": hex.EncodeToString(in), "reencoded": clsOr(cls2, b2)})
				}
			}
			ru.addDec(tcR, false, in, doDecode(tcR.sh, sl.T, in, false, false))
		}
	}
	// bounds matrix: minLen=2 / maxLen=3 on []byte, string, []uint16 and map[uint8]bool; lengths 1..4 (min-1, min, max,
	// max+1); Encode with and without validation, each produced byte string decoded with and without validation. The
	// encoder checks the bounds of strings and collections only under validation but those of []byte always, the decoder
	// likewise: a value one side accepts in a mode must pass the other side in the same mode (round-trip oracle)
	{
		u8n := &Node{K: KInt, T: intTypes["u1"], W: 1}
		bl := &Node{K: KBool, T: reflect.TypeOf(false)}
		kinds := []*Node{
			{K: KBytes, T: bytesType}, {K: KString, T: stringType},
			{K: KSlice, Elem: u16, T: reflect.SliceOf(u16.T)},
			{K: KMap, Key: u8n, Elem: bl, T: reflect.MapOf(u8n.T, bl.T)},
		}
		for _, bounds := range []ARules{{Min: 2, Max: 3}, {Min: 2}, {Max: 3}} {
			for _, kn := range kinds {
				b0 := bounds
				node := *kn
				tcB := mk(&node, TS{L: ip(0), Rules: &b0}, nil)
				for l := 1; l <= 4; l++ {
					v := reflect.New(node.T).Elem()
					switch node.K {
					case KBytes:
						v.SetBytes(bytes.Repeat([]byte{7}, l))
					case KString:
						v.SetString(strings.Repeat("a", l))
					case KSlice:
						s := reflect.MakeSlice(node.T, l, l)
						for i := 0; i < l; i++ {
							s.Index(i).SetUint(uint64(i + 1))
						}
						v.Set(s)
					case KMap:
						m := reflect.MakeMap(node.T)
						for i := 0; i < l; i++ {
							m.SetMapIndex(reflect.ValueOf(uint8(i+1)), reflect.ValueOf(i%2 == 0))
						}
						v.Set(m)
					}
					vterm := toCoq(tcB.eff, v)
					for _, val := range []bool{false, true} {
						b, cls, msg := doEncode(tcB.sh, v, val)
						ru.addEnc(tcB, val, vterm, b, cls)
						if cls == "PANIC" {
							ru.fail("encode-panic", tcB, "Encode panicked: "+msg, map[string]any{"value": vterm, "val": val})
						}
						if cls != "" {
							continue
						}
						for _, dval := range []bool{false, true} {
							d := doDecode(tcB.sh, node.T, b, dval, false)
							ru.addDec(tcB, dval, b, d)
							if dval == val && (d.cls != "" || d.n != len(b) || canonPrint(tcB.eff, d.ptr.Elem()) != canonPrint(tcB.eff, v)) {
								ru.fail("bounds-roundtrip-decode-fails", tcB, "Decode rejects (or changes) what Encode produced in the same validation mode: "+d.cls+" "+d.msg,
									map[string]any{"value": vterm, "val": val, "bytes": hex.EncodeToString(b), "bounds": fmt.Sprintf("%+v", b0)})
							}
						}
					}
				}
			}
		}
	}
	// collections whose element or key type is a registered INTERFACE: map[uint8]any, map[any]uint8, []any, [2]any; the
	// decoder resolves the type settings of the freshly created nil element / key before decoding it. Valid, truncated,
	// unknown-code and duplicate-key inputs with >= 1 entry, both modes; oracle: no panic, accepted => canonical.
	{
		u8n := &Node{K: KInt, T: intTypes["u1"], W: 1}
		st := &Node{K: KStruct, Fields: []Field{{K: FPlain, N: u8n}}}
		st.T = reflect.StructOf([]reflect.StructField{{Name: "X", Type: u8n.T, Tag: `serix:"x"`}})
		mkI := func() *Node {
			return &Node{K: KIface, T: anyType, Iface: &ifaceInfo{T: anyType, Alts: []Alt{{Code: 1, N: st}}}}
		}
		regI := func(root *Node) func(sh *Shape) {
			return func(sh *Shape) {
				sh.Reg[st.T] = &TS{Code: &TyCode{C: 1}}
				sh.RegOrd = append(sh.RegOrd, st.T)
				var inf *ifaceInfo
				root.walk(func(n *Node) {
					if n.K == KIface {
						inf = n.Iface
					}
				}, 0)
				sh.Ifaces[anyType] = inf
				sh.IfOrd = append(sh.IfOrd, anyType)
			}
		}
		type ic struct {
			n   *Node
			ins [][]byte
		}
		ie, ik, is, ia := mkI(), mkI(), mkI(), mkI()
		for _, c := range []ic{
			{&Node{K: KMap, Key: u8n, Elem: ie, T: reflect.MapOf(u8n.T, anyType)}, [][]byte{{1, 5, 1, 9}, {2, 5, 1, 9, 6, 1, 7}, {1, 5}, {1}, {1, 5, 7, 0}, {2, 5, 1, 9, 5, 1, 9}, {2, 6, 1, 9, 5, 1, 9}, {0}}},
			{&Node{K: KMap, Key: ik, Elem: u8n, T: reflect.MapOf(anyType, u8n.T)}, [][]byte{{1, 1, 9, 5}, {2, 1, 8, 5, 1, 9, 6}, {1, 1}, {1}, {1, 7, 0, 0}, {2, 1, 9, 5, 1, 9, 6}, {0}}},
			{&Node{K: KSlice, Elem: is, T: reflect.SliceOf(anyType)}, [][]byte{{1, 1, 9}, {2, 1, 9, 1, 8}, {1}, {1, 7, 0}, {0}}},
			{&Node{K: KArr, N: 2, Elem: ia, T: reflect.ArrayOf(2, anyType)}, [][]byte{{2, 1, 9, 1, 8}, {2, 1, 9}, {2}, {1, 1, 9}, {2, 7, 0, 1, 1}}},
		} {
			tcI := mk(c.n, TS{L: ip(0)}, regI(c.n))
			for _, in := range c.ins {
				for _, val := range []bool{false, true} {
					d := doDecode(tcI.sh, c.n.T, in, val, false)
					ru.addDec(tcI, val, in, d)
					if d.cls == "PANIC" {
						ru.fail("decode-panic", tcI, "Decode panicked: "+d.msg, map[string]any{"in": hex.EncodeToString(in), "val": val})
					}
					if d.cls != "" {
						continue
					}
					b2, cls2, _ := doEncode(tcI.sh, d.ptr.Elem(), val)
					ru.addEnc(tcI, val, toCoq(tcI.eff, d.ptr.Elem()), b2, cls2)
					if val && (cls2 != "" || !bytes.Equal(b2, in[:d.n])) {
						ru.fail("noncanonical-accepted", tcI, "interface-typed element/key: validating Decode accepted bytes that do not re-encode to themselves", map[string]any{"in": hex.EncodeToString(in), "reencoded": clsOr(cls2, b2)})
					}
				}
			}
		}
	}
	// length-prefix limits: element counts 2^w-1, 2^w, 2^w+1 under a uint8 / uint16 prefix for []byte, string, []bool and
	// map[uint16]bool. The count must be written as is or the encoder must fail - never modulo 2^w. uint8 cases go to the
	// model as usual; the uint16 cases are emitted in compact form (repeat) where the payload is uniform, []bool and maps with
	// >= 65535 entries are judged by the Go-side oracle only (the model's sequence loop and insertion sort are quadratic).
	{
		bl := &Node{K: KBool, T: reflect.TypeOf(false)}
		mkVal := func(n *Node, cnt int) reflect.Value {
			v := reflect.New(n.T).Elem()
			switch n.K {
			case KBytes:
				v.SetBytes(bytes.Repeat([]byte{7}, cnt))
			case KString:
				v.SetString(strings.Repeat("a", cnt))
			case KSlice:
				s := reflect.MakeSlice(n.T, cnt, cnt)
				for i := 0; i < cnt; i++ {
					s.Index(i).SetBool(true)
				}
				v.Set(s)
			case KMap:
				m := reflect.MakeMapWithSize(n.T, cnt)
				for i := 0; i < cnt; i++ {
					m.SetMapIndex(reflect.ValueOf(uint16(i)), reflect.ValueOf(false))
				}
				v.Set(m)
			}
			return v
		}
		count := func(n *Node, v reflect.Value) int { return v.Len() }
		for _, w := range []int{0, 1} {
			lim := []int{256, 65536}[w]
			kinds := []*Node{{K: KBytes, T: bytesType}, {K: KString, T: stringType}, {K: KSlice, Elem: bl, T: reflect.SliceOf(bl.T)},
				{K: KMap, Key: u16, Elem: bl, T: reflect.MapOf(u16.T, bl.T)}}
			for _, kn := range kinds {
				node := *kn
				tcL := mk(&node, TS{L: ip(w)}, nil)
				for _, cnt := range []int{lim - 1, lim, lim + 1} {
					v := mkVal(&node, cnt)
					for _, val := range []bool{false, true} {
						b, cls, msg := doEncode(tcL.sh, v, val)
						ru.st.Count(fmt.Sprintf("prefix-limit:w%d:%s:%d:%s", 8<<w, kindNames[node.K], cnt-lim, clsName(cls)))
						// Go-side oracle (independent of the model): Encode fails, or the prefix is the count and the value comes back
						if cls == "PANIC" {
							ru.fail("encode-panic", tcL, "Encode panicked: "+msg, map[string]any{"count": cnt, "val": val})
						} else if cls == "" {
							pre := 0
							for i := w; i >= 0 && i < len(b); i-- {
								pre = pre<<8 | int(b[i])
							}
							d := doDecode(tcL.sh, node.T, b, val, false)
							if len(b) < w+1 || pre != cnt || d.cls != "" || d.n != len(b) || count(&node, d.ptr.Elem()) != cnt {
								ru.fail("prefix-limit-wrong-count", tcL, fmt.Sprintf("Encode of %d elements under a uint%d prefix wrote the count %d; Decode: %s n=%d of %d", cnt, 8<<w, pre, clsName(d.cls), d.n, len(b)), map[string]any{"count": cnt, "val": val, "head": hex.EncodeToString(b[:minInt(len(b), 8)])})
							}
						}
						// model: small cases as usual; large uniform ones in compact form; large maps not at all
						switch {
						case w == 0:
							ru.addEnc(tcL, val, toCoq(tcL.eff, v), b, cls)
							if cls == "" {
								ru.addDec(tcL, val, b, doDecode(tcL.sh, node.T, b, val, false))
							}
						case node.K == KBytes || node.K == KString: // linear in the model; the []bool decode loop is quadratic there
							elem := map[Kind]string{KBytes: "7", KString: "97", KSlice: "1"}[node.K]
							vt := fmt.Sprintf("(VBytes (repeat %s (N.to_nat %d)))", elem, cnt)
							if node.K == KSlice {
								vt = fmt.Sprintf("(VL (repeat (VBool true) (N.to_nat %d)))", cnt)
							}
							wire := fmt.Sprintf("([%d; %d] ++ repeat %s (N.to_nat %d))", cnt&255, (cnt>>8)&255, elem, cnt)
							obs := "(OEErr " + cls + ")"
							if cls == "" {
								obs = "(OEOk " + wire + ")"
								if len(b) != cnt+2 || b[0] != byte(cnt) || b[1] != byte(cnt>>8) || bytes.Count(b[2:], b[2:3]) != cnt {
									obs = "(OEOk " + vx.Bytes(b) + ")" // not of the expected uniform form: print it in full
								}
							} else if cls == "PANIC" {
								obs = "OEPanic"
							}
							ru.addRaw(fmt.Sprintf("CEnc %s %s %s %s", vx.Bool(val), tcL.name, vt, obs), tcL, "enc-compact", fmt.Sprintf("%s#%d#%v", tcL.sch, cnt, val))
							if cls == "" && strings.HasPrefix(obs, "(OEOk ([") {
								d := doDecode(tcL.sh, node.T, b, val, false)
								od := "(ODErr " + d.cls + ")"
								if d.cls == "" && d.n == len(b) && count(&node, d.ptr.Elem()) == cnt {
									od = fmt.Sprintf("(ODOk %s %d)", vt, d.n)
								} else if d.cls == "" {
									od = fmt.Sprintf("(ODOk %s %d)", toCoq(tcL.eff, d.ptr.Elem()), d.n)
								}
								ru.addRaw(fmt.Sprintf("CDec %s %s %s %s", vx.Bool(val), tcL.name, wire, od), tcL, "dec-compact", fmt.Sprintf("%s#%d#%v#d", tcL.sch, cnt, val))
							}
						}
					}
				}
			}
		}
	}
	// custom codecs with and without a registered syntactic validator, with and without an object code: payloads the
	// validator accepts and rejects, through Encode and Decode in both modes; oracle (C03's own): what the validating
	// decoder accepts re-encodes with validation to the same bytes (and therefore passes the validator)
	for _, zt := range zooTypes {
		for _, coded := range []bool{false, true} {
			for _, pred := range []string{"pred_lt2", "pred_even_len", "pred_first_nonzero"} {
				if (zt == tZooFix || zt == tZooLP) && pred != "pred_lt2" {
					continue // unvalidated types: one round
				}
				if zt == tZooLPV && pred == "pred_lt2" {
					pred = "pred_sum_even"
				}
				cn := &Node{K: KCustom, T: zt}
				tcC := mk(cn, TS{}, func(sh *Shape) {
					if zt == tZooFixV || zt == tZooLPV {
						sh.Pred = map[reflect.Type]string{zt: pred}
					}
					if coded {
						sh.Reg[zt] = &TS{Code: &TyCode{C: 9}}
						sh.RegOrd = append(sh.RegOrd, zt)
					}
				})
				pre := []byte{}
				if coded {
					pre = []byte{9}
				}
				var ins [][]byte
				if zt == tZooFix || zt == tZooFixV {
					ins = [][]byte{{2, 5}, {5, 2}, {0, 0}, {1, 0, 7}, {3}, {}}
				} else {
					ins = [][]byte{{2, 7, 7, 1}, {1, 7}, {0}, {3, 0, 1, 2}, {3, 7}, {2, 0, 0}, {}}
				}
				for _, in0 := range ins {
					in := append(append([]byte{}, pre...), in0...)
					for _, val := range []bool{true, false} {
						d := doDecode(tcC.sh, zt, in, val, false)
						ru.addDec(tcC, val, in, d)
						if d.cls != "" {
							continue
						}
						for _, eval := range []bool{true, false} {
							b2, cls2, _ := doEncode(tcC.sh, d.ptr.Elem(), eval)
							ru.addEnc(tcC, eval, toCoq(tcC.eff, d.ptr.Elem()), b2, cls2)
							if val && eval && (cls2 != "" || !bytes.Equal(b2, in[:d.n])) {
								ru.fail("noncanonical-accepted", tcC, "custom codec: validating Decode accepted bytes that do not re-encode (with validation) to themselves", map[string]any{"in": hex.EncodeToString(in), "reencoded": clsOr(cls2, b2), "validator": pred})
							}
						}
					}
				}
				if coded { // wrong code
					ru.addDec(tcC, true, []byte{8, 2, 5}, doDecode(tcC.sh, zt, []byte{8, 2, 5}, true, false))
				}
			}
		}
	}
	// shared settings objects and call histories on ONE API: one *ArrayRules shared by a slice type, a map type and an
	// auto-sorted slice type; the answer to a call must not depend on the calls made before it (the model is a pure
	// function of schema, mode and input). Oracle (C03's own): bytes the validating decoder accepted re-encode to
	// themselves - also after other types were processed - and are accepted again.
	for _, shared0 := range []ARules{{Max: 4}, {Min: 1, NoDup: true}, {Min: 1, Max: 5, Lex: true}} {
		shared := shared0
		u32 := &Node{K: KInt, T: intTypes["u4"], W: 4}
		u8n := &Node{K: KInt, T: intTypes["u1"], W: 1}
		bl := &Node{K: KBool, T: reflect.TypeOf(false)}
		slN := &Node{K: KSlice, Elem: u16, T: reflect.SliceOf(u16.T)}
		mpN := &Node{K: KMap, Key: u8n, Elem: bl, T: reflect.MapOf(u8n.T, bl.T)}
		s2N := &Node{K: KSlice, Elem: u32, T: reflect.SliceOf(u32.T)}
		sh := &Shape{Reg: map[reflect.Type]*TS{}, Ifaces: map[reflect.Type]*ifaceInfo{}, Feat: map[string]bool{}}
		for _, e := range []struct {
			n  *Node
			ts *TS
		}{{slN, &TS{L: ip(0), Rules: &shared}}, {mpN, &TS{L: ip(0), Rules: &shared}}, {s2N, &TS{L: ip(0), Rules: &shared, LexOrd: bp(true)}}} {
			sh.Reg[e.n.T] = e.ts
			sh.RegOrd = append(sh.RegOrd, e.n.T)
		}
		if err := sh.register(); err != nil {
			vx.Die("directed registration (shared rules): %v", err)
		}
		on := func(n *Node) *tcase {
			eff := sh.effective(n, TS{}, 0)
			i := len(ru.defs)
			tc := &tcase{sh: sh, eff: eff, name: fmt.Sprintf("D%d", i), idx: -1 - i, sch: eff.coq()}
			ru.defs = append(ru.defs, fmt.Sprintf("Definition %s : schema := %s.", tc.name, tc.sch))
			return tc
		}
		tcS, tcM, tcS2 := on(slN), on(mpN), on(s2N)
		// one step: validating decode, then validating re-encode of the decoded value
		accepted := map[string]bool{}
		decStep := func(tc *tcase, t reflect.Type, in []byte, when string) {
			d := doDecode(sh, t, in, true, false)
			ru.addDec(tc, true, in, d)
			key := tc.name + hex.EncodeToString(in)
			if d.cls == "" {
				b2, cls2, _ := doEncode(sh, d.ptr.Elem(), true)
				ru.addEnc(tc, true, toCoq(tc.eff, d.ptr.Elem()), b2, cls2)
				if cls2 != "" || !bytes.Equal(b2, in[:d.n]) {
					ru.fail("history-noncanonical-accepted", tc, "validating Decode accepted bytes that do not re-encode to themselves ("+when+")", map[string]any{"in": hex.EncodeToString(in), "reencoded": clsOr(cls2, b2), "shared_rules": fmt.Sprintf("%+v", shared)})
				}
				accepted[key] = true
			} else if accepted[key] {
				ru.fail("history-dependent-decode", tc, "bytes accepted by an earlier validating Decode are rejected now ("+when+"): "+d.cls+" "+d.msg, map[string]any{"in": hex.EncodeToString(in), "shared_rules": fmt.Sprintf("%+v", shared)})
			}
		}
		slIns := [][]byte{{2, 2, 0, 1, 0}, {2, 1, 0, 2, 0}, {2, 1, 0, 1, 0}, {1, 7, 0}, {0}}
		mpIns := [][]byte{{2, 1, 1, 2, 0}, {1, 5, 1}, {0}}
		s2Ins := [][]byte{{2, 1, 0, 0, 0, 2, 0, 0, 0}, {2, 2, 0, 0, 0, 1, 0, 0, 0}}
		for round := 0; round < 2; round++ {
			when := []string{"before any map / sorted-slice call", "after map and sorted-slice calls"}[round]
			for _, in := range slIns {
				decStep(tcS, slN.T, in, when)
			}
			if round == 1 {
				break
			}
			for _, in := range mpIns {
				decStep(tcM, mpN.T, in, "map")
			}
			mv := reflect.MakeMap(mpN.T)
			mv.SetMapIndex(reflect.ValueOf(uint8(2)), reflect.ValueOf(true))
			mv.SetMapIndex(reflect.ValueOf(uint8(1)), reflect.ValueOf(false))
			mvp := reflect.New(mpN.T).Elem()
			mvp.Set(mv)
			for _, val := range []bool{false, true} {
				b, cls, _ := doEncode(sh, mvp, val)
				ru.addEnc(tcM, val, toCoq(tcM.eff, mvp), b, cls)
			}
			for _, in := range s2Ins {
				decStep(tcS2, s2N.T, in, "sorted slice")
			}
		}
		// the unvalidated paths afterwards as well
		for _, in := range slIns {
			ru.addDec(tcS, false, in, doDecode(sh, slN.T, in, false, false))
		}
	}
	// D02d: []struct{} with an inflated count (uint16 prefix keeps it fast)
	es := &Node{K: KStruct, T: reflect.StructOf(nil)}
	zs := &Node{K: KSlice, Elem: es, T: reflect.SliceOf(es.T)}
	tcZ := mk(zs, TS{L: ip(1)}, nil)
	for _, in := range [][]byte{{0xff, 0xff}, {2, 0}, {3, 0, 9}, {0x10, 0x27}} {
		for _, val := range []bool{false, true} {
			d := doDecode(tcZ.sh, zs.T, in, val, true)
			if d.cls == "" && d.ptr.Elem().Len() > len(in)+1 {
				if ru.mode == "c02" {
					addKnown(known, "D02d-zero-size-element-iterations")
				}
				d.cls = "EUnbounded"
			}
			ru.addDec(tcZ, val, in, d)
		}
	}
	// fixed a52b77b (was finding zero-size-element-roundtrip-decode-fails): []struct{} / [2]struct{} under lexical order +
	// no duplicates: validated Encode of [{} {}] must be rejected like validated Decode of its bytes 02 is (the validator
	// took the nil encoding of an empty element for "no previous element"); without validation it round-trips
	for _, mkSeq := range []func() *Node{
		func() *Node { return &Node{K: KSlice, Elem: es, T: reflect.SliceOf(es.T)} },
		func() *Node { return &Node{K: KArr, N: 2, Elem: es, T: reflect.ArrayOf(2, es.T)} },
	} {
		for _, rz0 := range []ARules{{NoDup: true, Lex: true}, {NoDup: true}, {Lex: true}} {
			rz := rz0
			zq := mkSeq()
			tcQ := mk(zq, TS{L: ip(0), Rules: &rz}, nil)
			vq := reflect.New(zq.T).Elem()
			if zq.K == KSlice {
				vq.Set(reflect.MakeSlice(zq.T, 2, 2))
			}
			for _, val := range []bool{true, false} {
				b, cls, msg := doEncode(tcQ.sh, vq, val)
				ru.addEnc(tcQ, val, toCoq(tcQ.eff, vq), b, cls)
				if cls == "PANIC" {
					ru.fail("encode-panic", tcQ, "Encode panicked: "+msg, map[string]any{"val": val})
				}
				if cls != "" {
					continue
				}
				d := doDecode(tcQ.sh, zq.T, b, val, false)
				ru.addDec(tcQ, val, b, d)
				if d.cls != "" || d.n != len(b) || d.ptr.Elem().Len() != 2 {
					ru.fail("zero-size-duplicates-encode-accepted", tcQ, "Encode accepts two equal zero-size elements but Decode rejects the produced bytes: "+d.cls+" "+d.msg, map[string]any{"val": val, "bytes": hex.EncodeToString(b), "rules": fmt.Sprintf("%+v", rz)})
				}
			}
			ru.addDec(tcQ, true, []byte{2}, doDecode(tcQ.sh, zq.T, []byte{2}, true, false))
		}
	}
	// finding zero-size-element-roundtrip-value: struct{ F *struct{} `optional` } with F present is written as marker 0
	// and comes back as nil (the format cannot tell a present empty value from an absent one)
	pes := &Node{K: KPtr, Elem: es, T: reflect.PointerTo(es.T)}
	osn := &Node{K: KStruct, Fields: []Field{{K: FOpt, N: pes}}}
	osn.T = reflect.StructOf([]reflect.StructField{{Name: "F", Type: pes.T, Tag: `serix:"zf,optional"`}})
	tcO := mk(osn, TS{}, nil)
	tcO.sh.HasZero = true
	vz := reflect.New(osn.T).Elem()
	vz.Field(0).Set(reflect.New(es.T))
	for _, val := range []bool{false, true} {
		b, cls, msg := doEncode(tcO.sh, vz, val)
		ru.addEnc(tcO, val, toCoq(tcO.eff, vz), b, cls)
		if cls != "" {
			ru.fail("directed-optional-zero-size-encode", tcO, "directed case: Encode failed: "+cls+" "+msg, nil)
			continue
		}
		d := doDecode(tcO.sh, osn.T, b, val, false)
		ru.addDec(tcO, val, b, d)
		switch {
		case d.cls != "" || d.n != len(b):
			ru.fail("directed-optional-zero-size-decode", tcO, "directed case: Decode failed: "+d.cls+" "+d.msg, map[string]any{"bytes": hex.EncodeToString(b)})
		case d.ptr.Elem().Field(0).IsNil():
			if ru.mode == "c01" {
				addKnown(known, "zero-size-element-roundtrip-value")
			}
		}
	}
}

func (ru *run) roundtripDirected(tc *tcase, v reflect.Value, name string) {
	vterm := toCoq(tc.eff, v)
	for _, val := range []bool{false, true} {
		b, cls, msg := doEncode(tc.sh, v, val)
		ru.addEnc(tc, val, vterm, b, cls)
		if cls != "" {
			ru.fail(name+"-encode", tc, "directed case: Encode failed: "+cls+" "+msg, map[string]any{"value": vterm})
			continue
		}
		d := doDecode(tc.sh, tc.eff.T, b, val, false)
		ru.addDec(tc, val, b, d)
		if d.cls != "" || d.n != len(b) || canonPrint(tc.eff, d.ptr.Elem()) != canonPrint(tc.eff, v) {
			ru.fail(name+"-roundtrip", tc, "directed case does not round-trip: "+d.cls+" "+d.msg, map[string]any{"value": vterm, "bytes": hex.EncodeToString(b)})
		}
	}
}

func main() {
	if len(os.Args) < 2 {
		vx.Die("usage: hx-c01bin c01|c03|c02 [flags]")
	}
	mode := os.Args[1]
	fs := flag.NewFlagSet(mode, flag.ExitOnError)
	seed := fs.Uint64("seed", 1, "")
	out := fs.String("out", "cases.v", "")
	stats := fs.String("stats", "stats.json", "")
	ntypes := fs.Int("types", 100, "")
	nvals := fs.Int("vals", 3, "")
	depth := fs.Int("depth", 3, "")
	fs.Parse(os.Args[2:])

	salt := map[string]uint64{"c01": 11, "c03": 23, "c02": 37}[mode]
	if salt == 0 {
		vx.Die("unknown mode %s", mode)
	}
	ru := &run{r: vx.NewRng(*seed*64 + salt).Fork().Fork(), mode: mode, seed: *seed} // forked: NewRng streams of nearby seeds overlap
	ru.st = vx.NewStats("distinct (schema, input, validation) triples whose root is a pointer/struct/slice/array/map (schema depth >= 2)")
	ru.cf = &vx.CasesFile{Type: "case"}
	var known []string
	ru.directed(&known)
	if mode == "c01" {
		ru.somHistories(150)
	}
	for i := 0; i < *ntypes; i++ {
		d := *depth
		if i%4 == 0 {
			d = 1
		} else if i%4 == 1 {
			d = 2
		}
		tc := ru.newType(i, d)
		switch mode {
		case "c01":
			ru.c01(tc, *nvals)
		case "c03":
			ru.c03(tc, *nvals)
		case "c02":
			ru.c02(tc, *nvals, &known)
		}
		if i < 3 {
			ru.st.Sample(map[string]any{"gotype": clip(tc.eff.T.String()), "schema": clip(tc.sch)}, 6)
		}
	}
	ru.st.Known = known
	ru.st.Extra["mode"] = mode
	ru.st.Extra["types"] = *ntypes
	ru.cf.Header = "From Coq Require Import List NArith ZArith Bool.\nFrom Verif.C01_Serix Require Import Model Corr.\nImport ListNotations.\nOpen Scope N_scope.\n" +
		strings.Join(ru.defs, "\n") + "\n"
	ru.cf.Footer = "Definition M := Eval vm_compute in mismatches cases.\nPrint M."
	if err := ru.cf.Write(*out); err != nil {
		vx.Die("write cases: %v", err)
	}
	if err := ru.st.Write(*stats); err != nil {
		vx.Die("write stats: %v", err)
	}
	fmt.Printf("%s: %d types, %d cases, %d oracle failures, known=%v\n", mode, *ntypes, ru.cf.Len(), len(ru.st.OracleFailures), known)
}

// hasSaturatedTime: the decoded value holds a time stamp that ReadTime produces for wire stamps above MaxInt64 ns
// (exactly MaxInt64, or a wrapped negative one).
func hasSaturatedTime(n *Node, v reflect.Value, depth int) bool {
	if depth > 16 {
		return false
	}
	switch n.K {
	case KTime:
		t := v.Interface().(time.Time)
		return t.Unix() < 0 || t.UnixNano() == 1<<63-1
	case KPtr:
		return !v.IsNil() && hasSaturatedTime(n.Elem, v.Elem(), depth+1)
	case KStruct:
		for i, f := range n.Fields {
			if hasSaturatedTime(f.N, v.Field(i), depth+1) {
				return true
			}
		}
	case KSlice, KArr:
		for i := 0; i < v.Len(); i++ {
			if hasSaturatedTime(n.Elem, v.Index(i), depth+1) {
				return true
			}
		}
	case KMap:
		it := v.MapRange()
		for it.Next() {
			if hasSaturatedTime(n.Key, it.Key(), depth+1) || hasSaturatedTime(n.Elem, it.Value(), depth+1) {
				return true
			}
		}
	case KIface:
		if !v.IsNil() {
			d := v.Elem()
			for _, a := range n.Iface.Alts {
				if a.N.T == d.Type() {
					return hasSaturatedTime(a.N, d, depth+1)
				}
			}
		}
	}
	return false
}

// multiEntryMap: the printed value contains a map with at least two entries ("(VMap [(k, v); (k, v)" ...)
func multiEntryMap(vterm string) bool {
	for i := 0; i+6 <= len(vterm); i++ {
		if vterm[i:i+6] != "(VMap " {
			continue
		}
		// scan the bracket that follows for a top-level ';'
		depth, j := 0, i+6
		for ; j < len(vterm); j++ {
			switch vterm[j] {
			case '[', '(':
				depth++
			case ']', ')':
				depth--
			case ';':
				if depth == 1 {
					return true
				}
			}
			if depth == 0 && j > i+6 {
				break
			}
		}
	}
	return false
}
