package main

import (
	"context"
	"errors"
	"reflect"

	"github.com/iotaledger/hive.go/serializer/v2"
	"github.com/iotaledger/hive.go/serializer/v2/serix"
)

// Hand-written zoo of types with a CUSTOM CODEC (serix.Serializable / serix.Deserializable: serix calls their
// Encode() / Decode(b) instead of walking them), in the two wire formats of the model (Model.v: cfmt):
//   zooFix / zooFixV : a fixed payload of 2 bytes                      (CFix 2)
//   zooLP  / zooLPV  : a payload behind a one-byte length              (CLen8)
// The ...V types get a syntactic validator registered (api.RegisterValidator) whose predicate is chosen per shape
// from zooPreds and printed into the schema, so the model knows it too.

type zooFix [2]byte
type zooFixV [2]byte
type zooLP struct{ P []byte }
type zooLPV struct{ P []byte }

var errZooInvalid = errors.New("zoo validator: value rejected")

func fixDecode(dst *[2]byte, b []byte) (int, error) {
	if len(b) < 2 {
		return 0, serializer.ErrDeserializationNotEnoughData
	}
	copy(dst[:], b[:2])
	return 2, nil
}

func lpEncode(p []byte) ([]byte, error) {
	if len(p) > 255 {
		return nil, errors.New("zoo: payload longer than 255 bytes")
	}
	return append([]byte{byte(len(p))}, p...), nil
}

func lpDecode(dst *[]byte, b []byte) (int, error) {
	if len(b) < 1 || len(b) < 1+int(b[0]) {
		return 0, serializer.ErrDeserializationNotEnoughData
	}
	*dst = append([]byte{}, b[1:1+int(b[0])]...)
	return 1 + int(b[0]), nil
}

func (z zooFix) Encode() ([]byte, error)         { return []byte{z[0], z[1]}, nil }
func (z *zooFix) Decode(b []byte) (int, error)   { return fixDecode((*[2]byte)(z), b) }
func (z zooFixV) Encode() ([]byte, error)        { return []byte{z[0], z[1]}, nil }
func (z *zooFixV) Decode(b []byte) (int, error)  { return fixDecode((*[2]byte)(z), b) }
func (z zooLP) Encode() ([]byte, error)          { return lpEncode(z.P) }
func (z *zooLP) Decode(b []byte) (int, error)    { return lpDecode(&z.P, b) }
func (z zooLPV) Encode() ([]byte, error)         { return lpEncode(z.P) }
func (z *zooLPV) Decode(b []byte) (int, error)   { return lpDecode(&z.P, b) }

var (
	tZooFix, tZooFixV = reflect.TypeOf(zooFix{}), reflect.TypeOf(zooFixV{})
	tZooLP, tZooLPV   = reflect.TypeOf(zooLP{}), reflect.TypeOf(zooLPV{})
	zooTypes          = []reflect.Type{tZooFix, tZooFixV, tZooLP, tZooLPV}
)

// the validator predicates; the names are the Coq definitions in Model.v
var zooPreds = map[string]func(b []byte) bool{
	"pred_lt2":           func(b []byte) bool { return len(b) == 2 && b[0] < b[1] },
	"pred_sum_even":      func(b []byte) bool { s := 0; for _, x := range b { s += int(x) }; return s%2 == 0 },
	"pred_even_len":      func(b []byte) bool { return len(b)%2 == 0 },
	"pred_first_nonzero": func(b []byte) bool { return len(b) == 0 || b[0] != 0 },
}

func zooPayload(v reflect.Value) []byte {
	switch x := v.Interface().(type) {
	case zooFix:
		return []byte{x[0], x[1]}
	case zooFixV:
		return []byte{x[0], x[1]}
	case zooLP:
		return append([]byte{}, x.P...)
	case zooLPV:
		return append([]byte{}, x.P...)
	}
	panic("zoo type")
}

func zooSet(v reflect.Value, p []byte) {
	switch v.Type() {
	case tZooFix, tZooFixV:
		for i := 0; i < 2 && i < len(p); i++ {
			v.Index(i).SetUint(uint64(p[i]))
		}
	default:
		v.Field(0).SetBytes(append([]byte{}, p...))
	}
}

// registerZooValidators registers the syntactic validators of the shape's validated zoo types.
func registerZooValidators(api *serix.API, preds map[reflect.Type]string) error {
	if name := preds[tZooFixV]; name != "" {
		p := zooPreds[name]
		if err := api.RegisterValidator(zooFixV{}, func(_ context.Context, z zooFixV) error {
			if !p([]byte{z[0], z[1]}) {
				return errZooInvalid
			}
			return nil
		}); err != nil {
			return err
		}
	}
	if name := preds[tZooLPV]; name != "" {
		p := zooPreds[name]
		if err := api.RegisterValidator(zooLPV{}, func(_ context.Context, z zooLPV) error {
			if !p(z.P) {
				return errZooInvalid
			}
			return nil
		}); err != nil {
			return err
		}
	}
	return nil
}
