// Random well-typed, boundary-biased values for a generated shape, and the printer of Go values as model values.
package main

import (
	"bytes"
	"context"
	"fmt"
	"math"
	"math/big"
	"reflect"
	"sort"
	"strings"
	"time"

	"verif/harness/vx"
)

type VGen struct {
	r     *vx.Rng
	sh    *Shape
	honor bool // keep to the array rules / bounds (mostly-valid stream); false = free values
	lossy bool // set when a generated value is outside what a round trip preserves (time outside [0, MaxInt64] ns)
	odd   bool // set when a value the encoder must reject was generated (nil pointer, nil big.Int, bad UTF-8, ...)
}

var ctxBg = context.Background()

func (g *VGen) smallInt() uint64 {
	return vx.Pick(g.r, []uint64{0, 1, 2, 3, 0x7f, 0x80, 0xff, 0x100, 0x7fff, 0x8000, 0xffff, 0x7fffffff, 0x80000000, 0xffffffff,
		0x7fffffffffffffff, 0x8000000000000000, 0xffffffffffffffff})
}

func (g *VGen) length(mn, mx uint64, honor bool) int {
	r := g.r
	l := vx.Pick(r, []int{0, 0, 1, 1, 2, 2, 3, 4, 5})
	if (mn != 0 || mx != 0) && r.Chance(1, 2) {
		// at and just beyond the bounds: min-1, min, max, max+1 (which side checks them depends on the validation mode)
		var c []int
		if mn != 0 {
			c = append(c, int(mn)-1, int(mn))
		}
		if mx != 0 {
			c = append(c, int(mx), int(mx)+1)
		}
		l = vx.Pick(r, c)
	}
	if honor {
		if mx != 0 && uint64(l) > mx {
			l = int(mx)
		}
		if mn != 0 && uint64(l) < mn {
			l = int(mn)
		}
		if mx != 0 && uint64(l) > mx { // mn > mx: nothing fits
			l = int(mx)
		}
	}
	return l
}

func (g *VGen) content(l int, str bool) []byte {
	r := g.r
	b := make([]byte, 0, l)
	if str {
		for len(b) < l {
			switch {
			case l-len(b) >= 2 && r.Chance(1, 6):
				b = append(b, []byte("é")...)
			case l-len(b) >= 3 && r.Chance(1, 8):
				b = append(b, []byte("€")...)
			case l-len(b) >= 4 && r.Chance(1, 10):
				b = append(b, []byte("😀")...)
			default:
				b = append(b, "abAB01 z"[r.Intn(8)])
			}
		}
		if l > 0 && r.Chance(1, 14) { // invalid UTF-8
			b[r.Intn(l)] = vx.Pick(r, []byte{0x80, 0xc0, 0xff, 0xed, 0xf5})
			g.odd = true
		}
		return b
	}
	for i := 0; i < l; i++ {
		b = append(b, vx.Pick(r, []byte{0, 1, 2, 0x7f, 0x80, 0xff, byte(r.Intn(256))}))
	}
	return b
}

func (g *VGen) gen(n *Node) reflect.Value {
	r := g.r
	v := reflect.New(n.T).Elem()
	switch n.K {
	case KBool:
		v.SetBool(r.Bool())
	case KInt:
		x := g.smallInt()
		if r.Chance(1, 3) {
			x = r.U64()
		}
		switch {
		case n.Float && n.W == 4:
			v.Set(reflect.ValueOf(math.Float32frombits(uint32(x))))
		case n.Float:
			v.Set(reflect.ValueOf(math.Float64frombits(x)))
		case n.Signed:
			switch n.W {
			case 1:
				v.SetInt(int64(int8(x)))
			case 2:
				v.SetInt(int64(int16(x)))
			case 4:
				v.SetInt(int64(int32(x)))
			default:
				v.SetInt(int64(x))
			}
		default:
			switch n.W {
			case 1:
				v.SetUint(uint64(uint8(x)))
			case 2:
				v.SetUint(uint64(uint16(x)))
			case 4:
				v.SetUint(uint64(uint32(x)))
			default:
				v.SetUint(x)
			}
		}
	case KString, KBytes:
		honor := g.honor || r.Chance(1, 2)
		if n.Mn != 0 || n.Mx != 0 {
			honor = g.honor && r.Chance(2, 3) // bounded strings / byte slices: out-of-bounds lengths in both streams
		}
		l := g.length(n.Mn, n.Mx, honor)
		if r.Chance(1, 40) {
			l = vx.Pick(r, []int{255, 256})
		}
		c := g.content(l, n.K == KString)
		if n.K == KString {
			v.SetString(string(c))
		} else if l > 0 || r.Bool() {
			v.SetBytes(c)
		}
	case KByteArr:
		c := g.content(n.N, false)
		reflect.Copy(v, reflect.ValueOf(c))
	case KCustom:
		// small alphabets so that every validator predicate is hit on both sides; honoured values satisfy it
		pred := zooPreds[n.Pred]
		for try := 0; try < 20; try++ {
			var p []byte
			if n.T == tZooFix || n.T == tZooFixV {
				p = []byte{vx.Pick(r, []byte{0, 1, 2, 5, 255}), vx.Pick(r, []byte{0, 1, 2, 6, 255})}
			} else {
				l := vx.Pick(r, []int{0, 1, 2, 2, 3, 4})
				if !g.honor && r.Chance(1, 30) {
					l = vx.Pick(r, []int{255, 256}) // 256: the type's own Encode refuses
				}
				for i := 0; i < l; i++ {
					p = append(p, vx.Pick(r, []byte{0, 1, 2, 7, 255}))
				}
			}
			zooSet(v, p)
			if pred == nil || pred(p) || !(g.honor || r.Chance(1, 2)) {
				break
			}
		}
	case KU256:
		switch c := r.Intn(20); {
		case c == 0 && !g.honor:
			g.odd = true // nil
		case c == 1 && !g.honor:
			v.Set(reflect.ValueOf(big.NewInt(-int64(1 + r.Intn(3)))))
			g.odd = true
		case c == 2 && !g.honor:
			v.Set(reflect.ValueOf(new(big.Int).Lsh(big.NewInt(1), 256)))
			g.odd = true
		case c < 6:
			v.Set(reflect.ValueOf(new(big.Int).Sub(new(big.Int).Lsh(big.NewInt(1), uint(vx.Pick(r, []int{8, 64, 255, 256}))), big.NewInt(1))))
		case c < 10:
			v.Set(reflect.ValueOf(new(big.Int).SetUint64(g.smallInt())))
		default:
			x := new(big.Int)
			for i := 0; i < 4; i++ {
				x.Lsh(x, 64).Or(x, new(big.Int).SetUint64(r.U64()))
			}
			v.Set(reflect.ValueOf(x))
		}
	case KTime:
		switch c := r.Intn(12); {
		case c == 0:
			v.Set(reflect.ValueOf(time.Unix(0, 0)))
		case c == 1:
			v.Set(reflect.ValueOf(time.Unix(0, math.MaxInt64)))
		case c == 2 && !g.honor:
			v.Set(reflect.ValueOf(time.Unix(-int64(1+r.Intn(1000)), int64(r.Intn(1000000000)))))
			g.lossy = true
		case c == 3 && !g.honor:
			v.Set(reflect.ValueOf(time.Unix(9223372036+int64(r.Intn(3)), int64(r.Intn(1000000000)))))
			g.lossy = true
		case c == 4 && !g.honor:
			v.Set(reflect.ValueOf(time.Date(vx.Pick(r, []int{3000, 1500, 1, 100000}), 1, 2, 3, 4, 5, 6, time.UTC)))
			g.lossy = true
		default:
			v.Set(reflect.ValueOf(time.Unix(0, int64(r.U64()>>1))))
		}
	case KPtr:
		if !g.honor && r.Chance(1, 25) {
			g.odd = true
			return v // nil
		}
		p := reflect.New(n.Elem.T)
		p.Elem().Set(g.gen(n.Elem))
		v.Set(p)
	case KStruct:
		for i, f := range n.Fields {
			switch f.K {
			case FOpt:
				if r.Chance(1, 3) {
					continue // nil optional
				}
				saveH := g.honor
				g.honor = true // a present optional is non-nil
				fv := g.gen(f.N)
				g.honor = saveH
				v.Field(i).Set(fv)
			case FEmbPtr:
				if !g.honor && r.Chance(1, 10) {
					g.odd = true
					continue
				}
				saveH := g.honor
				g.honor = true
				fv := g.gen(f.N)
				g.honor = saveH
				v.Field(i).Set(fv)
			default:
				v.Field(i).Set(g.gen(f.N))
			}
		}
	case KSlice, KArr:
		honor := g.honor || r.Chance(2, 3)
		cnt := n.N
		if n.K == KSlice {
			cnt = g.length(n.Rules.Min, n.Rules.Max, honor)
		}
		elems := g.genElems(n, cnt, honor)
		if n.K == KSlice {
			if len(elems) == 0 && r.Bool() {
				return v // nil slice
			}
			s := reflect.MakeSlice(n.T, 0, len(elems))
			for _, e := range elems {
				s = reflect.Append(s, e)
			}
			v.Set(s)
		} else {
			for i, e := range elems {
				v.Index(i).Set(e)
			}
		}
	case KMap:
		honor := g.honor || r.Chance(2, 3)
		cnt := g.length(n.Rules.Min, n.Rules.Max, honor)
		if cnt == 0 && r.Bool() {
			return v // nil map
		}
		m := reflect.MakeMap(n.T)
		for i := 0; i < cnt*2 && m.Len() < cnt; i++ {
			saveH := g.honor
			g.honor = true
			k := g.gen(n.Key)
			g.honor = saveH
			m.SetMapIndex(k, g.gen(n.Elem))
		}
		v.Set(m)
	case KIface:
		if len(n.Iface.Alts) == 0 || (!g.honor && r.Chance(1, 25)) {
			g.odd = true
			return v
		}
		a := vx.Pick(r, n.Iface.Alts)
		saveH := g.honor
		g.honor = true
		v.Set(g.gen(a.N))
		g.honor = saveH
	}
	return v
}

// genElems generates the elements of a slice/array; with honor it tries to satisfy nodup / lexical order /
// at-most-one-of-each-type / must-occur.
func (g *VGen) genElems(n *Node, cnt int, honor bool) []reflect.Value {
	r := g.r
	e := n.Elem
	var out []reflect.Value
	ru := n.Rules
	if honor && (ru.One8 || ru.One32 || len(ru.Must) > 0) && e.K == KIface && len(e.Iface.Alts) > 0 {
		// pick distinct alternatives, the must-occur ones first
		var alts []Alt
		for _, c := range ru.Must {
			for _, a := range e.Iface.Alts {
				if a.Code == c {
					alts = append(alts, a)
				}
			}
		}
		for _, a := range e.Iface.Alts {
			dup := false
			for _, b := range alts {
				dup = dup || b.Code == a.Code
			}
			if !dup && r.Bool() {
				alts = append(alts, a)
			}
		}
		if !(ru.One8 || ru.One32) {
			for len(alts) < cnt {
				alts = append(alts, vx.Pick(r, e.Iface.Alts))
			}
		}
		if n.K == KArr {
			for len(alts) < cnt {
				alts = append(alts, vx.Pick(r, e.Iface.Alts))
			}
			alts = alts[:cnt]
		}
		for _, a := range alts {
			v := reflect.New(e.T).Elem()
			saveH := g.honor
			g.honor = true
			v.Set(g.gen(a.N))
			g.honor = saveH
			out = append(out, v)
		}
	} else {
		if honor && (ru.One8 || ru.One32) && n.K == KSlice && cnt > 1 {
			cnt = 1
		}
		for i := 0; i < cnt; i++ {
			out = append(out, g.gen(e))
		}
	}
	if honor && ru.NoDup && n.K == KSlice {
		seen := map[string]bool{}
		var u []reflect.Value
		for _, v := range out {
			k := toCoq(e, v)
			if !seen[k] {
				seen[k] = true
				u = append(u, v)
			}
		}
		if uint64(len(u)) >= ru.Min {
			out = u
		}
	}
	if honor && ru.Lex && !n.Auto {
		// order by the real element encoding (only used to produce valid inputs; the oracles do not depend on it)
		type kv struct {
			k []byte
			v reflect.Value
		}
		var ks []kv
		ok := true
		for _, v := range out {
			b, cls, _ := doEncodeElem(g.sh, e, v)
			ok = ok && cls == ""
			ks = append(ks, kv{b, v})
		}
		if ok {
			sort.SliceStable(ks, func(i, j int) bool { return bytes.Compare(ks[i].k, ks[j].k) < 0 })
			for i := range ks {
				out[i] = ks[i].v
			}
		}
	}
	return out
}

// ---------- Go value -> model value term ----------

func coqZ(x *big.Int) string { return vx.ZBig(x) }

func toCoq(n *Node, v reflect.Value) string {
	switch n.K {
	case KBool:
		return "(VBool " + vx.Bool(v.Bool()) + ")"
	case KInt:
		switch {
		case n.Float && n.W == 4:
			return "(VInt " + vx.ZU(uint64(math.Float32bits(v.Interface().(float32)))) + ")"
		case n.Float:
			return "(VInt " + vx.ZU(math.Float64bits(v.Interface().(float64))) + ")"
		case n.Signed:
			return "(VInt " + vx.Z(v.Int()) + ")"
		}
		return "(VInt " + vx.ZU(v.Uint()) + ")"
	case KString:
		return "(VBytes " + vx.Bytes([]byte(v.String())) + ")"
	case KBytes:
		return "(VBytes " + vx.Bytes(v.Bytes()) + ")"
	case KByteArr:
		b := make([]byte, n.N)
		reflect.Copy(reflect.ValueOf(b), v)
		return "(VBytes " + vx.Bytes(b) + ")"
	case KCustom:
		return "(VBytes " + vx.Bytes(zooPayload(v)) + ")"
	case KU256:
		if v.IsNil() {
			return "VNil"
		}
		return "(VBig " + coqZ(v.Interface().(*big.Int)) + ")"
	case KTime:
		t := v.Interface().(time.Time)
		x := new(big.Int).Mul(big.NewInt(t.Unix()), big.NewInt(1000000000))
		x.Add(x, big.NewInt(int64(t.Nanosecond())))
		return "(VTime " + coqZ(x) + ")"
	case KPtr:
		if v.IsNil() {
			return "VNil"
		}
		return toCoq(n.Elem, v.Elem())
	case KStruct:
		items := make([]string, len(n.Fields))
		for i, f := range n.Fields {
			items[i] = toCoq(f.N, v.Field(i))
		}
		return "(VL " + vx.List(items) + ")"
	case KSlice, KArr:
		items := make([]string, v.Len())
		for i := range items {
			items[i] = toCoq(n.Elem, v.Index(i))
		}
		return "(VL " + vx.List(items) + ")"
	case KMap:
		var items []string
		it := v.MapRange()
		for it.Next() {
			items = append(items, vx.Pair(toCoq(n.Key, it.Key()), toCoq(n.Elem, it.Value())))
		}
		sort.Strings(items)
		return "(VMap " + vx.List(items) + ")"
	case KIface:
		if v.IsNil() {
			return "VNil"
		}
		d := v.Elem()
		for _, a := range n.Iface.Alts {
			if a.N.T == d.Type() {
				return fmt.Sprintf("(VIface %d %s)", a.Code, toCoq(a.N, d))
			}
		}
		return "(VIface 999999 VNil)"
	}
	return "VNil"
}

// canonPrint: the printed value with unordered collections (maps, auto-sorted slices) as sorted multisets, used by
// the Go-side round-trip oracle (independent of the encoder: no byte order is consulted).
func canonPrint(n *Node, v reflect.Value) string {
	switch n.K {
	case KPtr:
		if v.IsNil() {
			return "VNil"
		}
		return canonPrint(n.Elem, v.Elem())
	case KStruct:
		items := make([]string, len(n.Fields))
		for i, f := range n.Fields {
			items[i] = canonPrint(f.N, v.Field(i))
		}
		return "(VL " + vx.List(items) + ")"
	case KSlice, KArr:
		items := make([]string, v.Len())
		for i := range items {
			items[i] = canonPrint(n.Elem, v.Index(i))
		}
		if n.Auto && n.Rules.Lex {
			sort.Strings(items)
		}
		return "(VL " + vx.List(items) + ")"
	case KMap:
		var items []string
		it := v.MapRange()
		for it.Next() {
			items = append(items, vx.Pair(canonPrint(n.Key, it.Key()), canonPrint(n.Elem, it.Value())))
		}
		sort.Strings(items)
		return "(VMap " + vx.List(items) + ")"
	case KIface:
		if v.IsNil() {
			return "VNil"
		}
		d := v.Elem()
		for _, a := range n.Iface.Alts {
			if a.N.T == d.Type() {
				return fmt.Sprintf("(VIface %d %s)", a.Code, canonPrint(a.N, d))
			}
		}
		return "(VIface ? " + strings.ReplaceAll(d.Type().String(), " ", "") + ")"
	}
	return toCoq(n, v)
}

// maxLen: the largest collection length inside a decoded value (iteration oracle)
func maxLen(n *Node, v reflect.Value, depth int) int {
	m := 0
	up := func(x int) {
		if x > m {
			m = x
		}
	}
	if depth > 16 {
		return 0
	}
	switch n.K {
	case KPtr:
		if !v.IsNil() {
			up(maxLen(n.Elem, v.Elem(), depth+1))
		}
	case KStruct:
		for i, f := range n.Fields {
			up(maxLen(f.N, v.Field(i), depth+1))
		}
	case KSlice, KArr:
		up(v.Len())
		for i := 0; i < v.Len() && i < 64; i++ {
			up(maxLen(n.Elem, v.Index(i), depth+1))
		}
	case KMap:
		up(v.Len())
		it := v.MapRange()
		for it.Next() {
			up(maxLen(n.Elem, it.Value(), depth+1))
		}
	case KIface:
		if !v.IsNil() {
			d := v.Elem()
			for _, a := range n.Iface.Alts {
				if a.N.T == d.Type() {
					up(maxLen(a.N, d, depth+1))
				}
			}
		}
	}
	return m
}
